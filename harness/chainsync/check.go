package chainsync

import (
	"bytes"
	"crypto/sha256"
	"encoding/json"
	"fmt"
	"math/rand"
	"os"
	"sort"
	"strings"
	"sync"
	"time"

	"github.com/rs/zerolog"

	"verif/harness/core"
	"verif/harness/ev"
	"verif/harness/fakepg"
	"verif/harness/tlc"
)

// Op is one entry of a history printed by ChainSyncMC.
type Op struct {
	Op   string `json:"op"` // mine | switch | sync
	A    int    `json:"a"`
	Ev   string `json:"ev"`
	K    string `json:"k"`
	At   int    `json:"at"`
	Post struct {
		Synced AbsSynced `json:"synced"`
		Stored []AbsRow  `json:"stored"`
	} `json:"post"`
	T struct {
		Rb  bool  `json:"rb"`
		Gap int   `json:"gap"`
		Off bool  `json:"off"`
		Emp bool  `json:"emp"`
		Nr  int   `json:"nr"`
		Rel []int `json:"rel"`
		Bx  bool  `json:"bx"`
	} `json:"t"`
}

// class is the code path of a sync step (rollback, skipped blocks, several ranges, fault).
func (o Op) class() string {
	nr := o.T.Nr
	if nr > 2 {
		nr = 2
	}
	rel := append([]int{}, o.T.Rel...)
	sort.Ints(rel)
	return fmt.Sprintf("rb=%v gap=%v off=%v emp=%v nr=%d k=%s pre=%v rel=%v bx=%v", o.T.Rb, o.T.Gap, o.T.Off, o.T.Emp, nr, o.K, o.K != "none" && o.At == 0, rel, o.T.Bx)
}

func (o Op) post() AbsState { return AbsState{Synced: o.Post.Synced, Rows: o.Post.Stored} }

// Plan is one instance of the ChainSync model plus the syncer flavours its behaviours are
// replayed on.
type Plan struct {
	Name                                    string
	MaxBlocks, MaxNum, MaxLeaves, MaxEvents int
	Keys                                    []string
	D, MaxR, Start0                         int
	Precond                                 string
	FKinds                                  []string
	NoBad                                   bool
	GapSet                                  []int // Extend(k): runs of k eventless blocks in one step
	MaxRuns                                 int
	MinRunBase                              int
	ClassToks                               []string // value-classed event tokens
	Fault0Only                              bool     // faults only right after / instead of the rollback transaction
	LeafHeads                               bool     // the head switches only to leaves
	MinForkNum, SyncFrom                    int      // shape long chains: forks / syncs only at or above these block numbers
	SimNum, SimLen                          int      // > 0: behaviours come from TLC simulation
	Flavors                                 []string
	Stretch                                 int
	MaxBeh                                  int // cap on replayed behaviours per flavour
	EnumEvery                               int // full concrete fault enumeration on every n-th behaviour (1 = all)
}

// codeShape says which variant of the code-shaped spec describes the CURRENT repository code.
// Before the repairs of this check (out/fixes/C15-1.diff, C15-2.diff) it was:
// reorg "next" for all three, errm "logged" for registry, "dropped" for sequencer.
func codeShape(fl string) (errm, reorg string) {
	return "returned", "gap"
}

func (p Plan) cfgFor(fl string) Cfg {
	errm, reorg := codeShape(fl)
	start := p.Start0
	if fl == FlMulti0 && start < 1 {
		// MultiEventSyncer starts at SyncStartBlockNumber+1 >= 1; block 0 (the root) carries no events
		start = 1
	}
	return Cfg{D: p.D, MaxR: p.MaxR, Start0: start, ErrM: errm, Reorg: reorg}
}

// classToks lists k1_e_g for the given classes except the plain combination ok/ok.
func classToks(eons, f2s []string) []string {
	out := []string{}
	for _, e := range eons {
		for _, g := range f2s {
			if e != "ok" || g != "ok" {
				out = append(out, "k1_"+e+"_"+g)
			}
		}
	}
	return out
}

func intList(l []int) string {
	q := []string{}
	for _, n := range l {
		q = append(q, fmt.Sprint(n))
	}
	return strings.Join(q, ", ")
}

func quoteList(l []string) string {
	q := []string{}
	for _, s := range l {
		q = append(q, fmt.Sprintf("%q", s))
	}
	return strings.Join(q, ", ")
}

func (p Plan) module() (string, []byte) {
	name := "MCgen_CS_" + strings.ReplaceAll(p.Name, "-", "_")
	body := fmt.Sprintf("---- MODULE %s ----\nEXTENDS ChainSyncMC\ncKeySeq == <<%s>>\n====\n", name, quoteList(p.Keys))
	return name, []byte(body)
}

func (p Plan) cfgText(errm, reorg string, sim bool) string {
	var b strings.Builder
	simLen := 0
	if sim {
		simLen = p.SimLen
	}
	fmt.Fprintf(&b, "CONSTANTS\n  MaxBlocks = %d\n  MaxNum = %d\n  MaxLeaves = %d\n  MaxEvents = %d\n  KeySeq <- cKeySeq\n",
		p.MaxBlocks, p.MaxNum, p.MaxLeaves, p.MaxEvents)
	fmt.Fprintf(&b, "  D = %d\n  MaxR = %d\n  Start0 = %d\n  ErrMode = %q\n  Reorg = %q\n  Precond = %q\n  FKinds = {%s}\n  Emit = TRUE\n  SimLen = %d\n  MinForkNum = %d\n  SyncFrom = %d\n  AllowBad = %s\n  GapSet = {%s}\n  MaxRuns = %d\n  MinRunBase = %d\n  MaxFaultAt = %d\n  LeafHeads = %s\n  ClassToks = {%s}\n",
		p.D, p.MaxR, p.Start0, errm, reorg, p.Precond, quoteList(p.FKinds), simLen, p.MinForkNum, p.SyncFrom, strings.ToUpper(fmt.Sprint(!p.NoBad)), intList(p.GapSet), p.MaxRuns, p.MinRunBase, map[bool]int{true: 0, false: 1000000}[p.Fault0Only], strings.ToUpper(fmt.Sprint(p.LeafHeads)), quoteList(p.ClassToks))
	fmt.Fprintf(&b, "SPECIFICATION Spec\nINVARIANT C15_InvCex\nINVARIANT EmitInv\nVIEW View\nCHECK_DEADLOCK FALSE\n")
	return b.String()
}

// Gen is what TLC produced for a plan.
type Gen struct {
	Plan       Plan
	Behaviours [][]Op
	Cex        [][]Op
	States     int
	Distinct   int
	Wall       float64
	SpecViol   string
}

func parseHists(raw []string) ([][]Op, error) {
	out := [][]Op{}
	for _, r := range raw {
		s, err := tlc.UnquoteTLA(r)
		if err != nil {
			return nil, err
		}
		var h []Op
		if err := json.Unmarshal([]byte(s), &h); err != nil {
			return nil, fmt.Errorf("history: %v", err)
		}
		out = append(out, h)
	}
	return out, nil
}

// Generate model-checks the plan (C15 on the code-shaped spec of the current code) and collects
// the histories TLC prints.
func Generate(c *core.Ctx, p Plan) (*Gen, error) {
	mod, body := p.module()
	errm, reorg := codeShape(p.Flavors[0])
	g := &Gen{Plan: p}
	if p.SimNum > 0 {
		res, err := tlc.Run(tlc.Opts{Module: mod, CfgText: p.cfgText(errm, reorg, true), Workers: 1, Timeout: 20 * time.Minute, HeapGB: 6,
			Files: map[string][]byte{mod + ".tla": body},
			Extra: []string{"-simulate", fmt.Sprintf("num=%d", p.SimNum), "-depth", fmt.Sprint(p.SimLen + 1), "-seed", fmt.Sprint(c.Seed + 11)}})
		if err != nil {
			return nil, err
		}
		g.States, g.Distinct, g.Wall = res.States, res.Distinct, res.Wall.Seconds()
		if res.Errored != "" || res.TimedOut {
			return nil, fmt.Errorf("TLC simulation failed on %s: %s\n%s", p.Name, res.Errored, res.Tail(20))
		}
		if res.Violation {
			g.SpecViol = res.ViolatedWhat
		}
		if g.Behaviours, err = parseHists(res.Tagged["B"]); err != nil {
			return nil, err
		}
		if g.Cex, err = parseHists(res.Tagged["CEX"]); err != nil {
			return nil, err
		}
		return g, nil
	}
	res, err := tlc.Run(tlc.Opts{Module: mod, CfgText: p.cfgText(errm, reorg, false), Workers: 4, Timeout: 40 * time.Minute, HeapGB: 10,
		Files: map[string][]byte{mod + ".tla": body}})
	if err != nil {
		return nil, err
	}
	g.States, g.Distinct, g.Wall = res.States, res.Distinct, res.Wall.Seconds()
	if res.Violation {
		g.SpecViol = res.ViolatedWhat
	} else if !res.Completed || res.TimedOut || res.Distinct == 0 || res.Errored != "" {
		return nil, fmt.Errorf("TLC did not complete on %s: %s\n%s", p.Name, res.Errored, res.Tail(25))
	}
	if g.Behaviours, err = parseHists(res.Tagged["B"]); err != nil {
		return nil, err
	}
	if g.Cex, err = parseHists(res.Tagged["CEX"]); err != nil {
		return nil, err
	}
	return g, nil
}

// Line is one trace line (ChainSyncTrace.tla).
type Line struct {
	Fl     string     `json:"fl"`
	Cfg    Cfg        `json:"cfg"`
	Blk    []AbsBlk   `json:"blk"`
	Canon  int        `json:"canon"`
	States []AbsState `json:"states"`
	Ret    string     `json:"ret"`
}

// Origin remembers where a (deduplicated) line was first observed.
type Origin struct {
	Plan    string    `json:"plan"`
	Flavor  string    `json:"flavor"`
	Cfg     Cfg       `json:"cfg"`
	Stretch int       `json:"stretch"`
	Seed    int64     `json:"seed"`
	Hist    []Op      `json:"hist"` // history up to and including the sync step
	Fault   ConcFault `json:"fault"`
	Err     string    `json:"err,omitempty"`
	Line    Line      `json:"line"`
}

// Stats of a replay.
type Stats struct {
	Behaviours, Syncs, Calls, Diverged int
	NonTrivial                         int // calls that committed something
}

type recorder struct {
	mu    sync.Mutex
	lines map[string]*Origin
	order []string
}

func (r *recorder) add(o *Origin) {
	b, _ := json.Marshal(o.Line)
	k := string(b)
	r.mu.Lock()
	if _, ok := r.lines[k]; !ok {
		r.lines[k] = o
		r.order = append(r.order, k)
	}
	r.mu.Unlock()
}

// replayBehaviour runs one history on a fresh world. Every sync step is executed fault-free and,
// when enum is set, under every concrete fault; the behaviour continues with a run whose final
// state is the one TLC predicted.
func replayBehaviour(p Plan, fl string, seed int64, hist []Op, enum bool, rec *recorder, st *Stats) error {
	cfg := p.cfgFor(fl)
	w, err := NewWorld(fl, cfg, p.Stretch, seed)
	if err != nil {
		return err
	}
	defer w.Close()
	st.Behaviours++
	for i, op := range hist {
		switch op.Op {
		case "mine":
			w.Mine(op.A, op.Ev)
		case "switch":
			w.Switch(op.A)
		case "ext":
			w.Extend(op.At, op.A)
		case "sync":
			st.Syncs++
			snap := w.PG.Snapshot()
			want := op.post().Canon()
			var chosen *fakepg.DB
			record := func(f ConcFault, o CallObs) {
				st.Calls++
				if len(o.States) > 1 {
					st.NonTrivial++
				}
				line := Line{Fl: fl, Cfg: cfg, Blk: w.TreeCopy(), Canon: w.Canon, States: o.States, Ret: o.Ret}
				rec.add(&Origin{Plan: p.Name, Flavor: fl, Cfg: cfg, Stretch: p.Stretch, Seed: seed, Hist: hist[:i+1], Fault: f, Err: o.Err, Line: line})
				if chosen == nil && o.States[len(o.States)-1].Canon() == want && (op.K != "none" || f.Side == "") {
					chosen = w.PG.Snapshot()
				}
			}
			ref := w.RunSync(ConcFault{})
			record(ConcFault{}, ref)
			if enum || chosen == nil {
				for _, f := range Candidates(ref.NRPC, ref.NDB) {
					if !enum && chosen != nil {
						break
					}
					w.PG.Restore(snap)
					record(f, w.RunSync(f))
				}
			}
			if chosen == nil {
				st.Diverged++
				return nil // the real code cannot follow the model here; the lines recorded so far tell why (drift)
			}
			w.PG.Restore(chosen)
		}
	}
	return nil
}

// VResult is the RESULT record of ChainSyncTrace.
type VResult struct {
	Lines int     `json:"lines"`
	Viol  [][]any `json:"viol"`
	Drift []int   `json:"drift"`
}

func validate(module string, lines [][]byte, workers int) ([]VResult, []int, error) {
	if len(lines) == 0 {
		return nil, nil, nil
	}
	per := (len(lines) + workers - 1) / workers
	if per < 200 {
		per = 200
	}
	type job struct{ lo, hi int }
	var jobs []job
	for lo := 0; lo < len(lines); lo += per {
		hi := lo + per
		if hi > len(lines) {
			hi = len(lines)
		}
		jobs = append(jobs, job{lo, hi})
	}
	res := make([]VResult, len(jobs))
	errs := make([]error, len(jobs))
	offs := make([]int, len(jobs))
	var wg sync.WaitGroup
	sem := make(chan struct{}, workers)
	for i, j := range jobs {
		wg.Add(1)
		go func(i int, j job) {
			defer wg.Done()
			sem <- struct{}{}
			defer func() { <-sem }()
			offs[i] = j.lo
			trace := append(bytes.Join(lines[j.lo:j.hi], []byte("\n")), '\n')
			cfg := "CONSTANTS\n  TraceFile = \"trace.ndjson\"\nSPECIFICATION TSpec\nINVARIANT Done\nCHECK_DEADLOCK FALSE\n"
			r, err := tlc.Run(tlc.Opts{Module: module, CfgText: cfg, Workers: 1, Timeout: 30 * time.Minute, HeapGB: 4,
				Files: map[string][]byte{"trace.ndjson": trace}})
			if err != nil {
				errs[i] = err
				return
			}
			if r.Errored != "" {
				errs[i] = fmt.Errorf("TLC error during trace validation: %s\n%s", r.Errored, r.Tail(30))
				return
			}
			if err := r.TaggedJSON("RESULT", &res[i]); err != nil {
				errs[i] = fmt.Errorf("trace validation did not reach the end of the trace: %v\n%s", err, r.Tail(30))
			}
		}(i, j)
	}
	wg.Wait()
	for _, e := range errs {
		if e != nil {
			return nil, nil, e
		}
	}
	return res, offs, nil
}

// Finding is a pass-A failure on an observed call.
type Finding struct {
	Monitor string  `json:"monitor"`
	Origin  *Origin `json:"origin"`
}

// Outcome of one plan.
type Outcome struct {
	Gen      *Gen
	Stats    Stats
	Lines    int
	Moving   int // distinct observed calls that committed at least one transaction
	Traces   int
	Findings []Finding
	Drift    []*Origin
}

func histKey(h []Op) string {
	b, _ := json.Marshal(h)
	s := sha256.Sum256(b)
	return string(s[:])
}

// selectBehaviours keeps maximal histories (a history that is a prefix of another is implied) and
// caps their number with a seeded sample.
func selectBehaviours(beh [][]Op, maxBeh int, seed int64) [][]Op {
	prefixes := map[string]bool{}
	for _, h := range beh {
		for i := 1; i < len(h); i++ {
			if h[i-1].Op == "sync" {
				prefixes[histKey(h[:i])] = true
			}
		}
	}
	var out [][]Op
	for _, h := range beh {
		if !prefixes[histKey(h)] {
			out = append(out, h)
		}
	}
	rng := rand.New(rand.NewSource(seed))
	rng.Shuffle(len(out), func(i, j int) { out[i], out[j] = out[j], out[i] })
	if maxBeh > 0 && len(out) > maxBeh {
		// stratified by the code path of the last sync step, round robin over the classes
		classes := map[string][][]Op{}
		var names []string
		for _, h := range out {
			k := h[len(h)-1].class()
			for _, o := range h { // value-classed events: every class combination is replayed
				if o.Op == "mine" && strings.Count(o.Ev, "_") == 2 {
					k += " " + o.Ev
				}
			}
			if _, ok := classes[k]; !ok {
				names = append(names, k)
			}
			classes[k] = append(classes[k], h)
		}
		sort.Strings(names)
		for _, k := range names {
			l := classes[k]
			sort.SliceStable(l, func(i, j int) bool { return score(l[i]) > score(l[j]) })
		}
		var pick [][]Op
		for i := 0; len(pick) < maxBeh; i++ {
			added := false
			for _, k := range names {
				if i < len(classes[k]) && len(pick) < maxBeh {
					pick = append(pick, classes[k][i])
					added = true
				}
			}
			if !added {
				break
			}
		}
		out = pick
	}
	return out
}

func score(h []Op) int {
	s := 0
	for _, o := range h {
		if o.Op == "sync" {
			s++
			if o.K != "none" {
				s += 2
			}
		}
		if o.Op == "switch" {
			s++
		}
	}
	return s
}

// ReplayAndValidate replays the behaviours of a plan on every flavour and validates the lines.
func ReplayAndValidate(c *core.Ctx, g *Gen, extra [][]Op) (*Outcome, error) {
	p := g.Plan
	out := &Outcome{Gen: g}
	rec := &recorder{lines: map[string]*Origin{}}
	beh := selectBehaviours(g.Behaviours, p.MaxBeh, c.Seed)
	beh = append(append(append([][]Op{}, g.Cex...), extra...), beh...)
	type task struct {
		fl   string
		h    []Op
		enum bool
	}
	var tasks []task
	for _, fl := range p.Flavors {
		for i, h := range beh {
			tasks = append(tasks, task{fl, h, p.EnumEvery > 0 && i%p.EnumEvery == 0})
		}
	}
	var mu sync.Mutex
	var firstErr error
	var wg sync.WaitGroup
	ch := make(chan task)
	for k := 0; k < c.Workers; k++ {
		wg.Add(1)
		go func() {
			defer wg.Done()
			for t := range ch {
				var st Stats
				err := replayBehaviour(p, t.fl, c.Seed, t.h, t.enum, rec, &st)
				mu.Lock()
				out.Stats.Behaviours += st.Behaviours
				out.Stats.Syncs += st.Syncs
				out.Stats.Calls += st.Calls
				out.Stats.Diverged += st.Diverged
				out.Stats.NonTrivial += st.NonTrivial
				if err != nil && firstErr == nil {
					firstErr = err
				}
				mu.Unlock()
			}
		}()
	}
	for _, t := range tasks {
		ch <- t
	}
	close(ch)
	wg.Wait()
	if firstErr != nil {
		return nil, firstErr
	}
	lines := make([][]byte, len(rec.order))
	for i, k := range rec.order {
		lines[i] = []byte(k)
		if len(rec.lines[k].Line.States) > 1 {
			out.Moving++
		}
	}
	res, offs, err := validate("ChainSyncTrace", lines, c.Workers)
	if err != nil {
		return nil, err
	}
	for i, r := range res {
		out.Traces++
		out.Lines += r.Lines
		for _, v := range r.Viol {
			if len(v) != 2 {
				continue
			}
			n, _ := v[0].(float64)
			m, _ := v[1].(string)
			out.Findings = append(out.Findings, Finding{Monitor: m, Origin: rec.lines[rec.order[offs[i]+int(n)-1]]})
		}
		for _, n := range r.Drift {
			out.Drift = append(out.Drift, rec.lines[rec.order[offs[i]+n-1]])
		}
	}
	return out, nil
}

func plansC15(thorough bool) []Plan {
	d := func(q, t int) int {
		if thorough {
			return t
		}
		return q
	}
	all := []string{"db", "dbc"}
	return []Plan{
		// exhaustive, depth 2: replayed on the MultiEventSyncer (AssumedReorgDepth = 2, range 2)
		{Name: "multi-d2", MaxBlocks: d(5, 6), MaxNum: 4, MaxLeaves: 2, MaxEvents: 2, Keys: []string{"k1", "k2"},
			D: 2, MaxR: 2, Start0: 1, Precond: "depth", FKinds: all, Flavors: []string{FlMulti}, Stretch: 1, MaxBeh: d(400, 6000), EnumEvery: d(4, 2)},
		// exhaustive, depth 1: with 5 blocks a rollback stops at a block that carries an event (event at,
		// just above, just below the rollback target)
		{Name: "multi-d1", MaxBlocks: d(5, 6), MaxNum: 4, MaxLeaves: 2, MaxEvents: 2, Keys: []string{"k1", "k2"},
			D: 1, MaxR: 2, Start0: 1, Precond: "depth", FKinds: all, Flavors: []string{FlMulti}, Stretch: 1, MaxBeh: d(300, 4000), EnumEvery: d(4, 2)},
		// exhaustive on shaped long chains for the constant depth 10: linear up to block 10, forks and
		// syncs only above, so that the rollback target (synced - 10) is block 1, 2 or 3 and events sit
		// at, above and below it; all three syncers (MultiEventSyncer configured with depth 10)
		{Name: "d10-edge", MaxBlocks: d(14, 15), MaxNum: d(12, 13), MaxLeaves: 2, MaxEvents: d(1, 2), Keys: []string{"k1", "k2"}, NoBad: true,
			D: constDepth, MaxR: constRange, Start0: 1, Precond: "depth", FKinds: []string{"db"}, MinForkNum: 10, SyncFrom: 11,
			Flavors: []string{FlRegistry, FlSequencer, FlMulti}, Stretch: 1, MaxBeh: d(150, 1500), EnumEvery: d(8, 4)},
		// large gaps relative to the code's constants, modelled as ONE step "extend by k" (a run record),
		// materialised by fakeeth: k = depth-1, depth, depth+1 and request range + 1, after fork switches
		// that were seen only as a step back or a head of the same height; all three syncers with the
		// constants 10 / 10000 (chains of up to 10 000+ real blocks)
		{Name: "gap-const", MaxBlocks: 4, MaxNum: 3, MaxLeaves: 2, MaxEvents: d(1, 2), Keys: []string{"k1", "k2"}, NoBad: true,
			D: constDepth, MaxR: constRange, Start0: 1, Precond: "depth", FKinds: []string{"db"}, GapSet: []int{constDepth - 1, constDepth, constDepth + 1, constRange + 1}, MaxRuns: 1,
			Flavors: []string{FlRegistry, FlSequencer, FlMulti}, Stretch: 1, MaxBeh: d(120, 1000), EnumEvery: d(8, 4)},
		// the same with the MultiEventSyncer's settable constants (depth 2, range 4), two runs
		{Name: "gap-multi", MaxBlocks: 4, MaxNum: 3, MaxLeaves: 2, MaxEvents: d(1, 2), Keys: []string{"k1", "k2"}, NoBad: true,
			D: 2, MaxR: 4, Start0: 1, Precond: "depth", FKinds: []string{"db"}, GapSet: []int{2, 3, 5}, MaxRuns: 1,
			Flavors: []string{FlMulti}, Stretch: 1, MaxBeh: d(200, 2000), EnumEvery: d(8, 4)},
		// admissibility boundaries: one event whose eon / second numeric field (gas limit, timestamp,
		// expiration block) is ordinary, 2^63-1, 2^63, 2^64-1 (gas limit also 2^64+21000, 2^256-1), each
		// alone and combined; the spec's Admissible decides, stored values are part of the row name
		{Name: "adm-seq", MaxBlocks: 4, MaxNum: 3, MaxLeaves: 1, MaxEvents: 2, Keys: []string{}, NoBad: true,
			ClassToks: classToks([]string{"ok", "max", "p63", "u64"}, []string{"ok", "max", "p63", "u64", "wrap", "top"}),
			D:         constDepth, MaxR: constRange, Start0: 0, Precond: "depth", FKinds: []string{"db"}, Fault0Only: true,
			Flavors: []string{FlSequencer}, Stretch: 1, MaxBeh: d(150, 1000), EnumEvery: d(8, 4)},
		{Name: "adm-reg", MaxBlocks: 4, MaxNum: 3, MaxLeaves: 1, MaxEvents: 2, Keys: []string{}, NoBad: true,
			ClassToks: classToks([]string{"ok", "max", "p63", "u64"}, []string{"ok", "max"}),
			D:         constDepth, MaxR: constRange, Start0: 0, Precond: "depth", FKinds: []string{"db"}, Fault0Only: true,
			Flavors: []string{FlRegistry}, Stretch: 1, MaxBeh: d(80, 500), EnumEvery: d(8, 4)},
		{Name: "adm-multi", MaxBlocks: 4, MaxNum: 3, MaxLeaves: 1, MaxEvents: 2, Keys: []string{}, NoBad: true,
			ClassToks: classToks([]string{"ok", "max", "p63", "u64"}, []string{"ok", "max", "p63", "u64"}),
			D:         2, MaxR: 2, Start0: 1, Precond: "depth", FKinds: []string{"db"}, Fault0Only: true,
			Flavors: []string{FlMulti}, Stretch: 1, MaxBeh: d(120, 800), EnumEvery: d(8, 4)},
		// a committed rollback whose resync fails, then a SECOND fork that branches off below the rollback
		// target, then a good head: 7 blocks, 3 leaves, depth 1 (MultiEventSyncer) ...
		{Name: "rbfail-multi", MaxBlocks: 7, MaxNum: 3, MaxLeaves: 3, MaxEvents: 1, Keys: []string{"k1"}, NoBad: true,
			D: 1, MaxR: 10, Start0: 1, Precond: "depth", FKinds: []string{"dbc"}, Fault0Only: true, LeafHeads: true,
			Flavors: []string{FlMulti}, Stretch: 1, MaxBeh: d(200, 2000), EnumEvery: d(8, 4)},
		// ... and with the constant depth 10 through compressed runs (two runs of 10 / 11 blocks), all three syncers
		{Name: "rbfail-const", MaxBlocks: 4, MaxNum: 2, MaxLeaves: 3, MaxEvents: 1, Keys: []string{"k1"}, NoBad: true,
			D: constDepth, MaxR: constRange, Start0: 1, Precond: "depth", FKinds: []string{"dbc"}, GapSet: []int{constDepth, constDepth + 1}, MaxRuns: 2, MinRunBase: 1, Fault0Only: true, LeafHeads: true,
			Flavors: []string{FlRegistry, FlSequencer, FlMulti}, Stretch: 1, MaxBeh: d(100, 1000), EnumEvery: d(8, 4)},
		// exhaustive, the constants of the two other syncers (depth 10, one range): every reorg rolls back to 0
		{Name: "const-d10-small", MaxBlocks: d(5, 6), MaxNum: 4, MaxLeaves: 2, MaxEvents: 2, Keys: []string{"k1", "k2"},
			D: constDepth, MaxR: constRange, Start0: 0, Precond: "depth", FKinds: all,
			Flavors: []string{FlRegistry, FlSequencer}, Stretch: 1, MaxBeh: d(250, 4000), EnumEvery: d(4, 2)},
		// simulation, depth 10 on long chains: rollbacks that stop above 0
		{Name: "const-d10-long", MaxBlocks: d(22, 26), MaxNum: d(16, 20), MaxLeaves: 3, MaxEvents: 5, Keys: []string{"k1", "k2", "k3"},
			D: constDepth, MaxR: constRange, Start0: 0, Precond: "depth", FKinds: []string{"db", "dbc"},
			SimNum: d(30, 300), SimLen: d(40, 50),
			Flavors: []string{FlRegistry, FlSequencer}, Stretch: 1, MaxBeh: 0, EnumEvery: d(10, 6)},
		// simulation, MultiEventSyncer with depth 3 and range 4 on long chains: partial rollbacks, several ranges
		{Name: "multi-d3-long", MaxBlocks: d(18, 24), MaxNum: d(14, 18), MaxLeaves: 3, MaxEvents: 5, Keys: []string{"k1", "k2", "k3"},
			D: 3, MaxR: 4, Start0: 1, Precond: "depth", FKinds: []string{"db", "dbc"},
			SimNum: d(40, 300), SimLen: d(36, 46),
			Flavors: []string{FlMulti}, Stretch: 1, MaxBeh: 0, EnumEvery: d(10, 6)},
		// several ranges per call on the syncers with the constant range 10000: linear chains,
		// one abstract block = 5000 real blocks
		{Name: "const-ranges", MaxBlocks: d(5, 6), MaxNum: d(4, 5), MaxLeaves: 1, MaxEvents: 3, Keys: []string{"k1", "k2", "k3"},
			D: constDepth, MaxR: 2, Start0: 0, Precond: "depth", FKinds: all,
			Flavors: []string{FlRegistry, FlSequencer}, Stretch: constRange / 2, MaxBeh: d(40, 400), EnumEvery: d(2, 1)},
	}
}

// FlMulti0 is an alias of the MultiEventSyncer flavour (start block forced to >= 1).
const FlMulti0 = "multi10"

func assumptions() []string {
	return []string{
		"TLC and the Go toolchain are correct; fakeeth (JSON-RPC node) and fakepg (PostgreSQL) behave like the real services for the calls and statements the syncers use",
		"the offered header is the fake node's canonical head and the head does not move inside one Sync call",
		"a contract never emits the same key twice on one branch (registration is refused by the contracts); the same key on two forks is covered",
		"at most one event per block in the generated trees; exhaustive only within the constants of each plan",
	}
}

func init() { zerolog.SetGlobalLevel(zerolog.Disabled) }

// Check runs C15 or C16.
func Check(c *core.Ctx) int {
	switch c.Prop {
	case "C15":
		if c.Replay != "" {
			return replayC15(c)
		}
		return checkC15(c)
	case "C16":
		return checkC16(c)
	}
	fmt.Println("INCONCLUSIVE: no check for", c.Prop)
	return core.ExitInconclusive
}

func checkC15(c *core.Ctx) int {
	if m, err := fakepg.CheckRepo("/repo/rolling-shutter"); err != nil || len(m) > 0 {
		fmt.Printf("INCONCLUSIVE: SQL of the repository differs from what fakepg implements: %v %v\n", m, err)
		return core.ExitInconclusive
	}
	known := core.LoadKnown().For("C15")
	var outs []*Outcome
	violations := 0
	knownHits := map[string]int{}
	plans := plansC15(c.Thorough())
	if only := os.Getenv("VERIF_ONLY_PLAN"); only != "" { // development aid
		var keep []Plan
		for _, p := range plans {
			if strings.Contains(","+only+",", ","+p.Name+",") {
				keep = append(keep, p)
			}
		}
		plans = keep
	}
	gens := make([]*Gen, len(plans))
	gerrs := make([]error, len(plans))
	var gwg sync.WaitGroup
	for i, p := range plans {
		c.Logf("plan %s: TLC (%d blocks, depth %d, range %d, sim=%d)", p.Name, p.MaxBlocks, p.D, p.MaxR, p.SimNum)
		gwg.Add(1)
		go func(i int, p Plan) {
			defer gwg.Done()
			gens[i], gerrs[i] = Generate(c, p)
		}(i, p)
	}
	gwg.Wait()
	for i, p := range plans {
		g, err := gens[i], gerrs[i]
		if err != nil {
			fmt.Println("INCONCLUSIVE:", err)
			return core.ExitInconclusive
		}
		c.Logf("plan %s: %d distinct states, %d behaviours, %d spec counterexamples %q (%.1fs)", p.Name, g.Distinct, len(g.Behaviours), len(g.Cex), g.SpecViol, g.Wall)
		out, err := ReplayAndValidate(c, g, nil)
		if err != nil {
			fmt.Println("INCONCLUSIVE:", err)
			return core.ExitInconclusive
		}
		outs = append(outs, out)
		c.Logf("plan %s: %d behaviours replayed, %d Sync steps, %d real calls, %d distinct lines validated, %d findings, %d drift, %d diverged",
			p.Name, out.Stats.Behaviours, out.Stats.Syncs, out.Stats.Calls, out.Lines, len(out.Findings), len(out.Drift), out.Stats.Diverged)
		if out.Stats.Behaviours == 0 || out.Lines == 0 || out.Stats.NonTrivial == 0 {
			fmt.Printf("INCONCLUSIVE: plan %s replayed nothing\n", p.Name)
			return core.ExitInconclusive
		}
		for i, o := range out.Drift {
			if i < 5 {
				fmt.Printf("DRIFT plan=%s flavour=%s fault=%s ret=%s states=%s (observed call is not a call of the code-shaped spec)\n",
					p.Name, o.Flavor, o.Fault, o.Line.Ret, statesString(o.Line.States))
			}
		}
		if out.Stats.Diverged > out.Stats.Behaviours/2 {
			fmt.Printf("INCONCLUSIVE: plan %s: the real code could not follow %d of %d behaviours\n", p.Name, out.Stats.Diverged, out.Stats.Behaviours)
			return core.ExitInconclusive
		}
		reported := 0
		for _, f := range out.Findings {
			if kf := matchKnownC15(known, f); kf != nil {
				knownHits[kf.ID]++
				continue
			}
			violations++
			if reported < 3 {
				reported++
				path := c.WriteReplay(fmt.Sprintf("%s-%s-%d", p.Name, f.Monitor, reported), f.Origin)
				c.Violation(path, fmt.Sprintf("monitor %s failed: plan=%s flavour=%s fault=%s ret=%s states=%s canon=%d tree=%s",
					f.Monitor, p.Name, f.Origin.Flavor, f.Origin.Fault, f.Origin.Line.Ret, statesString(f.Origin.Line.States), f.Origin.Line.Canon, treeString(f.Origin.Line.Blk)))
			}
		}
		if g.SpecViol != "" && len(out.Findings) == 0 {
			fmt.Printf("INCONCLUSIVE: MODEL-MISMATCH plan %s: TLC found %s on the code-shaped spec but the real code does not reproduce it\n", p.Name, g.SpecViol)
			return core.ExitInconclusive
		}
	}
	for _, kf := range known {
		if knownHits[kf.ID] > 0 {
			core.PrintKnown(kf)
		}
	}
	writeEvidenceC15(c, outs, violations)
	if violations > 0 {
		return core.ExitViolation
	}
	fmt.Printf("OK property=C15 tier=%s seed=%d\n", c.Tier, c.Seed)
	return core.ExitOK
}

func matchKnownC15(known []core.Finding, f Finding) *core.Finding {
	for i := range known {
		m := known[i].Match
		if mon, _ := m["monitor"].(string); mon != "" && mon != f.Monitor {
			continue
		}
		if fl, _ := m["flavor"].(string); fl != "" && fl != f.Origin.Flavor {
			continue
		}
		if pl, _ := m["plan"].(string); pl != "" && pl != f.Origin.Plan {
			continue
		}
		return &known[i]
	}
	return nil
}

func statesString(s []AbsState) string {
	parts := []string{}
	for _, a := range s {
		rows := []string{}
		for _, r := range a.Rows {
			rows = append(rows, fmt.Sprintf("%s@%d/b%d", r.Key, r.Num, r.Bid))
		}
		pos := "none"
		if a.Synced.Has {
			pos = fmt.Sprintf("(%d,b%d)", a.Synced.Num, a.Synced.Hash)
		}
		parts = append(parts, fmt.Sprintf("%s{%s}", pos, strings.Join(rows, " ")))
	}
	return strings.Join(parts, " -> ")
}

func treeString(b []AbsBlk) string {
	parts := []string{}
	for i, x := range b {
		parts = append(parts, fmt.Sprintf("b%d:n%d^b%d%v", i+1, x.Num, x.Par, x.Evs))
	}
	return strings.Join(parts, " ")
}

func writeEvidenceC15(c *core.Ctx, outs []*Outcome, violations int) {
	states, trans, traces, lines, calls, beh, nontriv, moving := 0, 0, 0, 0, 0, 0, 0, 0
	plans := []any{}
	samples := []any{}
	for _, o := range outs {
		states += o.Gen.Distinct
		trans += o.Gen.States
		traces += o.Traces
		lines += o.Lines
		calls += o.Stats.Calls
		beh += o.Stats.Behaviours
		nontriv += o.Stats.NonTrivial
		moving += o.Moving
		p := o.Gen.Plan
		plans = append(plans, map[string]any{"plan": p.Name, "flavours": p.Flavors, "depth": p.D, "max_range": p.MaxR, "max_blocks": p.MaxBlocks,
			"stretch": p.Stretch, "simulated": p.SimNum, "tlc_distinct_states": o.Gen.Distinct, "tlc_states_generated": o.Gen.States, "tlc_wall_s": o.Gen.Wall,
			"behaviours_replayed": o.Stats.Behaviours, "sync_steps": o.Stats.Syncs, "real_sync_calls": o.Stats.Calls,
			"distinct_lines_validated": o.Lines, "drift_lines": len(o.Drift), "diverged": o.Stats.Diverged})
		if len(o.Gen.Behaviours) > 0 {
			h := o.Gen.Behaviours[len(o.Gen.Behaviours)/2]
			samples = append(samples, map[string]any{"plan": p.Name, "history": histString(h)})
		}
	}
	if len(samples) == 0 {
		samples = append(samples, "nothing replayed")
	}
	cov := map[string]any{
		"states": states, "transitions": trans, "traces_validated_against_impl": traces, "samples": samples,
		"evaluations": calls, "distinct_nontrivial": moving, "distinct_lines_validated": lines, "behaviours": beh, "calls_that_committed": nontriv, "plans": plans,
		"rule": "TLC checks C15_Exact/C15_Atomic on the code-shaped spec for every tree, head sequence and fault of each plan and prints the first history reaching each state; " +
			"the histories are replayed on the real syncers (fakeeth + fakepg); every Sync step is also run under every concrete fault (each RPC call index, each database statement index: SQL error, connection drop, commit-then-drop, context cancellation); " +
			"evaluations = calls of the real Sync; distinct_nontrivial = distinct observed calls (flavour, tree, head, committed state sequence, result) that committed at least one transaction, each validated by ChainSyncTrace (pass A monitors, pass B conformance); states/transitions count the exhaustive plans only (TLC prints no state count in simulation mode)",
	}
	if err := ev.Write(ev.Evidence{PropertyID: c.Prop, Tier: c.Tier, Seed: c.Seed, Level: "model_checking", Coverage: cov,
		Assumptions: assumptions(), WallS: time.Since(c.Start).Seconds(), Violations: violations}); err != nil {
		fmt.Fprintln(os.Stderr, "cannot write evidence:", err)
	}
}

func histString(h []Op) string {
	parts := []string{}
	for _, o := range h {
		switch o.Op {
		case "mine":
			parts = append(parts, fmt.Sprintf("mine(b%d,%q)", o.A, o.Ev))
		case "switch":
			parts = append(parts, fmt.Sprintf("head(b%d)", o.A))
		case "ext":
			parts = append(parts, fmt.Sprintf("extend(b%d,+%d)", o.At, o.A))
		case "sync":
			if o.K == "none" {
				parts = append(parts, "sync")
			} else {
				parts = append(parts, fmt.Sprintf("sync[%s@%d]", o.K, o.At))
			}
		}
	}
	return strings.Join(parts, " ")
}

// replayC15 re-executes a replay file written by a violation.
func replayC15(c *core.Ctx) int {
	b, err := os.ReadFile(c.Replay)
	if err != nil {
		fmt.Println("INCONCLUSIVE:", err)
		return core.ExitInconclusive
	}
	var o Origin
	if err := json.Unmarshal(b, &o); err != nil {
		fmt.Println("INCONCLUSIVE:", err)
		return core.ExitInconclusive
	}
	p := Plan{Name: o.Plan, D: o.Cfg.D, MaxR: o.Cfg.MaxR, Start0: o.Cfg.Start0, Stretch: o.Stretch}
	rec := &recorder{lines: map[string]*Origin{}}
	var st Stats
	// the last sync step runs under the recorded fault only
	if err := replayBehaviourWithFault(p, o.Flavor, o.Seed, o.Hist, o.Fault, rec, &st); err != nil {
		fmt.Println("INCONCLUSIVE:", err)
		return core.ExitInconclusive
	}
	lines := [][]byte{}
	for _, k := range rec.order {
		lines = append(lines, []byte(k))
	}
	res, _, err := validate("ChainSyncTrace", lines, 1)
	if err != nil {
		fmt.Println("INCONCLUSIVE:", err)
		return core.ExitInconclusive
	}
	bad := 0
	for _, r := range res {
		for _, v := range r.Viol {
			n, _ := v[0].(float64)
			m, _ := v[1].(string)
			or := rec.lines[rec.order[int(n)-1]]
			fmt.Printf("  monitor %s failed: fault=%s ret=%s states=%s\n", m, or.Fault, or.Line.Ret, statesString(or.Line.States))
			bad++
		}
	}
	if bad > 0 {
		c.Violation(c.Replay, "replayed")
		return core.ExitViolation
	}
	fmt.Printf("OK property=C15 replay=%s (%d lines)\n", c.Replay, len(lines))
	return core.ExitOK
}

func replayBehaviourWithFault(p Plan, fl string, seed int64, hist []Op, f ConcFault, rec *recorder, st *Stats) error {
	if len(hist) == 0 {
		return fmt.Errorf("empty history")
	}
	cfg := p.cfgFor(fl)
	w, err := NewWorld(fl, cfg, p.Stretch, seed)
	if err != nil {
		return err
	}
	defer w.Close()
	for i, op := range hist {
		switch op.Op {
		case "mine":
			w.Mine(op.A, op.Ev)
		case "switch":
			w.Switch(op.A)
		case "ext":
			w.Extend(op.At, op.A)
		case "sync":
			lastStep := i == len(hist)-1
			snap := w.PG.Snapshot()
			want := op.post().Canon()
			run := func(cf ConcFault) (CallObs, bool) {
				o := w.RunSync(cf)
				st.Calls++
				rec.add(&Origin{Plan: p.Name, Flavor: fl, Cfg: cfg, Stretch: p.Stretch, Seed: seed, Hist: hist[:i+1], Fault: cf, Err: o.Err,
					Line: Line{Fl: fl, Cfg: cfg, Blk: w.TreeCopy(), Canon: w.Canon, States: o.States, Ret: o.Ret}})
				return o, o.States[len(o.States)-1].Canon() == want
			}
			if lastStep {
				run(f)
				return nil
			}
			ref, ok := run(ConcFault{})
			if ok && op.K == "none" {
				continue
			}
			found := false
			for _, cf := range Candidates(ref.NRPC, ref.NDB) {
				w.PG.Restore(snap)
				if _, ok := run(cf); ok {
					found = true
					break
				}
			}
			if !found {
				return fmt.Errorf("step %d: no concrete fault leads to the recorded state", i)
			}
		}
	}
	return nil
}
