// Package chainsync binds the ChainSync (C15) and EventTrigger (C16) TLA+ specifications to the
// real contract-event syncers of the repository: shutterservice.RegistrySyncer,
// shutterservice.MultiEventSyncer (with both real processors) and gnosis.SequencerSyncer, running
// against the in-process fakes fakeeth (execution node serving a block tree) and fakepg (PostgreSQL).
package chainsync

import (
	"context"
	"encoding/hex"
	"fmt"
	"math"
	"math/big"
	"sort"
	"strconv"
	"strings"

	"github.com/ethereum/go-ethereum/common"
	"github.com/ethereum/go-ethereum/core/types"
	"github.com/ethereum/go-ethereum/crypto"
	"github.com/jackc/pgx/v4/pgxpool"
	triggerRegistry "github.com/shutter-network/contracts/v2/bindings/shuttereventtriggerregistryv1"
	registry "github.com/shutter-network/contracts/v2/bindings/shutterregistry"
	sequencer "github.com/shutter-network/gnosh-contracts/gnoshcontracts/sequencer"

	"github.com/shutter-network/rolling-shutter/rolling-shutter/keyperimpl/gnosis"
	"github.com/shutter-network/rolling-shutter/rolling-shutter/keyperimpl/shutterservice"

	"verif/harness/fakeeth"
	"verif/harness/fakepg"
)

// Cfg is the abstract configuration of a syncer (ChainSync.tla cfg).
type Cfg struct {
	D      int    `json:"d"`
	MaxR   int    `json:"maxr"`
	Start0 int    `json:"start0"`
	ErrM   string `json:"errm"`
	Reorg  string `json:"reorg"`
}

// AbsSynced / AbsRow / AbsState are the projected database state.
type AbsSynced struct {
	Has  bool `json:"has"`
	Num  int  `json:"num"`
	Hash int  `json:"hash"`
}
type AbsRow struct {
	Key string `json:"key"`
	Num int    `json:"num"`
	Bid int    `json:"bid"`
}
type AbsState struct {
	Synced AbsSynced `json:"synced"`
	Rows   []AbsRow  `json:"rows"`
}

func (a AbsState) Canon() string {
	r := append([]AbsRow(nil), a.Rows...)
	sort.Slice(r, func(i, j int) bool {
		if r[i].Key != r[j].Key {
			return r[i].Key < r[j].Key
		}
		if r[i].Num != r[j].Num {
			return r[i].Num < r[j].Num
		}
		return r[i].Bid < r[j].Bid
	})
	return fmt.Sprintf("%v|%v", a.Synced, r)
}

// AbsBlk is one block of the abstract tree.
type AbsBlk struct {
	Num int      `json:"num"`
	Par int      `json:"par"`
	Evs []string `json:"evs"`
	Exp int      `json:"exp"` // C16: expiration block of the registration in this block (0 = none)
	Len int      `json:"len"` // > 1: a run of Len eventless blocks (numbers Num-Len+1 .. Num); the record names the last
}

// runBig: block j places below the last block of run record i has the abstract id i + j*runBig
// (ChainSync.tla Big).
const runBig = 1000

const (
	FlMulti     = "multi"
	FlRegistry  = "registry"
	FlSequencer = "sequencer"
)

// the repository's constants for the two syncers whose parameters are not settable
const (
	constDepth = 10
	constRange = 10000
)

var (
	addrRegistry  = common.HexToAddress("0x00000000000000000000000000000000000c0001")
	addrTrigReg   = common.HexToAddress("0x00000000000000000000000000000000000c0002")
	addrSequencer = common.HexToAddress("0x00000000000000000000000000000000000c0003")
	addrTarget    = common.HexToAddress("0x00000000000000000000000000000000000c0004")
	addrOther     = common.HexToAddress("0x00000000000000000000000000000000000c0005")
	addrSender    = common.HexToAddress("0x00000000000000000000000000000000000a0001")
)

const eonOK = 3

// World is one fake node + one fake database + one real syncer.
type World struct {
	Fl        string
	Cfg       Cfg
	S         int // stretch: one abstract block = S real blocks (S > 1 only for linear chains)
	Seed      int64
	Eth       *fakeeth.Node
	PG        *fakepg.Server
	Pool      *pgxpool.Pool
	Blk       []AbsBlk
	Canon     int
	sync      func(ctx context.Context, h *types.Header) error
	nBad      int
	nOther    int
	leader    *World // C16: a follower keyper shares the leader's node and tree
	midTarget int    // C16: the leaf the node switches to in the middle of a Sync call
}

// NewWorld builds the fakes and the real syncer of the flavour.
func NewWorld(fl string, cfg Cfg, stretch int, seed int64) (*World, error) {
	if fl == FlMulti0 {
		fl = FlMulti
	}
	w := &World{Fl: fl, Cfg: cfg, S: stretch, Seed: seed}
	if w.S < 1 {
		w.S = 1
	}
	ctx := context.Background()
	w.Eth = fakeeth.New()
	w.PG = fakepg.New()
	w.PG.SetLogging(false)
	pool, err := w.PG.Pool(ctx)
	if err != nil {
		return nil, err
	}
	w.Pool = pool
	// root = abstract block 1, number 0
	w.Blk = []AbsBlk{{Num: 0, Par: -1, Evs: []string{}, Len: 1}}
	w.Eth.AddRoot(realID(1, 0), 0)
	if w.S > 1 {
		w.Eth.AddFiller(realID(1, 0), "f1_", w.S-1)
	}
	w.Canon = 1
	w.Eth.SetHead(w.headID(1))
	client := w.Eth.Client()
	switch fl {
	case FlRegistry:
		if cfg.D != constDepth || cfg.MaxR*w.S != constRange {
			return nil, fmt.Errorf("registry syncer has depth %d and range %d", constDepth, constRange)
		}
		c, err := registry.NewShutterregistry(addrRegistry, client)
		if err != nil {
			return nil, err
		}
		s := &shutterservice.RegistrySyncer{Contract: c, DBPool: pool, ExecutionClient: client, SyncStartBlockNumber: uint64(cfg.Start0 * w.S)}
		w.sync = s.Sync
	case FlSequencer:
		if cfg.D != constDepth || cfg.MaxR*w.S != constRange {
			return nil, fmt.Errorf("sequencer syncer has depth %d and range %d", constDepth, constRange)
		}
		c, err := sequencer.NewSequencer(addrSequencer, client)
		if err != nil {
			return nil, err
		}
		s := &gnosis.SequencerSyncer{Contract: c, DBPool: pool, ExecutionClient: client, GenesisSlotTimestamp: 1_600_000_000,
			SecondsPerSlot: 5, SyncStartBlockNumber: uint64(cfg.Start0 * w.S)}
		w.sync = s.Sync
	case FlMulti:
		if cfg.Start0 < 1 || w.S != 1 {
			return nil, fmt.Errorf("multi event syncer: start0 >= 1 and no stretch")
		}
		c, err := triggerRegistry.NewShuttereventtriggerregistryv1(addrTrigReg, client)
		if err != nil {
			return nil, err
		}
		procs := []shutterservice.EventProcessor{
			shutterservice.NewEventTriggerRegisteredEventProcessor(c, pool),
			shutterservice.NewTriggerProcessor(client, pool),
		}
		s, err := shutterservice.NewMultiEventSyncer(pool, client, uint64(cfg.Start0-1), procs)
		if err != nil {
			return nil, err
		}
		s.AssumedReorgDepth = cfg.D
		s.MaxRequestBlockRange = uint64(cfg.MaxR)
		w.sync = s.Sync
	default:
		return nil, fmt.Errorf("unknown flavour %s", fl)
	}
	return w, nil
}

func (w *World) Close() {
	w.Pool.Close()
	w.PG.Close()
	if w.leader == nil {
		w.Eth.Close()
	}
}

func realID(abs, j int) string { return fmt.Sprintf("b%d_%d", abs, j) }

// headID is the real block whose header stands for abstract block b (the last of its S blocks).
func (w *World) headID(b int) string {
	if blk := w.tree()[b-1]; blk.Len > 1 {
		return fmt.Sprintf("b%d_r%d", b, blk.Num)
	}
	if w.S == 1 {
		return realID(b, 0)
	}
	if b == 1 {
		return fmt.Sprintf("f1_%d", w.S-1)
	}
	return realID(b, w.S-1)
}

// absOfReal maps a real block to (abstract id, last-of-its-group?).
func (w *World) absOfReal(b *fakeeth.Block) (int, bool) {
	id := b.ID
	if strings.HasPrefix(id, "f1_") {
		return 1, int(b.Num) == w.S-1
	}
	var a, j int
	if strings.Contains(id, "_r") { // inside a run: "b<record>_r<block number>"
		if _, err := fmt.Sscanf(id, "b%d_r%d", &a, &j); err != nil || a < 1 || a > len(w.tree()) {
			return -2, false
		}
		return a + (w.tree()[a-1].Num-j)*runBig, true
	}
	if _, err := fmt.Sscanf(id, "b%d_%d", &a, &j); err != nil {
		return -2, false
	}
	if a == 1 {
		return 1, w.S == 1
	}
	return a, j == w.S-1
}

func keyPrefix(key string) [32]byte {
	return crypto.Keccak256Hash([]byte("verif-key-" + key))
}

func keyIndex(key string) uint64 {
	n, _ := strconv.Atoi(strings.TrimPrefix(key, "k"))
	return uint64(n)
}

// validDefinition is a well-formed trigger definition on a contract that never emits anything
// (C15: the trigger processor then only adds RPC traffic).
func validDefinition(key string) []byte {
	d := shutterservice.EventTriggerDefinition{
		Contract: addrOther,
		LogPredicates: []shutterservice.LogPredicate{{
			LogValueRef:    shutterservice.LogValueRef{Offset: 0},
			ValuePredicate: shutterservice.ValuePredicate{Op: shutterservice.BytesEq, ByteArgs: [][]byte{crypto.Keccak256([]byte("topic-" + key))}},
		}},
	}
	return d.MarshalBytes()
}

// eventLog concretises an abstract event of a block for the flavour. "x" is an event the syncer
// must discard; the way it is inadmissible rotates.
func (w *World) eventLog(ev string) fakeeth.LogSpec {
	bad := ev == "x"
	key, eonCl, f2Cl := ev, "ok", "ok"
	if parts := strings.Split(ev, "_"); len(parts) == 3 { // value-classed token k_e_g (ChainSync.tla ClassTok)
		key, eonCl, f2Cl = parts[0], parts[1], parts[2]
	}
	if bad {
		w.nBad++
		key = fmt.Sprintf("bad%d", w.nBad)
	}
	prefix := keyPrefix(key)
	eon := classU64(eonCl, eonOK)
	// the way an "x" event is inadmissible depends on the block it lands in, so every way occurs
	// in every position over the replayed histories
	rot := len(w.Blk) + int(w.Seed)
	switch w.Fl {
	case FlRegistry:
		if bad {
			eon = []uint64{1 << 63, math.MaxUint64, uint64(math.MaxInt64) + 1 + uint64(w.nBad)}[rot%3]
		}
		return fakeeth.IdentityRegistered(addrRegistry, eon, prefix, addrSender, classU64(f2Cl, 1000+keyIndex(key)))
	case FlSequencer:
		gas := classBig(f2Cl, 21000)
		idx := keyIndex(key)
		if bad {
			idx = 900 + uint64(w.nBad)
			switch rot % 6 {
			case 0:
				eon = 1 << 63
			case 1:
				eon = math.MaxUint64
			case 2:
				gas = classBig("p63", 0)
			case 3:
				gas = classBig("wrap", 21000) // low 64 bits look like an ordinary gas limit
			case 4:
				gas = classBig("top", 0)
			default:
				eon, gas = 1<<63, classBig("p63", 0)
			}
		}
		return fakeeth.TransactionSubmitted(addrSequencer, eon, idx, prefix, addrSender, []byte{0xca, 0xfe}, gas)
	default:
		def := validDefinition(key)
		expiry := classU64(f2Cl, 1_000_000)
		if bad {
			switch rot % 6 {
			case 0:
				eon = uint64(math.MaxInt64) + 1
			case 1:
				expiry = uint64(math.MaxInt64) + 1
			case 2:
				def = []byte{0x02, 0xc0} // version ok, RLP of an empty list: not a definition
			case 3:
				eon = math.MaxUint64
			case 4:
				expiry = math.MaxUint64
			default: // decodable but invalid: a dynamic reference to a topic
				d := shutterservice.EventTriggerDefinition{Contract: addrOther, LogPredicates: []shutterservice.LogPredicate{{
					LogValueRef:    shutterservice.LogValueRef{Dynamic: true, Offset: 1},
					ValuePredicate: shutterservice.ValuePredicate{Op: shutterservice.BytesEq, ByteArgs: [][]byte{crypto.Keccak256([]byte("x"))}}}}}
				def = d.MarshalBytes()
			}
		}
		return fakeeth.EventTriggerRegistered(addrTrigReg, eon, prefix, addrSender, def, expiry)
	}
}

// classU64 / classBig concretise a value class of ChainSync.tla (ok = the ordinary value given).
func classU64(cl string, ok uint64) uint64 {
	switch cl {
	case "max":
		return math.MaxInt64
	case "p63":
		return 1 << 63
	case "u64":
		return math.MaxUint64
	}
	return ok
}

func classBig(cl string, ok int64) *big.Int {
	one := big.NewInt(1)
	switch cl {
	case "max":
		return big.NewInt(math.MaxInt64)
	case "p63":
		return new(big.Int).Lsh(one, 63)
	case "u64":
		return new(big.Int).Sub(new(big.Int).Lsh(one, 64), one)
	case "wrap":
		return new(big.Int).Add(new(big.Int).Lsh(one, 64), big.NewInt(21000))
	case "top":
		return new(big.Int).Sub(new(big.Int).Lsh(one, 256), one)
	}
	return big.NewInt(ok)
}

// storedTok names a stored row: the key and, unless both are ordinary, the classes of the STORED
// eon and second numeric field ("?" = a value no admissible event has).
func storedTok(key string, eon, f2, f2ok int64) string {
	cl := func(v, ok int64) string {
		switch v {
		case ok:
			return "ok"
		case math.MaxInt64:
			return "max"
		}
		return "?"
	}
	e, g := cl(eon, eonOK), cl(f2, f2ok)
	if e == "ok" && g == "ok" {
		return key
	}
	return key + "_" + e + "_" + g
}

// Mine adds abstract block len+1 on top of p with at most one event and makes it the head.
func (w *World) Mine(p int, ev string) int {
	id := len(w.Blk) + 1
	evs := []string{}
	if ev != "" {
		evs = []string{ev}
	}
	w.Blk = append(w.Blk, AbsBlk{Num: w.Blk[p-1].Num + 1, Par: p, Evs: evs, Len: 1})
	parent := w.headID(p)
	off := 0
	if w.S > 1 {
		off = int((w.Seed + int64(7*id)) % int64(w.S))
		if off < 0 {
			off += w.S
		}
	}
	for j := 0; j < w.S; j++ {
		var logs []fakeeth.LogSpec
		if ev != "" && j == off {
			logs = []fakeeth.LogSpec{w.eventLog(ev)}
		}
		w.Eth.AddBlock(realID(id, j), parent, logs)
		parent = realID(id, j)
	}
	w.Switch(id)
	return id
}

// Extend adds a run of k eventless blocks on top of block p as ONE abstract record and makes its
// last block the head.
func (w *World) Extend(p, k int) int {
	id := len(w.Blk) + 1
	parent := w.headID(p)
	num := w.Blk[p-1].Num + k
	w.Blk = append(w.Blk, AbsBlk{Num: num, Par: p, Evs: []string{}, Len: k})
	w.Eth.AddFiller(parent, fmt.Sprintf("b%d_r", id), k)
	w.Switch(id)
	return id
}

func (w *World) tree() []AbsBlk {
	if w.leader != nil {
		return w.leader.Blk
	}
	return w.Blk
}

// Switch moves the canonical head to abstract block b.
func (w *World) Switch(b int) {
	w.Canon = b
	w.Eth.SetHead(w.headID(b))
}

// HeadHeader is the header offered to Sync.
func (w *World) HeadHeader() *types.Header { return w.Eth.Head().Header }

func (w *World) absHash(h []byte, position bool) int {
	if len(h) == 0 {
		return 0
	}
	b := w.Eth.ByHash(common.BytesToHash(h))
	if b == nil || len(h) != 32 {
		return -2
	}
	a, last := w.absOfReal(b)
	if position && !last {
		return -3
	}
	return a
}

func (w *World) absPosNum(n int64) int {
	if w.S == 1 {
		return int(n)
	}
	if (n+1)%int64(w.S) != 0 {
		return -1
	}
	return int((n+1)/int64(w.S)) - 1
}

func (w *World) keyOfPrefix(p []byte) string {
	for i := 0; i < 40; i++ {
		k := fmt.Sprintf("k%d", i)
		kp := keyPrefix(k)
		if string(kp[:]) == string(p) {
			return k
		}
	}
	return "?" + hex.EncodeToString(p)[:8]
}

// Abs projects the database (C15 view).
func (w *World) Abs(db *fakepg.DB) AbsState {
	st := AbsState{Rows: []AbsRow{}}
	switch w.Fl {
	case FlRegistry:
		for _, r := range db.IdentityRegisteredEventsSyncedUntil {
			st.Synced = AbsSynced{Has: true, Num: w.absPosNum(r.BlockNumber), Hash: w.absHash(r.BlockHash, true)}
		}
		for _, r := range db.IdentityRegisteredEvent {
			k := w.keyOfPrefix(r.IdentityPrefix)
			st.Rows = append(st.Rows, AbsRow{Key: storedTok(k, r.Eon, r.Timestamp, int64(1000+keyIndex(k))), Num: int(r.BlockNumber) / w.S, Bid: w.absHash(r.BlockHash, false)})
		}
	case FlSequencer:
		for _, r := range db.TransactionSubmittedEventsSyncedUntil {
			st.Synced = AbsSynced{Has: true, Num: w.absPosNum(r.BlockNumber), Hash: w.absHash(r.BlockHash, true)}
		}
		for _, r := range db.TransactionSubmittedEvent {
			k := w.keyOfPrefix(r.IdentityPrefix)
			st.Rows = append(st.Rows, AbsRow{Key: storedTok(k, r.Eon, r.GasLimit, 21000), Num: int(r.BlockNumber) / w.S, Bid: w.absHash(r.BlockHash, false)})
		}
	default:
		for _, r := range db.MultiEventSyncStatus {
			st.Synced = AbsSynced{Has: true, Num: w.absPosNum(r.BlockNumber), Hash: w.absHash(r.BlockHash, true)}
		}
		for _, r := range db.EventTriggerRegisteredEvent {
			st.Rows = append(st.Rows, AbsRow{Key: storedTok(w.keyOfPrefix(r.IdentityPrefix), r.Eon, r.ExpirationBlockNumber, 1_000_000), Num: int(r.BlockNumber) / w.S, Bid: w.absHash(r.BlockHash, false)})
		}
	}
	sort.Slice(st.Rows, func(i, j int) bool {
		a, b := st.Rows[i], st.Rows[j]
		if a.Key != b.Key {
			return a.Key < b.Key
		}
		if a.Num != b.Num {
			return a.Num < b.Num
		}
		return a.Bid < b.Bid
	})
	return st
}

// TreeCopy returns the abstract tree for a trace line.
func (w *World) TreeCopy() []AbsBlk {
	out := make([]AbsBlk, len(w.Blk))
	copy(out, w.Blk)
	return out
}
