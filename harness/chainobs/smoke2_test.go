package chainobs

import (
	"encoding/json"
	"fmt"
	"testing"
)

func TestSmoke2(t *testing.T) {
	p := preflightPlan()
	beh := []Action{
		{Op: "mine", Par: 1, F: noFault, Evs: []Ev{data(co(2, 6, 2), "short")}},
		{Op: "mine", Par: 2, F: noFault, Evs: []Ev{}},
		{Op: "ext", Par: 3, K: 3, F: noFault, Evs: []Ev{}},
		{Op: "start", O: 1, F: noFault, Evs: []Ev{}},
		{Op: "poll", O: 1, F: noFault, Evs: []Ev{}},
	}
	for seed := int64(1); seed <= 3; seed++ {
		r := &Run{Plan: p, Beh: beh, Seed: seed, No: 1}
		r.Execute()
		if r.Err != nil {
			t.Fatal(r.Err)
		}
		l := r.Lines[len(r.Lines)-1]
		c := J{}
		for k, v := range l.J {
			if k != "blk" {
				c[k] = v
			}
		}
		b, _ := json.Marshal(c)
		fmt.Println(string(b))
	}
}
