// Package chainobs is the conformance harness of the specification module ChainObs
// (specs/ChainObs*.tla), a growth stage hosted under property C15: the CHAIN OBSERVER
// (chainobserver.ChainObserver + medley/eventsyncer + the keyper / collator config handlers).
//
// The REAL observer is built the way keyperimpl/snapshot/keyper.go builds it
// (deployment.NewContracts over a deployment directory, chainobserver.New, AddListenEvent for
// CollatorConfigsListNewConfig and KeypersConfigsListNewConfig, service.RunBackground) over an
// in-process Ethereum node (harness/fakeeth: block tree, eth_getLogs, eth_call answered by an
// AddrsSeq emulator) and a fakepg database. NewConfig events are ABI-packed with the repository's
// contract bindings. One observer = one node (identical trees) + one database.
//
// Scheduling: the sync loop calls eth_blockNumber once per page; the node's RPC hook holds that
// call until the replayed behaviour takes a "poll" step (a GATE), so a step is exactly one page
// and everything the handler loop does with its items.
package chainobs

import (
	"context"
	"encoding/json"
	"errors"
	"fmt"
	"math"
	"os"
	"path/filepath"
	"sort"
	"strconv"
	"strings"
	"sync"
	"time"

	"github.com/ethereum/go-ethereum/accounts/abi"
	"github.com/ethereum/go-ethereum/common"
	"github.com/ethereum/go-ethereum/core/types"
	ethcrypto "github.com/ethereum/go-ethereum/crypto"
	"github.com/ethereum/go-ethereum/ethclient"
	"github.com/jackc/pgx/v4"
	"github.com/jackc/pgx/v4/pgxpool"

	"github.com/shutter-network/rolling-shutter/rolling-shutter/chainobserver"
	"github.com/shutter-network/rolling-shutter/rolling-shutter/contract"
	"github.com/shutter-network/rolling-shutter/rolling-shutter/contract/deployment"
	"github.com/shutter-network/rolling-shutter/rolling-shutter/medley/eventsyncer"
	"github.com/shutter-network/rolling-shutter/rolling-shutter/medley/service"
	"github.com/shutter-network/rolling-shutter/rolling-shutter/shdb"

	"verif/harness/fakeeth"
	"verif/harness/fakepg"
)

type J = map[string]any

// boundary tokens of specs/ChainObs.tla
const (
	tokM63   = 900000
	tokP63   = 900001
	tokU64   = 900002
	tokT31   = 900003
	tokT32   = 900004
	tokLow   = -500000
	wrapBig  = 1000000
	tokWhat  = -999999 // a stored value no event of the alphabet has
	finOff   = 3
	pageSize = 3
)

var (
	addrKsCfg = common.HexToAddress("0x00000000000000000000000000000000000c0b01") // KeyperConfig
	addrCoCfg = common.HexToAddress("0x00000000000000000000000000000000000c0b02") // CollatorConfig
	addrKsSeq = common.HexToAddress("0x00000000000000000000000000000000000c0b03") // Keypers (AddrsSeq)
	addrCoSeq = common.HexToAddress("0x00000000000000000000000000000000000c0b04") // Collator (AddrsSeq)
	addrOther = common.HexToAddress("0x00000000000000000000000000000000000c0b0f") // filler logs
)

// Ev is one NewConfig event (the record of ChainObs.tla).
type Ev struct {
	T   string `json:"t"`
	Idx int    `json:"idx"`
	Act int    `json:"act"`
	Set int    `json:"set"`
	Thr int    `json:"thr"`
	C   string `json:"c"`
	Pos int    `json:"pos"`
}

// SetDef is one entry of the AddrsSeq table Sets.
type SetDef struct {
	Mem []int  `json:"mem"`
	Ans string `json:"ans"`
}

// Blk is one record of the abstract tree (index in World.Blk = id - 1).
type Blk struct {
	Num int  `json:"num"`
	Par int  `json:"par"`
	Evs []Ev `json:"evs"`
	Len int  `json:"len"`
}

type KsRow struct {
	Idx int   `json:"idx"`
	Act int   `json:"act"`
	Mem []int `json:"mem"`
	Thr int   `json:"thr"`
}

type CoRow struct {
	Act int `json:"act"`
	Col int `json:"col"`
}

// DBj is the projected database of one observer.
type DBj struct {
	Nb int     `json:"nb"`
	Li int     `json:"li"`
	Ks []KsRow `json:"ks"`
	Co []CoRow `json:"co"`
}

type ObJ struct {
	Up bool `json:"up"`
	DB DBj  `json:"db"`
}

// FaultJ is the fault of a step (ChainObs.tla f = [k, at, w]).
type FaultJ struct {
	K  string `json:"k"`
	At int    `json:"at"`
	W  string `json:"w"`
}

var noFault = FaultJ{K: "none", At: 0, W: "-"}

// Consts are the constants of a plan that the concretiser needs.
type Consts struct {
	Sets     []SetDef `json:"sets"`
	DeployKs int      `json:"deployKs"`
	DeployCo int      `json:"deployCo"`
	BaseZero bool     `json:"baseZero"`
	Root     []Ev     `json:"root"`
	NObs     int      `json:"nobs"`
}

var (
	ksABI = mustABI(contract.KeypersConfigsListMetaData.GetAbi())
	coABI = mustABI(contract.CollatorConfigsListMetaData.GetAbi())
	asABI = mustABI(contract.AddrsSeqMetaData.GetAbi())
)

func mustABI(a *abi.ABI, err error) *abi.ABI {
	if err != nil {
		panic(err)
	}
	return a
}

var errInjected = errors.New("verif: injected RPC failure")

// hugeLimit: a GetAddrs that makes more eth_calls than this for ONE handler invocation is
// recorded as unbounded work (the answer of countNth was 2^40) and the observer is stopped.
const hugeLimit = 3000

// observer is one real ChainObserver with its node and database.
type observer struct {
	w    *World
	idx  int
	node *fakeeth.Node
	pg   *fakepg.Server
	pool *pgxpool.Pool

	mu   sync.Mutex
	cond *sync.Cond

	// lifetime of the running service
	up     bool
	cancel context.CancelFunc
	client *ethclient.Client
	done   chan struct{}
	runErr error
	sess   *session         // the running session; RPC calls of any other session (stale, late) fail at once
	real   []*fakeeth.Block // record id-1 -> last real block of the record, on o.node
	// shadow of the cursor in ABSTRACT block numbers (EventSyncer.FromBlock / FromLogIndex and the
	// loop's fromBlock); used ONLY to know how long to wait for a page, never as an oracle
	sessFb, sessFl, curFrom int

	// gate and step state
	atGate    bool
	permits   int
	served    int
	lastHead  uint64
	f         FaultJ
	active    bool
	startFail bool
	rpcBOn    bool
	rpc1Done  bool
	fired     bool
	logRng    []int64 // real from, to of the getLogs calls of the step
	logCalls  int
	txCount   int    // begin messages since the step began
	refused   []bool // per begin message: a fault kept it from opening a transaction
	pre       DBj    // the committed state when the step began
	snaps     []DBj  // the DISTINCT committed states observed since (before every statement and at the end)
	callsInTx int
	unbounded bool
	panicked  string
}

// session identifies one lifetime of the service. Every session gets its OWN node (a replica of the
// world's tree): an eth_blockNumber call that the dying service of an earlier session sent late can
// then never be mistaken for a call of the current one.
type session struct{ no int }

// World is the concrete world of one run.
type World struct {
	C     Consts
	Seed  int64
	base  uint64 // real number of the abstract block 0
	dir   string
	Blk   []Blk
	Canon int
	obs   []*observer
	nsess int
	notes []string
	nmu   sync.Mutex
	// shadowGE: the waiting shadow of the cursor uses ">=" (set when the plan runs with CursorRule "ge")
	shadowGE bool
	calls    int
}

func (w *World) note(format string, a ...any) {
	w.nmu.Lock()
	w.notes = append(w.notes, fmt.Sprintf(format, a...))
	w.nmu.Unlock()
}

func (w *World) takeNotes() []string {
	w.nmu.Lock()
	defer w.nmu.Unlock()
	n := w.notes
	w.notes = nil
	if n == nil {
		n = []string{}
	}
	return n
}

func memberAddr(i int) common.Address {
	return common.BytesToAddress(ethcrypto.Keccak256([]byte(fmt.Sprintf("chainobs-member-%d", i)))[12:])
}

var memberOf = func() map[string]int {
	m := map[string]int{}
	for i := 1; i <= 8; i++ {
		m[shdb.EncodeAddress(memberAddr(i))] = i
	}
	return m
}()

func u64tok(x int) uint64 {
	switch x {
	case tokM63:
		return math.MaxInt64
	case tokP63:
		return 1 << 63
	case tokU64:
		return math.MaxUint64
	case tokT31:
		return 1 << 31
	case tokT32:
		return 1<<32 + 1
	}
	return uint64(x)
}

// NewWorld builds the deployment directory, the root block and the observers' nodes and databases.
func NewWorld(c Consts, seed int64) (*World, error) {
	w := &World{C: c, Seed: seed}
	if !c.BaseZero {
		w.base = 1<<31 - 3 // int32(next block number) turns negative at the abstract block 3
	}
	if c.NObs < 1 {
		c.NObs, w.C.NObs = 2, 2
	}
	dir, err := os.MkdirTemp(scratchRoot(), "verif-chainobs-depl-")
	if err != nil {
		return nil, err
	}
	w.dir = dir
	if err := w.writeDeployment(); err != nil {
		w.Close()
		return nil, err
	}
	w.Blk = []Blk{{Num: 0, Par: -1, Evs: append([]Ev{}, c.Root...), Len: 1}}
	w.Canon = 1
	for i := 0; i < c.NObs; i++ {
		o := &observer{w: w, idx: i + 1}
		o.cond = sync.NewCond(&o.mu)
		o.newNode(nil)
		o.pg = fakepg.New()
		o.pg.SetLogging(true)
		pool, err := o.pg.Pool(context.Background())
		if err != nil {
			w.obs = append(w.obs, o)
			w.Close()
			return nil, err
		}
		o.pool = pool
		o.pg.SetFault(o.pgHook)
		w.obs = append(w.obs, o)
	}
	return w, nil
}

func scratchRoot() string {
	if d := os.Getenv("VERIF_SCRATCH"); d != "" {
		return d
	}
	return os.TempDir()
}

func (w *World) writeDeployment() error {
	if err := os.WriteFile(filepath.Join(w.dir, ".chainId"), []byte("100\n"), 0o644); err != nil {
		return err
	}
	put := func(name string, addr common.Address, abiJSON string, block uint64) error {
		var a []any
		if err := json.Unmarshal([]byte(abiJSON), &a); err != nil {
			return err
		}
		b, err := json.Marshal(J{"address": addr.Hex(), "abi": a, "receipt": J{"blockNumber": block}})
		if err != nil {
			return err
		}
		return os.WriteFile(filepath.Join(w.dir, name+".json"), b, 0o644)
	}
	minD := w.C.DeployKs
	if w.C.DeployCo < minD {
		minD = w.C.DeployCo
	}
	if err := put("KeyperConfig", addrKsCfg, contract.KeypersConfigsListMetaData.ABI, w.base+uint64(w.C.DeployKs)); err != nil {
		return err
	}
	if err := put("CollatorConfig", addrCoCfg, contract.CollatorConfigsListMetaData.ABI, w.base+uint64(w.C.DeployCo)); err != nil {
		return err
	}
	if err := put("Keypers", addrKsSeq, contract.AddrsSeqMetaData.ABI, w.base+uint64(minD)); err != nil {
		return err
	}
	return put("Collator", addrCoSeq, contract.AddrsSeqMetaData.ABI, w.base+uint64(minD))
}

func (w *World) Close() {
	dbg := os.Getenv("VERIF_CHAINOBS_DEBUG") != ""
	lap := func(t0 time.Time, what string) {
		if d := time.Since(t0); dbg && d > time.Second {
			fmt.Fprintf(os.Stderr, "chainobs debug: Close: %s took %s\n", what, d)
		}
	}
	for _, o := range w.obs {
		t0 := time.Now()
		o.stop()
		lap(t0, "stop")
		t0 = time.Now()
		// the server side first: a graceful pgconn close waits up to 15 s for the server to take the
		// Terminate message, which a connection that a fault has left half way never does
		if o.pg != nil {
			o.pg.SetFault(nil)
			o.pg.Close()
		}
		lap(t0, "pg.Close")
		t0 = time.Now()
		if o.pool != nil {
			o.pool.Close()
		}
		lap(t0, "pool.Close")
		t0 = time.Now()
		if o.node != nil {
			o.node.SetFault(func(fakeeth.Call) error { return errors.New("verif: world closed") })
			o.node.Close()
			o.node.Forget()
		}
		lap(t0, "node.Close")
	}
	if w.dir != "" {
		os.RemoveAll(w.dir)
	}
}

func (w *World) pins() []string {
	var p []string
	for _, o := range w.obs {
		p = append(p, o.pg.PinMismatches()...)
	}
	return p
}

// ---------------------------------------------------------------------------------------------
// concretiser: abstract event -> log

func (w *World) concretise(e Ev) fakeeth.LogSpec {
	var l fakeeth.LogSpec
	// the AddrsSeq index of the set token s is s - 1 (Sets is 1-based in the spec)
	set := uint64(e.Set - 1)
	if e.T == "ks" {
		l = fakeeth.PackEvent(ksABI, addrKsCfg, "NewConfig", u64tok(e.Act), set, u64tok(e.Idx), u64tok(e.Thr))
	} else {
		l = fakeeth.PackEvent(coABI, addrCoCfg, "NewConfig", u64tok(e.Act), set, u64tok(e.Idx))
	}
	switch e.C {
	case "short": // rotate through: one byte short / one word short / one byte only
		switch (e.Pos + e.Idx + int(w.Seed)) % 3 {
		case 0:
			l.Data = l.Data[:len(l.Data)-1]
		case 1:
			l.Data = l.Data[:len(l.Data)-32]
		default:
			l.Data = l.Data[:1]
		}
	case "nodata":
		l.Data = []byte{}
	case "xtopic":
		l.Topics = append(append([]common.Hash{}, l.Topics...), common.BigToHash(common.Big1))
	case "wide": // a uint64 word with a bit above 2^64: the first / the last word
		d := append([]byte{}, l.Data...)
		if (e.Pos+int(w.Seed))%2 == 0 {
			d[23] = 1
		} else {
			d[len(d)-32] = 0x80
		}
		l.Data = d
	case "long":
		l.Data = append(append([]byte{}, l.Data...), make([]byte, 32)...)
	}
	return l
}

func (w *World) makeLogs(id string, b *fakeeth.Block, evs []Ev) []types.Log {
	maxPos := -1
	byPos := map[int]Ev{}
	for _, e := range evs {
		byPos[e.Pos] = e
		if e.Pos > maxPos {
			maxPos = e.Pos
		}
	}
	var logs []types.Log
	for pos := 0; pos <= maxPos; pos++ {
		var l fakeeth.LogSpec
		if e, ok := byPos[pos]; ok {
			l = w.concretise(e)
		} else { // a log of another contract before the event: the event's log index is its position
			l = fakeeth.LogSpec{Address: addrOther, Topics: []common.Hash{ethcrypto.Keccak256Hash([]byte("Filler()"))}, Data: []byte{}}
		}
		logs = append(logs, types.Log{Address: l.Address, Topics: l.Topics, Data: l.Data, BlockNumber: b.Num, BlockHash: b.Hash,
			TxHash: ethcrypto.Keccak256Hash([]byte(fmt.Sprintf("tx:%s:%d", id, pos))), TxIndex: uint(pos), Index: uint(pos)})
	}
	return logs
}

// addRecord appends a record (one block with events, or a run of k eventless blocks) on top of
// record par and makes it the head, on every node.
func (w *World) addRecord(par int, evs []Ev, k int) error {
	if par < 1 || par > len(w.Blk) {
		return fmt.Errorf("unknown parent %d", par)
	}
	if k < 1 {
		k = 1
	}
	id := len(w.Blk) + 1
	if evs == nil {
		evs = []Ev{}
	}
	w.Blk = append(w.Blk, Blk{Num: w.Blk[par-1].Num + k, Par: par, Evs: evs, Len: k})
	for _, o := range w.obs {
		o.addReal(id)
	}
	w.setCanon(id)
	return nil
}

func (w *World) setCanon(id int) {
	w.Canon = id
	for _, o := range w.obs {
		o.node.SetHead(o.real[id-1].ID)
	}
}

// addReal materialises record id of the world's tree on the observer's node.
func (o *observer) addReal(id int) {
	w := o.w
	b := w.Blk[id-1]
	label := fmt.Sprintf("b%d", id)
	if b.Par < 1 {
		root := o.node.AddRoot(label, w.base)
		root.Logs = w.makeLogs(label, root, b.Evs)
		o.real = append(o.real, root)
		return
	}
	parentID := o.real[b.Par-1].ID
	if b.Len > 1 {
		parentID = o.node.AddFiller(parentID, fmt.Sprintf("r%d_", id), b.Len-1).ID
	}
	nb := o.node.AddBlock(label, parentID, nil)
	nb.Logs = w.makeLogs(label, nb, b.Evs)
	o.real = append(o.real, nb)
}

// newNode gives the observer a fresh node holding the world's tree; its hook belongs to sess.
func (o *observer) newNode(sess *session) {
	if o.node != nil {
		o.node.SetFault(func(fakeeth.Call) error { return errors.New("verif: node of an ended session") })
		o.node.Close()
		o.node.Forget()
	}
	o.node = fakeeth.New()
	o.real = nil
	for id := 1; id <= len(o.w.Blk); id++ {
		o.addReal(id)
	}
	o.node.SetHead(o.real[o.w.Canon-1].ID)
	o.node.SetCallHandler(o.callHandler, func(b *fakeeth.Block, a common.Address) []byte { return []byte{0x60, 0x00} })
	o.node.SetFault(func(c fakeeth.Call) error { return o.rpcHook(sess, c) })
}

// ---------------------------------------------------------------------------------------------
// the AddrsSeq emulator (eth_call at latest; the sets are immutable once appended)

func (o *observer) callHandler(b *fakeeth.Block, to common.Address, data []byte) ([]byte, error) {
	if to != addrKsSeq && to != addrCoSeq {
		return []byte{}, nil
	}
	if len(data) < 4 {
		return nil, errors.New("execution reverted")
	}
	m, err := asABI.MethodById(data[:4])
	if err != nil {
		return nil, errors.New("execution reverted")
	}
	args, err := m.Inputs.Unpack(data[4:])
	if err != nil {
		return nil, errors.New("execution reverted")
	}
	n, _ := args[0].(uint64)
	sets := o.w.C.Sets
	if n >= uint64(len(sets)) {
		return nil, errors.New("execution reverted: AddrsSeq: n out of range")
	}
	s := sets[n]
	switch s.Ans {
	case "revert":
		return nil, errors.New("execution reverted: AddrsSeq: n out of range")
	case "empty":
		return []byte{}, nil
	}
	switch m.Name {
	case "countNth":
		if s.Ans == "huge" {
			return m.Outputs.Pack(uint64(1) << 40)
		}
		return m.Outputs.Pack(uint64(len(s.Mem)))
	case "at":
		i, _ := args[1].(uint64)
		if s.Ans == "huge" {
			return m.Outputs.Pack(memberAddr(int(i%7) + 1))
		}
		if i >= uint64(len(s.Mem)) {
			return nil, errors.New("execution reverted: AddrsSeq.at: i out of range")
		}
		return m.Outputs.Pack(memberAddr(s.Mem[i]))
	}
	return nil, errors.New("execution reverted")
}

// ---------------------------------------------------------------------------------------------
// hooks

func (o *observer) rpcHook(sess *session, c fakeeth.Call) error {
	o.mu.Lock()
	defer o.mu.Unlock()
	if sess == nil || sess != o.sess {
		return errors.New("verif: call of an ended session")
	}
	switch c.Method {
	case "eth_blockNumber":
		if o.active && o.f.K == "rpcB" && o.rpcBOn { // keeps failing until the retry gives up
			return errInjected
		}
		o.atGate = true
		o.cond.Broadcast()
		for o.permits == 0 && o.sess == sess {
			o.cond.Wait()
		}
		if o.sess != sess { // the session this call belongs to is over
			o.cond.Broadcast()
			return errors.New("verif: session closed")
		}
		o.atGate = false
		o.cond.Broadcast()
		o.permits--
		if o.active && o.f.K == "rpcB" {
			o.rpcBOn, o.fired = true, true
			return errInjected
		}
		if o.active && o.f.K == "rpc1" && !o.rpc1Done {
			o.rpc1Done, o.fired = true, true
			return errInjected
		}
		o.served++
		if h := o.node.Head(); h != nil {
			o.lastHead = h.Num
		}
	case "eth_getLogs":
		o.logCalls++
		if p := strings.SplitN(c.Detail, "..", 2); len(p) == 2 {
			from, err1 := strconv.ParseInt(p[0], 0, 64)
			to, err2 := strconv.ParseInt(p[1], 0, 64)
			if err1 == nil && err2 == nil {
				o.logRng = []int64{from, to}
			} else {
				o.w.note("eth_getLogs range not understood: %q", c.Detail)
			}
		}
		o.cond.Broadcast()
		if o.active && o.f.K == "rpcL" {
			o.fired = true
			return errInjected
		}
	case "eth_call":
		o.callsInTx++
		if o.active && o.f.K == "rpcM" && o.txCount == o.f.At {
			o.fired = true
			return errInjected
		}
		if o.callsInTx > hugeLimit {
			if !o.unbounded {
				o.unbounded = true
				if o.cancel != nil {
					o.cancel()
				}
				o.cond.Broadcast()
			}
			return errors.New("verif: unbounded work stopped")
		}
	}
	return nil
}

func (o *observer) pgHook(ev fakepg.Event) fakepg.Fault {
	if !ev.IsMessage() {
		return fakepg.None
	}
	isBegin := ev.Kind == fakepg.KindQuery && ev.Stmt == "begin"
	isCommit := ev.Kind == fakepg.KindQuery && ev.Stmt == "commit"
	isIns := ev.Kind == fakepg.KindExecute && (ev.Stmt == "InsertKeyperSet" || ev.Stmt == "InsertChainCollator")
	isUpd := ev.Kind == fakepg.KindExecute && ev.Stmt == "UpdateEventSyncProgress"
	isGet := ev.Kind == fakepg.KindExecute && ev.Stmt == "GetEventSyncProgress"
	if ev.Kind != fakepg.KindExecute && ev.Kind != fakepg.KindQuery {
		return fakepg.None
	}
	// every committed state is observed: before each statement-level message (and at the end of the step)
	snap := o.project()
	o.mu.Lock()
	defer o.mu.Unlock()
	defer o.cond.Broadcast()
	if o.active {
		o.observe(snap)
	}
	if isGet {
		if o.startFail {
			o.fired = true
			return fakepg.SQLError
		}
		return fakepg.None
	}
	if !isBegin && !isCommit && !isIns && !isUpd {
		return fakepg.None
	}
	if isBegin {
		o.txCount++
		o.callsInTx = 0
		o.refused = append(o.refused, false)
	}
	f := o.f
	if !o.active || o.txCount != f.At || o.fired {
		return fakepg.None
	}
	hit := (f.W == "begin" && isBegin) || (f.W == "ins" && isIns) || (f.W == "upd" && isUpd) || (f.W == "commit" && isCommit)
	switch f.K {
	case "err", "drop":
		if hit {
			o.fired = true
			if isBegin {
				o.refused[len(o.refused)-1] = true
			}
			if f.K == "err" {
				return fakepg.SQLError
			}
			return fakepg.DropBefore
		}
	case "dropc":
		if isCommit {
			o.fired = true
			return fakepg.DropAfterCommit
		}
	case "crash":
		if isBegin {
			o.fired = true
			o.refused[len(o.refused)-1] = true
			if o.cancel != nil {
				o.cancel()
			}
			return fakepg.DropBefore
		}
	case "crashc":
		if isCommit {
			o.fired = true
			if o.cancel != nil {
				o.cancel()
			}
			return fakepg.DropAfterCommit
		}
	}
	return fakepg.None
}

// ---------------------------------------------------------------------------------------------
// projection

func (w *World) absBlock(real int64) int {
	if real < 0 { // a wrapped int32
		return int(real + (1 << 32) - int64(w.base) - wrapBig)
	}
	d := real - int64(w.base)
	if d < -100000 || d > 100000 {
		return tokLow
	}
	return int(d)
}

func absI64(v int64) int {
	switch {
	case v == math.MaxInt64:
		return tokM63
	case v == math.MinInt64:
		return -tokP63
	case v >= -1 && v < 100000:
		return int(v)
	}
	return tokWhat
}

func absI32(v int32) int {
	switch {
	case v == math.MinInt32:
		return -tokT31
	case v >= -1 && v < 100000:
		return int(v)
	}
	return tokWhat
}

func (o *observer) project() DBj {
	d := DBj{Ks: []KsRow{}, Co: []CoRow{}}
	o.pg.View(func(db *fakepg.DB) {
		if len(db.EventSyncProgress) != 1 {
			o.w.note("observer %d: %d event_sync_progress rows", o.idx, len(db.EventSyncProgress))
		}
		for _, p := range db.EventSyncProgress {
			d.Nb, d.Li = o.w.absBlock(int64(p.NextBlockNumber)), int(p.NextLogIndex)
		}
		for _, r := range db.KeyperSet {
			row := KsRow{Idx: absI64(r.KeyperConfigIndex), Act: absI64(r.ActivationBlockNumber), Thr: absI32(r.Threshold), Mem: []int{}}
			for _, a := range r.Keypers {
				row.Mem = append(row.Mem, memberOf[a]) // 0: an address no set of the plan has
			}
			d.Ks = append(d.Ks, row)
		}
		for _, r := range db.ChainCollator {
			d.Co = append(d.Co, CoRow{Act: absI64(r.ActivationBlockNumber), Col: memberOf[r.Collator]})
		}
	})
	sort.SliceStable(d.Ks, func(i, j int) bool { return d.Ks[i].Idx < d.Ks[j].Idx })
	sort.SliceStable(d.Co, func(i, j int) bool { return d.Co[i].Act < d.Co[j].Act })
	return d
}

func (w *World) obJ() []ObJ {
	out := make([]ObJ, len(w.obs))
	for i, o := range w.obs {
		o.mu.Lock()
		up := o.up
		o.mu.Unlock()
		out[i] = ObJ{Up: up, DB: o.project()}
	}
	return out
}

// ---------------------------------------------------------------------------------------------
// the real observer

const (
	stepLimit   = 25 * time.Second // watchdog of one wait (a persistent RPC failure takes 6 s of retries)
	quietLimit  = 1500 * time.Millisecond
	settleLimit = 400 * time.Millisecond
)

// observe appends a committed state if it differs from the last one seen (o.mu is held).
func (o *observer) observe(d DBj) {
	last := o.pre
	if n := len(o.snaps); n > 0 {
		last = o.snaps[n-1]
	}
	if !sameDB(last, d) {
		o.snaps = append(o.snaps, d)
	}
}

func sameDB(a, b DBj) bool {
	x, _ := json.Marshal(a)
	y, _ := json.Marshal(b)
	return string(x) == string(y)
}

func (o *observer) beginStep(f FaultJ) {
	pre := o.project()
	o.mu.Lock()
	o.pre = pre
	o.f, o.active, o.fired, o.rpc1Done, o.rpcBOn = f, true, false, false, false
	o.logRng, o.logCalls, o.txCount, o.callsInTx, o.snaps, o.refused = nil, 0, 0, 0, nil, nil
	o.mu.Unlock()
	o.pg.ResetLog()
}

func (o *observer) endStep() {
	o.mu.Lock()
	o.active = false
	o.f = noFault
	o.mu.Unlock()
}

func isClosed(ch chan struct{}) bool {
	if ch == nil {
		return true
	}
	select {
	case <-ch:
		return true
	default:
		return false
	}
}

// waitFor waits until pred (evaluated under o.mu) holds; false on timeout.
func (o *observer) waitFor(lim time.Duration, pred func() bool) bool {
	dl := time.Now().Add(lim)
	for {
		o.mu.Lock()
		ok := pred()
		o.mu.Unlock()
		if ok {
			return true
		}
		if time.Now().After(dl) {
			return false
		}
		time.Sleep(time.Millisecond)
	}
}

// wrapHandler records panics of the handler (they would otherwise end the process).
func (o *observer) wrapHandler(ev *eventsyncer.EventType) {
	h := ev.Handler
	ev.Handler = func(ctx context.Context, tx pgx.Tx, e any) (err error) {
		defer func() {
			if p := recover(); p != nil {
				o.mu.Lock()
				o.panicked = fmt.Sprint(p)
				o.mu.Unlock()
				err = fmt.Errorf("verif: handler panicked: %v", p)
			}
		}()
		return h(ctx, tx, e)
	}
}

// start = what keyperimpl/snapshot Keyper.Start does for the chain observer.
func (o *observer) start(f FaultJ) (ret string, detail string) {
	o.mu.Lock()
	up := o.up
	o.mu.Unlock()
	if up {
		return "bad", "start of a running observer"
	}
	o.beginStep(noFault)
	defer o.endStep()
	pr := o.project()
	o.mu.Lock()
	o.startFail = f.K == "db"
	o.w.nsess++
	sess := &session{no: o.w.nsess}
	o.sess = sess
	o.atGate, o.permits, o.served = false, 0, 0
	o.unbounded, o.panicked = false, ""
	o.mu.Unlock()
	o.newNode(sess)
	ctx, cancel := context.WithCancel(context.Background())
	client := o.node.Dial()
	contracts, err := deployment.NewContracts(client, o.w.dir)
	if err != nil {
		cancel()
		client.Close()
		return "bad", "deployment.NewContracts: " + err.Error()
	}
	chainobs := chainobserver.New(client, o.pool)
	for _, ev := range []*eventsyncer.EventType{contracts.CollatorConfigsListNewConfig, contracts.KeypersConfigsListNewConfig} {
		o.wrapHandler(ev)
		if err := chainobs.AddListenEvent(ev); err != nil {
			cancel()
			client.Close()
			return "bad", "AddListenEvent: " + err.Error()
		}
	}
	done := make(chan struct{})
	o.mu.Lock()
	o.cancel, o.client, o.done, o.runErr = cancel, client, done, nil
	o.mu.Unlock()
	group, deferFn := service.RunBackground(ctx, chainobs)
	go func() {
		err := group.Wait()
		deferFn()
		o.mu.Lock()
		o.runErr = err
		o.mu.Unlock()
		close(done)
	}()
	ok := o.waitFor(stepLimit, func() bool { return o.atGate || isClosed(done) })
	o.mu.Lock()
	o.startFail = false
	o.mu.Unlock()
	o.w.calls++
	if !ok {
		o.kill()
		return "hang", "Start: neither the first eth_blockNumber nor an error within " + stepLimit.String()
	}
	if isClosed(done) {
		o.mu.Lock()
		err := o.runErr
		o.mu.Unlock()
		o.cleanup()
		return "fail", fmt.Sprint(err)
	}
	minD := o.w.C.DeployKs
	if o.w.C.DeployCo < minD {
		minD = o.w.C.DeployCo
	}
	nb := pr.Nb
	if nb < -700000 { // uint64 of a negative int32
		nb = 2000000
	}
	o.mu.Lock()
	o.up = true
	if nb > minD || (nb == minD && o.w.shadowGE) {
		o.sessFb, o.sessFl = nb, pr.Li
	} else {
		o.sessFb, o.sessFl = minD, 0
	}
	o.curFrom = o.sessFb
	o.mu.Unlock()
	return "ok", ""
}

func (o *observer) cleanup() {
	o.mu.Lock()
	cancel, client := o.cancel, o.client
	o.cancel, o.client, o.done = nil, nil, nil
	o.up = false
	o.sess = nil
	o.atGate = false
	o.cond.Broadcast()
	o.mu.Unlock()
	if cancel != nil {
		cancel()
	}
	if client != nil {
		client.Close()
	}
}

// kill cancels the context, opens the gate and waits for the service to end.
func (o *observer) kill() bool {
	o.mu.Lock()
	cancel, done := o.cancel, o.done
	o.sess = nil
	o.atGate = false
	o.cond.Broadcast()
	o.mu.Unlock()
	if cancel != nil {
		cancel()
	}
	ended := true
	if done != nil {
		select {
		case <-done:
		case <-time.After(stepLimit):
			ended = false
		}
	}
	o.cleanup()
	return ended
}

func (o *observer) stop() {
	o.mu.Lock()
	idle := o.done == nil && o.cancel == nil
	o.mu.Unlock()
	if idle {
		return
	}
	o.kill()
}

// expectedItems: how many items the page with the REAL block range [from, to] puts on the channel
// (events passing the cursor filter + the end marker), computed from the node's tree. Only the
// fast path of waiting; o.mu is held by the caller.
func (o *observer) expectedItems(from, to int64) int {
	n := 1
	for num := from; num <= to; num++ {
		if num < 0 {
			continue
		}
		b := o.node.Canonical(uint64(num))
		if b == nil {
			continue
		}
		an := o.w.absBlock(int64(b.Num))
		for i := range b.Logs {
			l := &b.Logs[i]
			if l.Address != addrKsCfg && l.Address != addrCoCfg {
				continue
			}
			if len(l.Topics) == 0 || (l.Topics[0] != ksABI.Events["NewConfig"].ID && l.Topics[0] != coABI.Events["NewConfig"].ID) {
				continue
			}
			if an < o.sessFb || (an == o.sessFb && int(l.Index) < o.sessFl) {
				continue
			}
			n++
		}
	}
	return n
}

type pollObs struct {
	Ret    string
	Detail string
	Seq    []DBj
	Rng    []int
	Fired  bool
}

// txDone: transactions of the step that have ended (the fakepg log has its own lock).
func (o *observer) txDone() int {
	n := 0
	for _, e := range o.pg.Log() {
		if e.Kind == fakepg.KindCommit || e.Kind == fakepg.KindRollback {
			n++
		}
	}
	return n
}

// poll lets ONE eth_blockNumber call of the sync loop through and waits for everything that
// follows from it.
func (o *observer) poll(f FaultJ) pollObs {
	res := pollObs{Seq: []DBj{}, Rng: []int{}}
	o.mu.Lock()
	up, done := o.up, o.done
	o.mu.Unlock()
	if !up {
		res.Ret, res.Detail = "bad", "poll of an observer that is not running"
		return res
	}
	o.w.calls++
	ended := func() bool { return isClosed(done) || o.unbounded }
	// the loop must be at the gate (after an idle page it sleeps blockPollInterval = 2 s first)
	if !o.waitFor(stepLimit, func() bool { return o.atGate || ended() }) {
		o.kill()
		res.Ret, res.Detail = "hang", "the sync loop did not come back to eth_blockNumber"
		return res
	}
	o.beginStep(f)
	defer o.endStep()
	o.mu.Lock()
	served0 := o.served
	o.permits = 1
	if f.K == "rpc1" {
		o.permits = 2
	}
	o.cond.Broadcast()
	o.mu.Unlock()

	// phase 1: the block number is served (or the service ends)
	if !o.waitFor(stepLimit, func() bool { return o.served > served0 || ended() }) {
		o.kill()
		res.Ret, res.Detail = "hang", "eth_blockNumber was neither served nor given up"
		return o.finish(res, done)
	}
	if isClosed(done) {
		return o.finish(res, done)
	}
	// phase 2: a page, or nothing (idle)
	o.mu.Lock()
	head := o.w.absBlock(int64(o.lastHead))
	maxTo := head - finOff
	if o.w.C.BaseZero && head < finOff {
		maxTo = 0
	}
	to := o.curFrom + pageSize - 1
	if to > maxTo {
		to = maxTo
	}
	predictIdle := to < o.curFrom
	o.mu.Unlock()
	page := false
	if predictIdle {
		// confirm that no eth_getLogs follows (the loop sleeps); if one does, it is a page after all
		page = o.waitFor(120*time.Millisecond, func() bool { return o.logCalls > 0 || ended() })
	} else {
		// a page is due; if none comes the loop went to sleep and is back at the gate 2 s later
		o.waitFor(stepLimit, func() bool { return o.logCalls > 0 || o.atGate || ended() })
		o.mu.Lock()
		page = o.logCalls > 0
		o.mu.Unlock()
	}
	if !page || isClosed(done) {
		return o.finish(res, done)
	}
	// phase 3: the loop is back at the gate (all items are on the channel) or the service ended ...
	if !o.waitFor(stepLimit, func() bool { return o.atGate || ended() }) {
		o.kill()
		res.Ret, res.Detail = "hang", "the page was not completed"
		return o.finish(res, done)
	}
	// ... and the handler loop has finished every item
	exp := 0
	last, lastSeen := time.Now(), -1
	ok := o.waitFor(stepLimit, func() bool {
		if ended() {
			return true
		}
		if exp == 0 && len(o.logRng) == 2 {
			exp = o.expectedItems(o.logRng[0], o.logRng[1])
		}
		nref := 0
		for _, r := range o.refused {
			if r {
				nref++
			}
		}
		fin := o.txDone() + nref
		if fin != lastSeen {
			lastSeen, last = fin, time.Now()
		}
		if exp > 0 && fin >= exp {
			return true
		}
		if fin >= o.txCount && time.Since(last) > quietLimit {
			if os.Getenv("VERIF_CHAINOBS_DEBUG") != "" {
				fmt.Fprintf(os.Stderr, "chainobs debug: quiet path: fin=%d txCount=%d exp=%d refused=%v fault=%+v\n", fin, o.txCount, exp, o.refused, o.f)
			}
			return true
		}
		return false
	})
	if !ok {
		o.kill()
		res.Ret, res.Detail = "hang", "the handler loop did not finish the page"
		return o.finish(res, done)
	}
	// an item that ended with an error may end the service a moment later (it does not in the tree
	// as found, where every error is logged and skipped): give it the time to do so
	o.mu.Lock()
	suspicious := o.fired
	for _, r := range o.refused {
		suspicious = suspicious || r
	}
	o.mu.Unlock()
	if !suspicious {
		for _, e := range o.pg.Log() {
			if e.Kind == fakepg.KindRollback || e.Kind == fakepg.KindError || e.Kind == fakepg.KindDrop {
				suspicious = true
			}
		}
	}
	if suspicious {
		o.waitFor(settleLimit, ended)
	}
	return o.finish(res, done)
}

// finish classifies the end of a poll step and collects the committed states.
func (o *observer) finish(res pollObs, done chan struct{}) pollObs {
	o.mu.Lock()
	unb, pan := o.unbounded, o.panicked
	fired, f := o.fired, o.f
	o.mu.Unlock()
	crashFault := fired && (f.K == "crash" || f.K == "crashc")
	if fired && (f.K == "crashc" || f.K == "dropc") {
		// the server installs the commit after the fault decision; the client may be gone before it has
		o.waitFor(stepLimit, func() bool {
			drop := -1
			for _, e := range o.pg.Log() {
				if e.Kind == fakepg.KindDrop {
					drop = e.Seq
				}
				if drop >= 0 && e.Seq > drop && (e.Kind == fakepg.KindCommit || e.Kind == fakepg.KindRollback) {
					return true
				}
			}
			return false
		})
	}
	switch {
	case res.Ret == "hang":
	case unb:
		o.kill()
		res.Ret, res.Detail = "hang", fmt.Sprintf("GetAddrs made more than %d eth_calls for one event (countNth answered 2^40): unbounded work", hugeLimit)
	case isClosed(done) || crashFault:
		select {
		case <-done:
		case <-time.After(stepLimit):
			res.Detail = "the service did not end after its context was cancelled; "
		}
		o.mu.Lock()
		err := o.runErr
		o.mu.Unlock()
		o.cleanup()
		res.Ret = "dead"
		if crashFault {
			res.Ret = "crash"
		}
		res.Detail += fmt.Sprint(err)
	default:
		o.mu.Lock()
		if o.logCalls > 0 {
			res.Ret = "ok"
		} else {
			res.Ret = "idle"
		}
		o.mu.Unlock()
	}
	if pan != "" {
		res.Ret, res.Detail = "panic", pan
	}
	res.Fired = fired
	o.mu.Lock()
	if len(o.logRng) == 2 {
		res.Rng = []int{o.w.absBlock(o.logRng[0]), o.w.absBlock(o.logRng[1])}
		if res.Ret == "ok" {
			o.curFrom = res.Rng[1] + 1
		}
	}
	o.mu.Unlock()
	final := o.project()
	o.mu.Lock()
	o.observe(final)
	res.Seq = append(res.Seq, o.snaps...)
	o.mu.Unlock()
	return res
}
