package chainobs

import (
	"bytes"
	"context"
	"fmt"
	"os"
	"os/exec"
	"path/filepath"
	"regexp"
	"strings"
	"sync"
	"time"

	"verif/harness/tlc"
)

// Preflight (1) parses the modules of the stage with SANY and (2) model-checks a tiny plan that
// evaluates every operator, and turns a parse or evaluation error (a community module or a shared
// helper changed) into ONE clear INCONCLUSIVE line that names the failing expression.

var (
	reSanyLoc  = regexp.MustCompile(`^line \d+, col \d+ to line \d+, col \d+ of module (\w+)`)
	reStackLoc = regexp.MustCompile(`^\d+\. (Line \d+, column \d+ to line \d+, column \d+ in (\w+))`)
)

func sanyErrors(out string) []string {
	var errs []string
	lines := strings.Split(out, "\n")
	for i := 0; i < len(lines); i++ {
		l := strings.TrimSpace(lines[i])
		if reSanyLoc.MatchString(l) {
			msg := ""
			for j := i + 1; j < len(lines) && j < i+6; j++ {
				if t := strings.TrimSpace(lines[j]); t != "" {
					msg = t
					break
				}
			}
			if e := l + ": " + msg; len(errs) == 0 || errs[len(errs)-1] != e {
				errs = append(errs, e)
			}
		}
	}
	if len(errs) == 0 {
		for _, l := range lines {
			t := strings.TrimSpace(l)
			if strings.Contains(t, "Parse Error") || strings.HasPrefix(t, "Fatal errors") || strings.HasPrefix(t, "Encountered") ||
				strings.Contains(t, "Cannot find source file") || strings.HasPrefix(t, "*** Abort") {
				errs = append(errs, t)
			}
		}
	}
	return errs
}

func specSource() string {
	if d := os.Getenv("VERIF_CHAINOBS_SPECDIR"); d != "" { // self-test of the preflight with a broken copy of specs/
		return d
	}
	return tlc.SpecDir
}

func sanyOne(dir, mod string) string {
	ctx, cancel := context.WithTimeout(context.Background(), 2*time.Minute)
	defer cancel()
	cmd := exec.CommandContext(ctx, "java", "-cp", "/opt/veriftools/tla/tla2tools.jar:/opt/veriftools/tla/CommunityModules-deps.jar",
		"tla2sany.SANY", mod+".tla")
	cmd.Dir = dir
	var buf bytes.Buffer
	cmd.Stdout, cmd.Stderr = &buf, &buf
	runErr := cmd.Run()
	out := buf.String()
	errs := sanyErrors(out)
	bad := len(errs) > 0 || strings.Contains(out, "*** Errors:") || strings.Contains(out, "Semantic errors") || ctx.Err() == context.DeadlineExceeded
	if !bad && runErr != nil {
		bad = true
		errs = append(errs, "SANY did not run: "+runErr.Error())
	}
	if !bad {
		return ""
	}
	if len(errs) > 8 {
		errs = append(errs[:8], fmt.Sprintf("(+%d more)", len(errs)-8))
	}
	if len(errs) == 0 {
		t := strings.Split(strings.TrimSpace(out), "\n")
		if len(t) > 6 {
			t = t[len(t)-6:]
		}
		errs = t
	}
	return fmt.Sprintf("specs/%s.tla does not parse (SANY; ChainSync.tla or a community module changed?): %s", mod, strings.Join(errs, " | "))
}

var rePos = regexp.MustCompile(`^Line (\d+), column (\d+) to line (\d+), column (\d+) in (\w+)$`)

// snippet returns the source text of a one-line position of TLC's evaluation stack.
func snippet(pos string) string {
	m := rePos.FindStringSubmatch(pos)
	if m == nil || m[1] != m[3] {
		return ""
	}
	var l, a, b int
	fmt.Sscan(m[1], &l)
	fmt.Sscan(m[2], &a)
	fmt.Sscan(m[4], &b)
	src, err := os.ReadFile(filepath.Join(tlc.SpecDir, m[5]+".tla"))
	if err != nil {
		return ""
	}
	lines := strings.Split(string(src), "\n")
	if l < 1 || l > len(lines) || a < 1 || b > len(lines[l-1]) || a > b {
		return ""
	}
	return lines[l-1][a-1:b] + " (" + m[5] + ".tla line " + m[1] + ": " + strings.TrimSpace(lines[l-1]) + ")"
}

// evalError turns TLC's evaluation error into "message; innermost positions: ... ; first position in
// a composed (foreign) module: ...".
func evalError(out string) string {
	lines := strings.Split(out, "\n")
	var stack []string
	var foreign []string
	reason := ""
	for i, l := range lines {
		t := strings.TrimSpace(l)
		if m := reStackLoc.FindStringSubmatch(t); m != nil {
			stack = append(stack, m[1])
			if !strings.HasPrefix(m[2], "ChainObs") && !strings.HasPrefix(m[2], "MCgen_") && !strings.HasPrefix(m[2], "TRgen_") {
				foreign = append(foreign, m[1])
			}
			continue
		}
		if reason == "" && (strings.HasPrefix(t, "Attempted") || strings.HasPrefix(t, "The ") && strings.Contains(t, "argument") ||
			strings.Contains(t, "nonexistent field") || strings.Contains(t, "was not in the domain") || strings.HasPrefix(t, "In evaluation") ||
			strings.HasPrefix(t, "TLC threw") || strings.HasPrefix(t, "Error: ") && !strings.Contains(t, "The error occurred when TLC was evaluating")) {
			reason = t
			for j := i + 1; j < len(lines) && j < i+4; j++ {
				if u := strings.TrimSpace(lines[j]); u != "" && !reStackLoc.MatchString(u) {
					reason += " " + u
				} else {
					break
				}
			}
		}
	}
	s := reason
	if s == "" {
		s = "TLC evaluation error"
	}
	if n := len(stack); n > 0 {
		if sn := snippet(stack[n-1]); sn != "" {
			s += "; failing expression `" + sn + "`"
		}
		k := n - 3
		if k < 0 {
			k = 0
		}
		s += "; innermost positions: " + strings.Join(stack[k:], ", ")
	}
	if len(foreign) > 0 {
		s += "; enters other modules at: " + foreign[0] + " (innermost there: " + foreign[len(foreign)-1] + ")"
	}
	return s
}

// Preflight returns "" or the text for an INCONCLUSIVE line.
func Preflight() string {
	dir, err := os.MkdirTemp(tlc.ScratchRoot(), "verif-chainobs-sany-")
	if err != nil {
		return "cannot make a scratch directory: " + err.Error()
	}
	defer os.RemoveAll(dir)
	specs, _ := filepath.Glob(filepath.Join(specSource(), "*.tla"))
	for _, f := range specs {
		b, err := os.ReadFile(f)
		if err != nil {
			return err.Error()
		}
		if err := os.WriteFile(filepath.Join(dir, filepath.Base(f)), b, 0o644); err != nil {
			return err.Error()
		}
	}
	mods := []string{"ChainObsMC", "ChainObsTrace"} // both import ChainObs, ChainObsProps and ChainSync
	res := make([]string, len(mods))
	var wg sync.WaitGroup
	for i, m := range mods {
		wg.Add(1)
		go func(i int, m string) {
			defer wg.Done()
			d := filepath.Join(dir, m)
			_ = os.MkdirAll(d, 0o755)
			for _, f := range specs {
				b, _ := os.ReadFile(filepath.Join(dir, filepath.Base(f)))
				_ = os.WriteFile(filepath.Join(d, filepath.Base(f)), b, 0o644)
			}
			res[i] = sanyOne(d, m)
		}(i, m)
	}
	wg.Wait()
	for _, r := range res {
		if r != "" {
			return r
		}
	}
	if specSource() != tlc.SpecDir {
		return "" // the smoke run below reads specs/ itself
	}
	// smoke run: a tiny plan with every kind of step and fault: every operator is evaluated
	p := preflightPlan()
	mod, files, cfg := p.mcFiles("props")
	r, err := tlc.Run(tlc.Opts{Module: mod, CfgText: cfg, Files: files, Workers: 2, Timeout: 5 * time.Minute, HeapGB: 2})
	if err != nil {
		return "preflight TLC run: " + err.Error()
	}
	if r.Errored != "" {
		return "specs/ChainObs*.tla do not evaluate: " + evalError(r.Out)
	}
	if !r.Completed || r.Distinct == 0 {
		return "preflight TLC run did not complete: " + r.Tail(8)
	}
	return ""
}
