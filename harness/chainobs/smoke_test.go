package chainobs

import (
	"encoding/json"
	"fmt"
	"testing"
)

func TestSmoke(t *testing.T) {
	p := preflightPlan()
	beh := []Action{
		{Op: "mine", Par: 1, F: noFault, Evs: []Ev{ks(1, 5, 3, 2)}},
		{Op: "ext", Par: 2, K: 3, F: noFault, Evs: []Ev{}},
		{Op: "start", O: 1, F: noFault, Evs: []Ev{}},
		{Op: "poll", O: 1, F: noFault, Evs: []Ev{}},
		{Op: "poll", O: 1, F: noFault, Evs: []Ev{}},
		{Op: "stop", O: 1, F: noFault, Evs: []Ev{}},
		{Op: "catch", O: 2, F: noFault, Evs: []Ev{}},
	}
	r := &Run{Plan: p, Beh: beh, Seed: 1, No: 1}
	r.Execute()
	if r.Err != nil {
		t.Fatal(r.Err)
	}
	for _, l := range r.Lines {
		c := J{}
		for k, v := range l.J {
			if k != "blk" {
				c[k] = v
			}
		}
		b, _ := json.Marshal(c)
		fmt.Println(string(b))
	}
	fmt.Println("bad:", r.Bad, "pins:", r.Pins)
}
