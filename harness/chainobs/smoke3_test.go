package chainobs

import (
	"fmt"
	"os"
	"testing"
	"time"
)

func TestSmoke3(t *testing.T) {
	if os.Getenv("VERIF_SMOKE3") == "" {
		t.Skip()
	}
	p := preflightPlan()
	p.M.Cursor = "ge"
	beh := []Action{
		{Op: "ext", Par: 1, K: 3, F: noFault, Evs: []Ev{}},
		{Op: "start", O: 1, F: noFault, Evs: []Ev{}},
		{Op: "poll", O: 1, F: noFault, Evs: []Ev{}},
		{Op: "mine", Par: 2, F: noFault, Evs: []Ev{ks(1, 5, 3, 2)}},
		{Op: "poll", O: 1, F: FaultJ{K: "drop", At: 1, W: "begin"}, Evs: []Ev{}},
	}
	r := &Run{Plan: p, Beh: beh, Seed: 1, No: 1}
	t0 := time.Now()
	r.Execute()
	fmt.Println("took", time.Since(t0), r.Err)
	for _, l := range r.Lines {
		fmt.Println(brief(l.J))
	}
}
