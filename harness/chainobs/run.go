package chainobs

import (
	"fmt"
	"os"
	"time"
)

// Line is one ndjson trace line together with where it came from.
type Line struct {
	J   J
	Run int
	Pos int // index of the action in the behaviour (-1: new)
}

// Run is one behaviour executed on one fresh world.
type Run struct {
	Plan  Plan     `json:"plan"`
	Beh   []Action `json:"behaviour"`
	Pv    []string `json:"pv"` // what the code-shaped spec predicts at the end
	Seed  int64    `json:"seed"`
	No    int      `json:"no"`
	Lines []Line   `json:"-"`
	Err   error    `json:"-"`
	Steps int      `json:"-"`
	Calls int      `json:"-"` // Start / page steps of the real observer
	Pins  []string `json:"-"`
	Bad   []string `json:"-"` // harness self-checks that failed
}

func cloneBlk(b []Blk) []Blk {
	out := make([]Blk, len(b))
	for i := range b {
		out[i] = b[i]
		out[i].Evs = append([]Ev{}, b[i].Evs...)
	}
	return out
}

// Execute replays the behaviour on the real observer(s) and records the trace.
func (r *Run) Execute() {
	tRun := time.Now()
	defer func() {
		if d := time.Since(tRun); d > 3*time.Second && os.Getenv("VERIF_CHAINOBS_DEBUG") != "" {
			fmt.Fprintf(os.Stderr, "chainobs debug: plan %s run %d took %s: %s\n", r.Plan.Name, r.No, d, behText(r.Plan, r.Beh, -1))
		}
	}()
	w, err := NewWorld(r.Plan.consts(), r.Seed)
	if err != nil {
		r.Err = err
		return
	}
	defer w.Close()
	w.shadowGE = r.Plan.M.Cursor == "ge"
	emit := func(pos int, j J) {
		j["run"] = r.No
		r.Lines = append(r.Lines, Line{J: j, Run: r.No, Pos: pos})
		for _, n := range w.takeNotes() {
			r.Bad = append(r.Bad, fmt.Sprintf("step %d: %s", pos, n))
		}
	}
	emit(-1, J{"k": "new", "blk": cloneBlk(w.Blk), "canon": w.Canon, "ob": w.obJ()})
	// one primitive step of an observer -> one line
	obsStep := func(pos int, op string, o int, f FaultJ) (string, bool) {
		ob := w.obs[o-1]
		t0 := time.Now()
		defer func() {
			if d := time.Since(t0); d > time.Second && os.Getenv("VERIF_CHAINOBS_DEBUG") != "" {
				fmt.Fprintf(os.Stderr, "chainobs debug: plan %s run %d step %d %s(o%d) %+v took %s\n", r.Plan.Name, r.No, pos, op, o, f, d)
			}
		}()
		a := J{"op": op, "o": o, "f": f}
		l := J{"k": "step", "a": a, "ret": "ok", "detail": "", "seq": []DBj{}, "rng": []int{}, "fired": f.K != "none"}
		switch op {
		case "start":
			ret, detail := ob.start(f)
			if ret == "bad" { // the real observer is running although the behaviour restarts it: the run ends here (a drift line)
				ret = "n/a"
			}
			ob.mu.Lock()
			l["fired"] = ob.fired
			ob.mu.Unlock()
			l["ret"], l["detail"] = ret, detail
		case "poll":
			p := ob.poll(f)
			if p.Ret == "bad" { // the real observer is not running although the behaviour polls it
				p.Ret = "n/a"
			}
			l["ret"], l["detail"], l["seq"], l["rng"], l["fired"] = p.Ret, p.Detail, p.Seq, p.Rng, p.Fired
		case "stop":
			ob.stop()
		}
		l["blk"], l["canon"], l["ob"] = cloneBlk(w.Blk), w.Canon, w.obJ()
		r.Steps++
		emit(pos, l)
		return l["ret"].(string), l["ret"] != "n/a"
	}
	for i, a := range r.Beh {
		switch a.Op {
		case "mine", "ext", "switch":
			switch a.Op {
			case "mine":
				err = w.addRecord(a.Par, a.Evs, 1)
			case "ext":
				err = w.addRecord(a.Par, nil, a.K)
			default:
				if a.Par < 1 || a.Par > len(w.Blk) {
					err = fmt.Errorf("switch to unknown block %d", a.Par)
				} else {
					w.setCanon(a.Par)
				}
			}
			if err != nil {
				r.Err = fmt.Errorf("step %d: %v", i, err)
				return
			}
			r.Steps++
			emit(i, J{"k": "step", "a": J{"op": a.Op, "o": 0, "f": noFault}, "ret": "ok", "detail": "", "seq": []DBj{}, "rng": []int{}, "fired": false,
				"blk": cloneBlk(w.Blk), "canon": w.Canon, "ob": w.obJ()})
		case "start", "poll", "stop":
			if a.O < 1 || a.O > len(w.obs) {
				r.Err = fmt.Errorf("step %d: unknown observer %d", i, a.O)
				return
			}
			if _, ok := obsStep(i, a.Op, a.O, a.F); !ok {
				return
			}
		case "catch": // start if needed, then poll until idle (or until the service has ended)
			if a.O < 1 || a.O > len(w.obs) {
				r.Err = fmt.Errorf("step %d: unknown observer %d", i, a.O)
				return
			}
			ob := w.obs[a.O-1]
			ob.mu.Lock()
			up := ob.up
			ob.mu.Unlock()
			if !up {
				ret, ok := obsStep(i, "start", a.O, noFault)
				if !ok {
					return
				}
				if ret != "ok" {
					break
				}
			}
			for n := 0; n < 60; n++ {
				ret, ok := obsStep(i, "poll", a.O, noFault)
				if !ok {
					return
				}
				if ret != "ok" {
					break
				}
			}
		default:
			r.Err = fmt.Errorf("unknown action %q", a.Op)
			return
		}
	}
	r.Calls = w.calls
	corruptLines(r.Lines, os.Getenv("VERIF_CHAINOBS_CORRUPT"))
	r.Pins = w.pins()
}

// corruptLines is the binding self-check: it falsifies ONE logged field of the recorded trace (the
// real code is untouched); the trace layer must then report it.
//
//	row    the threshold of the first stored keyper_set row is changed      -> K1_Value (+ drift)
//	drop   the first stored keyper_set row is removed                       -> K1_NoMissing / K2_Skip (+ drift)
//	prog   the progress of the first successful poll is moved one log on    -> drift (K2 only if an event is passed)
//	ret    the result class of the first poll becomes "panic"               -> K4_NoPanic (+ drift)
//	seq    the first committed state of the first poll with one is removed  -> drift
func corruptLines(lines []Line, what string) {
	if what == "" {
		return
	}
	for _, l := range lines {
		j := l.J
		if j["k"] != "step" {
			continue
		}
		a := j["a"].(J)
		if a["op"] != "poll" {
			continue
		}
		o := a["o"].(int)
		obs := j["ob"].([]ObJ)
		switch what {
		case "row":
			if len(obs[o-1].DB.Ks) > 0 {
				obs[o-1].DB.Ks[0].Thr += 5
				return
			}
		case "drop":
			if len(obs[o-1].DB.Ks) > 0 {
				obs[o-1].DB.Ks = obs[o-1].DB.Ks[1:]
				return
			}
		case "prog":
			if j["ret"] == "ok" {
				obs[o-1].DB.Li++
				return
			}
		case "ret":
			j["ret"] = "panic"
			return
		case "seq":
			if s := j["seq"].([]DBj); len(s) > 0 {
				j["seq"] = s[1:]
				return
			}
		}
	}
}
