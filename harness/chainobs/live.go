package chainobs

import (
	"fmt"
	"time"

	"verif/harness/core"
	"verif/harness/tlc"
)

// Bounded liveness (K5): once the environment has halted (no more blocks, faults, stops), every
// admissible event in the final blocks of the canonical chain is eventually stored (weak fairness on
// the fault-free steps of observer 1: a supervisor restarts it, a running observer polls while a
// page is due).
//
//  1. the code-shaped spec AS FOUND, state form (LiveInv: a halted state without a fair step left
//     in which an event is lost): TLC is expected to find a counterexample (an event whose handler
//     failed is skipped and the next item moves the progress past it); it is a lead: the printed
//     history is replayed on the real code and reported as an OBSERVATION iff the real code
//     reproduces the loss;
//  2. the repaired alternative (ErrMode = "fatal"): the temporal property Live under FairSpec must
//     HOLD (otherwise the specification of the repair is wrong: INCONCLUSIVE).
type liveOutcome struct {
	states int
	info   J
	report []string
}

func shortest(bs []Behaviour) Behaviour {
	best := bs[0]
	for _, b := range bs[1:] {
		if len(b.H) < len(best.H) {
			best = b
		}
	}
	return best
}

func runLive(c *core.Ctx, p Plan, workers int) (*outcome, error) {
	out := &outcome{live: &liveOutcome{info: J{}}}
	lo := out.live
	// 1. as configured (default: as found)
	mod, files, cfg := p.mcFiles("liveinv")
	res, err := tlc.Run(tlc.Opts{Module: mod, CfgText: cfg, Files: files, Workers: workers, Timeout: 30 * time.Minute, HeapGB: 6})
	if err != nil {
		return nil, err
	}
	if res.Errored != "" {
		return nil, fmt.Errorf("TLC evaluation error on plan %s (liveinv): %s", p.Name, evalError(res.Out))
	}
	lo.states += res.Distinct
	lo.info["asfound_states"] = res.Distinct
	lo.info["asfound_wall_s"] = res.Wall.Seconds()
	var cex []Behaviour
	for _, raw := range res.Tagged["CEX"] {
		b, err := decodeBeh(raw, p)
		if err != nil {
			return nil, err
		}
		cex = append(cex, b)
	}
	switch {
	case res.Violation && len(cex) > 0:
		b := shortest(cex)
		lo.info["asfound"] = "counterexample"
		lo.info["counterexample"] = behText(p, b.H, -1)
		run := &Run{Plan: p, Beh: b.H, Pv: b.Pv, Seed: c.Seed*1000003 + 1, No: 1}
		run.Execute()
		out.runs = []*Run{run}
		if err := validateRuns(p, out); err != nil {
			return nil, err
		}
		lost := false
		last := -1
		if n := len(run.Lines); n > 0 {
			last = run.Lines[n-1].Pos
		}
		var ff *Finding
		for i := range out.findings {
			f := &out.findings[i]
			if f.Monitor == "K5_Lost" && f.Pos == last {
				lost, ff = true, f
			}
		}
		if lost && out.driftN == 0 {
			path := c.WriteReplay("chainobs-Liveness", ReplayFile{Prop: c.Prop, Stage: "chainobs", Seed: run.Seed, Run: 1, Plan: p, Beh: b.H, Text: behText(p, b.H, -1),
				Monitor: "K5_Lost", Pos: ff.Pos, Line: ff.Line})
			lo.report = append(lo.report, fmt.Sprintf("OBSERVATION chainobs: Liveness (K5_Lost) replay=%s : with the environment halted and every fair step of the observer taken, an admissible event of the final canonical chain is never stored (TLC counterexample to bounded liveness of the as-found spec, reproduced on the real observer): %s",
				path, behText(p, b.H, -1)))
			lo.info["reproduced"] = true
		} else {
			lo.report = append(lo.report, fmt.Sprintf("NOTE chainobs: TLC's counterexample to bounded liveness was NOT reproduced by the real code (drift lines %d): %s", out.driftN, behText(p, b.H, -1)))
			lo.info["reproduced"] = false
		}
	case res.Violation:
		return nil, fmt.Errorf("plan %s (liveinv): violation without a printed history\n%s", p.Name, res.Tail(30))
	case res.Completed:
		lo.info["asfound"] = "holds"
		lo.report = append(lo.report, fmt.Sprintf("NOTE chainobs: bounded liveness (state form) holds for the code-shaped spec as configured %+v (plan %s, %d states)", p.M, p.Name, res.Distinct))
	default:
		return nil, fmt.Errorf("TLC did not complete on plan %s (liveinv)\n%s", p.Name, res.Tail(25))
	}
	// 2. the repaired alternative
	r := p
	r.M.ErrMode = Repaired.ErrMode
	r.Name = p.Name + "-repaired"
	mod, files, cfg = r.mcFiles("live")
	res2, err := tlc.Run(tlc.Opts{Module: mod, CfgText: cfg, Files: files, Workers: workers, Timeout: 30 * time.Minute, HeapGB: 6})
	if err != nil {
		return nil, err
	}
	if res2.Errored != "" {
		return nil, fmt.Errorf("TLC evaluation error on plan %s (live): %s", r.Name, evalError(res2.Out))
	}
	if res2.Violation {
		return nil, fmt.Errorf("the temporal property Live does not hold for the REPAIRED alternative of the spec (plan %s): %s\n%s", r.Name, res2.ViolatedWhat, res2.Tail(40))
	}
	if !res2.Completed {
		return nil, fmt.Errorf("TLC did not complete on plan %s (live)\n%s", r.Name, res2.Tail(25))
	}
	lo.states += res2.Distinct
	lo.info["repaired_live_states"] = res2.Distinct
	lo.info["repaired_live_wall_s"] = res2.Wall.Seconds()
	lo.info["repaired"] = "Live holds under FairSpec"
	c.Logf("chainobs plan %s: as configured %v (%d states, %.1fs); repaired alternative: Live holds (%d states, %.1fs)", p.Name, lo.info["asfound"], res.Distinct, res.Wall.Seconds(), res2.Distinct, res2.Wall.Seconds())
	if out.lines == 0 {
		out.lines = 1
	}
	if out.runs == nil {
		out.runs = []*Run{}
	}
	return out, nil
}

// runProps: the property layer (K1-K5, state and step monitors) as an invariant of the code-shaped
// spec in the REPAIRED alternatives under every fault of the plan. Nothing is replayed (the tree is
// as found); a counterexample means the proposed repairs do not establish the properties: reported
// as a NOTE with the history.
func runProps(c *core.Ctx, p Plan, workers int) (*outcome, error) {
	out := &outcome{live: &liveOutcome{info: J{}}, runs: []*Run{}, lines: 1}
	lo := out.live
	mod, files, cfg := p.mcFiles("props")
	res, err := tlc.Run(tlc.Opts{Module: mod, CfgText: cfg, Files: files, Workers: workers, Timeout: 30 * time.Minute, HeapGB: 6})
	if err != nil {
		return nil, err
	}
	if res.Errored != "" {
		return nil, fmt.Errorf("TLC evaluation error on plan %s (props): %s", p.Name, evalError(res.Out))
	}
	lo.states = res.Distinct
	lo.info["alternatives"] = p.M
	lo.info["states"] = res.Distinct
	lo.info["generated"] = res.States
	lo.info["wall_s"] = res.Wall.Seconds()
	switch {
	case res.Violation:
		txt := "(no history printed)"
		if raw := res.Tagged["CEX"]; len(raw) > 0 {
			if b, err := decodeBeh(raw[0], p); err == nil {
				txt = fmt.Sprintf("%s fails %v", behText(p, b.H, -1), b.Pv)
			}
		}
		lo.info["result"] = "counterexample: " + txt
		lo.report = append(lo.report, fmt.Sprintf("NOTE chainobs: the property layer does NOT hold for the repaired alternatives %+v of the code-shaped spec (plan %s): %s", p.M, p.Name, txt))
	case res.Completed:
		lo.info["result"] = "K1-K5 hold in every reachable state"
		c.Logf("chainobs plan %s: the property layer holds for the alternatives %+v in all %d states (%d generated, %.1fs)", p.Name, p.M, res.Distinct, res.States, res.Wall.Seconds())
	default:
		return nil, fmt.Errorf("TLC did not complete on plan %s (props)\n%s", p.Name, res.Tail(25))
	}
	return out, nil
}
