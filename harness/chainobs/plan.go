package chainobs

import (
	"encoding/json"
	"fmt"
	"os"
	"sort"
	"strings"
	"time"

	"verif/harness/tlc"
)

// Modes are the named alternatives of specs/ChainObs.tla (see its header).
type Modes struct {
	ErrMode  string `json:"errMode"`  // skip | fatal
	CountCap int    `json:"countCap"` // 0 = unbounded
	Wrap     bool   `json:"wrap"`     // int32 progress columns (as found: true)
	Cursor   string `json:"cursor"`   // gt | ge
}

// AsFound is the tree as it is (the DEFAULT: /repo is not changed for the observations of this
// stage); Repaired is the behaviour after the proposed repairs CHAINOBS-1..3 (docs/fixes-proposed).
// VERIF_CHAINOBS_MODES=repaired, or a list like "errmode=fatal,countcap=64,wrap=false,cursor=ge".
var (
	AsFound  = Modes{ErrMode: "skip", CountCap: 0, Wrap: true, Cursor: "gt"}
	Repaired = Modes{ErrMode: "fatal", CountCap: 64, Wrap: false, Cursor: "ge"}
)

func modesFromEnv() Modes {
	m := AsFound
	s := os.Getenv("VERIF_CHAINOBS_MODES")
	switch s {
	case "", "asfound":
		return AsFound
	case "repaired":
		return Repaired
	}
	for _, kv := range strings.Split(s, ",") {
		p := strings.SplitN(strings.TrimSpace(kv), "=", 2)
		if len(p) != 2 {
			continue
		}
		switch p[0] {
		case "errmode":
			m.ErrMode = p[1]
		case "countcap":
			fmt.Sscan(p[1], &m.CountCap)
		case "wrap":
			m.Wrap = p[1] == "true"
		case "cursor":
			m.Cursor = p[1]
		}
	}
	return m
}

// FaultKind is one element of the plan's fault alphabet (ChainObsMC Faults: <<k, w>>).
type FaultKind struct {
	K string `json:"k"`
	W string `json:"w"`
}

// Plan is one constant assignment of ChainObsMC.tla.
type Plan struct {
	Name        string      `json:"name"`
	Kinds       []Ev        `json:"kinds"`
	Root        [][2]int    `json:"root"` // <<kind, pos>>
	Sets        []SetDef    `json:"sets"`
	Once        []int       `json:"once"`
	MaxOnce     int         `json:"maxOnce"`
	Pos         []int       `json:"pos"`
	NoEmpty     bool        `json:"noEmpty"` // no single blocks without events (eventless blocks only as runs)
	MaxPerBlock int         `json:"maxPerBlock"`
	MaxBlocks   int         `json:"maxBlocks"`
	MaxEvents   int         `json:"maxEvents"`
	MaxLeaves   int         `json:"maxLeaves"`
	GapSet      []int       `json:"gapSet"`
	MaxRuns     int         `json:"maxRuns"`
	MaxSwitches int         `json:"maxSwitches"`
	Faults      []FaultKind `json:"faults"`
	StartFaults bool        `json:"startFaults"`
	MaxFaults   int         `json:"maxFaults"`
	MaxStops    int         `json:"maxStops"`
	MaxIdle     int         `json:"maxIdle"`
	MaxCatch    int         `json:"maxCatch"`
	DeployKs    int         `json:"deployKs"`
	DeployCo    int         `json:"deployCo"`
	BaseZero    bool        `json:"baseZero"`
	CheckProps  bool        `json:"checkProps"`
	Live        bool        `json:"live"`
	PropsOnly   bool        `json:"propsOnly"` // TLC checks PropInv; nothing is replayed
	Replay      int         `json:"replay"`    // behaviours replayed on the real code (0 = all printed)
	Par         int         `json:"par"`       // worlds replayed at the same time (0 = default)
	M           Modes       `json:"modes"`
}

func tlaBool(b bool) string {
	if b {
		return "TRUE"
	}
	return "FALSE"
}

func intSet(xs []int) string {
	var p []string
	for _, x := range xs {
		p = append(p, fmt.Sprint(x))
	}
	return "{" + strings.Join(p, ", ") + "}"
}

func intSeq(xs []int) string {
	var p []string
	for _, x := range xs {
		p = append(p, fmt.Sprint(x))
	}
	return "<<" + strings.Join(p, ", ") + ">>"
}

func evTLA(e Ev) string {
	return fmt.Sprintf("[t |-> %q, idx |-> %d, act |-> %d, set |-> %d, thr |-> %d, c |-> %q, pos |-> 0]", e.T, e.Idx, e.Act, e.Set, e.Thr, e.C)
}

func (p Plan) defs() string {
	var ks, rs, ss, fs []string
	for _, e := range p.Kinds {
		ks = append(ks, evTLA(e))
	}
	for _, r := range p.Root {
		rs = append(rs, fmt.Sprintf("<<%d, %d>>", r[0], r[1]))
	}
	for _, s := range p.Sets {
		ss = append(ss, fmt.Sprintf("[mem |-> %s, ans |-> %q]", intSeq(s.Mem), s.Ans))
	}
	for _, f := range p.Faults {
		fs = append(fs, fmt.Sprintf("<<%q, %q>>", f.K, f.W))
	}
	initNb := "0"
	if !p.BaseZero {
		initNb = "Low"
	}
	return fmt.Sprintf("cKinds == <<%s>>\ncRoot == <<%s>>\ncSets == <<%s>>\ncFaults == {%s}\ncInitNb == %s\n",
		strings.Join(ks, ",\n  "), strings.Join(rs, ", "), strings.Join(ss, ",\n  "), strings.Join(fs, ", "), initNb)
}

func (p Plan) baseConsts() string {
	wrapAt := 0
	if p.M.Wrap && !p.BaseZero {
		wrapAt = 3 // real block 2^31 is the abstract block 3 when the chain starts at 2^31 - 3
	}
	return fmt.Sprintf(" FinOff = %d\n Page = %d\n DeployKs = %d\n DeployCo = %d\n Sets <- cSets\n BaseZero = %s\n InitNb <- cInitNb\n ErrMode = %q\n CountCap = %d\n WrapAt = %d\n CursorRule = %q\n",
		finOff, pageSize, p.DeployKs, p.DeployCo, tlaBool(p.BaseZero), p.M.ErrMode, p.M.CountCap, wrapAt, p.M.Cursor)
}

func modName(prefix, name string) string {
	return prefix + strings.NewReplacer("-", "_", ".", "_").Replace(name)
}

// mcFiles: mode "emit" (histories), "props" (PropInv only), "liveinv", "live".
func (p Plan) mcFiles(mode string) (string, map[string][]byte, string) {
	mod := modName("MCgen_chainobs_", p.Name+"_"+mode)
	body := fmt.Sprintf("---- MODULE %s ----\nEXTENDS ChainObsMC\n%s====\n", mod, p.defs())
	emit := mode == "emit"
	keep := mode != "live"
	halting := mode == "live" || mode == "liveinv"
	cfg := "CONSTANTS\n" + p.baseConsts() +
		fmt.Sprintf(" EvKinds <- cKinds\n RootEvs <- cRoot\n OnceKinds = %s\n MaxOnce = %d\n PosSet = %s\n EmptyMine = %s\n MaxPerBlock = %d\n MaxBlocks = %d\n MaxEvents = %d\n MaxLeaves = %d\n"+
			" GapSet = %s\n MaxRuns = %d\n MaxSwitches = %d\n Faults <- cFaults\n StartFaults = %s\n MaxFaults = %d\n MaxStops = %d\n MaxIdle = %d\n MaxCatch = %d\n"+
			" Halting = %s\n CheckProps = %s\n KeepHist = %s\n Emit = %s\n",
			intSet(p.Once), p.MaxOnce, intSet(p.Pos), tlaBool(!p.NoEmpty), p.MaxPerBlock, p.MaxBlocks, p.MaxEvents, p.MaxLeaves,
			intSet(p.GapSet), p.MaxRuns, p.MaxSwitches, tlaBool(p.StartFaults), p.MaxFaults, p.MaxStops, p.MaxIdle, p.MaxCatch,
			tlaBool(halting), tlaBool(p.CheckProps), tlaBool(keep), tlaBool(emit))
	switch mode {
	case "emit", "props":
		cfg += "SPECIFICATION Spec\nINVARIANT PropInv\nINVARIANT EmitInv\nVIEW View\nCHECK_DEADLOCK FALSE\n"
	case "liveinv":
		cfg += "SPECIFICATION Spec\nINVARIANT LiveInvCex\nVIEW View\nCHECK_DEADLOCK FALSE\n"
	case "live":
		cfg += "SPECIFICATION FairSpec\nPROPERTY Live\nCHECK_DEADLOCK FALSE\n"
	}
	return mod, map[string][]byte{mod + ".tla": []byte(body)}, cfg
}

func (p Plan) trFiles(trace []byte) (string, map[string][]byte, string) {
	mod := modName("TRgen_chainobs_", p.Name)
	body := fmt.Sprintf("---- MODULE %s ----\nEXTENDS ChainObsTrace\n%s====\n", mod, p.defs())
	cfg := "CONSTANTS\n" + p.baseConsts() + " TraceFile = \"trace.ndjson\"\nSPECIFICATION TSpec\nINVARIANT Done\nCHECK_DEADLOCK FALSE\n"
	return mod, map[string][]byte{mod + ".tla": []byte(body), "trace.ndjson": trace}, cfg
}

func (p Plan) consts() Consts {
	c := Consts{Sets: p.Sets, DeployKs: p.DeployKs, DeployCo: p.DeployCo, BaseZero: p.BaseZero, NObs: 2, Root: []Ev{}}
	for _, r := range p.Root {
		e := p.Kinds[r[0]-1]
		e.Pos = r[1]
		c.Root = append(c.Root, e)
	}
	return c
}

// Action is one step of a behaviour.
type Action struct {
	Op  string `json:"op"` // mine | ext | switch | start | poll | stop | catch
	O   int    `json:"o"`
	F   FaultJ `json:"f"`
	Par int    `json:"par"`
	K   int    `json:"k"`
	Evs []Ev   `json:"evs"`
}

// Behaviour is one history printed by TLC.
type Behaviour struct {
	H    []Action
	Tags []string
	Pv   []string // the monitors the code-shaped spec fails at the end of the history
	Key  string   // class for the stratified sample
}

var (
	fkSeq = []string{"none", "rpcB", "rpcL", "rpcM", "rpc1", "err", "drop", "dropc", "crash", "crashc"}
	fwSeq = []string{"-", "begin", "ins", "upd", "commit"}
)

func decodeHist(h [][]int, kinds []Ev) ([]Action, error) {
	var out []Action
	for _, e := range h {
		if len(e) < 2 {
			return nil, fmt.Errorf("history entry %v", e)
		}
		a := Action{F: noFault, Evs: []Ev{}}
		switch e[0] {
		case 0:
			if len(e) != 6 {
				return nil, fmt.Errorf("mine entry %v", e)
			}
			a.Op, a.Par = "mine", e[1]
			for _, j := range []int{2, 4} {
				if e[j] == 0 {
					continue
				}
				if e[j] < 1 || e[j] > len(kinds) {
					return nil, fmt.Errorf("mine entry %v: unknown kind", e)
				}
				ev := kinds[e[j]-1]
				ev.Pos = e[j+1]
				a.Evs = append(a.Evs, ev)
			}
		case 1:
			if len(e) != 3 {
				return nil, fmt.Errorf("ext entry %v", e)
			}
			a.Op, a.Par, a.K = "ext", e[1], e[2]
		case 2:
			a.Op, a.Par = "switch", e[1]
		case 3:
			if len(e) != 3 {
				return nil, fmt.Errorf("start entry %v", e)
			}
			a.Op, a.O = "start", e[1]
			if e[2] == 2 {
				a.F = FaultJ{K: "db", At: 0, W: "-"}
			}
		case 4:
			if len(e) != 5 || e[2] < 1 || e[2] > len(fkSeq) || e[4] < 1 || e[4] > len(fwSeq) {
				return nil, fmt.Errorf("poll entry %v", e)
			}
			a.Op, a.O = "poll", e[1]
			a.F = FaultJ{K: fkSeq[e[2]-1], At: e[3], W: fwSeq[e[4]-1]}
		case 5:
			a.Op, a.O = "stop", e[1]
		case 6:
			a.Op, a.O = "catch", e[1]
		default:
			return nil, fmt.Errorf("history entry %v", e)
		}
		out = append(out, a)
	}
	return out, nil
}

// Gen is what TLC produced for one plan.
type Gen struct {
	Plan     Plan
	Beh      []Behaviour
	Cex      []Behaviour // counterexamples of the code-shaped spec against the property layer (leads)
	States   int
	Distinct int
	Wall     float64
}

type rawBeh struct {
	H    [][]int  `json:"h"`
	Tags []string `json:"tags"`
	Pv   []string `json:"pv"`
}

func decodeBeh(raw string, p Plan) (Behaviour, error) {
	kinds := p.Kinds
	s, err := tlc.UnquoteTLA(raw)
	if err != nil {
		return Behaviour{}, err
	}
	var rb rawBeh
	if err := json.Unmarshal([]byte(s), &rb); err != nil {
		return Behaviour{}, fmt.Errorf("behaviour not decodable: %v: %.200s", err, s)
	}
	h, err := decodeHist(rb.H, kinds)
	if err != nil {
		return Behaviour{}, err
	}
	sort.Strings(rb.Tags)
	sort.Strings(rb.Pv)
	b := Behaviour{H: h, Tags: rb.Tags, Pv: rb.Pv}
	// the once-kinds (odd classes) the history contains are part of its class
	once := map[int]bool{}
	for _, k := range p.Once {
		once[k] = true
	}
	var used []string
	for _, e := range rb.H {
		if len(e) == 6 && e[0] == 0 {
			for _, j := range []int{2, 4} {
				if once[e[j]] {
					used = append(used, fmt.Sprint(e[j]))
				}
			}
		}
	}
	sort.Strings(used)
	b.Key = classKey(b) + "|" + strings.Join(used, ",")
	return b, nil
}

// classKey: the class of a behaviour for the stratified sample: tags met, monitors the spec fails,
// and the LAST step (operation and fault).
func classKey(b Behaviour) string {
	last := ""
	if n := len(b.H); n > 0 {
		a := b.H[n-1]
		last = a.Op + ":" + a.F.K + ":" + a.F.W
	}
	return strings.Join(b.Tags, ",") + "|" + strings.Join(b.Pv, ",") + "|" + last
}

// Generate model-checks the plan and collects the printed behaviours.
func Generate(p Plan, workers int) (*Gen, error) {
	mod, files, cfg := p.mcFiles("emit")
	res, err := tlc.Run(tlc.Opts{Module: mod, CfgText: cfg, Files: files, Workers: workers, Timeout: 40 * time.Minute, HeapGB: 8})
	if err != nil {
		return nil, err
	}
	if res.Errored != "" {
		return nil, fmt.Errorf("TLC evaluation error on plan %s: %s", p.Name, evalError(res.Out))
	}
	g := &Gen{Plan: p, States: res.States, Distinct: res.Distinct, Wall: res.Wall.Seconds()}
	for _, raw := range res.Tagged["CEX"] {
		b, err := decodeBeh(raw, p)
		if err != nil {
			return nil, err
		}
		g.Cex = append(g.Cex, b)
	}
	if res.Violation && len(g.Cex) > 0 {
		return g, nil // the code-shaped spec (in the chosen alternatives) violates the property layer: a lead
	}
	if res.Violation {
		return nil, fmt.Errorf("TLC reports %s on plan %s without a printed counterexample\n%s", res.ViolatedWhat, p.Name, res.Tail(40))
	}
	if res.TimedOut || !res.Completed || res.Distinct == 0 {
		return nil, fmt.Errorf("TLC did not complete on plan %s: %s\n%s", p.Name, res.Errored, res.Tail(25))
	}
	seen := map[string]bool{}
	for _, raw := range res.Tagged["B"] {
		if seen[raw] {
			continue
		}
		seen[raw] = true
		b, err := decodeBeh(raw, p)
		if err != nil {
			return nil, err
		}
		g.Beh = append(g.Beh, b)
	}
	if len(g.Beh) == 0 {
		return nil, fmt.Errorf("TLC printed no behaviour for plan %s\n%s", p.Name, res.Tail(20))
	}
	keys := make([]string, len(g.Beh))
	for i := range g.Beh {
		b, _ := json.Marshal(g.Beh[i].H)
		keys[i] = string(b)
	}
	idx := make([]int, len(g.Beh))
	for i := range idx {
		idx[i] = i
	}
	sort.Slice(idx, func(i, j int) bool { return keys[idx[i]] < keys[idx[j]] })
	sorted := make([]Behaviour, len(g.Beh))
	for i, k := range idx {
		sorted[i] = g.Beh[k]
	}
	g.Beh = sorted
	return g, nil
}
