package chainobs

import (
	"bytes"
	"encoding/json"
	"fmt"
	"math/rand"
	"os"
	"sort"
	"strings"
	"sync"
	"time"

	"verif/harness/core"
	"verif/harness/ev"
	"verif/harness/tlc"
)

var evidencePath = func() string {
	if p := os.Getenv("VERIF_CHAINOBS_EVIDENCE"); p != "" { // self-test of the merge on a copy
		return p
	}
	return "/verif/evidence/C15.json"
}()

// VResult is the RESULT record printed by ChainObsTrace.
type VResult struct {
	Lines int     `json:"lines"`
	Viol  [][]any `json:"viol"`
	Drift []int   `json:"drift"`
}

func validate(p Plan, trace []byte) (*VResult, error) {
	mod, files, cfg := p.trFiles(trace)
	res, err := tlc.Run(tlc.Opts{Module: mod, CfgText: cfg, Files: files, Workers: 1, Timeout: 30 * time.Minute, HeapGB: 4})
	if err != nil {
		return nil, err
	}
	if res.Errored != "" {
		return nil, fmt.Errorf("TLC error during trace validation (%s): %s", p.Name, evalError(res.Out))
	}
	var vr VResult
	if err := res.TaggedJSON("RESULT", &vr); err != nil {
		return nil, fmt.Errorf("trace validation did not reach the end of the trace (%s): %v\n%s", p.Name, err, res.Tail(30))
	}
	return &vr, nil
}

// Finding is one monitor failure on an observed line.
type Finding struct {
	Monitor   string
	Plan      Plan
	Pos       int
	Line      J
	Conforms  bool // the line is NOT a drift line: the as-found spec yields the same step
	Predicted bool // the monitor is among those the spec fails at the end of the behaviour
	run       *Run
}

// ReplayFile is what an OBSERVATION line points to.
type ReplayFile struct {
	Prop    string   `json:"prop"`
	Stage   string   `json:"stage"`
	Seed    int64    `json:"seed"`
	Run     int      `json:"run"`
	Plan    Plan     `json:"plan"`
	Beh     []Action `json:"behaviour"`
	Text    string   `json:"text"`
	Monitor string   `json:"monitor"`
	Pos     int      `json:"pos"`
	Line    J        `json:"line"`
}

type outcome struct {
	gen      *Gen
	runs     []*Run
	lines    int
	steps    int
	calls    int
	findings []Finding
	drift    []Line
	driftN   int
	harness  []string
	replayS  float64
	validS   float64
	classes  int
	live     *liveOutcome
}

// pickBehaviours: a seeded sample that keeps every class (tags met, monitors the spec fails, last
// step) represented; rare classes first.
func pickBehaviours(c *core.Ctx, g *Gen) []Behaviour {
	all := append([]Behaviour{}, g.Beh...)
	rng := rand.New(rand.NewSource(c.Seed*7919 + int64(len(all))))
	rng.Shuffle(len(all), func(i, j int) { all[i], all[j] = all[j], all[i] })
	n := g.Plan.Replay
	if n <= 0 || n >= len(all) {
		return all
	}
	by := map[string][]Behaviour{}
	var classes []string
	for _, b := range all {
		if by[b.Key] == nil {
			classes = append(classes, b.Key)
		}
		by[b.Key] = append(by[b.Key], b)
	}
	// inside a class prefer the longer histories (they contain the shorter ones' steps)
	for _, k := range classes {
		l := by[k]
		sort.SliceStable(l, func(i, j int) bool { return len(l[i].H) > len(l[j].H) })
		if len(l) > 4 { // but keep it a sample: shuffle all but the longest two
			rest := l[2:]
			rng.Shuffle(len(rest), func(i, j int) { rest[i], rest[j] = rest[j], rest[i] })
		}
	}
	sort.SliceStable(classes, func(i, j int) bool { return len(by[classes[i]]) < len(by[classes[j]]) })
	var out []Behaviour
	for i := 0; len(out) < n; i++ {
		added := false
		for _, k := range classes {
			if i < len(by[k]) && len(out) < n {
				out = append(out, by[k][i])
				added = true
			}
		}
		if !added {
			break
		}
	}
	return out
}

func marshalLines(ls []Line) ([]byte, error) {
	var buf bytes.Buffer
	for _, l := range ls {
		b, err := json.Marshal(l.J)
		if err != nil {
			return nil, err
		}
		buf.Write(b)
		buf.WriteByte('\n')
	}
	return buf.Bytes(), nil
}

func executeAll(runs []*Run, par int) {
	var wg sync.WaitGroup
	sem := make(chan struct{}, par)
	for _, r := range runs {
		wg.Add(1)
		go func(r *Run) {
			defer wg.Done()
			sem <- struct{}{}
			defer func() { <-sem }()
			r.Execute()
		}(r)
	}
	wg.Wait()
}

// validateRuns validates the recorded lines in chunks and fills findings / drift of out.
func validateRuns(p Plan, out *outcome) error {
	for _, r := range out.runs {
		if r.Err != nil {
			return fmt.Errorf("plan %s run %d: %v; behaviour: %s", p.Name, r.No, r.Err, behText(p, r.Beh, -1))
		}
		if len(r.Pins) > 0 {
			return fmt.Errorf("fakepg pin mismatches (repository SQL changed; harness/fakepg must follow): %v", r.Pins)
		}
		out.steps += r.Steps
		out.calls += r.Calls
		for _, b := range r.Bad {
			out.harness = append(out.harness, fmt.Sprintf("run %d %s", r.No, b))
		}
	}
	t1 := time.Now()
	type chunk struct {
		lines []Line
		vr    *VResult
		err   error
	}
	var chunks []*chunk
	cur := &chunk{}
	for _, r := range out.runs {
		if len(cur.lines) > 0 && len(cur.lines)+len(r.Lines) > 1200 {
			chunks = append(chunks, cur)
			cur = &chunk{}
		}
		cur.lines = append(cur.lines, r.Lines...)
	}
	if len(cur.lines) > 0 {
		chunks = append(chunks, cur)
	}
	var wg sync.WaitGroup
	vsem := make(chan struct{}, 3)
	for ci, ch := range chunks {
		wg.Add(1)
		go func(ci int, ch *chunk) {
			defer wg.Done()
			vsem <- struct{}{}
			defer func() { <-vsem }()
			b, err := marshalLines(ch.lines)
			if err != nil {
				ch.err = err
				return
			}
			if d := os.Getenv("VERIF_CHAINOBS_DUMP"); d != "" && ci == 0 {
				_ = os.WriteFile(d+"-"+p.Name+".ndjson", b, 0o644)
			}
			ch.vr, ch.err = validate(p, b)
		}(ci, ch)
	}
	wg.Wait()
	out.validS += time.Since(t1).Seconds()
	byRun := map[int]*Run{}
	for _, r := range out.runs {
		byRun[r.No] = r
	}
	for _, ch := range chunks {
		if ch.err != nil {
			return ch.err
		}
		if ch.vr.Lines != len(ch.lines) {
			return fmt.Errorf("trace validation consumed %d of %d lines", ch.vr.Lines, len(ch.lines))
		}
		out.lines += ch.vr.Lines
		isDrift := map[int]bool{}
		for _, n := range ch.vr.Drift {
			isDrift[n] = true
			out.driftN++
			if len(out.drift) < 3 && n >= 1 && n <= len(ch.lines) {
				out.drift = append(out.drift, ch.lines[n-1])
			}
		}
		for _, v := range ch.vr.Viol {
			if len(v) != 2 {
				continue
			}
			n, _ := v[0].(float64)
			m, _ := v[1].(string)
			if int(n) < 1 || int(n) > len(ch.lines) {
				continue
			}
			l := ch.lines[int(n)-1]
			r := byRun[l.Run]
			pred := false
			for _, x := range r.Pv {
				if x == m {
					pred = true
				}
			}
			out.findings = append(out.findings, Finding{Monitor: m, Plan: p, Pos: l.Pos, Line: l.J, Conforms: !isDrift[int(n)], Predicted: pred, run: r})
		}
	}
	return nil
}

func runPlan(c *core.Ctx, p Plan, tlcWorkers, replayPar int) (*outcome, error) {
	if p.Live {
		return runLive(c, p, tlcWorkers)
	}
	if p.PropsOnly {
		return runProps(c, p, tlcWorkers)
	}
	g, err := Generate(p, tlcWorkers)
	if err != nil {
		return nil, err
	}
	out := &outcome{gen: g}
	var todo []Behaviour
	if len(g.Cex) > 0 {
		// the code-shaped spec violates the property layer although the plan expects it to hold: leads
		c.Logf("chainobs plan %s: TLC found %d counterexample(s) of the code-shaped spec against the property layer; replaying them as leads", p.Name, len(g.Cex))
		todo = g.Cex
	} else {
		cl := map[string]bool{}
		for _, b := range g.Beh {
			cl[b.Key] = true
		}
		out.classes = len(cl)
		c.Logf("chainobs plan %s: TLC %d distinct states (%d generated, %.1fs), %d behaviours printed in %d classes", p.Name, g.Distinct, g.States, g.Wall, len(g.Beh), len(cl))
		todo = pickBehaviours(c, g)
	}
	if os.Getenv("VERIF_CHAINOBS_GENONLY") != "" {
		todo = todo[:1]
	}
	for i, b := range todo {
		out.runs = append(out.runs, &Run{Plan: p, Beh: b.H, Pv: b.Pv, Seed: c.Seed*1000003 + int64(i+1), No: i + 1})
	}
	if p.Par > 0 {
		replayPar = p.Par
	}
	t0 := time.Now()
	executeAll(out.runs, replayPar)
	out.replayS = time.Since(t0).Seconds()
	if err := validateRuns(p, out); err != nil {
		return nil, err
	}
	return out, nil
}

// ---------------------------------------------------------------------------------------------
// text

func tokText(x int) string {
	switch x {
	case tokM63:
		return "2^63-1"
	case tokP63:
		return "2^63"
	case tokU64:
		return "2^64-1"
	case tokT31:
		return "2^31"
	case tokT32:
		return "2^32+1"
	}
	return fmt.Sprint(x)
}

func evText(e Ev, sets []SetDef) string {
	set := "?"
	if e.Set >= 1 && e.Set <= len(sets) {
		s := sets[e.Set-1]
		if s.Ans == "ok" {
			set = strings.ReplaceAll(fmt.Sprint(s.Mem), " ", ",")
		} else {
			set = s.Ans
		}
	}
	s := ""
	if e.T == "ks" {
		s = fmt.Sprintf("ks(idx %s, act %s, members %s, thr %s)", tokText(e.Idx), tokText(e.Act), set, tokText(e.Thr))
	} else {
		s = fmt.Sprintf("co(idx %s, act %s, collators %s)", tokText(e.Idx), tokText(e.Act), set)
	}
	if e.Pos > 0 {
		s += fmt.Sprintf("@%d", e.Pos)
	}
	if e.C != "ok" {
		s += "!" + e.C
	}
	return s
}

func behText(p Plan, b []Action, upto int) string {
	var out []string
	for i, a := range b {
		if upto >= 0 && i > upto {
			break
		}
		f := ""
		if a.F.K != "none" {
			f = fmt.Sprintf(" [%s", a.F.K)
			if a.F.At > 0 {
				f += fmt.Sprintf(" at item %d", a.F.At)
			}
			if a.F.W != "-" {
				f += " " + a.F.W
			}
			f += "]"
		}
		switch a.Op {
		case "mine":
			var es []string
			for _, e := range a.Evs {
				es = append(es, evText(e, p.Sets))
			}
			out = append(out, fmt.Sprintf("mine(on b%d: %s)", a.Par, strings.Join(es, ", ")))
		case "ext":
			out = append(out, fmt.Sprintf("extend(on b%d, %d blocks)", a.Par, a.K))
		case "switch":
			out = append(out, fmt.Sprintf("switch(b%d)", a.Par))
		default:
			out = append(out, fmt.Sprintf("%s(o%d)%s", a.Op, a.O, f))
		}
	}
	return strings.Join(out, " ")
}

func brief(j J) string {
	c := J{}
	for k, v := range j {
		if k == "blk" {
			continue
		}
		c[k] = v
	}
	b, _ := json.Marshal(c)
	if len(b) > 1300 {
		b = append(b[:1300], "..."...)
	}
	return string(b)
}

// what the monitors say, for the observation lines
var monitorText = map[string]string{
	"K1_NoMissing":   "an admissible NewConfig event of the canonical chain before the observer's cursor has no keyper_set row",
	"K1_NoExtra":     "a keyper_set row whose index no admissible canonical event before the cursor has (abandoned fork / converted index)",
	"K1_Value":       "a keyper_set row that differs from its event (truncated threshold / index, members of another event)",
	"K1_CoMissing":   "an admissible collator config of the canonical chain before the cursor has no chain_collator row",
	"K1_CoExtra":     "a chain_collator row without an admissible canonical event before the cursor",
	"K2_Skip":        "a committed transaction moved the progress past an admissible event whose row is not stored",
	"K2_Phantom":     "a committed transaction added / changed rows that are not the rows of the events it passed",
	"K2_Backward":    "a committed transaction moved the progress backwards",
	"K2_NoDup":       "duplicate rows",
	"K3_Agree":       "two observers with the same progress hold different tables (the keypers' votes are built from them)",
	"K4_NoPanic":     "panic inside the observer",
	"K4_NoHang":      "unbounded work / no return",
	"K4_ServiceDown": "the observer service (and with it the keyper) ended because of event bytes or a contract answer",
	"K5_Lost":        "the cursor is beyond the final blocks but an admissible event in them has no row: it is never stored",
	"K5_Stuck":       "a fault-free poll makes no progress although final blocks are left",
}

// planRank: the example of an observation is taken from the most ordinary plan that shows it.
var planRank = map[string]int{"part": 0, "pos": 1, "faults": 2, "live": 2, "fork": 3, "gap": 4, "deploy10": 5, "deploy01": 5, "deploy21": 5, "classes": 6, "huge": 7, "wrap": 8}

func better(a, b *Finding) bool {
	ra, rb := planRank[a.Plan.Name], planRank[b.Plan.Name]
	if ra != rb {
		return ra < rb
	}
	if a.Pos != b.Pos {
		return a.Pos < b.Pos
	}
	return len(a.run.Beh) < len(b.run.Beh)
}

// Check runs the stage (a growth stage of ./check C15).
func Check(c *core.Ctx) int {
	say := func(format string, a ...any) { fmt.Printf(format, a...) }
	if c.Replay != "" {
		return replay(c, say)
	}
	pre := make(chan string, 1)
	go func() { pre <- Preflight() }() // runs beside the plans; its verdict is looked at first
	modes := modesFromEnv()
	if modes != AsFound {
		say("NOTE: stage chainobs runs with the code-shaped alternatives %+v (default = the tree as found %+v)\n", modes, AsFound)
	}
	ps := plans(c, modes)
	if only := os.Getenv("VERIF_CHAINOBS_ONLY"); only != "" { // development aid: comma separated plan names
		var keep []Plan
		for _, p := range ps {
			for _, o := range strings.Split(only, ",") {
				if p.Name == o {
					keep = append(keep, p)
				}
			}
		}
		ps = keep
	}
	outs := make([]*outcome, len(ps))
	errs := make([]error, len(ps))
	par, tlcWorkers, replayPar := 6, 2, 64
	if c.Thorough() {
		par, tlcWorkers, replayPar = 3, 4, 64
	}
	if s := os.Getenv("VERIF_CHAINOBS_PAR"); s != "" {
		fmt.Sscan(s, &par)
	}
	if s := os.Getenv("VERIF_CHAINOBS_WORKERS"); s != "" {
		fmt.Sscan(s, &tlcWorkers)
	}
	sem := make(chan struct{}, par)
	var wg sync.WaitGroup
	for i := range ps {
		wg.Add(1)
		sem <- struct{}{}
		go func(i int) {
			defer wg.Done()
			defer func() { <-sem }()
			outs[i], errs[i] = runPlan(c, ps[i], tlcWorkers, replayPar)
			if errs[i] == nil && outs[i].gen != nil {
				o := outs[i]
				c.Logf("chainobs plan %s: %d behaviours / %d steps / %d observer steps of repository code replayed in %.1fs, %d lines validated in %.1fs, %d monitor failures, %d drift",
					ps[i].Name, len(o.runs), o.steps, o.calls, o.replayS, o.lines, o.validS, len(o.findings), o.driftN)
			}
		}(i)
	}
	wg.Wait()
	if msg := <-pre; msg != "" {
		say("INCONCLUSIVE: %s\n", msg)
		return core.ExitInconclusive
	}
	for i := range ps {
		if errs[i] != nil {
			say("INCONCLUSIVE: %v\n", errs[i])
			return core.ExitInconclusive
		}
		if outs[i].live == nil && (len(outs[i].runs) == 0 || outs[i].lines == 0) {
			say("INCONCLUSIVE: chainobs plan %s replayed nothing\n", ps[i].Name)
			return core.ExitInconclusive
		}
		if len(outs[i].harness) > 0 {
			say("INCONCLUSIVE: the harness could not read back what it set up in plan %s: %s\n", ps[i].Name, outs[i].harness[0])
			return core.ExitInconclusive
		}
	}
	// K1-K5 are properties of the NEW module, not monitors of C15 itself: their failures on observed
	// steps are OBSERVATIONS (exit 0), grouped per monitor. The stage evaluates no monitor of C15
	// proper, so it never raises VIOLATION property=C15.
	type obsGroup struct {
		Monitor   string         `json:"monitor"`
		Count     int            `json:"lines"`
		Runs      int            `json:"behaviours"`
		Conform   int            `json:"lines_conforming_to_the_as_found_spec"`
		Predicted int            `json:"lines_of_behaviours_for_which_TLC_predicted_it"`
		Plans     map[string]int `json:"plans"`
		Shortest  string         `json:"shortest"`
		Replay    string         `json:"replay"`
		best      *Finding
		runs      map[string]bool
	}
	byMon := map[string]*obsGroup{}
	var groups []*obsGroup
	drift := 0
	for i, p := range ps {
		o := outs[i]
		drift += o.driftN
		if o.driftN > 0 {
			dl := o.drift[0]
			bt := ""
			for _, r := range o.runs {
				if r.No == dl.Run {
					bt = behText(p, r.Beh, dl.Pos)
				}
			}
			say("DRIFT stage=chainobs plan=%s: %d lines are not what the code-shaped spec %+v yields; first: run=%d pos=%d after: %s line=%s\n", p.Name, o.driftN, p.M, dl.Run, dl.Pos, bt, brief(dl.J))
		}
		for fi := range o.findings {
			f := &o.findings[fi]
			g := byMon[f.Monitor]
			if g == nil {
				g = &obsGroup{Monitor: f.Monitor, Plans: map[string]int{}, runs: map[string]bool{}}
				byMon[f.Monitor] = g
				groups = append(groups, g)
			}
			g.Count++
			g.Plans[p.Name]++
			g.runs[fmt.Sprintf("%s/%d", p.Name, f.run.No)] = true
			if f.Conforms {
				g.Conform++
			}
			if f.Predicted {
				g.Predicted++
			}
			if g.best == nil || better(f, g.best) {
				g.best = f
			}
		}
		if o.live != nil {
			for _, l := range o.live.report {
				say("%s\n", l)
			}
		}
	}
	sort.Slice(groups, func(i, j int) bool { return groups[i].Monitor < groups[j].Monitor })
	for _, g := range groups {
		g.Runs = len(g.runs)
		f := g.best
		g.Shortest = behText(f.Plan, f.run.Beh, f.Pos)
		g.Replay = c.WriteReplay("chainobs-"+g.Monitor, ReplayFile{Prop: c.Prop, Stage: "chainobs", Seed: f.run.Seed, Run: f.run.No, Plan: f.Plan,
			Beh: f.run.Beh, Text: g.Shortest, Monitor: f.Monitor, Pos: f.Pos, Line: f.Line})
		var pl []string
		for n, k := range g.Plans {
			pl = append(pl, fmt.Sprintf("%s=%d", n, k))
		}
		sort.Strings(pl)
		say("OBSERVATION chainobs: %s (%s): %d observed lines in %d replayed behaviours (%s), %d of them are what the as-found spec yields; shortest: %s replay=%s\n",
			g.Monitor, monitorText[g.Monitor], g.Count, g.Runs, strings.Join(pl, " "), g.Conform, g.Shortest, g.Replay)
	}
	var obsAny []any
	for _, g := range groups {
		obsAny = append(obsAny, g)
	}
	if err := mergeEvidence(c, modes, ps, outs, obsAny, say); err != nil {
		fmt.Fprintln(os.Stderr, "chainobs evidence:", err)
	}
	say("OK property=%s stage=chainobs tier=%s (%d observation classes, %d drift lines; no monitor of %s itself is evaluated in this stage)\n", c.Prop, c.Tier, len(groups), drift, c.Prop)
	return core.ExitOK
}

// mergeEvidence adds coverage.growth_chainobs to the evidence file the main C15 check wrote.
func mergeEvidence(c *core.Ctx, m Modes, ps []Plan, outs []*outcome, obs []any, say func(string, ...any)) error {
	if os.Getenv("VERIF_CHAINOBS_NOEVIDENCE") != "" {
		return nil
	}
	b, err := os.ReadFile(evidencePath)
	if err != nil {
		say("NOTE: %s does not exist (the main C15 check has not run); the chainobs stage writes no evidence\n", evidencePath)
		return nil
	}
	var evd ev.Evidence
	if err := json.Unmarshal(b, &evd); err != nil || evd.PropertyID != c.Prop {
		return fmt.Errorf("%s unreadable or not the evidence of %s: %v", evidencePath, c.Prop, err)
	}
	if evd.Coverage == nil {
		evd.Coverage = map[string]any{}
	}
	states, trans, runs, steps, calls, lines, drift := 0, 0, 0, 0, 0, 0, 0
	var info, samples []any
	for i, p := range ps {
		o := outs[i]
		if o.live != nil {
			states += o.live.states
			info = append(info, J{"plan": p.Name, "liveness": o.live.info})
			runs += len(o.runs)
			steps += o.steps
			lines += o.lines
			continue
		}
		states += o.gen.Distinct
		trans += o.gen.States
		runs += len(o.runs)
		steps += o.steps
		calls += o.calls
		lines += o.lines
		drift += o.driftN
		pi := J{"name": p.Name, "kinds": len(p.Kinds), "maxBlocks": p.MaxBlocks, "maxEvents": p.MaxEvents, "maxPerBlock": p.MaxPerBlock, "maxLeaves": p.MaxLeaves,
			"gapSet": p.GapSet, "faults": p.Faults, "startFaults": p.StartFaults, "maxFaults": p.MaxFaults, "maxStops": p.MaxStops, "maxIdle": p.MaxIdle,
			"maxCatch": p.MaxCatch, "maxSwitches": p.MaxSwitches, "deploy": []int{p.DeployKs, p.DeployCo}, "baseZero": p.BaseZero, "checkProps": p.CheckProps}
		info = append(info, J{"plan": pi, "tlc_distinct_states": o.gen.Distinct, "tlc_states_generated": o.gen.States, "tlc_wall_s": o.gen.Wall,
			"behaviours_printed": len(o.gen.Beh), "classes": o.classes, "spec_counterexamples": len(o.gen.Cex), "behaviours_replayed": len(o.runs), "steps": o.steps,
			"observer_steps_of_repository_code": o.calls, "trace_lines_validated": o.lines, "drift_lines": o.driftN, "observed_K_monitor_failures": len(o.findings)})
		if len(o.runs) > 0 && len(samples) < 4 {
			r := o.runs[int(c.Seed%int64(len(o.runs))+int64(len(o.runs)))%len(o.runs)]
			s := J{"plan": p.Name, "behaviour": behText(p, r.Beh, -1)}
			if n := len(r.Lines); n > 0 {
				s["final_tables"] = r.Lines[n-1].J["ob"]
			}
			samples = append(samples, s)
		}
	}
	evd.Coverage["growth_chainobs"] = J{
		"module": "specs/ChainObs.tla, ChainObsProps.tla, ChainObsMC.tla, ChainObsTrace.tla (tree operators of ChainSync.tla)",
		"tier":   c.Tier, "seed": c.Seed, "wall_s": time.Since(c.Start).Seconds(), "violations": 0, "observations": obs,
		"code_shaped_alternatives": m,
		"states":                   states, "transitions": trans, "traces_validated_against_impl": runs,
		"evaluations": calls, "distinct_nontrivial": runs, "trace_lines_validated": lines, "drift_lines": drift, "steps": steps,
		"plans": info, "samples": samples,
		"rule": "TLC explores each plan exhaustively (every tree of the plan's alphabet within its bounds incl. runs of eventless blocks, observer 1 started / polled page by page / stopped at any time under every fault of the plan at every item and statement, observer 2 catching up at any time) and prints one history per distinct (state, last response, fault classes met). traces_validated_against_impl = histories (a seeded sample that keeps every class of tags / predicted monitors / last step) replayed as ONE run each on a fresh real world (2 x (fakeeth node with ABI-packed NewConfig events and an AddrsSeq emulator, fakepg, the real chainobserver.ChainObserver built like the snapshot keyper builds it, gated at eth_blockNumber)) and validated by ChainObsTrace (pass A monitors K1-K5 -> OBSERVATION, pass B conformance -> DRIFT); evaluations = Start / page steps of the real observer",
	}
	nb, err := json.MarshalIndent(evd, "", " ")
	if err != nil {
		return err
	}
	tmp := evidencePath + ".chainobs.tmp"
	if err := os.WriteFile(tmp, append(nb, '\n'), 0o644); err != nil {
		return err
	}
	return os.Rename(tmp, evidencePath)
}

// replay re-executes the run of a replay file and validates it again.
func replay(c *core.Ctx, say func(string, ...any)) int {
	b, err := os.ReadFile(c.Replay)
	if err != nil {
		say("INCONCLUSIVE: %v\n", err)
		return core.ExitInconclusive
	}
	var rf ReplayFile
	if err := json.Unmarshal(b, &rf); err != nil || rf.Stage != "chainobs" {
		say("NOTE: not a chainobs replay file; nothing to do in this stage\n")
		return core.ExitOK
	}
	r := &Run{Plan: rf.Plan, Beh: rf.Beh, Seed: rf.Seed, No: rf.Run}
	r.Execute()
	if r.Err != nil {
		say("INCONCLUSIVE: %v\n", r.Err)
		return core.ExitInconclusive
	}
	tb, err := marshalLines(r.Lines)
	if err != nil {
		say("INCONCLUSIVE: %v\n", err)
		return core.ExitInconclusive
	}
	vr, err := validate(rf.Plan, tb)
	if err != nil {
		say("INCONCLUSIVE: %v\n", err)
		return core.ExitInconclusive
	}
	say("behaviour: %s\nviol=%v drift=%v\n", behText(rf.Plan, rf.Beh, -1), vr.Viol, vr.Drift)
	for _, l := range r.Lines {
		say("  %s\n", brief(l.J))
	}
	for _, v := range vr.Viol {
		if len(v) == 2 && v[1] == rf.Monitor {
			say("OBSERVATION chainobs: reproduced %s (a property of the chain observer, not a verdict of %s) replay=%s\n", rf.Monitor, c.Prop, c.Replay)
			return core.ExitOK
		}
	}
	say("not reproduced\n")
	return core.ExitOK
}
