package chainobs

import (
	"fmt"

	"verif/harness/core"
)

// the AddrsSeq table used by most plans: set token s = AddrsSeq index s - 1
//
//	1 empty (index 0: the list both config contracts require to be empty)
//	2 {1}       3 {1,2}      4 {1,2,3}     5 {2,2,3} duplicate member
//	6 revert (n out of range)  7 undecodable answer  8 countNth = 2^40
var stdSets = []SetDef{
	{Mem: []int{}, Ans: "ok"}, {Mem: []int{1}, Ans: "ok"}, {Mem: []int{1, 2}, Ans: "ok"}, {Mem: []int{1, 2, 3}, Ans: "ok"},
	{Mem: []int{2, 2, 3}, Ans: "ok"}, {Mem: []int{}, Ans: "revert"}, {Mem: []int{}, Ans: "empty"}, {Mem: []int{}, Ans: "huge"},
}

func ks(idx, act, set, thr int) Ev {
	return Ev{T: "ks", Idx: idx, Act: act, Set: set, Thr: thr, C: "ok"}
}
func co(idx, act, set int) Ev { return Ev{T: "co", Idx: idx, Act: act, Set: set, Thr: 0, C: "ok"} }
func data(e Ev, c string) Ev  { e.C = c; return e }

// the constructors' events of block 0: NewConfig(0, 0, 0, 0) of both config contracts
var (
	ks0 = ks(0, 0, 1, 0)
	co0 = co(0, 0, 1)
)

func fk(k string, ws ...string) []FaultKind {
	if len(ws) == 0 {
		return []FaultKind{{K: k, W: "-"}}
	}
	var out []FaultKind
	for _, w := range ws {
		out = append(out, FaultKind{K: k, W: w})
	}
	return out
}

func cat(fs ...[]FaultKind) []FaultKind {
	var out []FaultKind
	for _, f := range fs {
		out = append(out, f...)
	}
	return out
}

func preflightPlan() Plan {
	return Plan{Name: "preflight", Kinds: []Ev{ks0, co0, ks(1, tokP63, 3, tokT31), co(1, 5, 2), data(ks(3, 6, 8, 1), "short")},
		Root: [][2]int{{1, 0}, {2, 1}}, Sets: stdSets, Once: []int{5}, MaxOnce: 1, Pos: []int{1}, MaxPerBlock: 1,
		MaxBlocks: 3, MaxEvents: 1, MaxLeaves: 2, GapSet: []int{3}, MaxRuns: 1, MaxSwitches: 1,
		Faults:      cat(fk("err", "ins"), fk("rpcM"), fk("crashc"), fk("rpcL")),
		StartFaults: true, MaxFaults: 1, MaxStops: 1, MaxIdle: 1, MaxCatch: 1, BaseZero: true, M: AsFound}
}

// plans: every plan is explored exhaustively by TLC inside its bounds (specs/ChainObsMC.tla).
//
//	part     well-formed keyper / collator configs on a linear chain; observer 1 started, polled page
//	         by page and stopped at any time while the chain grows (every partition of the chain into
//	         pages and sessions), observer 2 catching up at any time: restart cursors, the event of
//	         the deployment block, two events in one block, K3
//	classes  ONE event out of every odd class (index gap / repeat / out of order / >= 2^63,
//	         activation in the past / equal / 2^63-1 / 2^63 / 2^64-1, zero members, duplicate members,
//	         threshold 0 / > n / 2^31 / 2^32+1, members not readable (revert, undecodable answer),
//	         log data truncated / a word >= 2^64 / trailing bytes, several collators, a collator
//	         activation used twice) before / after / next to well-formed ones
//	faults   every SQL statement of every item failing / losing the connection / committing without
//	         reply, the member calls failing, eth_blockNumber / eth_getLogs failing, a crash before /
//	         after the commit of every item, the progress row unreadable at start; then restart
//	fork     one fork: shallow (inside the finality offset) and beyond it, switches back and forth
//	gap      runs of 2 / 3 / 4 / 7 blocks (finality offset and page size -1 / = / +1, two pages + 1)
//	deploy   different deployment blocks of the two config contracts (the cursor's start rule)
//	wrap     a chain that starts 3 blocks below 2^31 (int32 progress columns)
//	huge     countNth answers 2^40
//	live     bounded liveness (see runLive)
func plans(c *core.Ctx, m Modes) []Plan {
	th := c.Thorough()
	pick := func(q, t int) int {
		if th {
			return t
		}
		return q
	}
	base := Plan{Root: [][2]int{{1, 0}, {2, 1}}, Sets: stdSets, Once: []int{}, Pos: []int{0}, MaxPerBlock: 1, MaxLeaves: 1,
		GapSet: []int{3}, MaxRuns: 2, Faults: []FaultKind{}, BaseZero: true, M: m}
	var ps []Plan

	p := base
	p.Name = "part"
	p.Kinds = []Ev{ks0, co0, ks(1, 5, 3, 2), ks(2, 6, 4, 2), co(1, 5, 2)}
	p.MaxBlocks, p.MaxEvents, p.MaxStops, p.MaxIdle, p.MaxCatch, p.Replay = pick(4, 5), pick(2, 3), 1, 1, 1, pick(220, 3000)
	ps = append(ps, p)

	// two events in one block, an event behind a foreign log: cursors inside a block
	p = base
	p.Name = "pos"
	p.Kinds = []Ev{ks0, co0, ks(1, 5, 3, 2), ks(2, 6, 4, 2), co(1, 5, 2)}
	p.MaxPerBlock, p.Pos = 2, []int{0, 1}
	p.Faults = cat(fk("crash"), fk("crashc"), fk("err", "upd"))
	p.MaxBlocks, p.MaxEvents, p.MaxFaults, p.MaxStops, p.MaxCatch, p.Replay = pick(3, 4), 2, 1, pick(0, 1), 0, pick(200, 2500)
	ps = append(ps, p)

	p = base
	p.Name = "classes"
	p.Kinds = []Ev{ks0, co0, ks(1, 5, 3, 2), ks(2, 6, 4, 2), co(1, 5, 2),
		ks(3, 7, 4, 3),                // 6 index gap (when 2 is missing) / plain third set
		ks(1, 7, 4, 3),                // 7 index repeated with other values
		ks(tokP63, 7, 3, 1),           // 8 index 2^63
		ks(3, 1, 3, 1),                // 9 activation in the past
		ks(3, tokM63, 3, 1),           // 10 activation 2^63-1 (fits)
		ks(3, tokP63, 3, 1),           // 11 activation 2^63
		ks(3, tokU64, 3, 1),           // 12 activation 2^64-1
		ks(3, 7, 1, 0),                // 13 zero members
		ks(3, 7, 5, 2),                // 14 duplicate members
		ks(3, 7, 3, 0),                // 15 threshold 0 with members
		ks(3, 7, 3, 3),                // 16 threshold > n
		ks(3, 7, 3, tokT31),           // 17 threshold 2^31
		ks(3, 7, 3, tokT32),           // 18 threshold 2^32+1
		ks(3, 7, 6, 1),                // 19 members: revert
		data(ks(3, 7, 3, 1), "short"), // 20 log data truncated
		data(ks(3, 7, 3, 1), "wide"),  // 21 a word >= 2^64
		data(ks(3, 7, 3, 1), "long"),  // 22 trailing bytes
		co(2, 6, 3),                   // 23 several collators
		co(2, 5, 2),                   // 24 a collator activation used twice
		co(2, tokP63, 2),              // 25 collator activation 2^63
		data(co(2, 6, 2), "short"),    // 26
		ks(3, 7, 7, 1),                // 27 members: undecodable answer (thorough)
	}
	p.Once = []int{6, 7, 8, 9, 10, 11, 12, 13, 14, 15, 16, 17, 18, 19, 20, 21, 22, 23, 24, 25, 26, 27}
	if th {
		p.Once = append(p.Once, 28, 29)
	} else {
		p.Kinds = p.Kinds[:27]
	}
	p.MaxOnce = 1
	p.MaxBlocks, p.MaxEvents, p.MaxStops, p.MaxCatch, p.Replay, p.Par = 4, 2, pick(0, 1), pick(0, 1), pick(300, 3000), 48
	ps = append(ps, p)

	allW := []string{"begin", "ins", "upd", "commit"}
	p = base
	p.Name = "faults"
	p.Kinds = []Ev{ks0, co0, ks(1, 5, 3, 2), co(1, 5, 2), ks(2, 6, 4, 2)}
	p.Faults = cat(fk("err", allW...), fk("drop", allW...), fk("dropc"), fk("crash"), fk("crashc"), fk("rpcM"), fk("rpcB"), fk("rpcL"), fk("rpc1"))
	p.StartFaults = true
	p.MaxBlocks, p.MaxEvents, p.MaxFaults, p.MaxStops, p.MaxCatch, p.Replay, p.Par = pick(3, 4), pick(1, 2), 1, 1, pick(0, 1), pick(260, 3000), 64
	if !th {
		p.Kinds = p.Kinds[:4]
	}
	ps = append(ps, p)

	p = base
	p.Name = "fork"
	p.Kinds = []Ev{ks0, co0, ks(1, 5, 3, 2), ks(1, 6, 4, 3), ks(2, 6, 4, 2)}
	if !th {
		p.Kinds = p.Kinds[:4]
	}
	p.MaxRuns, p.NoEmpty = 2, true
	p.MaxLeaves, p.MaxSwitches = 2, pick(1, 2)
	p.GapSet = []int{2, 4}
	p.MaxBlocks, p.MaxEvents, p.MaxStops, p.MaxCatch, p.Replay = 5, 2, 0, 1, pick(250, 3000)
	ps = append(ps, p)

	p = base
	p.Name = "gap"
	p.Kinds = []Ev{ks0, co0, ks(1, 5, 3, 2), ks(2, 6, 4, 2)}
	p.GapSet, p.MaxRuns = []int{2, 3, 4, 7}, 3
	p.MaxBlocks, p.MaxEvents, p.MaxStops, p.MaxIdle, p.MaxCatch, p.Replay = pick(4, 5), 2, 0, 1, pick(0, 1), pick(200, 2500)
	ps = append(ps, p)

	for _, d := range [][2]int{{1, 0}, {0, 1}, {2, 1}} {
		p = base
		p.Name = fmt.Sprintf("deploy%d%d", d[0], d[1])
		p.DeployKs, p.DeployCo = d[0], d[1]
		p.Kinds = []Ev{ks0, co0, ks(1, 5, 3, 2), co(1, 5, 2)}
		p.Root = [][2]int{}
		if d[0] == 0 {
			p.Root = [][2]int{{1, 0}}
		} else if d[1] == 0 {
			p.Root = [][2]int{{2, 0}}
		}
		p.MaxPerBlock, p.Pos = 2, []int{0, 1}
		p.Faults = cat(fk("crashc"))
		p.MaxBlocks, p.MaxEvents, p.MaxFaults, p.MaxStops, p.MaxIdle, p.MaxCatch, p.Replay = pick(3, 4), 3, 1, 1, 1, 0, pick(120, 1500)
		ps = append(ps, p)
		if !th && d[0] == 0 {
			break
		}
	}

	p = base
	p.Name = "wrap"
	p.BaseZero = false
	p.Kinds = []Ev{ks0, co0, ks(1, 5, 3, 2), ks(2, 6, 4, 2)}
	p.GapSet = []int{3, 4}
	p.MaxBlocks, p.MaxEvents, p.MaxStops, p.MaxIdle, p.MaxCatch, p.Replay = pick(4, 5), 2, 1, 1, 1, pick(150, 2000)
	ps = append(ps, p)

	p = base
	p.Name = "huge"
	p.Kinds = []Ev{ks0, co0, ks(1, 5, 3, 2), ks(2, 6, 8, 1)}
	p.Once, p.MaxOnce = []int{4}, 1
	p.MaxBlocks, p.MaxEvents, p.MaxStops, p.MaxCatch, p.Replay = 3, 2, 0, pick(0, 1), pick(40, 300)
	ps = append(ps, p)

	// the property layer as an invariant of the REPAIRED alternatives (TLC only: the tree is as found)
	p = base
	p.Name, p.PropsOnly, p.CheckProps, p.M = "props-repaired", true, true, Repaired
	p.Kinds = []Ev{ks0, co0, ks(1, 5, 3, 2), co(1, 5, 2), ks(2, 6, 4, 2)}
	p.Faults = cat(fk("err", "ins", "commit"), fk("dropc"), fk("crash"), fk("crashc"), fk("rpcM"), fk("rpcB"))
	if th {
		p.Faults = cat(fk("err", "begin", "ins", "upd", "commit"), fk("drop", "ins"), fk("dropc"), fk("crash"), fk("crashc"), fk("rpcM"), fk("rpcB"), fk("rpcL"))
	}
	p.StartFaults = true
	p.MaxBlocks, p.MaxEvents, p.MaxFaults, p.MaxStops, p.MaxIdle, p.MaxCatch = pick(3, 4), 2, 1, 1, 0, 1
	ps = append(ps, p)

	p = base
	p.Name, p.Live = "live", true
	p.Kinds = []Ev{ks0, co0, ks(1, 5, 3, 2), co(1, 5, 2)}
	p.Faults = cat(fk("err", "ins", "commit"), fk("rpcM"), fk("crash"))
	p.MaxBlocks, p.MaxEvents, p.MaxFaults, p.MaxStops, p.MaxIdle = pick(3, 4), pick(1, 2), 1, 1, 0
	ps = append(ps, p)
	return ps
}
