package e2e

import (
	"fmt"
	"os"
	"strings"
	"time"

	"verif/harness/dkg"
)

// Line is one ndjson trace line together with where it came from.
type Line struct {
	J     J
	Run   int
	Sched int // index into WorldRun.Scheds, -1 for phase-1 / handover lines
}

// WorldRun is one end-to-end run: a strategy's phase 1 on a fresh DKG world, the handover, and a
// list of phase-2 schedules executed one after the other on that world's databases.
type WorldRun struct {
	Plan   Plan
	P1     *Phase1
	Scheds []Schedule
	Seed   int64
	Run    int

	Lines   []Line
	Err     error
	Steps   int
	Drained int
	Calls   int
	Stmts   map[string]bool // SQL statements (fakepg ids) executed during phase 2, if logged
	Pins    []string
	X       J
	Sig     string
}

func wtJSON(wt [][]int) [][]int {
	out := make([][]int, len(wt))
	for i, xs := range wt {
		out[i] = xs
		if xs == nil {
			out[i] = []int{}
		}
	}
	return out
}

// Execute runs the whole behaviour on the real code.
func (r *WorldRun) Execute(logStmts bool) {
	emit := func(sched int, j J) {
		j["run"] = r.Run
		r.Lines = append(r.Lines, Line{J: j, Run: r.Run, Sched: sched})
	}
	// ---- phase 1: exactly as harness/dkg replays a behaviour (dkg.Execute), on a world we keep ----
	w, err := dkg.NewWorld(r.Plan.Cfg, r.Seed, 0)
	if err != nil {
		r.Err = err
		return
	}
	defer w.Close()
	emit(-1, J{"k": "new", "strat": r.P1.Strat, "st": w.State()})
	for i, o := range r.P1.Ops {
		if w.Chain.Open() == nil {
			break
		}
		np := len(w.Panics)
		o := o
		out := w.Apply(o)
		l := J{"k": "op", "i": i + 1, "op": o, "out": out, "st": w.State(), "panic": ""}
		if len(w.Panics) > np {
			l["panic"] = strings.Join(w.Panics[np:], "; ")
		}
		emit(-1, l)
	}
	fin := w.Fin()
	emit(-1, J{"k": "fin", "fin": fin, "panic": ""})
	r.Calls = w.Calls
	// ---- handover: the databases stay as they are ----
	net, err := NewNet(w)
	if err != nil {
		r.Err = err
		return
	}
	defer net.Close()
	x := net.Handover()
	if os.Getenv("VERIF_E2E_CORRUPT") == "pk" {
		x["pk"] = "corrupted" // binding self-check: a corrupted logged field must make a monitor fire
	}
	r.X = x
	emit(-1, x)
	r.Sig = fmt.Sprint(r.P1.Strat, x["succ"])
	if logStmts {
		for _, nd := range net.nodes {
			nd.srv.ResetLog()
			nd.srv.SetLogging(true)
		}
	}
	// ---- phase 2: the schedules, each a new decryption trigger (fresh identities) of the one eon ----
	for sno, sc := range r.Scheds {
		net.Begin(r.Plan.Rounds, r.Plan.Ids(), fmt.Sprintf("seed%d-run%d-s%d", r.Seed, r.Run, sno))
		emit(sno, J{"k": "gnew", "s": sno, "wt": wtJSON(sc.Wt), "tabs": net.Tables()})
		step := func(a Action, drain bool) {
			l := J{"k": "gstep", "s": sno, "a": a.A, "n": a.N, "m": a.M, "verdict": "-", "err": "", "missing": false, "drain": drain}
			net.prod = nil
			var verdict, errs string
			missing := false
			pan := guard(90*time.Second, func() {
				switch a.A {
				case "trig":
					errs = net.trigger(a.N, a.M.R)
				case "dlv":
					k := net.find(a.M, a.N)
					if k < 0 {
						missing = true
						return
					}
					verdict, errs = net.deliver(k)
				case "drop":
					k := net.find(a.M, a.N)
					if k < 0 {
						missing = true
						return
					}
					net.inflight = append(net.inflight[:k:k], net.inflight[k+1:]...)
				}
			})
			if strings.HasPrefix(errs, "hang:") {
				pan, errs = errs, ""
			}
			if verdict != "" {
				l["verdict"] = verdict
			}
			l["err"], l["missing"], l["panic"] = errs, missing, pan
			prod := net.prod
			if prod == nil {
				prod = []prodObs{}
			}
			l["prod"] = prod
			l["tabs"] = net.Tables()
			l["pending"] = len(net.inflight)
			r.Steps++
			if drain {
				r.Drained++
			}
			emit(sno, l)
		}
		for _, a := range sc.Sched {
			step(a, false)
		}
		// whatever the real nodes still have in flight is delivered in FIFO order
		for guardN := 0; len(net.inflight) > 0 && guardN < 200; guardN++ {
			p := net.inflight[0]
			step(Action{A: "dlv", N: p.dest, M: p.abs}, true)
		}
		judge := net.Judge()
		if os.Getenv("VERIF_E2E_CORRUPT") == "key" {
			for _, row := range judge {
				for _, e := range row.([]any) {
					if m := e.(map[string]any); m["has"] == true {
						m["dec"] = false
					}
				}
			}
		}
		emit(sno, J{"k": "gend", "s": sno, "wt": wtJSON(sc.Wt), "pending": len(net.inflight), "tabs": net.Tables(), "judge": judge})
	}
	if logStmts {
		r.Stmts = map[string]bool{}
		for _, nd := range net.nodes {
			for _, e := range nd.srv.Log() {
				if e.ID != "" {
					r.Stmts[e.ID] = true
				}
			}
			nd.srv.SetLogging(false)
		}
	}
	for _, nd := range net.nodes {
		r.Pins = append(r.Pins, nd.srv.PinMismatches()...)
	}
}
