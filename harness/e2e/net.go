package e2e

import (
	"bytes"
	"context"
	"crypto/sha256"
	"encoding/hex"
	"fmt"
	"sort"
	"strings"
	"time"

	"github.com/ethereum/go-ethereum/common"
	"github.com/jackc/pgx/v4/pgxpool"
	pubsub "github.com/libp2p/go-libp2p-pubsub"
	pubsubpb "github.com/libp2p/go-libp2p-pubsub/pb"
	"github.com/libp2p/go-libp2p/core/peer"
	"github.com/shutter-network/shutter/shlib/puredkg"
	"github.com/shutter-network/shutter/shlib/shcrypto"

	kprdb "github.com/shutter-network/rolling-shutter/rolling-shutter/keyper/database"
	"github.com/shutter-network/rolling-shutter/rolling-shutter/keyper/epochkghandler"
	"github.com/shutter-network/rolling-shutter/rolling-shutter/medley/broker"
	"github.com/shutter-network/rolling-shutter/rolling-shutter/medley/identitypreimage"
	"github.com/shutter-network/rolling-shutter/rolling-shutter/medley/retry"
	"github.com/shutter-network/rolling-shutter/rolling-shutter/medley/service"
	"github.com/shutter-network/rolling-shutter/rolling-shutter/p2p"
	"github.com/shutter-network/rolling-shutter/rolling-shutter/p2pmsg"
	"github.com/shutter-network/rolling-shutter/rolling-shutter/shdb"

	"verif/harness/dkg"
	"verif/harness/fakepg"
)

// The phase-2 network. Its structure (simMessaging = registries of a real P2PMessaging + publish
// as libp2p does it, deliver = combined validator then P2PMessaging.Handle) is that of
// harness/gossip/simnet.go, core flavour; what differs is where the databases come from: here they
// are the databases of the honest keypers of a finished harness/dkg world, untouched.

const (
	InstanceID    = uint64(42)
	MaxKeysPerMsg = uint64(16)
)

type coreConfig struct{ addr common.Address }

func (c coreConfig) GetAddress() common.Address      { return c.addr }
func (c coreConfig) GetInstanceID() uint64           { return InstanceID }
func (c coreConfig) GetMaxNumKeysPerMessage() uint64 { return MaxKeysPerMsg }

type prodObs struct {
	M   AbsMsg `json:"m"`
	Own string `json:"own"`
	An  string `json:"an"`
}

type packet struct {
	abs   AbsMsg
	from  int
	dest  int
	topic string
	data  []byte
}

func (p *packet) pubsubMessage() *pubsub.Message {
	topic := p.topic
	pid := peer.ID(fmt.Sprintf("sim-node-%d", p.from))
	return &pubsub.Message{Message: &pubsubpb.Message{From: []byte(pid), Data: p.data, Topic: &topic}, ReceivedFrom: pid}
}

type goRunner struct{ ctx context.Context }

func (r goRunner) Go(f func() error) { go func() { _ = f() }() }
func (r goRunner) Defer(func())      {}
func (r goRunner) StartService(s ...service.Service) error {
	for _, x := range s {
		if err := x.Start(r.ctx, r); err != nil {
			return err
		}
	}
	return nil
}

type simMessaging struct {
	net  *Net
	idx  int
	real *p2p.P2PMessaging
}

func (s *simMessaging) Start(context.Context, service.Runner) error { return nil }
func (s *simMessaging) AddValidator(v p2p.ValidatorFunc, protos ...p2pmsg.Message) {
	s.real.AddValidator(v, protos...)
}
func (s *simMessaging) AddMessageHandler(mhs ...p2p.MessageHandler) { s.real.AddMessageHandler(mhs...) }
func (s *simMessaging) SendMessage(ctx context.Context, msg p2pmsg.Message, _ ...retry.Option) error {
	return s.net.publish(ctx, s.idx, msg)
}

// gnode is the gossip node of one honest keyper (idx = keyper index = DKG keyper number - 1).
type gnode struct {
	idx   int
	srv   *fakepg.Server // the keyper's database as the DKG left it
	pool  *pgxpool.Pool
	raw   *simMessaging
	ksh   *epochkghandler.KeyShareHandler
	trigC chan *broker.Event[*epochkghandler.DecryptionTrigger]
	res   *puredkg.Result // decoded dkg_result of the run's eon (nil: failed / none)
	rows  string          // what the repository's own queries return for the rows phase 2 reads
}

// Net is the phase-2 network over the honest keypers of one DKG world.
type Net struct {
	w        *dkg.World
	n        int
	nodes    map[int]*gnode // by keyper index
	order    []int
	cfgIdx   int64 // keyper config index of the run's eon (the "eon" field of the p2p messages)
	actBlock int64 // activation block number of the run's eon
	ref      *puredkg.Result
	refIdx   int
	rounds   [][]string        // identity lists of the current schedule, one per trigger round
	ids      []string          // all identity names of the current schedule
	idBytes  map[string][]byte // their preimages
	enc      map[string]*shcrypto.EncryptedMessage
	plain    []byte
	inflight []*packet
	prod     []prodObs
	cache    map[string]bool // results of the projection's own cryptographic checks, by input bytes
	ctx      context.Context
	cancel   context.CancelFunc
}

type detReader struct{ state [32]byte }

func newDetReader(label string) *detReader { return &detReader{state: sha256.Sum256([]byte(label))} }
func (d *detReader) Read(p []byte) (int, error) {
	n := 0
	for n < len(p) {
		d.state = sha256.Sum256(d.state[:])
		n += copy(p[n:], d.state[:])
	}
	return len(p), nil
}

func fp(parts ...[]byte) string {
	h := sha256.New()
	for _, p := range parts {
		h.Write(p)
	}
	return hex.EncodeToString(h.Sum(nil))[:24]
}

// NewNet starts a gossip node on the database of every honest keyper of the finished world. Nothing
// is written to the databases: whatever the handlers need must have been written by phase 1.
func NewNet(w *dkg.World) (*Net, error) {
	ctx, cancel := context.WithCancel(context.Background())
	n := &Net{w: w, n: w.Cfg.N, nodes: map[int]*gnode{}, ctx: ctx, cancel: cancel,
		plain: []byte("verif e2e: a message encrypted to the eon key the DKG produced"), refIdx: -1}
	// ground truth for the eon's keyper set: shuttermint itself
	inst := w.Chain.App.DKGMap[w.Eon]
	if inst == nil {
		cancel()
		return nil, fmt.Errorf("shuttermint has no DKG instance for eon %d", w.Eon)
	}
	n.cfgIdx, n.actBlock = int64(inst.Config.KeyperConfigIndex), int64(inst.Config.ActivationBlockNumber)
	for i := 1; i <= w.Cfg.N; i++ {
		dn := w.Nodes[i]
		if dn == nil {
			continue
		}
		pool, err := dn.PG.Pool(ctx, fakepg.MaxConns(4))
		if err != nil {
			n.Close()
			return nil, err
		}
		addr := w.U.Addr(dn.Tok)
		nd := &gnode{idx: i - 1, srv: dn.PG, pool: pool}
		nd.raw = &simMessaging{net: n, idx: i - 1, real: p2p.VerifGossipvalNewMessaging()}
		cc := coreConfig{addr: addr}
		// keyper.KeyperCore.Start: key handler, key share handler
		nd.raw.AddMessageHandler(
			epochkghandler.NewDecryptionKeyHandler(cc, pool),
			epochkghandler.NewDecryptionKeyShareHandler(cc, pool),
		)
		nd.trigC = make(chan *broker.Event[*epochkghandler.DecryptionTrigger])
		nd.ksh = &epochkghandler.KeyShareHandler{InstanceID: InstanceID, KeyperAddress: addr, MaxNumKeysPerMessage: MaxKeysPerMsg,
			DBPool: pool, Messaging: nd.raw, Trigger: nd.trigC}
		if err := nd.ksh.Start(ctx, goRunner{ctx}); err != nil {
			n.Close()
			return nil, err
		}
		n.nodes[i-1] = nd
		n.order = append(n.order, i-1)
		// the keyper's dkg_result row of the run's eon, read directly
		dn.PG.View(func(db *fakepg.DB) {
			for _, r := range db.DkgResult {
				if uint64(r.Eon) == w.Eon && r.Success {
					if pr, err := shdb.DecodePureDKGResult(r.PureResult); err == nil {
						nd.res = pr
					}
				}
			}
		})
		if nd.res != nil && n.ref == nil {
			n.ref, n.refIdx = nd.res, i
		}
	}
	for _, k := range n.order {
		n.nodes[k].rows = n.probeRows(n.nodes[k])
	}
	return n, nil
}

// probeRows asks the repository's own queries for exactly what KeyShareHandler.getEonForBlockNumber,
// GetKeyperIndex and the validators' GetDKGResultForKeyperConfigIndex will read.
func (n *Net) probeRows(nd *gnode) string {
	q := kprdb.New(nd.pool)
	var parts []string
	eon, err := q.GetEonForBlockNumber(n.ctx, n.actBlock+1)
	if err != nil {
		parts = append(parts, "GetEonForBlockNumber: "+err.Error())
	} else {
		parts = append(parts, fmt.Sprintf("eon(block %d)=%d cfg=%d", n.actBlock+1, eon.Eon, eon.KeyperConfigIndex))
	}
	idx, is, err := q.GetKeyperIndex(n.ctx, n.cfgIdx, n.w.U.Addr(n.w.Nodes[nd.idx+1].Tok))
	if err != nil {
		parts = append(parts, "GetKeyperIndex: "+err.Error())
	} else {
		parts = append(parts, fmt.Sprintf("keyperIndex=%d isKeyper=%v", idx, is))
	}
	r, err := q.GetDKGResultForKeyperConfigIndex(n.ctx, n.cfgIdx)
	if err != nil {
		parts = append(parts, "GetDKGResultForKeyperConfigIndex: "+err.Error())
	} else {
		parts = append(parts, fmt.Sprintf("dkg_result(eon %d).success=%v", r.Eon, r.Success))
	}
	return strings.Join(parts, "; ")
}

func (n *Net) Close() {
	n.cancel()
	for _, nd := range n.nodes {
		nd.pool.Close()
	}
}

// Handover returns the cross-phase facts: which keypers hold a successful dkg_result, the
// fingerprint of the eon public key the test messages are encrypted to (same function as
// dkg.World.Fin's "pk"), per keyper the fingerprint of its key material.
func (n *Net) Handover() J {
	succ := []int{}
	mat := make([]string, n.n)
	rows := make([]string, n.n)
	for i := range mat {
		mat[i], rows[i] = dkg.Blank, dkg.Blank
	}
	for _, k := range n.order {
		nd := n.nodes[k]
		rows[k] = nd.rows
		if nd.res == nil || nd.res.PublicKey == nil {
			continue
		}
		succ = append(succ, k+1)
		pkb, _ := nd.res.PublicKey.GobEncode()
		parts := [][]byte{pkb}
		for _, s := range nd.res.PublicKeyShares {
			b, _ := s.GobEncode()
			parts = append(parts, b)
		}
		mat[k] = fp(parts...)
	}
	pk := dkg.Blank
	if n.ref != nil {
		pkb, _ := n.ref.PublicKey.GobEncode()
		pk = fp(pkb)
	}
	return J{"k": "x", "succ": succ, "pk": pk, "mat": mat, "rows": rows, "enc": n.refIdx,
		"cfgidx": int(n.cfgIdx), "eon": int(n.w.Eon), "act": int(n.actBlock)}
}

// Begin starts a schedule with fresh identities: the same eon, a new decryption trigger.
func (n *Net) Begin(rounds [][]string, ids []string, label string) {
	n.rounds, n.ids = rounds, ids
	n.idBytes = map[string][]byte{}
	n.enc = map[string]*shcrypto.EncryptedMessage{}
	n.inflight, n.prod = nil, nil
	n.cache = map[string]bool{}
	for _, id := range ids {
		h := sha256.Sum256([]byte("e2e-identity-" + id + "-" + label))
		n.idBytes[id] = append([]byte(id+":"), h[:20]...) // bytewise order of the preimages = order of the names
		if n.ref != nil {
			sigma, _ := shcrypto.RandomSigma(newDetReader("e2e-sigma-" + id + "-" + label))
			n.enc[id] = shcrypto.Encrypt(n.plain, n.ref.PublicKey, shcrypto.ComputeEpochID(n.idBytes[id]), sigma)
		}
	}
}

// identities returns the identity list of round r (1-based).
func (n *Net) identities(r int) []identitypreimage.IdentityPreimage {
	var l []identitypreimage.IdentityPreimage
	if r < 1 || r > len(n.rounds) {
		return l
	}
	for _, id := range n.rounds[r-1] {
		l = append(l, identitypreimage.IdentityPreimage(n.idBytes[id]))
	}
	return l
}

// roundOf returns the round whose identity list is exactly the given preimages (0 if none).
func (n *Net) roundOf(pre [][]byte) int {
	for r, ids := range n.rounds {
		if len(ids) != len(pre) {
			continue
		}
		ok := true
		for k, id := range ids {
			if !bytes.Equal(n.idBytes[id], pre[k]) {
				ok = false
			}
		}
		if ok {
			return r + 1
		}
	}
	return 0
}

func (n *Net) idName(b []byte) string {
	for id, ib := range n.idBytes {
		if bytes.Equal(ib, b) {
			return id
		}
	}
	return "?"
}

func verdictName(v pubsub.ValidationResult) string {
	switch v {
	case pubsub.ValidationAccept:
		return "accept"
	case pubsub.ValidationReject:
		return "reject"
	case pubsub.ValidationIgnore:
		return "ignore"
	}
	return fmt.Sprintf("unknown-%d", int(v))
}

func (n *Net) abstract(from int, msg p2pmsg.Message) AbsMsg {
	a := AbsMsg{From: from, Signers: []int{}}
	switch m := msg.(type) {
	case *p2pmsg.DecryptionKeyShares:
		a.T = "shares"
		var pre [][]byte
		for _, sh := range m.Shares {
			pre = append(pre, sh.IdentityPreimage)
		}
		a.R = n.roundOf(pre)
		if int(m.KeyperIndex) != from || a.R == 0 || int64(m.Eon) != n.cfgIdx {
			a.T = "shares?"
		}
	case *p2pmsg.DecryptionKeys:
		a.T = "keys"
		var pre [][]byte
		for _, k := range m.Keys {
			pre = append(pre, k.IdentityPreimage)
		}
		a.R = n.roundOf(pre)
		if a.R == 0 || int64(m.Eon) != n.cfgIdx || m.Extra != nil {
			a.T = "keys?"
		}
	default:
		a.T = fmt.Sprintf("%T", msg)
	}
	return a
}

// publish is the raw SendMessage of node i: marshal, the node's own combined topic validator (libp2p
// validates a local publish), one copy per other node.
func (n *Net) publish(ctx context.Context, i int, msg p2pmsg.Message) error {
	data, err := p2pmsg.Marshal(msg, nil)
	if err != nil {
		return err
	}
	pk := &packet{abs: n.abstract(i, msg), from: i, topic: msg.Topic(), data: data}
	obs := prodObs{M: pk.abs, An: "-"}
	pm := pk.pubsubMessage()
	own := n.nodes[i].raw.real.VerifGossipvalCombinedValidator(pk.topic)(ctx, pm.ReceivedFrom, pm)
	obs.Own = verdictName(own)
	n.prod = append(n.prod, obs)
	if own != pubsub.ValidationAccept {
		return fmt.Errorf("validation failed: local publish %s", obs.Own)
	}
	for _, j := range n.order {
		if j != i {
			c := *pk
			c.dest = j
			n.inflight = append(n.inflight, &c)
		}
	}
	return nil
}

func (n *Net) find(m AbsMsg, dest int) int {
	for k, p := range n.inflight {
		if p.dest == dest && p.abs.key() == m.key() {
			return k
		}
	}
	return -1
}

// trigger feeds one decryption trigger into the real KeyShareHandler service of node i and waits
// for the event's result (the trigger of round r). The error is returned by class.
func (n *Net) trigger(i, r int) string {
	nd := n.nodes[i]
	if nd == nil {
		return "harness: no node " + fmt.Sprint(i)
	}
	ev := broker.NewEvent(&epochkghandler.DecryptionTrigger{BlockNumber: uint64(n.actBlock + 1), IdentityPreimages: n.identities(r)})
	select {
	case nd.trigC <- ev:
	case <-time.After(20 * time.Second):
		return "hang: KeyShareHandler does not take the trigger"
	}
	select {
	case r := <-ev.Result():
		if r.Error != nil {
			switch {
			case strings.Contains(r.Error.Error(), epochkghandler.ErrEonDKGFailed.Error()):
				return "dkgfailed"
			case strings.Contains(r.Error.Error(), epochkghandler.ErrSharesAlreadySent.Error()):
				return "already"
			}
			return "other: " + r.Error.Error()
		}
	case <-time.After(30 * time.Second):
		return "hang: KeyShareHandler does not finish the trigger"
	}
	return ""
}

// deliver hands packet k to its destination: the real combined validator of the topic and, only on
// Accept, P2PMessaging.Handle, whose outputs are published as P2PMessaging.handle does.
func (n *Net) deliver(k int) (verdict string, errs string) {
	pk := n.inflight[k]
	n.inflight = append(n.inflight[:k:k], n.inflight[k+1:]...)
	nd := n.nodes[pk.dest]
	ctx, cancel := context.WithTimeout(n.ctx, 30*time.Second)
	defer cancel()
	pm := pk.pubsubMessage()
	v := nd.raw.real.VerifGossipvalCombinedValidator(pk.topic)(ctx, pm.ReceivedFrom, pm)
	if v != pubsub.ValidationAccept {
		return verdictName(v), ""
	}
	msg, _, err := p2p.UnmarshalPubsubMessage(pm)
	if err != nil {
		return verdictName(v), "unmarshal: " + err.Error()
	}
	outs, err := nd.raw.real.Handle(ctx, msg)
	if err != nil {
		return verdictName(v), err.Error()
	}
	for _, o := range outs {
		_ = nd.raw.SendMessage(ctx, o)
	}
	return verdictName(v), ""
}

// judgeKey classifies stored key bytes: "good" iff they decode, verify against the DKG's eon public
// key and decrypt the message that was encrypted to that key for the identity.
func (n *Net) judgeKey(id string, raw []byte) (string, bool) {
	ck := "k/" + id + "/" + string(n.idBytes[id]) + "/" + string(raw)
	if v, ok := n.cache[ck]; ok {
		if v {
			return "good", true
		}
		return "bad", false
	}
	r, ok := n.judgeKeyUncached(id, raw)
	n.cache[ck] = ok
	return r, ok
}

func (n *Net) judgeKeyUncached(id string, raw []byte) (string, bool) {
	key := new(shcrypto.EpochSecretKey)
	if err := key.Unmarshal(raw); err != nil || n.ref == nil || n.enc[id] == nil {
		return "bad", false
	}
	ok, err := shcrypto.VerifyEpochSecretKey(key, n.ref.PublicKey, n.idBytes[id])
	if err != nil || !ok {
		return "bad", false
	}
	pt, err := n.enc[id].Decrypt(key)
	if err != nil || !bytes.Equal(pt, n.plain) {
		return "bad", false
	}
	return "good", true
}

// shareValid: the stored share bytes are the sender's genuine share for the identity (they verify
// against the sender's public key share of the DKG result).
func (n *Net) shareValid(sender int, id string, raw []byte) bool {
	ck := fmt.Sprintf("s/%d/%s/%s/%s", sender, id, n.idBytes[id], raw)
	if v, ok := n.cache[ck]; ok {
		return v
	}
	v := n.shareValidUncached(sender, id, raw)
	n.cache[ck] = v
	return v
}

func (n *Net) shareValidUncached(sender int, id string, raw []byte) bool {
	if n.ref == nil || sender < 0 || sender >= len(n.ref.PublicKeyShares) {
		return false
	}
	sh, err := shdb.DecodeEpochSecretKeyShare(raw)
	if err != nil {
		return false
	}
	return shcrypto.VerifyEpochSecretKeyShare(sh, n.ref.PublicKeyShares[sender], shcrypto.ComputeEpochID(n.idBytes[id]))
}

// Tables projects the databases onto the node records of specs/Gossip.tla, for the identities of the
// current schedule (a Byzantine keyper has no node: its record stays the initial one).
func (n *Net) Tables() []any {
	var out []any
	for k := 0; k < n.n; k++ {
		shares, keys := map[string]any{}, map[string]any{}
		lists := map[string][]int{}
		for _, id := range n.ids {
			lists[id] = []int{}
			keys[id] = "none"
		}
		if nd := n.nodes[k]; nd != nil {
			nd.srv.View(func(db *fakepg.DB) {
				for _, r := range db.DecryptionKeyShare {
					id := n.idName(r.EpochID)
					if id == "?" {
						continue // another schedule's trigger
					}
					s := int(r.KeyperIndex)
					if r.Eon != n.cfgIdx || !n.shareValid(s, id, r.DecryptionKeyShare) {
						s = -1 - s
					}
					lists[id] = append(lists[id], s)
				}
				for _, r := range db.DecryptionKey {
					id := n.idName(r.EpochID)
					if id == "?" {
						continue
					}
					if r.Eon != n.cfgIdx {
						keys[id] = "alien"
						continue
					}
					keys[id], _ = n.judgeKey(id, r.DecryptionKey)
				}
			})
		}
		for id, l := range lists {
			sort.Ints(l)
			shares[id] = l
		}
		sigs := make([][]int, len(n.rounds)) // core flavour: no signatures, no current trigger, no tx pointer
		for r := range sigs {
			sigs[r] = []int{}
		}
		out = append(out, map[string]any{"shares": shares, "keys": keys, "sigs": sigs, "cur": 0, "ptr": -1})
	}
	return out
}

// Judge is the per-keyper final key judgement of the schedule: for every identity and keyper whether
// a decryption_key row exists, the fingerprint of its bytes and whether it decrypts the ciphertext.
func (n *Net) Judge() map[string]any {
	out := map[string]any{}
	for _, id := range n.ids {
		row := []any{}
		for k := 0; k < n.n; k++ {
			e := map[string]any{"has": false, "fp": dkg.Blank, "dec": false}
			if nd := n.nodes[k]; nd != nil {
				nd.srv.View(func(db *fakepg.DB) {
					for _, r := range db.DecryptionKey {
						if bytes.Equal(r.EpochID, n.idBytes[id]) {
							_, dec := n.judgeKey(id, r.DecryptionKey)
							e = map[string]any{"has": true, "fp": fmt.Sprintf("%d:%s", r.Eon, fp(r.DecryptionKey)), "dec": dec}
						}
					}
				})
			}
			row = append(row, e)
		}
		out[id] = row
	}
	return out
}

func guard(limit time.Duration, f func()) (panicked string) {
	done := make(chan string, 1)
	go func() {
		defer func() {
			if p := recover(); p != nil {
				done <- "panic: " + fmt.Sprint(p)
				return
			}
			done <- ""
		}()
		f()
	}()
	select {
	case s := <-done:
		return s
	case <-time.After(limit):
		return "hang: no return within " + limit.String()
	}
}
