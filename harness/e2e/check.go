package e2e

import (
	"bytes"
	"encoding/json"
	"fmt"
	"math/rand"
	"os"
	"sort"
	"strings"
	"sync"
	"time"

	"verif/harness/core"
	"verif/harness/dkg"
	"verif/harness/ev"
	"verif/harness/tlc"
)

const evidencePath = "/verif/evidence/C07.json"

func plans(c *core.Ctx) []Plan {
	one, two := [][]string{{"i1"}}, [][]string{{"i1", "i2"}}
	overlap := [][]string{{"i1"}, {"i1", "i2"}} // two trigger rounds with overlapping identity lists
	b := int(c.Seed%3+3)%3 + 1                  // the Byzantine keyper of the quick tier moves with the seed
	if !c.Thorough() {
		ids := two
		if c.Seed%2 == 1 {
			ids = one
		}
		// of the three honest strategies in which everybody succeeds with the same phase-2 state space
		// as allHonest, the quick tier explores one (chosen by the seed); the thorough tier all
		alt := []string{"evalLate", "evalLateApolLate", "commitLate"}[int(c.Seed/2%3+3)%3]
		return []Plan{
			{Name: "n3-honest", Cfg: dkg.Cfg{N: 3, T: 2, Byz: []int{}, PhaseLen: 2}, Rounds: ids, MaxLoss: 1, PerStrat: 80, Worlds: 4,
				Run: []string{"allHonest", "evalLateAccLate", alt}},
			{Name: fmt.Sprintf("n3-byz%d", b), Cfg: dkg.Cfg{N: 3, T: 2, Byz: []int{b}, PhaseLen: 2}, Rounds: ids, MaxLoss: 1, Worlds: 1},
		}
	}
	return []Plan{
		{Name: "n3-honest", Cfg: dkg.Cfg{N: 3, T: 2, Byz: []int{}, PhaseLen: 2}, Rounds: two, MaxLoss: 1, PerStrat: 0, Worlds: 12},
		{Name: "n3-honest-l3", Cfg: dkg.Cfg{N: 3, T: 2, Byz: []int{}, PhaseLen: 3}, Rounds: one, MaxLoss: 1, PerStrat: 120, Worlds: 4},
		{Name: "n3-byz1", Cfg: dkg.Cfg{N: 3, T: 2, Byz: []int{1}, PhaseLen: 2}, Rounds: two, MaxLoss: 1, Worlds: 2},
		{Name: "n3-byz2", Cfg: dkg.Cfg{N: 3, T: 2, Byz: []int{2}, PhaseLen: 2}, Rounds: one, MaxLoss: 1, Worlds: 2},
		{Name: "n3-byz3", Cfg: dkg.Cfg{N: 3, T: 2, Byz: []int{3}, PhaseLen: 3}, Rounds: two, MaxLoss: 1, Worlds: 2},
		{Name: "n3-byz2-2r", Cfg: dkg.Cfg{N: 3, T: 2, Byz: []int{2}, PhaseLen: 2}, Rounds: overlap, MaxLoss: 1, PerStrat: 120, Worlds: 2},
		{Name: "n4-t3-byz2", Cfg: dkg.Cfg{N: 4, T: 3, Byz: []int{2}, PhaseLen: 2}, Rounds: one, MaxLoss: 1, PerStrat: 60, Worlds: 3},
		{Name: "n4-t2-byz4", Cfg: dkg.Cfg{N: 4, T: 2, Byz: []int{4}, PhaseLen: 2}, Rounds: one, MaxLoss: 1, PerStrat: 150, Worlds: 4},
		{Name: "n4-t2-byz1", Cfg: dkg.Cfg{N: 4, T: 2, Byz: []int{1}, PhaseLen: 2}, Rounds: two, MaxLoss: 1, PerStrat: 60, Worlds: 2},
	}
}

// VResult is the RESULT record printed by E2ETrace.
type VResult struct {
	Lines int     `json:"lines"`
	Viol  [][]any `json:"viol"`
	Drift []int   `json:"drift"`
}

func validate(p Plan, trace []byte) (*VResult, error) {
	mod, files, cfg := p.trFiles(trace)
	res, err := tlc.Run(tlc.Opts{Module: mod, CfgText: cfg, Files: files, Workers: 1, Timeout: 30 * time.Minute, HeapGB: 6})
	if err != nil {
		return nil, err
	}
	if res.Errored != "" {
		return nil, fmt.Errorf("TLC error during trace validation (%s): %s\n%s", p.Name, res.Errored, res.Tail(30))
	}
	var vr VResult
	if err := res.TaggedJSON("RESULT", &vr); err != nil {
		return nil, fmt.Errorf("trace validation did not reach the end of the trace (%s): %v\n%s", p.Name, err, res.Tail(30))
	}
	return &vr, nil
}

// Finding is one monitor failure on an observed run.
type Finding struct {
	Monitor string `json:"monitor"`
	Plan    Plan   `json:"plan"`
	Strat   string `json:"strat"`
	Sched   int    `json:"sched"`
	Line    J      `json:"line"`
	run     *WorldRun
}

// ReplayFile is what a VIOLATION line points to.
type ReplayFile struct {
	Prop    string     `json:"prop"`
	Stage   string     `json:"stage"`
	Seed    int64      `json:"seed"`
	Run     int        `json:"run"`
	Plan    Plan       `json:"plan"`
	P1      *Phase1    `json:"p1"`
	Scheds  []Schedule `json:"scheds"`
	Monitor string     `json:"monitor"`
	Sched   int        `json:"sched"`
	Line    J          `json:"line"`
}

type outcome struct {
	gen       *Gen
	worlds    []*WorldRun
	lines     int
	schedules int
	steps     int
	drained   int
	findings  []Finding
	drift     []Line
	driftN    int
	rowNote   bool
	stmts     map[string]bool
	sigs      map[string]bool
	replayS   float64
	validS    float64
}

func pickSchedules(c *core.Ctx, g *Gen, strat string) []Schedule {
	all := append([]Schedule{}, g.Schedules[strat]...)
	rng := rand.New(rand.NewSource(c.Seed*7919 + int64(len(all)) + int64(len(strat))))
	rng.Shuffle(len(all), func(i, j int) { all[i], all[j] = all[j], all[i] })
	if g.Plan.PerStrat > 0 && len(all) > g.Plan.PerStrat {
		// keep every triggered subset represented
		byWt := map[string][]Schedule{}
		var wts []string
		for _, s := range all {
			k := fmt.Sprint(s.Wt)
			if byWt[k] == nil {
				wts = append(wts, k)
			}
			byWt[k] = append(byWt[k], s)
		}
		sort.Strings(wts)
		var out []Schedule
		for i := 0; len(out) < g.Plan.PerStrat; i++ {
			added := false
			for _, k := range wts {
				if i < len(byWt[k]) && len(out) < g.Plan.PerStrat {
					out = append(out, byWt[k][i])
					added = true
				}
			}
			if !added {
				break
			}
		}
		all = out
	}
	return all
}

func marshalLines(ls []Line) ([]byte, error) {
	var buf bytes.Buffer
	for _, l := range ls {
		b, err := json.Marshal(l.J)
		if err != nil {
			return nil, err
		}
		buf.Write(b)
		buf.WriteByte('\n')
	}
	return buf.Bytes(), nil
}

func runPlan(c *core.Ctx, p Plan, tlcWorkers, replayWorkers int) (*outcome, error) {
	g, err := Generate(c, p, tlcWorkers)
	if err != nil {
		return nil, err
	}
	nsched := 0
	for _, s := range g.Strats {
		nsched += len(g.Schedules[s])
	}
	c.Logf("e2e plan %s: TLC %d distinct states (%d generated, %.1fs), %d strategies, %d phase-2 schedules printed", p.Name, g.Distinct, g.States, g.Wall, len(g.Strats), nsched)
	out := &outcome{gen: g, stmts: map[string]bool{}, sigs: map[string]bool{}}
	run := 0
	for _, s := range g.Strats {
		scheds := pickSchedules(c, g, s)
		worlds := p.Worlds
		if worlds < 1 {
			worlds = 1
		}
		if worlds > len(scheds) {
			worlds = len(scheds)
		}
		for k := 0; k < worlds; k++ {
			run++
			wr := &WorldRun{Plan: p, P1: g.P1[s], Seed: c.Seed*1000003 + int64(run), Run: run}
			for i := k; i < len(scheds); i += worlds {
				wr.Scheds = append(wr.Scheds, scheds[i])
			}
			out.worlds = append(out.worlds, wr)
		}
	}
	t0 := time.Now()
	var wg sync.WaitGroup
	sem := make(chan struct{}, replayWorkers)
	for i, wr := range out.worlds {
		wg.Add(1)
		go func(i int, wr *WorldRun) {
			defer wg.Done()
			sem <- struct{}{}
			defer func() { <-sem }()
			wr.Execute(i == 0)
		}(i, wr)
	}
	wg.Wait()
	out.replayS = time.Since(t0).Seconds()
	for _, wr := range out.worlds {
		if wr.Err != nil {
			return nil, fmt.Errorf("plan %s strategy %s run %d: %v", p.Name, wr.P1.Strat, wr.Run, wr.Err)
		}
		if len(wr.Pins) > 0 {
			return nil, fmt.Errorf("fakepg pin mismatches (repository SQL changed): %v", wr.Pins)
		}
		if rows, ok := wr.X["rows"].([]string); ok && !out.rowNote {
			for k, r := range rows {
				if strings.Contains(r, "GetEonForBlockNumber:") || strings.Contains(r, "GetKeyperIndex:") || strings.Contains(r, "GetDKGResultForKeyperConfigIndex:") {
					// not an infrastructure problem: the rows are written by the code under test in phase 1;
					// phase 2 runs anyway and the monitors judge what the real handlers make of it
					fmt.Printf("NOTE: plan %s strategy %s: a query phase 2 depends on fails on keyper %d's database after the DKG: %s\n", p.Name, wr.P1.Strat, k+1, r)
					out.rowNote = true
					break
				}
			}
		}
		out.schedules += len(wr.Scheds)
		out.steps += wr.Steps
		out.drained += wr.Drained
		out.sigs[wr.Sig] = true
		for s := range wr.Stmts {
			out.stmts[s] = true
		}
	}
	// validate: chunks of whole world runs
	t1 := time.Now()
	type chunk struct {
		lines []Line
		vr    *VResult
		err   error
	}
	var chunks []*chunk
	cur := &chunk{}
	for _, wr := range out.worlds {
		if len(cur.lines) > 0 && len(cur.lines)+len(wr.Lines) > 1500 {
			chunks = append(chunks, cur)
			cur = &chunk{}
		}
		cur.lines = append(cur.lines, wr.Lines...)
	}
	if len(cur.lines) > 0 {
		chunks = append(chunks, cur)
	}
	vsem := make(chan struct{}, 4)
	for _, ch := range chunks {
		wg.Add(1)
		go func(ch *chunk) {
			defer wg.Done()
			vsem <- struct{}{}
			defer func() { <-vsem }()
			b, err := marshalLines(ch.lines)
			if err != nil {
				ch.err = err
				return
			}
			if d := os.Getenv("VERIF_E2E_DUMP"); d != "" && ch == chunks[0] { // development aid
				_ = os.WriteFile(d+"-"+p.Name+".ndjson", b, 0o644)
			}
			ch.vr, ch.err = validate(p, b)
		}(ch)
	}
	wg.Wait()
	out.validS = time.Since(t1).Seconds()
	byRun := map[int]*WorldRun{}
	for _, wr := range out.worlds {
		byRun[wr.Run] = wr
	}
	for _, ch := range chunks {
		if ch.err != nil {
			return nil, ch.err
		}
		if ch.vr.Lines != len(ch.lines) {
			return nil, fmt.Errorf("trace validation consumed %d of %d lines", ch.vr.Lines, len(ch.lines))
		}
		out.lines += ch.vr.Lines
		for _, v := range ch.vr.Viol {
			if len(v) != 2 {
				continue
			}
			n, _ := v[0].(float64)
			m, _ := v[1].(string)
			if int(n) < 1 || int(n) > len(ch.lines) {
				continue
			}
			l := ch.lines[int(n)-1]
			wr := byRun[l.Run]
			out.findings = append(out.findings, Finding{Monitor: m, Plan: p, Strat: wr.P1.Strat, Sched: l.Sched, Line: l.J, run: wr})
		}
		for _, n := range ch.vr.Drift {
			out.driftN++
			if len(out.drift) < 3 && n >= 1 && n <= len(ch.lines) {
				out.drift = append(out.drift, ch.lines[n-1])
			}
		}
	}
	return out, nil
}

func brief(j J) string {
	c := J{}
	for k, v := range j {
		if k == "st" || k == "tabs" {
			continue
		}
		c[k] = v
	}
	b, _ := json.Marshal(c)
	if len(b) > 700 {
		b = append(b[:700], "..."...)
	}
	return string(b)
}

func matchKnown(known []core.Finding, f Finding) bool {
	for _, k := range known {
		if mon, _ := k.Match["monitor"].(string); mon != "" && mon == f.Monitor {
			core.PrintKnown(k)
			return true
		}
	}
	return false
}

// Check runs the composed check (second stage of ./check C07).
func Check(c *core.Ctx) int {
	if c.Replay != "" {
		return Replay(c)
	}
	if msg := Preflight(); msg != "" {
		fmt.Println("INCONCLUSIVE:", msg)
		return core.ExitInconclusive
	}
	known := core.LoadKnown().For(c.Prop)
	ps := plans(c)
	if only := os.Getenv("VERIF_E2E_ONLY"); only != "" { // development aid: substring of the plan name
		var keep []Plan
		for _, p := range ps {
			if strings.Contains(p.Name, only) {
				keep = append(keep, p)
			}
		}
		ps = keep
	}
	outs := make([]*outcome, len(ps))
	errs := make([]error, len(ps))
	par, tlcWorkers, replayWorkers := 2, 6, 6
	if c.Thorough() {
		par, tlcWorkers, replayWorkers = 2, 8, 8
	}
	sem := make(chan struct{}, par)
	var wg sync.WaitGroup
	for i := range ps {
		wg.Add(1)
		go func(i int) {
			defer wg.Done()
			sem <- struct{}{}
			defer func() { <-sem }()
			outs[i], errs[i] = runPlan(c, ps[i], tlcWorkers, replayWorkers)
			if errs[i] == nil {
				o := outs[i]
				c.Logf("e2e plan %s: %d end-to-end worlds (real DKG each), %d phase-2 schedules / %d steps (%d drained) replayed in %.1fs, %d lines validated in %.1fs, %d findings, %d drift",
					ps[i].Name, len(o.worlds), o.schedules, o.steps, o.drained, o.replayS, o.lines, o.validS, len(o.findings), o.driftN)
			}
		}(i)
	}
	wg.Wait()
	for i := range ps {
		if errs[i] != nil {
			fmt.Println("INCONCLUSIVE:", errs[i])
			return core.ExitInconclusive
		}
		if outs[i].schedules == 0 || outs[i].lines == 0 {
			fmt.Printf("INCONCLUSIVE: e2e plan %s replayed nothing\n", ps[i].Name)
			return core.ExitInconclusive
		}
	}
	violations := 0
	for i, p := range ps {
		o := outs[i]
		for _, dl := range o.drift {
			fmt.Printf("DRIFT stage=e2e plan=%s run=%d sched=%d line=%s (observed line is not what the composed code-shaped spec yields)\n", p.Name, dl.Run, dl.Sched, brief(dl.J))
		}
		reported := 0
		for _, f := range o.findings {
			if matchKnown(known, f) {
				continue
			}
			violations++
			if reported < 3 {
				wr := f.run
				path := c.WriteReplay(fmt.Sprintf("e2e-%s-%d", p.Name, reported), ReplayFile{Prop: c.Prop, Stage: "e2e", Seed: wr.Seed, Run: wr.Run, Plan: p, P1: wr.P1,
					Scheds: wr.Scheds, Monitor: f.Monitor, Sched: f.Sched, Line: f.Line})
				what := fmt.Sprintf("monitor %s failed in the end-to-end run plan %s, strategy %s (success set %v)", f.Monitor, p.Name, f.Strat, wr.X["succ"])
				if f.Sched >= 0 && f.Sched < len(wr.Scheds) {
					what += fmt.Sprintf(", phase-2 schedule triggered %v: %s", wr.Scheds[f.Sched].Wt, schedText(wr.Scheds[f.Sched]))
				}
				c.Violation(path, what+"\n  line: "+brief(f.Line))
				reported++
			}
		}
	}
	if err := mergeEvidence(c, ps, outs, violations); err != nil {
		fmt.Fprintln(os.Stderr, "e2e evidence:", err)
	}
	if violations > 0 {
		return core.ExitViolation
	}
	fmt.Printf("OK property=%s stage=e2e tier=%s\n", c.Prop, c.Tier)
	return core.ExitOK
}

func schedText(s Schedule) string {
	var p []string
	for _, a := range s.Sched {
		switch a.A {
		case "trig":
			p = append(p, fmt.Sprintf("trig(%d)", a.N))
		default:
			p = append(p, fmt.Sprintf("%s(%s from %d to %d)", a.A, a.M.T, a.M.From, a.N))
		}
	}
	return strings.Join(p, " ")
}

// mergeEvidence adds coverage.growth_e2e to the evidence file the main C07 check wrote.
func mergeEvidence(c *core.Ctx, ps []Plan, outs []*outcome, violations int) error {
	if os.Getenv("VERIF_E2E_NOEVIDENCE") != "" { // mutation experiments on a private copy of the repository
		return nil
	}
	b, err := os.ReadFile(evidencePath)
	if err != nil {
		fmt.Printf("NOTE: %s does not exist (the main C07 check has not run); the e2e stage writes no evidence\n", evidencePath)
		return nil
	}
	var evd ev.Evidence // same field order as the main check's writer
	if err := json.Unmarshal(b, &evd); err != nil || evd.PropertyID != c.Prop {
		return fmt.Errorf("%s unreadable or not the evidence of %s: %v", evidencePath, c.Prop, err)
	}
	cov := evd.Coverage
	if cov == nil {
		cov = map[string]any{}
		evd.Coverage = cov
	}
	states, trans, worlds, scheds, steps, lines, drift := 0, 0, 0, 0, 0, 0, 0
	var info, samples []any
	stmts := map[string]bool{}
	for i, p := range ps {
		o := outs[i]
		states += o.gen.Distinct
		trans += o.gen.States
		worlds += len(o.worlds)
		scheds += o.schedules
		steps += o.steps
		lines += o.lines
		drift += o.driftN
		for s := range o.stmts {
			stmts[s] = true
		}
		var outcomes []string
		for s := range o.sigs {
			outcomes = append(outcomes, s)
		}
		sort.Strings(outcomes)
		printed := 0
		for _, s := range o.gen.Strats {
			printed += len(o.gen.Schedules[s])
		}
		info = append(info, J{"plan": p, "strategies": o.gen.Strats, "tlc_distinct_states": o.gen.Distinct, "tlc_states_generated": o.gen.States, "tlc_wall_s": o.gen.Wall,
			"schedules_printed": printed, "worlds_replayed": len(o.worlds), "schedules_replayed": o.schedules, "steps": o.steps, "drained_steps": o.drained,
			"trace_lines_validated": o.lines, "drift_lines": o.driftN, "strategy_outcomes": outcomes})
		if len(o.worlds) > 0 && len(samples) < 3 {
			wr := o.worlds[int(c.Seed%int64(len(o.worlds))+int64(len(o.worlds)))%len(o.worlds)]
			s := J{"plan": p.Name, "strategy": wr.P1.Strat, "handover": wr.X}
			if len(wr.Scheds) > 0 {
				s["first_schedule"] = J{"wt": wr.Scheds[0].Wt, "sched": schedText(wr.Scheds[0])}
				for _, l := range wr.Lines {
					if l.J["k"] == "gend" {
						s["first_judgement"] = l.J["judge"]
						break
					}
				}
			}
			samples = append(samples, s)
		}
	}
	var sl []string
	for s := range stmts {
		sl = append(sl, s)
	}
	sort.Strings(sl)
	cov["growth_e2e"] = J{
		"module": "specs/E2E.tla, E2EProps.tla, E2EMC.tla, E2ETrace.tla (EXTENDS DKGProps, INSTANCE Gossip)",
		"tier":   c.Tier, "seed": c.Seed, "wall_s": time.Since(c.Start).Seconds(), "violations": violations,
		"states": states, "transitions": trans, "traces_validated_against_impl": worlds,
		"evaluations": scheds, "distinct_nontrivial": scheds, "steps": steps, "trace_lines_validated": lines, "drift_lines": drift,
		"plans": info, "samples": samples, "phase2_sql_statements": sl,
		"rule": "TLC explores the composed model exhaustively per plan (phase 1 = the DKG module under each strategy, phase 2 = the Gossip module, core flavour, behind the handover: all triggered subsets of size >= T of the honest keypers, all delivery orders, <= MaxLoss lost share messages per receiver) and checks the C07 monitors, the handover and the phase-2 property layer on every state; it prints the phase-1 behaviour of every strategy and every phase-2 schedule that reaches quiescence. traces_validated_against_impl = end-to-end worlds (one real DKG each, databases handed over unchanged); evaluations = phase-2 schedules replayed on those databases (each a fresh decryption trigger of the one eon) and validated by E2ETrace",
	}
	evd.Violations += violations
	nb, err := json.MarshalIndent(evd, "", " ")
	if err != nil {
		return err
	}
	tmp := evidencePath + ".e2e.tmp"
	if err := os.WriteFile(tmp, append(nb, '\n'), 0o644); err != nil {
		return err
	}
	return os.Rename(tmp, evidencePath)
}

// Replay re-executes the end-to-end run of a replay file and validates it again.
func Replay(c *core.Ctx) int {
	b, err := os.ReadFile(c.Replay)
	if err != nil {
		fmt.Println("INCONCLUSIVE:", err)
		return core.ExitInconclusive
	}
	var rf ReplayFile
	if err := json.Unmarshal(b, &rf); err != nil || rf.Stage != "e2e" || rf.P1 == nil {
		fmt.Println("NOTE: not an e2e replay file; nothing to do in this stage")
		return core.ExitOK
	}
	wr := &WorldRun{Plan: rf.Plan, P1: rf.P1, Scheds: rf.Scheds, Seed: rf.Seed, Run: rf.Run}
	wr.Execute(false)
	if wr.Err != nil {
		fmt.Println("INCONCLUSIVE:", wr.Err)
		return core.ExitInconclusive
	}
	tb, err := marshalLines(wr.Lines)
	if err != nil {
		fmt.Println("INCONCLUSIVE:", err)
		return core.ExitInconclusive
	}
	vr, err := validate(rf.Plan, tb)
	if err != nil {
		fmt.Println("INCONCLUSIVE:", err)
		return core.ExitInconclusive
	}
	fmt.Printf("strategy %s, handover %v\nviol=%v drift=%v\n", rf.P1.Strat, wr.X, vr.Viol, vr.Drift)
	for _, v := range vr.Viol {
		if len(v) == 2 && v[1] == rf.Monitor {
			c.Violation(c.Replay, "reproduced "+rf.Monitor)
			return core.ExitViolation
		}
	}
	fmt.Println("not reproduced")
	return core.ExitOK
}
