// Package e2e binds the composed specification specs/E2E*.tla (DKG over shuttermint followed by
// key release over gossip) to the real code: one harness/dkg world per run, whose keyper databases
// are then handed, as they are, to gossip node assemblies.
package e2e

import (
	"encoding/json"
	"fmt"
	"sort"
	"strings"
	"time"

	"verif/harness/core"
	"verif/harness/dkg"
	"verif/harness/tlc"
)

type J = map[string]any

// Plan is one constant assignment of E2EMC.tla.
type Plan struct {
	Name     string     `json:"name"`
	Cfg      dkg.Cfg    `json:"cfg"`
	Rounds   [][]string `json:"rounds"` // identity lists, one per decryption trigger round (may overlap)
	MaxLoss  int        `json:"maxLoss"`
	Run      []string   `json:"run"`      // strategy names (empty = all strategies of the plan's Byz)
	PerStrat int        `json:"perStrat"` // phase-2 schedules replayed per strategy (0 = all)
	Worlds   int        `json:"worlds"`   // real DKG runs per strategy among which the schedules are spread
}

func setText(xs []int) string {
	var p []string
	for _, x := range xs {
		p = append(p, fmt.Sprint(x))
	}
	return "{" + strings.Join(p, ", ") + "}"
}

func strSeq(xs []string) string {
	var p []string
	for _, x := range xs {
		p = append(p, fmt.Sprintf("%q", x))
	}
	return "<<" + strings.Join(p, ", ") + ">>"
}

func strSet(xs []string) string {
	var p []string
	for _, x := range xs {
		p = append(p, fmt.Sprintf("%q", x))
	}
	return "{" + strings.Join(p, ", ") + "}"
}

func (p Plan) defs(mod, base string) []byte {
	run := "StrategyNames"
	if len(p.Run) > 0 {
		run = strSet(p.Run)
	}
	return []byte(fmt.Sprintf("---- MODULE %s ----\nEXTENDS %s\ncByz == %s\ncRounds == %s\ncRun == %s\n====\n",
		mod, base, setText(p.Cfg.Byz), p.roundsText(), run))
}

func (p Plan) roundsText() string {
	var rs []string
	for _, r := range p.Rounds {
		rs = append(rs, strSeq(r))
	}
	return "<<" + strings.Join(rs, ", ") + ">>"
}

// Ids returns the identity names of all rounds (each once, in order of first appearance).
func (p Plan) Ids() []string {
	var out []string
	seen := map[string]bool{}
	for _, r := range p.Rounds {
		for _, id := range r {
			if !seen[id] {
				seen[id] = true
				out = append(out, id)
			}
		}
	}
	return out
}

func (p Plan) consts() string {
	return fmt.Sprintf(" N = %d\n T = %d\n Byz <- cByz\n PhaseLen = %d\n Rounds <- cRounds\n", p.Cfg.N, p.Cfg.T, p.Cfg.PhaseLen)
}

func (p Plan) mcFiles() (string, map[string][]byte, string) {
	mod := "MCgen_e2e_" + strings.ReplaceAll(p.Name, "-", "_")
	cfg := "CONSTANTS\n" + p.consts() + fmt.Sprintf(" Emit = TRUE\n MaxLoss = %d\n Run <- cRun\n", p.MaxLoss) +
		"SPECIFICATION Spec\nINVARIANT C07_Spec\nINVARIANT Agreement\nINVARIANT P1Progress\nINVARIANT HandoverOK\nINVARIANT QuiescentOK\nPROPERTY StepOK\nVIEW View\nCHECK_DEADLOCK FALSE\n"
	return mod, map[string][]byte{mod + ".tla": p.defs(mod, "E2EMC")}, cfg
}

func (p Plan) trFiles(trace []byte) (string, map[string][]byte, string) {
	mod := "TRgen_e2e_" + strings.ReplaceAll(p.Name, "-", "_")
	cfg := "CONSTANTS\n" + p.consts() + " TraceFile = \"trace.ndjson\"\nSPECIFICATION ESpec\nINVARIANT EDone\nCHECK_DEADLOCK FALSE\n"
	body := fmt.Sprintf("---- MODULE %s ----\nEXTENDS E2ETrace\ncByz == %s\ncRounds == %s\n====\n", mod, setText(p.Cfg.Byz), p.roundsText())
	return mod, map[string][]byte{mod + ".tla": []byte(body), "trace.ndjson": trace}, cfg
}

// AbsMsg is a message of specs/Gossip.tla.
type AbsMsg struct {
	T       string `json:"t"`
	From    int    `json:"from"`
	R       int    `json:"r"` // the round whose identity list the message carries
	X       int    `json:"x"` // round of the flavour extra (core: 0)
	Signers []int  `json:"signers"`
}

func (a AbsMsg) key() string { return fmt.Sprintf("%s/%d/%d/%d/%v", a.T, a.From, a.R, a.X, a.Signers) }

// Action is one step of a phase-2 schedule.
type Action struct {
	A string `json:"a"` // trig | dlv | drop
	N int    `json:"n"` // node (trig) or destination
	M AbsMsg `json:"m"`
}

// Schedule is one phase-2 behaviour printed by TLC.
type Schedule struct {
	Strat string   `json:"strat"`
	Wt    [][]int  `json:"wt"` // per round: the nodes triggered for it
	Sched []Action `json:"sched"`
}

// Phase1 is the phase-1 behaviour of one strategy printed by TLC.
type Phase1 struct {
	Strat string          `json:"strat"`
	Ops   []dkg.Op        `json:"ops"`
	Succ  []int           `json:"succ"`
	Fin   json.RawMessage `json:"fin"`
}

// Gen is what TLC produced for one plan.
type Gen struct {
	Plan      Plan
	Strats    []string
	P1        map[string]*Phase1
	Schedules map[string][]Schedule
	States    int
	Distinct  int
	Wall      float64
}

// Generate model-checks the composed model and collects the printed behaviours.
func Generate(c *core.Ctx, p Plan, workers int) (*Gen, error) {
	mod, files, cfg := p.mcFiles()
	res, err := tlc.Run(tlc.Opts{Module: mod, CfgText: cfg, Files: files, Workers: workers, Timeout: 40 * time.Minute, HeapGB: 8})
	if err != nil {
		return nil, err
	}
	if res.Violation {
		return nil, fmt.Errorf("MODEL-MISMATCH candidate: the composed code-shaped spec violates its property layer in plan %s (%s)\n%s", p.Name, res.ViolatedWhat, res.Tail(60))
	}
	if res.TimedOut || res.Errored != "" || !res.Completed || res.Distinct == 0 {
		return nil, fmt.Errorf("TLC did not complete on plan %s: %s\n%s", p.Name, res.Errored, res.Tail(25))
	}
	g := &Gen{Plan: p, P1: map[string]*Phase1{}, Schedules: map[string][]Schedule{}, States: res.States, Distinct: res.Distinct, Wall: res.Wall.Seconds()}
	var cl struct {
		Strategies []struct {
			Name string `json:"name"`
		} `json:"strategies"`
	}
	if err := res.TaggedJSON("CONST", &cl); err != nil {
		return nil, fmt.Errorf("%v\n%s", err, res.Tail(25))
	}
	for _, raw := range res.Tagged["P1"] {
		s, err := tlc.UnquoteTLA(raw)
		if err != nil {
			return nil, err
		}
		var p1 Phase1
		if err := json.Unmarshal([]byte(s), &p1); err != nil {
			return nil, fmt.Errorf("phase-1 behaviour not decodable: %v: %.200s", err, s)
		}
		if p1.Succ == nil {
			p1.Succ = []int{}
		}
		if old := g.P1[p1.Strat]; old != nil && fmt.Sprint(old.Ops) != fmt.Sprint(p1.Ops) {
			return nil, fmt.Errorf("strategy %s has two different phase-1 behaviours (phase 1 is meant to be deterministic)", p1.Strat)
		}
		g.P1[p1.Strat] = &p1
	}
	seen := map[string]bool{}
	for _, raw := range res.Tagged["B"] {
		if seen[raw] {
			continue
		}
		seen[raw] = true
		s, err := tlc.UnquoteTLA(raw)
		if err != nil {
			return nil, err
		}
		var sc Schedule
		if err := json.Unmarshal([]byte(s), &sc); err != nil {
			return nil, fmt.Errorf("schedule not decodable: %v: %.200s", err, s)
		}
		for i := range sc.Wt {
			if sc.Wt[i] == nil {
				sc.Wt[i] = []int{}
			}
		}
		for i := range sc.Sched {
			if sc.Sched[i].M.Signers == nil {
				sc.Sched[i].M.Signers = []int{}
			}
		}
		g.Schedules[sc.Strat] = append(g.Schedules[sc.Strat], sc)
	}
	for _, s := range cl.Strategies {
		if g.P1[s.Name] != nil {
			g.Strats = append(g.Strats, s.Name)
		}
	}
	if len(g.Strats) == 0 {
		return nil, fmt.Errorf("TLC printed no phase-1 behaviour for plan %s\n%s", p.Name, res.Tail(20))
	}
	for _, n := range g.Strats {
		l := g.Schedules[n]
		if len(l) == 0 {
			return nil, fmt.Errorf("TLC printed no phase-2 schedule for strategy %s of plan %s", n, p.Name)
		}
		sort.Slice(l, func(i, j int) bool {
			a, _ := json.Marshal(l[i])
			b, _ := json.Marshal(l[j])
			return string(a) < string(b)
		})
	}
	return g, nil
}
