package e2e

import (
	"bytes"
	"context"
	"fmt"
	"os"
	"os/exec"
	"path/filepath"
	"regexp"
	"strings"
	"time"

	"verif/harness/tlc"
)

// The composed modules EXTEND / INSTANCE modules of other families (DKGProps, DKGTrace, Gossip).
// When one of those changes its constants or the arity of an operator, TLC fails with a parse error
// deep inside a run. Preflight parses the composed modules with SANY before anything else and turns
// such an incompatibility into one clear INCONCLUSIVE line that names the symbols.

var reSanyLoc = regexp.MustCompile(`^line \d+, col \d+ to line \d+, col \d+ of module (\w+)`)

// sanyErrors extracts "module M line L: message" items from SANY's output.
func sanyErrors(out string) []string {
	var errs []string
	lines := strings.Split(out, "\n")
	for i := 0; i < len(lines); i++ {
		l := strings.TrimSpace(lines[i])
		if reSanyLoc.MatchString(l) {
			msg := ""
			for j := i + 1; j < len(lines) && j < i+6; j++ {
				if t := strings.TrimSpace(lines[j]); t != "" {
					msg = t
					break
				}
			}
			errs = append(errs, l+": "+msg)
		}
	}
	if len(errs) == 0 {
		for _, l := range lines {
			t := strings.TrimSpace(l)
			if strings.Contains(t, "Parse Error") || strings.HasPrefix(t, "Fatal errors") || strings.HasPrefix(t, "Encountered") ||
				strings.Contains(t, "Cannot find source file") || strings.HasPrefix(t, "*** Abort") {
				errs = append(errs, t)
			}
		}
	}
	return errs
}

// Preflight SANY-parses E2E.tla, E2EMC.tla and E2ETrace.tla (with every module they import) in a
// scratch copy of specs/. It returns "" or the text for an INCONCLUSIVE line.
func Preflight() string {
	dir, err := os.MkdirTemp(tlc.ScratchRoot(), "verif-e2e-sany-")
	if err != nil {
		return "cannot make a scratch directory: " + err.Error()
	}
	defer os.RemoveAll(dir)
	src := tlc.SpecDir
	if d := os.Getenv("VERIF_E2E_SPECDIR"); d != "" { // self-test of the preflight with a broken copy of specs/
		src = d
	}
	specs, _ := filepath.Glob(filepath.Join(src, "*.tla"))
	for _, f := range specs {
		b, err := os.ReadFile(f)
		if err != nil {
			return err.Error()
		}
		if err := os.WriteFile(filepath.Join(dir, filepath.Base(f)), b, 0o644); err != nil {
			return err.Error()
		}
	}
	for _, mod := range []string{"E2E", "E2EMC", "E2ETrace"} {
		ctx, cancel := context.WithTimeout(context.Background(), 2*time.Minute)
		cmd := exec.CommandContext(ctx, "java", "-cp", "/opt/veriftools/tla/tla2tools.jar:/opt/veriftools/tla/CommunityModules-deps.jar",
			"tla2sany.SANY", mod+".tla")
		cmd.Dir = dir
		var buf bytes.Buffer
		cmd.Stdout, cmd.Stderr = &buf, &buf
		runErr := cmd.Run()
		timedOut := ctx.Err() == context.DeadlineExceeded
		cancel()
		out := buf.String()
		errs := sanyErrors(out)
		bad := len(errs) > 0 || strings.Contains(out, "*** Errors:") || strings.Contains(out, "Semantic errors") || timedOut
		if !bad && runErr != nil {
			bad = true
			errs = append(errs, "SANY did not run: "+runErr.Error())
		}
		if bad {
			if len(errs) > 8 {
				errs = append(errs[:8], fmt.Sprintf("(+%d more)", len(errs)-8))
			}
			if len(errs) == 0 {
				t := strings.Split(strings.TrimSpace(out), "\n")
				if len(t) > 6 {
					t = t[len(t)-6:]
				}
				errs = t
			}
			return fmt.Sprintf("specs/%s.tla does not parse against the current specification modules it composes "+
				"(DKG*.tla / Gossip*.tla changed? adapt specs/E2E*.tla): %s", mod, strings.Join(errs, " | "))
		}
	}
	return ""
}
