package eonpk

import (
	"bytes"
	"encoding/json"
	"fmt"
	"os"
	"sort"
	"strings"
	"sync"
	"time"

	"github.com/shutter-network/rolling-shutter/rolling-shutter/keyper"

	"verif/harness/core"
	"verif/harness/ev"
	"verif/harness/fakepg"
	"verif/harness/tlc"
)

// Behaviour is one history printed by EonPKMC!EmitInv.
type Behaviour struct {
	Mode Mode     `json:"mode"`
	Opts []string `json:"opts"` // the option sequence of the mode, as printed by TLC
	Ops  []Op     `json:"ops"`
}

func wrapper(name, base string, u *Universe) []byte {
	return []byte(fmt.Sprintf("---- MODULE %s ----\nEXTENDS %s\n%s====\n", name, base, u.TLADefs()))
}

// Gen is the result of the model-checking / generation run of one plan.
type Gen struct {
	Plan       Plan
	Behaviours []Behaviour
	States     int
	Distinct   int
	Depth      int
	Wall       float64
	SpecViol   string
}

// Generate has TLC check the property layer on every transition of the code-shaped spec
// (repaired loop) and print one history per distinct (state, last step).
func Generate(c *core.Ctx, p Plan) (*Gen, error) {
	mod := "MCgen_eonpk"
	cfg := p.Cfg("fixed", true) + "SPECIFICATION Spec\nPROPERTY StepProps\nINVARIANT Drained\nINVARIANT EmitInv\nVIEW GenView\nCHECK_DEADLOCK FALSE\n"
	workers := c.Workers / 4
	if workers < 2 {
		workers = 2
	}
	res, err := tlc.Run(tlc.Opts{Module: mod, CfgText: cfg, Workers: workers, Timeout: 20 * time.Minute, HeapGB: 6,
		Files: map[string][]byte{mod + ".tla": wrapper(mod, "EonPKMC", p.U)}})
	if err != nil {
		return nil, err
	}
	g := &Gen{Plan: p, States: res.States, Distinct: res.Distinct, Depth: res.Depth, Wall: res.Wall.Seconds()}
	if res.Errored != "" || res.TimedOut || res.Distinct == 0 {
		return nil, fmt.Errorf("TLC did not complete: %s\n%s", res.Errored, res.Tail(30))
	}
	if res.Violation {
		g.SpecViol = res.ViolatedWhat
	} else if !res.Completed {
		return nil, fmt.Errorf("TLC did not complete:\n%s", res.Tail(30))
	}
	for _, raw := range res.Tagged["B"] {
		s, err := tlc.UnquoteTLA(raw)
		if err != nil {
			return nil, err
		}
		var b Behaviour
		if err := json.Unmarshal([]byte(s), &b); err != nil {
			return nil, fmt.Errorf("behaviour %q: %v", s, err)
		}
		g.Behaviours = append(g.Behaviours, b)
	}
	if len(g.Behaviours) == 0 {
		return nil, fmt.Errorf("TLC printed no behaviours\n%s", res.Tail(30))
	}
	return g, nil
}

// Sensitivity model-checks the named alternative LoopMode = "orig" (the handler as it was before
// the repair): TLC must find the property layer violated, otherwise the specification has lost
// the ability to express the defect.
func Sensitivity(c *core.Ctx, p Plan) (string, int, error) {
	mod := "MCorig_eonpk"
	q := p
	q.Modes = []string{"Broadcast", "Callback"}
	q.Faults = []string{}
	if q.MaxTicks > 2 {
		q.MaxTicks = 2
	}
	cfg := q.Cfg("orig", false) + "SPECIFICATION Spec\nPROPERTY StepProps\nVIEW GenView\nCHECK_DEADLOCK FALSE\n"
	res, err := tlc.Run(tlc.Opts{Module: mod, CfgText: cfg, Workers: 2, Timeout: 5 * time.Minute, HeapGB: 2,
		Files: map[string][]byte{mod + ".tla": wrapper(mod, "EonPKMC", p.U)}})
	if err != nil {
		return "", 0, err
	}
	if res.Errored != "" || res.TimedOut {
		return "", 0, fmt.Errorf("TLC did not complete: %s\n%s", res.Errored, res.Tail(30))
	}
	if !res.Violation {
		return "", res.Distinct, nil
	}
	return res.ViolatedWhat, res.Distinct, nil
}

// trie of histories -------------------------------------------------------------------------

type node struct {
	op       Op
	parent   *node
	children []*node
	index    map[string]*node
	depth    int
}

func (n *node) child(op Op) *node {
	if n.index == nil {
		n.index = map[string]*node{}
	}
	k := op.key()
	if c := n.index[k]; c != nil {
		return c
	}
	c := &node{op: op, parent: n, depth: n.depth + 1}
	n.index[k] = c
	n.children = append(n.children, c)
	return c
}

func (n *node) path() []Op {
	var rev []Op
	for x := n; x != nil && x.parent != nil; x = x.parent {
		rev = append(rev, x.op)
	}
	out := make([]Op, len(rev))
	for i := range rev {
		out[i] = rev[len(rev)-1-i]
	}
	return out
}

func (n *node) size() int {
	s := 1
	for _, c := range n.children {
		s += c.size()
	}
	return s
}

// task: replay prefix, then walk the subtree below it depth first
type task struct {
	mode Mode
	opts []string
	root *node // subtree root (its own op is the last op of the prefix); the trie root for an empty prefix
}

type taskResult struct {
	opts  []string
	lines []Line
	nodes []*node // node of each line (nil for pop lines)
	mode  Mode
	steps int
	err   error
}

func buildTasks(bs []Behaviour, splitDepth int) []task {
	roots := map[Mode]*node{}
	optsOf := map[Mode][]string{}
	var modes []Mode
	for _, b := range bs {
		r := roots[b.Mode]
		if r == nil {
			r = &node{}
			roots[b.Mode] = r
			optsOf[b.Mode] = b.Opts
			modes = append(modes, b.Mode)
		}
		n := r
		for _, op := range b.Ops {
			n = n.child(op)
		}
	}
	sort.Slice(modes, func(i, j int) bool { return modes[i].String() < modes[j].String() })
	var tasks []task
	for _, m := range modes {
		var collect func(n *node)
		collect = func(n *node) {
			if n.depth >= splitDepth || len(n.children) == 0 {
				tasks = append(tasks, task{mode: m, opts: optsOf[m], root: n})
				return
			}
			// the inner node itself is covered by the prefix of its children's tasks
			for _, c := range n.children {
				collect(c)
			}
		}
		collect(roots[m])
	}
	return tasks
}

// runTask replays one task on a world.
func runTask(w *World, t task) taskResult {
	res := taskResult{mode: t.mode, opts: t.opts}
	emit := func(l Line, n *node) {
		res.lines = append(res.lines, l)
		res.nodes = append(res.nodes, n)
	}
	w.Reset()
	first := w.New(t.mode, t.opts)
	emit(first, nil)
	if first.Res != "ok" || first.Panic != "" {
		return res
	}
	prefix := t.root.path()
	nodesOnPath := make([]*node, len(prefix))
	for x := t.root; x != nil && x.parent != nil; x = x.parent {
		nodesOnPath[x.depth-1] = x
	}
	for i, op := range prefix {
		l := w.Step(t.mode, op)
		res.steps++
		emit(l, nodesOnPath[i])
		if w.Dead {
			return res
		}
	}
	var walk func(n *node)
	walk = func(n *node) {
		if len(n.children) == 0 || w.Dead {
			return
		}
		var snap *fakepg.DB
		if len(n.children) > 1 {
			snap = w.Snapshot()
		}
		for i, c := range n.children {
			if i > 0 {
				w.Restore(snap)
				emit(Line{K: "pop", D: n.depth, Ord: []int{}, Pre: []Row{}, Calls: []Call{}, Post: []Row{}}, nil)
			}
			l := w.Step(t.mode, c.op)
			res.steps++
			emit(l, c)
			if w.Dead {
				return
			}
			walk(c)
		}
	}
	walk(t.root)
	return res
}

func encodeLines(lines []Line) []byte {
	var buf bytes.Buffer
	for _, l := range lines {
		b, _ := json.Marshal(l)
		buf.Write(b)
		buf.WriteByte('\n')
	}
	return buf.Bytes()
}

// VResult is the RESULT record printed by EonPKTrace.
type VResult struct {
	Lines int     `json:"lines"`
	Viol  [][]any `json:"viol"`
	Drift []int   `json:"drift"`
}

// ValidateTrace runs pass A + pass B on one trace.
func ValidateTrace(p Plan, trace []byte) (*VResult, error) {
	mod := "TRgen_eonpk"
	cfg := fmt.Sprintf("CONSTANTS\n  EonTab <- U_EonTab\n  CfgTab <- U_CfgTab\n  LoopMode = \"fixed\"\n  TraceFile = \"trace.ndjson\"\n") +
		"SPECIFICATION TSpec\nINVARIANT Done\nCHECK_DEADLOCK FALSE\n"
	res, err := tlc.Run(tlc.Opts{Module: mod, CfgText: cfg, Workers: 1, Timeout: 20 * time.Minute, HeapGB: 4,
		Files: map[string][]byte{mod + ".tla": wrapper(mod, "EonPKTrace", p.U), "trace.ndjson": trace}})
	if err != nil {
		return nil, err
	}
	if res.Errored != "" {
		return nil, fmt.Errorf("TLC error during trace validation: %s\n%s", res.Errored, res.Tail(30))
	}
	var vr VResult
	if err := res.TaggedJSON("RESULT", &vr); err != nil {
		return nil, fmt.Errorf("trace validation did not reach the end of the trace: %v\n%s", err, res.Tail(30))
	}
	return &vr, nil
}

// Finding is a monitor that failed on an observed step.
type Finding struct {
	Monitor string   `json:"monitor"`
	Mode    Mode     `json:"mode"`
	Opts    []string `json:"opts"`
	Ops     []Op     `json:"ops"`  // the history up to and including the failing step
	Line    Line     `json:"line"` // the failing step as observed
}

// Outcome of replaying and validating the behaviours of one plan.
type Outcome struct {
	Gen       *Gen
	Tasks     int
	Steps     int
	Lines     int
	Traces    int
	Leaves    int
	Findings  []Finding
	Drift     []Finding
	Nontriv   int
	MultiTick int // ticks that found >= 2 keys pending
	MaxHanded int
	Samples   []any
	ReplayS   float64
	ValidateS float64
	Pins      []string
}

// ReplayAndValidate walks the trie of TLC's histories on the real handler and has TLC validate
// the recorded traces.
func ReplayAndValidate(c *core.Ctx, g *Gen, extra []Behaviour) (*Outcome, error) {
	out := &Outcome{Gen: g}
	bs := append(append([]Behaviour{}, extra...), g.Behaviours...)
	tasks := buildTasks(bs, 2)
	out.Tasks = len(tasks)
	for _, t := range tasks {
		var leaves func(n *node) int
		leaves = func(n *node) int {
			if len(n.children) == 0 {
				return 1
			}
			s := 0
			for _, ch := range n.children {
				s += leaves(ch)
			}
			return s
		}
		out.Leaves += leaves(t.root)
	}
	// biggest subtrees first
	sort.SliceStable(tasks, func(i, j int) bool { return tasks[i].root.size() > tasks[j].root.size() })
	workers := c.Workers / 2
	if workers > 6 {
		workers = 6
	}
	if workers < 1 {
		workers = 1
	}
	if g.Plan.U.Via == "loop" { // these steps mostly wait
		workers = 12
	}
	if workers > len(tasks) {
		workers = len(tasks)
	}
	t0 := time.Now()
	results := make([]taskResult, len(tasks))
	var mu sync.Mutex
	next := 0
	var firstErr error
	var pins []string
	var wg sync.WaitGroup
	for i := 0; i < workers; i++ {
		wg.Add(1)
		go func() {
			defer wg.Done()
			var w *World
			defer func() {
				if w != nil {
					mu.Lock()
					pins = append(pins, w.PinProblems()...)
					mu.Unlock()
					w.Close()
				}
			}()
			for {
				mu.Lock()
				k := next
				next++
				stop := firstErr != nil
				mu.Unlock()
				if k >= len(tasks) || stop {
					return
				}
				if w == nil || w.Dead {
					if w != nil {
						w.Close()
					}
					var err error
					w, err = NewWorld(g.Plan.U)
					if err != nil {
						mu.Lock()
						if firstErr == nil {
							firstErr = err
						}
						mu.Unlock()
						w = nil
						return
					}
				}
				results[k] = runTask(w, tasks[k])
			}
		}()
	}
	wg.Wait()
	if firstErr != nil {
		return nil, firstErr
	}
	out.Pins = pins
	out.ReplayS = time.Since(t0).Seconds()

	// binding self-test (never set in a normal run): corrupt one logged field
	switch os.Getenv("VERIF_C20_SELFTEST") {
	case "drophanded": // pass A must fire: a handed key disappears from the log
	outer:
		for i := range results {
			for j := range results[i].lines {
				l := &results[i].lines[j]
				if l.K == "tick" && len(l.Calls) >= 2 && l.Err == "nil" {
					l.Calls = l.Calls[:len(l.Calls)-1]
					break outer
				}
			}
		}
	case "act": // pass A must fire: wrong activation block
	outer2:
		for i := range results {
			for j := range results[i].lines {
				l := &results[i].lines[j]
				if l.K == "tick" && len(l.Calls) >= 1 {
					l.Calls[0].Act++
					break outer2
				}
			}
		}
	case "err": // pass B only: the returned error class differs
	outer3:
		for i := range results {
			for j := range results[i].lines {
				l := &results[i].lines[j]
				if l.K == "tick" && l.Err == "nil" && len(l.Calls) >= 1 {
					l.Err = "other: selftest"
					break outer3
				}
			}
		}
	}

	// validation: group the task traces into chunks, one TLC process per chunk
	type chunk struct {
		idx   []int // task indices
		lines int
		vr    *VResult
		err   error
	}
	total := 0
	for _, r := range results {
		total += len(r.lines)
		out.Steps += r.steps
	}
	nch := workers
	if total < 3000*nch {
		nch = 1 + total/3000
	}
	chunks := make([]*chunk, nch)
	for i := range chunks {
		chunks[i] = &chunk{}
	}
	for i, r := range results {
		// least loaded chunk
		best := chunks[0]
		for _, ch := range chunks {
			if ch.lines < best.lines {
				best = ch
			}
		}
		best.idx = append(best.idx, i)
		best.lines += len(r.lines)
	}
	t1 := time.Now()
	var vg sync.WaitGroup
	for _, ch := range chunks {
		if ch.lines == 0 {
			continue
		}
		vg.Add(1)
		go func(ch *chunk) {
			defer vg.Done()
			var all []Line
			for _, i := range ch.idx {
				all = append(all, results[i].lines...)
			}
			ch.vr, ch.err = ValidateTrace(g.Plan, encodeLines(all))
		}(ch)
	}
	vg.Wait()
	out.ValidateS = time.Since(t1).Seconds()
	for _, ch := range chunks {
		if ch.lines == 0 {
			continue
		}
		if ch.err != nil {
			return nil, ch.err
		}
		if ch.vr.Lines != ch.lines {
			return nil, fmt.Errorf("trace validation read %d lines of %d", ch.vr.Lines, ch.lines)
		}
		out.Traces++
		out.Lines += ch.lines
		locate := func(n int) (taskResult, int) {
			for _, i := range ch.idx {
				if n <= len(results[i].lines) {
					return results[i], n - 1
				}
				n -= len(results[i].lines)
			}
			return taskResult{}, -1
		}
		mk := func(n int, mon string) (Finding, bool) {
			r, k := locate(n)
			if k < 0 {
				return Finding{}, false
			}
			f := Finding{Monitor: mon, Mode: r.mode, Opts: r.opts, Line: r.lines[k], Ops: []Op{}}
			if r.nodes[k] != nil {
				f.Ops = r.nodes[k].path()
			}
			return f, true
		}
		for _, v := range ch.vr.Viol {
			if len(v) != 2 {
				continue
			}
			n, _ := v[0].(float64)
			m, _ := v[1].(string)
			if f, ok := mk(int(n), m); ok {
				out.Findings = append(out.Findings, f)
			}
		}
		for _, n := range ch.vr.Drift {
			if f, ok := mk(n, "drift"); ok {
				out.Drift = append(out.Drift, f)
			}
		}
	}
	sort.SliceStable(out.Findings, func(i, j int) bool { return len(out.Findings[i].Ops) < len(out.Findings[j].Ops) })
	sort.SliceStable(out.Drift, func(i, j int) bool { return len(out.Drift[i].Ops) < len(out.Drift[j].Ops) })
	// measured coverage
	distinct := map[string]bool{}
	for _, r := range results {
		for _, l := range r.lines {
			if l.K != "tick" {
				continue
			}
			if len(l.Calls) > out.MaxHanded {
				out.MaxHanded = len(l.Calls)
			}
			if len(l.Pre) >= 2 {
				out.MultiTick++
				b, _ := json.Marshal([]any{l.Mode, l.Pre, l.Ord, l.Q, l.Fail})
				distinct[string(b)] = true
			}
		}
	}
	out.Nontriv = len(distinct)
	longest := g.Behaviours[0]
	for _, b := range g.Behaviours {
		if len(b.Ops) > len(longest.Ops) {
			longest = b
		}
	}
	out.Samples = append(out.Samples, map[string]any{"history_printed_by_tlc": longest})
	for _, r := range results {
		for _, l := range r.lines {
			if l.K == "tick" && len(l.Calls) >= 3 && len(out.Samples) < 3 {
				out.Samples = append(out.Samples, l)
			}
		}
		if len(out.Samples) >= 3 {
			break
		}
	}
	return out, nil
}

// ReplayFile is what a VIOLATION line points to.
type ReplayFile struct {
	Prop     string    `json:"prop"`
	Universe *Universe `json:"universe"`
	Finding  Finding   `json:"finding"`
	// publisher stage
	PubPlan    *PubPlan    `json:"pub_plan,omitempty"`
	PubFinding *PubFinding `json:"pub_finding,omitempty"`
}

func matchKnown(known []core.Finding, f Finding) *core.Finding {
	for i := range known {
		m := known[i].Match
		if mon, _ := m["monitor"].(string); mon != "" && mon != f.Monitor {
			continue
		}
		if x, _ := m["mode"].(string); x != "" && x != f.Mode.String() {
			continue
		}
		if x, ok := m["min_pending"].(float64); ok && float64(len(f.Line.Pre)) < x {
			continue
		}
		if x, _ := m["err"].(string); x != "" && x != f.Line.Err {
			continue
		}
		return &known[i]
	}
	return nil
}

// witnessBehaviours turns the witness of a known finding ({mode, ops}) into behaviours.
func witnessBehaviours(kf core.Finding) []Behaviour {
	var out []Behaviour
	for _, raw := range kf.Witness {
		var b Behaviour
		if json.Unmarshal(raw, &b) == nil && len(b.Ops) > 0 {
			out = append(out, b)
		}
	}
	return out
}

func describe(f Finding) string {
	var ops []string
	for _, o := range f.Ops {
		if o.K == "ins" {
			ops = append(ops, fmt.Sprintf("keygen(eon#%d)", o.E))
		} else {
			ops = append(ops, fmt.Sprintf("tick(order=%v,%s,refuse=%d)", o.Ord, o.Q, o.Fail))
		}
	}
	pre, _ := json.Marshal(f.Line.Pre)
	calls, _ := json.Marshal(f.Line.Calls)
	post, _ := json.Marshal(f.Line.Post)
	return fmt.Sprintf("monitor %s failed in mode %s (options %v) after %s: pending before %s, handed %s, returned %q, pending after %s%s",
		f.Monitor, f.Mode, f.Opts, strings.Join(ops, " "), pre, calls, f.Line.Err, post, map[bool]string{true: " PANIC " + f.Line.Panic, false: ""}[f.Line.Panic != ""])
}

// Check runs the check of C20.
func Check(c *core.Ctx) int {
	if c.Replay != "" {
		return Replay(c)
	}
	if pm, err := fakepg.CheckRepo("/repo/rolling-shutter"); err != nil {
		fmt.Println("INCONCLUSIVE: cannot compare the repository's SQL with the database fake:", err)
		return core.ExitInconclusive
	} else if len(pm) != 0 {
		for _, p := range pm {
			if strings.Contains(p, "EonPublicKey") {
				fmt.Println("INCONCLUSIVE: the database fake does not implement the current SQL text:", p)
				return core.ExitInconclusive
			}
		}
	}
	keyper.VerifSetEonPubkeyTickerTime(LoopTicker)
	plans := Plans(c.Thorough(), c.Seed)
	if os.Getenv("VERIF_C20_ONLY") == "pub" { // development aid: only the publisher stage
		plans = plans[:1]
	}
	known := core.LoadKnown().For(c.Prop)
	var outs []*Outcome
	violations, reported := 0, 0
	knownHits := map[string]int{}
	var specLeads []string
	// the named alternative "orig" must violate the property layer at spec level
	what, n, err := Sensitivity(c, plans[0])
	if err != nil {
		fmt.Println("INCONCLUSIVE:", err)
		return core.ExitInconclusive
	}
	if what == "" {
		fmt.Println("INCONCLUSIVE: the specification with the pre-repair loop (LoopMode = \"orig\") does not violate the property layer any more")
		return core.ExitInconclusive
	}
	c.Logf("sensitivity: code-shaped spec with the pre-repair loop violates the property layer as expected (%s, %d states)", what, n)
	// the plans are independent: model-check, replay and validate them side by side
	type planRun struct {
		g   *Gen
		out *Outcome
		err error
	}
	runs := make([]planRun, len(plans))
	var pwg sync.WaitGroup
	for pi := range plans {
		pwg.Add(1)
		go func(pi int) {
			defer pwg.Done()
			p := plans[pi]
			g, err := Generate(c, p)
			if err != nil {
				runs[pi].err = err
				return
			}
			runs[pi].g = g
			c.Logf("plan %s (route %s): TLC %d states (%d distinct, depth %d), %d histories, specviol=%q (%.1fs)",
				p.U.Name, p.U.Route, g.States, g.Distinct, g.Depth, len(g.Behaviours), g.SpecViol, g.Wall)
			var wit []Behaviour
			if pi == 0 {
				for _, kf := range known {
					wit = append(wit, witnessBehaviours(kf)...)
				}
			}
			runs[pi].out, runs[pi].err = ReplayAndValidate(c, g, wit)
		}(pi)
	}
	// second stage: the real EonKeyPublisher behind the publication callback
	pubPlans := PubPlans(c.Thorough(), c.Seed)
	type pubRun struct {
		out *PubOutcome
		err error
	}
	pubRuns := make([]pubRun, len(pubPlans))
	for pi := range pubPlans {
		pwg.Add(1)
		go func(pi int) {
			defer pwg.Done()
			g, err := GeneratePub(c, pubPlans[pi])
			if err != nil {
				pubRuns[pi].err = err
				return
			}
			c.Logf("plan %s: TLC %d states (%d distinct), %d schedules, specviol=%q (%.1fs)", g.Plan.Name, g.States, g.Distinct, len(g.Histories), g.SpecViol, g.Wall)
			pubRuns[pi].out, pubRuns[pi].err = ReplayAndValidatePub(c, g)
		}(pi)
	}
	pwg.Wait()
	var pubOuts []*PubOutcome
	for pi, p := range pubPlans {
		if pubRuns[pi].err != nil {
			fmt.Println("INCONCLUSIVE:", pubRuns[pi].err)
			return core.ExitInconclusive
		}
		out := pubRuns[pi].out
		pubOuts = append(pubOuts, out)
		if out.Gen.SpecViol != "" {
			specLeads = append(specLeads, p.Name+": "+out.Gen.SpecViol)
		}
		c.Logf("plan %s: %d schedules replayed on the real EonKeyPublisher (%.1fs), %d trace lines validated (%.1fs), %d findings, %d drift; runs with >=2 hand-overs during one attempt: %d",
			p.Name, out.Runs, out.ReplayS, out.Lines, out.ValidateS, len(out.Findings), len(out.Drift), out.Handed2)
		if len(out.Pins) > 0 {
			fmt.Println("INCONCLUSIVE: the database fake saw statements it does not implement:", out.Pins)
			return core.ExitInconclusive
		}
		if out.Runs == 0 || out.Lines == 0 {
			fmt.Println("INCONCLUSIVE: nothing replayed")
			return core.ExitInconclusive
		}
		if out.Skipped > 0 {
			c.Logf("plan %s: %d schedules not replayed after %d runs had ended by a time-out twice", p.Name, out.Skipped, pubMaxTimeouts)
			if len(out.Findings) == 0 {
				fmt.Printf("INCONCLUSIVE: plan %s: runs on the real EonKeyPublisher keep ending by time-outs without a monitor failing\n", p.Name)
				return core.ExitInconclusive
			}
		}
		for i, d := range out.Drift {
			if i < 3 {
				fmt.Printf("DRIFT property=%s plan=%s (observed event is not one the code-shaped spec allows) %s\n", c.Prop, p.Name, describePub(d))
			}
		}
		for _, f := range out.Findings {
			violations++
			if reported < 5 {
				pp, ff := p, f
				path := c.WriteReplay(fmt.Sprintf("%s-%d", p.Name, reported), ReplayFile{Prop: c.Prop, PubPlan: &pp, PubFinding: &ff})
				c.Violation(path, describePub(f))
				reported++
			}
		}
	}
	for pi, p := range plans {
		if runs[pi].err != nil {
			fmt.Println("INCONCLUSIVE:", runs[pi].err)
			return core.ExitInconclusive
		}
		g, out := runs[pi].g, runs[pi].out
		if g.SpecViol != "" {
			specLeads = append(specLeads, p.U.Name+": "+g.SpecViol)
		}
		outs = append(outs, out)
		c.Logf("plan %s: %d steps on the real handler in %d subtrees / %d leaf histories (%.1fs), %d trace lines validated in %d TLC runs (%.1fs), %d findings, %d drift; ticks with >=2 keys pending: %d, most calls in one tick: %d",
			p.U.Name, out.Steps, out.Tasks, out.Leaves, out.ReplayS, out.Lines, out.Traces, out.ValidateS, len(out.Findings), len(out.Drift), out.MultiTick, out.MaxHanded)
		if len(out.Pins) > 0 {
			fmt.Println("INCONCLUSIVE: the database fake saw statements it does not implement:", out.Pins)
			return core.ExitInconclusive
		}
		if out.Steps == 0 || out.Lines == 0 {
			fmt.Println("INCONCLUSIVE: nothing replayed")
			return core.ExitInconclusive
		}
		for i, d := range out.Drift {
			if i < 5 {
				fmt.Printf("DRIFT property=%s plan=%s (observed step is not the one the code-shaped spec gives) %s\n", c.Prop, p.U.Name, describe(d))
			}
		}
		for _, f := range out.Findings {
			if kf := matchKnown(known, f); kf != nil {
				knownHits[kf.ID]++
				continue
			}
			violations++
			if reported < 5 {
				path := c.WriteReplay(fmt.Sprintf("%s-%d", p.U.Name, reported), ReplayFile{Prop: c.Prop, Universe: p.U, Finding: f})
				c.Violation(path, describe(f))
				reported++
			}
		}
	}
	for _, kf := range known {
		if knownHits[kf.ID] > 0 {
			core.PrintKnown(kf)
		}
	}
	writeEvidence(c, outs, pubOuts, violations, specLeads, knownHits, what)
	if violations > 0 {
		return core.ExitViolation
	}
	if len(specLeads) > 0 {
		for _, l := range specLeads {
			fmt.Println("MODEL-MISMATCH (spec-level counterexample not reproduced on the code):", l)
		}
		fmt.Println("INCONCLUSIVE: the code-shaped spec violates the property layer but the real handler does not")
		return core.ExitInconclusive
	}
	fmt.Printf("OK property=%s tier=%s\n", c.Prop, c.Tier)
	return core.ExitOK
}

func writeEvidence(c *core.Ctx, outs []*Outcome, pubOuts []*PubOutcome, violations int, specLeads []string, knownHits map[string]int, sens string) {
	states, trans, traces, steps, lines, nontriv, drift := 0, 0, 0, 0, 0, 0, 0
	samples := []any{}
	var unis []any
	for _, o := range outs {
		states += o.Gen.Distinct
		trans += o.Gen.States
		traces += o.Traces
		steps += o.Steps
		lines += o.Lines
		nontriv += o.Nontriv
		drift += len(o.Drift)
		if len(samples) < 6 {
			samples = append(samples, o.Samples...)
		}
		p := o.Gen.Plan
		unis = append(unis, map[string]any{
			"name": p.U.Name, "route": p.U.Route, "tick_via": map[bool]string{true: "real polling loop with a slow consumer", false: "tick body"}[p.U.Via == "loop"], "eons": p.U.Eons, "configs": p.U.Cfgs, "modes": p.Modes, "insert_kinds": p.InsertKinds,
			"max_pending": p.MaxPending, "max_ticks": p.MaxTicks, "faults": append([]string{}, p.Faults...),
			"tlc_distinct_states": o.Gen.Distinct, "tlc_states_generated": o.Gen.States, "tlc_depth": o.Gen.Depth, "tlc_wall_s": o.Gen.Wall,
			"histories_printed": len(o.Gen.Behaviours), "leaf_histories": o.Leaves, "steps_on_real_code": o.Steps,
			"ticks_with_two_or_more_keys_pending": o.MultiTick, "most_calls_in_one_tick": o.MaxHanded,
			"replay_s": o.ReplayS, "validate_s": o.ValidateS,
		})
	}
	var pubs []any
	pubRuns2 := 0
	for _, o := range pubOuts {
		states += o.Gen.Distinct
		trans += o.Gen.States
		traces++
		steps += o.Lines
		lines += o.Lines
		nontriv += o.Handed2
		pubRuns2 += o.Runs
		drift += len(o.Drift)
		if len(pubs) < 2 {
			samples = append(samples, o.Sample)
		}
		pubs = append(pubs, map[string]any{"name": o.Gen.Plan.Name, "keys": o.Gen.Plan.Keys, "max_fails": o.Gen.Plan.MaxFails,
			"handovers_by_real_handler_tick": o.Gen.Plan.Composed, "tlc_distinct_states": o.Gen.Distinct, "tlc_wall_s": o.Gen.Wall,
			"schedules_replayed": o.Runs, "events_observed": o.Lines, "runs_with_two_or_more_handovers_during_one_attempt": o.Handed2,
			"replay_s": o.ReplayS, "validate_s": o.ValidateS})
	}
	if len(samples) == 0 {
		samples = append(samples, "nothing replayed")
	}
	if specLeads == nil {
		specLeads = []string{}
	}
	cov := map[string]any{
		"states": states, "transitions": trans, "traces_validated_against_impl": traces,
		"samples": samples, "evaluations": steps, "distinct_nontrivial": nontriv, "exhaustive": true,
		"rule": "TLC explores every interleaving of key-generation completions (each eon at most once, at most max_pending rows pending) and polling ticks " +
			"(every permutation of the returned rows, optional statement failure, the mechanism refusing its n-th call) for every option combination, checks the " +
			"property layer on every transition and prints one history per distinct (state, last step); the prefix tree of the histories is walked on the real " +
			"handler (database snapshots at branching points); evaluations = steps executed on real code; distinct_nontrivial = distinct (mode, pending rows, " +
			"row order, faults) of ticks that found two or more keys pending, plus publisher schedules with two or more hand-overs while one attempt is in flight; every step is one trace line validated by EonPKTrace (pass A monitors, pass B conformance). " +
			"Publisher stage: TLC prints the whole prefix tree of interleavings of Publish with the steps of the publisher routine (EonPubMC, no VIEW); every history is replayed as a gated schedule on the real eonkeypublisher.EonKeyPublisher (blocking gates in the database fake and the Ethereum node double), then the publisher runs freely until it rests; every observed event is a trace line validated by EonPubTrace",
		"universes": unis, "publisher_stage_universes": pubs, "publisher_schedules_replayed": pubRuns2, "trace_lines_validated": lines, "drift_lines": drift,
		"spec_level_counterexamples": specLeads, "known_finding_hits": knownHits,
		"sensitivity_orig_loop": sens,
	}
	err := ev.Write(ev.Evidence{
		PropertyID: c.Prop, Tier: c.Tier, Seed: c.Seed, Level: "model_checking", Coverage: cov,
		Assumptions: []string{
			"TLC 1.8, the Go toolchain, pgx and the PostgreSQL wire-protocol fake harness/fakepg (its handlers for InsertEonPublicKey and GetAndDeleteEonPublicKeys are pinned to the SQL text) are correct",
			"eon numbers, activation blocks and keyper-set indices are seeded 64/31-bit values standing for the small integers of the specification (injective tables)",
			"the publication mechanisms are observed at their interfaces (Messaging.SendMessage, EonPublicKeyHandlerFunc); what libp2p or the on-chain publisher do afterwards is outside",
			"a tick in which a mechanism refuses a call, and rows the keyper's own key generation cannot write (foreign set, missing eons/config row), are checked for conformance only",
		},
		WallS: time.Since(c.Start).Seconds(), Violations: violations,
	})
	if err != nil {
		fmt.Fprintln(os.Stderr, "cannot write evidence:", err)
	}
}

// Replay re-executes the history of a replay file on the real handler and validates it again.
func Replay(c *core.Ctx) int {
	b, err := os.ReadFile(c.Replay)
	if err != nil {
		fmt.Println("INCONCLUSIVE:", err)
		return core.ExitInconclusive
	}
	var rf ReplayFile
	if err := json.Unmarshal(b, &rf); err != nil || (rf.Universe == nil && rf.PubPlan == nil) {
		fmt.Println("INCONCLUSIVE: unreadable replay file", err)
		return core.ExitInconclusive
	}
	if rf.PubPlan != nil && rf.PubFinding != nil {
		pw, err := newPubWorld(*rf.PubPlan)
		if err != nil {
			fmt.Println("INCONCLUSIVE:", err)
			return core.ExitInconclusive
		}
		defer pw.Close()
		lines := pw.run(rf.PubFinding.Ops)
		trace := encodePubLines(lines)
		vr, err := ValidatePubTrace(*rf.PubPlan, trace)
		if err != nil {
			fmt.Println("INCONCLUSIVE:", err)
			return core.ExitInconclusive
		}
		os.Stdout.Write(trace)
		fmt.Printf("viol=%v drift=%v\n", vr.Viol, vr.Drift)
		for _, v := range vr.Viol {
			if len(v) == 2 && v[1] == rf.PubFinding.Monitor {
				k, _ := v[0].(float64)
				c.Violation(c.Replay, "reproduced: "+describePub(PubFinding{Monitor: rf.PubFinding.Monitor, Plan: rf.PubPlan.Name, Ops: rf.PubFinding.Ops, Lines: lines, At: int(k) - 1}))
				return core.ExitViolation
			}
		}
		fmt.Println("not reproduced")
		return core.ExitOK
	}
	w, err := NewWorld(rf.Universe)
	if err != nil {
		fmt.Println("INCONCLUSIVE:", err)
		return core.ExitInconclusive
	}
	defer w.Close()
	keyper.VerifSetEonPubkeyTickerTime(LoopTicker)
	root := &node{}
	n := root
	for _, op := range rf.Finding.Ops {
		n = n.child(op)
	}
	res := runTask(w, task{mode: rf.Finding.Mode, opts: rf.Finding.Opts, root: n})
	trace := encodeLines(res.lines)
	vr, err := ValidateTrace(Plan{U: rf.Universe}, trace)
	if err != nil {
		fmt.Println("INCONCLUSIVE:", err)
		return core.ExitInconclusive
	}
	os.Stdout.Write(trace)
	fmt.Printf("viol=%v drift=%v\n", vr.Viol, vr.Drift)
	for _, v := range vr.Viol {
		if len(v) == 2 && v[1] == rf.Finding.Monitor {
			f := rf.Finding
			if k, _ := v[0].(float64); int(k) >= 1 && int(k) <= len(res.lines) {
				f.Line = res.lines[int(k)-1]
			}
			c.Violation(c.Replay, "reproduced: "+describe(f))
			return core.ExitViolation
		}
	}
	fmt.Println("not reproduced")
	return core.ExitOK
}
