// Package eonpk binds the EonPK TLA+ specification (C20: every generated eon key is handed to
// publication) to the real polling handler keyper.eonPubKeyHandler of the repository.
package eonpk

import (
	"fmt"
	"math/rand"
	"strings"
)

// EonSpec is one entry of EonTab (specs/EonPK.tla).
type EonSpec struct {
	Num    int  `json:"num"`    // abstract eon number
	HasRow bool `json:"hasRow"` // a row in table eons exists
	C      int  `json:"c"`      // position (1-based) of its keyper config in Cfgs
	Act    int  `json:"act"`    // abstract activation block stored in the eons row
}

// CfgSpec is one entry of CfgTab.
type CfgSpec struct {
	Idx    int  `json:"idx"`    // abstract keyper_config_index
	Exists bool `json:"exists"` // a row in tendermint_batch_config exists
	Member bool `json:"member"` // its keypers array contains the keyper's address
}

// Universe is the abstract universe of one plan plus its seeded concretisation.
type Universe struct {
	Name  string    `json:"name"`
	Route string    `json:"route"` // "query": InsertEonPublicKey; "dkg": smobserver finalizeDKG
	Via   string    `json:"via"`   // "" : a tick is one call of the tick body; "loop": a tick is a run of the real polling loop
	Eons  []EonSpec `json:"eons"`
	Cfgs  []CfgSpec `json:"cfgs"`
	Seed  int64     `json:"seed"`

	// concretisation (abstract small integer -> 64-bit value), injective per column
	EonNum map[int]uint64 `json:"eon_num"`
	ActNum map[int]uint64 `json:"act_num"`
	CfgNum map[int]uint64 `json:"cfg_num"`
	// position of the keyper's own address inside the keypers array of member configs
	OwnPos     map[int]int `json:"own_pos"`
	NumKeypers int         `json:"num_keypers"`
	InstanceID uint64      `json:"instance_id"`
}

func (u *Universe) Kind(e int) string {
	if e < 1 || e > len(u.Eons) {
		return "unknown"
	}
	es := u.Eons[e-1]
	c := u.Cfgs[es.C-1]
	if !es.HasRow || !c.Exists {
		return "orphan"
	}
	if c.Member {
		return "member"
	}
	return "foreign"
}

// distinct picks a value for every abstract integer: small values, values around the 32-bit
// boundary and values close to the top of the column's range.
func distinct(r *rand.Rand, keys []int, max uint64) map[int]uint64 {
	out := map[int]uint64{}
	used := map[uint64]bool{}
	for i, k := range keys {
		if _, ok := out[k]; ok {
			continue
		}
		for {
			var v uint64
			switch (i + int(r.Int63n(3))) % 3 {
			case 0:
				v = uint64(r.Int63n(1000))
			case 1:
				v = uint64(r.Int63n(int64(max/2 + 1)))
			default:
				v = max - uint64(r.Int63n(1000))
			}
			if v > max {
				v = max
			}
			if !used[v] {
				used[v] = true
				out[k] = v
				break
			}
		}
	}
	return out
}

// Concretise fills the seeded tables.
func (u *Universe) Concretise(seed int64) {
	u.Seed = seed
	r := rand.New(rand.NewSource(seed*7919 + int64(len(u.Name))))
	var nums, acts, idxs []int
	for _, e := range u.Eons {
		nums = append(nums, e.Num)
		acts = append(acts, e.Act)
	}
	for _, c := range u.Cfgs {
		idxs = append(idxs, c.Idx)
		acts = append(acts, 1000+c.Idx) // the activation block of the config row itself (never handed)
	}
	u.EonNum = distinct(r, nums, 1<<62)
	u.ActNum = distinct(r, acts, 1<<62)
	u.CfgNum = distinct(r, idxs, 1<<31-1)
	u.NumKeypers = 3 + int(r.Int63n(3))
	if u.Route == "dkg" {
		u.NumKeypers = 1
	}
	u.OwnPos = map[int]int{}
	for _, c := range u.Cfgs {
		u.OwnPos[c.Idx] = int(r.Int63n(int64(u.NumKeypers)))
	}
	u.InstanceID = uint64(r.Int63())
}

func tlaBool(b bool) string {
	if b {
		return "TRUE"
	}
	return "FALSE"
}

// TLADefs are the definitions substituted for the constants EonTab and CfgTab.
func (u *Universe) TLADefs() string {
	var es, cs []string
	for _, e := range u.Eons {
		es = append(es, fmt.Sprintf("[num |-> %d, hasRow |-> %s, c |-> %d, act |-> %d]", e.Num, tlaBool(e.HasRow), e.C, e.Act))
	}
	for _, c := range u.Cfgs {
		cs = append(cs, fmt.Sprintf("[idx |-> %d, exists |-> %s, member |-> %s]", c.Idx, tlaBool(c.Exists), tlaBool(c.Member)))
	}
	return "U_EonTab == << " + strings.Join(es, ",\n             ") + " >>\n" +
		"U_CfgTab == << " + strings.Join(cs, ",\n             ") + " >>\n"
}

// Plan is one universe with the bounds of its exhaustive exploration.
type Plan struct {
	U           *Universe
	Modes       []string
	InsertKinds []string
	MaxPending  int
	MaxTicks    int
	Faults      []string
}

func tlaSet(xs []string) string {
	q := make([]string, len(xs))
	for i, x := range xs {
		q[i] = fmt.Sprintf("%q", x)
	}
	return "{" + strings.Join(q, ", ") + "}"
}

// Cfg is the constant part of the TLC configuration.
func (p Plan) Cfg(loop string, emit bool) string {
	return fmt.Sprintf("CONSTANTS\n  EonTab <- U_EonTab\n  CfgTab <- U_CfgTab\n  LoopMode = %q\n  Modes = %s\n  InsertKinds = %s\n"+
		"  MaxPending = %d\n  MaxTicks = %d\n  Faults = %s\n  Emit = %s\n",
		loop, tlaSet(p.Modes), tlaSet(p.InsertKinds), p.MaxPending, p.MaxTicks, tlaSet(p.Faults), tlaBool(emit))
}

func memberEons(n int, cfgOf func(i int) int, sameAct bool) []EonSpec {
	var out []EonSpec
	for i := 1; i <= n; i++ {
		act := 10 + i
		if sameAct {
			act = 10 + cfgOf(i)
		}
		out = append(out, EonSpec{Num: 2 + i, HasRow: true, C: cfgOf(i), Act: act})
	}
	return out
}

// Plans returns the universes of a tier.
//
//	one   : one keyper set, n eons of it (restarted key generations), every eon its own activation block
//	sets  : three keyper sets the keyper belongs to (eons share the activation block of their set),
//	        plus rows its own key generation cannot have written: an eon of a set it is not in, an eon
//	        without eons row, an eon whose config row is missing (conformance of the SQL joins and of the
//	        membership test; such ticks are outside the property)
//	dkg   : the outgoing keys are written by the real smobserver finalizeDKG (single-keyper sets)
//	loop  : every tick is a run of the REAL polling loop (eonPubKeyHandler.loop, shortened ticker) against a
//	        mechanism that takes one key at a time and is slower than the ticker, until the loop is quiescent
func Plans(thorough bool, seed int64) []Plan {
	// option sequences (EonPK!OptSeq): every universe has broadcast only, callback only and BOTH mechanisms
	// enabled; the small universes add the order / repetition variants of the option functions
	allModes := []string{"Broadcast", "Callback", "CallbackRev", "NoBcTwice", "Both", "BothTwice", "Neither"}
	two := []string{"Broadcast", "Callback", "Both"}
	none := []string{}
	all3 := []string{"member", "foreign", "orphan"}
	one := &Universe{Name: "one", Route: "query",
		Cfgs: []CfgSpec{{Idx: 1, Exists: true, Member: true}}}
	faults := &Universe{Name: "faults", Route: "query",
		Cfgs: []CfgSpec{{Idx: 1, Exists: true, Member: true}, {Idx: 2, Exists: true, Member: true}}}
	sets := &Universe{Name: "sets", Route: "query",
		Cfgs: []CfgSpec{{Idx: 1, Exists: true, Member: true}, {Idx: 2, Exists: true, Member: true}, {Idx: 4, Exists: true, Member: true},
			{Idx: 3, Exists: true, Member: false}, {Idx: 5, Exists: false, Member: false}}}
	dkg := &Universe{Name: "dkg", Route: "dkg",
		Cfgs: []CfgSpec{{Idx: 1, Exists: true, Member: true}, {Idx: 2, Exists: true, Member: true}}}
	loop := &Universe{Name: "loop", Route: "query", Via: "loop",
		Cfgs: []CfgSpec{{Idx: 1, Exists: true, Member: true}, {Idx: 2, Exists: true, Member: true}}}
	odd := []EonSpec{{Num: 8, HasRow: true, C: 4, Act: 30}, {Num: 9, HasRow: false, C: 1, Act: 0}, {Num: 10, HasRow: true, C: 5, Act: 31}}
	var plans []Plan
	if thorough {
		one.Eons = memberEons(5, func(int) int { return 1 }, false)
		faults.Eons = memberEons(4, func(i int) int { return 1 + i%2 }, false)
		sets.Eons = append(memberEons(4, func(i int) int { return []int{1, 2, 2, 3}[i-1] }, true), odd...)
		dkg.Eons = memberEons(4, func(i int) int { return 1 + (i+1)%2 }, true)
		loop.Eons = memberEons(4, func(i int) int { return 1 + i%2 }, true)
		plans = []Plan{
			{U: loop, Modes: two, InsertKinds: []string{"member"}, MaxPending: 4, MaxTicks: 2, Faults: none},
			{U: one, Modes: two, InsertKinds: []string{"member"}, MaxPending: 4, MaxTicks: 3, Faults: none},
			{U: faults, Modes: allModes, InsertKinds: []string{"member"}, MaxPending: 4, MaxTicks: 2, Faults: []string{"sqlerr", "refuse"}},
			{U: sets, Modes: []string{"Broadcast", "Callback", "Both", "Neither"}, InsertKinds: all3, MaxPending: 3, MaxTicks: 2, Faults: []string{"refuse"}},
			{U: dkg, Modes: two, InsertKinds: []string{"member"}, MaxPending: 4, MaxTicks: 2, Faults: none},
		}
	} else {
		one.Eons = memberEons(4, func(int) int { return 1 }, false)
		faults.Eons = memberEons(3, func(i int) int { return 1 + i%2 }, false)
		sets.Eons = append(memberEons(3, func(i int) int { return []int{1, 2, 3}[i-1] }, true), odd...)
		dkg.Eons = memberEons(3, func(i int) int { return 1 + (i+1)%2 }, true)
		loop.Eons = memberEons(3, func(i int) int { return 1 + i%2 }, true)
		plans = []Plan{
			{U: loop, Modes: two, InsertKinds: []string{"member"}, MaxPending: 3, MaxTicks: 2, Faults: none},
			{U: one, Modes: two, InsertKinds: []string{"member"}, MaxPending: 4, MaxTicks: 2, Faults: none},
			{U: faults, Modes: allModes, InsertKinds: []string{"member"}, MaxPending: 3, MaxTicks: 2, Faults: []string{"sqlerr", "refuse"}},
			{U: sets, Modes: two, InsertKinds: all3, MaxPending: 3, MaxTicks: 2, Faults: none},
			{U: dkg, Modes: two, InsertKinds: []string{"member"}, MaxPending: 3, MaxTicks: 2, Faults: none},
		}
	}
	for i, p := range plans {
		p.U.Concretise(seed + int64(i)*1000003)
	}
	return plans
}
