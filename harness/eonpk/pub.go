package eonpk

// Second stage of C20: the path of a key after the publication callback, through the REAL
// eonkeypublisher.EonKeyPublisher (Start / Publish) over the database fake and the Ethereum node
// double of chain.go. Histories of EonPubMC are replayed as gated schedules.

import (
	"bytes"
	"context"
	"database/sql"
	"encoding/json"
	"fmt"
	"os"
	"sort"
	"strings"
	"sync"
	"sync/atomic"
	"time"

	"github.com/ethereum/go-ethereum/common"
	"github.com/shutter-network/shutter/shlib/puredkg"
	"github.com/shutter-network/shutter/shlib/shcrypto"

	obskeyperdb "github.com/shutter-network/rolling-shutter/rolling-shutter/chainobserver/db/keyper"
	"github.com/shutter-network/rolling-shutter/rolling-shutter/eonkeypublisher"
	"github.com/shutter-network/rolling-shutter/rolling-shutter/keyper"
	kprdb "github.com/shutter-network/rolling-shutter/rolling-shutter/keyper/database"
	"github.com/shutter-network/rolling-shutter/rolling-shutter/medley/service"
	"github.com/shutter-network/rolling-shutter/rolling-shutter/medley/testkeygen"
	"github.com/shutter-network/rolling-shutter/rolling-shutter/shdb"

	"verif/harness/core"
	"verif/harness/fakepg"
	"verif/harness/tlc"
)

// PubKey is one entry of KeyTab (specs/EonPub.tla); key id k is eon id k of the universe.
type PubKey struct {
	Resp    bool `json:"resp"`    // keyper_set row of the key's config exists and contains the keyper
	Old     bool `json:"old"`     // in dkg_result when the publisher starts
	Missing bool `json:"missing"` // (only if !Resp) there is no keyper_set row at all, instead of one without the keyper
}

// PubPlan is one universe of the publisher stage.
type PubPlan struct {
	Name     string    `json:"name"`
	U        *Universe `json:"universe"`
	Keys     []PubKey  `json:"keys"`
	MaxFails int       `json:"max_fails"`
	Composed bool      `json:"composed"` // hand-overs are made by the real handler tick (callback = Publish)
	Leaves   bool      `json:"leaves"`   // replay only maximal histories
}

func pubUniverse(name string, n int, seed int64) *Universe {
	u := &Universe{Name: name, Route: "query"}
	for i := 1; i <= n; i++ {
		u.Cfgs = append(u.Cfgs, CfgSpec{Idx: i, Exists: true, Member: true})
		u.Eons = append(u.Eons, EonSpec{Num: 2 + i, HasRow: true, C: i, Act: 10 + i})
	}
	u.Concretise(seed)
	return u
}

// PubPlans returns the universes of the publisher stage.
//
//	three    : three keys handed over, no start-up pass
//	startup  : one old key (start-up pass) and two keys handed over
//	notresp  : two keys the keyper is responsible for and two it is not (keyper_set without it / missing)
//	composed : as "startup", the hand-overs are made by the real eonPubKeyHandler tick (consecutive
//	           hand-overs of a history = key generations that completed within one tick)
//	retry    : one failing attempt, the retry comes 12 s later
func PubPlans(thorough bool, seed int64) []PubPlan {
	r, n, o := PubKey{Resp: true}, PubKey{Resp: false}, PubKey{Resp: true, Old: true}
	plans := []PubPlan{
		{Name: "pub-three", U: pubUniverse("pub-three", 3, seed+11), Keys: []PubKey{r, r, r}},
		{Name: "pub-startup", U: pubUniverse("pub-startup", 3, seed+12), Keys: []PubKey{r, r, o}},
		{Name: "pub-notresp", U: pubUniverse("pub-notresp", 4, seed+13), Keys: []PubKey{r, n, r, {Resp: false, Missing: true}}, Leaves: true},
		{Name: "pub-composed", U: pubUniverse("pub-composed", 3, seed+14), Keys: []PubKey{r, r, o}, Composed: true},
		{Name: "pub-retry", U: pubUniverse("pub-retry", 2, seed+16), Keys: []PubKey{r, r}, MaxFails: 1, Leaves: true},
	}
	if thorough {
		plans = append(plans,
			PubPlan{Name: "pub-four", U: pubUniverse("pub-four", 5, seed+15), Keys: []PubKey{r, r, r, o, o}, Leaves: true})
	}
	return plans
}

// OldSeq: the old keys in the order of GetAllDKGResults (ORDER BY eon ASC over the concrete numbers).
func (p PubPlan) OldSeq() []int {
	var ids []int
	for i, k := range p.Keys {
		if k.Old {
			ids = append(ids, i+1)
		}
	}
	sort.Slice(ids, func(a, b int) bool {
		return p.U.EonNum[p.U.Eons[ids[a]-1].Num] < p.U.EonNum[p.U.Eons[ids[b]-1].Num]
	})
	return ids
}

func (p PubPlan) tlaDefs() string {
	var ks, os []string
	for _, k := range p.Keys {
		ks = append(ks, fmt.Sprintf("[resp |-> %s, old |-> %s]", tlaBool(k.Resp), tlaBool(k.Old)))
	}
	for _, o := range p.OldSeq() {
		os = append(os, fmt.Sprint(o))
	}
	return "U_KeyTab == << " + strings.Join(ks, ", ") + " >>\nU_OldSeq == << " + strings.Join(os, ", ") + " >>\n"
}

func (p PubPlan) constCfg() string {
	return "CONSTANTS\n  KeyTab <- U_KeyTab\n  OldSeq <- U_OldSeq\n  ChanCap = 32\n  NumRetries = 3\n"
}

// PubOp is one step of a history printed by EonPubMC.
type PubOp struct {
	K   string `json:"k"`
	Key int    `json:"key"`
	Res string `json:"res"`
}

// PubLine is one ndjson trace line for EonPubTrace.tla.
type PubLine struct {
	K     string `json:"k"`
	Key   int    `json:"key"`
	Ret   bool   `json:"ret"`
	Res   string `json:"res"`
	Wf    bool   `json:"wf"`
	Panic string `json:"panic"`
}

// PubGen is the result of the model-checking / generation run of one publisher plan.
type PubGen struct {
	Plan      PubPlan
	Histories [][]PubOp
	States    int
	Distinct  int
	Wall      float64
	SpecViol  string
}

// GeneratePub: TLC checks the property layer (every transition, at rest, and the liveness
// property under fairness of the publisher) on the code-shaped spec and prints every history.
// No VIEW: the whole prefix tree of interleavings is printed (transition coverage).
func GeneratePub(c *core.Ctx, p PubPlan) (*PubGen, error) {
	mod := "MCgen_eonpub"
	body := []byte(fmt.Sprintf("---- MODULE %s ----\nEXTENDS EonPubMC\n%s====\n", mod, p.tlaDefs()))
	cfg := p.constCfg() + fmt.Sprintf("  MaxFails = %d\n  Emit = TRUE\n", p.MaxFails) +
		"SPECIFICATION Spec\nPROPERTY StepProps\nPROPERTY Live\nINVARIANT RestInv\nINVARIANT EmitInv\nCHECK_DEADLOCK FALSE\n"
	res, err := tlc.Run(tlc.Opts{Module: mod, CfgText: cfg, Workers: 2, Timeout: 10 * time.Minute, HeapGB: 4, Files: map[string][]byte{mod + ".tla": body}})
	if err != nil {
		return nil, err
	}
	g := &PubGen{Plan: p, States: res.States, Distinct: res.Distinct, Wall: res.Wall.Seconds()}
	if res.Errored != "" || res.TimedOut || res.Distinct == 0 {
		return nil, fmt.Errorf("TLC did not complete: %s\n%s", res.Errored, res.Tail(30))
	}
	if res.Violation {
		g.SpecViol = res.ViolatedWhat
	} else if !res.Completed {
		return nil, fmt.Errorf("TLC did not complete:\n%s", res.Tail(30))
	}
	seen := map[string]bool{}
	for _, raw := range res.Tagged["B"] {
		s, err := tlc.UnquoteTLA(raw)
		if err != nil {
			return nil, err
		}
		if seen[s] {
			continue
		}
		seen[s] = true
		var b struct {
			Ops []PubOp `json:"ops"`
		}
		if err := json.Unmarshal([]byte(s), &b); err != nil {
			return nil, fmt.Errorf("history %q: %v", s, err)
		}
		g.Histories = append(g.Histories, b.Ops)
	}
	if p.Leaves {
		// keep the histories that are not a proper prefix of another one
		keys := map[string]bool{}
		for _, h := range g.Histories {
			b, _ := json.Marshal(h)
			keys[string(b)] = true
		}
		isPrefix := map[string]bool{}
		for _, h := range g.Histories {
			for n := 0; n < len(h); n++ {
				b, _ := json.Marshal(h[:n])
				isPrefix[string(b)] = true
			}
		}
		var out [][]PubOp
		for _, h := range g.Histories {
			b, _ := json.Marshal(h)
			if !isPrefix[string(b)] {
				out = append(out, h)
			}
		}
		g.Histories = out
	}
	if len(g.Histories) == 0 {
		return nil, fmt.Errorf("TLC printed no histories\n%s", res.Tail(30))
	}
	return g, nil
}

// scheduler ---------------------------------------------------------------------------------

type arrival struct {
	gate  string // "takes" | "astart" | "aend"
	key   int
	wf    bool
	reply chan string
}

// sched is the gate through which the publisher routine passes at its three observable points.
// While not free every arrival blocks until the harness releases it.
type sched struct {
	arrivals chan *arrival
	freeCh   chan struct{}
	free     atomic.Bool
	mu       sync.Mutex
	freeLog  []PubLine
	last     time.Time
	t0       time.Time
	trail    []string
}

func newSched() *sched {
	return &sched{arrivals: make(chan *arrival), freeCh: make(chan struct{}), last: time.Now(), t0: time.Now()}
}

func (s *sched) touch() { s.note("gate") }

// note records activity of the publisher (gate, database statement, node call).
func (s *sched) note(what string) {
	s.mu.Lock()
	s.last = time.Now()
	s.trail = append(s.trail, fmt.Sprintf("%s@%dms", what, time.Since(s.t0).Milliseconds()))
	if len(s.trail) > 16 {
		s.trail = s.trail[len(s.trail)-16:]
	}
	s.mu.Unlock()
}

func (s *sched) logFree(a *arrival, res string) {
	s.mu.Lock()
	s.freeLog = append(s.freeLog, PubLine{K: a.gate, Key: a.key, Ret: true, Res: res, Wf: a.wf})
	s.last = time.Now()
	s.mu.Unlock()
}

// arrive is called on the publisher's side; it returns the answer for the gate ("ok" | "fail").
func (s *sched) arrive(gate string, key int, wf bool) string {
	a := &arrival{gate: gate, key: key, wf: wf, reply: make(chan string, 1)}
	res := ""
	if gate == "aend" {
		res = "ok"
	}
	if s.free.Load() {
		s.logFree(a, res)
		return "ok"
	}
	s.touch()
	select {
	case s.arrivals <- a: // the harness has seen (and logged) the arrival
		select {
		case r := <-a.reply:
			s.touch()
			return r
		case <-s.freeCh:
			select {
			case r := <-a.reply:
				return r
			default:
			}
			if gate == "aend" { // the harness had not answered yet: answered "ok" by the free run
				s.logFree(a, res)
			}
			return "ok"
		}
	case <-s.freeCh:
		s.logFree(a, res)
		return "ok"
	}
}

func (s *sched) await(timeout time.Duration) *arrival {
	select {
	case a := <-s.arrivals:
		return a
	case <-time.After(timeout):
		return nil
	}
}

func (s *sched) setFree() {
	s.free.Store(true)
	close(s.freeCh)
}

// pubWorld ----------------------------------------------------------------------------------

type pubWorld struct {
	plan  PubPlan
	w     *World
	chain *chain
	keyOf map[string]int // key bytes -> key id
	sch   atomic.Pointer[sched]
}

func newPubWorld(p PubPlan) (*pubWorld, error) {
	w, err := NewWorld(p.U)
	if err != nil {
		return nil, err
	}
	ctx, cancel := context.WithTimeout(context.Background(), 30*time.Second)
	defer cancel()
	pw := &pubWorld{plan: p, w: w, keyOf: map[string]int{}}
	var idxs []uint64
	for _, c := range p.U.Cfgs {
		idxs = append(idxs, p.U.CfgNum[c.Idx])
	}
	if pw.chain, err = newChain(w.addr, idxs); err != nil {
		return nil, err
	}
	oq := obskeyperdb.New(w.pool)
	kq := kprdb.New(w.pool)
	for i, k := range p.Keys {
		id := i + 1
		pw.keyOf[string(w.keys[id])] = id
		es := p.U.Eons[i]
		c := p.U.Cfgs[es.C-1]
		if !(k.Missing && !k.Resp) {
			var ks []string
			for _, a := range w.keypers(c) {
				if !k.Resp && a == w.addr {
					a = derivedAddr("stranger", uint64(id))
				}
				ks = append(ks, shdb.EncodeAddress(a))
			}
			err := oq.InsertKeyperSet(ctx, obskeyperdb.InsertKeyperSetParams{KeyperConfigIndex: int64(p.U.CfgNum[c.Idx]),
				ActivationBlockNumber: int64(p.U.ActNum[1000+c.Idx]), Keypers: ks, Threshold: 2})
			if err != nil {
				return nil, fmt.Errorf("InsertKeyperSet: %w", err)
			}
		}
		if k.Old {
			ek, err := testkeygen.NewEonKeys(newDetReader(fmt.Sprintf("eonkey-%d-%d", p.U.Seed, i)), 3, 2)
			if err != nil {
				return nil, err
			}
			var shares []*shcrypto.EonPublicKeyShare
			for j := 0; j < 3; j++ {
				shares = append(shares, ek.EonPublicKeyShare(j))
			}
			own := uint64(p.U.OwnPos[c.Idx])
			res := &puredkg.Result{Eon: p.U.EonNum[es.Num], NumKeypers: 3, Threshold: 2, Keyper: own,
				SecretKeyShare: ek.EonSecretKeyShare(0), PublicKey: ek.EonPublicKey(), PublicKeyShares: shares}
			enc, err := shdb.EncodePureDKGResult(res)
			if err != nil {
				return nil, err
			}
			if err := kq.InsertDKGResult(ctx, kprdb.InsertDKGResultParams{Eon: int64(res.Eon), Success: true, Error: sql.NullString{}, PureResult: enc}); err != nil {
				return nil, fmt.Errorf("InsertDKGResult: %w", err)
			}
		}
	}
	w.base = w.srv.Snapshot()
	// the gates: database statement of publishIfResponsible, and the two chain points
	w.srv.SetFault(func(ev fakepg.Event) fakepg.Fault {
		if s := pw.sch.Load(); s != nil {
			s.note(ev.Kind + ":" + ev.Stmt)
			if ev.Kind == fakepg.KindExecute && ev.Stmt == "GetKeyperSetByKeyperConfigIndex" {
				s.arrive("takes", 0, true)
			}
		}
		return fakepg.None
	})
	pw.chain.activity = func(what string) {
		if s := pw.sch.Load(); s != nil {
			s.note(what)
		}
	}
	pw.chain.gate = func(kind string, to common.Address, key []byte, kidx uint64, senderOK bool) error {
		s := pw.sch.Load()
		if s == nil {
			return nil
		}
		id := pw.keyOf[string(key)]
		wf := senderOK
		if id >= 1 && id <= len(p.Keys) {
			c := p.U.Cfgs[p.U.Eons[id-1].C-1]
			wf = wf && to == pw.chain.PublisherOf(p.U.CfgNum[c.Idx])
			if kind == "aend" {
				wf = wf && kidx == uint64(p.U.OwnPos[c.Idx])
			}
		}
		if s.arrive(kind, id, wf) == "fail" {
			return fmt.Errorf("verif: the node refuses the transaction")
		}
		return nil
	}
	return pw, nil
}

func (pw *pubWorld) Close() {
	pw.chain.Close()
	pw.w.Close()
}

func (pw *pubWorld) eonKey(id int) keyper.EonPublicKey {
	u := pw.plan.U
	es := u.Eons[id-1]
	return keyper.EonPublicKey{PublicKey: append([]byte{}, pw.w.keys[id]...), ActivationBlock: u.ActNum[es.Act],
		KeyperConfigIndex: u.CfgNum[u.Cfgs[es.C-1].Idx], Eon: u.EonNum[es.Num]}
}

const (
	pubStepWait  = 2 * time.Second
	pubRetryWait = 15 * time.Second
	pubIdle      = 1000 * time.Millisecond
)

// run replays one history as a gated schedule and then lets the publisher run freely until it rests.
func (pw *pubWorld) run(hist []PubOp) []PubLine {
	lines, _ := pw.runChecked(hist)
	return lines
}

// runChecked also tells whether the repetition ended by a time-out again.
func (pw *pubWorld) runChecked(hist []PubOp) ([]PubLine, bool) {
	lines, timedOut := pw.runScaled(hist, 1)
	if timedOut {
		// a run that was ended by a time-out instead of by the publisher's own progress is repeated once
		// with five times longer time-outs, and the repetition is what gets validated: a publisher that
		// really loses or never takes a key does so again, a stall of the machine does not
		lines, timedOut = pw.runScaled(hist, 5)
	}
	return lines, timedOut
}

func (pw *pubWorld) runScaled(hist []PubOp, scale time.Duration) (lines []PubLine, timedOut bool) {
	lines = []PubLine{{K: "new", Ret: true, Wf: true}}
	pw.w.Reset()
	pw.chain.Reset()
	s := newSched()
	pw.sch.Store(s)
	defer pw.sch.Store(nil)
	pub, err := eonkeypublisher.NewEonKeyPublisher(pw.w.pool, pw.chain.client, pw.chain.mgr, pw.w.cfg.Ethereum.PrivateKey.Key)
	if err != nil {
		return append(lines, PubLine{K: "end", Panic: "NewEonKeyPublisher: " + err.Error()}), false
	}
	ctx, cancel := context.WithCancel(context.Background())
	group, deferFn := service.RunBackground(ctx, pub)
	stopped := make(chan struct{})
	tStart := time.Now()
	var tSched, tDrain time.Time
	defer func() {
		if os.Getenv("VERIF_C20_DEBUG") != "" {
			defer func() {
				fmt.Fprintf(os.Stderr, "run: schedule %v drain %v stop %v\n", tSched.Sub(tStart), tDrain.Sub(tSched), time.Since(tDrain))
			}()
		}
		cancel()
		go func() { _ = group.Wait(); deferFn(); close(stopped) }()
		select {
		case <-stopped:
		case <-time.After(pubStepWait):
		}
	}()
	expected := 0
	for _, k := range pw.plan.Keys {
		if k.Old {
			expected++
		}
	}
	publish := func(ids []int) bool {
		done := make(chan string, 1)
		var got []PubLine
		var gmu sync.Mutex
		go func() {
			defer func() {
				if p := recover(); p != nil {
					done <- fmt.Sprint("panic: ", p)
					return
				}
				done <- ""
			}()
			if pw.plan.Composed {
				// the key generations complete, then ONE tick of the real handler hands the keys over
				for _, id := range ids {
					if r := pw.w.insertQuery(ctx, id); r != "ok" {
						panic("insert: " + r)
					}
				}
				pw.w.rec.reset(0)
				pw.w.rec.mu.Lock()
				pw.w.rec.forward = func(pk keyper.EonPublicKey) {
					pub.Publish(pk)
					gmu.Lock()
					got = append(got, PubLine{K: "publish", Key: pw.keyOf[string(pk.PublicKey)], Ret: true, Wf: true})
					gmu.Unlock()
				}
				pw.w.rec.mu.Unlock()
				h, herr := pw.w.handler(callbackMode, callbackOpts)
				if herr != nil || h == nil {
					panic(fmt.Sprint("handler: ", herr))
				}
				err := h.QueryAndHandleNewEonPubKeys(ctx)
				pw.w.rec.mu.Lock()
				pw.w.rec.forward = nil
				pw.w.rec.mu.Unlock()
				if err != nil {
					panic("tick: " + err.Error())
				}
				return
			}
			for _, id := range ids {
				pub.Publish(pw.eonKey(id))
				gmu.Lock()
				got = append(got, PubLine{K: "publish", Key: id, Ret: true, Wf: true})
				gmu.Unlock()
			}
		}()
		ok := true
		select {
		case p := <-done:
			gmu.Lock()
			lines = append(lines, got...)
			gmu.Unlock()
			if p != "" {
				lines = append(lines, PubLine{K: "publish", Key: 0, Ret: false, Panic: p})
				ok = false
			}
		case <-time.After(scale * pubStepWait):
			timedOut = true
			gmu.Lock()
			lines = append(lines, got...)
			n := len(got)
			gmu.Unlock()
			if n < len(ids) {
				lines = append(lines, PubLine{K: "publish", Key: ids[n], Ret: false, Wf: true})
			}
			ok = false
		}
		for _, id := range ids {
			if pw.plan.Keys[id-1].Resp {
				expected++
			}
		}
		return ok
	}
	var pending *arrival
	release := func(res string) {
		if pending != nil {
			pending.reply <- res
			pending = nil
		}
	}
	observe := func(a *arrival, res string) {
		lines = append(lines, PubLine{K: a.gate, Key: a.key, Ret: true, Res: res, Wf: a.wf})
	}
	onSchedule := true
	retryPending := false
	for i := 0; i < len(hist) && onSchedule; i++ {
		op := hist[i]
		switch op.K {
		case "publish":
			ids := []int{op.Key}
			if pw.plan.Composed {
				for i+1 < len(hist) && hist[i+1].K == "publish" {
					i++
					ids = append(ids, hist[i].Key)
				}
			}
			onSchedule = publish(ids)
		case "takes", "astart", "aend":
			wait := scale * pubStepWait
			if op.K == "astart" {
				if retryPending {
					wait = pubRetryWait + scale*pubStepWait
				}
				if pending != nil && (pending.gate == "takes" || pending.gate == "astart") {
					release("ok")
				}
			}
			if op.K == "aend" && pending != nil && pending.gate == "astart" {
				release("ok")
			}
			if op.K == "takes" && pending != nil && pending.gate == "takes" {
				release("ok") // the previous key was not the keyper's business
			}
			a := s.await(wait)
			if a == nil { // the publisher does not come: stop following the schedule
				onSchedule = false
				timedOut = true
				if os.Getenv("VERIF_C20_DEBUG") != "" {
					s.mu.Lock()
					fmt.Fprintf(os.Stderr, "off schedule at op %d (%s) after %dms; activity: %v\n", i, op.K, time.Since(s.t0).Milliseconds(), s.trail)
					s.mu.Unlock()
				}
				break
			}
			pending = a
			if a.gate == "aend" {
				res := op.Res
				if op.K != "aend" {
					res = "ok"
				}
				observe(a, res)
				release(res)
				retryPending = res == "fail"
			} else {
				observe(a, "")
				if a.gate == "astart" {
					retryPending = false
				}
			}
			if a.gate != op.K {
				onSchedule = false
			}
		}
	}
	// free run until the publisher rests
	tSched = time.Now()
	lines = append(lines, PubLine{K: "free", Ret: true, Wf: true})
	s.setFree()
	idle := scale * pubIdle
	if retryPending {
		idle = pubRetryWait + scale*pubIdle
	}
	deadline := time.Now().Add(pubRetryWait + scale*5*time.Second)
	for time.Now().Before(deadline) {
		time.Sleep(5 * time.Millisecond)
		s.mu.Lock()
		last := s.last
		ends, takes, handed := 0, 0, 0
		for _, l := range s.freeLog {
			if l.K == "aend" {
				ends++
			}
			if l.K == "takes" {
				takes++
			}
		}
		s.mu.Unlock()
		for _, l := range lines {
			if l.K == "aend" && l.Res == "ok" {
				ends++
			}
			if l.K == "takes" {
				takes++
			}
			if l.K == "publish" && l.Ret {
				handed++
			}
		}
		since := time.Since(last)
		// rest = no activity at the gates, the database or the node for a while; the wait is cut short
		// when every handed-over key has been taken and every due attempt has ended
		if ends >= expected && takes >= handed && since > 40*time.Millisecond {
			break
		}
		if since > idle {
			timedOut = true
			break
		}
	}
	s.mu.Lock()
	lines = append(lines, s.freeLog...)
	s.mu.Unlock()
	lines = append(lines, PubLine{K: "end", Ret: true, Wf: true})
	tDrain = time.Now()
	return lines, timedOut
}

func encodePubLines(lines []PubLine) []byte {
	var buf bytes.Buffer
	for _, l := range lines {
		b, _ := json.Marshal(l)
		buf.Write(b)
		buf.WriteByte('\n')
	}
	return buf.Bytes()
}

// ValidatePubTrace runs pass A + pass B on one trace of the publisher stage.
func ValidatePubTrace(p PubPlan, trace []byte) (*VResult, error) {
	mod := "TRgen_eonpub"
	body := []byte(fmt.Sprintf("---- MODULE %s ----\nEXTENDS EonPubTrace\n%s====\n", mod, p.tlaDefs()))
	cfg := p.constCfg() + "  TraceFile = \"trace.ndjson\"\nSPECIFICATION TSpec\nINVARIANT Done\nCHECK_DEADLOCK FALSE\n"
	res, err := tlc.Run(tlc.Opts{Module: mod, CfgText: cfg, Workers: 1, Timeout: 10 * time.Minute, HeapGB: 2,
		Files: map[string][]byte{mod + ".tla": body, "trace.ndjson": trace}})
	if err != nil {
		return nil, err
	}
	if res.Errored != "" {
		if d := os.Getenv("VERIF_C20_DUMP"); d != "" {
			os.WriteFile(d, trace, 0o644)
		}
		return nil, fmt.Errorf("TLC error during trace validation: %s\n%s", res.Errored, res.Tail(60))
	}
	var vr VResult
	if err := res.TaggedJSON("RESULT", &vr); err != nil {
		return nil, fmt.Errorf("trace validation did not reach the end of the trace: %v\n%s", err, res.Tail(30))
	}
	return &vr, nil
}

// PubFinding is a monitor that failed on an observed event of the publisher stage.
type PubFinding struct {
	Monitor string    `json:"monitor"`
	Plan    string    `json:"plan"`
	Ops     []PubOp   `json:"ops"`   // the schedule
	Lines   []PubLine `json:"lines"` // the whole observed run
	At      int       `json:"at"`    // index of the failing line within Lines
}

// PubOutcome of one publisher plan.
type PubOutcome struct {
	Gen       *PubGen
	Runs      int
	Lines     int
	Handed2   int // runs in which >= 2 keys were handed over while an attempt was in flight
	Findings  []PubFinding
	Drift     []PubFinding
	Sample    any
	ReplayS   float64
	ValidateS float64
	Pins      []string
	Skipped   int // schedules not replayed because too many runs had already ended by a time-out twice
}

// after that many runs of a plan ended by a time-out even when repeated, the remaining schedules
// are not replayed: the plan is a VIOLATION (or INCONCLUSIVE) already
const pubMaxTimeouts = 12

func inFlightHandovers(lines []PubLine) int {
	best, cur, busy := 0, 0, false
	for _, l := range lines {
		switch l.K {
		case "astart":
			busy, cur = true, 0
		case "aend":
			busy = false
		case "publish":
			if busy && l.Ret {
				cur++
				if cur > best {
					best = cur
				}
			}
		}
	}
	return best
}

// ReplayAndValidatePub replays every history on the real publisher and validates the traces.
func ReplayAndValidatePub(c *core.Ctx, g *PubGen) (*PubOutcome, error) {
	out := &PubOutcome{Gen: g}
	hs := g.Histories
	runs := make([][]PubLine, len(hs))
	workers := 12
	if g.Plan.MaxFails > 0 {
		workers = 32 // these runs mostly wait for the 12 s retry pause
	}
	if workers > len(hs) {
		workers = len(hs)
	}
	t0 := time.Now()
	var mu sync.Mutex
	next := 0
	timeouts := 0
	var firstErr error
	var wg sync.WaitGroup
	for i := 0; i < workers; i++ {
		wg.Add(1)
		go func() {
			defer wg.Done()
			pw, err := newPubWorld(g.Plan)
			if err != nil {
				mu.Lock()
				if firstErr == nil {
					firstErr = err
				}
				mu.Unlock()
				return
			}
			defer func() {
				mu.Lock()
				out.Pins = append(out.Pins, pw.w.PinProblems()...)
				mu.Unlock()
				pw.Close()
			}()
			for {
				mu.Lock()
				k := next
				if timeouts >= pubMaxTimeouts {
					k = len(hs)
				} else {
					next++
				}
				mu.Unlock()
				if k >= len(hs) {
					return
				}
				var again bool
				runs[k], again = pw.runChecked(hs[k])
				if again {
					mu.Lock()
					timeouts++
					mu.Unlock()
				}
			}
		}()
	}
	wg.Wait()
	if firstErr != nil {
		return nil, firstErr
	}
	out.ReplayS = time.Since(t0).Seconds()
	// drop the schedules that were not replayed
	var hs2 [][]PubOp
	var runs2 [][]PubLine
	for i := range runs {
		if runs[i] != nil {
			hs2 = append(hs2, hs[i])
			runs2 = append(runs2, runs[i])
		}
	}
	out.Skipped = len(hs) - len(hs2)
	hs, runs = hs2, runs2
	out.Runs = len(runs)
	var all []PubLine
	start := make([]int, len(runs))
	for i, r := range runs {
		start[i] = len(all)
		all = append(all, r...)
		if inFlightHandovers(r) >= 2 {
			out.Handed2++
		}
	}
	out.Lines = len(all)
	t1 := time.Now()
	vr, err := ValidatePubTrace(g.Plan, encodePubLines(all))
	if err != nil {
		return nil, err
	}
	out.ValidateS = time.Since(t1).Seconds()
	if vr.Lines != len(all) {
		return nil, fmt.Errorf("trace validation read %d lines of %d", vr.Lines, len(all))
	}
	locate := func(n int) (int, int) { // 1-based line number -> run, offset
		k := sort.Search(len(start), func(i int) bool { return start[i] > n-1 }) - 1
		return k, n - 1 - start[k]
	}
	mk := func(n int, mon string) PubFinding {
		k, off := locate(n)
		return PubFinding{Monitor: mon, Plan: g.Plan.Name, Ops: hs[k], Lines: runs[k], At: off}
	}
	for _, v := range vr.Viol {
		if len(v) != 2 {
			continue
		}
		n, _ := v[0].(float64)
		m, _ := v[1].(string)
		out.Findings = append(out.Findings, mk(int(n), m))
	}
	for _, n := range vr.Drift {
		out.Drift = append(out.Drift, mk(n, "drift"))
	}
	sort.SliceStable(out.Findings, func(i, j int) bool { return len(out.Findings[i].Ops) < len(out.Findings[j].Ops) })
	sort.SliceStable(out.Drift, func(i, j int) bool { return len(out.Drift[i].Ops) < len(out.Drift[j].Ops) })
	best := 0
	for i, r := range runs {
		if len(r) > len(runs[best]) {
			best = i
		}
	}
	out.Sample = map[string]any{"plan": g.Plan.Name, "schedule_printed_by_tlc": hs[best], "observed": runs[best]}
	return out, nil
}

func describePub(f PubFinding) string {
	ev := func(l PubLine) string {
		switch l.K {
		case "publish":
			return fmt.Sprintf("Publish(k%d)%s", l.Key, map[bool]string{true: "", false: " BLOCKED"}[l.Ret])
		case "astart":
			return fmt.Sprintf("attempt-start(k%d)", l.Key)
		case "aend":
			return fmt.Sprintf("attempt-end(k%d,%s%s)", l.Key, l.Res, map[bool]string{true: "", false: ",MALFORMED"}[l.Wf])
		}
		return l.K
	}
	var obs []string
	for i, l := range f.Lines {
		if l.K == "new" {
			continue
		}
		s := ev(l)
		if i == f.At {
			s = ">>" + s + "<<"
		}
		obs = append(obs, s)
	}
	return fmt.Sprintf("monitor %s failed in plan %s; observed on the real EonKeyPublisher: %s", f.Monitor, f.Plan, strings.Join(obs, " "))
}
