package eonpk

import (
	"bytes"
	"context"
	"crypto/ecdsa"
	"crypto/ed25519"
	"crypto/sha256"
	"errors"
	"fmt"
	"strings"
	"sync"
	"time"

	"github.com/ethereum/go-ethereum/common"
	ethcrypto "github.com/ethereum/go-ethereum/crypto"
	"github.com/jackc/pgconn"
	"github.com/jackc/pgx/v4"
	"github.com/jackc/pgx/v4/pgxpool"
	"github.com/rs/zerolog"
	"google.golang.org/protobuf/proto"

	"github.com/shutter-network/rolling-shutter/rolling-shutter/app"
	"github.com/shutter-network/rolling-shutter/rolling-shutter/keyper"
	kprdb "github.com/shutter-network/rolling-shutter/rolling-shutter/keyper/database"
	"github.com/shutter-network/rolling-shutter/rolling-shutter/keyper/kprconfig"
	"github.com/shutter-network/rolling-shutter/rolling-shutter/keyper/shutterevents"
	"github.com/shutter-network/rolling-shutter/rolling-shutter/keyper/smobserver"
	"github.com/shutter-network/rolling-shutter/rolling-shutter/medley/configuration"
	metadb "github.com/shutter-network/rolling-shutter/rolling-shutter/medley/db"
	"github.com/shutter-network/rolling-shutter/rolling-shutter/medley/encodeable/keys"
	"github.com/shutter-network/rolling-shutter/rolling-shutter/medley/retry"
	"github.com/shutter-network/rolling-shutter/rolling-shutter/medley/service"
	"github.com/shutter-network/rolling-shutter/rolling-shutter/medley/testkeygen"
	"github.com/shutter-network/rolling-shutter/rolling-shutter/p2p"
	"github.com/shutter-network/rolling-shutter/rolling-shutter/p2pmsg"
	"github.com/shutter-network/rolling-shutter/rolling-shutter/shdb"
	"github.com/shutter-network/rolling-shutter/rolling-shutter/shmsg"

	"verif/harness/fakepg"
)

func init() { zerolog.SetGlobalLevel(zerolog.Disabled) }

const watchdog = 20 * time.Second

const dkgPhaseLength = 3

// Mode is a mode value of the specification: the name of the option sequence the keyper core is
// built with (EonPK!OptSeq) and the flags it yields.
type Mode struct {
	Bc bool   `json:"bc"`
	Cb bool   `json:"cb"`
	O  string `json:"o"`
}

func (m Mode) String() string { return m.O }

// callbackMode is the configuration of all four flavours.
var (
	callbackMode = Mode{Bc: false, Cb: true, O: "Callback"}
	callbackOpts = []string{"nobc", "handler"}
)

// Op is one step of a history printed by TLC (EonPKMC!Op).
type Op struct {
	K    string `json:"k"` // "ins" | "tick"
	E    int    `json:"e"`
	Ord  []int  `json:"ord"`
	Q    string `json:"q"`
	Fail int    `json:"fail"`
}

func (o Op) key() string { return fmt.Sprintf("%s/%d/%v/%s/%d", o.K, o.E, o.Ord, o.Q, o.Fail) }

// Row is one observed row of outgoing_eon_keys.
type Row struct {
	E   int    `json:"e"`   // eon id (position in EonTab), 0 = an eon number outside the universe
	Key string `json:"key"` // "k<id>" if the bytes are the key generated for eon id, else "?"
}

// Call is one observed call of a publication mechanism.
type Call struct {
	M   string `json:"m"` // "bc" | "cb"
	Num int    `json:"num"`
	Act int    `json:"act"`
	Cfg int    `json:"cfg"`
	Key string `json:"key"`
	Wf  bool   `json:"wf"`
	Res string `json:"res"`
}

// Line is one ndjson trace line for EonPKTrace.tla.
type Line struct {
	K     string `json:"k"` // "new" | "ins" | "tick" | "pop"
	D     int    `json:"d"` // "pop": depth to return to
	Mode  Mode   `json:"mode"`
	E     int    `json:"e"`
	Ord   []int  `json:"ord"`
	Q     string `json:"q"`
	Fail  int    `json:"fail"`
	Res   string `json:"res"`
	Pre   []Row  `json:"pre"`
	Calls []Call `json:"calls"`
	Err   string `json:"err"`
	Post  []Row  `json:"post"`
	Panic string `json:"panic"`
}

type detReader struct{ state [32]byte }

func newDetReader(label string) *detReader { return &detReader{state: sha256.Sum256([]byte(label))} }

func (d *detReader) Read(p []byte) (int, error) {
	n := 0
	for n < len(p) {
		d.state = sha256.Sum256(d.state[:])
		n += copy(p[n:], d.state[:])
	}
	return len(p), nil
}

func detKey(label string) *ecdsa.PrivateKey {
	for i := 0; ; i++ {
		h := sha256.Sum256([]byte(fmt.Sprintf("%s/%d", label, i)))
		k, err := ethcrypto.ToECDSA(h[:])
		if err == nil {
			return k
		}
	}
}

// World is one real handler environment: the database fake, the keyper configuration with real
// keys, the recording publication mechanisms.
type World struct {
	U    *Universe
	srv  *fakepg.Server
	pool *pgxpool.Pool
	cfg  *kprconfig.Config
	addr common.Address
	base *fakepg.DB
	keys map[int][]byte // query route: eon id -> encoded real eon public key
	rec  *recorder

	revEon map[uint64]int // concrete eon number -> eon id
	revAct map[uint64]int
	revCfg map[uint64]int

	handlers map[string]*keyper.VerifEonPubKeyHandler
	hmu      sync.Mutex
	Dead     bool
}

// recorder is the recording p2p.Messaging and the recording EonPublicKeyHandlerFunc.
type recorder struct {
	mu    sync.Mutex
	w     *World
	calls []Call
	fail  int
	// loop mode: the mechanism is a consumer that takes one key at a time through an unbuffered
	// channel (like the flavours' channelNewEonPublicKey into their main loop) and is busy for a
	// while between two receives. It never refuses; a hand-over attempt ends early only when the
	// HANDLER's context ends, which is counted in aborted and records no call.
	slow    chan Call
	aborted int
	// publisher stage: what a flavour's main loop does with the key (eonKeyPublisher.Publish)
	forward func(keyper.EonPublicKey)
}

var _ p2p.Messaging = (*recorder)(nil)

func (r *recorder) Start(context.Context, service.Runner) error       { return nil }
func (r *recorder) AddValidator(p2p.ValidatorFunc, ...p2pmsg.Message) {}
func (r *recorder) AddMessageHandler(...p2p.MessageHandler)           {}
func (r *recorder) reset(fail int)                                    { r.mu.Lock(); r.calls = []Call{}; r.fail = fail; r.mu.Unlock() }
func (r *recorder) taken() []Call {
	r.mu.Lock()
	defer r.mu.Unlock()
	return append([]Call{}, r.calls...)
}

// offer hands a key to the slow consumer (loop mode) or records it at once.
func (r *recorder) offer(ctx context.Context, c Call) error {
	r.mu.Lock()
	ch := r.slow
	r.mu.Unlock()
	if ch == nil {
		return r.record(c)
	}
	select {
	case ch <- c:
		return nil
	case <-ctx.Done():
		r.mu.Lock()
		r.aborted++
		r.mu.Unlock()
		return ctx.Err()
	}
}

// consume is the busy consumer of loop mode.
func (r *recorder) consume(ch chan Call, busy time.Duration, stop <-chan struct{}) {
	for {
		select {
		case c := <-ch:
			_ = r.record(c)
			select {
			case <-time.After(busy):
			case <-stop:
				return
			}
		case <-stop:
			return
		}
	}
}

func (r *recorder) record(c Call) error {
	r.mu.Lock()
	defer r.mu.Unlock()
	c.Res = "ok"
	if len(r.calls)+1 == r.fail {
		c.Res = "err"
	}
	r.calls = append(r.calls, c)
	if c.Res == "err" {
		return errors.New("verif: the publication mechanism refuses this key")
	}
	return nil
}

func (r *recorder) SendMessage(ctx context.Context, msg p2pmsg.Message, _ ...retry.Option) error {
	m, ok := msg.(*p2pmsg.EonPublicKey)
	if !ok {
		return r.offer(ctx, Call{M: "bc", Num: -1, Act: -1, Cfg: -1, Key: fmt.Sprintf("?%T", msg)})
	}
	w := r.w
	okSig, err := p2pmsg.VerifySignature(m, w.addr)
	c := Call{M: "bc", Num: w.absEonNum(m.Eon), Act: w.absAct(m.ActivationBlock), Cfg: w.absCfg(m.KeyperConfigIndex),
		Key: w.keyToken(m.PublicKey), Wf: err == nil && okSig && m.InstanceId == w.cfg.InstanceID}
	return r.offer(ctx, c)
}

func (r *recorder) callback(ctx context.Context, pk keyper.EonPublicKey) error {
	w := r.w
	r.mu.Lock()
	fwd := r.forward
	r.mu.Unlock()
	if fwd != nil {
		defer fwd(pk)
	}
	return r.offer(ctx, Call{M: "cb", Num: w.absEonNum(pk.Eon), Act: w.absAct(pk.ActivationBlock), Cfg: w.absCfg(pk.KeyperConfigIndex),
		Key: w.keyToken(pk.PublicKey), Wf: true})
}

// abstraction ------------------------------------------------------------------------------

func (w *World) absEonNum(n uint64) int {
	if id, ok := w.revEon[n]; ok {
		return w.U.Eons[id-1].Num
	}
	return -1
}

func (w *World) absAct(n uint64) int {
	if a, ok := w.revAct[n]; ok {
		return a
	}
	return -1
}

func (w *World) absCfg(n uint64) int {
	if a, ok := w.revCfg[n]; ok {
		return a
	}
	return -1
}

// expectedKey is the encoded eon public key that the key generation of eon id produced: the
// pre-generated key (query route) or the public key inside the dkg_result row (dkg route).
func (w *World) expectedKey(id int) []byte {
	if w.U.Route != "dkg" {
		return w.keys[id]
	}
	var out []byte
	num := int64(w.U.EonNum[w.U.Eons[id-1].Num])
	w.srv.View(func(db *fakepg.DB) {
		for _, r := range db.DkgResult {
			if r.Eon == num && r.Success {
				res, err := shdb.DecodePureDKGResult(r.PureResult)
				if err == nil && res.PublicKey != nil {
					out, _ = res.PublicKey.GobEncode()
				}
			}
		}
	})
	return out
}

func (w *World) keyToken(b []byte) string {
	for id := 1; id <= len(w.U.Eons); id++ {
		if k := w.expectedKey(id); k != nil && bytes.Equal(k, b) {
			return fmt.Sprintf("k%d", id)
		}
	}
	return "?"
}

// Rows projects table outgoing_eon_keys.
func (w *World) Rows() []Row {
	type raw struct {
		eon int64
		key []byte
	}
	var rs []raw
	w.srv.View(func(db *fakepg.DB) {
		for _, r := range db.OutgoingEonKeys {
			rs = append(rs, raw{r.Eon, append([]byte{}, r.EonPublicKey...)})
		}
	})
	out := []Row{}
	for _, r := range rs {
		id := 0
		if r.eon >= 0 {
			id = w.revEon[uint64(r.eon)]
		}
		out = append(out, Row{E: id, Key: w.keyToken(r.key)})
	}
	return out
}

// construction -----------------------------------------------------------------------------

func (w *World) keypers(c CfgSpec) []common.Address {
	var out []common.Address
	for i := 0; i < w.U.NumKeypers; i++ {
		if c.Member && i == w.U.OwnPos[c.Idx] {
			out = append(out, w.addr)
			continue
		}
		out = append(out, ethcrypto.PubkeyToAddress(detKey(fmt.Sprintf("other-%d-%d-%d", w.U.Seed, c.Idx, i)).PublicKey))
	}
	return out
}

// NewWorld builds the database (through the repository's own initialiser and queries) and the
// handlers for every option combination.
func NewWorld(u *Universe) (*World, error) {
	ctx, cancel := context.WithTimeout(context.Background(), 60*time.Second)
	defer cancel()
	w := &World{U: u, keys: map[int][]byte{}, revEon: map[uint64]int{}, revAct: map[uint64]int{}, revCfg: map[uint64]int{},
		handlers: map[string]*keyper.VerifEonPubKeyHandler{}}
	w.rec = &recorder{w: w}
	priv := detKey(fmt.Sprintf("keyper-%d", u.Seed))
	w.addr = ethcrypto.PubkeyToAddress(priv.PublicKey)
	edpub, _, _ := ed25519.GenerateKey(newDetReader(fmt.Sprintf("validator-%d", u.Seed)))
	w.cfg = &kprconfig.Config{
		InstanceID: u.InstanceID,
		Shuttermint: &kprconfig.ShuttermintConfig{
			ValidatorPublicKey: &keys.Ed25519Public{Key: edpub},
			EncryptionKey:      &keys.ECDSAPrivate{Key: detKey(fmt.Sprintf("encryption-%d", u.Seed))},
			DKGPhaseLength:     dkgPhaseLength,
		},
		Ethereum: &configuration.EthnodeConfig{PrivateKey: &keys.ECDSAPrivate{Key: priv}},
	}
	for id, e := range u.Eons {
		w.revEon[u.EonNum[e.Num]] = id + 1
		w.revAct[u.ActNum[e.Act]] = e.Act
	}
	for _, c := range u.Cfgs {
		w.revCfg[u.CfgNum[c.Idx]] = c.Idx
	}
	w.srv = fakepg.New()
	pool, err := w.srv.Pool(ctx)
	if err != nil {
		return nil, err
	}
	w.pool = pool
	if err := metadb.InitDB(ctx, pool, "keyper", kprdb.Definition); err != nil {
		return nil, fmt.Errorf("InitDB: %w", err)
	}
	q := kprdb.New(pool)
	if u.Route == "dkg" {
		st := smobserver.NewShuttermintState(w.cfg)
		for i, c := range u.Cfgs {
			ev := &shutterevents.BatchConfig{Height: int64(i + 1), Keypers: w.keypers(c), ActivationBlockNumber: u.ActNum[1000+c.Idx],
				Threshold: 1, KeyperConfigIndex: u.CfgNum[c.Idx], Started: true}
			if err := st.HandleEvent(ctx, q, ev); err != nil {
				return nil, fmt.Errorf("handleBatchConfig: %w", err)
			}
		}
	} else {
		for i, c := range u.Cfgs {
			if !c.Exists {
				continue
			}
			var ks []string
			for _, a := range w.keypers(c) {
				ks = append(ks, shdb.EncodeAddress(a))
			}
			err := q.InsertBatchConfig(ctx, kprdb.InsertBatchConfigParams{KeyperConfigIndex: int32(u.CfgNum[c.Idx]), Height: int64(i + 1),
				Keypers: ks, Threshold: 2, Started: i == 0, ActivationBlockNumber: int64(u.ActNum[1000+c.Idx])})
			if err != nil {
				return nil, fmt.Errorf("InsertBatchConfig: %w", err)
			}
		}
		for id, e := range u.Eons {
			ek, err := testkeygen.NewEonKeys(newDetReader(fmt.Sprintf("eonkey-%d-%d", u.Seed, id)), 3, 2)
			if err != nil {
				return nil, err
			}
			w.keys[id+1], _ = ek.EonPublicKey().GobEncode() // exactly what finalizeDKG stores
			if !e.HasRow {
				continue
			}
			err = q.InsertEon(ctx, kprdb.InsertEonParams{Eon: int64(u.EonNum[e.Num]), Height: int64(10 + id),
				ActivationBlockNumber: int64(u.ActNum[e.Act]), KeyperConfigIndex: int64(u.CfgNum[u.Cfgs[e.C-1].Idx])})
			if err != nil {
				return nil, fmt.Errorf("InsertEon: %w", err)
			}
		}
	}
	w.base = w.srv.Snapshot()
	return w, nil
}

// handler returns the handler built by the repository's option functions applied in the given
// order ("nobc" = NoBroadcastEonPublicKey, "handler" = WithEonPublicKeyHandler); nil if
// validateOptions refuses the combination. Handlers are long-lived: one per option sequence and world.
func (w *World) handler(m Mode, optSeq []string) (*keyper.VerifEonPubKeyHandler, error) {
	w.hmu.Lock()
	defer w.hmu.Unlock()
	if h, ok := w.handlers[m.O]; ok {
		return h, nil
	}
	opts := []keyper.Option{keyper.WithDBPool(w.pool), keyper.WithMessaging(w.rec)}
	for _, o := range optSeq {
		switch o {
		case "nobc":
			opts = append(opts, keyper.NoBroadcastEonPublicKey())
		case "handler":
			opts = append(opts, keyper.WithEonPublicKeyHandler(w.rec.callback))
		default:
			return nil, fmt.Errorf("unknown option %q", o)
		}
	}
	h, err := keyper.VerifNewEonPubKeyHandler(w.cfg, opts...)
	if err != nil {
		if strings.Contains(err.Error(), "no eon public key broadcast nor handler function provided") {
			w.handlers[m.O] = nil
			return nil, nil
		}
		return nil, err
	}
	w.handlers[m.O] = h
	return h, nil
}

func (w *World) Close() {
	if w.pool != nil {
		go w.pool.Close() // may block on a connection that hangs in a dead world
	}
	if w.srv != nil && !w.Dead {
		w.srv.Close()
	}
}

// PinProblems reports statements the fake did not recognise (=> INCONCLUSIVE).
func (w *World) PinProblems() []string { return w.srv.PinMismatches() }

// Reset returns to the database right after construction.
func (w *World) Reset() { w.srv.Restore(w.base.Clone()) }

// Snapshot / Restore of the database (the handler itself keeps no state between ticks).
func (w *World) Snapshot() *fakepg.DB  { return w.srv.Snapshot() }
func (w *World) Restore(db *fakepg.DB) { w.srv.Restore(db.Clone()) }

// New observes the construction of the handler for a mode.
func (w *World) New(m Mode, optSeq []string) Line {
	ln := Line{K: "new", Mode: m, Ord: []int{}, Q: "ok", Res: "ok", Pre: w.Rows(), Calls: []Call{}, Err: "nil"}
	h, err := w.handler(m, optSeq)
	if err != nil {
		ln.Panic = "constructor: " + err.Error()
	} else if h == nil {
		ln.Res = "invalid"
	}
	ln.Post = w.Rows()
	return ln
}

func classify(err error) string {
	if err == nil {
		return "nil"
	}
	var pe *pgconn.PgError
	s := err.Error()
	switch {
	case strings.Contains(s, "own keyper index not found"):
		return "noindex"
	case strings.Contains(s, "failed to broadcast eon public key"):
		return "bc"
	case strings.Contains(s, "failed to handle eon public key"):
		return "cb"
	case errors.As(err, &pe):
		return "db"
	}
	return "other: " + s
}

// guarded runs f under recover and the watchdog.
func (w *World) guarded(f func(ctx context.Context)) (panicked string) {
	ctx, cancel := context.WithTimeout(context.Background(), 2*watchdog)
	defer cancel()
	done := make(chan string, 1)
	go func() {
		defer func() {
			if p := recover(); p != nil {
				done <- fmt.Sprint("panic: ", p)
				return
			}
			done <- ""
		}()
		f(ctx)
	}()
	select {
	case p := <-done:
		return p
	case <-time.After(watchdog):
		w.Dead = true
		return "hang"
	}
}

// Step executes one op on the real code and observes it.
func (w *World) Step(m Mode, op Op) Line {
	ln := Line{K: op.K, Mode: m, E: op.E, Ord: append([]int{}, op.Ord...), Q: op.Q, Fail: op.Fail, Res: "ok", Calls: []Call{}, Err: "nil"}
	ln.Pre = w.Rows()
	w.rec.reset(op.Fail)
	switch op.K {
	case "ins":
		ln.Panic = w.guarded(func(ctx context.Context) {
			if w.U.Route == "dkg" {
				ln.Res = w.insertDKG(ctx, op.E)
			} else {
				ln.Res = w.insertQuery(ctx, op.E)
			}
		})
	case "tick":
		w.hmu.Lock()
		h := w.handlers[m.O]
		w.hmu.Unlock()
		if h == nil {
			ln.Panic = "no handler for mode " + m.String()
			break
		}
		if w.U.Via == "loop" {
			w.loopTick(h, op, &ln)
			break
		}
		perm := make([]int, len(op.Ord))
		for j, x := range op.Ord {
			perm[j] = x - 1
		}
		w.srv.SetRowOrder(func(stmt string, n int) []int {
			if stmt == "GetAndDeleteEonPublicKeys" && n == len(perm) {
				return perm
			}
			return nil
		})
		if op.Q == "sqlerr" {
			w.srv.SetFault(func(ev fakepg.Event) fakepg.Fault {
				if ev.Kind == fakepg.KindExecute && ev.Stmt == "GetAndDeleteEonPublicKeys" {
					return fakepg.Fault{Kind: fakepg.FaultSQLError, Code: "57014", Message: "verif: injected statement failure"}
				}
				return fakepg.None
			})
		}
		ln.Panic = w.guarded(func(ctx context.Context) {
			ln.Err = classify(h.QueryAndHandleNewEonPubKeys(ctx))
		})
		w.srv.SetFault(nil)
		w.srv.SetRowOrder(nil)
	default:
		ln.Panic = "unknown op " + op.K
	}
	ln.Calls = w.rec.taken()
	if !w.Dead {
		ln.Post = w.Rows()
	} else {
		ln.Post = []Row{}
	}
	return ln
}

// Polling interval and consumer pace of loop mode: the consumer is slower than the ticker but
// takes every key.
const (
	LoopTicker = 15 * time.Millisecond
	loopBusy   = 8 * LoopTicker
)

// loopTick executes a "tick" op through the REAL polling loop eonPubKeyHandler.loop (shortened
// ticker) against the slow consumer: the loop is started, runs until it is quiescent (a round
// that found the table empty has completed) and is then cancelled. What the consumer took during
// the whole run is the calls of the step. loop() swallows the error of a round, so err is "nil"
// unless a hand-over was ended by the handler's own context ("ctx") or loop returned something
// other than the cancellation.
func (w *World) loopTick(h *keyper.VerifEonPubKeyHandler, op Op, ln *Line) {
	perm := make([]int, len(op.Ord))
	for j, x := range op.Ord {
		perm[j] = x - 1
	}
	w.srv.SetRowOrder(func(stmt string, n int) []int {
		if stmt == "GetAndDeleteEonPublicKeys" && n == len(perm) {
			return perm
		}
		return nil
	})
	var omu sync.Mutex
	emptyRounds := 0
	w.srv.SetFault(func(ev fakepg.Event) fakepg.Fault {
		if ev.Kind == fakepg.KindExecute && ev.Stmt == "GetAndDeleteEonPublicKeys" {
			n := 0
			w.srv.View(func(db *fakepg.DB) { n = len(db.OutgoingEonKeys) })
			if n == 0 {
				omu.Lock()
				emptyRounds++
				omu.Unlock()
			}
		}
		return fakepg.None
	})
	ch := make(chan Call)
	stop := make(chan struct{})
	w.rec.mu.Lock()
	w.rec.slow = ch
	w.rec.aborted = 0
	w.rec.mu.Unlock()
	consumerDone := make(chan struct{})
	go func() {
		defer close(consumerDone)
		w.rec.consume(ch, loopBusy, stop)
	}()
	ctx, cancel := context.WithCancel(context.Background())
	done := make(chan string, 1)
	var lerr error
	go func() {
		defer func() {
			if p := recover(); p != nil {
				done <- fmt.Sprint("panic: ", p)
				return
			}
			done <- ""
		}()
		lerr = h.Loop(ctx)
	}()
	deadline := time.After(watchdog)
	poll := time.NewTicker(LoopTicker / 3)
	defer poll.Stop()
	finished := false
wait:
	for {
		select {
		case p := <-done: // loop ended by itself
			ln.Panic = p
			finished = true
			break wait
		case <-deadline:
			ln.Panic = "hang"
			w.Dead = true
			break wait
		case <-poll.C:
			omu.Lock()
			q := emptyRounds >= 2 // a round that saw an empty table has completed
			omu.Unlock()
			if q {
				break wait
			}
		}
	}
	cancel()
	if !finished && !w.Dead {
		select {
		case p := <-done:
			ln.Panic = p
		case <-time.After(watchdog):
			ln.Panic = "hang"
			w.Dead = true
		}
	}
	close(stop)
	// the consumer may have received the last key without having recorded it yet
	select {
	case <-consumerDone:
	case <-time.After(watchdog):
		ln.Panic = "hang"
		w.Dead = true
	}
	w.rec.mu.Lock()
	w.rec.slow = nil
	aborted := w.rec.aborted
	w.rec.mu.Unlock()
	w.srv.SetFault(nil)
	w.srv.SetRowOrder(nil)
	switch {
	case aborted > 0:
		ln.Err = "ctx"
	case lerr != nil && !errors.Is(lerr, context.Canceled):
		ln.Err = "other: loop returned " + lerr.Error()
	default:
		ln.Err = "nil"
	}
}

// insertQuery records a finished key generation the way finalizeDKG does on success: with the
// repository's InsertEonPublicKey and a real, gob-encoded eon public key.
func (w *World) insertQuery(ctx context.Context, e int) string {
	if e < 1 || e > len(w.U.Eons) {
		return "err: unknown eon"
	}
	err := kprdb.New(w.pool).InsertEonPublicKey(ctx, kprdb.InsertEonPublicKeyParams{
		EonPublicKey: w.keys[e], Eon: int64(w.U.EonNum[w.U.Eons[e-1].Num]),
	})
	if err != nil {
		return "err: " + err.Error()
	}
	return "ok"
}

// insertDKG lets the real smobserver.ShuttermintState run a whole key generation for eon e of a
// single-keyper set: EonStarted (handleEonStarted: InsertEon, PureDKG, dealing phase), the
// keyper's own PolyCommitment coming back from the chain, then the block height at which the
// driver's shiftPhases reaches finalizeDKG, which stores the outgoing eon key. One database
// transaction per block, a fresh state loaded from the database like after a restart.
func (w *World) insertDKG(ctx context.Context, e int) string {
	if e < 1 || e > len(w.U.Eons) {
		return "err: unknown eon"
	}
	es := w.U.Eons[e-1]
	eon := w.U.EonNum[es.Num]
	q0 := kprdb.New(w.pool)
	meta, err := q0.TMGetSyncMeta(ctx)
	if err != nil {
		return "err: TMGetSyncMeta: " + err.Error()
	}
	h := meta.CurrentBlock + 10
	st := smobserver.NewShuttermintState(w.cfg)
	block := func(height int64, f func(q *kprdb.Queries) error) error {
		return w.pool.BeginFunc(ctx, func(tx pgx.Tx) error {
			q := kprdb.New(tx)
			if err := st.Load(ctx, q); err != nil {
				return err
			}
			if err := q.TMSetSyncMeta(ctx, kprdb.TMSetSyncMetaParams{CurrentBlock: height, LastCommittedHeight: height - 1, SyncTimestamp: time.Unix(1700000000+height, 0)}); err != nil {
				return err
			}
			if err := f(q); err != nil {
				return err
			}
			if err := st.BeforeSaveHook(ctx, q); err != nil {
				return err
			}
			return st.Save(ctx, q)
		})
	}
	err = block(h, func(q *kprdb.Queries) error {
		return st.HandleEvent(ctx, q, &shutterevents.EonStarted{Height: h, Eon: eon, ActivationBlockNumber: w.U.ActNum[es.Act],
			KeyperConfigIndex: w.U.CfgNum[w.U.Cfgs[es.C-1].Idx]})
	})
	if err != nil {
		return "err: EonStarted: " + err.Error()
	}
	// the keyper's poly commitment as the chain would hand it back
	var raw []byte
	want := fmt.Sprintf("poly commitment (eon=%d)", eon)
	w.srv.View(func(db *fakepg.DB) {
		for _, m := range db.TendermintOutgoingMessages {
			if m.Description == want {
				raw = append([]byte{}, m.Msg...)
			}
		}
	})
	if raw == nil {
		return "err: no poly commitment scheduled"
	}
	var msg shmsg.Message
	if err := proto.Unmarshal(raw, &msg); err != nil || msg.GetPolyCommitment() == nil {
		return "err: scheduled poly commitment unreadable"
	}
	pc, err := app.ParsePolyCommitmentMsg(msg.GetPolyCommitment(), w.addr)
	if err != nil {
		return "err: " + err.Error()
	}
	err = block(h+1, func(q *kprdb.Queries) error {
		return st.HandleEvent(ctx, q, &shutterevents.PolyCommitment{Height: h + 1, Eon: eon, Sender: w.addr, Gammas: pc.Gammas})
	})
	if err != nil {
		return "err: PolyCommitment: " + err.Error()
	}
	err = block(h+3*dkgPhaseLength, func(q *kprdb.Queries) error {
		return st.VerifShiftPhases(ctx, q, h+3*dkgPhaseLength)
	})
	if err != nil {
		return "err: shiftPhases: " + err.Error()
	}
	res, err := q0.GetDKGResult(ctx, int64(eon))
	if err != nil {
		return "err: GetDKGResult: " + err.Error()
	}
	if !res.Success {
		return "dkgfail: " + res.Error.String
	}
	return "ok"
}
