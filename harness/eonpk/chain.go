package eonpk

import (
	"bytes"
	"context"
	"crypto/sha256"
	"errors"
	"fmt"
	"math/big"
	"sync"

	"github.com/ethereum/go-ethereum/accounts/abi"
	"github.com/ethereum/go-ethereum/common"
	"github.com/ethereum/go-ethereum/common/hexutil"
	"github.com/ethereum/go-ethereum/core/types"
	"github.com/ethereum/go-ethereum/ethclient"
	"github.com/ethereum/go-ethereum/rpc"
	"github.com/shutter-network/shop-contracts/bindings"
)

// chain is an in-process Ethereum node double for the eon key publisher: go-ethereum's own
// JSON-RPC server reached through a real *ethclient.Client and the abigen bindings. It knows
// the three contracts the publisher talks to (KeyperSetManager, KeyperSet, EonKeyPublish) and
// calls a gate — which may block — at the two points of an attempt the harness schedules:
// eonKeyConfirmed(key) ("astart") and eth_sendRawTransaction(publishEonKey(key, index)) ("aend").
type chain struct {
	mu       sync.Mutex
	srv      *rpc.Server
	client   *ethclient.Client
	chainID  *big.Int
	mgr      common.Address
	sets     map[common.Address]uint64 // KeyperSet contract -> keyper config index
	pubs     map[common.Address]uint64 // EonKeyPublish contract -> keyper config index
	voted    map[common.Address]bool
	receipts map[common.Hash]*types.Receipt
	nonce    uint64
	keyper   common.Address
	activity func(what string)
	gate     func(kind string, to common.Address, key []byte, keyperIdx uint64, senderOK bool) error

	mgrABI, setABI, pubABI *abi.ABI
}

func derivedAddr(label string, idx uint64) common.Address {
	h := sha256.Sum256([]byte(fmt.Sprintf("%s-%d", label, idx)))
	return common.BytesToAddress(h[:20])
}

func newChain(keyperAddr common.Address, cfgIdx []uint64) (*chain, error) {
	c := &chain{chainID: big.NewInt(100), mgr: derivedAddr("manager", 0), sets: map[common.Address]uint64{}, pubs: map[common.Address]uint64{},
		voted: map[common.Address]bool{}, receipts: map[common.Hash]*types.Receipt{}, keyper: keyperAddr}
	var err error
	if c.mgrABI, err = bindings.KeyperSetManagerMetaData.GetAbi(); err != nil {
		return nil, err
	}
	if c.setABI, err = bindings.KeyperSetMetaData.GetAbi(); err != nil {
		return nil, err
	}
	if c.pubABI, err = bindings.EonKeyPublishMetaData.GetAbi(); err != nil {
		return nil, err
	}
	for _, i := range cfgIdx {
		c.sets[derivedAddr("keyperset", i)] = i
		c.pubs[derivedAddr("publisher", i)] = i
	}
	c.srv = rpc.NewServer()
	if err := c.srv.RegisterName("eth", &chainAPI{c}); err != nil {
		return nil, err
	}
	c.client = ethclient.NewClient(rpc.DialInProc(c.srv))
	return c, nil
}

func (c *chain) Close() {
	c.client.Close()
	c.srv.Stop()
}

// Reset forgets votes, receipts and the nonce (a new run).
func (c *chain) Reset() {
	c.mu.Lock()
	defer c.mu.Unlock()
	c.voted = map[common.Address]bool{}
	c.receipts = map[common.Hash]*types.Receipt{}
	c.nonce = 0
}

func (c *chain) touch(what string) {
	if f := c.activity; f != nil {
		f(what)
	}
}

func (c *chain) PublisherOf(idx uint64) common.Address { return derivedAddr("publisher", idx) }

type chainAPI struct{ c *chain }

func (a *chainAPI) ChainId(context.Context) (*hexutil.Big, error) {
	a.c.touch("ChainId")
	return (*hexutil.Big)(a.c.chainID), nil
}

func (a *chainAPI) GasPrice(context.Context) (*hexutil.Big, error) {
	a.c.touch("GasPrice")
	return (*hexutil.Big)(big.NewInt(1_000_000_000)), nil
}

func (a *chainAPI) GetBlockByNumber(_ context.Context, _ rpc.BlockNumber, _ bool) (*types.Header, error) {
	a.c.touch("GetBlockByNumber")
	// no base fee: bind.transact takes the legacy gas price path
	return &types.Header{Number: big.NewInt(1), Difficulty: big.NewInt(0), GasLimit: 30_000_000, Time: 1_700_000_000}, nil
}

func (a *chainAPI) GetCode(_ context.Context, addr common.Address, _ rpc.BlockNumberOrHash) (hexutil.Bytes, error) {
	a.c.touch("GetCode")
	c := a.c
	if _, ok := c.sets[addr]; ok || addr == c.mgr {
		return hexutil.Bytes{0x60}, nil
	}
	if _, ok := c.pubs[addr]; ok {
		return hexutil.Bytes{0x60}, nil
	}
	return hexutil.Bytes{}, nil
}

func (a *chainAPI) GetTransactionCount(_ context.Context, _ common.Address, _ rpc.BlockNumberOrHash) (hexutil.Uint64, error) {
	a.c.touch("GetTransactionCount")
	a.c.mu.Lock()
	defer a.c.mu.Unlock()
	return hexutil.Uint64(a.c.nonce), nil
}

type callArg struct {
	From  *common.Address `json:"from"`
	To    *common.Address `json:"to"`
	Data  *hexutil.Bytes  `json:"data"`
	Input *hexutil.Bytes  `json:"input"`
}

func (m callArg) data() []byte {
	if m.Input != nil {
		return *m.Input
	}
	if m.Data != nil {
		return *m.Data
	}
	return nil
}

func (a *chainAPI) EstimateGas(_ context.Context, _ callArg, _ *rpc.BlockNumberOrHash) (hexutil.Uint64, error) {
	a.c.touch("EstimateGas")
	return 120_000, nil
}

func (a *chainAPI) Call(_ context.Context, m callArg, _ rpc.BlockNumberOrHash) (hexutil.Bytes, error) {
	a.c.touch("Call")
	c := a.c
	data := m.data()
	if m.To == nil || len(data) < 4 {
		return nil, errors.New("execution reverted")
	}
	to := *m.To
	switch {
	case to == c.mgr:
		meth, err := c.mgrABI.MethodById(data[:4])
		if err != nil || meth.Name != "getKeyperSetAddress" {
			return nil, errors.New("execution reverted: unknown manager method")
		}
		args, err := meth.Inputs.Unpack(data[4:])
		if err != nil {
			return nil, err
		}
		idx := args[0].(uint64)
		addr := derivedAddr("keyperset", idx)
		if _, ok := c.sets[addr]; !ok {
			return nil, errors.New("execution reverted: no such keyper set")
		}
		return meth.Outputs.Pack(addr)
	case func() bool { _, ok := c.sets[to]; return ok }():
		meth, err := c.setABI.MethodById(data[:4])
		if err != nil || meth.Name != "getPublisher" {
			return nil, errors.New("execution reverted: unknown keyper set method")
		}
		return meth.Outputs.Pack(derivedAddr("publisher", c.sets[to]))
	case func() bool { _, ok := c.pubs[to]; return ok }():
		meth, err := c.pubABI.MethodById(data[:4])
		if err != nil {
			return nil, errors.New("execution reverted: unknown publisher method")
		}
		args, err := meth.Inputs.Unpack(data[4:])
		if err != nil {
			return nil, err
		}
		switch meth.Name {
		case "hasKeyperVoted":
			c.mu.Lock()
			v := c.voted[to] && args[0].(common.Address) == c.keyper
			c.mu.Unlock()
			return meth.Outputs.Pack(v)
		case "eonKeyConfirmed":
			if g := c.gate; g != nil {
				if err := g("astart", to, args[0].([]byte), 0, true); err != nil {
					return nil, err
				}
			}
			return meth.Outputs.Pack(false)
		}
		return nil, errors.New("execution reverted: unknown publisher method " + meth.Name)
	}
	return nil, errors.New("execution reverted: no contract at " + to.Hex())
}

func (a *chainAPI) SendRawTransaction(_ context.Context, raw hexutil.Bytes) (common.Hash, error) {
	a.c.touch("SendRawTransaction")
	c := a.c
	tx := new(types.Transaction)
	if err := tx.UnmarshalBinary(raw); err != nil {
		return common.Hash{}, err
	}
	var key []byte
	var kidx uint64
	to := common.Address{}
	if tx.To() != nil {
		to = *tx.To()
	}
	if _, ok := c.pubs[to]; ok && len(tx.Data()) >= 4 {
		if meth, err := c.pubABI.MethodById(tx.Data()[:4]); err == nil && meth.Name == "publishEonKey" {
			if args, err := meth.Inputs.Unpack(tx.Data()[4:]); err == nil {
				key, _ = args[0].([]byte)
				kidx, _ = args[1].(uint64)
			}
		}
	}
	sender, err := types.Sender(types.LatestSignerForChainID(c.chainID), tx)
	senderOK := err == nil && sender == c.keyper && (tx.ChainId().Sign() == 0 || tx.ChainId().Cmp(c.chainID) == 0)
	if g := c.gate; g != nil {
		if err := g("aend", to, key, kidx, senderOK); err != nil {
			return common.Hash{}, err
		}
	}
	c.mu.Lock()
	defer c.mu.Unlock()
	c.nonce++
	c.voted[to] = true
	c.receipts[tx.Hash()] = &types.Receipt{Type: tx.Type(), Status: types.ReceiptStatusSuccessful, CumulativeGasUsed: 120_000, GasUsed: 120_000,
		Logs: []*types.Log{}, TxHash: tx.Hash(), BlockNumber: big.NewInt(2), BlockHash: common.BytesToHash(bytes.Repeat([]byte{7}, 32))}
	return tx.Hash(), nil
}

func (a *chainAPI) GetTransactionReceipt(_ context.Context, h common.Hash) (*types.Receipt, error) {
	a.c.touch("GetTransactionReceipt")
	a.c.mu.Lock()
	defer a.c.mu.Unlock()
	return a.c.receipts[h], nil
}
