package gov

import (
	"os"
	"testing"

	"verif/harness/sm"
)

func testConsts() Consts {
	return Consts{
		Addrs:  []string{"a1", "a2", "a3", "a4"},
		KeyOrd: []string{"v1", "v2", "none", "v3", "v4", "v9"},
		Genesis: sm.GenesisSpec{Keypers: []string{"a1", "a2", "a3"}, Thr: 2, Eon0: 0,
			Vals: map[string]int64{"v1": 0, "v2": 0, "none": 0, "v3": 0, "v4": 0, "v9": 10}},
		Delta: 1, Lag: 0, MaxMC: 3, Runners: []string{"a1", "a2", "a4"},
	}
}

// TestSmoke runs one hand-written behaviour on the real code and validates both traces.
func TestSmoke(t *testing.T) {
	alphabet := []Op{
		{Op: "adv"}, {Op: "end"}, {Op: "set", Set: setV1},
		{Op: "iter", A: "a1", Budget: BudgetAll}, {Op: "iter", A: "a2", Budget: BudgetAll}, {Op: "iter", A: "a4", Budget: BudgetAll},
		{Op: "iter", A: "a1", Budget: 1, Crash: true},
	}
	hist := []int{2, 3, 1, 1, 4, 5, 6, 2, 1, 4, 7, 5}
	r := Execute(testConsts(), alphabet, hist, 1, 1, false)
	if r.Err != nil {
		t.Fatal(r.Err)
	}
	votes, fin := 0, Line{}
	for _, l := range r.Lines {
		if l.K == "iter" && len(l.S2.Outbox) > len(l.S1.Outbox) {
			votes++
		}
		if l.K == "fin" {
			fin = l
		}
		if l.Err != "" || l.Panic != "" {
			t.Errorf("%s %s: err=%q panic=%q", l.K, l.A, l.Err, l.Panic)
		}
	}
	if votes == 0 || len(fin.Configs) != 2 || !fin.Configs[1].Started {
		t.Fatalf("the run did not end with config 1 accepted and started: %s", sm.Canon(fin.Configs))
	}
	if os.Getenv("GOV_TEST_TLC") == "" {
		return
	}
	p := plansFor(false)[0]
	var buf []byte
	for _, l := range r.Lines {
		buf = append(buf, []byte(sm.Canon(l)+"\n")...)
	}
	vr, err := Validate(p, buf)
	if err != nil {
		t.Fatal(err)
	}
	t.Logf("keyper side: %d lines, viol %v, known %v, drift %v", vr.Lines, vr.Viol, vr.Known, vr.Drift)
	avr, _, err := sm.ValidateTrace("gov", r.App)
	if err != nil {
		t.Fatal(err)
	}
	t.Logf("application side: %d lines, viol %v, drift %v", avr.Lines, avr.Viol, avr.Drift)
}
