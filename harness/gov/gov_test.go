package gov

import (
	"os"
	"testing"

	"verif/harness/sm"
)

func testConsts() Consts {
	return Consts{
		Addrs:  []string{"a1", "a2", "a3", "a4"},
		KeyOrd: []string{"v1", "v2", "none", "v3", "v4", "v9"},
		Genesis: sm.GenesisSpec{Keypers: []string{"a1", "a2", "a3"}, Thr: 2, Eon0: 0,
			Vals: map[string]int64{"v1": 0, "v2": 0, "none": 0, "v3": 0, "v4": 0, "v9": 10}},
		Delta: 1, Lag: 0, MaxMC: 3, Runners: []string{"a1", "a2", "a4"},
	}
}

// TestSmoke runs one hand-written behaviour on the real code and validates both traces.
func TestSmoke(t *testing.T) {
	alphabet := []Op{
		{Op: "adv"}, {Op: "end"}, {Op: "set", Set: setV1},
		{Op: "iter", A: "a1", Budget: BudgetAll}, {Op: "iter", A: "a2", Budget: BudgetAll}, {Op: "iter", A: "a4", Budget: BudgetAll},
		{Op: "iter", A: "a1", Budget: 1, Crash: true},
	}
	hist := []int{2, 3, 1, 1, 4, 5, 6, 2, 1, 4, 7, 5}
	r := Execute(testConsts(), alphabet, hist, 1, 1, false)
	if r.Err != nil {
		t.Fatal(r.Err)
	}
	for _, l := range r.Lines {
		if l.K == "iter" {
			t.Logf("iter %s b=%d budget=%d crash=%v: pre=%s\n   s1=%s\n   s2=%s\n   s3=%s\n   sent=%s others=%v err=%q panic=%q", l.A, l.B, l.Budget, l.Crash,
				sm.Canon(l.Pre), sm.Canon(l.S1), sm.Canon(l.S2), sm.Canon(l.S3), sm.Canon(l.Sent), l.Others, l.Err, l.Panic)
		} else {
			t.Logf("%s b=%d h=%d evs=%s started=%v configs=%s", l.K, l.B, l.H, sm.Canon(l.Evs), l.Started, sm.Canon(l.Configs))
		}
	}
	if os.Getenv("GOV_TEST_TLC") == "" {
		return
	}
	p := plansFor(false)[0]
	var buf []byte
	for _, l := range r.Lines {
		buf = append(buf, []byte(sm.Canon(l)+"\n")...)
	}
	vr, err := Validate(p, buf)
	if err != nil {
		t.Fatal(err)
	}
	t.Logf("keyper side: %d lines, viol %v, known %v, drift %v", vr.Lines, vr.Viol, vr.Known, vr.Drift)
	avr, _, err := sm.ValidateTrace("gov", r.App)
	if err != nil {
		t.Fatal(err)
	}
	t.Logf("application side: %d lines, viol %v, drift %v", avr.Lines, avr.Viol, avr.Drift)
}
