// Package gov binds the KeyperGov TLA+ specification (keyper side of keyper-set governance,
// composed with Shuttermint) to the real code: per keyper the body of the
// KeyperCore.operateShuttermint loop (smobserver.SyncAppWithDB, handleOnChainChanges in one
// transaction, fx.SendShutterMessages with the real RPCMessageSender) on its own fakepg
// database, ONE real app.ShutterApp behind a fake Tendermint RPC, and a main chain that is
// just a block number plus the keyper_set rows the chain observer would have written (they
// are inserted with the chain observer's own sqlc query).
package gov

import (
	"bytes"
	"context"
	"crypto/ecdsa"
	"crypto/ed25519"
	"crypto/sha256"
	"encoding/base64"
	"errors"
	"fmt"
	"sort"
	"strings"
	"sync"
	"time"

	"github.com/ethereum/go-ethereum/common"
	"github.com/ethereum/go-ethereum/crypto"
	"github.com/jackc/pgx/v4/pgxpool"
	"github.com/rs/zerolog"
	abcitypes "github.com/tendermint/tendermint/abci/types"
	tmproto "github.com/tendermint/tendermint/proto/tendermint/types"
	"github.com/tendermint/tendermint/rpc/client"
	coretypes "github.com/tendermint/tendermint/rpc/core/types"
	tmtypes "github.com/tendermint/tendermint/types"
	"google.golang.org/protobuf/proto"

	"github.com/shutter-network/rolling-shutter/rolling-shutter/app"
	obskeyper "github.com/shutter-network/rolling-shutter/rolling-shutter/chainobserver/db/keyper"
	"github.com/shutter-network/rolling-shutter/rolling-shutter/keyper"
	kprdb "github.com/shutter-network/rolling-shutter/rolling-shutter/keyper/database"
	"github.com/shutter-network/rolling-shutter/rolling-shutter/keyper/kprconfig"
	"github.com/shutter-network/rolling-shutter/rolling-shutter/keyper/shutterevents"
	"github.com/shutter-network/rolling-shutter/rolling-shutter/medley/configuration"
	metadb "github.com/shutter-network/rolling-shutter/rolling-shutter/medley/db"
	"github.com/shutter-network/rolling-shutter/rolling-shutter/medley/encodeable/keys"
	"github.com/shutter-network/rolling-shutter/rolling-shutter/shdb"
	"github.com/shutter-network/rolling-shutter/rolling-shutter/shmsg"

	"verif/harness/fakepg"
	"verif/harness/sm"
)

func init() { zerolog.SetGlobalLevel(zerolog.Disabled) }

// BudgetAll mirrors KeyperGov!BudgetAll.
const BudgetAll = 99

// dkgPhaseLength keeps every key generation in its dealing phase for the whole run: the DKG
// messages (commitment, evals) are sent for real, the later phases are never reached.
const dkgPhaseLength = 100000

type Cfg = sm.Cfg

// Msg is a governance message of the outbox (KeyperGov!VoteMsg / SeenMsg).
type Msg struct {
	K   string `json:"k"`
	Cfg Cfg    `json:"cfg"`
	B   uint64 `json:"b"`
}

// Kp is the projected keyper database (KeyperGov!KpInit lists the fields).
type Kp struct {
	Synced   int64 `json:"synced"`
	Bcs      []Cfg `json:"bcs"`
	Marker   int64 `json:"marker"`
	LastSeen int64 `json:"lastSeen"`
	Sets     []Cfg `json:"sets"`
	Outbox   []Msg `json:"outbox"`
}

// Ans is one broadcast of a governance message with shuttermint's answer.
type Ans struct {
	M   Msg    `json:"m"`
	Res string `json:"res"` // ok seen err chk timeout lost
	Why string `json:"why"`
}

// Acc is ground truth read from the block results: config cfg was accepted in block h.
type Acc struct {
	Cfg Cfg   `json:"cfg"`
	H   int64 `json:"h"`
}

// FlagCfg is a config as the application holds it.
type FlagCfg struct {
	Keypers []string `json:"keypers"`
	Thr     uint64   `json:"thr"`
	Act     uint64   `json:"act"`
	Idx     uint64   `json:"idx"`
	Started bool     `json:"started"`
	ValUpd  bool     `json:"valupd"`
}

// Line is one ndjson line for KeyperGovTrace.tla. Every line carries every field.
type Line struct {
	K       string        `json:"k"`
	Run     int           `json:"run"`
	A       string        `json:"a"`
	B       uint64        `json:"b"`
	Budget  int           `json:"budget"`
	Crash   bool          `json:"crash"`
	Set     Cfg           `json:"set"`
	Pre     Kp            `json:"pre"`
	S1      Kp            `json:"s1"`
	S2      Kp            `json:"s2"`
	S3      Kp            `json:"s3"`
	Sent    []Ans         `json:"sent"`
	Acc     []Acc         `json:"acc"`
	H       int64         `json:"h"`
	GSets   []Cfg         `json:"gsets"`
	Evs     []Cfg         `json:"evs"`
	Started []uint64      `json:"started"`
	MC      uint64        `json:"mc"`
	Configs []FlagCfg     `json:"configs"`
	Live    []string      `json:"live"`
	Kps     map[string]Kp `json:"kps"`
	Err     string        `json:"err"`
	Panic   string        `json:"panic"`
	Others  []int         `json:"others"` // non-governance outbox rows at pre/s1/s2/s3 (not modelled)
	Restart bool          `json:"restart"`
	Hist    []int         `json:"hist"`
}

// Op is one alphabet entry of KeyperGovMC.
type Op struct {
	Op     string `json:"op"`
	A      string `json:"a"`
	Budget int    `json:"budget"`
	Crash  bool   `json:"crash"`
	Set    Cfg    `json:"set"`
}

// Consts is what KeyperGovMC prints with the CONST tag.
type Consts struct {
	Addrs   []string       `json:"addrs"`
	KeyOrd  []string       `json:"keyord"`
	Genesis sm.GenesisSpec `json:"genesis"`
	Delta   uint64         `json:"delta"`
	Lag     int64          `json:"lag"`
	MaxMC   uint64         `json:"maxmc"`
	Runners []string       `json:"runners"`
}

func normCfg(c Cfg) Cfg {
	if c.Keypers == nil {
		c.Keypers = []string{}
	}
	return c
}

func normKp(k Kp) Kp {
	if k.Bcs == nil {
		k.Bcs = []Cfg{}
	}
	if k.Sets == nil {
		k.Sets = []Cfg{}
	}
	if k.Outbox == nil {
		k.Outbox = []Msg{}
	}
	for i := range k.Bcs {
		k.Bcs[i] = normCfg(k.Bcs[i])
	}
	for i := range k.Sets {
		k.Sets[i] = normCfg(k.Sets[i])
	}
	for i := range k.Outbox {
		k.Outbox[i].Cfg = normCfg(k.Outbox[i].Cfg)
	}
	return k
}

// KpInit mirrors KeyperGov!KpInit.
func KpInit() Kp { return normKp(Kp{LastSeen: -1}) }

// ---------------------------------------------------------------------------------------------
// fake Tendermint node

type blockRec struct {
	Height  int64
	Begin   []abcitypes.Event
	Txs     [][]byte
	Results []*abcitypes.ResponseDeliverTx
	End     []abcitypes.Event
	okTxs   int
}

var errTimeout = errors.New("timed out waiting for tx to be included in a block")
var errConnLost = errors.New("faketm: connection lost")

// tmClient is the Tendermint RPC client of ONE keyper process. Only the methods the keyper code
// calls are implemented; any other call panics inside the embedded nil interface and is reported.
type tmClient struct {
	client.Client
	w       *World
	tok     string
	budget  int  // governance messages that still get into the open block
	crash   bool // the reply to the next accepted governance broadcast is lost, the process dies
	dead    bool
	answers []Ans
}

func (cl *tmClient) Block(_ context.Context, height *int64) (*coretypes.ResultBlock, error) {
	if cl.dead {
		return nil, errConnLost
	}
	if height != nil {
		return nil, fmt.Errorf("faketm: Block(height) not implemented")
	}
	cl.w.mu.Lock()
	defer cl.w.mu.Unlock()
	n := int64(len(cl.w.blocks))
	if n == 0 {
		return &coretypes.ResultBlock{Block: nil}, nil
	}
	last := n + 1 - cl.w.C.Lag
	return &coretypes.ResultBlock{Block: &tmtypes.Block{
		Header:     tmtypes.Header{ChainID: sm.ChainID, Height: last + 1},
		LastCommit: &tmtypes.Commit{Height: last},
	}}, nil
}

func (cl *tmClient) BlockResults(_ context.Context, height *int64) (*coretypes.ResultBlockResults, error) {
	if cl.dead {
		return nil, errConnLost
	}
	if height == nil {
		return nil, fmt.Errorf("faketm: BlockResults(nil) not implemented")
	}
	cl.w.mu.Lock()
	defer cl.w.mu.Unlock()
	n := int64(len(cl.w.blocks))
	if *height < 1 || *height > n {
		return nil, fmt.Errorf("faketm: height %d must be less than or equal to the current blockchain height %d", *height, n)
	}
	b := cl.w.blocks[*height-1]
	return &coretypes.ResultBlockResults{Height: b.Height, TxsResults: b.Results, BeginBlockEvents: b.Begin, EndBlockEvents: b.End}, nil
}

func (cl *tmClient) BlockchainInfo(_ context.Context, _, _ int64) (*coretypes.ResultBlockchainInfo, error) {
	if cl.dead {
		return nil, errConnLost
	}
	cl.w.mu.Lock()
	defer cl.w.mu.Unlock()
	n := int64(len(cl.w.blocks))
	return &coretypes.ResultBlockchainInfo{LastHeight: n,
		BlockMetas: []*tmtypes.BlockMeta{{Header: tmtypes.Header{ChainID: sm.ChainID, Height: n}}}}, nil
}

func (cl *tmClient) BroadcastTxCommit(_ context.Context, tx tmtypes.Tx) (*coretypes.ResultBroadcastTxCommit, error) {
	if cl.dead {
		return nil, errConnLost
	}
	w := cl.w
	w.mu.Lock()
	defer w.mu.Unlock()
	atx, gm, isGov := w.absTx(tx)
	if isGov && cl.budget <= 0 {
		cl.answers = append(cl.answers, Ans{M: gm, Res: "timeout"})
		return nil, errTimeout
	}
	chk, res, h, delivered := w.submit(tx, atx)
	if !delivered {
		if isGov {
			cl.answers = append(cl.answers, Ans{M: gm, Res: "chk"})
		}
		return &coretypes.ResultBroadcastTxCommit{CheckTx: chk}, nil
	}
	if isGov {
		cl.budget--
		a := Ans{M: gm}
		switch res.Code {
		case 0:
			a.Res = "ok"
		case 2:
			a.Res = "seen"
		default:
			a.Res = "err"
			if gm.K == "vote" {
				a.Why = whyOf(res.Log)
			}
		}
		if cl.crash {
			a.Res, a.Why = "lost", ""
			cl.answers = append(cl.answers, a)
			cl.dead = true
			return nil, errConnLost
		}
		cl.answers = append(cl.answers, a)
	}
	return &coretypes.ResultBroadcastTxCommit{CheckTx: chk, DeliverTx: res, Height: h}, nil
}

// whyOf maps the log text of deliverBatchConfig's error answers to the classes of KeyperGov!VoteWhy.
func whyOf(log string) string {
	switch {
	case strings.Contains(log, "Malformed BatchConfig"):
		return "malformed"
	case strings.Contains(log, "no keypers in batch config"), strings.Contains(log, "threshold must not be zero"), strings.Contains(log, "threshold too high"):
		return "invalid"
	case strings.Contains(log, "activation block number of next config"):
		return "act"
	case strings.Contains(log, "config index of next config"):
		return "idx"
	case strings.Contains(log, "not allowed to vote"):
		return "notallowed"
	case strings.Contains(log, "Error adding vote"):
		return "voted"
	}
	return "other:" + log
}

// ---------------------------------------------------------------------------------------------
// keypers

// Node is one keyper: configuration and database survive a restart, everything else is re-created.
type Node struct {
	Tok    string
	priv   *ecdsa.PrivateKey
	cfg    *kprconfig.Config
	pg     *fakepg.Server
	pool   *pgxpool.Pool
	core   *keyper.VerifGovCore
	cl     *tmClient
	Starts int
}

func (w *World) startNode(n *Node) error {
	if n.pool != nil {
		n.pool.Close()
	}
	ctx, cancel := context.WithTimeout(context.Background(), 30*time.Second)
	defer cancel()
	pool, err := n.pg.Pool(ctx, fakepg.MaxConns(2))
	if err != nil {
		return err
	}
	n.pool = pool
	n.cl = &tmClient{w: w, tok: n.Tok}
	n.core = keyper.VerifNewGovCore(n.cfg, pool, n.cl)
	n.Starts++
	return nil
}

var (
	tmplOnce sync.Once
	tmplDB   *fakepg.DB
	tmplErr  error
)

// template returns a keyper database right after the repository's own InitDB.
func template() (*fakepg.DB, error) {
	tmplOnce.Do(func() {
		ctx, cancel := context.WithTimeout(context.Background(), 60*time.Second)
		defer cancel()
		s := fakepg.New()
		defer s.Close()
		pool, err := s.Pool(ctx)
		if err != nil {
			tmplErr = err
			return
		}
		defer pool.Close()
		if err := metadb.InitDB(ctx, pool, "keyper-verif", kprdb.Definition); err != nil {
			tmplErr = err
			return
		}
		if pm := s.PinMismatches(); len(pm) > 0 {
			tmplErr = fmt.Errorf("fakepg pin mismatches: %v", pm)
			return
		}
		tmplDB = s.Snapshot()
	})
	return tmplDB, tmplErr
}

// ---------------------------------------------------------------------------------------------
// world

// World is one run.
type World struct {
	mu       sync.Mutex
	C        Consts
	U        *sm.Universe
	Seed     int64
	Run      int
	App      *app.ShutterApp
	blocks   []*blockRec
	open     *blockRec
	Nodes    map[string]*Node
	MC       uint64
	GSets    []Cfg
	acc      []Acc
	Lines    []Line
	appBuf   bytes.Buffer
	appTW    *sm.TraceWriter
	depth    int
	nonceOrd map[string]map[uint64]uint64
	Restart  bool // re-create every keyper process before each of its iterations
	Panics   []string
	Calls    int
	PinBad   []string
}

func valKeyBytes(keyord []string, tok string) []byte {
	nonePos := -1
	for i, k := range keyord {
		if k == sm.NoVal {
			nonePos = i
		}
	}
	for i, k := range keyord {
		if k != tok {
			continue
		}
		h := sha256.Sum256([]byte("verif-val-" + k))
		b := h[:]
		if i < nonePos {
			b[0] = byte(1 + i)
		} else {
			b[0] = byte(0x70 + i)
		}
		return b
	}
	return nil
}

// NewWorld builds the application (InitChain, BeginBlock(1)) and one keyper per runner.
func NewWorld(c Consts, seed int64, run int, appTrace bool) (*World, error) {
	tmpl, err := template()
	if err != nil {
		return nil, err
	}
	w := &World{C: c, Seed: seed, Run: run, Nodes: map[string]*Node{}, nonceOrd: map[string]map[uint64]uint64{}}
	w.U = sm.NewUniverse(sm.Consts{Addrs: append([]string{}, c.Addrs...), KeyOrd: c.KeyOrd, Genesis: c.Genesis}, seed)
	w.appTW = sm.NewTraceWriter(&w.appBuf)
	w.App = app.NewShutterApp()
	w.App.InitChain(w.U.InitChainRequest())
	bb := w.App.BeginBlock(abcitypes.RequestBeginBlock{Header: tmproto.Header{Height: 1, ChainID: sm.ChainID}})
	w.open = &blockRec{Height: 1, Begin: bb.Events}
	w.appTW.Write(sm.Line{K: "new", D: 0, Obs: []sm.Obs{{Events: []sm.J{}, Updates: []sm.J{}, Begin: w.U.AbsEvents(bb.Events, 1), St: w.absApp()}}})
	for _, tok := range c.Runners {
		// keys are derived exactly as sm.NewUniverse derives them
		h := sha256.Sum256([]byte("verif-addr-" + tok))
		k, err := crypto.ToECDSA(h[:])
		if err != nil {
			return nil, err
		}
		if crypto.PubkeyToAddress(k.PublicKey) != w.U.Addr(tok) {
			return nil, fmt.Errorf("key derivation differs from harness/sm")
		}
		vtok := "v" + strings.TrimPrefix(tok, "a")
		vb := valKeyBytes(c.KeyOrd, vtok)
		if vb == nil || w.U.ValTok(string(vb)) != vtok {
			return nil, fmt.Errorf("validator key derivation differs from harness/sm (%s)", vtok)
		}
		n := &Node{Tok: tok, priv: k, pg: fakepg.New(), cfg: &kprconfig.Config{
			Shuttermint: &kprconfig.ShuttermintConfig{
				ValidatorPublicKey: &keys.Ed25519Public{Key: ed25519.PublicKey(vb)},
				// sm's projection of CheckIn events expects the signing key as encryption key
				EncryptionKey:      &keys.ECDSAPrivate{Key: k},
				DKGPhaseLength:     dkgPhaseLength,
				DKGStartBlockDelta: c.Delta,
			},
			Ethereum: &configuration.EthnodeConfig{PrivateKey: &keys.ECDSAPrivate{Key: k}},
		}}
		n.pg.Restore(tmpl)
		n.pg.SetLogging(false)
		if err := w.startNode(n); err != nil {
			return nil, err
		}
		w.Nodes[tok] = n
	}
	w.emit(Line{K: "new"})
	return w, nil
}

func (w *World) Close() {
	for _, n := range w.Nodes {
		if n.pool != nil {
			n.pool.Close()
		}
		if pm := n.pg.PinMismatches(); len(pm) > 0 {
			w.PinBad = append(w.PinBad, pm...)
		}
		n.pg.Close()
	}
}

// AppTrace returns the application side of the run in the trace format of harness/sm.
func (w *World) AppTrace() []byte {
	w.appTW.Flush()
	return w.appBuf.Bytes()
}

func (w *World) emit(l Line) {
	l.Run = w.Run
	l.Set = normCfg(l.Set)
	if l.K != "iter" {
		l.Pre, l.S1, l.S2, l.S3 = KpInit(), KpInit(), KpInit(), KpInit()
	}
	l.Pre, l.S1, l.S2, l.S3 = normKp(l.Pre), normKp(l.S1), normKp(l.S2), normKp(l.S3)
	if l.Sent == nil {
		l.Sent = []Ans{}
	}
	for i := range l.Sent {
		l.Sent[i].M.Cfg = normCfg(l.Sent[i].M.Cfg)
	}
	if l.Acc == nil {
		l.Acc = []Acc{}
	}
	for i := range l.Acc {
		l.Acc[i].Cfg = normCfg(l.Acc[i].Cfg)
	}
	if l.GSets == nil {
		l.GSets = []Cfg{}
	}
	for i := range l.GSets {
		l.GSets[i] = normCfg(l.GSets[i])
	}
	if l.Evs == nil {
		l.Evs = []Cfg{}
	}
	if l.Started == nil {
		l.Started = []uint64{}
	}
	if l.Configs == nil {
		l.Configs = []FlagCfg{}
	}
	if l.Live == nil {
		l.Live = []string{}
	}
	if l.Kps == nil {
		l.Kps = map[string]Kp{}
		for _, a := range w.C.Addrs {
			l.Kps[a] = KpInit()
		}
	}
	for a, k := range l.Kps {
		l.Kps[a] = normKp(k)
	}
	if l.Others == nil {
		l.Others = []int{}
	}
	if l.Hist == nil {
		l.Hist = []int{}
	}
	w.Lines = append(w.Lines, l)
}

// guard runs f (repository code) under recover and a watchdog.
func (w *World) guard(what string, f func(ctx context.Context) error) (err error, pan string) {
	w.Calls++
	done := make(chan struct{})
	var perr error
	ctx, cancel := context.WithTimeout(context.Background(), 50*time.Second)
	defer cancel()
	go func() {
		defer close(done)
		defer func() {
			if p := recover(); p != nil {
				pan = fmt.Sprintf("panic in %s: %v", what, p)
			}
		}()
		perr = f(ctx)
	}()
	select {
	case <-done:
	case <-time.After(60 * time.Second):
		pan = "hang (>60s) in " + what
	}
	if pan != "" {
		w.Panics = append(w.Panics, pan)
		return nil, pan
	}
	return perr, ""
}

// ---------------------------------------------------------------------------------------------
// application side: abstraction in the vocabulary of harness/sm

func (w *World) ord(tok string, nonce uint64) uint64 {
	m := w.nonceOrd[tok]
	if m == nil {
		m = map[uint64]uint64{}
		w.nonceOrd[tok] = m
	}
	if o, ok := m[nonce]; ok {
		return o
	}
	o := uint64(len(m))
	m[nonce] = o
	return o
}

// absApp is sm's projection with the random 64-bit nonces of the real RPCMessageSender replaced
// by their ordinal per sender (TLC integers are 32 bit; only equality of nonces matters).
func (w *World) absApp() sm.J {
	st := w.U.Abs(w.App)
	ren := func(m map[common.Address]map[uint64]bool) sm.J {
		out := sm.J{}
		for _, a := range w.C.Addrs {
			out[a] = []uint64{}
		}
		for addr, ns := range m {
			tok := w.U.Tok(addr)
			l := []uint64{}
			for n, used := range ns {
				if used {
					l = append(l, w.ord(tok, n))
				}
			}
			sort.Slice(l, func(i, j int) bool { return l[i] < l[j] })
			out[tok] = l
		}
		return out
	}
	st["nonces"] = ren(w.App.NonceTracker.RandomNonces)
	if w.App.CheckTxState != nil && w.App.CheckTxState.NonceTracker != nil {
		st["ctNonces"] = ren(w.App.CheckTxState.NonceTracker.RandomNonces)
	}
	return st
}

func (w *World) toks(bs [][]byte) ([]string, string) {
	out := []string{}
	bad := ""
	seen := map[string]bool{}
	for _, b := range bs {
		if len(b) != common.AddressLength {
			bad = "badAddrLen"
			out = append(out, fmt.Sprintf("?len%d", len(b)))
			continue
		}
		t := w.U.Tok(common.BytesToAddress(b))
		if seen[t] && bad == "" {
			bad = "dupAddr"
		}
		seen[t] = true
		out = append(out, t)
	}
	return out, bad
}

// absTx decodes a broadcast transaction (bytes produced by the real RPCMessageSender) into the
// abstract transaction of Shuttermint.tla and, for governance messages, the outbox message.
func (w *World) absTx(tx []byte) (sm.Tx, Msg, bool) {
	at := sm.Tx{K: "garbage", S: sm.NoAddr, To: []string{}, Key: sm.NoKey}
	at.Cfg.Keypers = []string{}
	signed, err := base64.RawURLEncoding.DecodeString(string(tx))
	if err != nil {
		return at, Msg{}, false
	}
	signer, err := shmsg.GetSigner(signed)
	if err != nil {
		return at, Msg{}, false
	}
	mw, err := shmsg.GetMessage(signed)
	if err != nil {
		return at, Msg{}, false
	}
	at.S = w.U.Tok(signer)
	at.N = w.ord(at.S, mw.RandomNonce)
	if string(mw.ChainId) != sm.ChainID {
		at.K = "wrongchain"
		return at, Msg{}, false
	}
	m := mw.Msg
	switch {
	case m.GetBatchConfig() != nil:
		bc := m.GetBatchConfig()
		ks, bad := w.toks(bc.Keypers)
		at.K, at.Bad = "vote", bad
		at.Cfg = Cfg{Keypers: ks, Thr: bc.Threshold, Act: bc.ActivationBlockNumber, Idx: bc.KeyperConfigIndex}
		gm := Msg{K: "vote", Cfg: at.Cfg}
		if bad == "dupAddr" {
			// sm's dupAddr variant = the config without the repeated entries
			ded, seen := []string{}, map[string]bool{}
			for _, k := range ks {
				if !seen[k] {
					ded = append(ded, k)
				}
				seen[k] = true
			}
			at.Cfg.Keypers = ded
		}
		return at, gm, true
	case m.GetBlockSeen() != nil:
		at.K, at.B = "seen", m.GetBlockSeen().BlockNumber
		return at, Msg{K: "seen", Cfg: normCfg(Cfg{}), B: at.B}, true
	case m.GetCheckIn() != nil:
		at.K, at.Key = "checkin", w.U.ValTok(string(m.GetCheckIn().ValidatorPublicKey))
	case m.GetDkgResult() != nil:
		at.K, at.Eon, at.Ok = "dkgres", m.GetDkgResult().Eon, m.GetDkgResult().Success
	case m.GetPolyCommitment() != nil:
		at.K, at.Eon, at.Gm = "commit", m.GetPolyCommitment().Eon, len(m.GetPolyCommitment().Gammas)
	case m.GetPolyEval() != nil:
		at.K, at.Eon = "eval", m.GetPolyEval().Eon
		at.To, at.Bad = w.toks(m.GetPolyEval().Receivers)
	case m.GetAccusation() != nil:
		at.K, at.Eon = "acc", m.GetAccusation().Eon
		at.To, at.Bad = w.toks(m.GetAccusation().Accused)
	case m.GetApology() != nil:
		at.K, at.Eon = "apol", m.GetApology().Eon
		at.To, at.Bad = w.toks(m.GetApology().Accusers)
	default:
		at.K = "nopayload"
	}
	return at, Msg{}, false
}

// submit = what a node does with a broadcast transaction: CheckTx, then DeliverTx into the open
// block. Both calls are logged for ShuttermintTrace. Caller holds w.mu.
func (w *World) submit(tx []byte, at sm.Tx) (abcitypes.ResponseCheckTx, abcitypes.ResponseDeliverTx, int64, bool) {
	h := w.open.Height
	chk := w.App.CheckTx(abcitypes.RequestCheckTx{Tx: tx})
	w.depth++
	w.appTW.Write(sm.Line{K: "chk", D: w.depth, Tx: at, Obs: []sm.Obs{{Code: chk.Code, Events: []sm.J{}, Updates: []sm.J{}, Begin: []sm.J{}, St: w.absApp()}}})
	if chk.Code != 0 {
		return chk, abcitypes.ResponseDeliverTx{}, 0, false
	}
	res := w.App.DeliverTx(abcitypes.RequestDeliverTx{Tx: tx})
	w.depth++
	w.appTW.Write(sm.Line{K: "tx", D: w.depth, Tx: at, Obs: []sm.Obs{{Code: res.Code, Events: w.U.AbsEvents(res.Events, h), Updates: []sm.J{}, Begin: []sm.J{}, St: w.absApp()}}})
	w.open.Txs = append(w.open.Txs, tx)
	w.open.Results = append(w.open.Results, &res)
	if res.Code == 0 {
		w.open.okTxs++
	}
	return chk, res, h, true
}

func (w *World) cfgOfEvent(e *shutterevents.BatchConfig) Cfg {
	ks := []string{}
	for _, k := range e.Keypers {
		ks = append(ks, w.U.Tok(k))
	}
	return Cfg{Keypers: ks, Thr: e.Threshold, Act: e.ActivationBlockNumber, Idx: e.KeyperConfigIndex}
}

// closeBlock: EndBlock, Commit, BeginBlock of the next block.
func (w *World) closeBlock() {
	w.mu.Lock()
	defer w.mu.Unlock()
	b := w.open
	eb := w.App.EndBlock(abcitypes.RequestEndBlock{Height: b.Height})
	b.End = eb.Events
	w.App.Commit()
	bb := w.App.BeginBlock(abcitypes.RequestBeginBlock{Header: tmproto.Header{Height: b.Height + 1, ChainID: sm.ChainID}})
	w.depth++
	w.appTW.Write(sm.Line{K: "end", D: w.depth, Tx: sm.Tx{K: "none", S: sm.NoAddr, Key: sm.NoKey}, Obs: []sm.Obs{{Events: w.U.AbsEvents(eb.Events, b.Height),
		Updates: w.U.AbsUpdates(eb.ValidatorUpdates), Begin: w.U.AbsEvents(bb.Events, b.Height+1), St: w.absApp()}}})
	w.blocks = append(w.blocks, b)
	w.open = &blockRec{Height: b.Height + 1, Begin: bb.Events}
	// ground truth for the monitors: what the block results of the closed block say
	ln := Line{K: "end", H: b.Height}
	all := append([]abcitypes.Event{}, b.Begin...)
	for _, r := range b.Results {
		all = append(all, r.Events...)
	}
	all = append(all, b.End...)
	for _, e := range all {
		dec, err := shutterevents.MakeEvent(e, b.Height)
		if err != nil {
			continue
		}
		switch x := dec.(type) {
		case *shutterevents.BatchConfig:
			c := w.cfgOfEvent(x)
			w.acc = append(w.acc, Acc{Cfg: c, H: b.Height})
			ln.Evs = append(ln.Evs, c)
		case *shutterevents.BatchConfigStarted:
			ln.Started = append(ln.Started, x.KeyperConfigIndex)
		}
	}
	w.emit(ln)
}

// ---------------------------------------------------------------------------------------------
// keyper side: projection

func (w *World) addrToks(enc []string) []string {
	out := []string{}
	for _, s := range enc {
		a, err := shdb.DecodeAddress(s)
		if err != nil {
			out = append(out, "?undecodable")
			continue
		}
		out = append(out, w.U.Tok(a))
	}
	return out
}

// proj projects the keyper database onto the record of KeyperGov.tla; the second result is the
// number of outbox rows that are not governance messages (check-in, DKG).
func (w *World) proj(n *Node) (Kp, int) {
	var snap *fakepg.DB
	n.pg.View(func(db *fakepg.DB) { snap = db.Clone() })
	k := KpInit()
	k.LastSeen = -99
	k.Marker = -99
	for _, r := range snap.TendermintSyncMeta {
		if r.CurrentBlock > k.Synced {
			k.Synced = r.CurrentBlock
		}
	}
	for _, r := range snap.LastBatchConfigSent {
		k.Marker = r.KeyperConfigIndex
	}
	for _, r := range snap.LastBlockSeen {
		k.LastSeen = r.BlockNumber
	}
	bcs := append([]kprdb.TendermintBatchConfig{}, snap.TendermintBatchConfig...)
	sort.Slice(bcs, func(i, j int) bool { return bcs[i].KeyperConfigIndex < bcs[j].KeyperConfigIndex })
	for _, r := range bcs {
		k.Bcs = append(k.Bcs, Cfg{Keypers: w.addrToks(r.Keypers), Thr: uint64(r.Threshold), Act: uint64(r.ActivationBlockNumber), Idx: uint64(r.KeyperConfigIndex)})
	}
	sets := append([]obskeyper.KeyperSet{}, snap.KeyperSet...)
	sort.Slice(sets, func(i, j int) bool { return sets[i].KeyperConfigIndex < sets[j].KeyperConfigIndex })
	for _, r := range sets {
		k.Sets = append(k.Sets, Cfg{Keypers: w.addrToks(r.Keypers), Thr: uint64(r.Threshold), Act: uint64(r.ActivationBlockNumber), Idx: uint64(r.KeyperConfigIndex)})
	}
	rows := append([]kprdb.TendermintOutgoingMessage{}, snap.TendermintOutgoingMessages...)
	sort.Slice(rows, func(i, j int) bool { return rows[i].ID < rows[j].ID })
	others := 0
	for _, r := range rows {
		m := &shmsg.Message{}
		if err := proto.Unmarshal(r.Msg, m); err != nil {
			k.Outbox = append(k.Outbox, Msg{K: "?undecodable", Cfg: normCfg(Cfg{})})
			continue
		}
		switch {
		case m.GetBatchConfig() != nil:
			bc := m.GetBatchConfig()
			ks, _ := w.toks(bc.Keypers)
			k.Outbox = append(k.Outbox, Msg{K: "vote", Cfg: Cfg{Keypers: ks, Thr: bc.Threshold, Act: bc.ActivationBlockNumber, Idx: bc.KeyperConfigIndex}})
		case m.GetBlockSeen() != nil:
			k.Outbox = append(k.Outbox, Msg{K: "seen", Cfg: normCfg(Cfg{}), B: m.GetBlockSeen().BlockNumber})
		default:
			others++
		}
	}
	return normKp(k), others
}

// observe writes the keyper_set rows the chain observer would have written by now, with the
// chain observer's own query.
func (w *World) observe(n *Node) error {
	ctx, cancel := context.WithTimeout(context.Background(), 30*time.Second)
	defer cancel()
	q := obskeyper.New(n.pool)
	for _, s := range w.GSets {
		addrs := []common.Address{}
		for _, t := range s.Keypers {
			addrs = append(addrs, w.U.Addr(t))
		}
		err := q.InsertKeyperSet(ctx, obskeyper.InsertKeyperSetParams{KeyperConfigIndex: int64(s.Idx), ActivationBlockNumber: int64(s.Act),
			Keypers: shdb.EncodeAddresses(addrs), Threshold: int32(s.Thr)})
		if err != nil {
			return err
		}
	}
	return nil
}

// ---------------------------------------------------------------------------------------------
// ops

func (w *World) height() int64 {
	w.mu.Lock()
	defer w.mu.Unlock()
	return int64(len(w.blocks))
}

// Iterate runs one iteration of the operateShuttermint loop body of keyper o.A.
func (w *World) Iterate(o Op, hist []int) {
	n := w.Nodes[o.A]
	ln := Line{K: "iter", A: o.A, B: w.MC, Budget: o.Budget, Crash: o.Crash, GSets: append([]Cfg{}, w.GSets...), H: w.height(), Hist: hist}
	w.mu.Lock()
	ln.Acc = append([]Acc{}, w.acc...)
	w.mu.Unlock()
	if w.Restart || n.cl.dead {
		ln.Restart = true
		if err := w.startNode(n); err != nil {
			ln.Err = "restart: " + err.Error()
		}
	}
	var errs []string
	note := func(what string, err error, pan string) {
		if pan != "" {
			ln.Panic = pan
		}
		if err != nil {
			errs = append(errs, what+": "+err.Error())
		}
	}
	oth := make([]int, 4)
	ln.Pre, oth[0] = w.proj(n)
	if err := w.observe(n); err != nil {
		errs = append(errs, "observe: "+err.Error())
	}
	err, pan := w.guard("SyncAppWithDB("+o.A+")", func(ctx context.Context) error { return n.core.SyncApp(ctx) })
	note("sync", err, pan)
	ln.S1, oth[1] = w.proj(n)
	if pan == "" {
		err, pan = w.guard("handleOnChainChanges("+o.A+")", func(ctx context.Context) error { return n.core.HandleOnChainChanges(ctx, w.MC) })
		note("handle", err, pan)
	}
	ln.S2, oth[2] = w.proj(n)
	n.cl.budget, n.cl.crash, n.cl.answers = o.Budget, o.Crash, nil
	if pan == "" {
		err, pan = w.guard("SendShutterMessages("+o.A+")", func(ctx context.Context) error { return n.core.SendShutterMessages(ctx) })
		note("send", err, pan)
	}
	n.cl.budget, n.cl.crash = 0, false
	ln.S3, oth[3] = w.proj(n)
	ln.Sent = append([]Ans{}, n.cl.answers...)
	ln.Others = oth
	ln.Err = strings.Join(errs, "; ")
	w.emit(ln)
}

// Apply executes one op of the alphabet; ops that are not enabled (as in the model) are skipped.
func (w *World) Apply(o Op, hist []int) bool {
	switch o.Op {
	case "adv":
		if w.MC >= w.C.MaxMC {
			return false
		}
		w.MC++
		w.emit(Line{K: "adv", B: w.MC, Hist: hist})
	case "set":
		for _, s := range w.GSets {
			if s.Idx == o.Set.Idx {
				return false
			}
		}
		w.GSets = append(w.GSets, normCfg(o.Set))
		w.emit(Line{K: "set", Set: o.Set, Hist: hist})
	case "iter":
		w.Iterate(o, hist)
	case "end":
		if w.C.Lag == 0 && w.open.okTxs == 0 && len(w.blocks) > 0 {
			return false
		}
		w.closeBlock()
		w.Lines[len(w.Lines)-1].Hist = hist
	default:
		panic("unknown op " + o.Op)
	}
	return true
}

func (w *World) flagConfigs() []FlagCfg {
	out := []FlagCfg{}
	for _, c := range w.App.Configs {
		ks := []string{}
		for _, k := range c.Keypers {
			ks = append(ks, w.U.Tok(k))
		}
		out = append(out, FlagCfg{Keypers: ks, Thr: c.Threshold, Act: c.ActivationBlockNumber, Idx: c.KeyperConfigIndex, Started: c.Started, ValUpd: c.ValidatorsUpdated})
	}
	return out
}

func (w *World) kpsNow() (map[string]Kp, string) {
	kps := map[string]Kp{}
	for _, a := range w.C.Addrs {
		kps[a] = KpInit()
	}
	var sig strings.Builder
	for _, a := range w.C.Runners {
		k, _ := w.proj(w.Nodes[a])
		kps[a] = k
		k.Synced = 0 // with a lag every round closes a block; that alone is not progress
		sig.WriteString(sm.Canon(k))
	}
	sig.WriteString(sm.Canon(w.flagConfigs()))
	return kps, sig.String()
}

// Finish continues the run with a fair schedule (main chain to its end, every keyper iterates with
// an unlimited budget, blocks are closed) until a whole round changes nothing, and records the
// fin line the G4 monitors are evaluated on.
func (w *World) Finish(hist []int) {
	_, prev := w.kpsNow()
	quiet := 0
	for round := 0; round < 40 && quiet < 2+int(w.C.Lag); round++ {
		if w.MC < w.C.MaxMC {
			w.Apply(Op{Op: "adv"}, hist)
		}
		for _, a := range w.C.Runners {
			w.Apply(Op{Op: "iter", A: a, Budget: BudgetAll}, hist)
		}
		w.Apply(Op{Op: "end"}, hist)
		_, now := w.kpsNow()
		if now == prev && w.MC >= w.C.MaxMC {
			quiet++
		} else {
			quiet = 0
		}
		prev = now
	}
	kps, _ := w.kpsNow()
	w.emit(Line{K: "fin", MC: w.MC, GSets: append([]Cfg{}, w.GSets...), Configs: w.flagConfigs(), Live: append([]string{}, w.C.Runners...), Kps: kps, Hist: hist})
}
