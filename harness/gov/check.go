package gov

import (
	"bytes"
	"encoding/json"
	"fmt"
	"math/rand"
	"os"
	"sort"
	"strings"
	"sync"
	"time"

	"verif/harness/core"
	"verif/harness/ev"
	"verif/harness/sm"
	"verif/harness/tlc"
)

// Plan is one bounded instance of the composed model.
type Plan struct {
	Name     string          `json:"name"`
	Runners  []string        `json:"runners"`
	Sets     []Cfg           `json:"sets"`
	Budgets  []int           `json:"budgets"`
	Crashes  bool            `json:"crashes"`
	MaxMC    int             `json:"maxMC"`
	MaxSets  int             `json:"maxSets"`
	MaxH     int             `json:"maxH"`
	Delta    int             `json:"delta"`
	Lag      int             `json:"lag"`
	Live     []string        `json:"live"`
	LastView bool            `json:"lastView"` // one history per (state, last op) instead of one per state
	MaxBeh   int             `json:"maxBeh"`
	Liveness bool            `json:"liveness"` // check G4 on SpecLive (finite without constraint)
	LiveSets []Cfg           `json:"liveSets"` // keyper-set candidates of the liveness run (default: Sets)
	Sharp    bool            `json:"sharp"`    // also check G4_LiveStartSharp (no environment assumption, mute keypers excused)
	Witness  map[string][]Op `json:"witness"`  // fixed histories that are always replayed (observation name -> ops)
	SimNum   int             `json:"simNum"`   // random walks instead of the exhaustive search
	SimDepth int             `json:"simDepth"`
}

func strSet(xs []string) string {
	q := []string{}
	for _, x := range xs {
		q = append(q, fmt.Sprintf("%q", x))
	}
	return "{" + strings.Join(q, ", ") + "}"
}

func strSeq(xs []string) string {
	q := []string{}
	for _, x := range xs {
		q = append(q, fmt.Sprintf("%q", x))
	}
	return "<<" + strings.Join(q, ", ") + ">>"
}

func cfgTLA(c Cfg) string {
	return fmt.Sprintf("[keypers |-> %s, thr |-> %d, act |-> %d, idx |-> %d]", strSeq(c.Keypers), c.Thr, c.Act, c.Idx)
}

func (p Plan) module(base string) (string, []byte) {
	mod := base + "gen_gov_" + strings.ReplaceAll(p.Name, "-", "_")
	sets := []string{}
	for _, s := range p.Sets {
		sets = append(sets, cfgTLA(s))
	}
	buds := []string{}
	for _, b := range p.Budgets {
		buds = append(buds, fmt.Sprint(b))
	}
	ext := "KeyperGovMC"
	if base == "TR" {
		ext = "KeyperGovTrace"
	}
	body := fmt.Sprintf("---- MODULE %s ----\nEXTENDS %s, SMConst_gov\ncRunners == %s\ncSetCands == <<%s>>\ncBudgets == {%s}\ncLive == %s\n====\n",
		mod, ext, strSet(p.Runners), strings.Join(sets, ", "), strings.Join(buds, ", "), strSet(p.Live))
	return mod, []byte(body)
}

func boolTLA(b bool) string {
	if b {
		return "TRUE"
	}
	return "FALSE"
}

func (p Plan) constText() string {
	return fmt.Sprintf("CONSTANTS\n  Addrs <- cAddrs\n  KeyOrd <- cKeyOrd\n  Genesis <- cGenesis\n  TallyMode = \"closed\"\n  Delta = %d\n  Lag = %d\n", p.Delta, p.Lag)
}

func (p Plan) mcCfg(emit bool, live bool) string {
	s := p.constText() + fmt.Sprintf("  Runners <- cRunners\n  SetCands <- cSetCands\n  Budgets <- cBudgets\n  Crashes = %s\n  MaxMC = %d\n  MaxSets = %d\n  MaxH = %d\n  Live <- cLive\n  Emit = %s\n",
		boolTLA(p.Crashes), p.MaxMC, p.MaxSets, p.MaxH, boolTLA(emit))
	if live {
		s += "SPECIFICATION SpecLive\nPROPERTY G4_LiveAccept\nPROPERTY G4_LiveStart\n"
		if p.Sharp {
			s += "PROPERTY G4_LiveStartSharp\n"
		}
		return s + "CHECK_DEADLOCK FALSE\n"
	}
	view := "ViewS"
	if p.LastView {
		view = "View"
	}
	return s + "SPECIFICATION Spec\nPROPERTY StepProps\nINVARIANT G5_Model\nINVARIANT EmitInv\nINVARIANT EmitKnown\nVIEW " + view + "\nCHECK_DEADLOCK FALSE\n"
}

// Gen is what TLC produced for one plan.
type Gen struct {
	Plan         Plan
	Consts       Consts
	Alphabet     []Op
	Behaviours   [][]int
	KnownHists   [][]int // histories on which an observation (GObs) shows at the spec level
	States       int
	Distinct     int
	Depth        int
	Wall         float64
	SpecViol     string
	SpecCex      []int
	LiveStates   int
	LiveWall     float64
	LiveViol     string
	ForceRestart *bool // replay mode: restart mode of the recorded run
}

func parseHists(raw []string) ([][]int, error) {
	seen := map[string]bool{}
	var out [][]int
	for _, s := range raw {
		if seen[s] {
			continue
		}
		seen[s] = true
		b, err := tlc.ParseIntTuple(s)
		if err != nil {
			return nil, err
		}
		if len(b) > 0 {
			out = append(out, b)
		}
	}
	return out, nil
}

// Generate model-checks the plan (G1 G2 G3 as action properties, G5 as invariant, G4 as temporal
// properties under fairness) and collects the printed behaviours.
func Generate(c *core.Ctx, p Plan, workers int) (*Gen, error) {
	mod, body := p.module("MC")
	if workers > 8 {
		workers = 8
	}
	if workers < 1 {
		workers = 1
	}
	// the liveness run (SpecLive, frozen bookkeeping) does not depend on the safety run
	type liveRes struct {
		res *tlc.Result
		err error
	}
	liveCh := make(chan liveRes, 1)
	if p.Liveness {
		go func() {
			lp := p
			if len(p.LiveSets) > 0 {
				lp.Sets = p.LiveSets
			}
			lmod, lbody := lp.module("ML")
			lres, err := tlc.Run(tlc.Opts{Module: lmod, CfgText: lp.mcCfg(false, true), Workers: max(2, workers/2), Timeout: 30 * time.Minute, HeapGB: 12,
				Files: map[string][]byte{lmod + ".tla": lbody}})
			liveCh <- liveRes{lres, err}
		}()
	}
	opts := tlc.Opts{Module: mod, CfgText: p.mcCfg(true, false), Workers: workers, Timeout: 40 * time.Minute, HeapGB: 12,
		Files: map[string][]byte{mod + ".tla": body}}
	if p.SimNum > 0 {
		opts.Workers = 1
		opts.Extra = []string{"-simulate", fmt.Sprintf("num=%d", p.SimNum), "-depth", fmt.Sprint(p.SimDepth), "-seed", fmt.Sprint(c.Seed + 3)}
		opts.CfgText = strings.Replace(strings.Replace(opts.CfgText, "INVARIANT EmitInv\n", "INVARIANT EmitSim\n", 1), "VIEW ViewS\n", "", 1)
		opts.CfgText = strings.Replace(opts.CfgText, "VIEW View\n", "", 1)
	}
	res, err := tlc.Run(opts)
	if err != nil {
		return nil, err
	}
	g := &Gen{Plan: p, States: res.States, Distinct: res.Distinct, Depth: res.Depth, Wall: res.Wall.Seconds()}
	if res.Violation {
		g.SpecViol = res.ViolatedWhat
		if i := strings.LastIndex(res.Out, "/\\ hist = <<"); i >= 0 {
			rest := res.Out[i+len("/\\ hist = "):]
			if j := strings.Index(rest, ">>"); j >= 0 {
				g.SpecCex, _ = tlc.ParseIntTuple(strings.ReplaceAll(rest[:j+2], "\n", " "))
			}
		}
	} else if res.TimedOut || res.Errored != "" || (p.SimNum == 0 && (!res.Completed || res.Distinct == 0)) {
		return nil, fmt.Errorf("TLC did not complete on plan %s: %s\n%s", p.Name, res.Errored, res.Tail(25))
	}
	if err := res.TaggedJSON("ALPHABET", &g.Alphabet); err != nil {
		return nil, fmt.Errorf("%v\n%s", err, res.Tail(25))
	}
	if err := res.TaggedJSON("CONST", &g.Consts); err != nil {
		return nil, err
	}
	sort.Strings(g.Consts.Runners)
	sort.Strings(g.Consts.Addrs)
	if g.Behaviours, err = parseHists(res.Tagged["B"]); err != nil {
		return nil, err
	}
	if g.KnownHists, err = parseHists(res.Tagged["K"]); err != nil {
		return nil, err
	}
	if p.Liveness {
		lr := <-liveCh
		if lr.err != nil {
			return nil, lr.err
		}
		lres := lr.res
		g.LiveStates, g.LiveWall = lres.Distinct, lres.Wall.Seconds()
		if lres.Violation {
			g.LiveViol = lres.ViolatedWhat
		} else if lres.TimedOut || lres.Errored != "" || !lres.Completed || lres.Distinct == 0 {
			return nil, fmt.Errorf("TLC (liveness) did not complete on plan %s: %s\n%s", p.Name, lres.Errored, lres.Tail(25))
		}
	}
	return g, nil
}

// ---------------------------------------------------------------------------------------------
// execution on the real code

// RunResult is one behaviour executed on the real code.
type RunResult struct {
	Hist    []int
	Restart bool
	Lines   []Line
	App     []byte
	Calls   int
	Skipped int
	Panics  []string
	PinBad  []string
	Err     error
}

// Execute replays one behaviour from genesis and continues it with the fair schedule.
func Execute(consts Consts, alphabet []Op, hist []int, seed int64, run int, restart bool) *RunResult {
	r := &RunResult{Hist: hist, Restart: restart}
	w, err := NewWorld(consts, seed, run, true)
	if err != nil {
		r.Err = err
		return r
	}
	defer w.Close()
	w.Restart = restart
	for i, idx := range hist {
		if idx < 1 || idx > len(alphabet) {
			r.Err = fmt.Errorf("history names op %d outside the alphabet", idx)
			return r
		}
		if !w.Apply(alphabet[idx-1], hist[:i+1]) {
			r.Skipped++
			break
		}
	}
	w.Restart = false
	w.Finish(hist)
	r.Lines, r.App, r.Calls, r.Panics = w.Lines, append([]byte{}, w.AppTrace()...), w.Calls, w.Panics
	w.Close()
	r.PinBad = w.PinBad
	return r
}

// VResult is the RESULT record of KeyperGovTrace.
type VResult struct {
	Lines int     `json:"lines"`
	Viol  [][]any `json:"viol"`
	Known [][]any `json:"known"`
	Drift [][]any `json:"drift"`
}

// Validate runs pass A + pass B of KeyperGovTrace on a chunk of keyper-side lines.
func Validate(p Plan, trace []byte) (*VResult, error) {
	mod, body := p.module("TR")
	cfg := p.constText() + "  TraceFile = \"trace.ndjson\"\nSPECIFICATION TSpec\nINVARIANT Done\nCHECK_DEADLOCK FALSE\n"
	res, err := tlc.Run(tlc.Opts{Module: mod, CfgText: cfg, Workers: 1, Timeout: 30 * time.Minute, HeapGB: 6,
		Files: map[string][]byte{mod + ".tla": body, "trace.ndjson": trace}})
	if err != nil {
		return nil, err
	}
	if res.Errored != "" {
		return nil, fmt.Errorf("TLC error during trace validation: %s\n%s", res.Errored, res.Tail(30))
	}
	var vr VResult
	if err := res.TaggedJSON("RESULT", &vr); err != nil {
		return nil, fmt.Errorf("trace validation did not reach the end of the trace: %v\n%s", err, res.Tail(30))
	}
	return &vr, nil
}

// Finding is one monitor failure on an observed line.
type Finding struct {
	Monitor string `json:"monitor"`
	Kind    string `json:"kind"` // "violation" (C11 monitor on the application side) | "failed" (G1-G4 monitor) | "observation" (GObs)
	Side    string `json:"side"` // "keyper" (KeyperGovTrace) | "app" (ShuttermintTrace)
	Plan    string `json:"plan"`
	Hist    []int  `json:"hist"`
	Restart bool   `json:"restart"`
	Line    any    `json:"line"`
	Ops     []Op   `json:"ops"`
}

// Outcome aggregates replay + validation of one plan.
type Outcome struct {
	Gen       *Gen
	Runs      int
	Calls     int
	Lines     int
	AppLines  int
	Traces    int
	Findings  []Finding
	Drift     []string
	AppDrift  int
	Notes     []string
	Samples   []any
	Distinct  int
	Iters     int
	Votes     int
	Seens     int
	Accepted  int
	Started   int
	Restarts  int
	WitnessOK map[string]bool // observation name -> its fixed witness history still shows it
}

func opsOf(alphabet []Op, hist []int) []Op {
	out := []Op{}
	for _, i := range hist {
		if i >= 1 && i <= len(alphabet) {
			out = append(out, alphabet[i-1])
		}
	}
	return out
}

func lessInts(a, b []int) bool {
	for i := 0; i < len(a) && i < len(b); i++ {
		if a[i] != b[i] {
			return a[i] < b[i]
		}
	}
	return len(a) < len(b)
}

func isPrefix(a, b []int) bool {
	if len(a) > len(b) {
		return false
	}
	for i := range a {
		if a[i] != b[i] {
			return false
		}
	}
	return true
}

// pick chooses the behaviours to replay: maximal histories only (prefixes are implied), a seeded
// sample when there are more than MaxBeh, always the spec-level leads and the known witnesses.
func pick(c *core.Ctx, g *Gen, witnesses [][]int) [][]int {
	beh := append([][]int{}, g.Behaviours...)
	sort.Slice(beh, func(i, j int) bool { return lessInts(beh[i], beh[j]) })
	var maxb [][]int
	for i, b := range beh {
		if i+1 < len(beh) && isPrefix(b, beh[i+1]) {
			continue
		}
		maxb = append(maxb, b)
	}
	if g.Plan.MaxBeh > 0 && len(maxb) > g.Plan.MaxBeh {
		// stratified by the keyper sets that appear in the history (every candidate class must be
		// exercised on the real code); inside a stratum half of the quota goes to the longest
		// histories, the other half is uniform
		rng := rand.New(rand.NewSource(c.Seed + 17))
		groups := map[string][][]int{}
		var keys []string
		for _, b := range maxb {
			var ks []int
			for _, i := range b {
				if i >= 1 && i <= len(g.Alphabet) && g.Alphabet[i-1].Op == "set" {
					ks = append(ks, i)
				}
			}
			sort.Ints(ks)
			k := fmt.Sprint(ks)
			if _, ok := groups[k]; !ok {
				keys = append(keys, k)
			}
			groups[k] = append(groups[k], b)
		}
		sort.Strings(keys)
		quota := g.Plan.MaxBeh / len(keys)
		if quota < 2 {
			quota = 2
		}
		var chosen [][]int
		for _, k := range keys {
			grp := groups[k]
			rng.Shuffle(len(grp), func(i, j int) { grp[i], grp[j] = grp[j], grp[i] })
			if len(grp) > quota {
				half := quota / 2
				rest := append([][]int{}, grp[half:]...)
				sort.SliceStable(rest, func(i, j int) bool { return len(rest[i]) > len(rest[j]) })
				grp = append(grp[:half:half], rest[:quota-half]...)
			}
			chosen = append(chosen, grp...)
		}
		maxb = chosen
	}
	out := [][]int{}
	if len(g.SpecCex) > 0 {
		out = append(out, g.SpecCex)
	}
	out = append(out, witnesses...)
	if len(g.KnownHists) > 0 {
		kh := append([][]int{}, g.KnownHists...)
		sort.Slice(kh, func(i, j int) bool {
			return len(kh[i]) < len(kh[j]) || (len(kh[i]) == len(kh[j]) && lessInts(kh[i], kh[j]))
		})
		n := 3
		if len(kh) < n {
			n = len(kh)
		}
		out = append(out, kh[:n]...)
	}
	return append(out, maxb...)
}

type appRef struct {
	run  int
	line int
}

// ReplayAndValidate executes the behaviours on the real code and validates both sides of every
// run with TLC.
func ReplayAndValidate(c *core.Ctx, g *Gen, witnesses map[string][]int) (*Outcome, error) {
	out := &Outcome{Gen: g, WitnessOK: map[string]bool{}}
	var wl [][]int
	wtag := map[string]string{}
	for tag, h := range witnesses {
		wl = append(wl, h)
		wtag[fmt.Sprint(h)] = tag
	}
	beh := pick(c, g, wl)
	if len(beh) == 0 {
		return out, nil
	}
	workers := c.Workers
	if workers > 8 {
		workers = 8
	}
	results := make([]*RunResult, len(beh))
	var wg sync.WaitGroup
	sem := make(chan struct{}, workers)
	for i := range beh {
		wg.Add(1)
		go func(i int) {
			defer wg.Done()
			sem <- struct{}{}
			defer func() { <-sem }()
			// every second behaviour: each keyper process is re-created before each of its iterations
			restart := (int64(i)+c.Seed)%2 == 1
			if g.ForceRestart != nil {
				restart = *g.ForceRestart
			}
			results[i] = Execute(g.Consts, g.Alphabet, beh[i], c.Seed*1000003+int64(i), i+1, restart)
		}(i)
	}
	wg.Wait()
	sigs := map[string]bool{}
	for i, r := range results {
		if r.Err != nil {
			return nil, fmt.Errorf("run %d (%v): %v", i+1, r.Hist, r.Err)
		}
		if len(r.PinBad) > 0 {
			return nil, fmt.Errorf("fakepg pin mismatches (the repository's SQL changed): %v", r.PinBad)
		}
		out.Runs++
		out.Calls += r.Calls
		if r.Restart {
			out.Restarts++
		}
		for _, l := range r.Lines {
			switch l.K {
			case "iter":
				out.Iters++
				sigs[sm.Canon([]any{l.Pre, l.S1, l.S2, l.S3, l.Sent, l.B})] = true
				for _, m := range l.S2.Outbox[min(len(l.S1.Outbox), len(l.S2.Outbox)):] {
					if m.K == "vote" {
						out.Votes++
					} else if m.K == "seen" {
						out.Seens++
					}
				}
			case "end":
				out.Accepted += len(l.Evs)
				out.Started += len(l.Started)
			}
		}
	}
	out.Distinct = len(sigs)
	const perChunk = 40
	type chunk struct {
		from, to int
		vr       *VResult
		avr      *sm.VResult
		err      error
		lines    []Line
		arefs    []appRef
		alines   [][]byte
	}
	var chunks []*chunk
	for i := 0; i < len(results); i += perChunk {
		j := i + perChunk
		if j > len(results) {
			j = len(results)
		}
		chunks = append(chunks, &chunk{from: i, to: j})
	}
	vsem := make(chan struct{}, 4)
	for _, ch := range chunks {
		wg.Add(1)
		go func(ch *chunk) {
			defer wg.Done()
			vsem <- struct{}{}
			defer func() { <-vsem }()
			var buf, abuf bytes.Buffer
			for ri, r := range results[ch.from:ch.to] {
				for _, l := range r.Lines {
					buf.WriteString(sm.Canon(l))
					buf.WriteByte('\n')
					ch.lines = append(ch.lines, l)
				}
				for li, al := range bytes.Split(bytes.TrimRight(r.App, "\n"), []byte("\n")) {
					if len(al) == 0 {
						continue
					}
					abuf.Write(al)
					abuf.WriteByte('\n')
					ch.arefs = append(ch.arefs, appRef{run: ch.from + ri, line: li})
					ch.alines = append(ch.alines, al)
				}
			}
			if corrupt := os.Getenv("VERIF_GOV_CORRUPT"); corrupt != "" && ch.from == 0 {
				b := corruptTrace(buf.Bytes(), corrupt)
				buf.Reset()
				buf.Write(b)
			}
			ch.vr, ch.err = Validate(g.Plan, buf.Bytes())
			if ch.err != nil {
				return
			}
			ch.avr, _, ch.err = sm.ValidateTrace("gov", abuf.Bytes())
		}(ch)
	}
	wg.Wait()
	for _, ch := range chunks {
		if ch.err != nil {
			return nil, ch.err
		}
		out.Traces += ch.to - ch.from
		out.Lines += ch.vr.Lines
		out.AppLines += ch.avr.Lines
		get := func(n int) Line {
			if n >= 1 && n <= len(ch.lines) {
				return ch.lines[n-1]
			}
			return Line{}
		}
		mk := func(v []any, side string) (Finding, bool) {
			if len(v) != 2 {
				return Finding{}, false
			}
			n, _ := v[0].(float64)
			m, _ := v[1].(string)
			f := Finding{Monitor: m, Side: side, Plan: g.Plan.Name, Kind: "failed"}
			if side == "keyper" {
				l := get(int(n))
				r := results[l.Run-1]
				f.Hist, f.Restart, f.Line, f.Ops = r.Hist, r.Restart, l, opsOf(g.Alphabet, r.Hist)
			} else if int(n) >= 1 && int(n) <= len(ch.arefs) {
				r := results[ch.arefs[int(n)-1].run]
				var al any
				json.Unmarshal(ch.alines[int(n)-1], &al)
				f.Hist, f.Restart, f.Line, f.Ops = r.Hist, r.Restart, al, opsOf(g.Alphabet, r.Hist)
			}
			return f, true
		}
		for _, v := range ch.vr.Viol {
			if f, ok := mk(v, "keyper"); ok {
				out.Findings = append(out.Findings, f)
			}
		}
		for _, v := range ch.vr.Known {
			if f, ok := mk(v, "keyper"); ok {
				f.Kind = "observation"
				out.Findings = append(out.Findings, f)
				if name, isW := wtag[fmt.Sprint(f.Hist)]; isW && name == f.Monitor {
					out.WitnessOK[name] = true
				}
			}
		}
		for _, v := range ch.vr.Drift {
			if len(v) == 2 && len(out.Drift) < 12 {
				n, _ := v[0].(float64)
				l := get(int(n))
				out.Drift = append(out.Drift, fmt.Sprintf("plan=%s %v keyper=%s op=%s hist=%v", g.Plan.Name, v[1], l.A, l.K, l.Hist))
			}
		}
		for _, v := range ch.avr.Viol {
			f, ok := mk(v, "app")
			if !ok {
				continue
			}
			if strings.HasPrefix(f.Monitor, "C11_") {
				f.Kind = "violation"
				out.Findings = append(out.Findings, f)
			} else {
				out.Notes = append(out.Notes, fmt.Sprintf("monitor %s of another property failed on the application side, history %v", f.Monitor, f.Hist))
			}
		}
		out.AppDrift += len(ch.avr.Drift)
		for _, n := range ch.avr.Drift {
			if len(out.Drift) < 12 && n >= 1 && n <= len(ch.alines) {
				al := ch.alines[n-1]
				if len(al) > 300 {
					al = al[:300]
				}
				out.Drift = append(out.Drift, fmt.Sprintf("plan=%s application step is not a step of Shuttermint.tla: %s", g.Plan.Name, al))
			}
		}
	}
	for i := 0; i < len(results) && i < 2; i++ {
		r := results[(i*5+len(wl))%len(results)]
		fin := r.Lines[len(r.Lines)-1]
		out.Samples = append(out.Samples, map[string]any{"plan": g.Plan.Name, "hist": r.Hist, "ops": opsText(g.Alphabet, r.Hist), "restart_before_each_iteration": r.Restart,
			"final_configs": fin.Configs, "main_chain": fin.MC})
	}
	return out, nil
}

func opsText(alphabet []Op, hist []int) []string {
	out := []string{}
	for _, o := range opsOf(alphabet, hist) {
		switch o.Op {
		case "iter":
			s := fmt.Sprintf("iter %s budget=%d", o.A, o.Budget)
			if o.Crash {
				s += " reply-lost"
			}
			out = append(out, s)
		case "set":
			out = append(out, fmt.Sprintf("set idx=%d act=%d thr=%d keypers=%v", o.Set.Idx, o.Set.Act, o.Set.Thr, o.Set.Keypers))
		default:
			out = append(out, o.Op)
		}
	}
	return out
}

// corruptTrace is the binding self-check: it changes one logged field of the first iteration that
// scheduled a message, so that a monitor must fire.
func corruptTrace(trace []byte, what string) []byte {
	lines := bytes.Split(bytes.TrimRight(trace, "\n"), []byte("\n"))
	for i, raw := range lines {
		var l Line
		if json.Unmarshal(raw, &l) != nil || l.K != "iter" {
			continue
		}
		new := l.S2.Outbox[min(len(l.S1.Outbox), len(l.S2.Outbox)):]
		done := false
		for j := range new {
			switch {
			case what == "vote-idx" && new[j].K == "vote":
				new[j].Cfg.Idx = 0 // a vote for the genesis index
				done = true
			case what == "vote-thr" && new[j].K == "vote":
				new[j].Cfg.Thr = 9
				done = true
			case what == "seen-b" && new[j].K == "seen":
				new[j].B = 0
				done = true
			}
		}
		if what == "marker" && l.S2.Marker != l.S1.Marker {
			l.S2.Marker = l.S1.Marker // pass B only
			done = true
		}
		if done {
			lines[i] = []byte(sm.Canon(l))
			break
		}
	}
	return append(bytes.Join(lines, []byte("\n")), '\n')
}

// ---------------------------------------------------------------------------------------------
// plans

var (
	all4   = []string{"a1", "a2", "a3", "a4"}
	setV1  = Cfg{Keypers: all4, Thr: 2, Act: 2, Idx: 1}                       // valid, the outsider a4 joins
	setGap = Cfg{Keypers: all4, Thr: 2, Act: 2, Idx: 2}                       // index gap (valid once index 1 exists)
	setT0  = Cfg{Keypers: all4, Thr: 0, Act: 2, Idx: 1}                       // threshold 0
	setTH  = Cfg{Keypers: all4, Thr: 5, Act: 2, Idx: 1}                       // threshold above the number of keypers
	setDup = Cfg{Keypers: []string{"a1", "a1", "a2"}, Thr: 2, Act: 2, Idx: 1} // duplicate member
	setE   = Cfg{Keypers: []string{}, Thr: 1, Act: 2, Idx: 1}                 // no keypers
	setLow = Cfg{Keypers: []string{"a1", "a2", "a4"}, Thr: 2, Act: 1, Idx: 2} // activates before set 1
	setV2  = Cfg{Keypers: []string{"a2", "a4"}, Thr: 1, Act: 3, Idx: 2}       // valid second set, a1 a3 leave
	setEq  = Cfg{Keypers: []string{"a1", "a2", "a4"}, Thr: 2, Act: 2, Idx: 2} // same activation as set 1 (valid)
)

func withAct(act uint64, cs ...Cfg) []Cfg {
	out := []Cfg{}
	for _, c := range cs {
		c.Act = act
		out = append(out, c)
	}
	return out
}

func itr(a string) Op { return Op{Op: "iter", A: a, Budget: BudgetAll} }

var (
	// a1 votes for set 1; set 2 (activating earlier) appears; a1 votes for it while set 1 is pending
	// ("already voted"); a2's vote gets set 1 accepted; a1's vote for set 2 is now refused for ever
	witMute = []Op{{Op: "end"}, {Op: "set", Set: setV1}, {Op: "adv"}, itr("a1"), {Op: "set", Set: setLow}, {Op: "adv"}, itr("a1"), itr("a2")}
	// both report block 2 because of the genesis config; config 1 (activation 2) is accepted; at block
	// 3 a1 reports again although its report 2 already counts for config 1
	witDup1 = []Op{{Op: "end"}, {Op: "set", Set: withAct(1, setV1)[0]}, {Op: "adv"}, itr("a1"), itr("a2"), {Op: "end"}, {Op: "adv"}, itr("a1")}
	witDup  = []Op{{Op: "end"}, {Op: "set", Set: setV1}, {Op: "adv"}, {Op: "adv"}, itr("a1"), itr("a2"), {Op: "end"}, {Op: "adv"}, itr("a1")}
)

func plansFor(thorough bool) []Plan {
	three := []string{"a1", "a2", "a4"}
	two := []string{"a1", "a2"}
	all := []int{BudgetAll}
	if !thorough {
		return []Plan{
			// every class of keyper set on its own; the outsider a4 runs a keyper and joins
			// (quick tier: activation 1 and a main chain of 2 blocks instead of 2 and 3)
			{Name: "one", Runners: three, Sets: withAct(1, setV1, setGap, setT0, setTH, setDup, setE), Budgets: all, MaxMC: 2, MaxSets: 1, MaxH: 30, Delta: 1, Live: two, MaxBeh: 48},
			// partial sends (budget 0 = the node is unreachable), G4 under fairness
			{Name: "base", Runners: two, Sets: withAct(1, setV1), Budgets: []int{0, BudgetAll}, MaxMC: 2, MaxSets: 1, MaxH: 30, Delta: 1, Live: two, LastView: true, MaxBeh: 40, Liveness: true,
				Witness: map[string][]Op{"G3_DuplicateReport": witDup1}},
			// the reply to an accepted broadcast is lost, the keyper restarts
			{Name: "crash", Runners: two, Sets: withAct(1, setV1), Budgets: all, Crashes: true, MaxMC: 2, MaxSets: 1, MaxH: 30, Delta: 1, Live: two, MaxBeh: 40},
			// two keyper sets, the second one activating before the first (GOV1)
			{Name: "two", Runners: two, Sets: []Cfg{setV1, setLow}, Budgets: all, MaxMC: 3, MaxSets: 2, MaxH: 30, Delta: 1, Live: two, MaxBeh: 48,
				Witness: map[string][]Op{"HeadOfLineBlocked": witMute}},
		}
	}
	return []Plan{
		{Name: "one", Runners: three, Sets: []Cfg{setV1, setGap, setT0, setTH, setDup, setE}, Budgets: all, MaxMC: 3, MaxSets: 1, MaxH: 30, Delta: 1, Live: two, LastView: true, MaxBeh: 500},
		{Name: "base", Runners: two, Sets: []Cfg{setV1}, Budgets: []int{0, 1, BudgetAll}, MaxMC: 3, MaxSets: 1, MaxH: 30, Delta: 1, Live: two, LastView: true, MaxBeh: 300, Liveness: true,
			Witness: map[string][]Op{"G3_DuplicateReport": witDup}},
		{Name: "crash", Runners: two, Sets: []Cfg{setV1}, Budgets: []int{0, 1, BudgetAll}, Crashes: true, MaxMC: 3, MaxSets: 1, MaxH: 30, Delta: 1, Live: two, LastView: true, MaxBeh: 500, Liveness: true},
		{Name: "two", Runners: two, Sets: []Cfg{setV1, setLow, setV2, setEq}, Budgets: all, MaxMC: 4, MaxSets: 2, MaxH: 30, Delta: 1, Live: two, MaxBeh: 600,
			Liveness: true, LiveSets: []Cfg{setV1, setLow, setV2}, Sharp: true, Witness: map[string][]Op{"HeadOfLineBlocked": witMute}},
		{Name: "four", Runners: all4, Sets: []Cfg{setV1}, Budgets: all, MaxMC: 3, MaxSets: 1, MaxH: 30, Delta: 1, Live: two, MaxBeh: 500},
		{Name: "lag2", Runners: two, Sets: []Cfg{setV1}, Budgets: all, MaxMC: 3, MaxSets: 1, MaxH: 8, Delta: 1, Lag: 2, Live: two, MaxBeh: 300},
		{Name: "delta0", Runners: two, Sets: []Cfg{setV1, setV2}, Budgets: []int{0, BudgetAll}, MaxMC: 4, MaxSets: 2, MaxH: 30, Delta: 0, Live: two, MaxBeh: 400},
	}
}

func assumptions() []string {
	return []string{
		"TLC and the Go toolchain are correct; harness/fakepg implements the SQL of the statements the loop uses (pinned by hash)",
		"the projections (harness/gov/world.go proj, absTx; harness/sm Abs) are the trusted binding between the databases / transactions and the records of the specification",
		"exhaustive only within the constants of each plan (keypers, keyper-set candidates, main-chain height, send budgets); the fake Tendermint node delivers a broadcast into the open block or times out, a transaction that times out is never included later",
		"check-in and DKG messages in the outbox are sent for real but not modelled on the keyper side (they are validated on the application side by ShuttermintTrace)",
		"the loop body is driven through the add-only hook keyper/zz_verif_gov.go (the three statements of operateShuttermint); the 2 s pacing and the Ethereum client are not exercised",
	}
}

// ---------------------------------------------------------------------------------------------
// the check
//
// Verdict mapping of this growth stage (decided by the lead): VIOLATION property=C11 only when a
// C11 monitor of ShuttermintProps fails on the real application under real keyper traffic (G5).
// G1-G4 are extension properties of the keyper half: their failures, and the observations of
// KeyperGovProps!GObs, are printed as `OBSERVATION gov: ...`, recorded in the evidence and do not
// change the exit code. Pass-B mismatches are DRIFT. Infrastructure problems: exit 2.

func witnessHistory(alphabet []Op, ops []Op) []int {
	var h []int
	for _, o := range ops {
		o.Set = normCfg(o.Set)
		if o.A == "" {
			o.A = sm.NoAddr
		}
		found := 0
		for i, a := range alphabet {
			a.Set = normCfg(a.Set)
			if sm.Canon(a) == sm.Canon(o) {
				found = i + 1
			}
		}
		if found == 0 {
			return nil
		}
		h = append(h, found)
	}
	return h
}

// ReplayFile is what a VIOLATION / OBSERVATION line points to.
type ReplayFile struct {
	Prop     string  `json:"prop"`
	Family   string  `json:"family"`
	Plan     Plan    `json:"plan"`
	Consts   Consts  `json:"consts"`
	Alphabet []Op    `json:"alphabet"`
	Seed     int64   `json:"seed"`
	Finding  Finding `json:"finding"`
}

// Observation is one line of coverage.growth_keypergov.observations.
type Observation struct {
	Name   string   `json:"name"`
	Kind   string   `json:"kind"` // failed | observation | model
	Plan   string   `json:"plan"`
	Count  int      `json:"count"`
	After  []string `json:"first_after"`
	Replay string   `json:"replay"`
	Note   string   `json:"note"`
}

var obsNotes = map[string]string{
	"G3_DuplicateReport":     "sendNewBlockSeen counts configs with last_block_seen <= activation < block while shuttermint counts a report r iff r >= activation: a config activating exactly at the last reported block is reported once more (harmless extra transaction)",
	"HeadOfLineBlocked":      "the head of tendermint_outgoing_messages is a BatchConfig vote shuttermint can never accept; isRetrieable is constant true, so it is retried for ever and nothing behind it is sent: the keyper is mute (no BlockSeen, check-in, DKG message)",
	"G4_Started_OutsideEnv":  "an accepted config is not started although a threshold of its predecessor's keypers runs; happens only outside the environment assumption (a keyper set activating before its predecessor), through HeadOfLineBlocked",
	"G4_Accepted_OutsideEnv": "a valid next keyper set is not accepted although a threshold of the newest set runs; only outside the environment assumption, through HeadOfLineBlocked",
}

// Check runs the KeyperGov stage of C11.
func Check(c *core.Ctx) int {
	if c.Replay != "" {
		return Replay(c)
	}
	var outs []*Outcome
	violations := 0
	leads := []string{}
	mismatch := false
	var observations []Observation
	plans := plansFor(c.Thorough())
	type genRes struct {
		g    *Gen
		out  *Outcome
		wit  map[string][]int
		err  error
		what string
	}
	gens := make([]chan genRes, len(plans))
	per := 8
	if !c.Thorough() {
		// quick tier: all model-checking runs at once, the eight workers shared between them
		per = max(2, 8/len(plans))
	}
	var seq sync.Mutex
	for i, p := range plans {
		gens[i] = make(chan genRes, 1)
		go func(i int, p Plan) {
			var r genRes
			func() {
				if c.Thorough() {
					seq.Lock()
					defer seq.Unlock()
				}
				r.g, r.err = Generate(c, p, per)
			}()
			if r.err == nil {
				r.wit = map[string][]int{}
				for name, ops := range p.Witness {
					if h := witnessHistory(r.g.Alphabet, ops); h != nil {
						r.wit[name] = h
					} else {
						r.what = fmt.Sprintf("the fixed witness %s of plan %s is not in the alphabet TLC printed", name, p.Name)
					}
				}
				if r.what == "" {
					// replay and trace validation of this plan overlap with the model checking of the others
					r.out, r.err = ReplayAndValidate(c, r.g, r.wit)
				}
			}
			gens[i] <- r
		}(i, p)
	}
	for i, p := range plans {
		c.Logf("plan %s: TLC on the composed model (runners %v, %d set candidates, budgets %v, lost replies %v, lag %d)", p.Name, p.Runners, len(p.Sets), p.Budgets, p.Crashes, p.Lag)
		gr := <-gens[i]
		g, err := gr.g, gr.err
		if err != nil {
			fmt.Println("INCONCLUSIVE:", err)
			return core.ExitInconclusive
		}
		if gr.what != "" {
			fmt.Println("INCONCLUSIVE:", gr.what)
			return core.ExitInconclusive
		}
		c.Logf("plan %s: %d distinct states (%d generated, depth %d, %.1fs), %d behaviours printed, %d spec-level observation histories, specviol=%q; liveness: %d states %.1fs viol=%q",
			p.Name, g.Distinct, g.States, g.Depth, g.Wall, len(g.Behaviours), len(g.KnownHists), g.SpecViol, g.LiveStates, g.LiveWall, g.LiveViol)
		if g.SpecViol != "" {
			leads = append(leads, p.Name+": "+g.SpecViol)
		}
		if g.LiveViol != "" {
			leads = append(leads, p.Name+" (liveness): "+g.LiveViol)
			observations = append(observations, Observation{Name: "G4_model", Kind: "model", Plan: p.Name, Count: 1,
				Note: "TLC reports a G4 temporal property violated on the composed model under fairness: " + g.LiveViol})
			fmt.Printf("OBSERVATION gov: G4 is violated on the composed MODEL of plan %s (%s); no history to replay\n", p.Name, g.LiveViol)
		}
		wit, out := gr.wit, gr.out
		outs = append(outs, out)
		c.Logf("plan %s: %d runs on the real code (%d with restarts), %d iterations (%d distinct), %d votes and %d reports scheduled, %d configs accepted, %d started; %d keyper lines + %d application lines validated; %d monitor results, %d drift",
			p.Name, out.Runs, out.Restarts, out.Iters, out.Distinct, out.Votes, out.Seens, out.Accepted, out.Started, out.Lines, out.AppLines, len(out.Findings), len(out.Drift))
		if out.Runs == 0 || out.Lines == 0 || out.Iters == 0 || out.AppLines == 0 {
			fmt.Printf("INCONCLUSIVE: plan %s replayed nothing\n", p.Name)
			return core.ExitInconclusive
		}
		if out.Votes == 0 || out.Accepted == 0 {
			fmt.Printf("INCONCLUSIVE: plan %s: the real keypers scheduled %d votes and shuttermint accepted %d configs (coverage collapsed)\n", p.Name, out.Votes, out.Accepted)
			return core.ExitInconclusive
		}
		for _, d := range out.Drift {
			fmt.Println("DRIFT", d)
		}
		for _, n := range out.Notes {
			c.Logf("note: %s", n)
		}
		for name := range wit {
			if !out.WitnessOK[name] {
				c.Logf("note: the fixed history for %s (plan %s) no longer shows it", name, p.Name)
			}
		}
		reported := 0
		cexReproduced := false
		byName := map[string]*Observation{}
		var order []string
		for _, f := range out.Findings {
			if len(g.SpecCex) > 0 && fmt.Sprint(f.Hist) == fmt.Sprint(g.SpecCex) && f.Kind != "observation" {
				cexReproduced = true
			}
			if f.Kind == "violation" {
				violations++
				if reported < 4 {
					path := c.WriteReplay(fmt.Sprintf("gov-%s-%d", p.Name, reported), ReplayFile{Prop: c.Prop, Family: "gov", Plan: p, Consts: g.Consts, Alphabet: g.Alphabet, Seed: c.Seed, Finding: f})
					c.Violation(path, fmt.Sprintf("monitor %s of ShuttermintProps failed on the real application under real keyper traffic after %v (application line %v)",
						f.Monitor, opsText(g.Alphabet, f.Hist), compact(f.Line)))
					reported++
				}
				continue
			}
			o := byName[f.Monitor]
			if o == nil {
				o = &Observation{Name: f.Monitor, Kind: f.Kind, Plan: p.Name, After: opsText(g.Alphabet, f.Hist), Note: obsNotes[f.Monitor]}
				o.Replay = c.WriteReplay(fmt.Sprintf("gov-%s-obs-%s", p.Name, f.Monitor), ReplayFile{Prop: c.Prop, Family: "gov", Plan: p, Consts: g.Consts, Alphabet: g.Alphabet, Seed: c.Seed, Finding: f})
				byName[f.Monitor] = o
				order = append(order, f.Monitor)
			}
			o.Count++
		}
		for _, name := range order {
			o := byName[name]
			what := "observed"
			if o.Kind == "failed" {
				what = "monitor FAILED"
			}
			fmt.Printf("OBSERVATION gov: %s %s on %d observed lines of plan %s, first after %v replay=%s\n", o.Name, what, o.Count, o.Plan, o.After, o.Replay)
			if o.Note != "" {
				fmt.Printf("  %s\n", o.Note)
			}
			observations = append(observations, *o)
		}
		if g.SpecViol != "" && !cexReproduced {
			fmt.Printf("MODEL-MISMATCH (spec-level counterexample not reproduced on the code): plan %s %s hist %v\n", p.Name, g.SpecViol, g.SpecCex)
			mismatch = true
		}
	}
	mergeEvidence(c, outs, violations, leads, observations)
	if violations > 0 {
		return core.ExitViolation
	}
	if mismatch {
		return core.ExitInconclusive
	}
	fmt.Printf("OK property=%s stage=keypergov tier=%s\n", c.Prop, c.Tier)
	return core.ExitOK
}

func compact(v any) string {
	s := sm.Canon(v)
	if len(s) > 400 {
		s = s[:400] + "..."
	}
	return s
}

// mergeEvidence adds coverage.growth_keypergov to the existing evidence file of the property.
func mergeEvidence(c *core.Ctx, outs []*Outcome, violations int, leads []string, observations []Observation) {
	if os.Getenv("VERIF_GOV_NOEVIDENCE") != "" {
		return // mutation experiments on a scratch copy of the repository
	}
	path := "/verif/evidence/" + c.Prop + ".json"
	b, err := os.ReadFile(path)
	if err != nil {
		fmt.Printf("note: %s does not exist (run the first stage of ./check %s first); coverage of the KeyperGov stage not written\n", path, c.Prop)
		return
	}
	var e ev.Evidence
	if err := json.Unmarshal(b, &e); err != nil || e.Coverage == nil {
		fmt.Printf("note: %s is not readable as evidence (%v); coverage of the KeyperGov stage not written\n", path, err)
		return
	}
	states, trans, runs, lines, alines, iters, distinct := 0, 0, 0, 0, 0, 0, 0
	plans := []any{}
	var samples []any
	for _, o := range outs {
		states += o.Gen.Distinct + o.Gen.LiveStates
		trans += o.Gen.States
		runs += o.Runs
		lines += o.Lines
		alines += o.AppLines
		iters += o.Iters
		distinct += o.Distinct
		samples = append(samples, o.Samples...)
		plans = append(plans, map[string]any{"plan": o.Gen.Plan.Name, "runners": o.Gen.Plan.Runners, "keyper_set_candidates": o.Gen.Plan.Sets,
			"budgets": o.Gen.Plan.Budgets, "lost_reply_iterations": o.Gen.Plan.Crashes, "max_main_chain": o.Gen.Plan.MaxMC, "max_new_sets": o.Gen.Plan.MaxSets,
			"delta": o.Gen.Plan.Delta, "lag": o.Gen.Plan.Lag, "tlc_distinct_states": o.Gen.Distinct, "tlc_states_generated": o.Gen.States, "tlc_depth": o.Gen.Depth,
			"tlc_wall_s": o.Gen.Wall, "behaviours_printed": len(o.Gen.Behaviours), "liveness_checked": o.Gen.Plan.Liveness, "liveness_states": o.Gen.LiveStates, "liveness_wall_s": o.Gen.LiveWall,
			"runs_replayed": o.Runs, "runs_with_restart_before_each_iteration": o.Restarts, "loop_iterations": o.Iters, "distinct_iterations": o.Distinct,
			"votes_scheduled": o.Votes, "reports_scheduled": o.Seens, "configs_accepted": o.Accepted, "configs_started": o.Started,
			"keyper_lines_validated": o.Lines, "application_lines_validated": o.AppLines, "drift": len(o.Drift)})
	}
	if observations == nil {
		observations = []Observation{}
	}
	e.Coverage["growth_keypergov"] = map[string]any{
		"module": "KeyperGov (specs/KeyperGov.tla, KeyperGovProps.tla, KeyperGovMC.tla, KeyperGovTrace.tla) composed with Shuttermint.tla",
		"tier":   c.Tier, "seed": c.Seed, "wall_s": time.Since(c.Start).Seconds(), "c11_violations": violations,
		"states": states, "transitions": trans, "traces_validated_against_impl": runs, "evaluations": iters, "distinct_nontrivial": distinct,
		"keyper_lines_validated": lines, "application_lines_validated": alines,
		"verdict_mapping": "VIOLATION only for a C11 monitor of ShuttermintProps failing on the real application under real keyper traffic (G5); failures of the extension properties G1-G4 and the observations of KeyperGovProps!GObs are listed under observations and do not change the exit code; pass-B mismatches are drift",
		"rule": "TLC explores every interleaving of {main chain advances, a keyper set appears, keyper k runs one loop iteration with a send budget / a lost reply, a shuttermint block is closed} inside the plan's bounds with G1-G3 as action properties, the C11 monitors on every application call (G5) and G4 as temporal properties under fairness; it prints one history per distinct state; a seeded sample of the maximal histories (plus every spec-level lead and the fixed observation witnesses) is replayed on the real KeyperCore loop body + real app and continued with a fair schedule; " +
			"evaluations = loop iterations executed on the real code, distinct_nontrivial = distinct observed iterations (databases before/after each statement, messages, answers), every one validated by KeyperGovTrace (pass A G1-G4, pass B conformance) and every application call by ShuttermintTrace (C11 monitors, conformance)",
		"plans": plans, "samples": samples, "spec_level_leads": leads, "observations": observations, "assumptions": assumptions(),
	}
	if err := ev.Write(e); err != nil {
		fmt.Fprintln(os.Stderr, "cannot write evidence:", err)
	}
}

// Replay re-executes the behaviour of a replay file and re-validates it.
func Replay(c *core.Ctx) int {
	b, err := os.ReadFile(c.Replay)
	if err != nil {
		fmt.Println("INCONCLUSIVE:", err)
		return core.ExitInconclusive
	}
	var rf ReplayFile
	if err := json.Unmarshal(b, &rf); err != nil || rf.Family != "gov" {
		fmt.Println("INCONCLUSIVE: not a replay file of the KeyperGov stage:", err)
		return core.ExitInconclusive
	}
	g := &Gen{Plan: rf.Plan, Consts: rf.Consts, Alphabet: rf.Alphabet, Behaviours: [][]int{rf.Finding.Hist}}
	g.Plan.MaxBeh = 0
	c.Seed = rf.Seed
	g.ForceRestart = &rf.Finding.Restart
	out, err := ReplayAndValidate(c, g, nil)
	if err != nil {
		fmt.Println("INCONCLUSIVE:", err)
		return core.ExitInconclusive
	}
	code := core.ExitOK
	seen := map[string]bool{}
	for _, f := range out.Findings {
		key := f.Kind + f.Monitor
		if seen[key] {
			continue
		}
		seen[key] = true
		switch f.Kind {
		case "violation":
			fmt.Printf("reproduced %s on the application side after %v\n", f.Monitor, opsText(rf.Alphabet, f.Hist))
			code = core.ExitViolation
		case "failed":
			fmt.Printf("OBSERVATION gov: reproduced: monitor %s FAILED after %v\n", f.Monitor, opsText(rf.Alphabet, f.Hist))
		default:
			fmt.Printf("OBSERVATION gov: reproduced: %s after %v\n", f.Monitor, opsText(rf.Alphabet, f.Hist))
		}
	}
	for _, d := range out.Drift {
		fmt.Println("DRIFT", d)
	}
	if len(seen) == 0 {
		fmt.Printf("not reproduced: no monitor failure and no observation on history %v (%d lines validated)\n", rf.Finding.Hist, out.Lines)
	} else if !seen[rf.Finding.Kind+rf.Finding.Monitor] {
		fmt.Printf("not reproduced: %s (%s) does not show on history %v (%d lines validated)\n", rf.Finding.Monitor, rf.Finding.Kind, rf.Finding.Hist, out.Lines)
	}
	if code == core.ExitViolation {
		fmt.Printf("VIOLATION property=%s replay=%s\n", rf.Prop, c.Replay)
	}
	return code
}
