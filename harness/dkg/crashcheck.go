package dkg

import (
	"encoding/json"
	"fmt"
	"math/rand"
	"os"
	"sort"
	"strings"
	"sync"
	"time"

	"verif/harness/core"
	"verif/harness/ev"
	"verif/harness/tlc"
)

func (sc Scenario) consts(loadMode string, maxCrashes int) string {
	return fmt.Sprintf(" Others = %d\n PhaseLen = %d\n DealBlock = %d\n AccBlock = %d\n LateCheckin = %d\n Overlap = %s\n Gov = %s\n DownUntil = %d\n PurgeMode = %q\n SyncEvery = %d\n SyncOff = %d\n LoadMode = %q\n MaxCrashes = %d\n",
		sc.Cfg.N-1, sc.Cfg.PhaseLen, sc.DealBlock, sc.AccBlock, sc.LateBlock, boolText(sc.Cfg.Overlap), boolText(sc.Gov), sc.DownUntil, purgeMode(loadMode), sc.SyncEvery, sc.SyncOff, map[bool]string{true: "nilsafe", false: loadMode}[loadMode == "mismatch"], maxCrashes)
}

// the documented alternatives are selected through one name: "gobzero" (DecodePureDKG before the
// repair) and "mismatch" (the purge of the keyper's own vote deletes nothing)
func purgeMode(alt string) string {
	if alt == "mismatch" {
		return "mismatch"
	}
	return "match"
}

// CrashGen is what TLC produced for the KeyperCrash model.
type CrashGen struct {
	States, Distinct int
	Wall             float64
	Behaviours       [][]Where
	SpecViol         string
	AltViol          string // what TLC finds with the pre-repair LoadMode (documented alternative)
	AltCr            []Where
}

func parseBad(res *tlc.Result) []Where {
	for _, raw := range res.Tagged["BAD"] {
		js, err := tlc.UnquoteTLA(raw)
		if err != nil {
			continue
		}
		var b struct {
			Cr []Where `json:"cr"`
		}
		if json.Unmarshal([]byte(js), &b) == nil && len(b.Cr) > 0 {
			return b.Cr
		}
	}
	return nil
}

// GenerateCrash model-checks KeyperCrash (safety monitors + liveness under fairness) and collects
// the abstract crash behaviours.
func GenerateCrash(c *core.Ctx, sc Scenario, maxCrashes int) (*CrashGen, error) {
	mod := "MCgen_keypercrash"
	files := map[string][]byte{mod + ".tla": []byte("---- MODULE " + mod + " ----\nEXTENDS KeyperCrashMC\n====\n")}
	cfg := "CONSTANTS\n" + sc.consts("nilsafe", maxCrashes) + " Emit = TRUE\n" +
		"SPECIFICATION FairSpec\nINVARIANT EmitBad\nINVARIANT Safety\nINVARIANT MemMatchesDb\nINVARIANT InOrder\nINVARIANT EmitDone\nPROPERTY Completes\nPROPERTY Drains\nCHECK_DEADLOCK FALSE\n"
	res, err := tlc.Run(tlc.Opts{Module: mod, CfgText: cfg, Files: files, Workers: 4, Timeout: 20 * time.Minute, HeapGB: 6})
	if err != nil {
		return nil, err
	}
	g := &CrashGen{States: res.States, Distinct: res.Distinct, Wall: res.Wall.Seconds()}
	if res.Violation {
		g.SpecViol = res.ViolatedWhat
		if cr := parseBad(res); len(cr) > 0 {
			g.Behaviours = append(g.Behaviours, cr)
		}
		return g, nil
	}
	if res.TimedOut || res.Errored != "" || !res.Completed || res.Distinct == 0 {
		return nil, fmt.Errorf("TLC did not complete on KeyperCrash: %s\n%s", res.Errored, res.Tail(25))
	}
	seen := map[string]bool{}
	for _, s := range res.Tagged["B"] {
		js, err := tlc.UnquoteTLA(s)
		if err != nil {
			return nil, err
		}
		if seen[js] {
			continue
		}
		seen[js] = true
		var b struct {
			Cr []Where `json:"cr"`
		}
		if err := json.Unmarshal([]byte(js), &b); err != nil {
			return nil, err
		}
		if len(b.Cr) > 0 {
			g.Behaviours = append(g.Behaviours, b.Cr)
		}
	}
	// the documented alternative (behaviour of shdb.DecodePureDKG before the repair): TLC must still
	// find that a reload during the dealing phase changes the outcome
	alt := "gobzero"
	if sc.Gov {
		alt = "mismatch" // the alternative that belongs to the governance prefix
	}
	acfg := "CONSTANTS\n" + sc.consts(alt, 1) + " Emit = FALSE\nSPECIFICATION Spec\nINVARIANT EmitBad\nINVARIANT Safety\nCHECK_DEADLOCK FALSE\n"
	ares, err := tlc.Run(tlc.Opts{Module: mod, CfgText: acfg, Files: files, Workers: 2, Timeout: 10 * time.Minute, HeapGB: 4})
	if err == nil && ares.Violation {
		g.AltViol = ares.ViolatedWhat
		g.AltCr = parseBad(ares)
	}
	return g, nil
}

func validateCrash(sc Scenario, trace []byte) (*VResult, error) {
	mod := "TRgen_keypercrash"
	files := map[string][]byte{mod + ".tla": []byte("---- MODULE " + mod + " ----\nEXTENDS KeyperCrashTrace\n====\n"), "trace.ndjson": trace}
	cfg := "CONSTANTS\n" + sc.consts("nilsafe", 0) + " TraceFile = \"trace.ndjson\"\nSPECIFICATION TSpec\nINVARIANT Done\nCHECK_DEADLOCK FALSE\n"
	res, err := tlc.Run(tlc.Opts{Module: mod, CfgText: cfg, Files: files, Workers: 1, Timeout: 30 * time.Minute, HeapGB: 6})
	if err != nil {
		return nil, err
	}
	if res.Errored != "" {
		return nil, fmt.Errorf("TLC error during trace validation: %s\n%s", res.Errored, res.Tail(30))
	}
	var vr VResult
	if err := res.TaggedJSON("RESULT", &vr); err != nil {
		return nil, fmt.Errorf("trace validation did not reach the end of the trace: %v\n%s", err, res.Tail(30))
	}
	return &vr, nil
}

// CrashCase is one run of the scenario with faults.
type CrashCase struct {
	Name   string  `json:"name"`
	Faults []Fault `json:"faults"`
}

// CrashFinding is one monitor failure.
type CrashFinding struct {
	Monitor string    `json:"monitor"`
	Case    CrashCase `json:"case"`
	Fired   []string  `json:"fired"`
	Line    CLine     `json:"line"`
}

// CrashReplay is the replay file of C08.
type CrashReplay struct {
	Prop     string       `json:"prop"`
	Seed     int64        `json:"seed"`
	Scenario Scenario     `json:"scenario"`
	Finding  CrashFinding `json:"finding"`
}

func wireSig(ws []WireEv) string {
	var sb strings.Builder
	for _, e := range ws {
		fmt.Fprintf(&sb, "%d%s/%s/%s/%v;", e.Step, e.Stage, e.Kind, e.Stmt, e.InTx)
	}
	return sb.String()
}

func isCommitPoint(e WireEv) bool {
	if e.Kind == "Query" && e.Stmt == "commit" {
		return true
	}
	// autocommit statements that change the database
	return e.Kind == "Execute" && !e.InTx && e.Stmt == "DeleteShutterMessage"
}

func whereFault(w Where, rng *rand.Rand) Fault {
	f := Fault{Kind: "where", Where: &w}
	if w.Pc == "sync" && w.Tx {
		f.Nth = rng.Intn(12) // some message inside the transaction
	}
	return f
}

func assumptionsC08() []string {
	return []string{
		"TLC and the Go toolchain are correct",
		"harness/fakepg implements the repository's SQL and transaction semantics (statement texts pinned by hash); crash granularity is one client->server protocol message",
		"harness/dkg (faketm, scenario runner, projection O) is the trusted binding; a crash is: connection dropped, every further database or RPC call refused, ShuttermintState / sender / pool discarded, new objects created from the database, the interrupted step repeated",
		"one fixed schedule (3 keypers, threshold 2, one Byzantine keyper that deals correctly and falsely accuses the keyper under test, every message in its phase); logical time does not advance during a restart",
		"shlib puredkg/shcrypto is library code outside the repository",
	}
}

// scenarioResult is what one scenario contributed.
type scenarioResult struct {
	code       int // -1 = fine
	violations int
	cov        J
	leads      []string
}

// CheckC08 runs the check of property C08.
func CheckC08(c *core.Ctx) int {
	if c.Replay != "" {
		return ReplayC08(c)
	}
	total := J{"states": 0, "transitions": 0, "traces_validated_against_impl": 0, "evaluations": 0, "distinct_nontrivial": 0}
	var samples []any
	var per []any
	var leads []string
	violations := 0
	scs := scenarios()
	results := make([]scenarioResult, len(scs))
	var swg sync.WaitGroup
	for i := range scs {
		swg.Add(1)
		go func(i int) { // the scenarios are independent of each other
			defer swg.Done()
			results[i] = checkScenario(c, scs[i])
		}(i)
	}
	swg.Wait()
	for i, sc := range scs {
		r := results[i]
		if r.code >= 0 {
			return r.code
		}
		violations += r.violations
		leads = append(leads, r.leads...)
		for k := range total {
			total[k] = total[k].(int) + r.cov[k].(int)
		}
		samples = append(samples, r.cov["samples"].([]any)...)
		delete(r.cov, "samples")
		r.cov["scenario"] = sc
		per = append(per, r.cov)
	}
	total["samples"] = samples
	total["scenarios"] = per
	total["exhaustive"] = c.Thorough()
	total["spec_level_counterexamples"] = leads
	total["rule"] = "per scenario (fixed schedule): TLC explores KeyperCrash exhaustively with a bounded number of crashes (safety monitors as invariants, completion and outbox drain as temporal properties under weak fairness, no state constraint) and prints every abstract crash behaviour; " +
		"on the code side the schedule is re-run once per crash case: connection dropped before the k-th client->server protocol message of the keyper under test (quick: every 8th k and every commit point; thorough: every k), " +
		"connection dropped after applying a commit / autocommit delete, process death between an accepted broadcast and the outbox delete for every broadcast, the TLC behaviours concretised on the fly, and (thorough) pairs; " +
		"evaluations = cases executed; distinct_nontrivial = distinct descriptions of where the faults actually fired (protocol message, statement, step) over the cases in which all faults fired"
	if err := ev.Write(ev.Evidence{PropertyID: c.Prop, Tier: c.Tier, Seed: c.Seed, Level: "model_checking", Coverage: total,
		Assumptions: assumptionsC08(), WallS: time.Since(c.Start).Seconds(), Violations: violations}); err != nil {
		fmt.Fprintln(os.Stderr, "cannot write evidence:", err)
	}
	if violations > 0 {
		return core.ExitViolation
	}
	if len(leads) > 0 {
		fmt.Println("MODEL-MISMATCH (spec-level counterexample not reproduced on the code):", leads)
		return core.ExitInconclusive
	}
	fmt.Printf("OK property=%s tier=%s\n", c.Prop, c.Tier)
	return core.ExitOK
}

func checkScenario(c *core.Ctx, sc Scenario) scenarioResult {
	fail := func(code int) scenarioResult { return scenarioResult{code: code} }
	known := core.LoadKnown().For(c.Prop)
	maxCrashes := 1
	if c.Thorough() {
		maxCrashes = 2
	}
	c.Logf("scenario %s: TLC KeyperCrash exhaustive, <=%d crashes, safety + liveness under fairness", sc.Name, maxCrashes)
	g, err := GenerateCrash(c, sc, maxCrashes)
	if err != nil {
		fmt.Println("INCONCLUSIVE:", err)
		return fail(core.ExitInconclusive)
	}
	c.Logf("TLC: %d distinct states, %d abstract crash behaviours, specviol=%q, alternative gobzero: %q (%.1fs)", g.Distinct, len(g.Behaviours), g.SpecViol, g.AltViol, g.Wall)

	// baseline (twice: the numbering of the protocol messages must be reproducible)
	seed := c.Seed*7919 + 13
	base, err := executeCrash(sc, seed, 0, nil, nil, true)
	if err != nil {
		fmt.Println("INCONCLUSIVE: crash-free run failed:", err)
		return fail(core.ExitInconclusive)
	}
	base2, err := executeCrash(sc, seed, 0, nil, nil, true)
	if err != nil || wireSig(base.wire) != wireSig(base2.wire) {
		fmt.Println("INCONCLUSIVE: the protocol message sequence of the crash-free run is not reproducible", err)
		return fail(core.ExitInconclusive)
	}
	if pm := base.kut.PG.PinMismatches(); len(pm) > 0 {
		fmt.Println("INCONCLUSIVE: fakepg pin mismatches:", pm)
		return fail(core.ExitInconclusive)
	}
	var twin []J
	for _, l := range base.lines {
		twin = append(twin, l.St)
	}
	M := len(base.wire)
	S := len(base.kut.TM.Sent)
	c.Logf("crash-free run: %d protocol messages of the keyper under test, %d broadcasts, %d steps", M, S, len(base.lines)-2)

	// the cases
	rng := rand.New(rand.NewSource(c.Seed + 5))
	var cases []CrashCase
	cases = append(cases, CrashCase{Name: "crash-free"})
	stride := 8
	if c.Thorough() {
		stride = 1
	}
	off := int(c.Seed % int64(stride))
	if off < 0 {
		off = 0
	}
	commitPoints := 0
	for _, e := range base.wire {
		cp := isCommitPoint(e)
		if cp {
			commitPoints++
		}
		if (e.N-1)%stride == off || cp {
			cases = append(cases, CrashCase{Name: fmt.Sprintf("before-%d(%s %s)", e.N, e.Kind, e.Stmt), Faults: []Fault{{Kind: "db-before", At: e.N}}})
		}
		if cp {
			cases = append(cases, CrashCase{Name: fmt.Sprintf("after-%d(%s %s)", e.N, e.Kind, e.Stmt), Faults: []Fault{{Kind: "db-aftercommit", At: e.N}}})
		}
	}
	for j := 1; j <= S; j++ {
		cases = append(cases, CrashCase{Name: fmt.Sprintf("tm-afteraccept-%d", j), Faults: []Fault{{Kind: "tm-afteraccept", At: j}}})
	}
	abstract := g.Behaviours
	maxAbs := 24
	if c.Thorough() {
		maxAbs = 1200
	}
	if len(abstract) > maxAbs {
		rng.Shuffle(len(abstract), func(i, j int) { abstract[i], abstract[j] = abstract[j], abstract[i] })
		abstract = abstract[:maxAbs]
	}
	for i, b := range abstract {
		var fs []Fault
		for _, wh := range b {
			fs = append(fs, whereFault(wh, rng))
		}
		cases = append(cases, CrashCase{Name: fmt.Sprintf("tlc-%d", i+1), Faults: fs})
	}
	if len(g.AltCr) > 0 {
		// the counterexample of the documented alternative is a lead that is replayed on every run
		var fs []Fault
		for _, wh := range g.AltCr {
			fs = append(fs, whereFault(wh, rng))
		}
		cases = append(cases, CrashCase{Name: "tlc-alt-gobzero", Faults: fs})
	}
	if c.Thorough() {
		for k1 := 1 + off%4; k1 <= M; k1 += 4 {
			for _, k2 := range []int{1, 4, 9, 17, 30, 60} {
				cases = append(cases, CrashCase{Name: fmt.Sprintf("pair-%d+%d", k1, k2), Faults: []Fault{{Kind: "db-before", At: k1}, {Kind: "db-before", At: k2}}})
			}
		}
		for j := 1; j <= S; j++ {
			for _, k2 := range []int{3, 12} {
				cases = append(cases, CrashCase{Name: fmt.Sprintf("pair-tm%d+%d", j, k2), Faults: []Fault{{Kind: "tm-afteraccept", At: j}, {Kind: "db-before", At: k2}}})
			}
		}
	}
	c.Logf("%d crash cases (%d commit points, every %d. protocol message, %d broadcast points, %d TLC behaviours)", len(cases), commitPoints, stride, S, len(abstract))

	// execute
	runs := make([]*crashRun, len(cases))
	errs := make([]error, len(cases))
	var wg sync.WaitGroup
	sem := make(chan struct{}, 5)
	for i := range cases {
		wg.Add(1)
		go func(i int) {
			defer wg.Done()
			sem <- struct{}{}
			defer func() { <-sem }()
			runs[i], errs[i] = executeCrash(sc, seed, i+1, cases[i].Faults, twin, false)
		}(i)
	}
	wg.Wait()
	fired, notFired := 0, 0
	distinct := map[string]bool{}
	for i, r := range runs {
		if errs[i] != nil && (r == nil || len(r.lines) == 0) {
			fmt.Printf("INCONCLUSIVE: case %s: %v\n", cases[i].Name, errs[i])
			return fail(core.ExitInconclusive)
		}
		if errs[i] != nil {
			// the keyper did not get through a step any more: an observed behaviour
			r.lines = append(r.lines, CLine{K: "step", Run: i + 1, What: "stuck", Mids: []J{}, St: r.O(), Twin: twin[len(twin)-1], Keys: []J{}, Panic: errs[i].Error()})
		}
		if len(r.fired) >= len(cases[i].Faults) && len(cases[i].Faults) > 0 {
			fired++
			distinct[strings.Join(r.fired, "|")] = true
		} else if len(cases[i].Faults) > 0 {
			notFired++
		}
	}
	c.Logf("executed %d cases: all faults fired in %d, not (all) in %d", len(cases), fired, notFired)
	if fired == 0 {
		fmt.Println("INCONCLUSIVE: no fault fired")
		return fail(core.ExitInconclusive)
	}

	// validate
	const perChunk = 40
	type chunk struct {
		from, to int
		lines    []CLine
		vr       *VResult
		err      error
	}
	var chunks []*chunk
	for i := 0; i < len(runs); i += perChunk {
		j := i + perChunk
		if j > len(runs) {
			j = len(runs)
		}
		ch := &chunk{from: i, to: j}
		for _, r := range runs[i:j] {
			ch.lines = append(ch.lines, r.lines...)
		}
		chunks = append(chunks, ch)
	}
	vsem := make(chan struct{}, 4)
	for _, ch := range chunks {
		wg.Add(1)
		go func(ch *chunk) {
			defer wg.Done()
			vsem <- struct{}{}
			defer func() { <-vsem }()
			ch.vr, ch.err = validateCrash(sc, marshalLines(ch.lines))
		}(ch)
	}
	wg.Wait()
	violations, lines, driftN := 0, 0, 0
	reported := 0
	var findings []CrashFinding
	for _, ch := range chunks {
		if ch.err != nil {
			fmt.Println("INCONCLUSIVE:", ch.err)
			return fail(core.ExitInconclusive)
		}
		lines += ch.vr.Lines
		for _, n := range ch.vr.Drift {
			driftN++
			if driftN <= 8 && n >= 1 && n <= len(ch.lines) {
				l := ch.lines[n-1]
				fmt.Printf("DRIFT scenario="+sc.Name+" case=%s step=%s block=%d crashes=%d (observed step is not a step of the code-shaped spec)\n", cases[l.Run-1].Name, l.What, l.H, l.Crashes)
			}
		}
		for _, v := range ch.vr.Viol {
			if len(v) != 2 {
				continue
			}
			n, _ := v[0].(float64)
			m, _ := v[1].(string)
			if int(n) < 1 || int(n) > len(ch.lines) {
				continue
			}
			l := ch.lines[int(n)-1]
			findings = append(findings, CrashFinding{Monitor: m, Case: cases[l.Run-1], Fired: runs[l.Run-1].fired, Line: l})
		}
	}
	sort.SliceStable(findings, func(i, j int) bool { return len(findings[i].Case.Faults) < len(findings[j].Case.Faults) })
	knownHit := map[string]bool{}
	for _, f := range findings {
		if k := matchKnownC08(known, f); k != nil {
			if !knownHit[k.ID] {
				core.PrintKnown(*k)
				knownHit[k.ID] = true
			}
			continue
		}
		violations++
		if reported < 4 {
			path := c.WriteReplay(fmt.Sprintf("%s-%d", sc.Name, reported), CrashReplay{Prop: c.Prop, Seed: seed, Scenario: sc, Finding: f})
			c.Violation(path, fmt.Sprintf("monitor %s failed in step %s of block %d, case %s: %v", f.Monitor, f.Line.What, f.Line.H, f.Case.Name, f.Fired))
			reported++
		}
	}
	c.Logf("%d trace lines validated, %d monitor failures, %d drift lines", lines, len(findings), driftN)
	var leads []string
	if g.SpecViol != "" {
		leads = append(leads, g.SpecViol)
	}
	samples := []any{}
	for _, i := range []int{1, len(cases) / 2, len(cases) - 1} {
		if i >= 0 && i < len(cases) {
			samples = append(samples, J{"case": cases[i], "fired": runs[i].fired})
		}
	}
	cov := J{
		"states": g.Distinct, "transitions": g.States, "traces_validated_against_impl": len(runs), "samples": samples,
		"evaluations": len(cases), "distinct_nontrivial": len(distinct),
		"protocol_messages": M, "commit_points": commitPoints, "broadcasts": S, "cases_all_faults_fired": fired, "cases_fault_not_reached": notFired,
		"tlc_wall_s": g.Wall, "tlc_behaviours": len(g.Behaviours), "trace_lines_validated": lines, "drift_lines": driftN,
		"alternative_gobzero_counterexample": g.AltViol,
	}
	return scenarioResult{code: -1, violations: violations, cov: cov, leads: leads}
}

func matchKnownC08(known []core.Finding, f CrashFinding) *core.Finding {
	for i := range known {
		if mon, _ := known[i].Match["monitor"].(string); mon != "" && mon == f.Monitor {
			return &known[i]
		}
	}
	return nil
}

// ReplayC08 re-runs the crash case of a replay file.
func ReplayC08(c *core.Ctx) int {
	b, err := os.ReadFile(c.Replay)
	if err != nil {
		fmt.Println("INCONCLUSIVE:", err)
		return core.ExitInconclusive
	}
	var rf CrashReplay
	if err := json.Unmarshal(b, &rf); err != nil {
		fmt.Println("INCONCLUSIVE:", err)
		return core.ExitInconclusive
	}
	base, err := executeCrash(rf.Scenario, rf.Seed, 0, nil, nil, false)
	if err != nil {
		fmt.Println("INCONCLUSIVE:", err)
		return core.ExitInconclusive
	}
	var twin []J
	for _, l := range base.lines {
		twin = append(twin, l.St)
	}
	r, err := executeCrash(rf.Scenario, rf.Seed, 1, rf.Finding.Case.Faults, twin, false)
	if r == nil || len(r.lines) == 0 {
		fmt.Println("INCONCLUSIVE:", err)
		return core.ExitInconclusive
	}
	if err != nil {
		r.lines = append(r.lines, CLine{K: "step", Run: 1, What: "stuck", Mids: []J{}, St: r.O(), Twin: twin[len(twin)-1], Keys: []J{}, Panic: err.Error()})
	}
	vr, err := validateCrash(rf.Scenario, marshalLines(r.lines))
	if err != nil {
		fmt.Println("INCONCLUSIVE:", err)
		return core.ExitInconclusive
	}
	fmt.Printf("case: %s\nfired: %v\nviol=%v drift=%v\n", rf.Finding.Case.Name, r.fired, vr.Viol, vr.Drift)
	for _, v := range vr.Viol {
		if len(v) == 2 && v[1] == rf.Finding.Monitor {
			c.Violation(c.Replay, "reproduced "+rf.Finding.Monitor)
			return core.ExitViolation
		}
	}
	fmt.Println("not reproduced")
	return core.ExitOK
}
