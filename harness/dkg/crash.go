package dkg

import (
	"bytes"
	"context"
	"encoding/json"
	"fmt"
	"math/big"
	"sort"
	"sync"

	"github.com/ethereum/go-ethereum/common"
	"github.com/shutter-network/shutter/shlib/shcrypto"
	"google.golang.org/protobuf/proto"

	"github.com/shutter-network/rolling-shutter/rolling-shutter/app"
	kprdb "github.com/shutter-network/rolling-shutter/rolling-shutter/keyper/database"
	"github.com/shutter-network/rolling-shutter/rolling-shutter/shmsg"

	"github.com/shutter-network/rolling-shutter/rolling-shutter/shdb"

	obskeyper "github.com/shutter-network/rolling-shutter/rolling-shutter/chainobserver/db/keyper"

	"verif/harness/fakepg"
	"verif/harness/sm"
)

// Where is an abstract crash point of KeyperCrashMC (the ghost record cr).
type Where struct {
	Pc       string `json:"pc"`
	Head     int    `json:"head"`
	Sync     int    `json:"sync"`
	Tx       bool   `json:"tx"`
	Inflight bool   `json:"inflight"`
	Ob       int    `json:"ob"`
}

// Fault is one crash to inject into the keyper under test.
type Fault struct {
	Kind  string `json:"kind"`            // "db-before" | "db-aftercommit" | "tm-afteraccept" | "where"
	At    int    `json:"at,omitempty"`    // db-*: wire message number (since the scenario start / the last restart); tm: n-th accepted broadcast
	Where *Where `json:"where,omitempty"` // abstract crash point to be matched on the fly
	Nth   int    `json:"nth,omitempty"`   // where: take the n-th matching wire message (0 = first)
}

// WireEv is one client->server protocol message of the keyper under test in the baseline run.
type WireEv struct {
	N     int    `json:"n"`
	Step  int    `json:"step"`
	Stage string `json:"stage"`
	Blk   int    `json:"blk"`
	Kind  string `json:"kind"`
	Stmt  string `json:"stmt"`
	InTx  bool   `json:"intx"`
}

// CLine is one ndjson line for KeyperCrashTrace.tla.
type CLine struct {
	K       string `json:"k"`
	Run     int    `json:"run"`
	What    string `json:"what"`
	H       int    `json:"h"`
	Crashes int    `json:"crashes"`
	Mids    []J    `json:"mids"`
	St      J      `json:"st"`
	Twin    J      `json:"twin"`
	Keys    []J    `json:"keys"`
	Panic   string `json:"panic"`
}

// Scenario is the fixed environment of the keyper under test (constants of KeyperCrash.tla).
type Scenario struct {
	Cfg       Cfg    `json:"cfg"`
	Name      string `json:"name"`
	Kut       int    `json:"kut"`
	DealBlock int    `json:"dealBlock"` // block in which the other keypers' commitments and evals land
	AccBlock  int    `json:"accBlock"`
	SyncEvery int    `json:"syncEvery"` // the keyper under test calls SyncAppWithDB only after the blocks h with
	SyncOff   int    `json:"syncOff"`   // h % SyncEvery == SyncOff (and after the last block): catch-up over several blocks
	// Gov: governance prefix: the run starts before the keyper set of the eon is registered; the keyper
	// under test queues its own BatchConfig vote through KeyperCore.handleOnChainChanges; the other
	// keypers' votes register the config in block 0, their BlockSeen reports start it with block 1.
	// DownUntil > 0: the keyper process dies right after the transaction that queued its vote and is
	// started again when block DownUntil is open.
	Gov       bool `json:"gov"`
	DownUntil int  `json:"downUntil"`
	LateBlock int  `json:"lateBlock"` // block carrying the check-in of the Byzantine keyper (its key is unknown at eon start); 0: checked in before
}

func (sc Scenario) syncNow(h int) bool {
	return h%sc.SyncEvery == sc.SyncOff || h == sc.Cfg.LastBlock()
}

// scenarios: "together": every dealer's messages land in block 1; "staggered": the messages of the
// keyper under test land alone in block 1 (so that block's transaction touches the DKG object only
// through the keyper's own commitment), the other dealers' in block 2, late in a longer dealing phase.
func scenarios() []Scenario {
	return []Scenario{
		{Name: "together", Cfg: Cfg{N: 3, T: 2, Byz: []int{3}, PhaseLen: 2}, Kut: 1, DealBlock: 1, AccBlock: 3, SyncEvery: 1, LateBlock: 0},
		// staggered also has the previous eon overlapping (two active DKG objects while block 0 is handled)
		{Name: "staggered", Cfg: Cfg{N: 3, T: 2, Byz: []int{3}, PhaseLen: 3, Overlap: true}, Kut: 1, DealBlock: 2, AccBlock: 4, SyncEvery: 1, LateBlock: 0},
		// lagging: one SyncAppWithDB call of the keyper under test handles 2 (blocks 0+1, 2+3, ..) resp.
		// 3 (1-3, 4-6, ..) blocks, one transaction each; the EonStarted block / the block with the own
		// commitment is not the last one of its batch
		// lag2 also has a keyper checking in late (block 1): its evaluation is queued as a second poly-eval
		// message by the transaction of block 1, in the same SyncAppWithDB call that queued the first
		{Name: "lag2", Cfg: Cfg{N: 3, T: 2, Byz: []int{3}, PhaseLen: 3}, Kut: 1, DealBlock: 2, AccBlock: 4, SyncEvery: 2, SyncOff: 1, LateBlock: 1},
		{Name: "gov-down", Cfg: Cfg{N: 3, T: 2, Byz: []int{3}, PhaseLen: 3}, Kut: 1, DealBlock: 2, AccBlock: 4, SyncEvery: 1, Gov: true, DownUntil: 2},
		{Name: "lag3", Cfg: Cfg{N: 3, T: 2, Byz: []int{3}, PhaseLen: 3}, Kut: 1, DealBlock: 1, AccBlock: 4, SyncEvery: 3, SyncOff: 0, LateBlock: 0},
	}
}

type crashRun struct {
	sc     Scenario
	w      *World
	kut    *Node
	mu     sync.Mutex
	faults []Fault
	armed  *Fault
	seenN  int // matches of the armed "where" fault so far
	count  int // wire messages since the scenario start / the last restart
	total  int // wire messages since the scenario start
	dead   bool
	fired  []string
	stage  string
	blk    int
	step   int
	record bool
	wire   []WireEv
	lines  []CLine
	twin   []J // O after every step of the crash-free run
	run    int
	gammas [][]byte    // polynomial tokens: compressed gammas by first appearance
	everQ  map[int32]J // every outbox row ever seen committed (id -> [k, p])
	gm     []*shcrypto.Gammas
}

// dbSync is the relative height of the last block applied in the committed database.
func (r *crashRun) dbSync() int {
	h := int64(-1 << 40)
	r.kut.PG.View(func(db *fakepg.DB) {
		for _, m := range db.TendermintSyncMeta {
			if m.CurrentBlock > h {
				h = m.CurrentBlock
			}
		}
	})
	return int(h - r.w.H0)
}

func (r *crashRun) outboxLen() int {
	n := 0
	r.kut.PG.View(func(db *fakepg.DB) { n = len(db.TendermintOutgoingMessages) })
	return n
}

// noteQueued remembers every outbox row of the committed database (called before every protocol
// message and at every observation, so no committed row escapes: rows change only at commits).
func (r *crashRun) noteQueued() {
	var rows []kprdb.TendermintOutgoingMessage
	r.kut.PG.View(func(db *fakepg.DB) { rows = append(rows, db.TendermintOutgoingMessages...) })
	for _, row := range rows {
		if _, ok := r.everQ[row.ID]; ok {
			continue
		}
		m := &shmsg.Message{}
		if err := proto.Unmarshal(row.Msg, m); err != nil {
			r.everQ[row.ID] = J{"k": "garbage", "p": 0}
			continue
		}
		r.everQ[row.ID] = r.absMsg(m)
	}
}

// matchWhere decides whether the wire message ev is a concrete instance of the abstract crash
// point wh, and with which fault.
func (r *crashRun) matchWhere(wh *Where, ev fakepg.Event) (fakepg.Fault, bool) {
	switch wh.Pc {
	case "gov":
		if r.stage == "gov" && !ev.InTx && ev.Stmt != "commit" {
			return fakepg.DropBefore, true
		}
	case "sync":
		if r.stage != "sync" {
			return fakepg.None, false
		}
		applied := r.dbSync() // blocks whose transaction is committed
		switch {
		case !wh.Tx && wh.Sync < wh.Head: // before the transaction of block sync+1 (possibly in the middle of a batch)
			if r.blk == wh.Head && !ev.InTx && ev.Stmt != "commit" && applied == wh.Sync {
				return fakepg.DropBefore, true
			}
		case wh.Tx: // inside the transaction of block sync+1
			if r.blk == wh.Head && ev.InTx && applied == wh.Sync {
				return fakepg.DropBefore, true
			}
		default: // the last transaction of the call committed, reply lost
			if r.blk == wh.Head && ev.Kind == fakepg.KindQuery && ev.Stmt == "commit" && applied == wh.Head-1 {
				return fakepg.DropAfterCommit, true
			}
		}
	case "post":
		if r.stage != "post" || r.blk != wh.Head+1 || wh.Inflight {
			return fakepg.None, false
		}
		if wh.Ob > 0 {
			if ev.Stmt == "GetNextShutterMessage" && r.outboxLen() == wh.Ob {
				return fakepg.DropBefore, true
			}
		} else {
			n := r.outboxLen()
			if ev.Stmt == "DeleteShutterMessage" && ev.Kind == fakepg.KindExecute && n == 1 {
				return fakepg.DropAfterCommit, true
			}
			if ev.Stmt == "GetNextShutterMessage" && n == 0 {
				return fakepg.DropBefore, true
			}
		}
	}
	return fakepg.None, false
}

func (r *crashRun) hook(ev fakepg.Event) fakepg.Fault {
	if !ev.IsMessage() {
		return fakepg.None
	}
	r.mu.Lock()
	defer r.mu.Unlock()
	if r.dead {
		return fakepg.DropBefore
	}
	r.count++
	r.total++
	r.noteQueued()
	if r.record {
		r.wire = append(r.wire, WireEv{N: r.total, Step: r.step, Stage: r.stage, Blk: r.blk, Kind: ev.Kind, Stmt: ev.Stmt, InTx: ev.InTx})
	}
	f := r.armed
	if f == nil {
		return fakepg.None
	}
	fire := func(ft fakepg.Fault, what string) fakepg.Fault {
		r.dead = true
		r.armed = nil
		r.fired = append(r.fired, fmt.Sprintf("%s at wire message %d (%s %s intx=%v) in %s of block %d", what, r.total, ev.Kind, ev.Stmt, ev.InTx, r.stage, r.blk))
		return ft
	}
	switch f.Kind {
	case "db-before":
		if r.count == f.At {
			return fire(fakepg.DropBefore, "connection dropped before")
		}
	case "db-aftercommit":
		if r.count == f.At {
			return fire(fakepg.DropAfterCommit, "connection dropped after applying")
		}
	case "where":
		if ft, ok := r.matchWhere(f.Where, ev); ok {
			if r.seenN == f.Nth {
				return fire(ft, "abstract crash point matched,")
			}
			r.seenN++
		}
	}
	return fakepg.None
}

// tmPred is asked by faketm after every accepted broadcast of the keyper under test.
func (r *crashRun) tmPred() bool {
	r.mu.Lock()
	defer r.mu.Unlock()
	f := r.armed
	if f == nil || r.dead {
		return false
	}
	hit := false
	switch f.Kind {
	case "tm-afteraccept":
		f.At--
		hit = f.At == 0
	case "where":
		wh := f.Where
		hit = wh.Pc == "post" && wh.Inflight && r.stage == "post" && r.blk == wh.Head+1 && r.outboxLen() == wh.Ob
	}
	if hit {
		r.dead = true
		r.armed = nil
		r.fired = append(r.fired, fmt.Sprintf("process died between an accepted broadcast and the outbox delete in %s of block %d", r.stage, r.blk))
	}
	return hit
}

func (r *crashRun) arm() {
	r.mu.Lock()
	defer r.mu.Unlock()
	if r.armed == nil && len(r.faults) > 0 {
		f := r.faults[0]
		r.faults = r.faults[1:]
		r.armed = &f
		r.seenN = 0
	}
}

func (r *crashRun) restart() error { return r.restartOpt(true) }

// restartOpt: a restart after an injected crash restarts the numbering of the protocol messages
// (second faults count from there); the restart after the scheduled outage does not.
func (r *crashRun) restartOpt(resetCount bool) error {
	r.mu.Lock()
	r.dead = false
	if resetCount {
		r.count = 0
	}
	r.mu.Unlock()
	if err := r.kut.start(context.Background()); err != nil {
		return err
	}
	r.kut.TM.CrashPred = r.tmPred
	return nil
}

// ---------------------------------------------------------------------------------------------
// projection of the keyper under test for KeyperCrash.tla

func (r *crashRun) tokenOfGammas(g *shcrypto.Gammas) int {
	if g == nil || len(*g) == 0 {
		return 0
	}
	var b []byte
	for _, p := range *g {
		b = append(b, p.Compress()...)
	}
	for i, x := range r.gammas {
		if bytes.Equal(x, b) {
			return i + 1
		}
	}
	r.gammas = append(r.gammas, b)
	c := *g
	r.gm = append(r.gm, &c)
	return len(r.gammas)
}

func (r *crashRun) tokenOfEval(receiver int, e *big.Int) int {
	for i, g := range r.gm {
		if shcrypto.VerifyPolyEval(receiver-1, e, g, uint64(r.sc.Cfg.T)) {
			return i + 1
		}
	}
	return 99
}

// absMsg projects a message of the keyper under test to [k, p].
func (r *crashRun) absMsg(m *shmsg.Message) J {
	w := r.w
	if e, ok := eonOf(m); ok && e != w.Eon {
		return J{"k": "old", "p": 0} // left over from the failed first eon
	}
	switch {
	case m.GetPolyCommitment() != nil:
		pc, err := app.ParsePolyCommitmentMsg(m.GetPolyCommitment(), w.addr(r.sc.Kut))
		if err != nil {
			return J{"k": "commit", "p": 99}
		}
		return J{"k": "commit", "p": r.tokenOfGammas(pc.Gammas)}
	case m.GetPolyEval() != nil:
		pe := m.GetPolyEval()
		tok := 0
		for j, rc := range pe.Receivers {
			ri := w.idxOf(common.BytesToAddress(rc))
			t := 99
			if ri > 0 && j < len(pe.EncryptedEvals) {
				if pt, err := w.encs[ri].Decrypt(pe.EncryptedEvals[j], nil, nil); err == nil {
					t = r.tokenOfEval(ri, new(big.Int).SetBytes(pt))
				}
			}
			if tok == 0 || t > tok {
				tok = t
			}
		}
		// which receivers: all others / all others but the late keyper ("eval"), only the late keyper ("eval2")
		late := 0
		if r.sc.LateBlock > 0 && len(r.sc.Cfg.Byz) > 0 {
			late = r.sc.Cfg.Byz[0]
		}
		kind, hasLate := "eval", false
		for _, rc := range pe.Receivers {
			if w.idxOf(common.BytesToAddress(rc)) == late && late > 0 {
				hasLate = true
			}
		}
		switch {
		case late > 0 && hasLate && len(pe.Receivers) == 1:
			kind = "eval2"
		case late > 0 && !hasLate && len(pe.Receivers) == w.Cfg.N-2:
		case late == 0 && len(pe.Receivers) == w.Cfg.N-1:
		default:
			tok = 99
		}
		return J{"k": kind, "p": tok}
	case m.GetAccusation() != nil:
		return J{"k": "acc", "p": 0}
	case m.GetApology() != nil:
		ap := m.GetApology()
		tok := 0
		for j, a := range ap.Accusers {
			ai := w.idxOf(common.BytesToAddress(a))
			t := 99
			if ai > 0 && j < len(ap.PolyEvals) {
				t = r.tokenOfEval(ai, new(big.Int).SetBytes(ap.PolyEvals[j]))
			}
			if tok == 0 || t > tok {
				tok = t
			}
		}
		return J{"k": "apol", "p": tok}
	case m.GetDkgResult() != nil:
		return J{"k": "result", "p": 0}
	case m.GetCheckIn() != nil:
		return J{"k": "checkin", "p": 0}
	case m.GetBatchConfig() != nil:
		return J{"k": "vote", "p": 0}
	case m.GetBlockSeen() != nil:
		return J{"k": "bseen", "p": 0}
	}
	return J{"k": "other", "p": 0}
}

// O is the observation of the keyper under test: Abs of its database and everything it broadcast.
func (r *crashRun) O() J {
	w, n := r.w, r.kut
	N := w.Cfg.N
	self := r.sc.Kut
	rec := J{"phase": 0, "poly": 0, "own": false, "recv": 0, "accd": false, "apst": false}
	pure := false
	loadable := true
	var rawRows int
	n.PG.View(func(db *fakepg.DB) {
		for _, row := range db.Puredkg {
			if uint64(row.Eon) == w.Eon {
				rawRows++
			}
			if _, err := shdb.DecodePureDKG(row.Puredkg); err != nil {
				loadable = false // what smstate.loadDKG of a restarted keyper would run into
			}
		}
	})
	if rawRows > 0 && w.pure(n) == nil {
		pure = true
		rec["phase"] = 98 // stored but not decodable
	}
	if p := w.pure(n); p != nil {
		pure = true
		rec["phase"] = int(p.Phase)
		if p.Polynomial != nil {
			rec["poly"] = r.tokenOfGammas(p.Polynomial.Gammas())
			w.learn(self)
		}
	}
	var rows []int
	var outRows []kprdb.TendermintOutgoingMessage
	eonkeys := 0
	var pend []kprdb.PolyEval
	cfgseen := false
	n.PG.View(func(db *fakepg.DB) {
		for _, bc := range db.TendermintBatchConfig {
			if bc.KeyperConfigIndex == 1 {
				cfgseen = true
			}
		}
		for _, pe := range db.PolyEvals {
			if uint64(pe.Eon) == w.Eon {
				pend = append(pend, pe)
			}
		}
		for _, m := range db.TendermintSyncMeta {
			if m.CurrentBlock >= w.H0 {
				rows = append(rows, int(m.CurrentBlock-w.H0))
			}
		}
		outRows = append(outRows, db.TendermintOutgoingMessages...)
		eonkeys = len(db.OutgoingEonKeys)
	})
	if rows == nil {
		rows = []int{}
	}
	syncH := -1
	for _, x := range rows {
		if x > syncH {
			syncH = x
		}
	}
	for i := 0; i < len(outRows); i++ {
		for j := i + 1; j < len(outRows); j++ {
			if outRows[j].ID < outRows[i].ID {
				outRows[i], outRows[j] = outRows[j], outRows[i]
			}
		}
	}
	if p := w.pure(n); p != nil {
		own := w.gammaClass(self, p.Commitments[self-1]) == "good" && r.tokenOfGammas(p.Commitments[self-1]) == rec["poly"]
		recv := 0
		for d := 1; d <= N; d++ {
			if d != self && w.gammaClass(d, p.Commitments[d-1]) == "good" && w.evalClass(d, self, p.Evals[d-1]) == "ok" {
				recv++
			}
		}
		accd, apst := false, false
		for key := range p.Accusations {
			if int(key.Accused) == self-1 {
				accd = true
			}
		}
		for key := range p.Apologies {
			if int(key.Accused) == self-1 {
				apst = true
			}
		}
		rec["own"], rec["recv"], rec["accd"], rec["apst"] = own, recv, accd, apst
	}
	outbox := []J{}
	for _, row := range outRows {
		m := &shmsg.Message{}
		if err := proto.Unmarshal(row.Msg, m); err != nil {
			outbox = append(outbox, J{"k": "garbage", "p": 0})
			continue
		}
		outbox = append(outbox, r.absMsg(m))
	}
	res := "none"
	if row, pr := w.result(n); row != nil {
		res = "other"
		if row.Success {
			q := w.qualOf(pr)
			all := true
			for _, b := range q {
				all = all && b
			}
			if all {
				res = "full"
			}
		}
	}
	sent := []J{}
	for _, s := range n.TM.Sent {
		m := J{"k": "garbage", "p": 0}
		if mm := decodeTx(s.Tx); mm != nil {
			m = r.absMsg(mm)
		}
		m["code"] = int(s.Code)
		sent = append(sent, m)
	}
	evp := 0
	for _, pe := range pend {
		t := 99
		if a, err := shdb.DecodeAddress(pe.ReceiverAddress); err == nil {
			if ri := w.idxOf(a); ri > 0 {
				t = r.tokenOfEval(ri, shdb.DecodeBigint(pe.Eval))
			}
		}
		if t > evp {
			evp = t
		}
	}
	r.noteQueued()
	ids := make([]int, 0, len(r.everQ))
	for id := range r.everQ {
		ids = append(ids, int(id))
	}
	sort.Ints(ids)
	queued := []J{}
	for _, id := range ids {
		queued = append(queued, r.everQ[int32(id)])
	}
	return J{"db": J{"sync": syncH, "rows": rows, "pure": pure, "rec": rec, "cfgseen": cfgseen, "evp": evp, "loadable": loadable, "outbox": outbox, "res": res, "eonkeys": eonkeys},
		"sent": sent, "queued": queued}
}

// govActivation is the activation block number of keyper set 1 in the governance prefix.
const govActivation = 100

func decodeTx(tx []byte) *shmsg.Message {
	raw, err := base64Decode(tx)
	if err != nil {
		return nil
	}
	mw, err := shmsg.GetMessage(raw)
	if err != nil || mw.Msg == nil {
		return nil
	}
	return mw.Msg
}

// ---------------------------------------------------------------------------------------------
// the scenario

// kutStep runs one step of the keyper under test; when the process "dies" in it, the database
// is observed, the keyper is restarted from its database and the step is done again (logical
// time does not advance during a restart).
func (r *crashRun) kutStep(what string, blk int, f func()) error {
	r.mu.Lock()
	r.stage, r.blk = what, blk
	r.step++
	r.mu.Unlock()
	var mids []J
	np := len(r.w.Panics)
	for attempt := 0; ; attempt++ {
		if attempt > 6 {
			return fmt.Errorf("keyper under test does not get through step %s of block %d", what, blk)
		}
		r.arm()
		f()
		r.mu.Lock()
		died := r.dead
		r.mu.Unlock()
		if !died {
			break
		}
		mids = append(mids, r.O())
		for tries := 0; ; tries++ {
			err := r.restart()
			if err == nil {
				break
			}
			r.mu.Lock()
			again := r.dead && tries < 4 // the next fault hit the starting process: it dies again
			r.mu.Unlock()
			if !again {
				return err
			}
			mids = append(mids, r.O())
		}
	}
	r.emit(what, blk, mids, np)
	return nil
}

func (r *crashRun) emit(what string, blk int, mids []J, np int) {
	if mids == nil {
		mids = []J{}
	}
	l := CLine{K: "step", Run: r.run, What: what, H: blk, Crashes: len(mids), Mids: mids, St: r.O(), Keys: []J{}}
	if len(r.w.Panics) > np {
		l.Panic = fmt.Sprint(r.w.Panics[np:])
	}
	idx := len(r.lines)
	if r.twin != nil && idx < len(r.twin) {
		l.Twin = r.twin[idx]
	} else {
		l.Twin = l.St
	}
	r.lines = append(r.lines, l)
}

// execute runs the whole scenario with the given faults.
func executeCrash(sc Scenario, seed int64, run int, faults []Fault, twin []J, record bool) (*crashRun, error) {
	late := 0
	if sc.LateBlock > 0 && len(sc.Cfg.Byz) > 0 {
		late = sc.Cfg.Byz[0]
	}
	w, err := NewWorldOpts(sc.Cfg, seed, WorldOpts{Hold: sc.Kut, Late: late, FirstEon: sc.Gov})
	if err != nil {
		return nil, err
	}
	defer w.Close()
	r := &crashRun{sc: sc, w: w, kut: w.Nodes[sc.Kut], faults: append([]Fault{}, faults...), twin: twin, run: run, record: record, everQ: map[int32]J{}}
	if r.kut == nil {
		return nil, fmt.Errorf("keyper under test must be honest")
	}
	r.kut.TM.Sent = nil // the prologue's check-in is not part of the scenario
	r.kut.PG.SetFault(r.hook)
	r.kut.TM.CrashPred = r.tmPred
	N := sc.Cfg.N
	byz := 0
	if len(sc.Cfg.Byz) > 0 {
		byz = sc.Cfg.Byz[0]
	}
	if sc.Gov {
		// what the chain observer of the keyper under test has seen on the main chain: keyper set 1
		var addrs []common.Address
		for i := 1; i <= N; i++ {
			addrs = append(addrs, w.addr(i))
		}
		err := obskeyper.New(r.kut.pool).InsertKeyperSet(context.Background(), obskeyper.InsertKeyperSetParams{
			KeyperConfigIndex: 1, ActivationBlockNumber: govActivation, Keypers: shdb.EncodeAddresses(addrs), Threshold: int32(sc.Cfg.T)})
		if err != nil {
			return nil, err
		}
		r.mu.Lock()
		r.count, r.total, r.wire = 0, 0, nil
		r.mu.Unlock()
	}
	r.lines = append(r.lines, CLine{K: "new", Run: run, Mids: []J{}, St: r.O(), Keys: []J{}})
	if twin != nil {
		r.lines[0].Twin = twin[0]
	} else {
		r.lines[0].Twin = r.lines[0].St
	}
	syncKut := func(blk int) error { return r.kutStep("sync", blk, func() { w.syncNode(r.kut) }) }
	first, isDown := 1, false
	if sc.Gov {
		first = 0
		if err := r.kutStep("gov", 0, func() {
			w.guard("handleOnChainChanges", func() error { return r.kut.GovStep(context.Background(), govActivation) })
		}); err != nil {
			return r, err
		}
		isDown = sc.DownUntil > 0 // the process is gone; nothing of it runs until it is started again
	} else if sc.syncNow(0) {
		if err := syncKut(0); err != nil {
			return r, err
		}
	}
	last := sc.Cfg.LastBlock()
	for b := first; b <= last; b++ {
		if sc.Gov && b <= 1 {
			// the other keypers: config votes in block 0 (registered, eon started), BlockSeen reports in
			// block 1 (config started at the end of that block)
			cnt := 0
			for i := 1; i <= N && cnt < sc.Cfg.T; i++ {
				if i == sc.Kut {
					continue
				}
				cnt++
				tx := w.U.Concretise(sm.Tx{K: "vote", S: tokOf(i), N: uint64(800 + i), Cfg: sm.Cfg{Keypers: w.toks, Thr: uint64(sc.Cfg.T), Act: govActivation, Idx: 1}})
				if b == 1 {
					tx = w.U.Concretise(sm.Tx{K: "seen", S: tokOf(i), N: uint64(850 + i), B: govActivation})
				}
				if chk, res, _ := w.Chain.Submit(tx); chk.Code != 0 || res.Code != 0 {
					return r, fmt.Errorf("governance prefix: transaction of k%d refused in block %d: %s %s", i, b, chk.Log, res.Log)
				}
			}
		}
		if isDown && b == sc.DownUntil {
			isDown = false
			if err := r.kutStep("up", b, func() { r.restartOpt(false) }); err != nil {
				return r, err
			}
			if err := syncKut(b - 1); err != nil { // a starting keyper first catches up
				return r, err
			}
		}
		// Byzantine keyper: deals correctly in block 1, accuses the keyper under test in AccBlock
		if byz > 0 && b == sc.DealBlock {
			vals := blankVals(N)
			vals[byz-1] = "good"
			w.Chain.Submit(w.byzTx(Op{Op: "bcommit", S: byz, Vals: vals}))
			ev := blankVals(N)
			for i := 1; i <= N; i++ {
				if !sc.Cfg.IsByz(i) {
					ev[i-1] = "ok"
				}
			}
			w.Chain.Submit(w.byzTx(Op{Op: "beval", S: byz, Vals: ev}))
		}
		if late > 0 && b == sc.LateBlock {
			w.Chain.Submit(w.LateCheckinTx(late))
		}
		if byz > 0 && b == sc.AccBlock {
			vals := blankVals(N)
			vals[sc.Kut-1] = "x"
			w.Chain.Submit(w.byzTx(Op{Op: "bacc", S: byz, Vals: vals}))
		}
		for i := 1; i <= N; i++ {
			if n := w.Nodes[i]; n != nil && i != sc.Kut && b >= sc.DealBlock {
				w.flush(n, 10)
			}
		}
		if !isDown {
			if err := r.kutStep("post", b, func() { w.flush(r.kut, 10) }); err != nil {
				return r, err
			}
		}
		w.Chain.CloseBlock()
		for i := 1; i <= N; i++ {
			if n := w.Nodes[i]; n != nil && i != sc.Kut && b < last {
				w.syncNode(n)
			}
		}
		r.mu.Lock()
		r.stage, r.blk = "close", b
		r.step++
		r.mu.Unlock()
		if isDown {
			r.emit("closedown", b, nil, len(w.Panics))
			if b < last {
				w.Chain.OpenBlock()
			}
			continue
		}
		r.emit("close", b, nil, len(w.Panics))
		if sc.syncNow(b) {
			if err := syncKut(b); err != nil {
				return r, err
			}
		}
		if b < last {
			w.Chain.OpenBlock()
		}
	}
	// outcome of all keypers
	keys := []J{}
	fin := w.Fin()
	for _, x := range fin["res"].([]J) {
		keys = append(keys, J{"done": x["done"], "ok": x["ok"], "pk": x["pk"]})
	}
	l := CLine{K: "fin", Run: run, Mids: []J{}, St: r.O(), Keys: keys}
	if twin != nil {
		l.Twin = twin[len(twin)-1]
	} else {
		l.Twin = l.St
	}
	r.lines = append(r.lines, l)
	return r, nil
}

func marshalLines(ls []CLine) []byte {
	var buf bytes.Buffer
	for _, l := range ls {
		b, _ := json.Marshal(l)
		buf.Write(b)
		buf.WriteByte('\n')
	}
	return buf.Bytes()
}

// eonOf returns the eon a DKG message belongs to.
func eonOf(m *shmsg.Message) (uint64, bool) {
	switch {
	case m.GetPolyCommitment() != nil:
		return m.GetPolyCommitment().Eon, true
	case m.GetPolyEval() != nil:
		return m.GetPolyEval().Eon, true
	case m.GetAccusation() != nil:
		return m.GetAccusation().Eon, true
	case m.GetApology() != nil:
		return m.GetApology().Eon, true
	case m.GetDkgResult() != nil:
		return m.GetDkgResult().Eon, true
	}
	return 0, false
}
