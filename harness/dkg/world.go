package dkg

import (
	"bytes"
	"context"
	"crypto/ecdsa"
	"crypto/ed25519"
	"crypto/sha256"
	"encoding/base64"
	"encoding/hex"
	"fmt"
	"math/big"
	"math/rand"
	"sync"
	"time"

	"github.com/ethereum/go-ethereum/common"
	"github.com/ethereum/go-ethereum/crypto"
	"github.com/ethereum/go-ethereum/crypto/ecies"
	"github.com/jackc/pgx/v4/pgxpool"
	"github.com/rs/zerolog"
	"github.com/shutter-network/shutter/shlib/puredkg"
	"github.com/shutter-network/shutter/shlib/shcrypto"
	abcitypes "github.com/tendermint/tendermint/abci/types"
	"google.golang.org/protobuf/proto"

	"github.com/shutter-network/rolling-shutter/rolling-shutter/app"
	"github.com/shutter-network/rolling-shutter/rolling-shutter/keyper"
	kprdb "github.com/shutter-network/rolling-shutter/rolling-shutter/keyper/database"
	"github.com/shutter-network/rolling-shutter/rolling-shutter/keyper/dkgphase"
	"github.com/shutter-network/rolling-shutter/rolling-shutter/keyper/fx"
	"github.com/shutter-network/rolling-shutter/rolling-shutter/keyper/kprconfig"
	"github.com/shutter-network/rolling-shutter/rolling-shutter/keyper/shutterevents"
	"github.com/shutter-network/rolling-shutter/rolling-shutter/keyper/smobserver"
	"github.com/shutter-network/rolling-shutter/rolling-shutter/medley/configuration"
	metadb "github.com/shutter-network/rolling-shutter/rolling-shutter/medley/db"
	"github.com/shutter-network/rolling-shutter/rolling-shutter/medley/encodeable/keys"
	"github.com/shutter-network/rolling-shutter/rolling-shutter/shdb"
	"github.com/shutter-network/rolling-shutter/rolling-shutter/shmsg"

	"verif/harness/fakepg"
	"verif/harness/sm"
)

func init() { zerolog.SetGlobalLevel(zerolog.Disabled) }

type J = map[string]any

const Blank = "-"

// Cfg mirrors the constants of DKG.tla.
type Cfg struct {
	N        int   `json:"n"`
	T        int   `json:"t"`
	Byz      []int `json:"byz"`
	PhaseLen int   `json:"phaseLen"`
	// Overlap: the previous (failing) eon of the keyper set is still in its apologising phase when the
	// eon under test starts, so every keyper holds two active DKG objects for one block.
	Overlap bool `json:"overlap,omitempty"`
	// OvBlock: with Overlap, the relative block in which the previous eon is finalised (0 = 1). With
	// OvBlock = PhaseLen that block is also the first accusing block of the eon under test.
	OvBlock int `json:"ovBlock,omitempty"`
}

// Ov is the value of the state field ov of DKG.tla.
func (c Cfg) Ov() int {
	if !c.Overlap {
		return 0
	}
	if c.OvBlock > 0 {
		return c.OvBlock
	}
	return 1
}

func (c Cfg) IsByz(i int) bool {
	for _, b := range c.Byz {
		if b == i {
			return true
		}
	}
	return false
}
func (c Cfg) LastBlock() int { return 3*c.PhaseLen + 1 }

// Msg is the abstract message / event record of DKG.tla.
type Msg struct {
	K    string   `json:"k"`
	S    int      `json:"s"`
	Vals []string `json:"vals"`
}

// Op is one alphabet entry of DKGMC.tla.
type Op struct {
	Op   string   `json:"op"`
	S    int      `json:"s"`
	Vals []string `json:"vals"`
	Rev  bool     `json:"rev"` // entries in descending keyper order
}

// Out is the observed answer to an op.
type Out struct {
	Code int `json:"code"`
	Msg  Msg `json:"msg"`
	Ev   Msg `json:"ev"`
}

func blankVals(n int) []string {
	v := make([]string, n)
	for i := range v {
		v[i] = Blank
	}
	return v
}
func (w *World) noMsg() Msg { return Msg{K: Blank, S: 0, Vals: blankVals(w.Cfg.N)} }

// nodeConfig is the smobserver.Config of one honest keyper.
type nodeConfig struct {
	addr   common.Address
	plen   *dkgphase.PhaseLength
	valKey ed25519.PublicKey
	enc    *ecies.PrivateKey
}

func (c *nodeConfig) GetAddress() common.Address               { return c.addr }
func (c *nodeConfig) GetDKGPhaseLength() *dkgphase.PhaseLength { return c.plen }
func (c *nodeConfig) GetValidatorPublicKey() ed25519.PublicKey { return c.valKey }
func (c *nodeConfig) GetEncryptionKey() *ecies.PrivateKey      { return c.enc }

// Node is one honest keyper: real ShuttermintState + real message sender on its own database.
type Node struct {
	Idx    int
	Tok    string
	priv   *ecdsa.PrivateKey
	cfg    *nodeConfig
	PG     *fakepg.Server
	pool   *pgxpool.Pool
	state  *smobserver.ShuttermintState
	sender fx.RPCMessageSender
	TM     *Client
	chain  *Chain
	Starts int
	kcfg   *kprconfig.Config
}

// GovStep is the second statement of the loop body of KeyperCore.operateShuttermint
// (handleOnChainChanges in one transaction) with the given main-chain block number.
func (n *Node) GovStep(ctx context.Context, block uint64) error {
	return keyper.VerifNewGovCore(n.kcfg, n.pool, n.TM).HandleOnChainChanges(ctx, block)
}

// start creates the in-memory objects of a keyper process from its database (also used for a
// restart after a crash: everything but the database and the configuration is new).
func (n *Node) start(ctx context.Context) error {
	if n.pool != nil {
		n.pool.Close()
	}
	pool, err := n.PG.Pool(ctx, fakepg.MaxConns(2))
	if err != nil {
		return err
	}
	n.pool = pool
	n.state = smobserver.NewShuttermintState(n.cfg)
	old := n.TM
	n.TM = n.chain.NewClient()
	if old != nil {
		n.TM.Sent = old.Sent
		n.TM.Lag = old.Lag
	}
	n.sender = fx.NewRPCMessageSender(n.TM, n.priv)
	n.Starts++
	return nil
}

// World is one DKG run.
type World struct {
	Cfg    Cfg
	Seed   int64
	U      *sm.Universe
	Chain  *Chain
	Nodes  map[int]*Node
	Eon    uint64
	H0     int64 // absolute height of the EonStarted block
	toks   []string
	privs  map[int]*ecdsa.PrivateKey
	encs   map[int]*ecies.PrivateKey
	polys  map[int]*shcrypto.Polynomial // Byzantine dealers: the committed ("good") polynomial
	gam    map[int]*shcrypto.Gammas     // every dealer: the commitment of the polynomial it dealt at eon start
	poly2  map[int]*shcrypto.Polynomial // Byzantine: a second polynomial for repeated commitments
	polyBD map[int]*shcrypto.Polynomial // Byzantine: polynomial of another degree
	stage  int
	rej    int
	rl     []int
	skip   []bool
	lags   int
	tagRv  bool
	tagOor bool
	tagAt  int
	tagBnd bool
	rng    *rand.Rand
	Panics []string
	Calls  int
}

type detReader struct{ state [32]byte }

func newDetReader(label string) *detReader { return &detReader{state: sha256.Sum256([]byte(label))} }
func (d *detReader) Read(p []byte) (int, error) {
	n := 0
	for n < len(p) {
		d.state = sha256.Sum256(d.state[:])
		n += copy(p[n:], d.state[:])
	}
	return len(p), nil
}

var (
	tmplOnce sync.Once
	tmplDB   *fakepg.DB
	tmplErr  error
)

// template returns a keyper database right after the repository's own InitDB.
func template() (*fakepg.DB, error) {
	tmplOnce.Do(func() {
		ctx, cancel := context.WithTimeout(context.Background(), 30*time.Second)
		defer cancel()
		s := fakepg.New()
		defer s.Close()
		pool, err := s.Pool(ctx)
		if err != nil {
			tmplErr = err
			return
		}
		defer pool.Close()
		if err := metadb.InitDB(ctx, pool, "keyper-verif", kprdb.Definition); err != nil {
			tmplErr = err
			return
		}
		if pm := s.PinMismatches(); len(pm) > 0 {
			tmplErr = fmt.Errorf("fakepg pin mismatches: %v", pm)
			return
		}
		tmplDB = s.Snapshot()
	})
	return tmplDB, tmplErr
}

// guard runs f (repository code) under recover and a watchdog.
func (w *World) guard(what string, f func() error) (err error) {
	w.Calls++
	done := make(chan struct{})
	var perr error
	var pan string
	go func() {
		defer close(done)
		defer func() {
			if p := recover(); p != nil {
				pan = fmt.Sprintf("panic in %s: %v", what, p)
			}
		}()
		perr = f()
	}()
	select {
	case <-done:
	case <-time.After(60 * time.Second):
		pan = "hang (>60s) in " + what
	}
	if pan != "" {
		w.Panics = append(w.Panics, pan)
		return fmt.Errorf("%s", pan)
	}
	return perr
}

func tokOf(i int) string { return fmt.Sprintf("k%d", i) }

// NewWorld builds chain + keypers and runs the prologue up to the state InitState of DKG.tla:
// block 1 genesis config, block 2 check-ins of all keypers, block 3 the votes for keyper config 1
// (BatchConfig + EonStarted of a first eon), empty blocks until that eon has failed for everybody,
// then the block with the failure votes in which shuttermint restarts the eon (= relative block
// 0); every honest keyper has processed it; relative block 1 is open.
func NewWorld(cfg Cfg, seed int64, lag int64) (*World, error) { return NewWorldHold(cfg, seed, lag, 0) }

// NewWorldHold is NewWorld, except that keyper hold (if >0) has not yet applied the EonStarted
// block (C08 starts its crash enumeration there).
func NewWorldHold(cfg Cfg, seed int64, lag int64, hold int) (*World, error) {
	return NewWorldOpts(cfg, seed, WorldOpts{Lag: lag, Hold: hold})
}

// WorldOpts: Hold = keyper that has not applied the EonStarted block yet; Late = Byzantine keyper
// that has NOT checked in when the eon starts (LateCheckinTx makes its check-in).
type WorldOpts struct {
	Lag  int64
	Hold int
	Late int
	// FirstEon: stop after the check-ins: the keyper config of the eon is NOT registered yet; block 3
	// (relative block 0, the block that will carry the config votes) is open. For the governance prefix.
	FirstEon bool
}

func NewWorldOpts(cfg Cfg, seed int64, o WorldOpts) (*World, error) {
	lag, hold := o.Lag, o.Hold
	tmpl, err := template()
	if err != nil {
		return nil, err
	}
	w := &World{Cfg: cfg, Seed: seed, Nodes: map[int]*Node{}, privs: map[int]*ecdsa.PrivateKey{}, encs: map[int]*ecies.PrivateKey{},
		gam: map[int]*shcrypto.Gammas{}, polys: map[int]*shcrypto.Polynomial{}, poly2: map[int]*shcrypto.Polynomial{}, polyBD: map[int]*shcrypto.Polynomial{},
		rng: rand.New(rand.NewSource(seed)), rl: make([]int, cfg.N), skip: make([]bool, cfg.N)}
	keyord := []string{sm.NoVal}
	for i := 1; i <= cfg.N; i++ {
		w.toks = append(w.toks, tokOf(i))
		keyord = append(keyord, fmt.Sprintf("v%d", i))
	}
	w.U = sm.NewUniverse(sm.Consts{Addrs: append([]string{}, w.toks...), KeyOrd: keyord,
		Genesis: sm.GenesisSpec{Keypers: w.toks, Thr: uint64(cfg.T), Eon0: 0, Vals: map[string]int64{}}}, seed)
	a := app.NewShutterApp()
	a.InitChain(w.U.InitChainRequest())
	w.Chain = NewChain(a, sm.ChainID)
	ctx := context.Background()
	for i := 1; i <= cfg.N; i++ {
		// the signing key of token t is derived exactly as sm.NewUniverse derives it
		h := sha256.Sum256([]byte("verif-addr-" + tokOf(i)))
		k, err := crypto.ToECDSA(h[:])
		if err != nil {
			return nil, err
		}
		if crypto.PubkeyToAddress(k.PublicKey) != w.U.Addr(tokOf(i)) {
			return nil, fmt.Errorf("key derivation differs from harness/sm")
		}
		w.privs[i] = k
		if cfg.IsByz(i) {
			w.encs[i] = ecies.ImportECDSA(k) // sm's check-in announces the signing key as encryption key
			deg := shcrypto.DegreeFromThreshold(uint64(cfg.T))
			mk := func(label string, d uint64) *shcrypto.Polynomial {
				p, err := shcrypto.RandomPolynomial(newDetReader(fmt.Sprintf("%s-%d-%d", label, i, seed)), d)
				if err != nil {
					panic(err)
				}
				return p
			}
			w.polys[i], w.poly2[i], w.polyBD[i] = mk("byz", deg), mk("byz2", deg), mk("byzbd", deg+1)
			w.gam[i] = w.polys[i].Gammas()
			continue
		}
		eh := sha256.Sum256([]byte(fmt.Sprintf("verif-enc-%d-%d", i, seed)))
		ek, err := crypto.ToECDSA(eh[:])
		if err != nil {
			return nil, err
		}
		w.encs[i] = ecies.ImportECDSA(ek)
		vk := sha256.Sum256([]byte(fmt.Sprintf("verif-valkey-%d", i)))
		n := &Node{Idx: i, Tok: tokOf(i), priv: k, chain: w.Chain, PG: fakepg.New(),
			cfg: &nodeConfig{addr: w.U.Addr(tokOf(i)), plen: dkgphase.NewConstantPhaseLength(int64(cfg.PhaseLen)), valKey: ed25519.PublicKey(vk[:]), enc: w.encs[i]}}
		n.kcfg = &kprconfig.Config{
			Shuttermint: &kprconfig.ShuttermintConfig{
				ValidatorPublicKey: &keys.Ed25519Public{Key: ed25519.PublicKey(vk[:])},
				EncryptionKey:      &keys.ECDSAPrivate{Key: ek},
				DKGPhaseLength:     int64(cfg.PhaseLen),
				DKGStartBlockDelta: 10,
			},
			Ethereum: &configuration.EthnodeConfig{PrivateKey: &keys.ECDSAPrivate{Key: k}},
		}
		n.PG.Restore(tmpl)
		n.PG.SetLogging(false)
		if err := n.start(ctx); err != nil {
			return nil, err
		}
		n.TM.Lag = lag
		w.Nodes[i] = n
	}
	// block 1: genesis BatchConfig event
	w.Chain.OpenBlock()
	w.Chain.CloseBlock()
	if err := w.syncAll(); err != nil {
		return nil, err
	}
	// block 2: check-ins (honest: queued by smstate.handleBatchConfig, sent by fx.SendShutterMessages)
	w.Chain.OpenBlock()
	for i := 1; i <= cfg.N; i++ {
		if n := w.Nodes[i]; n != nil {
			if err := w.flush(n, 10); err != nil {
				return nil, err
			}
			continue
		}
		if i == o.Late {
			continue
		}
		tx := w.LateCheckinTx(i)
		if chk, res, _ := w.Chain.Submit(tx); chk.Code != 0 || res.Code != 0 {
			return nil, fmt.Errorf("prologue: check-in of k%d refused: %s %s", i, chk.Log, res.Log)
		}
	}
	w.Chain.CloseBlock()
	if err := w.syncAll(); err != nil {
		return nil, err
	}
	if o.FirstEon {
		w.H0 = w.Chain.Height() + 1
		w.Eon = a.EONCounter + 1
		w.Chain.OpenBlock()
		return w, nil
	}
	// block 3: T votes for keyper config 1
	w.Chain.OpenBlock()
	for i := 1; i <= cfg.T; i++ {
		tx := w.U.Concretise(sm.Tx{K: "vote", S: tokOf(i), N: uint64(800 + i), Cfg: sm.Cfg{Keypers: w.toks, Thr: uint64(cfg.T), Act: 100, Idx: 1}})
		if chk, res, _ := w.Chain.Submit(tx); chk.Code != 0 || res.Code != 0 {
			return nil, fmt.Errorf("prologue: vote of k%d refused: %s %s", i, chk.Log, res.Log)
		}
	}
	w.Chain.CloseBlock()
	if w.Chain.App.DKGMap[a.EONCounter] == nil {
		return nil, fmt.Errorf("prologue: shuttermint did not start an eon")
	}
	// the first eon of the new keyper set fails: nobody gets a message through until every keyper
	// has finalised it (empty blocks up to the end of its apologising phase) ...
	first := w.Chain.Height()
	if err := w.syncAll(); err != nil {
		return nil, err
	}
	silent := int64(3 * cfg.PhaseLen)
	if cfg.Overlap {
		silent -= int64(cfg.Ov()) + 1 // the eon is restarted Ov() blocks before the previous eon is finalised
	}
	for w.Chain.Height() < first+silent {
		w.Chain.OpenBlock()
		w.Chain.CloseBlock()
		if err := w.syncAll(); err != nil {
			return nil, err
		}
	}
	// ... then the keypers send everything they queued, including their DKGResult(failure) votes;
	// the T-th one makes shuttermint restart the eon: EonStarted for the SAME keyper config, several
	// blocks after the block in which the config was registered (tendermint_batch_config.height <
	// eons.height, as in production after a failed key generation)
	w.Chain.OpenBlock()
	failed := a.EONCounter
	for i := 1; i <= cfg.T; i++ {
		// the failure votes are cast with the keypers' keys by the harness, so that the restart of the
		// eon does not depend on the keypers' outboxes draining (their own votes are answered "seen")
		tx := w.U.Concretise(sm.Tx{K: "dkgres", S: tokOf(i), N: uint64(700 + i), Eon: failed, Ok: false})
		if chk, res, _ := w.Chain.Submit(tx); chk.Code != 0 || res.Code != 0 {
			return nil, fmt.Errorf("prologue: failure vote of k%d refused: %s %s", i, chk.Log, res.Log)
		}
	}
	for i := 1; i <= cfg.N; i++ {
		if n := w.Nodes[i]; n != nil {
			if err := w.flush(n, 10); err != nil {
				return nil, err
			}
		}
	}
	w.Chain.CloseBlock()
	w.H0 = w.Chain.Height()
	w.Eon = a.EONCounter
	if a.DKGMap[w.Eon] == nil || w.Eon < 2 {
		return nil, fmt.Errorf("prologue: shuttermint did not restart the eon (eon counter %d)", w.Eon)
	}
	for i := 1; i <= cfg.N; i++ {
		if n := w.Nodes[i]; n != nil && i != hold {
			if err := w.syncNode(n); err != nil {
				return nil, err
			}
		}
	}
	w.Chain.OpenBlock()
	for i := range w.Nodes {
		if i == hold {
			continue
		}
		// a row that is missing or does not decode is an observed behaviour of the keyper (judged by the
		// monitors through the projection), not a harness problem
		w.learn(i)
	}
	return w, nil
}

// learn finds out which polynomial honest keyper i dealt at the start of the eon: from its puredkg
// row, or (if there is no decodable row) from the commitment it queued in the same transaction.
func (w *World) learn(i int) {
	n := w.Nodes[i]
	if n == nil || w.gam[i] != nil {
		return
	}
	if p := w.pure(n); p != nil && p.Polynomial != nil {
		w.gam[i] = p.Polynomial.Gammas()
		return
	}
	var rows []kprdb.TendermintOutgoingMessage
	n.PG.View(func(db *fakepg.DB) { rows = append(rows, db.TendermintOutgoingMessages...) })
	for _, r := range rows {
		m := &shmsg.Message{}
		if proto.Unmarshal(r.Msg, m) != nil || m.GetPolyCommitment() == nil || m.GetPolyCommitment().Eon != w.Eon {
			continue
		}
		if pc, err := app.ParsePolyCommitmentMsg(m.GetPolyCommitment(), w.addr(i)); err == nil {
			w.gam[i] = pc.Gammas
			return
		}
	}
}

// LateCheckinTx is the check-in transaction of Byzantine keyper i.
func (w *World) LateCheckinTx(i int) []byte {
	return w.U.Concretise(sm.Tx{K: "checkin", S: tokOf(i), N: uint64(900 + i), Key: fmt.Sprintf("v%d", i)})
}

func (w *World) Close() {
	for _, n := range w.Nodes {
		if n.pool != nil {
			n.pool.Close()
		}
		n.PG.Close()
	}
}

func (w *World) syncNode(n *Node) error {
	return w.guard(fmt.Sprintf("SyncAppWithDB(k%d)", n.Idx), func() error {
		ctx, cancel := context.WithTimeout(context.Background(), 50*time.Second)
		defer cancel()
		return smobserver.SyncAppWithDB(ctx, n.TM, n.pool, n.state)
	})
}

func (w *World) syncAll() error {
	for i := 1; i <= w.Cfg.N; i++ {
		if n := w.Nodes[i]; n != nil {
			if err := w.syncNode(n); err != nil {
				return err
			}
		}
	}
	return nil
}

// flush lets the keyper send up to budget messages of its outbox into the open block.
func (w *World) flush(n *Node, budget int) error {
	n.TM.Budget = budget
	err := w.guard(fmt.Sprintf("SendShutterMessages(k%d)", n.Idx), func() error {
		ctx, cancel := context.WithTimeout(context.Background(), 50*time.Second)
		defer cancel()
		return fx.SendShutterMessages(ctx, kprdb.New(n.pool), &n.sender)
	})
	n.TM.Budget = 0
	return err
}

// ---------------------------------------------------------------------------------------------
// concretisation of Byzantine messages

func (w *World) idxOf(a common.Address) int {
	for i := 1; i <= w.Cfg.N; i++ {
		if w.U.Addr(tokOf(i)) == a {
			return i
		}
	}
	return 0
}

func (w *World) addr(i int) common.Address { return w.U.Addr(tokOf(i)) }

func badEval(v *big.Int) *big.Int {
	// another in-range value (shcrypto.ValidEval): v+1, or 1 if that leaves the range
	x := new(big.Int).Add(v, big.NewInt(1))
	if !shcrypto.ValidEval(x) {
		x = big.NewInt(1)
	}
	return x
}

// order lists the keypers 1..n ascending, or descending for rev.
func order(n int, rev bool) []int {
	out := make([]int, n)
	for i := range out {
		if rev {
			out[i] = n - i
		} else {
			out[i] = i + 1
		}
	}
	return out
}

// outOfRange is a value that is not a valid evaluation (>= the group order; shcrypto.ValidEval).
func outOfRange() *big.Int {
	x := new(big.Int).Lsh(big.NewInt(1), 256)
	return x.Sub(x, big.NewInt(1))
}

func (w *World) sign(i int, m *shmsg.Message) []byte {
	signed, err := shmsg.SignMessage(&shmsg.MessageWithNonce{ChainId: []byte(sm.ChainID), RandomNonce: w.rng.Uint64(), Msg: m}, w.privs[i])
	if err != nil {
		panic(err)
	}
	return []byte(base64.RawURLEncoding.EncodeToString(signed))
}

// byzTx builds the signed transaction of a Byzantine op with real cryptography.
func (w *World) byzTx(o Op) []byte {
	b := o.S
	var m *shmsg.Message
	switch o.Op {
	case "bcommit":
		switch o.Vals[b-1] {
		case "good":
			p := w.polys[b]
			if _, seen := w.Chain.App.DKGMap[w.Eon].PolyCommitmentsSeen[w.addr(b)]; seen {
				p = w.poly2[b] // a repeated commitment is one to ANOTHER polynomial
			}
			m = shmsg.NewPolyCommitment(w.Eon, p.Gammas())
		default:
			m = shmsg.NewPolyCommitment(w.Eon, w.polyBD[b].Gammas())
		}
	case "beval":
		var rs []common.Address
		var evals [][]byte
		for r := 1; r <= w.Cfg.N; r++ {
			v := o.Vals[r-1]
			if v == Blank {
				continue
			}
			e := w.polys[b].EvalForKeyper(r - 1)
			if v == "bad" {
				e = badEval(e)
			}
			ct, err := ecies.Encrypt(w.rng, &w.encs[r].PublicKey, shdb.EncodeBigint(e), nil, nil)
			if err != nil {
				panic(err)
			}
			rs = append(rs, w.addr(r))
			evals = append(evals, ct)
		}
		m = shmsg.NewPolyEval(w.Eon, rs, evals)
	case "bacc":
		var acc []common.Address
		for _, d := range order(w.Cfg.N, o.Rev) {
			if o.Vals[d-1] != Blank {
				acc = append(acc, w.addr(d))
			}
		}
		m = shmsg.NewAccusation(w.Eon, acc)
	case "bapol":
		var accusers []common.Address
		var evals []*big.Int
		for _, a := range order(w.Cfg.N, o.Rev) {
			v := o.Vals[a-1]
			if v == Blank {
				continue
			}
			e := w.polys[b].EvalForKeyper(a - 1)
			if v == "bad" {
				e = badEval(e)
			}
			if v == "oor" {
				e = outOfRange()
			}
			accusers = append(accusers, w.addr(a))
			evals = append(evals, e)
		}
		m = shmsg.NewApology(w.Eon, accusers, evals)
	default:
		panic("not a Byzantine op: " + o.Op)
	}
	return w.sign(b, m)
}

// ---------------------------------------------------------------------------------------------
// projection (Abs)

func (w *World) gammaClass(sender int, g *shcrypto.Gammas) string {
	// gob turns the nil entries of PureDKG.Commitments into empty Gammas (Gammas.GobEncode accepts a
	// nil receiver), and nil *big.Int evaluations into 0: both mean "nothing received"
	if g == nil || len(*g) == 0 {
		return "none"
	}
	if g.Degree() != shcrypto.DegreeFromThreshold(uint64(w.Cfg.T)) {
		return "baddeg"
	}
	w.learn(sender)
	if gm := w.gam[sender]; gm != nil && g.Equal(*gm) {
		return "good"
	}
	if p := w.poly2[sender]; p != nil && g.Equal(*p.Gammas()) {
		return "good"
	}
	return "other"
}

func (w *World) evalClass(dealer, receiver int, e *big.Int) string {
	if e == nil || e.Sign() == 0 {
		return "none"
	}
	if !shcrypto.ValidEval(e) {
		return "oor"
	}
	w.learn(dealer)
	gm := w.gam[dealer]
	if gm == nil {
		return "other"
	}
	if shcrypto.VerifyPolyEval(receiver-1, e, gm, uint64(w.Cfg.T)) {
		return "ok"
	}
	return "bad"
}

// absMessage classifies a shmsg payload sent by keyper s.
func (w *World) absMessage(s int, m *shmsg.Message) Msg {
	out := Msg{K: "other", S: s, Vals: blankVals(w.Cfg.N)}
	set := func(a []byte, v string) {
		if i := w.idxOf(common.BytesToAddress(a)); i > 0 {
			out.Vals[i-1] = v
		}
	}
	if e, ok := eonOf(m); ok && e != w.Eon {
		out.K = "old" // left over from the failed first eon
		return out
	}
	switch {
	case m.GetPolyCommitment() != nil:
		out.K = "commit"
		pc, err := app.ParsePolyCommitmentMsg(m.GetPolyCommitment(), w.addr(s))
		if err != nil {
			out.Vals[s-1] = "unparsable"
		} else {
			out.Vals[s-1] = w.gammaClass(s, pc.Gammas)
		}
	case m.GetPolyEval() != nil:
		out.K = "eval"
		pe := m.GetPolyEval()
		for j, r := range pe.Receivers {
			ri := w.idxOf(common.BytesToAddress(r))
			if ri == 0 || j >= len(pe.EncryptedEvals) {
				continue
			}
			pt, err := w.encs[ri].Decrypt(pe.EncryptedEvals[j], nil, nil)
			if err != nil {
				out.Vals[ri-1] = "junk"
				continue
			}
			out.Vals[ri-1] = w.evalClass(s, ri, new(big.Int).SetBytes(pt))
		}
	case m.GetAccusation() != nil:
		out.K = "acc"
		for _, a := range m.GetAccusation().Accused {
			set(a, "x")
		}
	case m.GetApology() != nil:
		out.K = "apol"
		ap := m.GetApology()
		for j, a := range ap.Accusers {
			ai := w.idxOf(common.BytesToAddress(a))
			if ai == 0 || j >= len(ap.PolyEvals) {
				continue
			}
			out.Vals[ai-1] = w.evalClass(s, ai, new(big.Int).SetBytes(ap.PolyEvals[j]))
		}
	case m.GetDkgResult() != nil:
		out.K = "result"
		if m.GetDkgResult().Eon != w.Eon {
			out.Vals[s-1] = "othereon"
		} else if m.GetDkgResult().Success {
			out.Vals[s-1] = "ok"
		} else {
			out.Vals[s-1] = "fail"
		}
	case m.GetCheckIn() != nil:
		out.K = "checkin"
		if bytes.Equal(m.GetCheckIn().EncryptionPublicKey, crypto.CompressPubkey(w.encs[s].PublicKey.ExportECDSA())) {
			out.Vals[s-1] = "key"
		} else {
			out.Vals[s-1] = "otherkey"
		}
	}
	return out
}

func (w *World) absTx(tx []byte) Msg {
	raw, err := base64.RawURLEncoding.DecodeString(string(tx))
	if err != nil {
		return Msg{K: "garbage", Vals: blankVals(w.Cfg.N)}
	}
	signer, err := shmsg.GetSigner(raw)
	if err != nil {
		return Msg{K: "garbage", Vals: blankVals(w.Cfg.N)}
	}
	mw, err := shmsg.GetMessage(raw)
	if err != nil || mw.Msg == nil {
		return Msg{K: "garbage", Vals: blankVals(w.Cfg.N)}
	}
	return w.absMessage(w.idxOf(signer), mw.Msg)
}

// absEvents decodes ABCI events with the repository's own decoder (smobserver.makeEvents ->
// shutterevents.MakeEvent) and classifies the DKG events.
func (w *World) absEvents(height int64, evs []abcitypes.Event) []Msg {
	out := []Msg{}
	for _, ie := range smobserver.VerifMakeEvents(height, evs) {
		m := Msg{Vals: blankVals(w.Cfg.N)}
		switch e := ie.(type) {
		case *shutterevents.PolyCommitment:
			if e.Eon != w.Eon {
				continue
			}
			m.K, m.S = "commit", w.idxOf(e.Sender)
			if m.S > 0 {
				m.Vals[m.S-1] = w.gammaClass(m.S, e.Gammas)
			}
		case *shutterevents.PolyEval:
			if e.Eon != w.Eon {
				continue
			}
			m.K, m.S = "eval", w.idxOf(e.Sender)
			for j, r := range e.Receivers {
				ri := w.idxOf(r)
				if ri == 0 || j >= len(e.EncryptedEvals) {
					continue
				}
				pt, err := w.encs[ri].Decrypt(e.EncryptedEvals[j], nil, nil)
				if err != nil {
					m.Vals[ri-1] = "junk"
				} else {
					m.Vals[ri-1] = w.evalClass(m.S, ri, new(big.Int).SetBytes(pt))
				}
			}
		case *shutterevents.Accusation:
			if e.Eon != w.Eon {
				continue
			}
			m.K, m.S = "acc", w.idxOf(e.Sender)
			for _, a := range e.Accused {
				if ai := w.idxOf(a); ai > 0 {
					m.Vals[ai-1] = "x"
				}
			}
		case *shutterevents.Apology:
			if e.Eon != w.Eon {
				continue
			}
			m.K, m.S = "apol", w.idxOf(e.Sender)
			for j, a := range e.Accusers {
				if ai := w.idxOf(a); ai > 0 && j < len(e.PolyEval) {
					m.Vals[ai-1] = w.evalClass(m.S, ai, e.PolyEval[j])
				}
			}
		default:
			continue
		}
		out = append(out, m)
	}
	return out
}

// pure reads and decodes the puredkg row of the run's eon (nil if there is none).
func (w *World) pure(n *Node) *puredkg.PureDKG {
	var raw []byte
	n.PG.View(func(db *fakepg.DB) {
		for _, r := range db.Puredkg {
			if uint64(r.Eon) == w.Eon {
				raw = r.Puredkg
			}
		}
	})
	if raw == nil {
		return nil
	}
	p, err := shdb.DecodePureDKG(raw)
	if err != nil {
		return nil
	}
	return p
}

func (w *World) result(n *Node) (row *kprdb.DkgResult, res *puredkg.Result) {
	n.PG.View(func(db *fakepg.DB) {
		for _, r := range db.DkgResult {
			if uint64(r.Eon) == w.Eon {
				c := r
				row = &c
			}
		}
	})
	if row != nil && row.Success {
		res, _ = shdb.DecodePureDKGResult(row.PureResult)
	}
	return
}

func matrix[T any](n int, v T) [][]T {
	m := make([][]T, n)
	for i := range m {
		m[i] = make([]T, n)
		for j := range m[i] {
			m[i][j] = v
		}
	}
	return m
}

// qualOf recovers the set of dealers whose commitments were summed into the eon public key.
func (w *World) qualOf(res *puredkg.Result) []bool {
	n := w.Cfg.N
	q := make([]bool, n)
	if res == nil || res.PublicKey == nil {
		return q
	}
	deg := shcrypto.DegreeFromThreshold(uint64(w.Cfg.T))
	for mask := 0; mask < 1<<n; mask++ {
		var gs []*shcrypto.Gammas
		for d := 0; d < n; d++ {
			if mask&(1<<d) != 0 && w.gam[d+1] != nil {
				gs = append(gs, w.gam[d+1])
			} else {
				gs = append(gs, shcrypto.ZeroGammas(deg))
			}
		}
		if shcrypto.ComputeEonPublicKey(gs).Equal(res.PublicKey) {
			for d := 0; d < n; d++ {
				q[d] = mask&(1<<d) != 0
			}
			return q
		}
	}
	return q
}

func (w *World) absOutbox(n *Node) []Msg {
	out := []Msg{}
	var rows []kprdb.TendermintOutgoingMessage
	n.PG.View(func(db *fakepg.DB) { rows = append(rows, db.TendermintOutgoingMessages...) })
	for i := 0; i < len(rows); i++ {
		for j := i + 1; j < len(rows); j++ {
			if rows[j].ID < rows[i].ID {
				rows[i], rows[j] = rows[j], rows[i]
			}
		}
	}
	for _, r := range rows {
		m := &shmsg.Message{}
		if err := proto.Unmarshal(r.Msg, m); err != nil {
			out = append(out, Msg{K: "garbage", S: n.Idx, Vals: blankVals(w.Cfg.N)})
			continue
		}
		out = append(out, w.absMessage(n.Idx, m))
	}
	return out
}

func (w *World) absKeyper(i int) J {
	N := w.Cfg.N
	k := J{"phase": -1, "commit": fill(N, "none"), "eval": fill(N, "none"), "acc": matrix(N, false), "apol": matrix(N, "none"),
		"outbox": []Msg{}, "done": false, "ok": false, "qual": make([]bool, N)}
	n := w.Nodes[i]
	if n == nil {
		return k
	}
	k["outbox"] = w.absOutbox(n)
	row, res := w.result(n)
	p := w.pure(n)
	switch {
	case p != nil:
		k["phase"] = int(p.Phase)
		commit, eval := fill(N, "none"), fill(N, "none")
		for d := 0; d < N && d < len(p.Commitments); d++ {
			commit[d] = w.gammaClass(d+1, p.Commitments[d])
		}
		for d := 0; d < N && d < len(p.Evals); d++ {
			eval[d] = w.evalClass(d+1, i, p.Evals[d])
		}
		acc, apol := matrix(N, false), matrix(N, "none")
		for key := range p.Accusations {
			if int(key.Accuser) < N && int(key.Accused) < N {
				acc[key.Accuser][key.Accused] = true
			}
		}
		for key, e := range p.Apologies {
			if int(key.Accuser) < N && int(key.Accused) < N {
				apol[key.Accuser][key.Accused] = w.evalClass(int(key.Accused)+1, int(key.Accuser)+1, e)
			}
		}
		k["commit"], k["eval"], k["acc"], k["apol"] = commit, eval, acc, apol
		if row != nil {
			k["phase"] = 99 // a result row AND a live puredkg row: never in the spec
		}
	case row != nil:
		k["phase"] = int(puredkg.Finalized)
	default:
		k["phase"] = int(puredkg.Off)
	}
	if row != nil {
		k["done"], k["ok"] = true, row.Success
		k["qual"] = w.qualOf(res)
	}
	return k
}

func fill(n int, v string) []string {
	s := make([]string, n)
	for i := range s {
		s[i] = v
	}
	return s
}

func (w *World) absApp() J {
	N := w.Cfg.N
	d := w.Chain.App.DKGMap[w.Eon]
	commit, acc, apol, vote := make([]bool, N), make([]bool, N), make([]bool, N), fill(N, "none")
	eval := matrix(N, false)
	if d == nil {
		return J{"commit": commit, "eval": eval, "acc": acc, "apol": apol, "vote": vote}
	}
	for i := 1; i <= N; i++ {
		a := w.addr(i)
		_, commit[i-1] = d.PolyCommitmentsSeen[a]
		_, acc[i-1] = d.AccusationsSeen[a]
		_, apol[i-1] = d.ApologiesSeen[a]
		for r := 1; r <= N; r++ {
			_, eval[i-1][r-1] = d.PolyEvalsSeen[app.SenderReceiverPair{Sender: a, Receiver: w.addr(r)}]
		}
		if ci, ok := d.SuccessVoting.Votes[a]; ok && ci >= 0 && ci < len(d.SuccessVoting.Candidates) {
			if d.SuccessVoting.Candidates[ci] {
				vote[i-1] = "ok"
			} else {
				vote[i-1] = "fail"
			}
		}
	}
	return J{"commit": commit, "eval": eval, "acc": acc, "apol": apol, "vote": vote}
}

// RelH is the relative height of the block being filled (LastBlock+1 when the run is over).
func (w *World) RelH() int {
	if o := w.Chain.Open(); o != nil {
		return int(o.Height - w.H0)
	}
	return int(w.Chain.Height()-w.H0) + 1
}

// State is Abs of the whole world in the shape of the state record of DKG.tla.
func (w *World) State() J {
	kp := []J{}
	for i := 1; i <= w.Cfg.N; i++ {
		kp = append(kp, w.absKeyper(i))
	}
	blk := []Msg{}
	if o := w.Chain.Open(); o != nil {
		for _, r := range o.Results {
			blk = append(blk, w.absEvents(o.Height, r.Events)...)
		}
	}
	syncs := make([]int, w.Cfg.N)
	low := w.RelH() - 1
	for i := 1; i <= w.Cfg.N; i++ {
		syncs[i-1] = -1
		if n := w.Nodes[i]; n != nil {
			h := int64(-1 << 40)
			n.PG.View(func(db *fakepg.DB) {
				for _, m := range db.TendermintSyncMeta {
					if m.CurrentBlock > h {
						h = m.CurrentBlock
					}
				}
			})
			syncs[i-1] = int(h - w.H0)
			if syncs[i-1] < low {
				low = syncs[i-1]
			}
		}
	}
	backlog := []J{}
	for h := low + 1; h <= int(w.Chain.Height()-w.H0); h++ {
		b := w.Chain.Blocks[w.H0+int64(h)-1]
		evs := []Msg{}
		for _, r := range b.Results {
			evs = append(evs, w.absEvents(b.Height, r.Events)...)
		}
		backlog = append(backlog, J{"h": h, "evs": evs})
	}
	return J{"h": w.RelH(), "stage": w.stage, "rej": w.rej, "rl": append([]int{}, w.rl...), "lags": w.lags, "ov": w.Cfg.Ov(), "tags": J{"rv": w.tagRv, "oor": w.tagOor, "at": w.tagAt, "bnd": w.tagBnd},
		"skip": append([]bool{}, w.skip...), "sync": syncs, "backlog": backlog, "kp": kp, "app": w.absApp(), "blk": blk}
}

func rank(o Op, n int) int {
	switch o.Op {
	case "bcommit":
		return 4*(o.S-1) + 1
	case "beval":
		return 4*(o.S-1) + 2
	case "bacc":
		return 4*(o.S-1) + 3
	case "bapol":
		return 4*(o.S-1) + 4
	case "post":
		return 4*n + o.S
	case "reload":
		return 5*n + o.S
	case "lag":
		return 6*n + o.S
	}
	return 7*n + 1
}

// Apply executes one op on the real world.
func (w *World) Apply(o Op) Out {
	out := Out{Code: -1, Msg: w.noMsg(), Ev: w.noMsg()}
	first := func(ms []Msg) Msg {
		if len(ms) > 0 {
			return ms[0]
		}
		return w.noMsg()
	}
	switch o.Op {
	case "end":
		rel := w.RelH()
		w.Chain.CloseBlock()
		w.stage = 0
		if rel < w.Cfg.LastBlock() {
			for i := 1; i <= w.Cfg.N; i++ {
				if n := w.Nodes[i]; n != nil && !w.skip[i-1] {
					w.syncNode(n) // one call catches up on every block the keyper has not applied yet
				}
			}
		}
		for i := range w.skip {
			w.skip[i] = false
		}
		if rel < w.Cfg.LastBlock() {
			w.Chain.OpenBlock()
		}
		return out
	case "lag":
		w.stage = rank(o, w.Cfg.N)
		if w.Nodes[o.S] != nil {
			w.skip[o.S-1] = true
			w.lags++
		}
		return out
	case "reload":
		n := w.Nodes[o.S]
		w.stage = rank(o, w.Cfg.N)
		if n == nil {
			return out
		}
		w.rl[o.S-1] = w.RelH()
		if (w.Seed+int64(o.S)+int64(w.RelH()))%2 == 0 {
			// what SyncAppWithDB does after a failed block transaction
			n.state.Invalidate()
		} else if err := n.start(context.Background()); err != nil { // process restart
			w.Panics = append(w.Panics, "restart: "+err.Error())
		}
		return out
	case "post":
		n := w.Nodes[o.S]
		w.stage = rank(o, w.Cfg.N)
		if n == nil {
			return out
		}
		before := len(n.TM.Sent)
		w.flush(n, 1)
		if len(n.TM.Sent) > before {
			s := n.TM.Sent[len(n.TM.Sent)-1]
			out.Code = int(s.Code)
			out.Msg = w.absTx(s.Tx)
			out.Ev = first(w.absEvents(s.Height, s.Events))
		}
		return out
	default:
		w.stage = rank(o, w.Cfg.N)
		relBefore := w.RelH()
		tx := w.byzTx(o)
		chk, res, h := w.Chain.Submit(tx)
		out.Msg = w.absTx(tx)
		if chk.Code != 0 {
			out.Code = 99
		} else {
			out.Code = int(res.Code)
			out.Ev = first(w.absEvents(h, res.Events))
		}
		if out.Code != 0 {
			w.rej++
		}
		w.tagRv = w.tagRv || o.Rev
		special := o.Rev
		for _, v := range o.Vals {
			w.tagOor = w.tagOor || v == "oor"
			special = special || v == "oor"
		}
		if special {
			w.tagAt = relBefore
		}
		if ov := w.Cfg.Ov(); ov > 0 && relBefore == ov {
			w.tagBnd = true
		}
		return out
	}
}

// ---------------------------------------------------------------------------------------------
// final observation

func hashHex(parts ...[]byte) string {
	h := sha256.New()
	for _, p := range parts {
		h.Write(p)
	}
	return hex.EncodeToString(h.Sum(nil))[:24]
}

// Fin reads the outcome of the run: dkg_result rows, votes, and trial cryptography.
func (w *World) Fin() J {
	N := w.Cfg.N
	res := make([]J, N)
	results := map[int]*puredkg.Result{}
	vote := w.absApp()["vote"].([]string)
	epochID := shcrypto.ComputeEpochID([]byte(fmt.Sprintf("verif-epoch-%d", w.Seed)))
	for i := 1; i <= N; i++ {
		r := J{"done": false, "ok": false, "pk": Blank, "pks": Blank, "share": false, "vote": vote[i-1]}
		res[i-1] = r
		n := w.Nodes[i]
		if n == nil {
			continue
		}
		row, pr := w.result(n)
		if row == nil {
			continue
		}
		r["done"], r["ok"] = true, row.Success
		if !row.Success {
			continue
		}
		if pr == nil || pr.PublicKey == nil || pr.SecretKeyShare == nil || len(pr.PublicKeyShares) != N {
			r["pk"] = "undecodable"
			continue
		}
		results[i] = pr
		pkb, _ := pr.PublicKey.GobEncode()
		r["pk"] = hashHex(pkb)
		var all [][]byte
		for _, s := range pr.PublicKeyShares {
			b, _ := s.GobEncode()
			all = append(all, b)
		}
		r["pks"] = hashHex(all...)
		share := shcrypto.ComputeEpochSecretKeyShare(pr.SecretKeyShare, epochID)
		r["share"] = int(pr.Keyper) == i-1 && shcrypto.VerifyEpochSecretKeyShare(share, pr.PublicKeyShares[i-1], epochID)
	}
	// every T-subset of the successful honest keypers
	var good []int
	for i := 1; i <= N; i++ {
		if results[i] != nil {
			good = append(good, i)
		}
	}
	dec := []J{}
	plain := []byte("verif: a message encrypted to the eon key")
	var rec func(start int, cur []int)
	rec = func(start int, cur []int) {
		if len(cur) == w.Cfg.T {
			set := append([]int{}, cur...)
			ok := func() (ok bool) {
				defer func() {
					if recover() != nil {
						ok = false
					}
				}()
				sigma, _ := shcrypto.RandomSigma(newDetReader(fmt.Sprintf("sigma-%d", w.Seed)))
				ct := shcrypto.Encrypt(plain, results[set[0]].PublicKey, epochID, sigma)
				var idx []int
				var shares []*shcrypto.EpochSecretKeyShare
				for _, i := range set {
					idx = append(idx, i-1)
					shares = append(shares, shcrypto.ComputeEpochSecretKeyShare(results[i].SecretKeyShare, epochID))
				}
				key, err := shcrypto.ComputeEpochSecretKey(idx, shares, uint64(w.Cfg.T))
				if err != nil {
					return false
				}
				pt, err := ct.Decrypt(key)
				return err == nil && bytes.Equal(pt, plain)
			}()
			dec = append(dec, J{"set": set, "ok": ok})
			return
		}
		for x := start; x < len(good); x++ {
			rec(x+1, append(cur, good[x]))
		}
	}
	rec(0, nil)
	return J{"res": res, "dec": dec}
}

func base64Decode(tx []byte) ([]byte, error) { return base64.RawURLEncoding.DecodeString(string(tx)) }
