package dkg

import (
	"encoding/json"
	"fmt"
	"testing"
	"time"
)

func TestSmokeWorld(t *testing.T) {
	t0 := time.Now()
	w, err := NewWorld(Cfg{N: 3, T: 2, Byz: []int{3}, PhaseLen: 2}, 1, 0)
	if err != nil {
		t.Fatal(err)
	}
	defer w.Close()
	b, _ := json.Marshal(w.State())
	fmt.Println("init", time.Since(t0), string(b))
	bl := func() []string { return blankVals(3) }
	v := func(i int, s string) []string { x := bl(); x[i-1] = s; return x }
	ops := []Op{
		{Op: "bcommit", S: 3, Vals: v(3, "good")},
		{Op: "beval", S: 3, Vals: []string{"ok", "bad", "-"}},
		{Op: "post", S: 1, Vals: bl()}, {Op: "post", S: 1, Vals: bl()}, {Op: "post", S: 1, Vals: bl()},
		{Op: "post", S: 2, Vals: bl()}, {Op: "post", S: 2, Vals: bl()}, {Op: "post", S: 2, Vals: bl()},
		{Op: "end"}, {Op: "end"},
		{Op: "post", S: 2, Vals: bl()},
		{Op: "end"}, {Op: "end"},
		{Op: "bapol", S: 3, Vals: []string{"-", "ok", "-"}},
		{Op: "end"}, {Op: "end"},
		{Op: "post", S: 1, Vals: bl()}, {Op: "post", S: 2, Vals: bl()},
		{Op: "end"},
	}
	for _, o := range ops {
		if o.Vals == nil {
			o.Vals = bl()
		}
		out := w.Apply(o)
		ob, _ := json.Marshal(out)
		fmt.Println(o.Op, o.S, o.Vals, "->", string(ob), "h", w.RelH())
	}
	b, _ = json.Marshal(w.State())
	fmt.Println("end", time.Since(t0), string(b))
	b, _ = json.Marshal(w.Fin())
	fmt.Println("fin", string(b), w.Panics)
}
