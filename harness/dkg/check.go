package dkg

import (
	"bytes"
	"encoding/json"
	"fmt"
	"math/rand"
	"os"
	"sort"
	"strings"
	"sync"
	"time"

	"verif/harness/core"
	"verif/harness/ev"
	"verif/harness/tlc"
)

// Plan is one instance of the DKG model.
type Plan struct {
	Name      string `json:"name"`
	Cfg       Cfg    `json:"cfg"`
	Partial   bool   `json:"partial"`   // Byzantine eval/apology messages may name a subset of the victims
	MaxRej    int    `json:"maxRej"`    // sends that shuttermint refuses (double sends) per run
	Windows   bool   `json:"windows"`   // canonical timing classes (in phase / first block after)
	AccuseAny bool   `json:"accuseAny"` // Byzantine accusations/apologies may name Byzantine keypers too
	MaxReload int    `json:"maxReload"` // honest keypers that re-create their in-memory state once during the run
	Timely    bool   `json:"timely"`    // honest messages are never late
	ReloadMax int    `json:"reloadMax"` // exhaustive plans: last block in which a reload may happen (0 = 2*PhaseLen)
	Focus     string `json:"focus"`     // "" = all Byzantine message kinds; "apol"; "late"
	Mixed     bool   `json:"mixed"`     // out-of-range apology entries and reversed entry order
	Repeat    int    `json:"repeat"`    // replay every behaviour that often (map-iteration order of the real code is sampled)
	MaxLag    int    `json:"maxLag"`    // "lag" ops: an honest keyper skips a sync and catches up on several blocks later
	Simulate  int    `json:"simulate"`  // >0: random behaviours instead of exhaustive search
	MaxBeh    int    `json:"maxBeh"`    // replay at most that many behaviours (0 = all)
}

func setText(xs []int) string {
	var p []string
	for _, x := range xs {
		p = append(p, fmt.Sprint(x))
	}
	return "{" + strings.Join(p, ", ") + "}"
}

func boolText(b bool) string {
	if b {
		return "TRUE"
	}
	return "FALSE"
}

func (p Plan) mcFiles() (string, map[string][]byte, string) {
	mod := "MCgen_dkg_" + strings.ReplaceAll(p.Name, "-", "_")
	body := fmt.Sprintf("---- MODULE %s ----\nEXTENDS DKGMC\ncByz == %s\n====\n", mod, setText(p.Cfg.Byz))
	inv := "INVARIANT C07_Spec\nINVARIANT Agreement\nINVARIANT EmitFinal\n"
	cfg := fmt.Sprintf("CONSTANTS\n N = %d\n T = %d\n Byz <- cByz\n PhaseLen = %d\n MaxRej = %d\n Emit = TRUE\n AccuseAny = %s\n Windows = %s\n Partial = %s\n MaxReload = %d\n MaxLag = %d\n Overlap = %d\n Timely = %s\n ReloadMax = %d\n Focus = %q\n Mixed = %s\n"+
		"SPECIFICATION Spec\n%sVIEW View\nCHECK_DEADLOCK FALSE\n",
		p.Cfg.N, p.Cfg.T, p.Cfg.PhaseLen, p.MaxRej, boolText(p.AccuseAny), boolText(p.Windows), boolText(p.Partial), p.MaxReload, p.MaxLag, p.Cfg.Ov(), boolText(p.Timely), p.reloadMax(), p.focus(), boolText(p.Mixed), inv)
	return mod, map[string][]byte{mod + ".tla": []byte(body)}, cfg
}

func (p Plan) reloadMax() int {
	if p.ReloadMax > 0 {
		return p.ReloadMax
	}
	return 2 * p.Cfg.PhaseLen
}

func (p Plan) focus() string {
	if p.Focus == "" {
		return "all"
	}
	return p.Focus
}

func (p Plan) trFiles(trace []byte) (string, map[string][]byte, string) {
	mod := "TRgen_dkg_" + strings.ReplaceAll(p.Name, "-", "_")
	body := fmt.Sprintf("---- MODULE %s ----\nEXTENDS DKGTrace\ncByz == %s\n====\n", mod, setText(p.Cfg.Byz))
	cfg := fmt.Sprintf("CONSTANTS\n N = %d\n T = %d\n Byz <- cByz\n PhaseLen = %d\n TraceFile = \"trace.ndjson\"\nSPECIFICATION TSpec\nINVARIANT Done\nCHECK_DEADLOCK FALSE\n",
		p.Cfg.N, p.Cfg.T, p.Cfg.PhaseLen)
	return mod, map[string][]byte{mod + ".tla": []byte(body), "trace.ndjson": trace}, cfg
}

// Gen is what TLC produced for one plan.
type Gen struct {
	Plan       Plan
	Alphabet   []Op
	Init       json.RawMessage
	Behaviours [][]int
	Live       [][]int // behaviours in which every keyper is honest and dealt within the phase
	States     int
	Distinct   int
	Wall       float64
	SpecViol   string
	SpecCex    []int
}

type constLine struct {
	N        int             `json:"n"`
	T        int             `json:"t"`
	Byz      []int           `json:"byz"`
	PhaseLen int             `json:"phaseLen"`
	Init     json.RawMessage `json:"init"`
}

// Generate model-checks the plan (C07 monitors on the code-shaped spec) and collects the printed
// behaviours.
func Generate(c *core.Ctx, p Plan) (*Gen, error) {
	mod, files, cfg := p.mcFiles()
	opts := tlc.Opts{Module: mod, CfgText: cfg, Files: files, Workers: c.Workers, Timeout: 40 * time.Minute, HeapGB: 10}
	if p.Simulate > 0 {
		opts.Workers = 1
		opts.Extra = []string{"-simulate", fmt.Sprintf("num=%d", p.Simulate), "-depth", "400", "-seed", fmt.Sprint(c.Seed + 7)}
	}
	res, err := tlc.Run(opts)
	if err != nil {
		return nil, err
	}
	g := &Gen{Plan: p, States: res.States, Distinct: res.Distinct, Wall: res.Wall.Seconds()}
	if res.Violation {
		g.SpecViol = res.ViolatedWhat
		if i := strings.LastIndex(res.Out, "/\\ hist = <<"); i >= 0 {
			rest := res.Out[i+len("/\\ hist = "):]
			if j := strings.Index(rest, ">>"); j >= 0 {
				g.SpecCex, _ = tlc.ParseIntTuple(strings.ReplaceAll(rest[:j+2], "\n", " "))
			}
		}
	} else if res.TimedOut || res.Errored != "" || (p.Simulate == 0 && (!res.Completed || res.Distinct == 0)) {
		return nil, fmt.Errorf("TLC did not complete on plan %s: %s\n%s", p.Name, res.Errored, res.Tail(25))
	}
	if err := res.TaggedJSON("ALPHABET", &g.Alphabet); err != nil {
		return nil, fmt.Errorf("%v\n%s", err, res.Tail(25))
	}
	var cl constLine
	if err := res.TaggedJSON("CONST", &cl); err != nil {
		return nil, err
	}
	g.Init = cl.Init
	seen := map[string]bool{}
	for _, s := range res.Tagged["B"] {
		if seen[s] {
			continue
		}
		seen[s] = true
		js, err := tlc.UnquoteTLA(s)
		if err != nil {
			return nil, err
		}
		var bl struct {
			H    []int `json:"h"`
			Live bool  `json:"live"`
		}
		if err := json.Unmarshal([]byte(js), &bl); err != nil {
			return nil, err
		}
		if len(bl.H) > 0 {
			g.Behaviours = append(g.Behaviours, bl.H)
			if bl.Live {
				g.Live = append(g.Live, bl.H)
			}
		}
	}
	sort.Slice(g.Behaviours, func(i, j int) bool { return lessInts(g.Behaviours[i], g.Behaviours[j]) })
	return g, nil
}

func lessInts(a, b []int) bool {
	for i := 0; i < len(a) && i < len(b); i++ {
		if a[i] != b[i] {
			return a[i] < b[i]
		}
	}
	return len(a) < len(b)
}

// Line is one ndjson trace line for DKGTrace.tla.
type Line struct {
	K     string `json:"k"`
	Run   int    `json:"run"`
	I     int    `json:"i"`
	Op    *Op    `json:"op,omitempty"`
	Out   *Out   `json:"out,omitempty"`
	St    J      `json:"st,omitempty"`
	Fin   J      `json:"fin,omitempty"`
	Panic string `json:"panic"`
}

// RunResult is one behaviour executed on the real code.
type RunResult struct {
	Hist   []int
	Lines  []Line
	Err    error
	Panics []string
	Calls  int
	Sig    string // abstract outcome signature (for counting distinct non-trivial runs)
}

// Execute replays one behaviour on a fresh world.
func Execute(cfg Cfg, alphabet []Op, hist []int, seed int64, run int) *RunResult {
	rr := &RunResult{Hist: hist}
	w, err := NewWorld(cfg, seed, 0)
	if err != nil {
		rr.Err = err
		return rr
	}
	defer w.Close()
	rr.Lines = append(rr.Lines, Line{K: "new", Run: run, St: w.State()})
	for i, idx := range hist {
		if idx < 1 || idx > len(alphabet) {
			rr.Err = fmt.Errorf("behaviour names op %d outside the alphabet", idx)
			return rr
		}
		o := alphabet[idx-1]
		if w.Chain.Open() == nil {
			break // the run is over (the spec would not enable further ops)
		}
		np := len(w.Panics)
		out := w.Apply(o)
		l := Line{K: "op", Run: run, I: i + 1, Op: &o, Out: &out, St: w.State()}
		if len(w.Panics) > np {
			l.Panic = strings.Join(w.Panics[np:], "; ")
		}
		rr.Lines = append(rr.Lines, l)
	}
	fin := w.Fin()
	if os.Getenv("VERIF_DKG_CORRUPT") == "pk" {
		// binding self-check: one corrupted logged field must make a monitor fire
		if res, ok := fin["res"].([]J); ok {
			for _, r := range res {
				if r["ok"] == true {
					r["pk"] = "corrupted"
					break
				}
			}
		}
	}
	rr.Lines = append(rr.Lines, Line{K: "fin", Run: run, Fin: fin})
	rr.Panics = w.Panics
	rr.Calls = w.Calls
	rr.Sig = outcomeSig(fin)
	if os.Getenv("VERIF_DKG_DEBUG") != "" {
		fmt.Fprintf(os.Stderr, "DEBUG run %d %v -> %s\n", run, opsOf(alphabet, hist), rr.Sig)
	}
	return rr
}

// outcomeSig is the abstract outcome of a run: per keyper result row, share check, vote and the
// equality class of its eon key (not the key itself, which differs from run to run).
func outcomeSig(fin J) string {
	res, _ := fin["res"].([]J)
	class := map[string]int{}
	var parts []string
	for _, r := range res {
		pk := fmt.Sprint(r["pk"], "/", r["pks"])
		if _, ok := class[pk]; !ok {
			class[pk] = len(class)
		}
		parts = append(parts, fmt.Sprintf("%v,%v,%v,%v,%d", r["done"], r["ok"], r["share"], r["vote"], class[pk]))
	}
	return strings.Join(parts, ";")
}

// VResult is the RESULT record printed by DKGTrace.
type VResult struct {
	Lines int     `json:"lines"`
	Viol  [][]any `json:"viol"`
	Drift []int   `json:"drift"`
}

func Validate(p Plan, trace []byte) (*VResult, error) {
	mod, files, cfg := p.trFiles(trace)
	res, err := tlc.Run(tlc.Opts{Module: mod, CfgText: cfg, Files: files, Workers: 1, Timeout: 30 * time.Minute, HeapGB: 6})
	if err != nil {
		return nil, err
	}
	if res.Errored != "" {
		return nil, fmt.Errorf("TLC error during trace validation: %s\n%s", res.Errored, res.Tail(30))
	}
	var vr VResult
	if err := res.TaggedJSON("RESULT", &vr); err != nil {
		return nil, fmt.Errorf("trace validation did not reach the end of the trace: %v\n%s", err, res.Tail(30))
	}
	return &vr, nil
}

// Finding is one monitor failure on an observed run.
type Finding struct {
	Monitor string `json:"monitor"`
	Plan    Plan   `json:"plan"`
	Hist    []int  `json:"hist"`
	Line    Line   `json:"line"`
}

// ReplayFile is what a VIOLATION line points to.
type ReplayFile struct {
	Prop     string  `json:"prop"`
	Seed     int64   `json:"seed"`
	Alphabet []Op    `json:"alphabet"`
	Finding  Finding `json:"finding"`
	Trace    []Line  `json:"trace"`
}

// Outcome of replaying + validating one plan.
type Outcome struct {
	Gen          *Gen
	Runs         int
	Calls        int
	Lines        int
	Traces       int
	Distinct     int
	DistinctRuns int
	Findings     []Finding
	Drift        []Line
	Samples      []any
	runs         map[int]*RunResult
}

func pick(c *core.Ctx, g *Gen) [][]int {
	beh := g.Behaviours
	if g.Plan.MaxBeh > 0 && len(beh) > g.Plan.MaxBeh {
		rng := rand.New(rand.NewSource(c.Seed + 11))
		idx := rng.Perm(len(beh))[:g.Plan.MaxBeh]
		sort.Ints(idx)
		var out [][]int
		have := map[string]bool{}
		for _, i := range idx {
			out = append(out, beh[i])
			have[fmt.Sprint(beh[i])] = true
		}
		// the runs to which the "all report success" clause applies are always replayed
		step := 1 + len(g.Live)/48
		for i, b := range g.Live {
			if i%step == 0 && !have[fmt.Sprint(b)] {
				out = append(out, b)
			}
		}
		beh = out
	}
	if len(g.SpecCex) > 0 {
		beh = append([][]int{g.SpecCex}, beh...)
	}
	return beh
}

// ReplayAndValidate executes the behaviours on the real code and validates the traces with TLC.
func ReplayAndValidate(c *core.Ctx, g *Gen) (*Outcome, error) {
	out := &Outcome{Gen: g, runs: map[int]*RunResult{}}
	beh := pick(c, g)
	if g.Plan.Repeat > 1 {
		// the flagged behaviours are repeated (the map-iteration order of the real code is sampled)
		flagged := map[string]bool{}
		for _, b := range g.Live {
			flagged[fmt.Sprint(b)] = true
		}
		var rb [][]int
		for _, b := range beh {
			n := 1
			if flagged[fmt.Sprint(b)] {
				n = g.Plan.Repeat
			}
			for r := 0; r < n; r++ {
				rb = append(rb, b)
			}
		}
		beh = rb
	}
	workers := c.Workers
	if workers > 8 {
		workers = 8
	}
	results := make([]*RunResult, len(beh))
	var wg sync.WaitGroup
	sem := make(chan struct{}, workers)
	for i := range beh {
		wg.Add(1)
		go func(i int) {
			defer wg.Done()
			sem <- struct{}{}
			defer func() { <-sem }()
			results[i] = Execute(g.Plan.Cfg, g.Alphabet, beh[i], c.Seed*1000003+int64(i), i+1)
		}(i)
	}
	wg.Wait()
	sigs := map[string]bool{}
	hists := map[string]bool{}
	for i, r := range results {
		if r.Err != nil {
			return nil, fmt.Errorf("run %d (%v): %v", i+1, r.Hist, r.Err)
		}
		out.runs[i+1] = r
		out.Runs++
		out.Calls += r.Calls
		sigs[r.Sig] = true
		if len(r.Lines) == len(r.Hist)+2 {
			hists[fmt.Sprint(r.Hist)] = true
		}
	}
	out.Distinct = len(sigs)
	out.DistinctRuns = len(hists)
	// validate in chunks
	const perChunk = 60
	type chunk struct {
		from, to int
		vr       *VResult
		err      error
		lines    []Line
	}
	var chunks []*chunk
	for i := 0; i < len(results); i += perChunk {
		j := i + perChunk
		if j > len(results) {
			j = len(results)
		}
		chunks = append(chunks, &chunk{from: i, to: j})
	}
	vsem := make(chan struct{}, 4)
	for _, ch := range chunks {
		wg.Add(1)
		go func(ch *chunk) {
			defer wg.Done()
			vsem <- struct{}{}
			defer func() { <-vsem }()
			var buf bytes.Buffer
			for _, r := range results[ch.from:ch.to] {
				for _, l := range r.Lines {
					b, _ := json.Marshal(l)
					buf.Write(b)
					buf.WriteByte('\n')
					ch.lines = append(ch.lines, l)
				}
			}
			ch.vr, ch.err = Validate(g.Plan, buf.Bytes())
		}(ch)
	}
	wg.Wait()
	for _, ch := range chunks {
		if ch.err != nil {
			return nil, ch.err
		}
		out.Traces += ch.to - ch.from
		out.Lines += ch.vr.Lines
		get := func(n int) Line {
			if n >= 1 && n <= len(ch.lines) {
				return ch.lines[n-1]
			}
			return Line{}
		}
		for _, v := range ch.vr.Viol {
			if len(v) != 2 {
				continue
			}
			n, _ := v[0].(float64)
			m, _ := v[1].(string)
			l := get(int(n))
			out.Findings = append(out.Findings, Finding{Monitor: m, Plan: g.Plan, Hist: out.runs[l.Run].Hist, Line: l})
		}
		for _, n := range ch.vr.Drift {
			if len(out.Drift) < 10 {
				out.Drift = append(out.Drift, get(n))
			}
		}
	}
	for i := 0; i < len(results) && i < 2; i++ {
		r := results[(i*7)%len(results)]
		out.Samples = append(out.Samples, J{"plan": g.Plan.Name, "hist": r.Hist, "ops": opsOf(g.Alphabet, r.Hist), "outcome": r.Lines[len(r.Lines)-1].Fin["res"]})
	}
	return out, nil
}

func opsOf(alphabet []Op, hist []int) []string {
	var s []string
	for _, i := range hist {
		if i >= 1 && i <= len(alphabet) {
			o := alphabet[i-1]
			s = append(s, fmt.Sprintf("%s(%d%s)", o.Op, o.S, valsText(o.Vals)))
		}
	}
	return s
}

func valsText(v []string) string {
	all := true
	for _, x := range v {
		if x != Blank {
			all = false
		}
	}
	if all {
		return ""
	}
	return ":" + strings.Join(v, ",")
}

func plansC07(thorough bool) []Plan {
	if !thorough {
		return []Plan{
			{Name: "n3-honest", Cfg: Cfg{N: 3, T: 2, Byz: []int{}, PhaseLen: 2, Overlap: true}, Windows: true, MaxReload: 1, MaxBeh: 40},
			{Name: "n3-byz3", Cfg: Cfg{N: 3, T: 2, Byz: []int{3}, PhaseLen: 2}, Windows: true, MaxBeh: 140},
			// mixed apologies (a correct entry next to an out-of-range one, either order) with a reload in any
			// block up to the last apologising one; honest messages in time
			{Name: "n3-byz3-apol", Cfg: Cfg{N: 3, T: 2, Byz: []int{3}, PhaseLen: 2}, Windows: true, Partial: true, Timely: true, Focus: "apol", Mixed: true, MaxReload: 1, ReloadMax: 6, MaxBeh: 100},
			// the previous eon is finalised in the block in which this eon goes from dealing to accusing;
			// Byzantine messages in the last block of / the first block after their phase
			{Name: "n3-byz3-aligned", Cfg: Cfg{N: 3, T: 2, Byz: []int{3}, PhaseLen: 2, Overlap: true, OvBlock: 2}, Windows: true, Partial: true, Timely: true, Focus: "late", Repeat: 8},
			{Name: "n3-sim", Cfg: Cfg{N: 3, T: 2, Byz: []int{2}, PhaseLen: 3, Overlap: true}, Partial: true, MaxRej: 2, AccuseAny: true, MaxReload: 2, MaxLag: 3, Mixed: true, Simulate: 16},
			{Name: "n4-sim", Cfg: Cfg{N: 4, T: 2, Byz: []int{2, 4}, PhaseLen: 2}, Partial: true, MaxRej: 2, AccuseAny: true, MaxReload: 2, MaxLag: 3, Simulate: 20},
		}
	}
	return []Plan{
		{Name: "n3-honest", Cfg: Cfg{N: 3, T: 2, Byz: []int{}, PhaseLen: 3, Overlap: true}, Windows: true, MaxReload: 1, MaxBeh: 600},
		{Name: "n3-byz3-reload", Cfg: Cfg{N: 3, T: 2, Byz: []int{3}, PhaseLen: 2}, Windows: true, MaxReload: 1, MaxBeh: 2000},
		{Name: "n3-byz3", Cfg: Cfg{N: 3, T: 2, Byz: []int{3}, PhaseLen: 2}, Windows: true, Partial: true, MaxBeh: 3000},
		{Name: "n3-byz1-rej", Cfg: Cfg{N: 3, T: 2, Byz: []int{1}, PhaseLen: 2}, Windows: true, MaxRej: 1, MaxBeh: 1500},
		{Name: "n3-t3", Cfg: Cfg{N: 3, T: 3, Byz: []int{}, PhaseLen: 2}, Windows: true, MaxBeh: 200},
		{Name: "n3-byz3-apol", Cfg: Cfg{N: 3, T: 2, Byz: []int{3}, PhaseLen: 2}, Windows: true, Partial: true, Timely: true, Focus: "apol", Mixed: true, MaxReload: 1, ReloadMax: 6, MaxBeh: 1500},
		{Name: "n3-byz3-aligned", Cfg: Cfg{N: 3, T: 2, Byz: []int{3}, PhaseLen: 2, Overlap: true, OvBlock: 2}, Windows: true, Partial: true, Timely: true, Focus: "late", MaxBeh: 400, Repeat: 12},
		{Name: "n3-byz3-aligned3", Cfg: Cfg{N: 3, T: 2, Byz: []int{3}, PhaseLen: 3, Overlap: true, OvBlock: 3}, Windows: true, Timely: true, Focus: "late", MaxBeh: 300, Repeat: 8},
		{Name: "n3-sim", Cfg: Cfg{N: 3, T: 2, Byz: []int{2}, PhaseLen: 3, Overlap: true}, Partial: true, MaxRej: 2, AccuseAny: true, MaxReload: 2, MaxLag: 3, Mixed: true, Simulate: 400},
		{Name: "n4-sim", Cfg: Cfg{N: 4, T: 2, Byz: []int{2, 4}, PhaseLen: 2}, Partial: true, MaxRej: 2, AccuseAny: true, MaxReload: 2, MaxLag: 3, Simulate: 400},
		{Name: "n4-t3-sim", Cfg: Cfg{N: 4, T: 3, Byz: []int{1}, PhaseLen: 3}, Partial: true, MaxRej: 2, AccuseAny: true, MaxReload: 2, MaxLag: 3, Simulate: 300},
		{Name: "n5-sim", Cfg: Cfg{N: 5, T: 3, Byz: []int{1, 4}, PhaseLen: 2}, Partial: true, MaxRej: 2, AccuseAny: true, MaxReload: 2, MaxLag: 3, Simulate: 300},
	}
}

func assumptionsC07() []string {
	return []string{
		"TLC and the Go toolchain are correct",
		"shlib puredkg/shcrypto (library code outside the repository) is sound: it runs for real, the spec models it by the validity relation of DKG.tla",
		"harness/dkg (faketm, concretiser byzTx, projection State/Fin) and harness/fakepg are the trusted binding",
		"exhaustive only for N=3 within the op alphabet, PhaseLen and timing classes stated per plan; N=4,5 and free timing by random behaviours",
		"all encryption keys are announced before the eon starts; block 0 carries only the config votes",
	}
}

// CheckC07 runs the check of property C07.
func CheckC07(c *core.Ctx) int {
	if c.Replay != "" {
		return ReplayC07(c)
	}
	known := core.LoadKnown().For(c.Prop)
	violations := 0
	var outs []*Outcome
	var leads []string
	for _, p := range plansC07(c.Thorough()) {
		mode := "exhaustive"
		if p.Simulate > 0 {
			mode = fmt.Sprintf("simulate %d", p.Simulate)
		}
		c.Logf("plan %s: TLC %s (N=%d T=%d Byz=%v PhaseLen=%d partial=%v maxRej=%d windows=%v)", p.Name, mode, p.Cfg.N, p.Cfg.T, p.Cfg.Byz, p.Cfg.PhaseLen, p.Partial, p.MaxRej, p.Windows)
		g, err := Generate(c, p)
		if err != nil {
			fmt.Println("INCONCLUSIVE:", err)
			return core.ExitInconclusive
		}
		c.Logf("plan %s: %d distinct states, %d behaviours, specviol=%q (%.1fs)", p.Name, g.Distinct, len(g.Behaviours), g.SpecViol, g.Wall)
		if g.SpecViol != "" {
			leads = append(leads, p.Name+": "+g.SpecViol)
		}
		if len(g.Behaviours) == 0 && len(g.SpecCex) == 0 {
			fmt.Printf("INCONCLUSIVE: plan %s: TLC printed no behaviour\n", p.Name)
			return core.ExitInconclusive
		}
		out, err := ReplayAndValidate(c, g)
		if err != nil {
			fmt.Println("INCONCLUSIVE:", err)
			return core.ExitInconclusive
		}
		outs = append(outs, out)
		c.Logf("plan %s: replayed %d runs (%d repository calls), %d trace lines validated, %d findings, %d drift", p.Name, out.Runs, out.Calls, out.Lines, len(out.Findings), len(out.Drift))
		if out.Runs == 0 || out.Lines == 0 {
			fmt.Printf("INCONCLUSIVE: plan %s replayed nothing\n", p.Name)
			return core.ExitInconclusive
		}
		for _, dl := range out.Drift {
			b, _ := json.Marshal(dl.Op)
			fmt.Printf("DRIFT plan=%s run=%d line=%s op=%s (observed step is not a step of the code-shaped spec)\n", p.Name, dl.Run, dl.K, b)
		}
		reported := 0
		for _, f := range out.Findings {
			if matchKnownC07(known, f) {
				continue
			}
			violations++
			if reported < 3 {
				r := out.runs[f.Line.Run]
				path := c.WriteReplay(fmt.Sprintf("%s-%d", p.Name, reported), ReplayFile{Prop: c.Prop, Seed: c.Seed, Alphabet: g.Alphabet, Finding: f, Trace: r.Lines})
				c.Violation(path, fmt.Sprintf("monitor %s failed on the run %v of plan %s", f.Monitor, opsOf(g.Alphabet, f.Hist), p.Name))
				reported++
			}
		}
	}
	writeEvidenceC07(c, outs, violations, leads)
	if violations > 0 {
		return core.ExitViolation
	}
	if len(leads) > 0 {
		for _, l := range leads {
			fmt.Println("MODEL-MISMATCH (spec-level counterexample not reproduced on the code):", l)
		}
		return core.ExitInconclusive
	}
	fmt.Printf("OK property=%s tier=%s\n", c.Prop, c.Tier)
	return core.ExitOK
}

func matchKnownC07(known []core.Finding, f Finding) bool {
	for _, k := range known {
		if mon, _ := k.Match["monitor"].(string); mon != "" && mon == f.Monitor {
			core.PrintKnown(k)
			return true
		}
	}
	return false
}

func writeEvidenceC07(c *core.Ctx, outs []*Outcome, violations int, leads []string) {
	states, trans, traces, evals, distinct := 0, 0, 0, 0, 0
	var samples []any
	plans := []any{}
	for _, o := range outs {
		if o.Gen.Plan.Simulate == 0 {
			states += o.Gen.Distinct
			trans += o.Gen.States
		}
		traces += o.Traces
		evals += o.Runs
		distinct += o.DistinctRuns
		samples = append(samples, o.Samples...)
		plans = append(plans, J{"plan": o.Gen.Plan, "tlc_distinct_states": o.Gen.Distinct, "tlc_states_generated": o.Gen.States,
			"tlc_wall_s": o.Gen.Wall, "behaviours_printed": len(o.Gen.Behaviours), "runs_replayed": o.Runs,
			"repository_calls": o.Calls, "trace_lines_validated": o.Lines, "drift_lines": len(o.Drift), "distinct_outcomes": o.Distinct})
	}
	if len(samples) == 0 {
		samples = append(samples, "no behaviour replayed")
	}
	cov := J{
		"states": states, "transitions": trans, "traces_validated_against_impl": traces, "samples": samples,
		"evaluations": evals, "distinct_nontrivial": distinct,
		"rule": "exhaustive plans: TLC enumerates every state of the bounded DKG model (adversary messages x block placements) and checks the C07 monitors on each; " +
			"it prints one complete behaviour per distinct final state, of which a seeded sample (all, if fewer than maxBeh) is replayed on the real keyper code; " +
			"simulate plans: random behaviours of the unbounded-timing model. evaluations = complete DKG runs executed on the real code and validated by DKGTrace; " +
			"distinct_nontrivial = distinct behaviours (op sequences) among them that were executed to the end of the key generation (every op applied, outcome read); distinct_outcomes per plan = distinct abstract outcome vectors (per keyper: result row, share check, vote, key equality class)",
		"plans": plans, "spec_level_counterexamples": leads,
	}
	err := ev.Write(ev.Evidence{PropertyID: c.Prop, Tier: c.Tier, Seed: c.Seed, Level: "model_checking", Coverage: cov,
		Assumptions: assumptionsC07(), WallS: time.Since(c.Start).Seconds(), Violations: violations})
	if err != nil {
		fmt.Fprintln(os.Stderr, "cannot write evidence:", err)
	}
}

// ReplayC07 re-executes the behaviour of a replay file and validates it again.
func ReplayC07(c *core.Ctx) int {
	b, err := os.ReadFile(c.Replay)
	if err != nil {
		fmt.Println("INCONCLUSIVE:", err)
		return core.ExitInconclusive
	}
	var rf ReplayFile
	if err := json.Unmarshal(b, &rf); err != nil {
		fmt.Println("INCONCLUSIVE:", err)
		return core.ExitInconclusive
	}
	r := Execute(rf.Finding.Plan.Cfg, rf.Alphabet, rf.Finding.Hist, rf.Seed*1000003, 1)
	if r.Err != nil {
		fmt.Println("INCONCLUSIVE:", r.Err)
		return core.ExitInconclusive
	}
	var buf bytes.Buffer
	for _, l := range r.Lines {
		lb, _ := json.Marshal(l)
		buf.Write(lb)
		buf.WriteByte('\n')
	}
	vr, err := Validate(rf.Finding.Plan, buf.Bytes())
	if err != nil {
		fmt.Println("INCONCLUSIVE:", err)
		return core.ExitInconclusive
	}
	fmt.Printf("ops: %v\noutcome: %s\nviol=%v drift=%v\n", opsOf(rf.Alphabet, rf.Finding.Hist), r.Sig, vr.Viol, vr.Drift)
	for _, v := range vr.Viol {
		if len(v) == 2 && v[1] == rf.Finding.Monitor {
			c.Violation(c.Replay, "reproduced "+rf.Finding.Monitor)
			return core.ExitViolation
		}
	}
	fmt.Println("not reproduced")
	return core.ExitOK
}
