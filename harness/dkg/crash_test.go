package dkg

import (
	"encoding/json"
	"fmt"
	"testing"
	"time"
)

func TestCrashBaseline(t *testing.T) {
	t0 := time.Now()
	r, err := executeCrash(defaultScenario(), 1, 1, nil, nil, true)
	if err != nil {
		t.Fatal(err)
	}
	fmt.Println("baseline", time.Since(t0), "wire messages", len(r.wire), "lines", len(r.lines), "panics", r.w.Panics)
	for _, l := range r.lines {
		b, _ := json.Marshal(l.St)
		fmt.Println(l.K, l.What, l.H, string(b))
	}
	stm := map[string]int{}
	for _, e := range r.wire {
		stm[e.Stage+"/"+e.Kind+"/"+e.Stmt]++
	}
	fmt.Println(stm)
	b, _ := json.Marshal(r.lines[len(r.lines)-1].Keys)
	fmt.Println(string(b))
	var twin []J
	for _, l := range r.lines {
		twin = append(twin, l.St)
	}
	r2, err := executeCrash(defaultScenario(), 1, 2, []Fault{{Kind: "db-before", At: 40}}, twin, false)
	if err != nil {
		t.Fatal(err)
	}
	fmt.Println("fired", r2.fired, "total", r2.total)
	for _, l := range r2.lines {
		if l.Crashes > 0 {
			b, _ := json.Marshal(l)
			fmt.Println(string(b))
		}
	}
}
