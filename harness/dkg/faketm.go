// Package dkg binds the DKG (C07) and KeyperCrash (C08) TLA+ specifications to the real keyper
// code: smobserver.SyncAppWithDB / ShuttermintState, fx.SendShutterMessages / RPCMessageSender,
// one real app.ShutterApp behind a fake Tendermint RPC, one fakepg database per honest keyper.
package dkg

import (
	"context"
	"errors"
	"fmt"
	"sync"

	abcitypes "github.com/tendermint/tendermint/abci/types"
	tmproto "github.com/tendermint/tendermint/proto/tendermint/types"
	"github.com/tendermint/tendermint/rpc/client"
	coretypes "github.com/tendermint/tendermint/rpc/core/types"
	tmtypes "github.com/tendermint/tendermint/types"

	"github.com/shutter-network/rolling-shutter/rolling-shutter/app"
)

// BlockRec is what BlockResults serves for one executed block.
type BlockRec struct {
	Height  int64
	Begin   []abcitypes.Event
	Txs     [][]byte
	Results []*abcitypes.ResponseDeliverTx
	End     []abcitypes.Event
}

// Chain is one real shuttermint application plus the blocks the harness has executed on it.
// The harness decides which transactions go into which block: a block is open between
// OpenBlock and CloseBlock, and every accepted transaction is delivered into the open block.
type Chain struct {
	mu      sync.Mutex
	App     *app.ShutterApp
	ChainID string
	Blocks  []*BlockRec
	open    *BlockRec
}

func NewChain(a *app.ShutterApp, chainID string) *Chain { return &Chain{App: a, ChainID: chainID} }

// Height of the last closed block.
func (c *Chain) Height() int64 { return int64(len(c.Blocks)) }

func (c *Chain) OpenBlock() {
	c.mu.Lock()
	defer c.mu.Unlock()
	if c.open != nil {
		panic("faketm: block already open")
	}
	h := int64(len(c.Blocks)) + 1
	bb := c.App.BeginBlock(abcitypes.RequestBeginBlock{Header: tmproto.Header{Height: h, ChainID: c.ChainID}})
	c.open = &BlockRec{Height: h, Begin: bb.Events}
}

func (c *Chain) CloseBlock() *BlockRec {
	c.mu.Lock()
	defer c.mu.Unlock()
	if c.open == nil {
		panic("faketm: no open block")
	}
	eb := c.App.EndBlock(abcitypes.RequestEndBlock{Height: c.open.Height})
	c.open.End = eb.Events
	c.App.Commit()
	b := c.open
	c.Blocks = append(c.Blocks, b)
	c.open = nil
	return b
}

// Open returns the block being filled (nil if none).
func (c *Chain) Open() *BlockRec { return c.open }

// Submit runs CheckTx and, if it passes, DeliverTx into the open block (what a node does between
// accepting a transaction into the mempool and committing the block that contains it).
func (c *Chain) Submit(tx []byte) (abcitypes.ResponseCheckTx, abcitypes.ResponseDeliverTx, int64) {
	c.mu.Lock()
	defer c.mu.Unlock()
	if c.open == nil {
		panic("faketm: no open block")
	}
	chk := c.App.CheckTx(abcitypes.RequestCheckTx{Tx: tx})
	if chk.Code != 0 {
		return chk, abcitypes.ResponseDeliverTx{}, 0
	}
	res := c.App.DeliverTx(abcitypes.RequestDeliverTx{Tx: tx})
	c.open.Txs = append(c.open.Txs, tx)
	c.open.Results = append(c.open.Results, &res)
	return chk, res, c.open.Height
}

// ErrTimeout is what BroadcastTxCommit answers when the harness does not put the transaction
// into the open block (text of the real node's answer).
var ErrTimeout = errors.New("timed out waiting for tx to be included in a block")

// ErrConnLost is returned to a keyper that "died" between an accepted broadcast and its reply.
var ErrConnLost = errors.New("faketm: connection lost")

// Sent is one broadcast the fake node saw.
type Sent struct {
	Tx     []byte
	Code   uint32 // DeliverTx code (0 ok, 1 error, 2 seen); 99 = refused by CheckTx
	Height int64
	Events []abcitypes.Event
}

// Client is the Tendermint RPC client of ONE keyper. It embeds client.Client (nil): only the
// methods the keyper code calls are implemented, any other call panics (and is reported).
type Client struct {
	client.Client
	chain *Chain
	// Budget is the number of broadcasts that will be put into the open block; further
	// broadcasts time out (the message stays in the keyper's outbox: "will be retried").
	Budget int
	// Sent lists the accepted broadcasts of this client, oldest first.
	Sent []Sent
	// CrashAfterAccept: if >0, the n-th accepted broadcast from now is executed but its reply is
	// lost (the keyper process dies between the broadcast and the outbox delete).
	CrashAfterAccept int
	// CrashPred, if set, is asked after every accepted broadcast whether the keyper dies now.
	CrashPred func() bool
	Crashed   bool
	// Lag: a real node reports LastCommit.Height = head-1 and the driver handles blocks strictly
	// below it, i.e. it stays two blocks behind the head. Lag=0 lets the keyper see every executed
	// block at once (messages produced from block h can then land in any block > h, a superset of
	// the placements possible with a lag).
	Lag int64
}

func (c *Chain) NewClient() *Client { return &Client{chain: c} }

func (cl *Client) Block(_ context.Context, height *int64) (*coretypes.ResultBlock, error) {
	if height != nil {
		return nil, fmt.Errorf("faketm: Block(height) not implemented")
	}
	n := cl.chain.Height()
	if n == 0 {
		return &coretypes.ResultBlock{Block: nil}, nil
	}
	last := n + 1 - cl.Lag
	return &coretypes.ResultBlock{Block: &tmtypes.Block{
		Header:     tmtypes.Header{ChainID: cl.chain.ChainID, Height: last + 1},
		LastCommit: &tmtypes.Commit{Height: last},
	}}, nil
}

func (cl *Client) BlockResults(_ context.Context, height *int64) (*coretypes.ResultBlockResults, error) {
	if height == nil {
		return nil, fmt.Errorf("faketm: BlockResults(nil) not implemented")
	}
	if *height < 1 || *height > cl.chain.Height() {
		return nil, fmt.Errorf("faketm: height %d must be less than or equal to the current blockchain height %d", *height, cl.chain.Height())
	}
	b := cl.chain.Blocks[*height-1]
	return &coretypes.ResultBlockResults{
		Height: b.Height, TxsResults: b.Results, BeginBlockEvents: b.Begin, EndBlockEvents: b.End,
	}, nil
}

func (cl *Client) BlockchainInfo(_ context.Context, _, _ int64) (*coretypes.ResultBlockchainInfo, error) {
	return &coretypes.ResultBlockchainInfo{
		LastHeight: cl.chain.Height(),
		BlockMetas: []*tmtypes.BlockMeta{{Header: tmtypes.Header{ChainID: cl.chain.ChainID, Height: cl.chain.Height()}}},
	}, nil
}

func (cl *Client) BroadcastTxCommit(_ context.Context, tx tmtypes.Tx) (*coretypes.ResultBroadcastTxCommit, error) {
	if cl.Crashed {
		return nil, ErrConnLost
	}
	if cl.Budget <= 0 {
		return nil, ErrTimeout
	}
	cl.Budget--
	chk, res, h := cl.chain.Submit(tx)
	if chk.Code != 0 {
		cl.Sent = append(cl.Sent, Sent{Tx: tx, Code: 99})
		return &coretypes.ResultBroadcastTxCommit{CheckTx: chk}, nil
	}
	cl.Sent = append(cl.Sent, Sent{Tx: tx, Code: res.Code, Height: h, Events: res.Events})
	if cl.CrashPred != nil && cl.CrashPred() {
		cl.Crashed = true
		return nil, ErrConnLost
	}
	if cl.CrashAfterAccept > 0 {
		cl.CrashAfterAccept--
		if cl.CrashAfterAccept == 0 {
			cl.Crashed = true
			return nil, ErrConnLost
		}
	}
	return &coretypes.ResultBroadcastTxCommit{CheckTx: chk, DeliverTx: res, Height: h}, nil
}
