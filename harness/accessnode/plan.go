package accessnode

import (
	"bufio"
	"context"
	"encoding/json"
	"fmt"
	"os"
	"os/exec"
	"path/filepath"
	"regexp"
	"sort"
	"strconv"
	"strings"
	"time"

	"verif/harness/tlc"
)

// Plan is one constant assignment of AccessNodeMC.tla.
type Plan struct {
	Name   string   `json:"name"`
	Eons   []string `json:"eons"`
	Huge   []string `json:"huge"`
	NN     int      `json:"nn"`
	EvSet  string   `json:"evSet"`
	MsgSet string   `json:"msgSet"`
	MaxEv  int      `json:"maxEv"`
	MaxMsg int      `json:"maxMsg"`
	// named alternatives of the code-shaped spec ("" = the tree as found)
	StoreRule    string `json:"storeRule"`
	KeyStoreRule string `json:"keyStoreRule"`
	MissRule     string `json:"missRule"`
	KeyDecode    string `json:"keyDecode"`
	IntRule      string `json:"intRule"`
	EonOf        string `json:"eonOf"`    // chain plans: "recompute" (as found) | "event"
	EmptyKey     string `json:"emptyKey"` // chain plans: "deliver" (as found) | "skip"
	MaxChain     int    `json:"maxChain"` // chain plans: contract events per chain (0 = not a chain plan)
	Replay       int    `json:"replay"`   // maximal histories replayed on the real code (0 = all)
	// design pass: exhaustive without emission on larger bounds (0 = none)
	DesignEv  int `json:"designEv"`
	DesignMsg int `json:"designMsg"`
	// Expect: a design-level self check of a named alternative: the observation classes TLC must
	// report as not allowed (nothing is replayed)
	Expect []string `json:"expect,omitempty"`
	// Universes the replayed histories are spread over
	Universes int `json:"universes"`
}

func dflt(s, d string) string {
	if s == "" {
		return d
	}
	return s
}

func (p Plan) norm() Plan {
	p.StoreRule = dflt(p.StoreRule, "last")
	p.KeyStoreRule = dflt(p.KeyStoreRule, "last")
	p.MissRule = dflt(p.MissRule, "reject")
	p.KeyDecode = dflt(p.KeyDecode, "asfound")
	p.IntRule = dflt(p.IntRule, "trunc")
	p.EonOf = dflt(p.EonOf, "recompute")
	p.EmptyKey = dflt(p.EmptyKey, "deliver")
	if p.NN == 0 {
		p.NN = 1
	}
	if p.Huge == nil {
		p.Huge = []string{}
	}
	if p.Universes == 0 {
		p.Universes = 1
	}
	return p
}

// withMode applies "key=value,..." (VERIF_ACCESSNODE_MODE: validation of a proposed repair).
func (p Plan) withMode(mode string) Plan {
	for _, kv := range strings.Split(mode, ",") {
		k, v, ok := strings.Cut(strings.TrimSpace(kv), "=")
		if !ok {
			continue
		}
		switch k {
		case "storeRule":
			p.StoreRule = v
		case "keyStoreRule":
			p.KeyStoreRule = v
		case "missRule":
			p.MissRule = v
		case "keyDecode":
			p.KeyDecode = v
		case "intRule":
			p.IntRule = v
		case "eonOf":
			p.EonOf = v
		case "emptyKey":
			p.EmptyKey = v
		}
	}
	return p
}

func strSet(xs []string) string {
	var q []string
	for _, x := range xs {
		q = append(q, fmt.Sprintf("%q", x))
	}
	return "{" + strings.Join(q, ", ") + "}"
}

func tlaBool(b bool) string {
	if b {
		return "TRUE"
	}
	return "FALSE"
}

// AsFoundAllowed: the observation classes the AS-FOUND design is known to show (each is reported
// as an OBSERVATION when the real code shows it); with repaired alternatives the set shrinks.
func (p Plan) allowed() []string {
	a := []string{"A2_AcceptRevoked", "A2_Sound", "A5_StorageDiverged", "A5_VerdictDiverged"}
	if p.MissRule == "reject" {
		a = append(a, "A2_StartupReject")
	}
	if p.KeyDecode == "asfound" {
		a = append(a, "A2_ForgedKeysAccepted", "A4_UndecodableKeyStored")
	}
	a = append(a, "A4_IntTruncated") // int64(activation block) stays
	if p.IntRule == "trunc" {
		a = append(a, "A2_TruncatedThresholdAccept")
	}
	return a
}

func (p Plan) baseDefs() string {
	return fmt.Sprintf("cAllEons == %s\ncHugeEons == %s\n", strSet(p.Eons), strSet(p.Huge))
}

func (p Plan) baseConsts() string {
	return fmt.Sprintf(" AllEons <- cAllEons\n HugeEons <- cHugeEons\n N = %d\n T = %d\n MaxKeys = %d\n StoreRule = %q\n KeyStoreRule = %q\n MissRule = %q\n KeyDecode = %q\n IntRule = %q\n EonOf = %q\n EmptyKey = %q\n",
		N, T, MaxKeys, p.StoreRule, p.KeyStoreRule, p.MissRule, p.KeyDecode, p.IntRule, p.EonOf, p.EmptyKey)
}

func modName(prefix, name string) string {
	return prefix + strings.NewReplacer("-", "_", ".", "_").Replace(name)
}

// mcFiles: mode "emit" (print histories, bounds MaxEv / MaxMsg) or "design" (no emission, bounds DesignEv / DesignMsg).
func (p Plan) mcFiles(mode string) (string, map[string][]byte, string) {
	mod := modName("MCgen_accessnode_", p.Name+"_"+mode)
	body := fmt.Sprintf("---- MODULE %s ----\nEXTENDS AccessNodeMC\n%scAllowed == %s\n====\n", mod, p.baseDefs(), strSet(p.allowed()))
	ev, msg := p.MaxEv, p.MaxMsg
	if mode == "design" {
		ev, msg = p.DesignEv, p.DesignMsg
	}
	cfg := "CONSTANTS\n" + p.baseConsts() +
		fmt.Sprintf(" NN = %d\n EvSet = %q\n MsgSet = %q\n MaxEv = %d\n MaxMsg = %d\n Emit = %s\n Allowed <- cAllowed\n", p.NN, p.EvSet, p.MsgSet, ev, msg, tlaBool(mode == "emit"))
	cfg += "SPECIFICATION Spec\nINVARIANT DesignCex\n"
	if mode == "emit" {
		cfg += "INVARIANT EmitInv\n"
	}
	cfg += "VIEW View\nCHECK_DEADLOCK FALSE\n"
	return mod, map[string][]byte{mod + ".tla": []byte(body)}, cfg
}

func (p Plan) trFiles(trace []byte) (string, map[string][]byte, string) {
	mod := modName("TRgen_accessnode_", p.Name)
	body := fmt.Sprintf("---- MODULE %s ----\nEXTENDS AccessNodeTrace\n%s====\n", mod, p.baseDefs())
	cfg := "CONSTANTS\n" + p.baseConsts() + fmt.Sprintf(" NN = %d\n", p.NN) + " TraceFile = \"trace.ndjson\"\nSPECIFICATION TSpec\nINVARIANT Done\nCHECK_DEADLOCK FALSE\n"
	return mod, map[string][]byte{mod + ".tla": []byte(body), "trace.ndjson": trace}, cfg
}

// Step is one step of a behaviour: AccessNodeMC!Code(kind, n, i).
type Step struct {
	Kind int `json:"kind"` // 0 = chain event, 1 = gossip message
	N    int `json:"n"`
	I    int `json:"i"`
}

func decodeStep(c int) Step { return Step{Kind: (c / 1000) % 10, N: c / 10000, I: c % 1000} }

// Alphabets are the event / message tokens TLC printed for the plan.
type Alphabets struct {
	Ev  []Ev  `json:"ev"`
	Msg []Msg `json:"msg"`
}

func (a *Alphabets) stepText(s Step) string {
	pre := ""
	if s.N > 1 || false {
		pre = fmt.Sprintf("node%d:", s.N)
	}
	if s.Kind == 0 {
		if s.I >= 1 && s.I <= len(a.Ev) {
			return pre + a.Ev[s.I-1].String()
		}
	} else if s.I >= 1 && s.I <= len(a.Msg) {
		return pre + a.Msg[s.I-1].String()
	}
	return fmt.Sprintf("%s?%d/%d", pre, s.Kind, s.I)
}

func (a *Alphabets) behText(b []Step, nn int) string {
	var q []string
	for _, s := range b {
		t := a.stepText(s)
		if nn > 1 && !strings.HasPrefix(t, "node") {
			t = fmt.Sprintf("node%d:%s", s.N, t)
		}
		q = append(q, t)
	}
	return strings.Join(q, " ; ")
}

// Behaviour is one history printed by TLC with the observation classes the as-found design predicts.
type Behaviour struct {
	H   []Step
	Obs []string
}

// Gen is what TLC produced for one plan.
type Gen struct {
	Plan     Plan
	Alpha    Alphabets
	Leaves   []Behaviour // printed histories that no other printed history extends
	Printed  int
	States   int
	Distinct int
	Wall     float64
	Cex      []string // design counterexamples (CEX lines)
	ObsHist  map[string]int
}

var (
	reStates = regexp.MustCompile(`(\d+) states generated, (\d+) distinct states found`)
)

type streamRes struct {
	States, Distinct int
	Completed        bool
	TimedOut         bool
	Violation        bool
	ViolatedWhat     string
	Errored          string
	Other            string
	Wall             time.Duration
}

// streamTLC runs TLC like tlc.Run (same scratch handling and JVM arguments) but reads the output
// line by line; tagged lines <<"TAG", "...">> are handed to onTag instead of being kept in memory.
func streamTLC(o tlc.Opts, onTag func(tag, raw string) error) (*streamRes, error) {
	dir, err := os.MkdirTemp(tlc.ScratchRoot(), "verif-tlc-")
	if err != nil {
		return nil, err
	}
	defer os.RemoveAll(dir)
	specs, _ := filepath.Glob(filepath.Join(specSource(), "*.tla"))
	for _, f := range specs {
		b, err := os.ReadFile(f)
		if err != nil {
			return nil, err
		}
		if err := os.WriteFile(filepath.Join(dir, filepath.Base(f)), b, 0o644); err != nil {
			return nil, err
		}
	}
	for name, b := range o.Files {
		if err := os.WriteFile(filepath.Join(dir, name), b, 0o644); err != nil {
			return nil, err
		}
	}
	if err := os.WriteFile(filepath.Join(dir, o.Module+".cfg"), []byte(o.CfgText), 0o644); err != nil {
		return nil, err
	}
	if o.Workers <= 0 {
		o.Workers = 4
	}
	if o.Timeout <= 0 {
		o.Timeout = 10 * time.Minute
	}
	if o.HeapGB <= 0 {
		o.HeapGB = 6
	}
	args := []string{
		fmt.Sprintf("-Xmx%dg", o.HeapGB), "-Xss64m", "-XX:+UseParallelGC",
		"-cp", "/opt/veriftools/tla/tla2tools.jar:/opt/veriftools/tla/CommunityModules-deps.jar",
		"tlc2.TLC", "-metadir", filepath.Join(dir, "meta"), "-workers", strconv.Itoa(o.Workers),
		"-config", o.Module + ".cfg",
	}
	args = append(args, o.Extra...)
	args = append(args, o.Module+".tla")
	ctx, cancel := context.WithTimeout(context.Background(), o.Timeout)
	defer cancel()
	cmd := exec.CommandContext(ctx, "java", args...)
	cmd.Dir = dir
	stdout, err := cmd.StdoutPipe()
	if err != nil {
		return nil, err
	}
	cmd.Stderr = cmd.Stdout
	t0 := time.Now()
	if err := cmd.Start(); err != nil {
		return nil, err
	}
	res := &streamRes{}
	var other strings.Builder
	var cbErr error
	sc := bufio.NewScanner(stdout)
	sc.Buffer(make([]byte, 1<<20), 1<<28)
	for sc.Scan() {
		line := sc.Text()
		if strings.HasPrefix(line, `<<"`) && strings.HasSuffix(line, ">>") {
			if i := strings.Index(line, `", `); i > 3 {
				if cbErr == nil {
					cbErr = onTag(line[3:i], line[i+3:len(line)-2])
				}
				continue
			}
		}
		if other.Len() < 1<<21 {
			other.WriteString(line)
			other.WriteByte('\n')
		}
		if m := reStates.FindStringSubmatch(line); m != nil {
			res.States, _ = strconv.Atoi(m[1])
			res.Distinct, _ = strconv.Atoi(m[2])
		}
		if strings.Contains(line, "Model checking completed") || strings.Contains(line, "Finished in") {
			res.Completed = true
		}
		isViol := strings.HasPrefix(line, "Error: Invariant ") || strings.HasPrefix(line, "Error: Action property ") ||
			strings.HasPrefix(line, "Error: Temporal properties") || strings.HasPrefix(line, "Error: Deadlock")
		if strings.HasPrefix(line, "Error:") && !isViol && !res.Violation && res.Errored == "" {
			res.Errored = line
		}
		if isViol {
			res.Violation = true
			res.ViolatedWhat = line
		}
	}
	_ = cmd.Wait()
	res.Wall = time.Since(t0)
	res.Other = other.String()
	if ctx.Err() == context.DeadlineExceeded {
		res.TimedOut = true
	}
	if scErr := sc.Err(); scErr != nil && cbErr == nil {
		cbErr = scErr
	}
	return res, cbErr
}

func tail(s string, n int) string {
	l := strings.Split(strings.TrimSpace(s), "\n")
	if len(l) > n {
		l = l[len(l)-n:]
	}
	return strings.Join(l, "\n")
}

type rawB struct {
	H []int    `json:"h"`
	O []string `json:"o"`
}

func histKey(h []int) string {
	b := make([]byte, 0, len(h)*3)
	for _, c := range h {
		b = append(b, byte(c>>16), byte(c>>8), byte(c))
	}
	return string(b)
}

func keyHist(k string) []int {
	h := make([]int, 0, len(k)/3)
	for i := 0; i+2 < len(k); i += 3 {
		h = append(h, int(k[i])<<16|int(k[i+1])<<8|int(k[i+2]))
	}
	return h
}

// Generate model-checks the plan (emit mode) and keeps the maximal printed histories.
func Generate(p Plan, workers int) (*Gen, error) {
	mod, files, cfg := p.mcFiles("emit")
	g := &Gen{Plan: p, ObsHist: map[string]int{}}
	obsIdx := map[string]int{}
	var obsNames []string
	all := map[string][]byte{} // history key -> indices of its predicted observation classes
	parents := map[string]struct{}{}
	res, err := streamTLC(tlc.Opts{Module: mod, CfgText: cfg, Files: files, Workers: workers, Timeout: 40 * time.Minute, HeapGB: 8},
		func(tag, raw string) error {
			s, err := tlc.UnquoteTLA(raw)
			if err != nil {
				return err
			}
			switch tag {
			case "ALPHA":
				return json.Unmarshal([]byte(s), &g.Alpha)
			case "CEX":
				if len(g.Cex) < 5 {
					g.Cex = append(g.Cex, s)
				}
			case "B":
				var rb rawB
				if err := json.Unmarshal([]byte(s), &rb); err != nil {
					return fmt.Errorf("history not decodable: %v: %.200s", err, s)
				}
				k := histKey(rb.H)
				if _, dup := all[k]; dup {
					return nil
				}
				oi := make([]byte, 0, len(rb.O))
				for _, o := range rb.O {
					i, ok := obsIdx[o]
					if !ok {
						i = len(obsNames)
						obsIdx[o] = i
						obsNames = append(obsNames, o)
					}
					oi = append(oi, byte(i))
				}
				all[k] = oi
				if len(rb.H) > 0 {
					parents[histKey(rb.H[:len(rb.H)-1])] = struct{}{}
				}
			}
			return nil
		})
	if err != nil {
		return nil, err
	}
	if res.Violation {
		return g, fmt.Errorf("design violation in plan %s (%s): %s", p.Name, res.ViolatedWhat, strings.Join(g.Cex, " "))
	}
	if res.Errored != "" {
		return nil, fmt.Errorf("TLC evaluation error on plan %s: %s\n%s", p.Name, res.Errored, tail(res.Other, 25))
	}
	if res.TimedOut || !res.Completed || res.Distinct == 0 {
		return nil, fmt.Errorf("TLC did not complete on plan %s\n%s", p.Name, tail(res.Other, 25))
	}
	g.States, g.Distinct, g.Wall, g.Printed = res.States, res.Distinct, res.Wall.Seconds(), len(all)
	keys := make([]string, 0, len(all))
	for k := range all {
		if _, isParent := parents[k]; !isParent {
			keys = append(keys, k)
		}
	}
	sort.Strings(keys)
	for _, k := range keys {
		b := Behaviour{}
		for _, c := range keyHist(k) {
			b.H = append(b.H, decodeStep(c))
		}
		for _, i := range all[k] {
			b.Obs = append(b.Obs, obsNames[i])
			g.ObsHist[obsNames[i]]++
		}
		sort.Strings(b.Obs)
		g.Leaves = append(g.Leaves, b)
	}
	if len(g.Leaves) == 0 || len(g.Alpha.Ev) == 0 {
		return nil, fmt.Errorf("TLC printed no behaviour / no alphabet for plan %s\n%s", p.Name, tail(res.Other, 20))
	}
	return g, nil
}

// DesignRes is the outcome of a design pass (no emission).
type DesignRes struct {
	States, Distinct int
	Wall             float64
	Violation        bool
	Cex              []string
	CexObs           []string
}

// Design model-checks the plan without emission on the design bounds: the property layer against
// the code-shaped layer.
func Design(p Plan, workers int) (*DesignRes, error) {
	mod, files, cfg := p.mcFiles("design")
	d := &DesignRes{}
	res, err := streamTLC(tlc.Opts{Module: mod, CfgText: cfg, Files: files, Workers: workers, Timeout: 40 * time.Minute, HeapGB: 8},
		func(tag, raw string) error {
			if tag == "CEX" {
				s, err := tlc.UnquoteTLA(raw)
				if err != nil {
					return err
				}
				var c struct {
					Obs []string `json:"obs"`
				}
				_ = json.Unmarshal([]byte(s), &c)
				d.CexObs = append(d.CexObs, c.Obs...)
				if len(d.Cex) < 3 {
					d.Cex = append(d.Cex, s)
				}
			}
			return nil
		})
	if err != nil {
		return nil, err
	}
	if res.Errored != "" {
		return nil, fmt.Errorf("TLC evaluation error in the design pass of plan %s: %s\n%s", p.Name, res.Errored, tail(res.Other, 25))
	}
	if res.TimedOut || (!res.Completed && !res.Violation) {
		return nil, fmt.Errorf("TLC did not complete the design pass of plan %s\n%s", p.Name, tail(res.Other, 25))
	}
	d.States, d.Distinct, d.Wall, d.Violation = res.States, res.Distinct, res.Wall.Seconds(), res.Violation
	return d, nil
}
