package accessnode

import (
	"context"
	"encoding/json"
	"fmt"
	"strconv"
	"sync"
	"time"

	"github.com/ethereum/go-ethereum/accounts/abi"
	"github.com/ethereum/go-ethereum/common"
	"github.com/ethereum/go-ethereum/crypto"
	"github.com/shutter-network/shop-contracts/bindings"

	"github.com/shutter-network/rolling-shutter/rolling-shutter/gnosisaccessnode"
	"github.com/shutter-network/rolling-shutter/rolling-shutter/medley/chainsync"
	syncevent "github.com/shutter-network/rolling-shutter/rolling-shutter/medley/chainsync/event"
	"github.com/shutter-network/rolling-shutter/rolling-shutter/medley/service"
	"github.com/shutter-network/rolling-shutter/rolling-shutter/p2p"

	"verif/harness/fakeeth"
	"verif/harness/tlc"
)

// Chain plans: the access nodes are fed by the REAL chainsync.Client (built with the option list
// of GnosisAccessNode.Start through the hook) over a harness/fakeeth node on which the
// KeyperSetManager, the KeyperSet contracts and the KeyBroadcastContract are emulated at the state
// of the block a call resolves to.  Node 1 is started at block 0 and hears every event through its
// two log subscriptions (pushed one block at a time, in chain order); node 2 is started when the
// chain has its full length (initial poll only).  The handlers are wrapped only to record the
// arguments the client hands over and the Storage after each call.

// ChainEv is one contract event of a chain scenario (AccessNode.tla: ChAdd / ChBc).
type ChainEv struct {
	T   string `json:"t"` // add | bc
	Mem string `json:"mem"`
	Thr string `json:"thr"`
	Act int    `json:"act"`
	Idx int    `json:"idx"`
	Key string `json:"key"`
}

// Scenario is one chain printed by AccessNodeChainMC with what the as-found model predicts.
type Scenario struct {
	Ch             []ChainEv `json:"ch"`
	Live           []Ev      `json:"live"`
	Late           []Ev      `json:"late"`
	Msgs           []Msg     `json:"msgs"`
	Diverge        bool      `json:"diverge"`
	VerdictDiverge bool      `json:"verdictDiverge"`
	Inf            bool      `json:"inf"`
}

func (s *Scenario) Text() string {
	out := ""
	for i, c := range s.Ch {
		if i > 0 {
			out += " ; "
		}
		if c.T == "add" {
			out += fmt.Sprintf("block %d: addKeyperSet(members %s, threshold %s, activation block %d)", i+1, c.Mem, c.Thr, c.Act)
		} else {
			out += fmt.Sprintf("block %d: broadcastEonKey(eon %d, %s)", i+1, c.Idx, c.Key)
		}
	}
	if out == "" {
		out = "(genesis only)"
	}
	return out
}

var (
	ksmABI, kbcABI, ksABI *abi.ABI
	ksmAddr               = common.BytesToAddress(crypto.Keccak256([]byte("accessnode:ksm"))[12:])
	kbcAddr               = common.BytesToAddress(crypto.Keccak256([]byte("accessnode:kbc"))[12:])
)

func init() {
	var err error
	if ksmABI, err = bindings.KeyperSetManagerMetaData.GetAbi(); err != nil {
		panic(err)
	}
	if kbcABI, err = bindings.KeyBroadcastContractMetaData.GetAbi(); err != nil {
		panic(err)
	}
	if ksABI, err = bindings.KeyperSetMetaData.GetAbi(); err != nil {
		panic(err)
	}
}

func ksContractAddr(mem string) common.Address {
	return common.BytesToAddress(crypto.Keccak256([]byte("accessnode:keyperset:" + mem))[12:])
}

type cset struct {
	mem string
	thr string
	act uint64
}

// emulator answers the contract calls at the state of a block (by NUMBER: block i holds event i).
type emulator struct {
	u  *Universe
	ch []ChainEv
}

func (em *emulator) setsAt(b int) []cset {
	sets := []cset{{mem: "E", thr: "0", act: 0}}
	for i := 0; i < b && i < len(em.ch); i++ {
		if c := em.ch[i]; c.T == "add" {
			sets = append(sets, cset{mem: c.Mem, thr: c.Thr, act: uint64(c.Act)})
		}
	}
	return sets
}

func (em *emulator) keyAt(b, idx int) []byte {
	for i := 0; i < b && i < len(em.ch); i++ {
		if c := em.ch[i]; c.T == "bc" && c.Idx == idx {
			return em.u.keyBytes[c.Key]
		}
	}
	return []byte{}
}

var errRevert = fmt.Errorf("execution reverted")

func (em *emulator) call(b *fakeeth.Block, to common.Address, data []byte) ([]byte, error) {
	if len(data) < 4 {
		return nil, errRevert
	}
	sets := em.setsAt(int(b.Num))
	var a *abi.ABI
	var self *cset
	switch {
	case to == ksmAddr:
		a = ksmABI
	case to == kbcAddr:
		a = kbcABI
	default:
		for i := range sets {
			if ksContractAddr(sets[i].mem) == to {
				self = &sets[i]
			}
		}
		if self == nil {
			return []byte{}, nil
		}
		a = ksABI
	}
	m, err := a.MethodById(data[:4])
	if err != nil {
		return nil, errRevert
	}
	args, err := m.Inputs.Unpack(data[4:])
	if err != nil {
		return nil, errRevert
	}
	u64 := func(i int) uint64 { return args[i].(uint64) }
	switch {
	case a == ksmABI && m.Name == "getNumKeyperSets":
		return m.Outputs.Pack(uint64(len(sets)))
	case a == ksmABI && m.Name == "getKeyperSetIndexByBlock":
		for i := len(sets) - 1; i >= 0; i-- {
			if sets[i].act <= u64(0) {
				return m.Outputs.Pack(uint64(i))
			}
		}
		return nil, errRevert
	case a == ksmABI && m.Name == "getKeyperSetActivationBlock":
		if u64(0) >= uint64(len(sets)) {
			return nil, errRevert
		}
		return m.Outputs.Pack(sets[u64(0)].act)
	case a == ksmABI && m.Name == "getKeyperSetAddress":
		if u64(0) >= uint64(len(sets)) {
			return nil, errRevert
		}
		return m.Outputs.Pack(ksContractAddr(sets[u64(0)].mem))
	case a == kbcABI && m.Name == "getEonKey":
		return m.Outputs.Pack(em.keyAt(int(b.Num), int(u64(0))))
	case a == ksABI && m.Name == "isFinalized":
		return m.Outputs.Pack(true)
	case a == ksABI && m.Name == "getMembers":
		return m.Outputs.Pack(append([]common.Address{}, em.u.addr[self.mem]...))
	case a == ksABI && m.Name == "getThreshold":
		return m.Outputs.Pack(em.u.thr(self.thr))
	}
	return nil, errRevert
}

func (em *emulator) code(b *fakeeth.Block, addr common.Address) []byte {
	if addr == ksmAddr || addr == kbcAddr {
		return []byte{0x60, 0x80}
	}
	for _, s := range em.setsAt(int(b.Num)) {
		if ksContractAddr(s.mem) == addr {
			return []byte{0x60, 0x80}
		}
	}
	return []byte{}
}

func (em *emulator) logsOf(i int) []fakeeth.LogSpec {
	c := em.ch[i]
	if c.T == "add" {
		idx := uint64(len(em.setsAt(i)))
		return []fakeeth.LogSpec{fakeeth.PackEvent(ksmABI, ksmAddr, "KeyperSetAdded",
			uint64(c.Act), ksContractAddr(c.Mem), append([]common.Address{}, em.u.addr[c.Mem]...), em.u.thr(c.Thr), idx)}
	}
	return []fakeeth.LogSpec{fakeeth.PackEvent(kbcABI, kbcAddr, "EonKeyBroadcast", uint64(c.Idx), em.u.keyBytes[c.Key])}
}

type goRunner struct{ ctx context.Context }

func (r goRunner) Go(f func() error) { go func() { _ = f() }() }
func (r goRunner) Defer(func())      {}
func (r goRunner) StartService(s ...service.Service) error {
	for _, x := range s {
		if err := x.Start(r.ctx, r); err != nil {
			return err
		}
	}
	return nil
}

// chainNode is one real access node with its real chain sync client over a fake execution node.
type chainNode struct {
	ni     int
	w      *World
	eth    *fakeeth.Node
	em     *emulator
	client *chainsync.Client
	cancel context.CancelFunc
	mu     sync.Mutex
	lines  []J
	eons   []string
}

func (cn *chainNode) calls() int {
	cn.mu.Lock()
	defer cn.mu.Unlock()
	return len(cn.lines)
}

// evToken maps the arguments the client handed over back to the tokens of the specification.
func (cn *chainNode) ksToken(ks *syncevent.KeyperSet) Ev {
	u := cn.w.U
	e := Ev{T: "ks", E: "?", Mem: "?", Thr: "?", Act: strconv.FormatUint(ks.ActivationBlock, 10), Key: "-"}
	for _, t := range cn.eons {
		if u.Eon[t] == ks.Eon {
			e.E = t
		}
	}
	for _, l := range []string{"A", "B", "E"} {
		if len(u.addr[l]) == len(ks.Members) {
			same := true
			for i := range ks.Members {
				same = same && ks.Members[i] == u.addr[l][i]
			}
			if same {
				e.Mem = l
			}
		}
	}
	switch ks.Threshold {
	case T:
		e.Thr = "t"
	case 0:
		e.Thr = "0"
	}
	return e
}

func (cn *chainNode) ekToken(k *syncevent.EonPublicKey) Ev {
	u := cn.w.U
	e := Ev{T: "ek", E: "?", Mem: "-", Thr: "-", Act: "-", Key: "?"}
	for _, t := range cn.eons {
		if u.Eon[t] == k.Eon {
			e.E = t
		}
	}
	for _, c := range []string{"KA", "KB", "empty", "short", "badenc", "notg2"} {
		if string(u.keyBytes[c]) == string(k.Key) {
			e.Key = c
			break
		}
	}
	return e
}

func (cn *chainNode) record(e Ev, herr error, pan string) {
	n := cn.w.nodes[cn.ni-1]
	out := "silent"
	for _, l := range capture.take() {
		switch {
		case logMsg(l) == "adding keyper set" || logMsg(l) == "adding eon key":
			out = "stored"
		case logMsg(l) == "received invalid eon key":
			out = "invalid"
		}
	}
	if herr != nil {
		out = "error"
	}
	st, extra := cn.w.Abs(n, cn.eons)
	cn.lines = append(cn.lines, J{"k": "ev", "n": cn.ni, "ev": e, "out": out, "st": st, "extra": extra, "panic": pan})
}

func (cn *chainNode) wrapKs(real syncevent.KeyperSetHandler) syncevent.KeyperSetHandler {
	return func(ctx context.Context, ks *syncevent.KeyperSet) (err error) {
		cn.mu.Lock()
		defer cn.mu.Unlock()
		capture.take()
		pan := ""
		func() {
			defer func() {
				if p := recover(); p != nil {
					pan = fmt.Sprint(p)
				}
			}()
			err = real(ctx, ks)
		}()
		cn.record(cn.ksToken(ks), err, pan)
		return err
	}
}

func (cn *chainNode) wrapEk(real syncevent.EonPublicKeyHandler) syncevent.EonPublicKeyHandler {
	return func(ctx context.Context, k *syncevent.EonPublicKey) (err error) {
		cn.mu.Lock()
		defer cn.mu.Unlock()
		capture.take()
		pan := ""
		func() {
			defer func() {
				if p := recover(); p != nil {
					pan = fmt.Sprint(p)
				}
			}()
			err = real(ctx, k)
		}()
		cn.record(cn.ekToken(k), err, pan)
		return err
	}
}

func waitUntil(pred func() bool, lim time.Duration) bool {
	deadline := time.Now().Add(lim)
	for {
		if pred() {
			return true
		}
		if time.Now().After(deadline) {
			return false
		}
		time.Sleep(500 * time.Microsecond)
	}
}

func blockID(i int) string { return "b" + strconv.Itoa(i) }

// startChainNode builds the fake node with the first `mined` blocks of the chain, assembles the
// access node with its real chain sync client (sync start = the head at that moment) and starts it.
func startChainNode(w *World, ni int, sc *Scenario, mined int, eons []string) (*chainNode, error) {
	cn := &chainNode{ni: ni, w: w, eth: fakeeth.New(), em: &emulator{u: w.U, ch: sc.Ch}, eons: eons}
	cn.eth.AddRoot(blockID(0), 0)
	cn.eth.SetHead(blockID(0))
	for i := 1; i <= mined; i++ {
		cn.eth.AddBlock(blockID(i), blockID(i-1), cn.em.logsOf(i-1))
		cn.eth.SetHead(blockID(i))
	}
	cn.eth.SetCallHandler(cn.em.call, cn.em.code)
	cfg := &gnosisaccessnode.Config{}
	cfg.Init()
	if err := cfg.SetDefaultValues(); err != nil {
		return nil, err
	}
	cfg.InstanceID = w.U.Inst
	cfg.MaxNumKeysPerMessage = MaxKeys
	cfg.Contracts.KeyperSetManager = ksmAddr
	cfg.Contracts.KeyBroadcastContract = kbcAddr
	n := &nodeW{node: gnosisaccessnode.New(cfg), msg: p2p.VerifGossipvalNewMessaging()}
	ctx, cancel := context.WithCancel(context.Background())
	cn.cancel = cancel
	client, err := n.node.VerifAccessnodeAssembleObserved(ctx, n.msg, cn.eth.Dial(), cn.wrapKs, cn.wrapEk)
	if err != nil {
		cancel()
		return nil, fmt.Errorf("chain sync client: %v", err)
	}
	cn.client = client
	n.val = n.msg.VerifGossipvalCombinedValidator(keysTopic)
	w.nodes[ni-1] = n
	started := make(chan error, 1)
	go func() { started <- client.Start(ctx, goRunner{ctx: ctx}) }()
	select {
	case err := <-started:
		if err != nil {
			cancel()
			return nil, fmt.Errorf("chain sync client did not start: %v", err)
		}
	case <-time.After(Watchdog):
		cancel()
		return nil, fmt.Errorf("chain sync client start hangs")
	}
	if !waitUntil(func() bool { return len(cn.eth.Subs()) >= 2 }, 5*time.Second) {
		cancel()
		return nil, fmt.Errorf("chain sync client made %d subscriptions", len(cn.eth.Subs()))
	}
	return cn, nil
}

// mine adds block i (1-based) and pushes its logs to the subscriptions whose filter matches; it
// returns when the handler has been called for every pushed log (or after a grace period: the
// syncer dropped the notification).
func (cn *chainNode) mine(i int) {
	b := cn.eth.AddBlock(blockID(i), blockID(i-1), cn.em.logsOf(i-1))
	cn.eth.SetHead(blockID(i))
	before := cn.calls()
	pushed := 0
	for k := range b.Logs {
		l := b.Logs[k]
		for _, s := range cn.eth.Subs() {
			if s.Kind == "logs" && s.Filter.Matches(&l) {
				lc := l
				if s.NotifyLog(&lc) == nil {
					pushed++
				}
			}
		}
	}
	waitUntil(func() bool { return cn.calls() >= before+pushed }, 3*time.Second)
}

func (cn *chainNode) stop() {
	cn.cancel()
	time.Sleep(2 * time.Millisecond)
	cn.eth.Close()
	cn.eth.Forget()
}

// ExecuteChain replays one chain scenario: node 1 live, node 2 late, then the messages on both.
func (r *Run) ExecuteChain() {
	u := chainUniverse(r.Seed, r.Univ)
	sc := r.Chain
	w := &World{U: u, nodes: make([]*nodeW, 2)}
	eons := r.Plan.Eons
	add := func(j J) { r.Lines = append(r.Lines, Line{Run: r.No, Pos: len(r.Lines) - 1, J: j}) }
	r.Lines = append(r.Lines, Line{Run: r.No, Pos: -1, J: J{"k": "new"}})
	ch := make([]ChainEv, len(sc.Ch))
	copy(ch, sc.Ch)
	add(J{"k": "chain", "ch": ch, "start": []int{0, len(sc.Ch)}})
	capture.take()
	live, err := startChainNode(w, 1, sc, 0, eons)
	if err != nil {
		r.Err = err.Error()
		return
	}
	for i := 1; i <= len(sc.Ch); i++ {
		live.mine(i)
	}
	time.Sleep(2 * time.Millisecond)
	live.mu.Lock()
	for _, l := range live.lines {
		add(l)
		r.Steps++
	}
	live.mu.Unlock()
	live.stop()
	late, err := startChainNode(w, 2, sc, len(sc.Ch), eons)
	if err != nil {
		r.Err = err.Error()
		return
	}
	time.Sleep(2 * time.Millisecond)
	late.mu.Lock()
	for _, l := range late.lines {
		add(l)
		r.Steps++
	}
	late.mu.Unlock()
	late.stop()
	add(J{"k": "sync"})
	for _, m := range sc.Msgs {
		for ni := 1; ni <= 2; ni++ {
			add(w.ApplyMsg(ni, m, eons))
			r.Steps++
		}
	}
	r.Lines = append(r.Lines, Line{Run: r.No, Pos: -1, J: J{"k": "end"}})
}

// chainUniverse: eon tokens are the contract indices, activation blocks are the numbers themselves.
func chainUniverse(seed int64, id int) *Universe {
	k := fmt.Sprintf("chain/%d/%d", seed, id)
	univMu.Lock()
	defer univMu.Unlock()
	if u, ok := univCache[k]; ok {
		return u
	}
	u := NewUniverse(seed, 100+id)
	u.Eon = map[string]uint64{"e0": 0, "e1": 1, "e2": 2}
	u.ChainMode = true
	univCache[k] = u
	return u
}

// GenerateChains runs AccessNodeChainMC and returns the scenarios.
func GenerateChains(p Plan) ([]Scenario, *streamRes, error) {
	mod := modName("MCgen_accessnode_", p.Name)
	body := fmt.Sprintf("---- MODULE %s ----\nEXTENDS AccessNodeChainMC\n%s====\n", mod, p.baseDefs())
	cfg := "CONSTANTS\n" + p.baseConsts() + fmt.Sprintf(" MaxChain = %d\nSPECIFICATION Spec\nINVARIANT EmitInv\nCHECK_DEADLOCK FALSE\n", p.MaxChain)
	var out []Scenario
	res, err := streamTLC(tlc.Opts{Module: mod, CfgText: cfg, Files: map[string][]byte{mod + ".tla": []byte(body)}, Workers: 1, Timeout: 10 * time.Minute, HeapGB: 4},
		func(tag, raw string) error {
			if tag != "S" {
				return nil
			}
			s, err := tlc.UnquoteTLA(raw)
			if err != nil {
				return err
			}
			var sc Scenario
			if err := json.Unmarshal([]byte(s), &sc); err != nil {
				return fmt.Errorf("scenario not decodable: %v: %.200s", err, s)
			}
			out = append(out, sc)
			return nil
		})
	if err != nil {
		return nil, nil, err
	}
	if res.Errored != "" || res.Violation || !res.Completed || len(out) == 0 {
		return nil, nil, fmt.Errorf("TLC did not enumerate the chain scenarios of plan %s: %s %s\n%s", p.Name, res.Errored, res.ViolatedWhat, tail(res.Other, 25))
	}
	return out, res, nil
}
