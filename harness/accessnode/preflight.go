package accessnode

import (
	"bytes"
	"context"
	"fmt"
	"os"
	"os/exec"
	"path/filepath"
	"regexp"
	"strings"
	"time"

	"verif/harness/tlc"
)

// Preflight parses the stage's modules with SANY before anything else, so that a broken
// specification ends as ONE clear INCONCLUSIVE line (exit 2), never as a verdict.  (The modules
// compose no other family's module; the tiny TLC runs of the design self-checks that follow
// evaluate every operator.)

var reSanyLoc = regexp.MustCompile(`^line \d+, col \d+ to line \d+, col \d+ of module (\w+)`)

func specSource() string {
	if d := os.Getenv("VERIF_ACCESSNODE_SPECDIR"); d != "" { // self-test of the preflight with a broken copy of specs/
		return d
	}
	return tlc.SpecDir
}

func sanyOne(dir, mod string) string {
	ctx, cancel := context.WithTimeout(context.Background(), 2*time.Minute)
	defer cancel()
	cmd := exec.CommandContext(ctx, "java", "-cp", "/opt/veriftools/tla/tla2tools.jar:/opt/veriftools/tla/CommunityModules-deps.jar",
		"tla2sany.SANY", mod+".tla")
	cmd.Dir = dir
	var buf bytes.Buffer
	cmd.Stdout, cmd.Stderr = &buf, &buf
	runErr := cmd.Run()
	out := buf.String()
	var errs []string
	lines := strings.Split(out, "\n")
	for i, l := range lines {
		t := strings.TrimSpace(l)
		if reSanyLoc.MatchString(t) {
			msg := ""
			for j := i + 1; j < len(lines) && j < i+6; j++ {
				if x := strings.TrimSpace(lines[j]); x != "" {
					msg = x
					break
				}
			}
			errs = append(errs, t+": "+msg)
		} else if strings.Contains(t, "Parse Error") || strings.HasPrefix(t, "Fatal errors") || strings.HasPrefix(t, "Lexical error") ||
			strings.Contains(t, "Cannot find source file") || strings.HasPrefix(t, "*** Abort") || strings.HasPrefix(t, "Encountered") {
			errs = append(errs, t)
		}
	}
	bad := len(errs) > 0 || strings.Contains(out, "*** Errors:") || strings.Contains(out, "Semantic errors") || ctx.Err() == context.DeadlineExceeded
	if !bad && runErr != nil {
		bad = true
		errs = append(errs, "SANY did not run: "+runErr.Error())
	}
	if !bad {
		return ""
	}
	if len(errs) > 6 {
		errs = append(errs[:6], fmt.Sprintf("(+%d more)", len(errs)-6))
	}
	return fmt.Sprintf("specs/%s.tla does not parse: %s", mod, strings.Join(errs, " | "))
}

// Preflight returns "" or the reason why the stage cannot run.
func Preflight() string {
	dir, err := os.MkdirTemp(tlc.ScratchRoot(), "verif-accessnode-sany-")
	if err != nil {
		return err.Error()
	}
	defer os.RemoveAll(dir)
	specs, _ := filepath.Glob(filepath.Join(specSource(), "*.tla"))
	for _, f := range specs {
		b, err := os.ReadFile(f)
		if err != nil {
			return err.Error()
		}
		if err := os.WriteFile(filepath.Join(dir, filepath.Base(f)), b, 0o644); err != nil {
			return err.Error()
		}
	}
	res := make(chan string, 2)
	for _, m := range []string{"AccessNodeMC", "AccessNodeTrace"} {
		go func(m string) { res <- sanyOne(dir, m) }(m)
	}
	var msgs []string
	for i := 0; i < 2; i++ {
		if s := <-res; s != "" {
			msgs = append(msgs, s)
		}
	}
	return strings.Join(msgs, " ; ")
}
