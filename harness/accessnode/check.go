package accessnode

import (
	"bytes"
	"encoding/json"
	"fmt"
	"math/rand"
	"os"
	"sort"
	"strings"
	"sync"
	"time"

	"verif/harness/core"
	"verif/harness/ev"
	"verif/harness/tlc"
)

const evidencePath = "/verif/evidence/C06.json"

// VResult is the RESULT record printed by AccessNodeTrace.
type VResult struct {
	Lines int     `json:"lines"`
	Obsv  [][]any `json:"obsv"`
	Drift []int   `json:"drift"`
}

func validate(p Plan, trace []byte) (*VResult, error) {
	mod, files, cfg := p.trFiles(trace)
	res, err := tlc.Run(tlc.Opts{Module: mod, CfgText: cfg, Files: files, Workers: 1, Timeout: 30 * time.Minute, HeapGB: 4})
	if err != nil {
		return nil, err
	}
	if res.Errored != "" {
		return nil, fmt.Errorf("TLC error during trace validation (%s): %s\n%s", p.Name, res.Errored, res.Tail(30))
	}
	var vr VResult
	if err := res.TaggedJSON("RESULT", &vr); err != nil {
		return nil, fmt.Errorf("trace validation did not reach the end of the trace (%s): %v\n%s", p.Name, err, res.Tail(30))
	}
	return &vr, nil
}

// Finding is one monitor that is false (or one fact that was seen) on an observed run.
type Finding struct {
	Monitor string
	Plan    Plan
	Pos     int
	Line    J
	run     *Run
}

// ReplayFile is what a VIOLATION / OBSERVATION line points to.
type ReplayFile struct {
	Prop     string     `json:"prop"`
	Stage    string     `json:"stage"`
	Plan     Plan       `json:"plan"`
	Seed     int64      `json:"seed"`
	Univ     int        `json:"universe"`
	Beh      []Step     `json:"behaviour"`
	Chain    *Scenario  `json:"chain,omitempty"`
	Alpha    *Alphabets `json:"alphabets"`
	Text     string     `json:"text"`
	Monitor  string     `json:"monitor"`
	Pos      int        `json:"pos"`
	Line     J          `json:"line"`
	Concrete J          `json:"concrete_values"`
}

type outcome struct {
	gen     *Gen
	runs    []*Run
	lines   int
	steps   int
	msgs    int
	accepts int
	obsv    []Finding
	drift   []Line
	driftN  int
	crashed int
	replayS float64
	validS  float64
	design  *DesignRes
}

// pickLeaves: a seeded sample of the maximal histories that keeps every stratum (predicted
// observation classes + the set of message classes used + nodes) represented; rare strata first.
func pickLeaves(c *core.Ctx, g *Gen) []Behaviour {
	all := append([]Behaviour{}, g.Leaves...)
	rng := rand.New(rand.NewSource(c.Seed*7919 + int64(len(all))))
	rng.Shuffle(len(all), func(i, j int) { all[i], all[j] = all[j], all[i] })
	n := g.Plan.Replay
	if n <= 0 || n >= len(all) {
		return all
	}
	by := map[string][]Behaviour{}
	var classes []string
	for _, b := range all {
		var ms []string
		for _, s := range b.H {
			if s.Kind == 1 {
				ms = append(ms, fmt.Sprintf("%d.%d", s.N, s.I))
			}
		}
		sort.Strings(ms)
		k := strings.Join(b.Obs, ",") + "|" + strings.Join(ms, ",")
		if by[k] == nil {
			classes = append(classes, k)
		}
		by[k] = append(by[k], b)
	}
	sort.SliceStable(classes, func(i, j int) bool { return len(by[classes[i]]) < len(by[classes[j]]) })
	var out []Behaviour
	for i := 0; len(out) < n; i++ {
		added := false
		for _, k := range classes {
			if i < len(by[k]) && len(out) < n {
				out = append(out, by[k][i])
				added = true
			}
		}
		if !added {
			break
		}
	}
	return out
}

func marshalLines(ls []Line) ([]byte, error) {
	var buf bytes.Buffer
	for _, l := range ls {
		b, err := json.Marshal(l.J)
		if err != nil {
			return nil, err
		}
		buf.Write(b)
		buf.WriteByte('\n')
	}
	return buf.Bytes(), nil
}

const chunkLines = 4000

// validateRuns validates the traces of whole runs in chunks and attributes the results.
func validateRuns(p Plan, runs []*Run, out *outcome, par int) error {
	type chunk struct {
		lines []Line
		vr    *VResult
		err   error
	}
	var chunks []*chunk
	cur := &chunk{}
	for _, r := range runs {
		if len(cur.lines) > 0 && len(cur.lines)+len(r.Lines) > chunkLines {
			chunks = append(chunks, cur)
			cur = &chunk{}
		}
		cur.lines = append(cur.lines, r.Lines...)
	}
	if len(cur.lines) > 0 {
		chunks = append(chunks, cur)
	}
	var wg sync.WaitGroup
	vsem := make(chan struct{}, par)
	for ci, ch := range chunks {
		wg.Add(1)
		go func(ci int, ch *chunk) {
			defer wg.Done()
			vsem <- struct{}{}
			defer func() { <-vsem }()
			b, err := marshalLines(ch.lines)
			if err != nil {
				ch.err = err
				return
			}
			if d := os.Getenv("VERIF_ACCESSNODE_DUMP"); d != "" && ci == 0 { // development aid
				_ = os.WriteFile(d+"-"+p.Name+".ndjson", b, 0o644)
			}
			ch.vr, ch.err = validate(p, b)
		}(ci, ch)
	}
	wg.Wait()
	byRun := map[int]*Run{}
	for _, r := range runs {
		byRun[r.No] = r
	}
	for _, ch := range chunks {
		if ch.err != nil {
			return ch.err
		}
		if ch.vr.Lines != len(ch.lines) {
			return fmt.Errorf("trace validation consumed %d of %d lines", ch.vr.Lines, len(ch.lines))
		}
		out.lines += ch.vr.Lines
		for _, v := range ch.vr.Obsv {
			if len(v) != 2 {
				continue
			}
			n, _ := v[0].(float64)
			m, _ := v[1].(string)
			if int(n) >= 1 && int(n) <= len(ch.lines) {
				l := ch.lines[int(n)-1]
				out.obsv = append(out.obsv, Finding{Monitor: m, Plan: p, Pos: l.Pos, Line: l.J, run: byRun[l.Run]})
				if r := byRun[l.Run]; r != nil && (isC06(m) || strings.HasPrefix(m, "C05_")) {
					r.flagged = true
				}
			}
		}
		for _, n := range ch.vr.Drift {
			out.driftN++
			if n >= 1 && n <= len(ch.lines) {
				if r := byRun[ch.lines[n-1].Run]; r != nil {
					r.flagged = true
				}
			}
			if len(out.drift) < 3 && n >= 1 && n <= len(ch.lines) {
				out.drift = append(out.drift, ch.lines[n-1])
			}
		}
	}
	return nil
}

func runPlan(c *core.Ctx, p Plan, tlcWorkers, replayWorkers, validPar int) (*outcome, error) {
	g, err := Generate(p, tlcWorkers)
	if err != nil {
		return nil, err
	}
	c.Logf("accessnode plan %s: TLC %d distinct states (%d generated, %.1fs), %d histories printed, %d maximal", p.Name, g.Distinct, g.States, g.Wall, g.Printed, len(g.Leaves))
	out := &outcome{gen: g}
	for i, b := range pickLeaves(c, g) {
		out.runs = append(out.runs, &Run{Plan: p, Seed: c.Seed, Univ: i % p.Universes, Beh: b.H, Pred: b.Obs, No: i + 1})
	}
	t0 := time.Now()
	if err := executeAll(out.runs, &g.Alpha, replayWorkers); err != nil {
		return nil, err
	}
	out.replayS = time.Since(t0).Seconds()
	for _, r := range out.runs {
		if r.Err != "" {
			return nil, fmt.Errorf("plan %s run %d: %s", p.Name, r.No, r.Err)
		}
		out.steps += r.Steps
		if len(r.Lines) == 2 && r.Lines[1].J["k"] == "crash" {
			out.crashed++
		}
		for _, l := range r.Lines {
			if l.J["k"] == "msg" {
				out.msgs++
				if l.J["v"] == "accept" {
					out.accepts++
				}
			}
		}
	}
	t1 := time.Now()
	if err := validateRuns(p, out.runs, out, validPar); err != nil {
		return nil, err
	}
	out.validS = time.Since(t1).Seconds()
	if p.DesignEv > 0 {
		d, err := Design(p, tlcWorkers)
		if err != nil {
			return nil, err
		}
		if d.Violation {
			return nil, fmt.Errorf("design pass of plan %s: the as-found code-shaped spec violates the property layer beyond the listed classes: %s", p.Name, strings.Join(d.Cex, " "))
		}
		out.design = d
		c.Logf("accessnode plan %s: design pass (<= %d events, <= %d messages, no emission): %d distinct states (%d generated, %.1fs), Design holds", p.Name, p.DesignEv, p.DesignMsg, d.Distinct, d.States, d.Wall)
	}
	return out, nil
}

// runText renders the behaviour of a run.
func runText(al *Alphabets, r *Run, nn int) string {
	if r == nil {
		return ""
	}
	if r.Chain != nil {
		return "chain: " + r.Chain.Text() + " ; node1 started at block 0, node2 at the last block"
	}
	return al.behText(r.Beh, nn)
}

// runChainPlan: the scenarios of AccessNodeChainMC on real chain sync clients.
func runChainPlan(c *core.Ctx, p Plan, replayWorkers, validPar int) (*outcome, error) {
	scs, res, err := GenerateChains(p)
	if err != nil {
		return nil, err
	}
	g := &Gen{Plan: p, States: res.States, Distinct: res.Distinct, Wall: res.Wall.Seconds(), Printed: len(scs), ObsHist: map[string]int{}}
	for _, sc := range scs {
		if sc.Diverge {
			g.ObsHist["A5_ChainStorageDiverged"]++
		}
		if sc.VerdictDiverge {
			g.ObsHist["A5_ChainVerdictDiverged"]++
		}
	}
	c.Logf("accessnode plan %s: TLC %d chain scenarios (<= %d contract events); the as-found model predicts diverging Storage in %d, diverging verdicts in %d",
		p.Name, len(scs), p.MaxChain, g.ObsHist["A5_ChainStorageDiverged"], g.ObsHist["A5_ChainVerdictDiverged"])
	out := &outcome{gen: g}
	for i := range scs {
		sc := scs[i]
		pred := []string{"A2_StartupReject", "A2_AcceptRevoked"}
		if sc.Diverge {
			pred = append(pred, "A5_ChainStorageDiverged")
		}
		if sc.VerdictDiverge {
			pred = append(pred, "A5_ChainVerdictDiverged")
		}
		for _, e := range append(append([]Ev{}, sc.Live...), sc.Late...) {
			if e.T == "ek" && e.Key != "KA" && e.Key != "KB" && e.Key != "notg2" {
				pred = append(pred, "A4_UndecodableKeyStored", "A2_ForgedKeysAccepted")
				break
			}
		}
		out.runs = append(out.runs, &Run{Plan: p, Seed: c.Seed, Univ: i % p.Universes, Chain: &sc, Pred: pred, No: i + 1})
	}
	t0 := time.Now()
	if err := executeAll(out.runs, &Alphabets{}, replayWorkers); err != nil {
		return nil, err
	}
	out.replayS = time.Since(t0).Seconds()
	for _, r := range out.runs {
		if r.Err != "" {
			return nil, fmt.Errorf("plan %s scenario %d (%s): %s", p.Name, r.No, r.Chain.Text(), r.Err)
		}
		out.steps += r.Steps
		if len(r.Lines) == 2 && r.Lines[1].J["k"] == "crash" {
			out.crashed++
		}
		for _, l := range r.Lines {
			if l.J["k"] == "msg" {
				out.msgs++
				if l.J["v"] == "accept" {
					out.accepts++
				}
			}
		}
	}
	t1 := time.Now()
	if err := validateRuns(p, out.runs, out, validPar); err != nil {
		return nil, err
	}
	out.validS = time.Since(t1).Seconds()
	return out, nil
}

func brief(j J) string {
	c := J{}
	for k, v := range j {
		if k == "st" {
			continue
		}
		c[k] = v
	}
	b, _ := json.Marshal(c)
	if len(b) > 600 {
		b = append(b[:600], "..."...)
	}
	return string(b)
}

// what each monitor says, in one sentence
var monitorText = map[string]string{
	"C06_OnlyIf":                  "a keys message was ACCEPTED (forwarded) although it does not carry a genuine threshold of signatures by the keyper set last announced for its eon",
	"C06_If":                      "a keys message that is fully valid for its eon was not accepted although the node knows the eon's keyper set and key",
	"A1_NoInterference":           "the verdict on a message changed although no chain event of ITS eon was delivered in between (another eon's event or an earlier message interfered)",
	"A2_Sound":                    "a message was accepted that is not fully valid with respect to the LAST announcements of its eon (the bytes announced last as the eon's key are no key; the node ignored them and still judges by the earlier key)",
	"A2_ForgedKeysAccepted":       "a message was accepted whose decryption keys are not genuine keys: the G1 point at infinity verifies for EVERY identity under an eon key that was stored from undecodable bytes (point at infinity)",
	"A2_TruncatedThresholdAccept": "a message was accepted under a keyper set whose on-chain threshold does not fit int32 (stored as int32(threshold): 2^32 -> 0 signatures suffice); outside C06's quantifier",
	"A2_AcceptRevoked":            "a message that was accepted earlier is rejected now (the eon was re-announced with different content: the last announcement wins)",
	"A2_StartupReject":            "a well-formed candidate message is REJECTED (libp2p penalises the forwarding peer, P4 weight -99) instead of ignored while the node does not yet know the eon's keyper set / key",
	"A2_NodePublishes":            "HandleMessage returned messages to publish",
	"A3_SetOther":                 "after a re-announcement the stored keyper set is neither the old nor the new one",
	"A3_KeyOther":                 "after a re-announcement the stored eon key is neither the old nor the new one",
	"A4_Phantom":                  "the Storage holds an entry for an eon for which nothing was announced",
	"A4_NotAnnounced":             "the Storage holds an entry that equals no announcement of its eon",
	"A4_IntTruncated":             "the stored keyper set equals the announcement only up to integer truncation (int32(threshold) / int64(activation block))",
	"A4_UndecodableKeyStored":     "the Storage holds the point at infinity as eon key: shlib's EonPublicKey.Unmarshal returns no error for bytes blst cannot uncompress (empty key of an eon without key, wrong length, bad encoding)",
	"A4_Removed":                  "a Storage entry vanished",
	"A4_OtherEonTouched":          "a chain event changed the Storage entry of another eon",
	"A4_ValidationWrites":         "validating a message changed the Storage",
	"A4_ExtraEntries":             "the Storage holds entries for eons that were never announced (outside the universe)",
	"A5_StorageDiverged":          "two access nodes that were handed the same multiset of chain events (in different orders) hold different Storage",
	"A5_VerdictDiverged":          "two access nodes that were handed the same multiset of chain events (in different orders) give different verdicts on the same message",
	"A5_ChainStorageDiverged":     "two access nodes fed by REAL chain sync clients observing the SAME chain (one started at block 0, one when the chain had its full length) end with different Storage (empty keys handed over for eons without key; newEvent recomputes the eon from the activation block)",
	"A5_ChainVerdictDiverged":     "two access nodes fed by REAL chain sync clients observing the SAME chain give different verdicts on the same message",
	"C05_Panic":                   "a panic in repository code (C05 owns crash-freedom)",
	"C05_Hang":                    "repository code did not return within the watchdog (C05 owns it)",
	"F_SetLastWins":               "re-announced keyper set with different content: the LAST announcement is stored",
	"F_SetFirstWins":              "re-announced keyper set with different content: the FIRST announcement is kept",
	"F_KeyLastWins":               "re-announced eon key with different content: the LAST announcement is stored",
	"F_KeyFirstWins":              "re-announced eon key with different content: the FIRST announcement is kept",
	"F_KeyWithoutSet":             "the Storage holds an eon key without a keyper set for that eon (the two maps are not coupled)",
	"F_SetWithoutKey":             "the Storage holds a keyper set without an eon key for that eon (the two maps are not coupled)",
}

func isC06(m string) bool { return m == "C06_OnlyIf" || m == "C06_If" }

// Check runs the AccessNode stage (a growth stage of ./check C06).
func Check(c *core.Ctx) int {
	realStdout := os.Stdout
	if devnull, err := os.OpenFile(os.DevNull, os.O_WRONLY, 0); err == nil {
		os.Stdout = devnull
		defer func() { os.Stdout = realStdout }()
	}
	say := func(format string, a ...any) { fmt.Fprintf(realStdout, format, a...) }
	if c.Replay != "" {
		return replay(c, say)
	}
	if msg := Preflight(); msg != "" {
		say("INCONCLUSIVE: %s\n", msg)
		return core.ExitInconclusive
	}
	ps := plans(c)
	mode := os.Getenv("VERIF_ACCESSNODE_MODE") // validation of a proposed repair in a scratch worktree
	for i := range ps {
		ps[i] = ps[i].norm()
		if mode != "" {
			ps[i] = ps[i].withMode(mode).norm()
		}
	}
	if only := os.Getenv("VERIF_ACCESSNODE_ONLY"); only != "" { // development aid: comma separated plan names
		var keep []Plan
		for _, p := range ps {
			for _, o := range strings.Split(only, ",") {
				if p.Name == o {
					keep = append(keep, p)
				}
			}
		}
		ps = keep
	}
	// design-level self checks of the named alternatives
	altInfo, altErr := runAlts(c)
	if altErr != nil {
		say("INCONCLUSIVE: %v\n", altErr)
		return core.ExitInconclusive
	}
	outs := make([]*outcome, len(ps))
	errs := make([]error, len(ps))
	par, tlcWorkers, replayWorkers, validPar := 3, 2, 2, 2
	if c.Thorough() {
		par, tlcWorkers, replayWorkers, validPar = 2, 3, 3, 3
	}
	sem := make(chan struct{}, par)
	var wg sync.WaitGroup
	for i := range ps {
		wg.Add(1)
		go func(i int) {
			defer wg.Done()
			sem <- struct{}{}
			defer func() { <-sem }()
			if ps[i].MaxChain > 0 {
				outs[i], errs[i] = runChainPlan(c, ps[i], replayWorkers, validPar)
			} else {
				outs[i], errs[i] = runPlan(c, ps[i], tlcWorkers, replayWorkers, validPar)
			}
			if errs[i] == nil {
				o := outs[i]
				c.Logf("accessnode plan %s: %d behaviours / %d steps (%d messages, %d accepted) replayed on real nodes in %.1fs (%d worker crashes), %d lines validated in %.1fs, %d drift",
					ps[i].Name, len(o.runs), o.steps, o.msgs, o.accepts, o.replayS, o.crashed, o.lines, o.validS, o.driftN)
			}
		}(i)
	}
	wg.Wait()
	for i := range ps {
		if errs[i] != nil {
			say("INCONCLUSIVE: %v\n", errs[i])
			return core.ExitInconclusive
		}
		if len(outs[i].runs) == 0 || outs[i].lines == 0 {
			say("INCONCLUSIVE: accessnode plan %s replayed nothing\n", ps[i].Name)
			return core.ExitInconclusive
		}
	}
	selfNote := ""
	for i := range ps {
		if ps[i].Name == "order" {
			note, err := selfTest(ps[i], outs[i].runs)
			if err != nil && outs[i].driftN == 0 {
				say("INCONCLUSIVE: %v\n", err)
				return core.ExitInconclusive
			}
			if err != nil { // the runs themselves are flagged (a changed tree): nothing clean to corrupt
				note = "binding self-check skipped: " + err.Error()
			}
			selfNote = note
			c.Logf("accessnode %s", note)
		}
	}
	totalAccepts := 0
	for _, o := range outs {
		totalAccepts += o.accepts
	}
	if totalAccepts == 0 {
		say("INCONCLUSIVE: the real access node accepted no message at all (vacuous run)\n")
		return core.ExitInconclusive
	}
	// per monitor: counts per plan, the shortest witness, predicted by the as-found design or not
	type agg struct {
		n, unpredicted int
		first          *Finding
		plans          map[string]int
		nplans         []string
	}
	byMon := map[string]*agg{}
	var mons []string
	for i := range ps {
		for k := range outs[i].obsv {
			f := &outs[i].obsv[k]
			a := byMon[f.Monitor]
			if a == nil {
				a = &agg{plans: map[string]int{}}
				byMon[f.Monitor] = a
				mons = append(mons, f.Monitor)
			}
			a.n++
			if a.plans[f.Plan.Name] == 0 {
				a.nplans = append(a.nplans, f.Plan.Name)
			}
			a.plans[f.Plan.Name]++
			pred := false
			if f.run != nil {
				for _, p := range f.run.Pred {
					if p == f.Monitor {
						pred = true
					}
				}
			}
			if !pred {
				a.unpredicted++
			}
			if a.first == nil || (f.run != nil && a.first.run != nil && len(f.run.Beh) < len(a.first.run.Beh)) {
				a.first = f
			}
		}
	}
	sort.Strings(mons)
	known := map[string]core.Finding{}
	for _, kf := range core.LoadKnown().For(c.Prop) {
		if st, _ := kf.Match["stage"].(string); st == "accessnode" {
			if m, _ := kf.Match["monitor"].(string); m != "" {
				known[m] = kf
			}
		}
	}
	violations := 0
	alphaOf := map[string]*Alphabets{}
	for i := range ps {
		alphaOf[ps[i].Name] = &outs[i].gen.Alpha
	}
	facts := map[string]int{}
	for _, m := range mons {
		a := byMon[m]
		f := a.first
		if strings.HasPrefix(m, "F_") {
			facts[m] = a.n
			continue
		}
		var beh []Step
		var chain *Scenario
		univ := 0
		al := alphaOf[f.Plan.Name]
		if f.run != nil {
			beh, univ, chain = f.run.Beh, f.run.Univ, f.run.Chain
		}
		text := runText(al, f.run, f.Plan.NN)
		path := c.WriteReplay("accessnode-"+m, ReplayFile{Prop: c.Prop, Stage: "accessnode", Plan: f.Plan, Seed: c.Seed, Univ: univ, Beh: beh, Chain: chain, Alpha: al,
			Text: text, Monitor: m, Pos: f.Pos, Line: f.Line, Concrete: describeFor(c.Seed, univ, chain != nil)})
		var per []string
		for _, pn := range a.nplans {
			per = append(per, fmt.Sprintf("%s:%d", pn, a.plans[pn]))
		}
		pred := "predicted by the as-found specification"
		if a.unpredicted > 0 {
			pred = fmt.Sprintf("NOT predicted by the as-found specification in %d steps", a.unpredicted)
		}
		switch {
		case isC06(m):
			if kf, ok := known[m]; ok {
				core.PrintKnown(kf)
				continue
			}
			violations++
			say("VIOLATION property=%s replay=%s\n  stage=accessnode monitor=%s in %d observed steps (%s): %s; shortest: %s (step %d)\n",
				c.Prop, path, m, a.n, strings.Join(per, " "), monitorText[m], text, f.Pos+1)
		default:
			note := ""
			if strings.HasPrefix(m, "C05_") {
				note = " [crash-freedom is property C05's; chain-event inputs are outside its gossip quantifier]"
			}
			say("OBSERVATION accessnode: %s in %d observed steps (%s; %s) replay=%s : %s%s; shortest: %s (step %d)\n",
				m, a.n, strings.Join(per, " "), pred, path, monitorText[m], note, text, f.Pos+1)
		}
	}
	// A3: what a re-announcement does, and whether it is the same for set and key
	setRule, keyRule := rule(facts, "Set"), rule(facts, "Key")
	same := "the same rule for keyper set and eon key"
	if setRule != keyRule {
		same = "DIFFERENT rules for keyper set and eon key"
	}
	say("OBSERVATION accessnode: A3 re-announcement of an eon with different content: keyper set = %s (%d steps), eon key = %s (%d steps): %s; Storage maps are not coupled (key without set in %d states, set without key in %d)\n",
		setRule, facts["F_SetLastWins"]+facts["F_SetFirstWins"], keyRule, facts["F_KeyLastWins"]+facts["F_KeyFirstWins"], same, facts["F_KeyWithoutSet"], facts["F_SetWithoutKey"])
	for _, l := range altInfo.lines {
		say("%s\n", l)
	}
	driftTotal := 0
	for i, p := range ps {
		o := outs[i]
		driftTotal += o.driftN
		for _, dl := range o.drift {
			say("DRIFT stage=accessnode plan=%s run=%d pos=%d line=%s (observed line is not what the code-shaped spec yields)\n", p.Name, dl.Run, dl.Pos, brief(dl.J))
		}
	}
	altInfo.selfNote = selfNote
	if err := mergeEvidence(c, ps, outs, altInfo, driftTotal, violations, facts, say); err != nil {
		fmt.Fprintln(os.Stderr, "accessnode evidence:", err)
	}
	if violations > 0 {
		return core.ExitViolation
	}
	nobs := 0
	for _, m := range mons {
		if !strings.HasPrefix(m, "F_") && !isC06(m) {
			nobs++
		}
	}
	say("OK property=%s stage=accessnode tier=%s (%d observation classes, %d drift lines)\n", c.Prop, c.Tier, nobs, driftTotal)
	return core.ExitOK
}

func describeFor(seed int64, univ int, chain bool) J {
	if chain {
		return chainUniverse(seed, univ).Describe()
	}
	return universe(seed, univ).Describe()
}

func rule(facts map[string]int, kind string) string {
	l, f := facts["F_"+kind+"LastWins"], facts["F_"+kind+"FirstWins"]
	switch {
	case l > 0 && f == 0:
		return "last wins"
	case f > 0 && l == 0:
		return "first wins"
	case l == 0 && f == 0:
		return "not exercised"
	}
	return fmt.Sprintf("inconsistent (last %d, first %d)", l, f)
}

type altOutcome struct {
	selfNote string
	lines    []string
	info     []any
	states   int
}

// runAlts: design-level checks of the named alternatives.
func runAlts(c *core.Ctx) (*altOutcome, error) {
	ao := &altOutcome{}
	if os.Getenv("VERIF_ACCESSNODE_ONLY") != "" || os.Getenv("VERIF_ACCESSNODE_MODE") != "" {
		return ao, nil
	}
	for _, p := range altPlans() {
		p = p.norm()
		d, err := Design(p, 2)
		if err != nil {
			return nil, err
		}
		ao.states += d.Distinct
		ok := true
		if len(p.Expect) == 0 {
			ok = !d.Violation
		} else {
			ok = d.Violation && len(d.CexObs) > 0
			for _, o := range d.CexObs {
				found := false
				for _, e := range p.Expect {
					if e == o {
						found = true
					}
				}
				ok = ok && found
			}
		}
		if !ok {
			return nil, fmt.Errorf("design self-check %s: expected counterexample classes %v, TLC reported violation=%v %v %s", p.Name, p.Expect, d.Violation, d.CexObs, strings.Join(d.Cex, " "))
		}
		ao.info = append(ao.info, J{"plan": p.Name, "alternatives": J{"storeRule": p.StoreRule, "keyStoreRule": p.KeyStoreRule, "missRule": p.MissRule, "keyDecode": p.KeyDecode, "intRule": p.IntRule},
			"tlc_distinct_states": d.Distinct, "design_violated": d.Violation, "counterexample_classes": d.CexObs})
		c.Logf("accessnode design self-check %s: violation=%v %v (%d distinct states)", p.Name, d.Violation, d.CexObs, d.Distinct)
	}
	return ao, nil
}

// mergeEvidence adds coverage.growth_accessnode to the evidence file the main C06 check wrote.
func mergeEvidence(c *core.Ctx, ps []Plan, outs []*outcome, alt *altOutcome, drift, violations int, facts map[string]int, say func(string, ...any)) error {
	if os.Getenv("VERIF_ACCESSNODE_NOEVIDENCE") != "" {
		return nil
	}
	b, err := os.ReadFile(evidencePath)
	if err != nil {
		say("NOTE: %s does not exist (the main C06 check has not run); the accessnode stage writes no evidence\n", evidencePath)
		return nil
	}
	var evd ev.Evidence
	if err := json.Unmarshal(b, &evd); err != nil || evd.PropertyID != c.Prop {
		return fmt.Errorf("%s unreadable or not the evidence of %s: %v", evidencePath, c.Prop, err)
	}
	if evd.Coverage == nil {
		evd.Coverage = map[string]any{}
	}
	states, trans, runs, steps, lines, msgs, accepts := alt.states, 0, 0, 0, 0, 0, 0
	var info, samples []any
	obs := map[string]int{}
	for i, p := range ps {
		o := outs[i]
		states += o.gen.Distinct
		trans += o.gen.States
		runs += len(o.runs)
		steps += o.steps
		lines += o.lines
		msgs += o.msgs
		accepts += o.accepts
		for _, f := range o.obsv {
			obs[f.Monitor]++
		}
		pi := J{"plan": p, "tlc_distinct_states": o.gen.Distinct, "tlc_states_generated": o.gen.States, "tlc_wall_s": o.gen.Wall,
			"histories_printed": o.gen.Printed, "maximal_histories": len(o.gen.Leaves), "behaviours_replayed": len(o.runs), "steps": o.steps,
			"messages_validated": o.msgs, "messages_accepted": o.accepts, "trace_lines_validated": o.lines, "drift_lines": o.driftN,
			"observations": len(o.obsv), "worker_crashes": o.crashed, "predicted_classes_in_maximal_histories": o.gen.ObsHist}
		if o.design != nil {
			pi["design_pass"] = J{"max_events": p.DesignEv, "max_messages": p.DesignMsg, "tlc_distinct_states": o.design.Distinct, "tlc_states_generated": o.design.States, "tlc_wall_s": o.design.Wall}
			states += o.design.Distinct
			trans += o.design.States
		}
		info = append(info, pi)
		if len(o.runs) > 0 && len(samples) < 4 {
			r := o.runs[int(c.Seed%int64(len(o.runs))+int64(len(o.runs)))%len(o.runs)]
			samples = append(samples, J{"plan": p.Name, "behaviour": runText(&o.gen.Alpha, r, p.NN), "predicted_classes": r.Pred})
		}
	}
	evd.Coverage["growth_accessnode"] = J{
		"module": "specs/AccessNode.tla, AccessNodeProps.tla, AccessNodeMC.tla, AccessNodeTrace.tla",
		"tier":   c.Tier, "seed": c.Seed, "wall_s": time.Since(c.Start).Seconds(), "violations": violations,
		"states": states, "transitions": trans, "traces_validated_against_impl": runs,
		"evaluations": steps, "distinct_nontrivial": accepts, "messages_validated": msgs, "messages_accepted": accepts,
		"trace_lines_validated": lines, "drift_lines": drift,
		"plans": info, "samples": samples, "observations_on_real_code": obs, "reannouncement_facts": facts, "design_self_checks": alt.info, "binding_self_check": alt.selfNote,
		"rule": "TLC explores each plan exhaustively (chain events KeyperSetAdded / EonKeyBroadcast handed to the node in any order, late, duplicated, key before / after set, an eon re-announced with different content, eons >= 2^63 and aliasing eons, integer boundary values, bytes that are no key; gossip messages of every class at any time incl. before anything is synced and repeated) and prints one history per distinct (Storage, ghost, PRE-state slot + operation + response of the last step, set of no-op events and of (message, verdict) pairs validated so far); traces_validated_against_impl = maximal printed histories (stratified seeded sample when a plan prints more than its replay budget) replayed as ONE run each on fresh real access nodes (gnosisaccessnode.New + the handler on a real P2PMessaging as Start does, real onNewKeyperSet / onNewEonKey, marshalled messages through the combined topic validator, real BLS keys and ECDSA signatures) in worker processes and validated by AccessNodeTrace (pass A: C06_OnlyIf / C06_If -> VIOLATION of C06, A1-A5 -> OBSERVATION lines; pass B: conformance to the as-found code-shaped spec incl. rejection reason and Storage projection -> DRIFT); evaluations = steps executed on the real code; distinct_nontrivial = messages the real node accepted.",
	}
	nb, err := json.MarshalIndent(evd, "", " ")
	if err != nil {
		return err
	}
	tmp := evidencePath + ".accessnode.tmp"
	if err := os.WriteFile(tmp, append(nb, '\n'), 0o644); err != nil {
		return err
	}
	return os.Rename(tmp, evidencePath)
}

// replay re-executes the run of a replay file and validates it again.
func replay(c *core.Ctx, say func(string, ...any)) int {
	b, err := os.ReadFile(c.Replay)
	if err != nil {
		say("INCONCLUSIVE: %v\n", err)
		return core.ExitInconclusive
	}
	var rf ReplayFile
	if err := json.Unmarshal(b, &rf); err != nil || rf.Stage != "accessnode" || rf.Alpha == nil {
		say("NOTE: not an accessnode replay file; nothing to do in this stage\n")
		return core.ExitOK
	}
	runs := []*Run{{Plan: rf.Plan, Seed: rf.Seed, Univ: rf.Univ, Beh: rf.Beh, Chain: rf.Chain, No: 1}}
	if err := executeAll(runs, rf.Alpha, 1); err != nil {
		say("INCONCLUSIVE: %v\n", err)
		return core.ExitInconclusive
	}
	if runs[0].Err != "" {
		say("INCONCLUSIVE: %s\n", runs[0].Err)
		return core.ExitInconclusive
	}
	out := &outcome{}
	if err := validateRuns(rf.Plan, runs, out, 1); err != nil {
		say("INCONCLUSIVE: %v\n", err)
		return core.ExitInconclusive
	}
	say("behaviour: %s\n", runText(rf.Alpha, runs[0], rf.Plan.NN))
	for _, l := range runs[0].Lines {
		lb, _ := json.Marshal(l.J)
		say("  %s\n", lb)
	}
	seen := false
	for _, f := range out.obsv {
		if strings.HasPrefix(f.Monitor, "F_") {
			continue
		}
		say("observed %s at step %d\n", f.Monitor, f.Pos+1)
		if f.Monitor == rf.Monitor {
			seen = true
		}
	}
	say("drift lines: %d\n", out.driftN)
	switch {
	case seen && isC06(rf.Monitor):
		say("VIOLATION property=%s replay=%s\n  stage=accessnode monitor=%s reproduced\n", c.Prop, c.Replay, rf.Monitor)
		return core.ExitViolation
	case seen:
		say("OBSERVATION accessnode: reproduced %s (not a verdict of %s)\n", rf.Monitor, c.Prop)
	default:
		say("not reproduced\n")
	}
	return core.ExitOK
}
