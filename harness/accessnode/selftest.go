package accessnode

import (
	"encoding/json"
	"fmt"
)

// Binding self-check (part of every run): recorded lines of real runs are corrupted -- a verdict
// flipped either way, a Storage token changed -- and validated together with the originals: pass A
// must flag exactly the flipped verdicts with the C06 monitors, pass B every corrupted line, and
// nothing in the untouched copy.  Otherwise the trace layer does not bind and the run is
// INCONCLUSIVE.

func cloneLines(ls []Line, run int) []Line {
	out := make([]Line, 0, len(ls))
	for _, l := range ls {
		b, _ := json.Marshal(l.J)
		var j J
		_ = json.Unmarshal(b, &j)
		out = append(out, Line{Run: run, Pos: l.Pos, J: j})
	}
	return out
}

type stExpect struct {
	line    int
	monitor string // "" = only drift expected
}

func selfTest(p Plan, runs []*Run) (string, error) {
	var all []Line
	var exp []stExpect
	untouched := 0
	add := func(ls []Line, corrupt func(j J) bool, idx int, mon string) {
		c := cloneLines(ls, 1000+len(exp))
		if !corrupt(c[idx].J) {
			return
		}
		exp = append(exp, stExpect{line: len(all) + idx + 1, monitor: mon})
		all = append(all, c...)
	}
	var haveAcc, haveRej, haveEv bool
	for _, r := range runs {
		if len(r.Lines) < 3 || r.Lines[len(r.Lines)-1].J["k"] != "end" || r.flagged {
			continue
		}
		for i, l := range r.Lines {
			switch {
			case !haveAcc && l.J["k"] == "msg" && l.J["v"] == "accept":
				haveAcc = true
				add(r.Lines, func(j J) bool { j["v"], j["w"] = "reject", "sig"; return true }, i, "C06_If")
			case !haveRej && l.J["k"] == "msg" && l.J["v"] == "reject" && (l.J["w"] == "noset" || l.J["w"] == "sig"):
				haveRej = true
				add(r.Lines, func(j J) bool { j["v"], j["w"] = "accept", ""; return true }, i, "C06_OnlyIf")
			case !haveEv && l.J["k"] == "ev" && l.J["out"] == "stored":
				evj, _ := json.Marshal(l.J["ev"])
				var e Ev
				_ = json.Unmarshal(evj, &e)
				if e.T != "ek" || e.Key != "KA" {
					continue
				}
				haveEv = true
				add(r.Lines, func(j J) bool {
					st, ok := j["st"].(J)
					if !ok {
						return false
					}
					slot, ok := st[e.E].(J)
					if !ok {
						return false
					}
					slot["key"] = "KB"
					return true
				}, i, "")
			}
		}
		if haveAcc && haveRej && haveEv && untouched == 0 {
			untouched = len(all) + 1
			all = append(all, cloneLines(r.Lines, 999)...)
			break
		}
	}
	if !(haveAcc && haveRej && haveEv) || untouched == 0 {
		return "", fmt.Errorf("binding self-check: the replayed runs of plan %s contain no accepted / rejected / key-storing step to corrupt", p.Name)
	}
	b, err := marshalLines(all)
	if err != nil {
		return "", err
	}
	vr, err := validate(p, b)
	if err != nil {
		return "", err
	}
	drift := map[int]bool{}
	for _, d := range vr.Drift {
		drift[d] = true
	}
	obs := map[int]map[string]bool{}
	for _, v := range vr.Obsv {
		if len(v) != 2 {
			continue
		}
		n, _ := v[0].(float64)
		m, _ := v[1].(string)
		if obs[int(n)] == nil {
			obs[int(n)] = map[string]bool{}
		}
		obs[int(n)][m] = true
	}
	for _, e := range exp {
		if !drift[e.line] {
			return "", fmt.Errorf("binding self-check: pass B did not flag corrupted line %d", e.line)
		}
		if e.monitor != "" && !obs[e.line][e.monitor] {
			return "", fmt.Errorf("binding self-check: pass A did not flag corrupted line %d with %s (got %v)", e.line, e.monitor, obs[e.line])
		}
	}
	for d := range drift {
		if d >= untouched {
			return "", fmt.Errorf("binding self-check: pass B flagged line %d of the untouched copy", d)
		}
	}
	for l, ms := range obs {
		if l >= untouched && (ms["C06_If"] || ms["C06_OnlyIf"]) {
			return "", fmt.Errorf("binding self-check: pass A flagged line %d of the untouched copy", l)
		}
	}
	return fmt.Sprintf("binding self-check: %d corrupted copies (verdict accept->reject => C06_If, reject->accept => C06_OnlyIf, stored key token changed => drift) flagged, untouched copy clean", len(exp)), nil
}
