package accessnode

import (
	"bytes"
	"context"
	"encoding/json"
	"fmt"
	"strings"
	"sync"
	"time"

	pubsub "github.com/libp2p/go-libp2p-pubsub"
	pb "github.com/libp2p/go-libp2p-pubsub/pb"
	"github.com/libp2p/go-libp2p/core/peer"
	"github.com/rs/zerolog"
	"github.com/rs/zerolog/log"

	"github.com/shutter-network/rolling-shutter/rolling-shutter/gnosisaccessnode"
	"github.com/shutter-network/rolling-shutter/rolling-shutter/p2p"
	"github.com/shutter-network/rolling-shutter/rolling-shutter/p2pmsg"
)

// Watchdog is the time after which a call into the repository counts as a hang.
var Watchdog = 20 * time.Second

var keysTopic = (&p2pmsg.DecryptionKeys{}).Topic()

// logCapture collects what the repository code logs through the global zerolog logger (the
// rejection reason of the topic validator and the outcome of the chain handlers are only logged).
type logCapture struct {
	mu  sync.Mutex
	buf bytes.Buffer
}

func (l *logCapture) Write(p []byte) (int, error) {
	l.mu.Lock()
	defer l.mu.Unlock()
	return l.buf.Write(p)
}

func (l *logCapture) take() []J {
	l.mu.Lock()
	b := append([]byte{}, l.buf.Bytes()...)
	l.buf.Reset()
	l.mu.Unlock()
	var out []J
	for _, line := range bytes.Split(b, []byte{'\n'}) {
		if len(bytes.TrimSpace(line)) == 0 {
			continue
		}
		var j J
		if json.Unmarshal(line, &j) == nil {
			out = append(out, j)
		}
	}
	return out
}

var capture = &logCapture{}

// InstallLogCapture routes the global zerolog logger into the capture buffer (worker processes).
func InstallLogCapture() {
	zerolog.SetGlobalLevel(zerolog.InfoLevel)
	log.Logger = zerolog.New(capture)
}

// nodeW is one real access node, assembled as GnosisAccessNode.Start does but without libp2p and
// without an execution node: gnosisaccessnode.New(config), the decryption keys handler over the
// node's Storage registered on a real p2p.P2PMessaging (registries only), the combined validator
// of the decryptionKeys topic (what P2PNode.Run registers with libp2p), the two chain handlers
// onNewKeyperSet / onNewEonKey that Start hands to the chain sync client.
type nodeW struct {
	node *gnosisaccessnode.GnosisAccessNode
	msg  *p2p.P2PMessaging
	val  pubsub.ValidatorEx
	seq  uint64
}

// World is the set of nodes of one run.
type World struct {
	U     *Universe
	nodes []*nodeW
}

func newNode(u *Universe) (*nodeW, error) {
	cfg := &gnosisaccessnode.Config{}
	cfg.Init()
	if err := cfg.SetDefaultValues(); err != nil {
		return nil, err
	}
	cfg.InstanceID = u.Inst
	cfg.MaxNumKeysPerMessage = MaxKeys
	n := &nodeW{node: gnosisaccessnode.New(cfg), msg: p2p.VerifGossipvalNewMessaging()}
	if _, err := n.node.VerifAccessnodeAssemble(context.Background(), n.msg, nil); err != nil {
		return nil, err
	}
	if c := n.msg.VerifGossipvalValidatorCount(keysTopic); c != 1 {
		return nil, fmt.Errorf("access node registered %d validators on %s", c, keysTopic)
	}
	n.val = n.msg.VerifGossipvalCombinedValidator(keysTopic)
	return n, nil
}

// NewWorld assembles nn fresh nodes.
func NewWorld(u *Universe, nn int) (*World, error) {
	w := &World{U: u}
	for i := 0; i < nn; i++ {
		n, err := newNode(u)
		if err != nil {
			return nil, err
		}
		w.nodes = append(w.nodes, n)
	}
	capture.take()
	return w, nil
}

// Abs projects the node's Storage to tokens: for every eon token of the plan the stored keyper set
// and key; extra = entries whose eon is not a token of the plan.
func (w *World) Abs(n *nodeW, eons []string) (J, int) {
	keyEons, keys, sets := n.node.VerifAccessnodeStorage().VerifAccessnodeSnapshot()
	st := J{}
	for _, e := range eons {
		st[e] = J{"set": J{"mem": "-", "thr": "-", "act": "-", "idx": "-"}, "key": "-"}
	}
	tok := func(v uint64) string {
		for _, e := range eons {
			if w.U.Eon[e] == v {
				return e
			}
		}
		return ""
	}
	extra := 0
	for i, v := range keyEons {
		e := tok(v)
		if e == "" {
			extra++
			continue
		}
		st[e].(J)["key"] = w.U.keyToken(keys[i])
	}
	for _, s := range sets {
		e := tok(s.Eon)
		if e == "" {
			extra++
			continue
		}
		idx := "?"
		if s.KeyperConfigIndex == int64(s.Eon) {
			idx = "eq"
		}
		st[e].(J)["set"] = J{"mem": w.U.memToken(s.Keypers), "thr": thrToken(s.Threshold), "act": w.U.actToken(s.ActivationBlockNumber), "idx": idx}
	}
	return st, extra
}

type callRes struct {
	panicked string
	hung     bool
}

// guarded runs one call into the repository under recover and the watchdog.
func guarded(f func()) callRes {
	done := make(chan callRes, 1)
	go func() {
		defer func() {
			if p := recover(); p != nil {
				m := fmt.Sprint(p)
				if len(m) > 200 {
					m = m[:200]
				}
				done <- callRes{panicked: m}
			}
		}()
		f()
		done <- callRes{}
	}()
	t := time.NewTimer(Watchdog)
	defer t.Stop()
	select {
	case r := <-done:
		return r
	case <-t.C:
		return callRes{hung: true}
	}
}

func logMsg(j J) string   { s, _ := j["message"].(string); return s }
func logLevel(j J) string { s, _ := j["level"].(string); return s }
func logErr(j J) string   { s, _ := j["error"].(string); return s }

// ApplyEv hands the event to node n's chain handler.
func (w *World) ApplyEv(ni int, e Ev, eons []string) J {
	n := w.nodes[ni-1]
	capture.take()
	var herr error
	var res callRes
	if e.T == "ks" {
		ks := w.U.KeyperSetEvent(e)
		res = guarded(func() { herr = n.node.VerifAccessnodeOnNewKeyperSet(context.Background(), ks) })
	} else {
		ek := w.U.EonKeyEvent(e)
		res = guarded(func() { herr = n.node.VerifAccessnodeOnNewEonKey(context.Background(), ek) })
	}
	out := "silent"
	for _, l := range capture.take() {
		switch {
		case logMsg(l) == "adding keyper set" || logMsg(l) == "adding eon key":
			out = "stored"
		case logMsg(l) == "received invalid eon key":
			out = "invalid"
		case logLevel(l) == "error" || logLevel(l) == "warn":
			if out == "silent" {
				out = "refused"
			}
		}
	}
	if herr != nil {
		out = "error"
	}
	pan := res.panicked
	if res.hung {
		pan = "hang"
	}
	st, extra := w.Abs(n, eons)
	return J{"k": "ev", "n": ni, "ev": e, "out": out, "st": st, "extra": extra, "panic": pan}
}

// reasonClass maps the logged rejection reason to the reason classes of AccessNode.tla (pass B).
func reasonClass(m string) string {
	switch {
	case m == "":
		return ""
	case strings.Contains(m, "instance ID mismatch"):
		return "instance"
	case strings.Contains(m, "overflows int64"):
		return "eonoverflow"
	case strings.Contains(m, "no keys in message"):
		return "nokeys"
	case strings.Contains(m, "too many keys"):
		return "toomany"
	case strings.Contains(m, "no eon key found"):
		return "nokey"
	case strings.Contains(m, "is not valid"), strings.Contains(m, "error while checking epoch secret key"):
		return "keyinvalid"
	case strings.Contains(m, "keys not ordered"):
		return "unordered"
	case strings.Contains(m, "unexpected extra type"), strings.Contains(m, "missing extra Gnosis data"):
		return "extratype"
	case strings.Contains(m, "slot number too large"):
		return "slot"
	case strings.Contains(m, "tx pointer too large"):
		return "txptr"
	case strings.Contains(m, "no keyper set found"):
		return "noset"
	case strings.Contains(m, "one signature per signer"):
		return "siglen"
	case strings.Contains(m, "expected") && strings.Contains(m, "signers"):
		return "count"
	case strings.Contains(m, "duplicate signer index"):
		return "dup"
	case strings.Contains(m, "signer indices not ordered"):
		return "sunordered"
	case strings.Contains(m, "signer index out of range"), strings.Contains(m, "keyper index"):
		return "range"
	case strings.Contains(m, "failed to check slot decryption signature"), strings.Contains(m, "slot decryption signature invalid"):
		return "sig"
	case strings.Contains(m, "error while unmarshalling message"), strings.Contains(m, "topic mismatch"), strings.Contains(m, "unexpected type"):
		return "envelope"
	}
	if len(m) > 80 {
		m = m[:80]
	}
	return "other:" + m
}

// ApplyMsg gives the marshalled message, wrapped as a pubsub message from a forwarding peer, to
// the combined validator of the topic; after an accept the node handles the message as
// runHandleMessages does (P2PMessaging.Handle) and the number of messages it would publish is
// recorded.
func (w *World) ApplyMsg(ni int, m Msg, eons []string) J {
	n := w.nodes[ni-1]
	msg := w.U.Message(m)
	data, err := p2pmsg.Marshal(msg, nil)
	if err != nil {
		panic(fmt.Sprintf("harness: cannot marshal the message: %v", err))
	}
	n.seq++
	seq := []byte{0, 0, 0, 0, byte(n.seq >> 24), byte(n.seq >> 16), byte(n.seq >> 8), byte(n.seq)}
	topic := keysTopic
	pm := &pubsub.Message{
		Message:      &pb.Message{From: []byte("verif-origin-peer"), Data: data, Seqno: seq, Topic: &topic},
		ReceivedFrom: peer.ID("verif-forwarding-peer"),
	}
	capture.take()
	var vr pubsub.ValidationResult
	res := guarded(func() { vr = n.val(context.Background(), peer.ID("verif-forwarding-peer"), pm) })
	v, reason, pub := "", "", 0
	switch {
	case res.hung:
		v = "hang"
	case res.panicked != "":
		v, reason = "panic", res.panicked
	default:
		switch vr {
		case pubsub.ValidationAccept:
			v = "accept"
		case pubsub.ValidationReject:
			v = "reject"
		case pubsub.ValidationIgnore:
			v = "ignore"
		default:
			v = fmt.Sprintf("result%d", int(vr))
		}
		for _, l := range capture.take() {
			if logMsg(l) == "received invalid message" {
				reason = reasonClass(logErr(l))
			}
		}
		if v == "accept" {
			var outs []p2pmsg.Message
			var herr error
			hres := guarded(func() { outs, herr = n.msg.Handle(context.Background(), msg) })
			switch {
			case hres.hung:
				v = "hang"
			case hres.panicked != "":
				v, reason = "panic", "handle: "+hres.panicked
			case herr != nil:
				reason = "handle-error:" + herr.Error()
			}
			pub = len(outs)
		}
	}
	st, extra := w.Abs(n, eons)
	return J{"k": "msg", "n": ni, "m": m, "v": v, "w": reason, "pub": pub, "st": st, "extra": extra}
}
