package accessnode

import "verif/harness/core"

var (
	eons12    = []string{"e1", "e2"}
	eonsAlias = []string{"e1", "hi1", "w1"}
	eons1     = []string{"e1"}
	eonsChain = []string{"e0", "e1", "e2"}
)

// plans: the constant assignments of AccessNodeMC per tier.  Emission bounds (MaxEv / MaxMsg per
// node) give the histories that are replayed on the real node; design bounds (no emission) are the
// larger exhaustive check of the property layer against the code-shaped layer.
func plans(c *core.Ctx) []Plan {
	if c.Thorough() {
		return []Plan{
			// two eons, e1 announced with either keyper set / key (re-announcement, first/last wins), all interleavings
			{Name: "order", Eons: eons12, EvSet: "order", MsgSet: "combos", MaxEv: 5, MaxMsg: 3, Replay: 30000, Universes: 4},
			// every message class at every storage state, two messages (history dimension)
			{Name: "classes", Eons: eons12, EvSet: "genuine", MsgSet: "classes", MaxEv: 4, MaxMsg: 2, Replay: 30000, Universes: 4,
				DesignEv: 5, DesignMsg: 3},
			{Name: "classes-e1", Eons: eons12, EvSet: "e1only", MsgSet: "classes", MaxEv: 3, MaxMsg: 3, Replay: 15000, Universes: 3},
			// eons >= 2^63 and eons that alias e1 under 32-bit truncation
			{Name: "alias", Eons: eonsAlias, Huge: []string{"hi1"}, EvSet: "alias", MsgSet: "alias", MaxEv: 5, MaxMsg: 3, Replay: 15000, Universes: 4},
			// integer boundary values of keyper sets, bytes that are not a key
			{Name: "odd", Eons: eons1, EvSet: "odd", MsgSet: "odd", MaxEv: 3, MaxMsg: 2, Replay: 20000, Universes: 4, DesignEv: 4, DesignMsg: 2},
			// two nodes, same events in different orders
			{Name: "twin", Eons: eons1, NN: 2, EvSet: "twin", MsgSet: "twin", MaxEv: 3, MaxMsg: 1, Replay: 12000, Universes: 3},
			// the real chain sync client between a fake execution node and the access node: one node
			// started at block 0, one when the chain has its full length
			{Name: "chain", Eons: eonsChain, NN: 2, MaxChain: 4, Universes: 3},
		}
	}
	return []Plan{
		{Name: "order", Eons: eons12, EvSet: "order", MsgSet: "combos", MaxEv: 4, MaxMsg: 2, Replay: 1400, Universes: 2},
		{Name: "classes", Eons: eons12, EvSet: "genuine", MsgSet: "classes", MaxEv: 4, MaxMsg: 1, Replay: 1400, Universes: 2},
		{Name: "classes-e1", Eons: eons12, EvSet: "e1only", MsgSet: "classes", MaxEv: 2, MaxMsg: 2, Replay: 1400, Universes: 2},
		{Name: "alias", Eons: eonsAlias, Huge: []string{"hi1"}, EvSet: "alias", MsgSet: "alias", MaxEv: 4, MaxMsg: 2, Replay: 900, Universes: 2},
		{Name: "odd", Eons: eons1, EvSet: "odd", MsgSet: "odd", MaxEv: 3, MaxMsg: 1, Replay: 1200, Universes: 2},
		{Name: "twin", Eons: eons1, NN: 2, EvSet: "tiny", MsgSet: "tiny", MaxEv: 3, MaxMsg: 1, Replay: 900, Universes: 2},
		{Name: "twin-key", Eons: eons1, NN: 2, EvSet: "twin", MsgSet: "twin", MaxEv: 2, MaxMsg: 1, Replay: 600, Universes: 2},
		{Name: "chain", Eons: eonsChain, NN: 2, MaxChain: 3, Universes: 2},
	}
}

// altPlans: design-level self checks of the named alternatives of the code-shaped spec (nothing is
// replayed): TLC must report the listed observation classes as counterexamples of Design -- the
// property layer bites -- or, for the repaired alternatives, none.
func altPlans() []Plan {
	return []Plan{
		{Name: "alt-first", Eons: eons1, EvSet: "tiny", MsgSet: "tiny", StoreRule: "first", DesignEv: 3, DesignMsg: 2, Expect: []string{"C06_If", "C06_OnlyIf"}},
		{Name: "alt-keyfirst", Eons: eons12, EvSet: "order", MsgSet: "combos", KeyStoreRule: "first", DesignEv: 3, DesignMsg: 1, Expect: []string{"C06_If"}},
		// the proposed repairs: nothing but the re-announcement effects is left
		{Name: "alt-repaired", Eons: eons1, EvSet: "odd", MsgSet: "odd", MissRule: "ignore", KeyDecode: "strict", IntRule: "clamp", DesignEv: 3, DesignMsg: 2, Expect: []string{}},
	}
}
