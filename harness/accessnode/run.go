package accessnode

import (
	"bufio"
	"encoding/json"
	"fmt"
	"io"
	"os"
	"os/exec"
	"strings"
	"sync"
	"time"
)

// Line is one ndjson trace line with its origin.
type Line struct {
	Run int `json:"run"`
	Pos int `json:"pos"` // index of the step in the behaviour (-1: new / end)
	J   J   `json:"j"`
}

// Run is the replay of one behaviour on fresh real nodes.
type Run struct {
	Plan  Plan       `json:"plan"`
	Seed  int64      `json:"seed"`
	Univ  int        `json:"univ"`
	Alpha *Alphabets `json:"alpha"`
	Beh   []Step     `json:"beh"`
	Pred  []string   `json:"pred"`            // observation classes the as-found design predicts
	Chain *Scenario  `json:"chain,omitempty"` // chain plans: the scenario (Beh is empty)
	Text  string     `json:"text,omitempty"`
	No    int        `json:"no"`
	Lines []Line     `json:"lines"`
	Steps int        `json:"steps"`
	Err   string     `json:"err"`
	// flagged: pass A (C06 monitors) or pass B flagged a line of this run
	flagged bool
}

var (
	univMu    sync.Mutex
	univCache = map[string]*Universe{}
)

func universe(seed int64, id int) *Universe {
	k := fmt.Sprintf("%d/%d", seed, id)
	univMu.Lock()
	defer univMu.Unlock()
	if u, ok := univCache[k]; ok {
		return u
	}
	u := NewUniverse(seed, id)
	univCache[k] = u
	return u
}

// Execute replays the behaviour.
func (r *Run) Execute() {
	if r.Chain != nil {
		r.ExecuteChain()
		return
	}
	u := universe(r.Seed, r.Univ)
	w, err := NewWorld(u, r.Plan.NN)
	if err != nil {
		r.Err = err.Error()
		return
	}
	r.Lines = append(r.Lines, Line{Run: r.No, Pos: -1, J: J{"k": "new"}})
	for i, s := range r.Beh {
		var j J
		switch {
		case s.N < 1 || s.N > r.Plan.NN:
			r.Err = fmt.Sprintf("step %d names node %d", i, s.N)
			return
		case s.Kind == 0 && s.I >= 1 && s.I <= len(r.Alpha.Ev):
			j = w.ApplyEv(s.N, r.Alpha.Ev[s.I-1], r.Plan.Eons)
		case s.Kind == 1 && s.I >= 1 && s.I <= len(r.Alpha.Msg):
			j = w.ApplyMsg(s.N, r.Alpha.Msg[s.I-1], r.Plan.Eons)
		default:
			r.Err = fmt.Sprintf("step %d is outside the alphabets", i)
			return
		}
		r.Steps++
		r.Lines = append(r.Lines, Line{Run: r.No, Pos: i, J: j})
	}
	r.Lines = append(r.Lines, Line{Run: r.No, Pos: -1, J: J{"k": "end"}})
}

// ---------------------------------------------------------------------------------------------
// worker processes: the rejection reasons are read from the process-wide zerolog logger, and a
// fatal error of the runtime cannot be recovered, so behaviours are replayed in child processes
// (vaccessnode --worker); a child that dies is an observed behaviour (C05's business), not an
// infrastructure failure.

type workerJob struct {
	Run *Run `json:"run,omitempty"`
}

type workerReply struct {
	Run *Run `json:"run,omitempty"`
}

// WorkerMain serves runs read from stdin (one JSON object per line) until EOF.
func WorkerMain() int {
	realOut := os.Stdout
	if devnull, err := os.OpenFile(os.DevNull, os.O_WRONLY, 0); err == nil {
		os.Stdout = devnull
	}
	InstallLogCapture()
	in := bufio.NewReaderSize(os.Stdin, 1<<20)
	out := bufio.NewWriterSize(realOut, 1<<20)
	dec := json.NewDecoder(in)
	for {
		var job workerJob
		if err := dec.Decode(&job); err != nil {
			if err == io.EOF {
				return 0
			}
			fmt.Fprintln(os.Stderr, "accessnode worker:", err)
			return 2
		}
		if job.Run != nil {
			job.Run.Execute()
			job.Run.Alpha = nil
		}
		b, _ := json.Marshal(workerReply{Run: job.Run})
		out.Write(b)
		out.WriteByte('\n')
		out.Flush()
	}
}

type tailBuf struct {
	mu sync.Mutex
	b  []byte
}

func (t *tailBuf) Write(p []byte) (int, error) {
	t.mu.Lock()
	defer t.mu.Unlock()
	t.b = append(t.b, p...)
	if len(t.b) > 6000 {
		t.b = t.b[len(t.b)-6000:]
	}
	return len(p), nil
}

func (t *tailBuf) String() string {
	t.mu.Lock()
	defer t.mu.Unlock()
	return string(t.b)
}

type worker struct {
	cmd *exec.Cmd
	in  io.WriteCloser
	out *bufio.Reader
	err *tailBuf
}

func startWorker() (*worker, error) {
	exe, err := os.Executable()
	if err != nil {
		return nil, err
	}
	cmd := exec.Command(exe, "--worker")
	in, err := cmd.StdinPipe()
	if err != nil {
		return nil, err
	}
	outp, err := cmd.StdoutPipe()
	if err != nil {
		return nil, err
	}
	tb := &tailBuf{}
	cmd.Stderr = tb
	if err := cmd.Start(); err != nil {
		return nil, err
	}
	return &worker{cmd: cmd, in: in, out: bufio.NewReaderSize(outp, 1<<20), err: tb}, nil
}

func (wk *worker) stop() {
	wk.in.Close()
	done := make(chan struct{})
	go func() { wk.cmd.Wait(); close(done) }()
	select {
	case <-done:
	case <-time.After(5 * time.Second):
		wk.cmd.Process.Kill()
		<-done
	}
}

func (wk *worker) do(job workerJob, lim time.Duration) (rep workerReply, crashed bool, tail string, err error) {
	b, err := json.Marshal(job)
	if err != nil {
		return rep, false, "", err
	}
	if _, err := wk.in.Write(append(b, '\n')); err != nil {
		wk.cmd.Process.Kill()
		wk.cmd.Wait()
		return rep, true, wk.err.String(), nil
	}
	type rd struct {
		line []byte
		err  error
	}
	ch := make(chan rd, 1)
	go func() {
		l, e := wk.out.ReadBytes('\n')
		ch <- rd{l, e}
	}()
	select {
	case r := <-ch:
		if r.err != nil {
			wk.cmd.Wait()
			return rep, true, wk.err.String(), nil
		}
		if err := json.Unmarshal(r.line, &rep); err != nil {
			return rep, false, "", fmt.Errorf("worker reply: %v", err)
		}
		return rep, false, "", nil
	case <-time.After(lim):
		wk.cmd.Process.Kill()
		wk.cmd.Wait()
		return rep, true, "worker did not answer within " + lim.String() + "\n" + wk.err.String(), nil
	}
}

func firstPanicLine(tail string) string {
	for _, l := range strings.Split(tail, "\n") {
		if strings.HasPrefix(l, "panic:") || strings.HasPrefix(l, "fatal ") {
			return l
		}
	}
	if len(tail) > 300 {
		tail = tail[len(tail)-300:]
	}
	return "worker process died: " + tail
}

func crashLines(r *Run, tail string) {
	r.Lines = []Line{
		{Run: r.No, Pos: -1, J: J{"k": "new"}},
		{Run: r.No, Pos: len(r.Beh) - 1, J: J{"k": "crash", "panic": firstPanicLine(tail)}},
	}
}

// executeAll replays the runs in n worker processes.
func executeAll(runs []*Run, alpha *Alphabets, n int) error {
	if n < 1 {
		n = 1
	}
	jobs := make(chan int, len(runs))
	for i := range runs {
		jobs <- i
	}
	close(jobs)
	var wg sync.WaitGroup
	errs := make([]error, n)
	for k := 0; k < n; k++ {
		wg.Add(1)
		go func(k int) {
			defer wg.Done()
			var wk *worker
			defer func() {
				if wk != nil {
					wk.stop()
				}
			}()
			for i := range jobs {
				if wk == nil {
					var err error
					if wk, err = startWorker(); err != nil {
						errs[k] = err
						return
					}
				}
				job := *runs[i]
				job.Alpha = alpha
				rep, crashed, tail, err := wk.do(workerJob{Run: &job}, 3*time.Minute)
				if err != nil {
					errs[k] = err
					return
				}
				if crashed {
					crashLines(runs[i], tail)
					wk = nil
					continue
				}
				if rep.Run != nil {
					rep.Run.Alpha = nil
					*runs[i] = *rep.Run
				}
			}
		}(k)
	}
	wg.Wait()
	for _, e := range errs {
		if e != nil {
			return e
		}
	}
	return nil
}
