// Package events binds the Events TLA+ specification (C14) to the real
// shutterevents encoder/decoder, smobserver.makeEvents and app.ShutterApp:
// concretisation of value tokens (real secp256k1 keys, real BLS12-381 G2 points, real
// addresses), rendering of abstract attribute syntax into real strings, the projection of
// decoded events back onto tokens, the drivers and the TLC trace validation.
package events

import (
	"bytes"
	"crypto/ecdsa"
	"crypto/sha256"
	"encoding/base64"
	"encoding/hex"
	"encoding/json"
	"fmt"
	"math"
	"math/big"
	"strconv"
	"strings"

	"github.com/ethereum/go-ethereum/common"
	"github.com/ethereum/go-ethereum/common/hexutil"
	ethcrypto "github.com/ethereum/go-ethereum/crypto"
	"github.com/ethereum/go-ethereum/crypto/ecies"
	"github.com/shutter-network/shutter/shlib/shcrypto"
	blst "github.com/supranational/blst/bindings/go"
	abcitypes "github.com/tendermint/tendermint/abci/types"

	"github.com/shutter-network/rolling-shutter/rolling-shutter/keyper/shutterevents"
	"github.com/shutter-network/rolling-shutter/rolling-shutter/keyper/shutterevents/evtype"
)

const None = "-"

// V is the value record of Events.tla.
type V struct {
	Type  string   `json:"type"`
	H     string   `json:"h"`
	S     string   `json:"s"`
	Eon   string   `json:"eon"`
	Act   string   `json:"act"`
	Thr   string   `json:"thr"`
	Idx   string   `json:"idx"`
	As    []string `json:"as"`
	Items []string `json:"items"`
	Key   string   `json:"key"`
}

func noV() V {
	return V{Type: None, H: None, S: None, Eon: None, Act: None, Thr: None, Idx: None, As: []string{}, Items: []string{}, Key: None}
}

func (v V) norm() V {
	if v.As == nil {
		v.As = []string{}
	}
	if v.Items == nil {
		v.Items = []string{}
	}
	return v
}

// Syntax records of Events.tla.
type El struct {
	F string `json:"f"`
	T string `json:"t"`
}
type Val struct {
	K  string `json:"k"`
	F  string `json:"f"`
	T  string `json:"t"`
	Es []El   `json:"es"`
}
type AttrS struct {
	Key El  `json:"key"`
	Val Val `json:"val"`
}
type EvS struct {
	Ty    El      `json:"ty"`
	Attrs []AttrS `json:"attrs"`
}

// R is a decoder outcome: res in ok | err | panic | hang | skip.
type R struct {
	Res string `json:"res"`
	V   V      `json:"v"`
}

func okR(v V) R       { return R{Res: "ok", V: v.norm()} }
func resR(s string) R { return R{Res: s, V: noV()} }

// Universe maps tokens to concrete values and back. Everything inside a token class that the
// specification does not fix (which key, which point, which bytes) is derived from the seed.
type Universe struct {
	Seed    int64
	u64     map[string]uint64
	height  map[string]int64
	addr    map[string]common.Address
	priv    map[string]*ecdsa.PrivateKey // signing keys of the Signable addresses
	key     map[string]*ecdsa.PrivateKey // ECIES key tokens
	point   map[string]*blst.P2Affine
	badPt   map[string][]byte
	bytesOf map[string][]byte
	big     map[string]*big.Int
	typeStr map[string]string
}

type detReader struct{ state [32]byte }

func newDet(label string, seed int64) *detReader {
	return &detReader{state: sha256.Sum256([]byte(fmt.Sprintf("verif-events-%s-%d", label, seed)))}
}

func (d *detReader) Read(p []byte) (int, error) {
	n := 0
	for n < len(p) {
		d.state = sha256.Sum256(d.state[:])
		n += copy(p[n:], d.state[:])
	}
	return len(p), nil
}

func (d *detReader) bytes(n int) []byte {
	b := make([]byte, n)
	d.Read(b)
	return b
}

func hasLower(s string) bool { return strings.ToUpper(s) != s }
func hasUpper(s string) bool { return strings.ToLower(s) != s }

func NewUniverse(seed int64) *Universe {
	u := &Universe{
		Seed:   seed,
		u64:    map[string]uint64{"Z0": 0, "One": 1, "MaxI64": math.MaxInt64, "MaxI64p1": 1 << 63, "MaxU64": math.MaxUint64},
		height: map[string]int64{"Z0": 0, "One": 1, "MaxI64": math.MaxInt64},
		addr:   map[string]common.Address{}, priv: map[string]*ecdsa.PrivateKey{}, key: map[string]*ecdsa.PrivateKey{},
		point: map[string]*blst.P2Affine{}, badPt: map[string][]byte{}, bytesOf: map[string][]byte{}, big: map[string]*big.Int{},
		typeStr: map[string]string{
			"checkin": evtype.CheckIn, "batchconfig": evtype.BatchConfig, "bcstarted": evtype.BatchConfigStarted,
			"eonstarted": evtype.EonStarted, "polycommit": evtype.PolyCommitment, "polyeval": evtype.PolyEval,
			"accusation": evtype.Accusation, "apology": evtype.Apology,
		},
	}
	// addresses
	u.addr["AZ"] = common.Address{}
	u.addr["AF"] = common.HexToAddress("0xffffffffffffffffffffffffffffffffffffffff")
	for _, t := range []string{"K1", "K2", "K3"} {
		r := newDet("addr-"+t, seed)
		for {
			k, err := ethcrypto.ToECDSA(r.bytes(32))
			if err != nil {
				continue
			}
			a := ethcrypto.PubkeyToAddress(k.PublicKey)
			if h := a.Hex()[2:]; hasLower(h) && hasUpper(h) {
				u.priv[t], u.addr[t] = k, a
				break
			}
		}
	}
	// ECIES keys: the url-safe base64 text must contain '-' or '_' so that the standard
	// alphabet spelling differs; Ez has a zero first byte in X (fixed-width encoding matters)
	for _, t := range []string{"E1", "E2", "Ez"} {
		r := newDet("key-"+t, seed)
		for {
			k, err := ethcrypto.ToECDSA(r.bytes(32))
			if err != nil {
				continue
			}
			pub := ethcrypto.FromECDSAPub(&k.PublicKey)
			if !strings.ContainsAny(base64.RawURLEncoding.EncodeToString(pub), "-_") {
				continue
			}
			if t == "Ez" && pub[1] != 0 {
				continue
			}
			u.key[t] = k
			break
		}
	}
	// G2 points
	u.point["Gen"] = blst.P2Generator().ToAffine()
	u.point["Inf"] = new(blst.P2Affine)
	neg := u.point["Gen"].Compress()
	neg[0] ^= 0x20
	u.point["NegGen"] = new(blst.P2Affine).Uncompress(neg)
	for _, t := range []string{"P1", "P2"} {
		poly, err := shcrypto.RandomPolynomial(newDet("point-"+t, seed), 0)
		if err != nil {
			panic(err)
		}
		u.point[t] = (*poly.Gammas())[0]
	}
	// invalid compressed points
	gen := u.point["Gen"].Compress()
	inf := u.point["Inf"].Compress()
	d := append([]byte{}, inf...)
	d[95] = 1
	u.badPt["InfDirty"] = d
	d = append([]byte{}, gen...)
	d[0] &^= 0x80
	u.badPt["NoCompFlag"] = d
	d = append([]byte{}, gen...)
	d[0] |= 0x1f
	u.badPt["XGeP"] = d
	r := newDet("badpoints", seed)
	for u.badPt["NotOnCurve"] == nil || u.badPt["NotInG2"] == nil {
		b := r.bytes(96)
		b[0] = 0x80 | (b[0] & 0x2f)
		b[0] &^= 0x10
		b[48] &= 0x0f
		p := new(blst.P2Affine).Uncompress(b)
		switch {
		case p == nil && u.badPt["NotOnCurve"] == nil:
			u.badPt["NotOnCurve"] = b
		case p != nil && !p.InG2() && u.badPt["NotInG2"] == nil:
			u.badPt["NotInG2"] = b
		}
	}
	// byte strings
	u.bytesOf["e"] = []byte{}
	for _, t := range []string{"x", "y"} {
		r := newDet("bytes-"+t, seed)
		for {
			b := r.bytes(1 + int(r.bytes(1)[0])%48)
			if h := hex.EncodeToString(b); hasLower(h) && b[0] != 0 {
				u.bytesOf[t] = b
				break
			}
		}
	}
	u.bytesOf["z0"] = append([]byte{0, 0}, newDet("bytes-z0", seed).bytes(3)...)
	u.bytesOf["z0"][4] |= 0xa0
	u.bytesOf["c"] = []byte(",0x,")
	// big integers
	u.big["b0"] = new(big.Int)
	u.big["b7"] = big.NewInt(7)
	u.big["b256"] = big.NewInt(256)
	bl := new(big.Int).Lsh(big.NewInt(1), 64)
	bl.Add(bl, new(big.Int).SetBytes(append([]byte{0xab}, newDet("big-bL", seed).bytes(5)...)))
	u.big["bL"] = bl
	q, _ := new(big.Int).SetString("73eda753299d7d483339d80809a1d80553bda402fffe5bfeffffffff00000000", 16) // order - 1
	u.big["bQ"] = q
	return u
}

// ---- tokens -> values -------------------------------------------------------------------

func (u *Universe) U64(t string) uint64 {
	n, ok := u.u64[t]
	if !ok {
		panic("unknown uint64 token " + t)
	}
	return n
}

func (u *Universe) Height(t string) int64 {
	n, ok := u.height[t]
	if !ok {
		panic("unknown height token " + t)
	}
	return n
}

func (u *Universe) Addr(t string) common.Address {
	a, ok := u.addr[t]
	if !ok {
		panic("unknown address token " + t)
	}
	return a
}

func (u *Universe) addrs(ts []string, emptyNil bool) []common.Address {
	out := []common.Address{}
	if emptyNil {
		out = nil
	}
	for _, t := range ts {
		out = append(out, u.Addr(t))
	}
	return out
}

func (u *Universe) ECIES(t string) *ecies.PublicKey {
	k, ok := u.key[t]
	if !ok {
		panic("unknown key token " + t)
	}
	// as app.deliverCheckIn builds it
	return ecies.ImportECDSAPublic(&k.PublicKey)
}

func (u *Universe) pointBytes(t string) []byte {
	if p, ok := u.point[t]; ok {
		return p.Compress()
	}
	if b, ok := u.badPt[t]; ok {
		return b
	}
	panic("unknown point token " + t)
}

func (u *Universe) Gammas(ts []string) *shcrypto.Gammas {
	g := shcrypto.Gammas{}
	for _, t := range ts {
		p, ok := u.point[t]
		if !ok {
			panic("not a valid point token " + t)
		}
		cp := *p
		g = append(g, &cp)
	}
	return &g
}

func (u *Universe) Bytes(t string) []byte {
	b, ok := u.bytesOf[t]
	if !ok {
		panic("unknown bytes token " + t)
	}
	return append([]byte{}, b...)
}

func (u *Universe) Big(t string) *big.Int {
	b, ok := u.big[t]
	if !ok {
		panic("unknown big token " + t)
	}
	return new(big.Int).Set(b)
}

// emptyNil decides, from the seed and the case, whether an empty list is nil or empty non-nil
// (the application produces both, depending on the message parser).
func (u *Universe) emptyNil(salt int) bool { return (u.Seed+int64(salt))%2 == 0 }

// Conc builds the event struct the application would build for the value v.
func (u *Universe) Conc(v V, salt int) shutterevents.IEvent {
	en := u.emptyNil(salt)
	switch v.Type {
	case "checkin":
		return &shutterevents.CheckIn{Sender: u.Addr(v.S), EncryptionPublicKey: u.ECIES(v.Key)}
	case "batchconfig":
		return &shutterevents.BatchConfig{
			Keypers: u.addrs(v.As, en), ActivationBlockNumber: u.U64(v.Act), Threshold: u.U64(v.Thr), KeyperConfigIndex: u.U64(v.Idx),
		}
	case "bcstarted":
		return &shutterevents.BatchConfigStarted{KeyperConfigIndex: u.U64(v.Idx)}
	case "eonstarted":
		return &shutterevents.EonStarted{Eon: u.U64(v.Eon), ActivationBlockNumber: u.U64(v.Act), KeyperConfigIndex: u.U64(v.Idx)}
	case "polycommit":
		return &shutterevents.PolyCommitment{Eon: u.U64(v.Eon), Sender: u.Addr(v.S), Gammas: u.Gammas(v.Items)}
	case "polyeval":
		evals := [][]byte{}
		if en {
			evals = nil
		}
		for _, t := range v.Items {
			evals = append(evals, u.Bytes(t))
		}
		return &shutterevents.PolyEval{Sender: u.Addr(v.S), Eon: u.U64(v.Eon), Receivers: u.addrs(v.As, !en), EncryptedEvals: evals}
	case "accusation":
		return &shutterevents.Accusation{Eon: u.U64(v.Eon), Sender: u.Addr(v.S), Accused: u.addrs(v.As, en)}
	case "apology":
		var evals []*big.Int
		if !en {
			evals = []*big.Int{}
		}
		for _, t := range v.Items {
			evals = append(evals, u.Big(t))
		}
		return &shutterevents.Apology{Eon: u.U64(v.Eon), Sender: u.Addr(v.S), Accusers: u.addrs(v.As, en), PolyEval: evals}
	}
	panic("unknown event type token " + v.Type)
}

// ---- values -> tokens (Abs) ---------------------------------------------------------------

func (u *Universe) tokU64(n uint64) string {
	for t, x := range u.u64 {
		if x == n {
			return t
		}
	}
	return fmt.Sprintf("?%d", n)
}

func (u *Universe) tokHeight(n int64) string {
	for t, x := range u.height {
		if x == n {
			return t
		}
	}
	return fmt.Sprintf("?%d", n)
}

func (u *Universe) tokAddr(a common.Address) string {
	for t, x := range u.addr {
		if x == a {
			return t
		}
	}
	return "?" + a.Hex()
}

func (u *Universe) tokAddrs(as []common.Address) []string {
	out := []string{}
	for _, a := range as {
		out = append(out, u.tokAddr(a))
	}
	return out
}

func (u *Universe) tokKey(k *ecies.PublicKey) string {
	if k == nil || k.X == nil || k.Y == nil {
		return "?nil"
	}
	for t, x := range u.key {
		if x.PublicKey.X.Cmp(k.X) == 0 && x.PublicKey.Y.Cmp(k.Y) == 0 {
			if k.Curve != ethcrypto.S256() {
				return "?curve:" + t
			}
			if k.Params != ecies.ParamsFromCurve(ethcrypto.S256()) {
				return "?params:" + t
			}
			return t
		}
	}
	return fmt.Sprintf("?%x,%x", k.X, k.Y)
}

func (u *Universe) tokPoint(p *blst.P2Affine) string {
	if p == nil {
		return "?nil"
	}
	for t, x := range u.point {
		if x.Equals(p) {
			return t
		}
	}
	return "?" + hex.EncodeToString(p.Compress())
}

func (u *Universe) tokBytes(b []byte) string {
	for t, x := range u.bytesOf {
		if bytes.Equal(x, b) {
			return t
		}
	}
	return "?" + hex.EncodeToString(b)
}

func (u *Universe) tokBig(b *big.Int) string {
	if b == nil {
		return "?nil"
	}
	for t, x := range u.big {
		if x.Cmp(b) == 0 {
			return t
		}
	}
	return "?" + b.String()
}

// AbsEvent projects a decoded event onto the value record.
func (u *Universe) AbsEvent(e shutterevents.IEvent) V {
	v := noV()
	switch x := e.(type) {
	case *shutterevents.CheckIn:
		v.Type, v.H, v.S, v.Key = "checkin", u.tokHeight(x.Height), u.tokAddr(x.Sender), u.tokKey(x.EncryptionPublicKey)
	case *shutterevents.BatchConfig:
		v.Type, v.H = "batchconfig", u.tokHeight(x.Height)
		if x.Started || x.ValidatorsUpdated {
			v.Type = fmt.Sprintf("?batchconfig started=%v validatorsUpdated=%v", x.Started, x.ValidatorsUpdated)
		}
		v.Act, v.Thr, v.Idx, v.As = u.tokU64(x.ActivationBlockNumber), u.tokU64(x.Threshold), u.tokU64(x.KeyperConfigIndex), u.tokAddrs(x.Keypers)
	case *shutterevents.BatchConfigStarted:
		v.Type, v.H, v.Idx = "bcstarted", u.tokHeight(x.Height), u.tokU64(x.KeyperConfigIndex)
	case *shutterevents.EonStarted:
		v.Type, v.H = "eonstarted", u.tokHeight(x.Height)
		v.Eon, v.Act, v.Idx = u.tokU64(x.Eon), u.tokU64(x.ActivationBlockNumber), u.tokU64(x.KeyperConfigIndex)
	case *shutterevents.PolyCommitment:
		v.Type, v.H, v.S, v.Eon = "polycommit", u.tokHeight(x.Height), u.tokAddr(x.Sender), u.tokU64(x.Eon)
		if x.Gammas == nil {
			v.Items = []string{"?nil-gammas"}
		} else {
			for _, p := range *x.Gammas {
				v.Items = append(v.Items, u.tokPoint(p))
			}
		}
	case *shutterevents.PolyEval:
		v.Type, v.H, v.S, v.Eon, v.As = "polyeval", u.tokHeight(x.Height), u.tokAddr(x.Sender), u.tokU64(x.Eon), u.tokAddrs(x.Receivers)
		for _, b := range x.EncryptedEvals {
			v.Items = append(v.Items, u.tokBytes(b))
		}
	case *shutterevents.Accusation:
		v.Type, v.H, v.S, v.Eon, v.As = "accusation", u.tokHeight(x.Height), u.tokAddr(x.Sender), u.tokU64(x.Eon), u.tokAddrs(x.Accused)
	case *shutterevents.Apology:
		v.Type, v.H, v.S, v.Eon, v.As = "apology", u.tokHeight(x.Height), u.tokAddr(x.Sender), u.tokU64(x.Eon), u.tokAddrs(x.Accusers)
		for _, b := range x.PolyEval {
			v.Items = append(v.Items, u.tokBig(b))
		}
	default:
		v.Type = fmt.Sprintf("?%T", e)
	}
	return v
}

// ---- syntax -> strings (Render) -----------------------------------------------------------

type renderError string

func bad(format string, a ...any) { panic(renderError(fmt.Sprintf(format, a...))) }

func flipFirstLetter(s string) string {
	for i, c := range s {
		switch {
		case c >= 'a' && c <= 'f':
			return s[:i] + strings.ToUpper(string(c)) + s[i+1:]
		case c >= 'A' && c <= 'F':
			return s[:i] + strings.ToLower(string(c)) + s[i+1:]
		}
	}
	return s
}

// garbage is seeded printable text that no attribute grammar accepts: it starts with '!' and
// contains no comma (so it stays one list element).
func (u *Universe) garbage(label string) string {
	r := newDet("garbage-"+label, u.Seed)
	n := 1 + int(r.bytes(1)[0])%60
	b := r.bytes(n)
	for i := range b {
		b[i] = 0x21 + b[i]%0x5e
		if b[i] == ',' {
			b[i] = ';'
		}
	}
	return "!" + string(b)
}

func (u *Universe) renderNum(f, t string) string {
	if f == "garbage" {
		return u.garbage("num" + t)
	}
	n := strconv.FormatUint(u.U64(t), 10)
	switch f {
	case "canon":
		return n
	case "leadzero":
		return "00" + n
	case "plus":
		return "+" + n
	case "space":
		return " " + n
	case "trailspace":
		return n + " "
	case "dotzero":
		return n + ".0"
	case "hexpfx":
		return "0x" + strconv.FormatUint(u.U64(t), 16)
	case "empty":
		return ""
	case "neg":
		return "-" + n
	case "overflow":
		return "18446744073709551616"
	case "overflowbig":
		return "1" + strings.Repeat("0", 30)
	case "nondigit":
		return n + "a"
	case "underscore":
		return "0_" + n
	}
	bad("unknown number spelling %q", f)
	return ""
}

func (u *Universe) renderAddr(f, t string) string {
	if f == "empty" {
		return ""
	}
	if f == "garbage" {
		return u.garbage("addr" + t)
	}
	h := u.Addr(t).Hex()
	switch f {
	case "canon":
		return h
	case "lower":
		return strings.ToLower(h)
	case "upper":
		return "0x" + strings.ToUpper(h[2:])
	case "noprefix":
		return h[2:]
	case "prefixX":
		return "0X" + h[2:]
	case "badsum":
		return "0x" + flipFirstLetter(h[2:])
	case "space":
		return " " + h
	case "short":
		return h[:len(h)-2]
	case "long":
		return h + "00"
	case "odd":
		return h[:len(h)-1]
	case "nonhex":
		return h[:len(h)-1] + "g"
	}
	bad("unknown address spelling %q", f)
	return ""
}

func (u *Universe) renderHex(kind, f, t string) string {
	if f == "empty" {
		return ""
	}
	if f == "garbage" {
		return u.garbage("hex" + t)
	}
	var b []byte
	if kind == "bigs" {
		b = u.Big(t).Bytes()
	} else {
		b = u.Bytes(t)
	}
	h := hexutil.Encode(b)
	switch f {
	case "canon":
		return h
	case "upper":
		return "0x" + strings.ToUpper(h[2:])
	case "prefixX":
		return "0X" + h[2:]
	case "noprefix":
		return h[2:]
	case "space":
		return " " + h
	case "odd":
		return h + "a"
	case "nonhex":
		return h + "zz"
	case "padzero":
		return "0x00" + h[2:]
	}
	bad("unknown hex spelling %q", f)
	return ""
}

func (u *Universe) renderGammas(f string, es []El) string {
	var raw []byte
	for _, e := range es {
		if e.F != "canon" {
			bad("unknown point spelling %q", e.F)
		}
		raw = append(raw, u.pointBytes(e.T)...)
	}
	h := hex.EncodeToString(raw)
	switch f {
	case "garbage":
		return u.garbage("gammas")
	case "canon":
		return h
	case "upper":
		return strings.ToUpper(h)
	case "prefix0x":
		return "0x" + h
	case "odd":
		return h[:len(h)-1]
	case "nonhex":
		if len(h) >= 2 {
			return h[:len(h)-2] + "zz"
		}
		return "zz"
	case "short":
		return h[:len(h)-2]
	case "long":
		return h + "00"
	}
	bad("unknown gammas spelling %q", f)
	return ""
}

const b64url = "ABCDEFGHIJKLMNOPQRSTUVWXYZabcdefghijklmnopqrstuvwxyz0123456789-_"

func (u *Universe) renderKey(f, t string) string {
	if f == "empty" {
		return ""
	}
	if f == "garbage" {
		return u.garbage("key" + t)
	}
	k, ok := u.key[t]
	if !ok {
		bad("unknown key token %q", t)
	}
	pub := ethcrypto.FromECDSAPub(&k.PublicKey)
	e := base64.RawURLEncoding.EncodeToString(pub)
	cp := func() []byte { return append([]byte{}, pub...) }
	switch f {
	case "canon":
		return e
	case "trailbits":
		i := strings.IndexByte(b64url, e[len(e)-1])
		return e[:len(e)-1] + string(b64url[i|1])
	case "newline":
		return e[:10] + "\n" + e[10:]
	case "padded":
		return e + "="
	case "std":
		return base64.RawStdEncoding.EncodeToString(pub)
	case "compressed":
		return base64.RawURLEncoding.EncodeToString(ethcrypto.CompressPubkey(&k.PublicKey))
	case "hybrid":
		h := cp()
		h[0] = 6 | (pub[64] & 1)
		return base64.RawURLEncoding.EncodeToString(h)
	case "badchar":
		return e[:5] + "*" + e[6:]
	case "truncated":
		return base64.RawURLEncoding.EncodeToString(pub[:64])
	case "long":
		return base64.RawURLEncoding.EncodeToString(append(cp(), 0))
	case "offcurve":
		for bit := byte(1); bit != 0; bit <<= 1 {
			o := cp()
			o[64] ^= bit
			x, y := new(big.Int).SetBytes(o[1:33]), new(big.Int).SetBytes(o[33:])
			if !ethcrypto.S256().IsOnCurve(x, y) {
				return base64.RawURLEncoding.EncodeToString(o)
			}
		}
		bad("no off-curve neighbour")
	case "zero":
		z := make([]byte, 65)
		z[0] = 4
		return base64.RawURLEncoding.EncodeToString(z)
	}
	bad("unknown key spelling %q", f)
	return ""
}

func (u *Universe) renderType(ty El) string {
	if ty.F == "unknown" {
		return "shutter.unknown"
	}
	if ty.F == "empty" {
		return ""
	}
	name, ok := u.typeStr[ty.T]
	if !ok {
		bad("unknown event type token %q", ty.T)
	}
	switch ty.F {
	case "canon":
		return name
	case "upper":
		return strings.ToUpper(name)
	case "noprefix":
		return strings.TrimPrefix(name, "shutter.")
	case "trailspace":
		return name + " "
	}
	bad("unknown type spelling %q", ty.F)
	return ""
}

func renderKeyName(k El) string {
	switch k.F {
	case "canon":
		return k.T
	case "lower":
		return strings.ToLower(k.T)
	case "suffix":
		return k.T + "x"
	case "empty":
		return ""
	}
	bad("unknown key spelling %q", k.F)
	return ""
}

func (u *Universe) renderVal(v Val) string {
	var s, canon string
	switch v.K {
	case "num":
		s, canon = u.renderNum(v.F, v.T), u.renderNum("canon", v.T)
	case "addr":
		s, canon = u.renderAddr(v.F, v.T), u.renderAddr("canon", v.T)
	case "key":
		s, canon = u.renderKey(v.F, v.T), u.renderKey("canon", v.T)
	case "raw":
		return "x"
	case "addrs", "bytes", "bigs":
		if v.F != "canon" {
			bad("unknown list spelling %q", v.F)
		}
		parts := []string{}
		for _, e := range v.Es {
			var p, c string
			if e.F == "empty" {
				parts = append(parts, "")
				continue
			}
			if v.K == "addrs" {
				p, c = u.renderAddr(e.F, e.T), u.renderAddr("canon", e.T)
			} else {
				p, c = u.renderHex(v.K, e.F, e.T), u.renderHex(v.K, "canon", e.T)
			}
			if e.F != "canon" && p == c {
				bad("spelling %q of %s element %s is the canonical text", e.F, v.K, e.T)
			}
			parts = append(parts, p)
		}
		return strings.Join(parts, ",")
	case "gammas":
		s = u.renderGammas(v.F, v.Es)
		ces := []El{}
		allValid := true
		for _, e := range v.Es {
			ces = append(ces, El{F: "canon", T: e.T})
			if _, ok := u.point[e.T]; !ok {
				allValid = false
			}
		}
		if v.F != "canon" && allValid && s == u.renderGammas("canon", ces) {
			bad("spelling %q of gammas is the canonical text", v.F)
		}
		return s
	default:
		bad("unknown grammar %q", v.K)
	}
	if v.F != "canon" && s == canon {
		bad("spelling %q of %s %s is the canonical text", v.F, v.K, v.T)
	}
	return s
}

// Render turns event syntax into the real ABCI event.
func (u *Universe) Render(e EvS) abcitypes.Event {
	ev := abcitypes.Event{Type: u.renderType(e.Ty)}
	for _, a := range e.Attrs {
		ev.Attributes = append(ev.Attributes, abcitypes.EventAttribute{Key: renderKeyName(a.Key), Value: u.renderVal(a.Val)})
	}
	return ev
}

// ---- strings -> syntax (Abs of what the real encoder produced) ------------------------------

// absVal recognises the canonical spellings only (that is all an encoder may produce); anything
// else is kept verbatim behind a '?' so that it differs from every syntax of the specification.
func (u *Universe) absVal(kind, s string) Val {
	unk := Val{K: kind, F: "?" + s, T: None, Es: []El{}}
	switch kind {
	case "num":
		for t := range u.u64 {
			if u.renderNum("canon", t) == s {
				return Val{K: kind, F: "canon", T: t, Es: []El{}}
			}
		}
	case "addr":
		for t := range u.addr {
			if u.renderAddr("canon", t) == s {
				return Val{K: kind, F: "canon", T: t, Es: []El{}}
			}
		}
	case "key":
		for t := range u.key {
			if u.renderKey("canon", t) == s {
				return Val{K: kind, F: "canon", T: t, Es: []El{}}
			}
		}
	case "addrs", "bytes", "bigs":
		out := Val{K: kind, F: "canon", T: None, Es: []El{}}
		if s == "" {
			return out
		}
		for _, p := range strings.Split(s, ",") {
			el := El{F: "?" + p, T: None}
			switch kind {
			case "addrs":
				for t := range u.addr {
					if u.renderAddr("canon", t) == p {
						el = El{F: "canon", T: t}
					}
				}
			case "bytes":
				for t := range u.bytesOf {
					if u.renderHex(kind, "canon", t) == p {
						el = El{F: "canon", T: t}
					}
				}
			case "bigs":
				for t := range u.big {
					if u.renderHex(kind, "canon", t) == p {
						el = El{F: "canon", T: t}
					}
				}
			}
			out.Es = append(out.Es, el)
		}
		return out
	case "gammas":
		if len(s)%192 != 0 {
			return unk
		}
		out := Val{K: kind, F: "canon", T: None, Es: []El{}}
		for i := 0; i < len(s); i += 192 {
			el := El{F: "?" + s[i:i+192], T: None}
			for t, p := range u.point {
				if hex.EncodeToString(p.Compress()) == s[i:i+192] {
					el = El{F: "canon", T: t}
				}
			}
			out.Es = append(out.Es, el)
		}
		return out
	}
	return unk
}

// AbsEncoded abstracts the output of the real encoder, using the specification's encoding as
// the template that says which grammar each position belongs to.
func (u *Universe) AbsEncoded(ev abcitypes.Event, tmpl EvS) EvS {
	out := EvS{Ty: El{F: "?" + ev.Type, T: None}, Attrs: []AttrS{}}
	for t, name := range u.typeStr {
		if name == ev.Type {
			out.Ty = El{F: "canon", T: t}
		}
	}
	for i, a := range ev.Attributes {
		kind := "raw"
		if i < len(tmpl.Attrs) {
			kind = tmpl.Attrs[i].Val.K
		}
		out.Attrs = append(out.Attrs, AttrS{Key: El{F: "canon", T: a.Key}, Val: u.absVal(kind, a.Value)})
	}
	return out
}

// Canon is the canonical JSON text of v.
func Canon(v any) string {
	var buf bytes.Buffer
	enc := json.NewEncoder(&buf)
	enc.SetEscapeHTML(false)
	if err := enc.Encode(v); err != nil {
		panic(err)
	}
	return string(bytes.TrimRight(buf.Bytes(), "\n"))
}
