package events

import (
	"bytes"
	"crypto/sha256"
	"encoding/json"
	"fmt"
	"os"
	"sort"
	"strings"
	"sync"
	"time"

	"verif/harness/core"
	"verif/harness/ev"
	"verif/harness/tlc"
)

var allTypes = []string{"checkin", "batchconfig", "bcstarted", "eonstarted", "polycommit", "polyeval", "accusation", "apology"}

// Job is one TLC enumeration run (EventsMC with these constants).
type Job struct {
	Name    string
	Types   []string
	Cls     []string
	Hs      []string
	Senders []string
}

func quoteSet(l []string) string {
	q := []string{}
	for _, s := range l {
		q = append(q, fmt.Sprintf("%q", s))
	}
	return "{" + strings.Join(q, ", ") + "}"
}

func jobs(thorough bool) []Job {
	var out []Job
	hs := []string{"Z0", "One", "MaxI64"}
	senders := []string{"AZ", "AF", "K1", "K2", "K3"}
	split := map[string]bool{"polyeval": true, "apology": true, "batchconfig": true}
	for _, t := range allTypes {
		switch {
		case thorough && (t == "polyeval" || t == "apology"):
			// runs are split so that the longest one stays short
			for _, h := range hs {
				for _, s := range senders {
					out = append(out, Job{Name: t + "-" + h + "-" + s, Types: []string{t}, Cls: []string{"fid", "app"}, Hs: []string{h}, Senders: []string{s}})
				}
			}
			out = append(out, Job{Name: t + "-mut", Types: []string{t}, Cls: []string{"mut"}, Hs: hs, Senders: senders})
		case thorough || split[t]:
			for _, h := range hs {
				out = append(out, Job{Name: t + "-" + h, Types: []string{t}, Cls: []string{"fid", "app"}, Hs: []string{h}, Senders: senders})
			}
			out = append(out, Job{Name: t + "-mut", Types: []string{t}, Cls: []string{"mut"}, Hs: hs, Senders: senders})
		default:
			out = append(out, Job{Name: t, Types: []string{t}, Cls: []string{"fid", "mut", "app"}, Hs: hs, Senders: senders})
		}
	}
	// largest first
	weight := map[string]int{"polyeval": 9, "apology": 9, "batchconfig": 5, "polycommit": 5}
	sort.SliceStable(out, func(i, j int) bool { return weight[out[i].Types[0]] > weight[out[j].Types[0]] })
	return out
}

const mcModule = "MCgen_Events"

var mcBody = []byte("---- MODULE " + mcModule + " ----\nEXTENDS EventsMC\n====\n")

// Lead is a case on which the code-shaped layer fails the property layer inside TLC.
type Lead struct {
	C      Case `json:"c"`
	Failed []struct {
		N string `json:"n"`
	} `json:"failed"`
}

// Gen is what one enumeration run produced.
type Gen struct {
	Job      Job
	Cases    []Case
	Leads    []Lead
	States   int
	Distinct int
	Wall     float64
}

func generate(c *core.Ctx, j Job) (*Gen, error) {
	cfg := fmt.Sprintf("CONSTANTS\n  Tier = %q\n  RunTypes = %s\n  RunCls = %s\n  RunHs = %s\n  RunSenders = %s\n"+
		"SPECIFICATION Spec\nINVARIANT EmitInv\nINVARIANT LeadInv\nCHECK_DEADLOCK FALSE\n",
		c.Tier, quoteSet(j.Types), quoteSet(j.Cls), quoteSet(j.Hs), quoteSet(j.Senders))
	res, err := tlc.Run(tlc.Opts{
		Module: mcModule, CfgText: cfg, Workers: 2, Timeout: 30 * time.Minute, HeapGB: 4,
		Files: map[string][]byte{mcModule + ".tla": mcBody},
	})
	if err != nil {
		return nil, err
	}
	if res.Violation || !res.Completed || res.TimedOut || res.Errored != "" || res.Distinct == 0 {
		return nil, fmt.Errorf("TLC did not complete the enumeration %s: %s %s\n%s", j.Name, res.ViolatedWhat, res.Errored, res.Tail(25))
	}
	g := &Gen{Job: j, States: res.States, Distinct: res.Distinct, Wall: res.Wall.Seconds()}
	for _, raw := range res.Tagged["CASE"] {
		s, err := tlc.UnquoteTLA(raw)
		if err != nil {
			return nil, err
		}
		var cs Case
		if err := json.Unmarshal([]byte(s), &cs); err != nil {
			return nil, fmt.Errorf("case %.200s: %v", s, err)
		}
		g.Cases = append(g.Cases, cs)
	}
	for _, raw := range res.Tagged["LEAD"] {
		s, err := tlc.UnquoteTLA(raw)
		if err != nil {
			return nil, err
		}
		var l Lead
		if err := json.Unmarshal([]byte(s), &l); err != nil {
			return nil, err
		}
		g.Leads = append(g.Leads, l)
	}
	if len(g.Cases) != g.Distinct {
		return nil, fmt.Errorf("enumeration %s: TLC reports %d states but printed %d cases", j.Name, g.Distinct, len(g.Cases))
	}
	// the order TLC prints in depends on its worker scheduling: fix it
	sort.Slice(g.Cases, func(a, b int) bool { return Canon(g.Cases[a]) < Canon(g.Cases[b]) })
	return g, nil
}

// VResult is the RESULT record printed by EventsTrace.
type VResult struct {
	Lines int     `json:"lines"`
	Viol  [][]any `json:"viol"`
	Drift []int   `json:"drift"`
}

func validate(trace []byte) (*VResult, error) {
	cfg := "CONSTANTS\n  TraceFile = \"trace.ndjson\"\nSPECIFICATION TSpec\nINVARIANT Done\nCHECK_DEADLOCK FALSE\n"
	res, err := tlc.Run(tlc.Opts{
		Module: "EventsTrace", CfgText: cfg, Workers: 1, Timeout: 30 * time.Minute, HeapGB: 4,
		Files: map[string][]byte{"trace.ndjson": trace},
	})
	if err != nil {
		return nil, err
	}
	if res.Errored != "" || res.Violation {
		return nil, fmt.Errorf("TLC error during trace validation: %s %s\n%s", res.Errored, res.ViolatedWhat, res.Tail(30))
	}
	var vr VResult
	if err := res.TaggedJSON("RESULT", &vr); err != nil {
		return nil, fmt.Errorf("trace validation did not reach the end of the trace: %v\n%s", err, res.Tail(30))
	}
	return &vr, nil
}

// Finding is one monitor failure on an observed case.
type Finding struct {
	Monitor string `json:"monitor"`
	Case    Case   `json:"case"`
	Line    Line   `json:"line"`
	Salt    int    `json:"salt"`
}

// flat is the view of a finding that known-finding matchers are written over.
func (f Finding) flat() map[string]any {
	m := map[string]any{"monitor": f.Monitor, "cls": f.Case.Cls, "type": f.Case.V.Type}
	if len(f.Case.D) > 0 {
		m["mut_kind"], m["mut_form"], m["mut_count"] = f.Case.D[0].Kind, f.Case.D[0].F, float64(len(f.Case.D))
		m["mut_attr"] = float64(f.Case.D[0].I)
	}
	if f.Line.Out.Res != "" {
		m["out"] = f.Line.Out.Res
	}
	return m
}

func matchKnown(known []core.Finding, f Finding) *core.Finding {
	fl := f.flat()
	for i := range known {
		if len(known[i].Match) == 0 {
			continue
		}
		ok := true
		for k, want := range known[i].Match {
			if got, has := fl[k]; !has || fmt.Sprint(got) != fmt.Sprint(want) {
				ok = false
			}
		}
		if ok {
			return &known[i]
		}
	}
	return nil
}

// Outcome of executing and validating a set of cases.
type Outcome struct {
	Cases     int
	Lines     int
	Chunks    int // traces accepted by TLC (pass A + B evaluated to the end)
	Findings  []Finding
	Drift     []Line
	DriftN    int
	ByCls     map[string]int
	ByType    map[string]int
	OutRes    map[string]int // outcome of the real decoder per class
	Distinct  map[[32]byte]bool
	Samples   []any
	AppRan    int // app scenarios in which every transaction was accepted
	AppEvents int
	Exemplar  map[string]Line // one recorded line per class, for the binding self-test
}

func newOutcome() *Outcome {
	return &Outcome{ByCls: map[string]int{}, ByType: map[string]int{}, OutRes: map[string]int{}, Distinct: map[[32]byte]bool{}, Exemplar: map[string]Line{}}
}

func (o *Outcome) merge(p *Outcome) {
	o.Cases += p.Cases
	o.Lines += p.Lines
	o.Chunks += p.Chunks
	o.Findings = append(o.Findings, p.Findings...)
	if len(o.Drift) < 20 {
		o.Drift = append(o.Drift, p.Drift...)
	}
	o.DriftN += p.DriftN
	for k, v := range p.ByCls {
		o.ByCls[k] += v
	}
	for k, v := range p.ByType {
		o.ByType[k] += v
	}
	for k, v := range p.OutRes {
		o.OutRes[k] += v
	}
	for k := range p.Distinct {
		o.Distinct[k] = true
	}
	if len(o.Samples) < 8 {
		o.Samples = append(o.Samples, p.Samples...)
	}
	o.AppRan += p.AppRan
	o.AppEvents += p.AppEvents
	for k, l := range p.Exemplar {
		if _, ok := o.Exemplar[k]; !ok {
			o.Exemplar[k] = l
		}
	}
}

// selfTest shows that the trace specification binds: three recorded lines are corrupted in one
// logged field each and TLC must reject exactly those with the expected monitor.
func selfTest(o *Outcome, sem chan struct{}) error {
	fid, ok1 := o.Exemplar["fid"]
	mut, ok2 := o.Exemplar["mut"]
	app, ok3 := o.Exemplar["app"]
	if !ok1 || !ok2 || !ok3 {
		return fmt.Errorf("no exemplar lines for the binding self-test")
	}
	good := []Line{fid, mut, app}
	fid.Out.V.H = "Z0"
	if fid.V.H == "Z0" {
		fid.Out.V.H = "One"
	}
	mut.Out = okR(mut.V) // the decoder "accepted" malformed data
	mut.Out2, mut.Seen = mut.Out, mut.Out
	app.Evs = append([]R{}, app.Evs[:len(app.Evs)-1]...)
	var buf bytes.Buffer
	for _, l := range append(good, fid, mut, app) {
		buf.WriteString(Canon(l))
		buf.WriteByte('\n')
	}
	sem <- struct{}{}
	vr, err := validate(buf.Bytes())
	<-sem
	if err != nil {
		return err
	}
	got := map[string]bool{}
	for _, v := range vr.Viol {
		if len(v) == 2 {
			got[fmt.Sprintf("%v %v", v[0], v[1])] = true
		}
	}
	want := []string{"4 C14_Fidelity", "5 C14_MalformedAccepted", "6 C14_AppFidelity"}
	for _, w := range want {
		if !got[w] {
			return fmt.Errorf("binding self-test: corrupted line not rejected (%s missing in %v)", w, vr.Viol)
		}
	}
	for k := range got {
		if strings.HasPrefix(k, "1 ") || strings.HasPrefix(k, "2 ") || strings.HasPrefix(k, "3 ") {
			return fmt.Errorf("binding self-test: uncorrupted line rejected: %s", k)
		}
	}
	return nil
}

const chunkLines = 3000

// execute runs the cases on the real code and has TLC validate the recorded lines.
func execute(u *Universe, cases []Case, saltBase int, salts []int, sem chan struct{}) (*Outcome, error) {
	out := newOutcome()
	lines := make([]Line, len(cases))
	saltOf := func(i int) int {
		if i < len(salts) {
			return salts[i]
		}
		return saltBase + i
	}
	for i, cs := range cases {
		l, infra := u.RunCase(cs, saltOf(i))
		if infra != "" {
			return nil, fmt.Errorf("cannot build case %s: %s", Canon(cs), infra)
		}
		lines[i] = l
		out.Cases++
		out.ByCls[cs.Cls]++
		out.ByType[cs.V.Type]++
		out.Distinct[sha256.Sum256([]byte(Canon(cs)))] = true
		switch {
		case cs.Cls == "fid" && l.Out.Res == "ok":
			out.Exemplar["fid"] = l
		case cs.Cls == "mut" && l.Out.Res == "err" && len(cs.D) == 1 && cs.D[0].Kind == "drop":
			out.Exemplar["mut"] = l
		case cs.Cls == "app" && len(l.Evs) > 1:
			out.Exemplar["app"] = l
		}
		switch cs.Cls {
		case "app":
			ok := l.Panic == ""
			for _, c := range l.Codes {
				ok = ok && c == 0
			}
			if ok {
				out.AppRan++
			}
			out.AppEvents += len(l.Evs)
		default:
			out.OutRes[cs.Cls+":"+l.Out.Res]++
		}
	}
	type cr struct {
		vr  *VResult
		err error
	}
	n := (len(lines) + chunkLines - 1) / chunkLines
	results := make([]cr, n)
	var wg sync.WaitGroup
	for k := 0; k < n; k++ {
		wg.Add(1)
		go func(k int) {
			defer wg.Done()
			sem <- struct{}{}
			defer func() { <-sem }()
			var buf bytes.Buffer
			hi := min((k+1)*chunkLines, len(lines))
			for _, l := range lines[k*chunkLines : hi] {
				buf.WriteString(Canon(l))
				buf.WriteByte('\n')
			}
			results[k].vr, results[k].err = validate(buf.Bytes())
		}(k)
	}
	wg.Wait()
	for k, r := range results {
		if r.err != nil {
			return nil, r.err
		}
		hi := min((k+1)*chunkLines, len(lines))
		if r.vr.Lines != hi-k*chunkLines {
			return nil, fmt.Errorf("trace validation read %d lines of %d", r.vr.Lines, hi-k*chunkLines)
		}
		out.Chunks++
		out.Lines += r.vr.Lines
		for _, v := range r.vr.Viol {
			if len(v) != 2 {
				continue
			}
			ln, _ := v[0].(float64)
			m, _ := v[1].(string)
			i := k*chunkLines + int(ln) - 1
			out.Findings = append(out.Findings, Finding{Monitor: m, Case: cases[i], Line: lines[i], Salt: saltOf(i)})
		}
		for _, ln := range r.vr.Drift {
			out.DriftN++
			if len(out.Drift) < 20 {
				out.Drift = append(out.Drift, lines[k*chunkLines+ln-1])
			}
		}
	}
	for _, i := range []int{0, len(lines) / 2} {
		if i < len(lines) && len(out.Samples) < 2 {
			out.Samples = append(out.Samples, json.RawMessage(Canon(lines[i])))
		}
	}
	return out, nil
}

// ReplayFile is what --replay re-executes.
type ReplayFile struct {
	Property string    `json:"property"`
	Seed     int64     `json:"seed"`
	Tier     string    `json:"tier"`
	What     string    `json:"what"`
	Cases    []Case    `json:"cases"`
	Salts    []int     `json:"salts"`
	Findings []Finding `json:"findings"`
}

func inconclusive(format string, a ...any) int {
	fmt.Printf("INCONCLUSIVE: %s\n", fmt.Sprintf(format, a...))
	return core.ExitInconclusive
}

// report prints the verdict lines for the findings and returns the number of new violations.
func report(c *core.Ctx, findings []Finding, known []core.Finding, knownHits map[string]int) int {
	var fresh []Finding
	for _, f := range findings {
		if k := matchKnown(known, f); k != nil {
			knownHits[k.ID]++
			continue
		}
		fresh = append(fresh, f)
	}
	if len(fresh) == 0 {
		return 0
	}
	// one replay file per monitor, first failing cases
	by := map[string][]Finding{}
	var order []string
	for _, f := range fresh {
		if _, ok := by[f.Monitor]; !ok {
			order = append(order, f.Monitor)
		}
		by[f.Monitor] = append(by[f.Monitor], f)
	}
	sort.Strings(order)
	for _, m := range order {
		fs := by[m]
		if len(fs) > 25 {
			fs = fs[:25]
		}
		rf := ReplayFile{Property: c.Prop, Seed: c.Seed, Tier: c.Tier, What: m, Findings: fs}
		for _, f := range fs {
			rf.Cases = append(rf.Cases, f.Case)
			rf.Salts = append(rf.Salts, f.Salt)
		}
		path := c.WriteReplay(m, rf)
		f := fs[0]
		what := fmt.Sprintf("%s fails on %d case(s); first: cls=%s type=%s", m, len(by[m]), f.Case.Cls, f.Case.V.Type)
		if len(f.Case.D) > 0 {
			what += fmt.Sprintf(" mutation=%s", Canon(f.Case.D))
		}
		what += "\n  " + describe(f.Line)
		c.Violation(path, what)
	}
	return len(fresh)
}

// short is a compact rendering of a value record for messages.
func (v V) short() string {
	p := []string{}
	add := func(k, x string) {
		if x != None {
			p = append(p, k+"="+x)
		}
	}
	add("h", v.H)
	add("s", v.S)
	add("eon", v.Eon)
	add("act", v.Act)
	add("thr", v.Thr)
	add("idx", v.Idx)
	add("key", v.Key)
	if len(v.As) > 0 || v.Type == "batchconfig" || v.Type == "polyeval" || v.Type == "accusation" || v.Type == "apology" {
		p = append(p, fmt.Sprintf("as=%v", v.As))
	}
	if len(v.Items) > 0 || v.Type == "polycommit" || v.Type == "polyeval" || v.Type == "apology" {
		p = append(p, fmt.Sprintf("items=%v", v.Items))
	}
	return v.Type + "{" + strings.Join(p, " ") + "}"
}

func clip(s string, n int) string {
	if len(s) > n {
		return s[:n] + "..."
	}
	return s
}

// describe renders the concrete side of a line for the verdict message.
func describe(l Line) string {
	if l.Cls == "app" {
		steps, exp, obs := []string{}, []string{}, []string{}
		for _, st := range l.Scen.Steps {
			if st.Op == "begin" || st.Op == "end" {
				steps = append(steps, st.Op)
			} else {
				steps = append(steps, fmt.Sprintf("%s by %s %s", st.Op, st.S, st.V.short()))
			}
		}
		for _, v := range l.Scen.Expect {
			exp = append(exp, v.short())
		}
		for _, r := range l.Evs {
			if r.Res == "ok" {
				obs = append(obs, r.V.short())
			} else {
				obs = append(obs, "<"+r.Res+">")
			}
		}
		return clip(fmt.Sprintf("real app.ShutterApp, genesis keypers %v, first eon %s, block 1: %s; events expected: %s; events decoded by MakeEvent: %s; DeliverTx codes %v; panic=%q %s",
			l.Scen.Keypers, l.Scen.Eon, strings.Join(steps, ", "), strings.Join(exp, " "), strings.Join(obs, " "), l.Codes, l.Panic, l.Note), 2500)
	}
	s := ""
	if l.Real != nil {
		attrs := []string{}
		for _, a := range l.Real.Attributes {
			attrs = append(attrs, fmt.Sprintf("%s=%q", a.Key, clip(a.Value, 220)))
		}
		s = fmt.Sprintf("event type=%q attributes: %s; ", l.Real.Type, strings.Join(attrs, " "))
	}
	s += fmt.Sprintf("height=%s; MakeEvent returned %s", l.V.H, l.Out.Res)
	if l.Out.Res == "ok" {
		s += " " + l.Out.V.short()
	}
	if l.Cls == "fid" {
		s += "; value put in: " + l.V.short()
	}
	sh := func(r R) string {
		if r.Res == "ok" {
			return r.V.short()
		}
		return "<" + r.Res + ">"
	}
	if l.Out2.Res != "skip" && Canon(l.Out2) != Canon(l.Out) {
		s += "; re-encoded and decoded again: " + sh(l.Out2)
	}
	if Canon(l.Seen) != Canon(l.Out) {
		s += "; smobserver.makeEvents passed on: " + sh(l.Seen)
	}
	if l.Note != "" {
		s += "; " + l.Note
	}
	return clip(s, 2500)
}

// Check runs the C14 check.
func Check(c *core.Ctx) int {
	u := NewUniverse(c.Seed)
	known := core.LoadKnown().For(c.Prop)
	knownHits := map[string]int{}
	sem := make(chan struct{}, max(4, c.Workers-2))

	if c.Replay != "" {
		return replay(c, u, known, sem)
	}

	js := jobs(c.Thorough())
	type jr struct {
		gen *Gen
		out *Outcome
		err error
	}
	results := make([]jr, len(js))
	var wg sync.WaitGroup
	gsem := make(chan struct{}, max(2, c.Workers/2))
	for i := range js {
		wg.Add(1)
		go func(i int) {
			defer wg.Done()
			gsem <- struct{}{}
			g, err := generate(c, js[i])
			<-gsem
			if err != nil {
				results[i].err = err
				return
			}
			results[i].gen = g
			c.Logf("%s: TLC enumerated %d cases (%d leads) in %.1fs", js[i].Name, len(g.Cases), len(g.Leads), g.Wall)
			results[i].out, results[i].err = execute(u, g.Cases, i*1000003, nil, sem)
		}(i)
	}
	wg.Wait()

	total := newOutcome()
	states, trans := 0, 0
	var leads []Lead
	plans := []any{}
	tlcWall := 0.0
	for i, r := range results {
		if r.err != nil {
			return inconclusive("%s: %v", js[i].Name, r.err)
		}
		total.merge(r.out)
		states += r.gen.Distinct
		trans += r.gen.States
		leads = append(leads, r.gen.Leads...)
		tlcWall += r.gen.Wall
		plans = append(plans, map[string]any{"job": js[i].Name, "tlc_distinct_states": r.gen.Distinct, "tlc_states_generated": r.gen.States,
			"cases_replayed": r.out.Cases, "trace_lines_validated": r.out.Lines, "tlc_wall_s": r.gen.Wall})
	}

	// known findings: their witnesses are replayed on every run
	for _, k := range known {
		var ws []Case
		for _, raw := range k.Witness {
			var cs Case
			if err := json.Unmarshal(raw, &cs); err != nil {
				return inconclusive("known finding %s: unreadable witness: %v", k.ID, err)
			}
			ws = append(ws, cs)
		}
		if len(ws) == 0 {
			continue
		}
		o, err := execute(u, ws, 7, nil, sem)
		if err != nil {
			return inconclusive("known finding %s: %v", k.ID, err)
		}
		still := false
		for _, f := range o.Findings {
			if kk := matchKnown([]core.Finding{k}, f); kk != nil {
				still = true
			} else {
				total.Findings = append(total.Findings, f)
			}
		}
		if still {
			core.PrintKnown(k)
		} else {
			fmt.Printf("NOTE: the witness of known finding %s no longer fails\n", k.ID)
		}
	}

	// coverage guards: nothing may be vacuous
	for _, cls := range []string{"fid", "mut", "app"} {
		if total.ByCls[cls] == 0 {
			return inconclusive("no %s case was replayed", cls)
		}
	}
	for _, t := range allTypes {
		if total.ByType[t] == 0 {
			return inconclusive("no case of event type %s was replayed", t)
		}
	}
	if total.Lines != total.Cases {
		return inconclusive("%d cases executed but %d lines validated", total.Cases, total.Lines)
	}

	violations := report(c, total.Findings, known, knownHits)
	if violations == 0 {
		if err := selfTest(total, sem); err != nil {
			return inconclusive("%v", err)
		}
	}

	// leads of the exhaustive check that the real code did not reproduce: the spec is wrong
	mismatch := 0
	for _, l := range leads {
		reproduced := false
		for _, f := range total.Findings {
			if Canon(f.Case) == Canon(l.C) {
				reproduced = true
			}
		}
		if !reproduced {
			mismatch++
			if mismatch <= 5 {
				fmt.Printf("MODEL-MISMATCH: TLC finds the code-shaped spec violating %v on %s, the real code does not\n", l.Failed, Canon(l.C))
			}
		}
	}

	if total.DriftN > 0 {
		fmt.Printf("DRIFT property=%s lines=%d: on these cases the real code behaves differently from the code-shaped spec (Events.tla)\n", c.Prop, total.DriftN)
		for i, l := range total.Drift {
			if i < 3 {
				fmt.Printf("  drift: cls=%s type=%s d=%s %s\n", l.Cls, l.V.Type, Canon(l.D), describe(l))
			}
		}
	}

	exhaustive := total.Cases == states
	cov := map[string]any{
		"states": states, "transitions": trans, "traces_validated_against_impl": total.Chunks,
		"evaluations": total.Cases, "distinct_nontrivial": len(total.Distinct), "exhaustive": exhaustive,
		"samples": total.Samples,
		"rule": "TLC enumerates the case domain of EventsMC (one state per case: every value of every event type over the tier's token sets, " +
			"every single decoder-side mutation of the base encodings (thorough: also pairs), every block-1 application scenario) and checks the property layer " +
			"against the code-shaped layer on each; every printed case is executed on the real MakeABCIEvent / MakeEvent / smobserver.makeEvents / app.ShutterApp; " +
			"distinct_nontrivial = distinct case records (sha256 of the canonical JSON) whose recorded line was validated by EventsTrace (pass A + pass B); evaluations = cases executed",
		"cases_by_class": total.ByCls, "cases_by_type": total.ByType, "real_decoder_outcomes": total.OutRes,
		"app_scenarios_fully_accepted": total.AppRan, "app_events_decoded": total.AppEvents,
		"drift_lines": total.DriftN, "tlc_leads": len(leads), "model_mismatch": mismatch, "known_finding_hits": knownHits,
		"jobs": plans, "tlc_enumeration_wall_s_sum": tlcWall,
	}
	err := ev.Write(ev.Evidence{
		PropertyID: c.Prop, Tier: c.Tier, Seed: c.Seed, Level: "model_checking", Coverage: cov,
		Assumptions: []string{
			"TLC, the Go toolchain, go-ethereum, blst/shlib are trusted",
			"the concretiser (harness/events/universe.go: Render, Conc) and the projection (AbsEvent, AbsEncoded) are trusted; a spelling that would coincide with the canonical text is refused (inconclusive) rather than run",
			"class enumeration: the bytes inside a token class (which key, point, address, byte string) come from VERIF_SEED; strings outside the named spelling classes are not explored",
			"nil and empty slices are the same list; BatchConfig.Started/ValidatorsUpdated are not event data (the application emits the event only while both are false)",
		},
		WallS: time.Since(c.Start).Seconds(), Violations: violations,
	})
	if err != nil {
		fmt.Fprintln(os.Stderr, "cannot write evidence:", err)
	}
	c.Logf("cases=%d (fid=%d mut=%d app=%d) lines=%d states=%d violations=%d drift=%d leads=%d outcomes=%v appAccepted=%d",
		total.Cases, total.ByCls["fid"], total.ByCls["mut"], total.ByCls["app"], total.Lines, states, violations, total.DriftN, len(leads), total.OutRes, total.AppRan)
	if violations > 0 {
		return core.ExitViolation
	}
	if mismatch > 0 {
		return inconclusive("MODEL-MISMATCH on %d case(s): the code-shaped spec must be corrected", mismatch)
	}
	if total.AppRan*2 < total.ByCls["app"] {
		return inconclusive("only %d of %d application scenarios ran as modelled", total.AppRan, total.ByCls["app"])
	}
	fmt.Printf("OK property=%s tier=%s cases=%d states=%d lines_validated=%d known=%v\n", c.Prop, c.Tier, total.Cases, states, total.Lines, knownHits)
	return core.ExitOK
}

func replay(c *core.Ctx, u *Universe, known []core.Finding, sem chan struct{}) int {
	b, err := os.ReadFile(c.Replay)
	if err != nil {
		return inconclusive("cannot read replay file: %v", err)
	}
	var rf struct {
		Seed  int64  `json:"seed"`
		Cases []Case `json:"cases"`
		Salts []int  `json:"salts"`
	}
	if err := json.Unmarshal(b, &rf); err != nil {
		return inconclusive("cannot parse replay file: %v", err)
	}
	if os.Getenv("VERIF_SEED") == "" {
		u = NewUniverse(rf.Seed)
		c.Seed = rf.Seed
	}
	if len(rf.Cases) == 0 {
		return inconclusive("replay file has no cases")
	}
	o, err := execute(u, rf.Cases, 0, rf.Salts, sem)
	if err != nil {
		return inconclusive("%v", err)
	}
	all, lines := o.Findings, o.Lines
	for _, l := range o.Drift {
		fmt.Printf("DRIFT: %s\n", Canon(l))
	}
	knownHits := map[string]int{}
	n := report(c, all, known, knownHits)
	c.Logf("replayed %d case(s), %d line(s) validated, %d violation(s), known=%v", len(rf.Cases), lines, n, knownHits)
	if n > 0 {
		return core.ExitViolation
	}
	fmt.Printf("OK property=%s replay=%s cases=%d\n", c.Prop, c.Replay, len(rf.Cases))
	return core.ExitOK
}
