package events

import (
	"encoding/base64"
	"encoding/json"
	"fmt"
	"time"

	"github.com/rs/zerolog"
	"github.com/tendermint/go-amino"
	abcitypes "github.com/tendermint/tendermint/abci/types"
	tmproto "github.com/tendermint/tendermint/proto/tendermint/types"

	"github.com/shutter-network/rolling-shutter/rolling-shutter/app"
	"github.com/shutter-network/rolling-shutter/rolling-shutter/keyper/shutterevents"
	"github.com/shutter-network/rolling-shutter/rolling-shutter/keyper/smobserver"
	"github.com/shutter-network/rolling-shutter/rolling-shutter/shmsg"
)

func init() { zerolog.SetGlobalLevel(zerolog.Disabled) }

// D describes one mutation (EventsMC!D).
type D struct {
	Kind string `json:"kind"`
	I    int    `json:"i"`
	J    int    `json:"j"`
	F    string `json:"f"`
}

// Step and Scen mirror Events!Step / Events!Scen.
type Step struct {
	Op string `json:"op"`
	S  string `json:"s"`
	V  V      `json:"v"`
}
type Scen struct {
	Ok      bool     `json:"ok"`
	Keypers []string `json:"keypers"`
	Eon     string   `json:"eon"`
	Steps   []Step   `json:"steps"`
	Expect  []V      `json:"expect"`
}

// Case is one case printed by TLC (EventsMC!Cases).
type Case struct {
	Cls  string `json:"cls"`
	V    V      `json:"v"`
	Ev   *EvS   `json:"ev,omitempty"`
	D    []D    `json:"d,omitempty"`
	Scen *Scen  `json:"scen,omitempty"`
}

// Line is one ndjson trace line for EventsTrace.tla (see its header for the fields per class).
type Line struct {
	Cls   string
	V     V
	D     []D
	Ev    *EvS
	Enc   *EvS
	Out   R
	Out2  R
	Seen  R
	Scen  *Scen
	Panic string
	Codes []uint32
	Evs   []R
	// not read by the specification: the concrete event and remarks, for replay files / reports
	Real *abcitypes.Event
	Note string
}

// MarshalJSON writes exactly the fields EventsTrace reads for the class (never null, never {}).
func (l Line) MarshalJSON() ([]byte, error) {
	m := map[string]any{"cls": l.Cls, "v": l.V.norm()}
	switch l.Cls {
	case "fid":
		m["enc"], m["out"], m["out2"], m["seen"] = l.Enc, l.Out, l.Out2, l.Seen
	case "mut":
		d := l.D
		if d == nil {
			d = []D{}
		}
		m["d"], m["ev"], m["out"], m["out2"], m["seen"] = d, l.Ev, l.Out, l.Out2, l.Seen
	case "app":
		codes, evs := l.Codes, l.Evs
		if codes == nil {
			codes = []uint32{}
		}
		if evs == nil {
			evs = []R{}
		}
		m["scen"], m["panic"], m["codes"], m["evs"] = l.Scen, l.Panic, codes, evs
	}
	if l.Real != nil {
		attrs := [][2]string{}
		for _, a := range l.Real.Attributes {
			attrs = append(attrs, [2]string{a.Key, a.Value})
		}
		m["real"] = map[string]any{"type": l.Real.Type, "attrs": attrs}
	}
	if l.Note != "" {
		m["note"] = l.Note
	}
	return json.Marshal(m)
}

const watchdog = 20 * time.Second

// guarded runs f under recover and a watchdog. A panic or a hang inside repository code is an
// observed behaviour; a renderError (the concretiser cannot build the case) is not.
func guarded(f func()) (res string, note string) {
	done := make(chan [2]string, 1)
	go func() {
		defer func() {
			if p := recover(); p != nil {
				if re, ok := p.(renderError); ok {
					done <- [2]string{"infra", string(re)}
					return
				}
				done <- [2]string{"panic", fmt.Sprint(p)}
			}
		}()
		f()
		done <- [2]string{"", ""}
	}()
	select {
	case r := <-done:
		return r[0], r[1]
	case <-time.After(watchdog):
		return "hang", fmt.Sprintf("no result after %s", watchdog)
	}
}

// decode runs the real keyper-side decoder on ev: MakeEvent, then re-encode + decode of the
// result, and smobserver.makeEvents on the one-event list.
func (u *Universe) decode(ev abcitypes.Event, height int64) (out, out2, seen R, note string) {
	out, out2, seen = resR("err"), resR("skip"), resR("err")
	var dec shutterevents.IEvent
	if res, n := guarded(func() {
		x, err := shutterevents.MakeEvent(ev, height)
		if err == nil {
			dec = x
			out = okR(u.AbsEvent(x))
		}
	}); res != "" {
		out, note, dec = resR(res), n, nil
	}
	if dec != nil {
		if res, n := guarded(func() {
			ev2 := dec.MakeABCIEvent()
			x, err := shutterevents.MakeEvent(ev2, height)
			if err != nil {
				out2 = resR("err")
				note = "re-encoded event refused: " + err.Error()
				return
			}
			out2 = okR(u.AbsEvent(x))
		}); res != "" {
			out2, note = resR(res), n
		}
	}
	if res, n := guarded(func() {
		l := smobserver.VerifMakeEvents(height, []abcitypes.Event{ev})
		switch len(l) {
		case 0:
		case 1:
			seen = okR(u.AbsEvent(l[0]))
		default:
			seen = R{Res: fmt.Sprintf("?%d events", len(l)), V: noV()}
		}
	}); res != "" {
		seen, note = resR(res), n
	}
	return out, out2, seen, note
}

// RunCase executes one case on the real code and returns its trace line. infra is non-empty if
// the case could not be built (harness problem, never a verdict).
func (u *Universe) RunCase(c Case, salt int) (line Line, infra string) {
	line = Line{Cls: c.Cls, V: c.V.norm(), D: c.D}
	switch c.Cls {
	case "fid":
		var ev abcitypes.Event
		height := u.Height(c.V.H)
		res, note := guarded(func() { ev = u.Conc(c.V, salt).MakeABCIEvent() })
		if res == "infra" {
			return line, note
		}
		if res != "" {
			line.Out, line.Out2, line.Seen, line.Note = resR(res), resR("skip"), resR("skip"), "encoder: "+note
			line.Enc = &EvS{Ty: El{F: "?", T: None}, Attrs: []AttrS{}}
			return line, ""
		}
		enc := u.AbsEncoded(ev, *c.Ev)
		out, out2, seen, n := u.decode(ev, height)
		line.Enc, line.Out, line.Out2, line.Seen, line.Note, line.Real = &enc, out, out2, seen, n, &ev
	case "mut":
		var ev abcitypes.Event
		res, note := guarded(func() { ev = u.Render(*c.Ev) })
		if res != "" {
			return line, "render: " + note
		}
		out, out2, seen, n := u.decode(ev, u.Height(c.V.H))
		line.Ev, line.Out, line.Out2, line.Seen, line.Note, line.Real = c.Ev, out, out2, seen, n, &ev
	case "app":
		return u.runApp(c)
	default:
		return line, "unknown case class " + c.Cls
	}
	return line, ""
}

// ---- cross-check on the real application -----------------------------------------------------

const chainID = "verif-events"

func (u *Universe) sign(s string, nonce uint64, msg *shmsg.Message) []byte {
	k, ok := u.priv[s]
	if !ok {
		bad("no signing key for %s", s)
	}
	signed, err := shmsg.SignMessage(&shmsg.MessageWithNonce{ChainId: []byte(chainID), RandomNonce: nonce, Msg: msg}, k)
	if err != nil {
		bad("sign: %v", err)
	}
	return []byte(base64.RawURLEncoding.EncodeToString(signed))
}

func (u *Universe) message(st Step) *shmsg.Message {
	v := st.V
	switch st.Op {
	case "vote":
		return shmsg.NewBatchConfig(u.U64(v.Act), u.addrs(v.As, false), u.U64(v.Thr), u.U64(v.Idx))
	case "seen":
		return shmsg.NewBlockSeen(u.U64(v.Act))
	case "dkgres":
		return shmsg.NewDKGResult(u.U64(v.Eon), false)
	case "checkin":
		return shmsg.NewCheckIn(newDet("valkey", u.Seed).bytes(32), u.ECIES(v.Key))
	case "msg":
		switch v.Type {
		case "polycommit":
			return shmsg.NewPolyCommitment(u.U64(v.Eon), u.Gammas(v.Items))
		case "polyeval":
			evals := [][]byte{}
			for _, t := range v.Items {
				evals = append(evals, u.Bytes(t))
			}
			return shmsg.NewPolyEval(u.U64(v.Eon), u.addrs(v.As, false), evals)
		case "accusation":
			return shmsg.NewAccusation(u.U64(v.Eon), u.addrs(v.As, false))
		case "apology":
			a := u.Conc(v, 0).(*shutterevents.Apology)
			return shmsg.NewApology(u.U64(v.Eon), u.addrs(v.As, false), a.PolyEval)
		}
	}
	bad("cannot build a message for step %s/%s", st.Op, v.Type)
	return nil
}

// runApp executes the scenario on a fresh real app.ShutterApp (block 1) and decodes every event
// it emits with the keyper's decoder.
func (u *Universe) runApp(c Case) (line Line, infra string) {
	sc := *c.Scen
	for i := range sc.Steps {
		sc.Steps[i].V = sc.Steps[i].V.norm()
	}
	for i := range sc.Expect {
		sc.Expect[i] = sc.Expect[i].norm()
	}
	if sc.Keypers == nil {
		sc.Keypers = []string{}
	}
	line = Line{Cls: "app", V: c.V.norm(), Scen: &sc, Codes: []uint32{}, Evs: []R{}}
	const height = 1
	res, note := guarded(func() {
		a := app.NewShutterApp()
		gs := app.NewGenesisAppState(u.addrs(sc.Keypers, false), 1, u.U64(sc.Eon)-1, app.NewForkHeightsAllDisabled())
		b, err := amino.NewCodec().MarshalJSON(gs)
		if err != nil {
			bad("genesis: %v", err)
		}
		a.InitChain(abcitypes.RequestInitChain{ChainId: chainID, AppStateBytes: b})
		collect := func(evs []abcitypes.Event) {
			for _, e := range evs {
				x, err := shutterevents.MakeEvent(e, height)
				if err != nil {
					line.Evs = append(line.Evs, resR("err"))
					line.Note += fmt.Sprintf("undecodable %s: %v; ", e.Type, err)
					continue
				}
				line.Evs = append(line.Evs, okR(u.AbsEvent(x)))
			}
		}
		for i, st := range sc.Steps {
			switch st.Op {
			case "begin":
				collect(a.BeginBlock(abcitypes.RequestBeginBlock{Header: tmproto.Header{Height: height}}).Events)
			case "end":
				collect(a.EndBlock(abcitypes.RequestEndBlock{Height: height}).Events)
			default:
				r := a.DeliverTx(abcitypes.RequestDeliverTx{Tx: u.sign(st.S, uint64(i), u.message(st))})
				line.Codes = append(line.Codes, r.Code)
				if r.Code != 0 {
					line.Note += fmt.Sprintf("step %d %s refused: %s; ", i, st.Op, r.Log)
				}
				collect(r.Events)
			}
		}
	})
	if res == "infra" {
		return line, note
	}
	if res != "" {
		line.Panic = res + ": " + note
	}
	return line, ""
}
