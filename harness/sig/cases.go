package sig

import (
	"encoding/json"
	"fmt"
	"strings"
	"time"

	"verif/harness/core"
	"verif/harness/tlc"
)

// Plan is one TLC run over a part of the case domain of SigRuleMC.
type Plan struct {
	Name     string
	Domain   string // base | mut | sample
	Flavours []string
	NSet     []int
	TSel     []int  // nil = all
	Sample   int    // number of draws (Domain sample)
	Emit     bool   // false: design-level check only, nothing replayed
	Access   bool   // also run the cases on the access node
	Assembly string // "" | "code" | "both": also run the cases through the combined validator of a keyper assembly
	History  bool   // every case under every announcement history of the eon's keyper set
	NoKeyper bool   // do not run the cases through the keyper handlers (database double)
	Heavy    bool   // millions of cases: TLC gets all workers, heavy plans run one after the other
	Optional bool   // skipped when the time budget of the tier is used up before the plan starts
	LenRule  string
}

func intSet(l []int) string {
	s := []string{}
	for _, v := range l {
		s = append(s, fmt.Sprint(v))
	}
	return "{" + strings.Join(s, ", ") + "}"
}

func strSet(l []string) string {
	s := []string{}
	for _, v := range l {
		s = append(s, fmt.Sprintf("%q", v))
	}
	return "{" + strings.Join(s, ", ") + "}"
}

func (p Plan) cfg() string {
	tsel := p.TSel
	if tsel == nil {
		tsel = []int{0, 1, 2, 3, 4, 5, 6}
	}
	dom, spec := p.Domain, "Spec"
	if p.Domain == "sample" {
		dom, spec = "base", "SampleSpec"
	}
	rule := p.LenRule
	if rule == "" {
		rule = "equal"
	}
	var b strings.Builder
	fmt.Fprintf(&b, "CONSTANTS\n  LenRule = %q\n  StoreRule = \"last\"\n  MissRule = \"reject\"\n  RegRule = \"append\"\n  Flavours = %s\n  NSet = %s\n  TSel = %s\n  History = %s\n  Domain = %q\n  SampleNum = %d\n  Emit = %s\n",
		rule, strSet(p.Flavours), intSet(p.NSet), intSet(tsel), strings.ToUpper(fmt.Sprint(p.History)), dom, p.Sample, strings.ToUpper(fmt.Sprint(p.Emit)))
	fmt.Fprintf(&b, "SPECIFICATION %s\nINVARIANT Design\nINVARIANT EmitInv\nCHECK_DEADLOCK FALSE\n", spec)
	return b.String()
}

// Gen is what the TLC run of one plan produced (the cases themselves are streamed).
type Gen struct {
	Plan     Plan
	NumCases int
	States   int
	Distinct int
	SpecViol string // design-level counterexample (a lead, replayed on the real code)
	SpecCex  *Case
	Wall     float64
}

const mcModule = "MCgen_SigRule"

var mcBody = []byte("---- MODULE " + mcModule + " ----\nEXTENDS SigRuleMC\n====\n")

var internTab = map[string]string{"ok": "ok", "garbage": "garbage", "tampered": "tampered", "": "", "instance": "instance",
	"eon": "eon", "slot": "slot", "txptr": "txptr", "ids": "ids", "gnosis": "gnosis", "service": "service", "idlen": "idlen", "S": "S", "X": "X", "O": "O", "before": "before", "after": "after", "none": "none"}

func intern(s string) string {
	if v, ok := internTab[s]; ok {
		return v
	}
	return s
}

// parseCase decodes one printed case (payload of a CASE line, TLA+ string syntax).
func parseCase(raw string) (Case, error) {
	var cs Case
	s, err := tlc.UnquoteTLA(raw)
	if err != nil {
		return cs, err
	}
	if err := json.Unmarshal([]byte(s), &cs); err != nil {
		return cs, fmt.Errorf("bad CASE line %q: %v", s, err)
	}
	if err := cs.wellFormed(); err != nil {
		return cs, fmt.Errorf("bad CASE %s: %v", s, err)
	}
	cs.F, cs.Mut, cs.Key = intern(cs.F), intern(cs.Mut), intern(cs.Key)
	for i := range cs.Sigs {
		cs.Sigs[i].K, cs.Sigs[i].O = intern(cs.Sigs[i].K), intern(cs.Sigs[i].O)
	}
	for i := range cs.Ann {
		cs.Ann[i] = intern(cs.Ann[i])
	}
	return cs, nil
}

// Generate runs TLC on the plan: the Design invariant is checked on every case and every case
// is printed; the printed cases are handed to emit in batches while TLC is still running.
func Generate(c *core.Ctx, p Plan, batchSize int, emit func([]Case)) (*Gen, error) {
	extra := []string{"-seed", fmt.Sprint(c.Seed + 1)}
	workers := c.Workers
	if p.Domain != "base" || !p.Heavy {
		workers = 4
	}
	if p.Domain == "sample" {
		workers = 1 // the sample is a function of the seed only
	}
	var batch []Case
	n := 0
	res, err := streamTLC(tlc.Opts{
		Module: mcModule, CfgText: p.cfg(), Workers: workers, Timeout: 40 * time.Minute, HeapGB: 8,
		Files: map[string][]byte{mcModule + ".tla": mcBody}, Extra: extra,
	}, func(raw string) error {
		cs, err := parseCase(raw)
		if err != nil {
			return err
		}
		n++
		batch = append(batch, cs)
		if len(batch) >= batchSize {
			emit(batch)
			batch = nil
		}
		return nil
	})
	if res == nil {
		return nil, err
	}
	if err != nil {
		return nil, fmt.Errorf("plan %s: %v", p.Name, err)
	}
	g := &Gen{Plan: p, States: res.States, Distinct: res.Distinct, Wall: res.Wall.Seconds(), NumCases: n}
	if res.Violation {
		g.SpecViol = res.ViolatedWhat
		g.SpecCex = cexCase(res.Out)
		if g.SpecCex != nil {
			batch = append(batch, *g.SpecCex) // a lead: always replayed on the real code
		}
	} else if !res.Completed || res.TimedOut || res.Errored != "" || res.Distinct == 0 {
		return nil, fmt.Errorf("TLC did not complete on plan %s: %s\n%s", p.Name, res.Errored, res.Tail(25))
	}
	if len(batch) > 0 {
		emit(batch)
	}
	return g, nil
}

func (cs *Case) wellFormed() error {
	if cs.F != "gnosis" && cs.F != "service" {
		return fmt.Errorf("flavour %q", cs.F)
	}
	if cs.N < 1 || cs.N > MaxMembers || cs.T < 0 {
		return fmt.Errorf("n=%d t=%d", cs.N, cs.T)
	}
	if cs.Signers == nil || cs.Sigs == nil || cs.Ann == nil || len(cs.Ann) > 4 {
		return fmt.Errorf("missing list")
	}
	for _, a := range cs.Ann {
		if a != "S" && a != "X" && a != "O" {
			return fmt.Errorf("announcement %q", a)
		}
	}
	if cs.Key != "before" && cs.Key != "after" && cs.Key != "none" {
		return fmt.Errorf("key %q", cs.Key)
	}
	for _, v := range cs.Signers {
		if v < 0 || v > cs.N {
			return fmt.Errorf("signer %d", v)
		}
	}
	fields := map[string]bool{"": true, "instance": true, "eon": true, "ids": true}
	if cs.F == "gnosis" {
		fields["slot"], fields["txptr"] = true, true
	}
	if !fields[cs.Mut] && cs.Mut != "idlen" {
		return fmt.Errorf("mut %q", cs.Mut)
	}
	for _, s := range cs.Sigs {
		if (s.K != "ok" && s.K != "garbage" && s.K != "tampered") || s.B < 0 || s.B > cs.N || !fields[s.O] {
			return fmt.Errorf("signature token %+v", s)
		}
	}
	return nil
}

// Key is a canonical rendering of the abstract case (used for ordering, dedup and counting).
func (cs *Case) CKey() string {
	b, _ := json.Marshal(cs)
	return string(b)
}

// cexCase extracts the case of the last state of a TLC error trace.
func cexCase(out string) *Case {
	i := strings.LastIndex(out, "/\\ c = [")
	if i < 0 {
		return nil
	}
	line := out[i+len("/\\ c = "):]
	if j := strings.Index(line, "\n"); j >= 0 {
		line = line[:j]
	}
	cs, err := parseTLARecord(line)
	if err != nil {
		return nil
	}
	return cs
}

// parseTLARecord parses the TLA+ rendering of a case record, e.g.
// [n |-> 1, f |-> "gnosis", signers |-> <<0>>, t |-> 1, mut |-> "", sigs |-> <<>>]
// by rewriting it to JSON.
func parseTLARecord(s string) (*Case, error) {
	r := strings.NewReplacer("<<", "[", ">>", "]", " |-> ", ":")
	s = r.Replace(strings.TrimSpace(s))
	// records [a:1, b:2] -> {"a":1,"b":2}; sequences stay [..]: a '[' followed by an identifier and ':' opens a record
	var b strings.Builder
	stack := []byte{}
	for i := 0; i < len(s); i++ {
		ch := s[i]
		switch ch {
		case '[':
			j := i + 1
			for j < len(s) && (s[j] == '_' || (s[j] >= 'a' && s[j] <= 'z') || (s[j] >= 'A' && s[j] <= 'Z')) {
				j++
			}
			if j > i+1 && j < len(s) && s[j] == ':' {
				stack = append(stack, '}')
				b.WriteByte('{')
			} else {
				stack = append(stack, ']')
				b.WriteByte('[')
			}
		case ']':
			if len(stack) == 0 {
				return nil, fmt.Errorf("unbalanced")
			}
			b.WriteByte(stack[len(stack)-1])
			stack = stack[:len(stack)-1]
		case '"':
			j := i + 1
			for j < len(s) && s[j] != '"' {
				j++
			}
			b.WriteString(s[i : j+1])
			i = j
		default:
			if ch == '_' || (ch >= 'a' && ch <= 'z') || (ch >= 'A' && ch <= 'Z') {
				j := i
				for j < len(s) && (s[j] == '_' || (s[j] >= 'a' && s[j] <= 'z') || (s[j] >= 'A' && s[j] <= 'Z')) {
					j++
				}
				fmt.Fprintf(&b, "%q", s[i:j])
				i = j - 1
			} else {
				b.WriteByte(ch)
			}
		}
	}
	var cs Case
	if err := json.Unmarshal([]byte(b.String()), &cs); err != nil {
		return nil, err
	}
	if cs.Signers == nil {
		cs.Signers = []int{}
	}
	if cs.Sigs == nil {
		cs.Sigs = []Sig{}
	}
	if cs.Ann == nil {
		cs.Ann = []string{}
	}
	return &cs, nil
}
