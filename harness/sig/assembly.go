package sig

import (
	"context"
	"fmt"
	"sync"

	"github.com/ethereum/go-ethereum/common"
	"github.com/ethereum/go-ethereum/crypto"
	"github.com/jackc/pgx/v4/pgxpool"
	pubsub "github.com/libp2p/go-libp2p-pubsub"
	pb "github.com/libp2p/go-libp2p-pubsub/pb"
	"github.com/libp2p/go-libp2p/core/peer"
	"github.com/shutter-network/shutter/shlib/puredkg"
	"github.com/shutter-network/shutter/shlib/shcrypto"

	kprdb "github.com/shutter-network/rolling-shutter/rolling-shutter/keyper/database"
	"github.com/shutter-network/rolling-shutter/rolling-shutter/keyper/epochkghandler"
	"github.com/shutter-network/rolling-shutter/rolling-shutter/keyperimpl/gnosis"
	"github.com/shutter-network/rolling-shutter/rolling-shutter/keyperimpl/shutterservice"
	"github.com/shutter-network/rolling-shutter/rolling-shutter/p2p"
	"github.com/shutter-network/rolling-shutter/rolling-shutter/p2pmsg"
	"github.com/shutter-network/rolling-shutter/rolling-shutter/shdb"

	"verif/harness/core"
	"verif/harness/fakepg"
)

// AssemblyEnv is the target "assembly": "accepted by keypers" as it happens on the wire.  For
// each flavour a real p2p.P2PMessaging (registries only, no libp2p host) gets the handlers in
// the order the keyper's Start functions register them -- keyperimpl/<flavour>/keyper.go:
// DecryptionKeySharesHandler, DecryptionKeysHandler; then keyper/keyper.go: the core
// DecryptionKeyHandler, DecryptionKeyShareHandler, EonPublicKeyHandler -- and the case's message,
// marshalled and wrapped as a pubsub message, is given to the COMBINED validator of the
// decryptionKeys topic (what P2PNode.Run registers with libp2p).  "assembly_rev" registers the
// core handlers first.  The database double holds, besides the keyper_set rows of the case's
// storage state, what the core validator looks up: the batch config of the eon with this node as
// a member, the eon and a successful DKG result carrying the universe's real eon public key.
type AssemblyEnv struct {
	// VerifyKeys: in universes 2, 6, .. the keyper has NOT derived the decryption keys itself, so
	// the core validator verifies them with the pairing equation (milliseconds per key)
	VerifyKeys bool
	free       chan *aenv
	all        []*aenv
	mu         sync.Mutex
	lost       int
}

// coreCfg implements epochkghandler.Config; the instance id follows the message's universe.
type coreCfg struct {
	addr     common.Address
	instance uint64
}

func (c *coreCfg) GetAddress() common.Address      { return c.addr }
func (c *coreCfg) GetInstanceID() uint64           { return c.instance }
func (c *coreCfg) GetMaxNumKeysPerMessage() uint64 { return 500 }

type aenv struct {
	srv   *fakepg.Server
	pool  *pgxpool.Pool
	cfg   *coreCfg
	lastU *Universe // the core tables are seeded for this universe
	// combined validators of the keys topic: flavour -> order -> validator
	val map[string]map[string]pubsub.ValidatorEx
}

var keysTopic = (&p2pmsg.DecryptionKeys{}).Topic()

func assemble(flavour, order string, pool *pgxpool.Pool, cfg *coreCfg) pubsub.ValidatorEx {
	m := p2p.VerifGossipvalNewMessaging()
	flavourHandlers := func() {
		var shares, keys p2p.MessageHandler
		if flavour == "gnosis" {
			shares, keys = gnosis.VerifGnosisSlotHandlers(pool)
		} else {
			shares, keys = shutterservice.VerifGossipvalHandlers(pool)
		}
		m.AddMessageHandler(shares)
		m.AddMessageHandler(keys)
	}
	coreHandlers := func() {
		m.AddMessageHandler(
			epochkghandler.NewDecryptionKeyHandler(cfg, pool),
			epochkghandler.NewDecryptionKeyShareHandler(cfg, pool),
			epochkghandler.NewEonPublicKeyHandler(cfg, pool),
		)
	}
	if order == "code" {
		flavourHandlers()
		coreHandlers()
	} else {
		coreHandlers()
		flavourHandlers()
	}
	return m.VerifGossipvalCombinedValidator(keysTopic)
}

// NewAssemblyEnv builds one assembly per worker, flavour and registration order.
func NewAssemblyEnv(c *core.Ctx) (*AssemblyEnv, string) {
	a := &AssemblyEnv{free: make(chan *aenv, c.Workers), VerifyKeys: c.Thorough()}
	for i := 0; i < c.Workers; i++ {
		srv := fakepg.New()
		srv.SetLogging(false)
		pool, err := srv.Pool(context.Background(), fakepg.MaxConns(2))
		if err != nil {
			a.Close()
			return nil, "not run: cannot open a pool on the database double: " + err.Error()
		}
		node := keyFromSeed(c.Seed, "assembly-node", i)
		e := &aenv{srv: srv, pool: pool, cfg: &coreCfg{addr: crypto.PubkeyToAddress(node.PublicKey)}, val: map[string]map[string]pubsub.ValidatorEx{}}
		for _, f := range []string{"gnosis", "service"} {
			e.val[f] = map[string]pubsub.ValidatorEx{}
			for _, o := range []string{"code", "rev"} {
				e.val[f][o] = assemble(f, o, pool, e.cfg)
			}
		}
		a.all = append(a.all, e)
		a.free <- e
	}
	return a, "run: combined validator of the decryptionKeys topic of a keyper assembled as Keyper.Start does, both registration orders"
}

func (a *AssemblyEnv) Close() {
	if a == nil {
		return
	}
	for _, e := range a.all {
		e.pool.Close()
		e.srv.Close()
	}
}

func (a *AssemblyEnv) PinMismatches() []string {
	if a == nil {
		return nil
	}
	seen := map[string]bool{}
	out := []string{}
	for _, e := range a.all {
		for _, m := range e.srv.PinMismatches() {
			if !seen[m] {
				seen[m] = true
				out = append(out, m)
			}
		}
	}
	return out
}

// PureResult is the (encoded) DKG result a keyper of the universe's eon holds.
func (u *Universe) PureResult() []byte {
	u.mu.Lock()
	defer u.mu.Unlock()
	if u.pure != nil {
		return u.pure
	}
	var pks []*shcrypto.EonPublicKeyShare
	for i := 0; i < int(u.eon.NumKeypers); i++ {
		pks = append(pks, u.eon.EonPublicKeyShare(i))
	}
	b, err := shdb.EncodePureDKGResult(&puredkg.Result{
		Eon: 1, NumKeypers: u.eon.NumKeypers, Threshold: u.eon.Threshold, Keyper: 0,
		SecretKeyShare: u.eon.EonSecretKeyShare(0), PublicKey: u.eon.EonPublicKey(), PublicKeyShares: pks,
	})
	if err != nil {
		panic(err)
	}
	u.pure = b
	return b
}

// Run brings the database into the state of the case and gives the wire form of the message to
// the combined validators.  orders: "code" and/or "rev".
func (a *AssemblyEnv) Run(u *Universe, c *Case, msg *p2pmsg.DecryptionKeys, orders []string) []Obs {
	data, err := p2pmsg.Marshal(msg, nil)
	if err != nil {
		panic(fmt.Sprintf("harness: cannot marshal the message: %v", err))
	}
	e := <-a.free
	e.cfg.instance = msg.InstanceId
	e.srv.Update(func(db *fakepg.DB) {
		db.KeyperSet = db.KeyperSet[:0]
		if last := c.LastAnn(); last != "" {
			db.KeyperSet = append(db.KeyperSet, *u.KeyperSet(c, msg.Eon, last))
		}
		for _, kind := range c.Ann {
			if kind == "O" {
				db.KeyperSet = append(db.KeyperSet, *u.KeyperSet(c, u.OtherEon(msg.Eon), "S"))
				break
			}
		}
		db.SlotDecryptionSignatures, db.DecryptionSignatures, db.TxPointer = nil, nil, nil
		// what the core validator looks up, for both eon values of the universe
		if e.lastU != u {
			db.TendermintBatchConfig, db.Eons, db.DkgResult = nil, nil, nil
			for i, eon := range u.Eons() {
				db.TendermintBatchConfig = append(db.TendermintBatchConfig, kprdb.TendermintBatchConfig{
					KeyperConfigIndex: int32(eon), Height: int64(i + 1), Keypers: []string{shdb.EncodeAddress(e.cfg.addr)}, Threshold: 1, Started: true,
				})
				db.Eons = append(db.Eons, kprdb.Eon{Eon: int64(i + 1), Height: int64(i + 1), KeyperConfigIndex: int64(eon)})
				db.DkgResult = append(db.DkgResult, kprdb.DkgResult{Eon: int64(i + 1), Success: true, PureResult: u.PureResult()})
			}
			e.lastU = u
		}
		db.DecryptionKey = db.DecryptionKey[:0]
		if !(a.VerifyKeys && u.ID%4 == 2) {
			// this keyper has derived the keys itself already (the core validator then compares bytes
			// instead of verifying the pairing equation)
			for _, k := range msg.Keys {
				db.DecryptionKey = append(db.DecryptionKey, kprdb.DecryptionKey{Eon: int64(msg.Eon), EpochID: k.IdentityPreimage, DecryptionKey: k.Key})
			}
		}
	})
	topic := keysTopic
	out := []Obs{}
	hung := false
	for _, o := range orders {
		val := e.val[c.F][o]
		tg := "assembly"
		if o == "rev" {
			tg = "assembly_rev"
		}
		pm := &pubsub.Message{
			Message:      &pb.Message{From: []byte("verif-origin-peer"), Data: data, Seqno: []byte{0, 0, 0, 0, 0, 0, 0, 1}, Topic: &topic},
			ReceivedFrom: peer.ID("verif-forwarding-peer"),
		}
		ob := guarded(tg, func() (pubsub.ValidationResult, error) {
			return val(context.Background(), peer.ID("verif-forwarding-peer"), pm), nil
		})
		out = append(out, ob)
		if ob.R == "hang" {
			hung = true
			break
		}
	}
	if hung {
		a.mu.Lock()
		a.lost++
		a.mu.Unlock()
		return out
	}
	a.free <- e
	return out
}
