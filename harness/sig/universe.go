// Package sig is the conformance harness of property C06 (specs/SigRule*.tla): the cases TLC
// generates are concretised with real ECDSA keys and real SSZ signing roots, run on the real
// validation code of the repository and the observed verdicts go back to TLC (SigRuleTrace).
package sig

import (
	"bytes"
	"crypto/ecdsa"
	"fmt"
	"math"
	"math/rand"
	"sort"
	"sync"

	"github.com/ethereum/go-ethereum/common"
	"github.com/ethereum/go-ethereum/crypto"
	"github.com/shutter-network/shutter/shlib/shcrypto"

	obskeyper "github.com/shutter-network/rolling-shutter/rolling-shutter/chainobserver/db/keyper"
	"github.com/shutter-network/rolling-shutter/rolling-shutter/keyperimpl/gnosis/gnosisssztypes"
	"github.com/shutter-network/rolling-shutter/rolling-shutter/keyperimpl/shutterservice/serviceztypes"
	"github.com/shutter-network/rolling-shutter/rolling-shutter/medley/testkeygen"
	"github.com/shutter-network/rolling-shutter/rolling-shutter/p2pmsg"
	"github.com/shutter-network/rolling-shutter/rolling-shutter/shdb"
)

// MaxMembers is the largest keyper set a universe can serve.
const MaxMembers = 4

// Sig is the abstract signature token of SigRule.tla.
type Sig struct {
	K string `json:"k"` // ok | garbage | tampered
	B int    `json:"b"` // 0..n-1 member, n outsider
	O string `json:"o"` // "" base tuple, f = tuple with signed field f replaced
}

// Case is the abstract case of SigRule.tla, exactly as printed by SigRuleMC.
type Case struct {
	F       string `json:"f"` // gnosis | service
	N       int    `json:"n"`
	T       int    `json:"t"`
	Signers []int  `json:"signers"`
	Sigs    []Sig  `json:"sigs"`
	Mut     string `json:"mut"` // "" | signed field | "idlen" (byte length of one identity preimage changed)
	// Ann is the history of keyper sets announced for the eon, oldest first: "S" = members
	// 0..n-1, "X" = outsider, members 0..n-2.  The eon's set is the last one.
	// "O" = the set S announced for another eon.  No "S"/"X": the eon has no keyper set.
	Ann []string `json:"ann"`
	// Key: the access node's eon public key of the message's eon: stored "before" / "after" the
	// announcements, or "none".
	Key string `json:"key"`
}

// LastAnn is the keyper set of the eon ("" = none was announced for it).
func (c *Case) LastAnn() string {
	for i := len(c.Ann) - 1; i >= 0; i-- {
		if c.Ann[i] != "O" {
			return c.Ann[i]
		}
	}
	return ""
}

// OtherEon returns the eon value of the universe that the message does not carry.
func (u *Universe) OtherEon(msgEon uint64) uint64 {
	e := u.Eons()
	if e[0] == msgEon {
		return e[1]
	}
	return e[0]
}

// Tuple is the concrete signed data.
type Tuple struct {
	Instance, Eon, Slot, TxPtr uint64
	IDs                        [][]byte
}

// Universe is one concretisation: keys, the two values of every signed field, byte-level
// variants of the classes whose bytes are free (out-of-range index, garbage, tampering).
type Universe struct {
	ID       int
	Seed     int64
	members  [MaxMembers]*ecdsa.PrivateKey
	addrs    [MaxMembers]common.Address
	outsider *ecdsa.PrivateKey

	val map[string][2]uint64 // instance, eon, slot, txptr: base, replacement
	// identity lists per flavour: [0] base, [1] replacement (both sorted, usable in a message),
	// [2] what a signature "over changed ids" signs when the message carries the base list
	ids map[string][3][][]byte
	// the base list with the byte length of one preimage changed (no SSZ root exists for it)
	idlen map[string][][]byte

	oor      [MaxMembers + 1]uint64 // concrete out-of-range signer index per n
	garbSeed int64

	eon      *testkeygen.EonKeys
	pure     []byte // encoded DKG result of the eon (assembly target)
	mu       sync.Mutex
	epochKey map[string][]byte
	sigs     map[string][]byte
}

func keyFromSeed(seed int64, tag string, i int) *ecdsa.PrivateKey {
	for ctr := 0; ; ctr++ {
		h := crypto.Keccak256([]byte(fmt.Sprintf("verif-c06/%d/%s/%d/%d", seed, tag, i, ctr)))
		k, err := crypto.ToECDSA(h)
		if err == nil {
			return k
		}
	}
}

func pickU64(rng *rand.Rand, max uint64) uint64 {
	switch rng.Intn(6) {
	case 0:
		return 0
	case 1:
		return max
	case 2:
		return max - 1
	case 3:
		return uint64(rng.Intn(1000))
	default:
		v := rng.Uint64()
		if max != math.MaxUint64 {
			v %= max + 1
		}
		return v
	}
}

// replacement returns a value different from v that stays <= max.
func replacement(rng *rand.Rand, v, max uint64) uint64 {
	for {
		var w uint64
		switch rng.Intn(4) {
		case 0:
			w = v + 1
		case 1:
			w = v - 1
		case 2:
			w = v ^ (1 << uint(rng.Intn(64)))
		default:
			w = pickU64(rng, max)
		}
		if w != v && w <= max {
			return w
		}
	}
}

func sortIDs(l [][]byte) {
	sort.Slice(l, func(i, j int) bool { return bytes.Compare(l[i], l[j]) < 0 })
}

func cloneIDs(l [][]byte) [][]byte {
	out := make([][]byte, len(l))
	for i := range l {
		out[i] = append([]byte{}, l[i]...)
	}
	return out
}

// lengthVariant changes the byte length of one preimage of the (sorted) base list, keeping the
// list sorted: 0 bytes appended to the last one, 1 trailing zero bytes of the first one stripped
// (the base list's first preimage ends in zero bytes), 2 the first one truncated further,
// 3 zero bytes appended to the last one.
func lengthVariant(rng *rand.Rand, base [][]byte, variant int) [][]byte {
	l := cloneIDs(base)
	last := len(l) - 1
	switch variant % 4 {
	case 0:
		extra := make([]byte, 1+rng.Intn(8))
		rng.Read(extra)
		extra[len(extra)-1] |= 1
		l[last] = append(l[last], extra...)
	case 1:
		b := l[0]
		for len(b) > 1 && b[len(b)-1] == 0 {
			b = b[:len(b)-1]
		}
		l[0] = b
	case 2:
		b := l[0]
		for len(b) > 1 && b[len(b)-1] == 0 {
			b = b[:len(b)-1]
		}
		l[0] = b[:len(b)-1-rng.Intn(len(b)/2)]
	default:
		l[last] = append(l[last], make([]byte, 1+rng.Intn(12))...)
	}
	return l
}

func makeIDs(rng *rand.Rand, size int) [3][][]byte {
	k := 1 + rng.Intn(3)
	base := make([][]byte, k)
	for i := range base {
		base[i] = make([]byte, size)
		rng.Read(base[i])
	}
	sortIDs(base)
	// boundary member: the smallest preimage ends in zero bytes (stays the smallest)
	for z := 1 + rng.Intn(3); z > 0; z-- {
		base[0][size-z] = 0
	}
	base[0][size-4] |= 1
	fresh := func() []byte { b := make([]byte, size); rng.Read(b); return b }
	alt := cloneIDs(base)
	switch v := rng.Intn(4); {
	case v == 0 && k > 1: // one identity fewer
		alt = alt[:k-1]
	case v == 1: // one identity more
		alt = append(alt, fresh())
	case v == 2: // one identity replaced
		alt[rng.Intn(k)] = fresh()
	default: // one bit of one identity
		alt[rng.Intn(k)][rng.Intn(size)] ^= 1 << uint(rng.Intn(8))
	}
	sortIDs(alt)
	sigAlt := cloneIDs(alt)
	if k > 1 && rng.Intn(2) == 0 { // same identities in another order
		sigAlt = cloneIDs(base)
		sigAlt[0], sigAlt[k-1] = sigAlt[k-1], sigAlt[0]
	}
	return [3][][]byte{base, alt, sigAlt}
}

// NewUniverse derives a universe from (seed, id).  withEon: also generate a real eon key
// (needed by the access node, which verifies the epoch secret keys).
func NewUniverse(seed int64, id int, withEon bool) *Universe {
	u := &Universe{ID: id, Seed: seed, epochKey: map[string][]byte{}, sigs: map[string][]byte{}}
	rng := rand.New(rand.NewSource(seed*1000003 + int64(id)*7919 + 17))
	for i := range u.members {
		u.members[i] = keyFromSeed(seed, fmt.Sprintf("member/%d", id), i)
		u.addrs[i] = crypto.PubkeyToAddress(u.members[i].PublicKey)
	}
	u.outsider = keyFromSeed(seed, fmt.Sprintf("outsider/%d", id), 0)
	u.val = map[string][2]uint64{}
	// the keyper handler and the access node refuse eon, slot > MaxInt64 and txptr > MaxInt32
	// before looking at signatures, so the universes stay below
	for _, f := range []struct {
		name string
		max  uint64
	}{{"instance", math.MaxUint64}, {"eon", math.MaxInt64}, {"slot", math.MaxInt64}, {"txptr", math.MaxInt32}} {
		max := f.max
		if f.name == "eon" && id%2 == 0 {
			// the core key handler looks the batch config up by int32(eon): universes with an even
			// number keep the eon inside int32 so that a whole keyper assembly can accept
			max = math.MaxInt32
		}
		v := pickU64(rng, max)
		u.val[f.name] = [2]uint64{v, replacement(rng, v, max)}
	}
	u.ids = map[string][3][][]byte{"gnosis": makeIDs(rng, 52), "service": makeIDs(rng, 32)}
	u.idlen = map[string][][]byte{
		"gnosis":  lengthVariant(rng, u.ids["gnosis"][0], id),
		"service": lengthVariant(rng, u.ids["service"][0], id+1),
	}
	for n := 0; n <= MaxMembers; n++ {
		cands := []uint64{uint64(n), uint64(n) + 7, 1 << 32, 1<<32 + 1, 1 << 63, math.MaxUint64, math.MaxInt32 + 1}
		u.oor[n] = cands[rng.Intn(len(cands))]
	}
	u.garbSeed = rng.Int63()
	if withEon {
		ek, err := testkeygen.NewEonKeys(rng, 3, 2)
		if err != nil {
			panic(err)
		}
		u.eon = ek
	}
	return u
}

// KeyperSet returns the keyper set (n, t) of the case at config index eon; kind "S": members
// 0..n-1, kind "X": the outsider followed by members 0..n-2.
func (u *Universe) KeyperSet(c *Case, eon uint64, kind string) *obskeyper.KeyperSet {
	ks := &obskeyper.KeyperSet{KeyperConfigIndex: int64(eon), ActivationBlockNumber: 0, Threshold: int32(c.T), Keypers: []string{}}
	if kind == "X" {
		ks.Keypers = append(ks.Keypers, shdb.EncodeAddress(crypto.PubkeyToAddress(u.outsider.PublicKey)))
	}
	for i := 0; len(ks.Keypers) < c.N; i++ {
		ks.Keypers = append(ks.Keypers, shdb.EncodeAddress(u.addrs[i]))
	}
	return ks
}

// tuple returns the signed data with field `changed` replaced.  sigOnly selects, for "ids",
// the list a signature signs when the message itself carries the base list.
func (u *Universe) tuple(flav, changed string, sigOnly bool) Tuple {
	pick := func(f string) uint64 {
		if changed == f {
			return u.val[f][1]
		}
		return u.val[f][0]
	}
	t := Tuple{Instance: pick("instance"), Eon: pick("eon"), Slot: pick("slot"), TxPtr: pick("txptr")}
	switch {
	case changed == "idlen":
		t.IDs = u.idlen[flav]
	case changed == "ids" && sigOnly:
		t.IDs = u.ids[flav][2]
	case changed == "ids":
		t.IDs = u.ids[flav][1]
	default:
		t.IDs = u.ids[flav][0]
	}
	return t
}

// Eons returns both values the message's eon can take (the keyper set is known under both).
func (u *Universe) Eons() [2]uint64 { return u.val["eon"] }

// MessageTuple is the data the message of the case carries.
func (u *Universe) MessageTuple(c *Case) Tuple { return u.tuple(c.F, c.Mut, false) }

// sign makes a real signature with the repository's SSZ types (struct literal + hash tree
// root + secp256k1), the way the keypers' messaging middleware does.
func sign(flav string, t Tuple, key *ecdsa.PrivateKey) []byte {
	var sig []byte
	var err error
	if flav == "gnosis" {
		d := &gnosisssztypes.SlotDecryptionSignatureData{InstanceID: t.Instance, Eon: t.Eon, Slot: t.Slot, TxPointer: t.TxPtr}
		for _, id := range t.IDs {
			d.IdentityPreimages = append(d.IdentityPreimages, gnosisssztypes.IdentityPreimage{Bytes: id})
		}
		sig, err = d.ComputeSignature(key)
	} else {
		d := &serviceztypes.DecryptionSignatureData{InstanceID: t.Instance, Eon: t.Eon}
		for _, id := range t.IDs {
			d.IdentityPreimages = append(d.IdentityPreimages, serviceztypes.IdentityPreimage{Bytes: id})
		}
		sig, err = d.ComputeSignature(key)
	}
	if err != nil {
		panic(fmt.Sprintf("harness: cannot sign: %v", err))
	}
	return sig
}

func (u *Universe) signer(c *Case, b int) *ecdsa.PrivateKey {
	if b >= 0 && b < c.N && b < MaxMembers {
		return u.members[b]
	}
	return u.outsider
}

// validSig returns the (cached) genuine signature of signer b over the tuple named by o.
func (u *Universe) validSig(c *Case, b int, o string) []byte {
	sigOnly := o == "ids" && c.Mut != "ids"
	who := b
	if b >= c.N {
		who = -1
	}
	key := fmt.Sprintf("%s/%d/%s/%v", c.F, who, o, sigOnly)
	u.mu.Lock()
	s, ok := u.sigs[key]
	u.mu.Unlock()
	if ok {
		return s
	}
	s = sign(c.F, u.tuple(c.F, o, sigOnly), u.signer(c, b))
	u.mu.Lock()
	u.sigs[key] = s
	u.mu.Unlock()
	return s
}

// Signature concretises signature token i of the case.
func (u *Universe) Signature(c *Case, i int) []byte {
	s := c.Sigs[i]
	rng := rand.New(rand.NewSource(u.garbSeed + int64(i)*131 + int64(len(c.Sigs))*17 + int64(s.B)))
	switch s.K {
	case "ok":
		return u.validSig(c, s.B, s.O)
	case "tampered":
		sig := append([]byte{}, u.validSig(c, s.B, s.O)...)
		switch rng.Intn(4) {
		case 0: // recovery id
			sig[64] ^= 1
		case 1: // r
			sig[rng.Intn(32)] ^= 1 << uint(rng.Intn(8))
		case 2: // s
			sig[32+rng.Intn(32)] ^= 1 << uint(rng.Intn(8))
		default:
			sig[rng.Intn(65)] ^= 1 << uint(rng.Intn(8))
		}
		return sig
	default: // garbage
		var n int
		switch rng.Intn(7) {
		case 0:
			return []byte{}
		case 1:
			return make([]byte, 65)
		case 2:
			n = 64
		case 3:
			n = 66
		case 4:
			n = 1 + rng.Intn(130)
		default:
			n = 65
		}
		b := make([]byte, n)
		rng.Read(b)
		if n == 65 {
			b[64] = byte(rng.Intn(2)) // a plausible recovery id so that recovery is attempted
		}
		return b
	}
}

// SignerIndices concretises the signer list.
func (u *Universe) SignerIndices(c *Case) []uint64 {
	out := make([]uint64, 0, len(c.Signers))
	for _, v := range c.Signers {
		if v >= c.N {
			out = append(out, u.oor[c.N])
		} else {
			out = append(out, uint64(v))
		}
	}
	return out
}

// EpochSecretKey returns the real decryption key of an identity (only with an eon key).
func (u *Universe) EpochSecretKey(id []byte) []byte {
	if u.eon == nil {
		return []byte{0x01}
	}
	u.mu.Lock()
	k, ok := u.epochKey[string(id)]
	u.mu.Unlock()
	if ok {
		return k
	}
	sk, err := u.eon.EpochSecretKey(id)
	if err != nil {
		panic(err)
	}
	k = sk.Marshal()
	u.mu.Lock()
	u.epochKey[string(id)] = k
	u.mu.Unlock()
	return k
}

func (u *Universe) EonPublicKey() *shcrypto.EonPublicKey { return u.eon.EonPublicKey() }

// Message builds the real keys message of the case.
func (u *Universe) Message(c *Case) *p2pmsg.DecryptionKeys {
	t := u.MessageTuple(c)
	msg := &p2pmsg.DecryptionKeys{InstanceId: t.Instance, Eon: t.Eon}
	for _, id := range t.IDs {
		msg.Keys = append(msg.Keys, &p2pmsg.Key{IdentityPreimage: id, Key: u.EpochSecretKey(id)})
	}
	sigs := make([][]byte, 0, len(c.Sigs))
	for i := range c.Sigs {
		sigs = append(sigs, u.Signature(c, i))
	}
	if c.F == "gnosis" {
		msg.Extra = &p2pmsg.DecryptionKeys_Gnosis{Gnosis: &p2pmsg.GnosisDecryptionKeysExtra{
			Slot: t.Slot, TxPointer: t.TxPtr, SignerIndices: u.SignerIndices(c), Signatures: sigs,
		}}
	} else {
		msg.Extra = &p2pmsg.DecryptionKeys_Service{Service: &p2pmsg.ShutterServiceDecryptionKeysExtra{
			SignerIndices: u.SignerIndices(c), Signature: sigs,
		}}
	}
	return msg
}

// Describe renders the concrete message for replay files and reports.
func (u *Universe) Describe(c *Case) map[string]any {
	t := u.MessageTuple(c)
	ids := []string{}
	for _, id := range t.IDs {
		ids = append(ids, fmt.Sprintf("%x", id))
	}
	sigs := []string{}
	for i := range c.Sigs {
		sigs = append(sigs, fmt.Sprintf("%x", u.Signature(c, i)))
	}
	keypers := []string{}
	if c.LastAnn() != "" {
		keypers = u.KeyperSet(c, t.Eon, c.LastAnn()).Keypers
	}
	return map[string]any{
		"instance": t.Instance, "eon": t.Eon, "slot": t.Slot, "tx_pointer": t.TxPtr, "identity_preimages": ids,
		"signer_indices": u.SignerIndices(c), "signatures": sigs, "keypers": keypers, "threshold": c.T, "announced": c.Ann, "eon_key": c.Key,
	}
}
