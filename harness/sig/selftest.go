package sig

import (
	"fmt"
)

// SelfTest shows on every run that the trace layer binds: three cases are run on the real code,
// then copies of the recorded lines are corrupted (one logged field each) and the whole lot is
// validated; SigRuleTrace must flag exactly the corrupted lines, with the expected monitor.
func (r *runner) SelfTest() error {
	u := r.us[0]
	genuine := Case{F: "gnosis", N: 2, T: 2, Signers: []int{0, 1}, Sigs: []Sig{{"ok", 0, ""}, {"ok", 1, ""}}, Mut: "", Ann: []string{"S"}, Key: "before"}
	forged := Case{F: "gnosis", N: 2, T: 2, Signers: []int{0, 1}, Sigs: []Sig{{"ok", 0, ""}, {"ok", 2, ""}}, Mut: "", Ann: []string{"S"}, Key: "before"}
	empty := Case{F: "service", N: 2, T: 2, Signers: []int{}, Sigs: []Sig{}, Mut: "", Ann: []string{"S"}, Key: "before"}
	tg := Targets{Fn: true}
	a, b, e := RunCase(u, &genuine, tg, nil, nil), RunCase(u, &forged, tg, nil, nil), RunCase(u, &empty, tg, nil, nil)
	if a.Obs[0].R != "accept" || b.Obs[0].R != "reject" || e.Obs[0].R != "accept" {
		// not a binding problem: the real code misbehaves on the simplest cases; the plans report it
		return nil
	}
	with := func(l Line, f func(*Line)) Line {
		c := l
		c.Obs = append([]Obs{}, l.Obs...)
		c.C.Sigs = append([]Sig{}, l.C.Sigs...)
		c.C.Signers = append([]int{}, l.C.Signers...)
		f(&c)
		return c
	}
	lines := []Line{
		a, b, e,
		with(a, func(l *Line) { l.Obs[0].R = "reject" }),                  // 4: verdict flipped
		with(b, func(l *Line) { l.Obs[0].R = "accept"; l.Obs[0].W = "" }), // 5: verdict flipped
		with(a, func(l *Line) { l.Obs[0].R = "panic" }),                   // 6
		with(a, func(l *Line) { l.C.Sigs[1].B = 0 }),                      // 7: ghost: second signature made by keyper 0
		with(a, func(l *Line) { l.C.Mut = "slot" }),                       // 8: ghost: slot changed after signing
		with(a, func(l *Line) { l.C.T = 1 }),                              // 9: threshold differs
		with(e, func(l *Line) { l.C.F = "gnosis" }),                       // 10: the empty exception is service only (t = 2)
		with(a, func(l *Line) { l.Obs[0].W = "count" }),                   // 11: reason only: drift, no violation
	}
	v, err := ValidateLines(lines, 0, 1, r.lenRule, r.jvm)
	if err != nil {
		return err
	}
	got := map[string]bool{}
	for _, f := range v.Findings {
		for i := range lines {
			if lines[i].C.CKey() == f.Line.C.CKey() && fmt.Sprint(lines[i].Obs) == fmt.Sprint(f.Line.Obs) {
				got[fmt.Sprintf("%d/%s", i+1, f.Monitor)] = true
			}
		}
	}
	want := []string{"4/C06_If", "5/C06_OnlyIf", "6/C06_NoPanic", "6/C06_If", "7/C06_OnlyIf", "8/C06_OnlyIf", "9/C06_OnlyIf", "10/C06_OnlyIf"}
	for _, w := range want {
		if !got[w] {
			return fmt.Errorf("binding self-test: corrupted line %s was not flagged (flagged: %v)", w, got)
		}
	}
	if len(got) != len(want) {
		return fmt.Errorf("binding self-test: unexpected monitor failures %v", got)
	}
	// lines 4, 5, 6, 11 record an outcome the code-shaped spec does not allow; 7..10 change the case so
	// that the recorded outcome is no longer the spec's: pass B must flag these eight and no other
	if len(v.Drift) != 8 {
		return fmt.Errorf("binding self-test: expected 8 drift lines, got %d", len(v.Drift))
	}
	return nil
}
