package sig

import (
	"context"
	"fmt"
	"sync"

	"github.com/jackc/pgx/v4/pgxpool"
	pubsub "github.com/libp2p/go-libp2p-pubsub"

	"github.com/shutter-network/rolling-shutter/rolling-shutter/keyperimpl/gnosis"
	"github.com/shutter-network/rolling-shutter/rolling-shutter/keyperimpl/shutterservice"
	"github.com/shutter-network/rolling-shutter/rolling-shutter/p2p"
	"github.com/shutter-network/rolling-shutter/rolling-shutter/p2pmsg"

	"verif/harness/core"
	"verif/harness/fakepg"
)

// KeyperEnv runs the full DecryptionKeysHandler pipelines of the keypers: ValidateMessage
// (which reads the keyper set of the message's eon from the database) and, when the message
// was accepted, HandleMessage (which stores the signatures).  The database is harness/fakepg
// behind a real pgxpool.Pool; one server per worker.
type KeyperEnv struct {
	free chan *kenv
	all  []*kenv
	mu   sync.Mutex
	lost int
}

type kenv struct {
	srv     *fakepg.Server
	pool    *pgxpool.Pool
	gnosis  p2p.MessageHandler
	service p2p.MessageHandler
}

// NewKeyperEnv starts the database doubles; on failure the pipeline layer is skipped and the
// note says why.
func NewKeyperEnv(c *core.Ctx) (*KeyperEnv, string) {
	k := &KeyperEnv{free: make(chan *kenv, c.Workers)}
	for i := 0; i < c.Workers; i++ {
		srv := fakepg.New()
		pool, err := srv.Pool(context.Background(), fakepg.MaxConns(2))
		if err != nil {
			k.Close()
			return nil, "not run: cannot open a pool on the database double: " + err.Error()
		}
		e := &kenv{srv: srv, pool: pool, gnosis: gnosis.VerifSigKeysHandler(pool), service: shutterservice.VerifSigKeysHandler(pool)}
		k.all = append(k.all, e)
		k.free <- e
	}
	return k, "run: keyper handlers ValidateMessage + HandleMessage over harness/fakepg (one in-process server per worker)"
}

func (k *KeyperEnv) Close() {
	if k == nil {
		return
	}
	for _, e := range k.all {
		e.pool.Close()
		e.srv.Close()
	}
}

// PinMismatches reports SQL statements of the repository that the database double does not
// implement as pinned (the pipeline results are then not trustworthy).
func (k *KeyperEnv) PinMismatches() []string {
	if k == nil {
		return nil
	}
	seen := map[string]bool{}
	out := []string{}
	for _, e := range k.all {
		for _, m := range e.srv.PinMismatches() {
			if !seen[m] {
				seen[m] = true
				out = append(out, m)
			}
		}
	}
	return out
}

// Run seeds the keyper set of the case under both eon values of the universe, empties the
// signature tables and runs the message through the flavour's keys handler.
func (k *KeyperEnv) Run(u *Universe, c *Case, msg *p2pmsg.DecryptionKeys) Obs {
	e := <-k.free
	e.srv.Update(func(db *fakepg.DB) {
		db.KeyperSet = db.KeyperSet[:0]
		// the observer upserts the keyper set row of an eon: the row of the message's eon holds the
		// last set announced for it (no announcement: no row); "O": a row for the other eon
		if last := c.LastAnn(); last != "" {
			db.KeyperSet = append(db.KeyperSet, *u.KeyperSet(c, msg.Eon, last))
		}
		for _, kind := range c.Ann {
			if kind == "O" {
				db.KeyperSet = append(db.KeyperSet, *u.KeyperSet(c, u.OtherEon(msg.Eon), "S"))
				break
			}
		}
		db.SlotDecryptionSignatures = nil
		db.DecryptionSignatures = nil
		db.TxPointer = nil
	})
	h := e.gnosis
	if c.F == "service" {
		h = e.service
	}
	o := guarded("keyper", func() (pubsub.ValidationResult, error) {
		ctx := context.Background()
		res, err := h.ValidateMessage(ctx, msg)
		if res != pubsub.ValidationAccept {
			return res, err
		}
		if _, herr := h.HandleMessage(ctx, msg); herr != nil {
			return res, fmt.Errorf("HandleMessage: %v", herr)
		}
		return res, err
	})
	if o.R == "hang" {
		// the goroutine may still be using the environment: do not hand it out again
		k.mu.Lock()
		k.lost++
		k.mu.Unlock()
		return o
	}
	k.free <- e
	return o
}
