package sig

import (
	"context"
	"fmt"
	"strings"
	"time"

	pubsub "github.com/libp2p/go-libp2p-pubsub"

	"github.com/shutter-network/rolling-shutter/rolling-shutter/gnosisaccessnode"
	"github.com/shutter-network/rolling-shutter/rolling-shutter/keyperimpl/gnosis"
	"github.com/shutter-network/rolling-shutter/rolling-shutter/keyperimpl/shutterservice"
	"github.com/shutter-network/rolling-shutter/rolling-shutter/p2pmsg"
)

// Obs is one observed verdict of one target.
type Obs struct {
	Tg string `json:"tg"` // fn | access | keyper
	R  string `json:"r"`  // accept | reject | ignore | panic | hang
	W  string `json:"w"`  // reason class
}

// Line is one trace line (a one-step trace).
type Line struct {
	C   Case  `json:"c"`
	U   int   `json:"u"`
	Obs []Obs `json:"obs"`
}

// Watchdog is the time after which a call into the repository counts as a hang.
var Watchdog = 30 * time.Second

// reasonClass maps the error text of the validation functions to the reason classes of
// SigRule.tla (pass B only; the verdict itself is what the monitors look at).
func reasonClass(err error) string {
	if err == nil {
		return ""
	}
	m := err.Error()
	switch {
	case strings.Contains(m, "one signature per signer"):
		return "siglen"
	case strings.Contains(m, "expected") && strings.Contains(m, "signers"):
		return "count"
	case strings.Contains(m, "duplicate signer index"):
		return "dup"
	case strings.Contains(m, "signer indices not ordered"):
		return "unordered"
	case strings.Contains(m, "signer index out of range"):
		return "range"
	case strings.Contains(m, "keyper index") && strings.Contains(m, "out of range"):
		return "subset"
	case strings.Contains(m, "no keyper set found") || strings.Contains(m, "failed to get keyper set"):
		return "noset"
	case strings.Contains(m, "no eon key found"):
		return "nokey"
	case strings.Contains(m, "failed to check"):
		return "sigerr"
	case strings.Contains(m, "signature invalid"):
		return "siginvalid"
	}
	if len(m) > 80 {
		m = m[:80]
	}
	return "other:" + m
}

func verdict(res pubsub.ValidationResult, err error) (string, string) {
	w := reasonClass(err)
	switch res {
	case pubsub.ValidationAccept:
		return "accept", w
	case pubsub.ValidationReject:
		return "reject", w
	case pubsub.ValidationIgnore:
		return "ignore", w
	}
	return fmt.Sprintf("result%d", int(res)), w
}

// guarded runs one call into the repository under recover and the watchdog.
func guarded(tg string, f func() (pubsub.ValidationResult, error)) Obs {
	done := make(chan Obs, 1)
	go func() {
		defer func() {
			if p := recover(); p != nil {
				m := fmt.Sprint(p)
				w := "other:" + m
				if strings.Contains(m, "index out of range") {
					w = "index"
				}
				if len(w) > 90 {
					w = w[:90]
				}
				done <- Obs{Tg: tg, R: "panic", W: w}
			}
		}()
		r, w := verdict(f())
		done <- Obs{Tg: tg, R: r, W: w}
	}()
	t := time.NewTimer(Watchdog)
	defer t.Stop()
	select {
	case o := <-done:
		return o
	case <-t.C:
		return Obs{Tg: tg, R: "hang", W: ""}
	}
}

// Targets selects what a case is run on.
type Targets struct {
	Fn       bool
	Access   bool
	Keyper   bool
	Assembly string // "" | "code" (registration order of the code) | "both" (also the reverse order)
}

// RunCase concretises the case in the universe and runs it on the selected targets.
func RunCase(u *Universe, c *Case, tg Targets, kp *KeyperEnv, as *AssemblyEnv) Line {
	line := Line{C: *c, U: u.ID, Obs: []Obs{}}
	msg := u.Message(c)
	if tg.Fn && c.LastAnn() != "" { // the bare functions are only ever called with the eon's keyper set
		ks := u.KeyperSet(c, msg.Eon, c.LastAnn())
		line.Obs = append(line.Obs, guarded("fn", func() (pubsub.ValidationResult, error) {
			if c.F == "gnosis" {
				return gnosis.ValidateDecryptionKeysSignatures(msg, msg.Extra.(*p2pmsg.DecryptionKeys_Gnosis).Gnosis, ks)
			}
			return shutterservice.ValidateDecryptionKeysSignatures(msg, msg.Extra.(*p2pmsg.DecryptionKeys_Service).Service, ks)
		}))
	}
	if tg.Access && c.F == "gnosis" && u.eon != nil {
		cfg := &gnosisaccessnode.Config{InstanceID: msg.InstanceId, MaxNumKeysPerMessage: 500}
		st := gnosisaccessnode.NewStorage()
		// the long-lived Storage is brought into the storage state of the case: eon key stored
		// before / after the keyper set announcements or not at all; announcements oldest first,
		// "O" for the universe's other eon
		other := u.OtherEon(msg.Eon)
		if c.Key == "before" {
			st.AddEonKey(msg.Eon, u.EonPublicKey())
		}
		st.AddEonKey(other, u.EonPublicKey())
		for _, kind := range c.Ann {
			if kind == "O" {
				st.AddKeyperSet(other, u.KeyperSet(c, other, "S"))
			} else {
				st.AddKeyperSet(msg.Eon, u.KeyperSet(c, msg.Eon, kind))
			}
		}
		if c.Key == "after" {
			st.AddEonKey(msg.Eon, u.EonPublicKey())
		}
		h := gnosisaccessnode.NewDecryptionKeysHandler(cfg, st)
		line.Obs = append(line.Obs, guarded("access", func() (pubsub.ValidationResult, error) {
			return h.ValidateMessage(context.Background(), msg)
		}))
	}
	if tg.Keyper && kp != nil {
		line.Obs = append(line.Obs, kp.Run(u, c, msg))
	}
	if tg.Assembly != "" && as != nil {
		orders := []string{"code"}
		if tg.Assembly == "both" {
			orders = append(orders, "rev")
		}
		line.Obs = append(line.Obs, as.Run(u, c, msg, orders)...)
	}
	return line
}
