package sig

import (
	"bufio"
	"context"
	"fmt"
	"os"
	"os/exec"
	"path/filepath"
	"regexp"
	"strconv"
	"strings"
	"time"

	"verif/harness/tlc"
)

// streamTLC is tlc.Run for runs that print millions of CASE lines: same scratch handling, same
// JVM arguments and the same interpretation of TLC's summary lines, but standard output is read
// line by line; lines of the form <<"CASE", "...">> are handed to onCase (payload still in
// TLA+ string syntax) instead of being kept in memory.
func streamTLC(o tlc.Opts, onCase func(raw string) error) (*tlc.Result, error) {
	dir, err := os.MkdirTemp(tlc.ScratchRoot(), "verif-tlc-")
	if err != nil {
		return nil, err
	}
	defer os.RemoveAll(dir)
	specs, _ := filepath.Glob(filepath.Join(tlc.SpecDir, "*.tla"))
	for _, f := range specs {
		b, err := os.ReadFile(f)
		if err != nil {
			return nil, err
		}
		if err := os.WriteFile(filepath.Join(dir, filepath.Base(f)), b, 0o644); err != nil {
			return nil, err
		}
	}
	for name, b := range o.Files {
		if err := os.WriteFile(filepath.Join(dir, name), b, 0o644); err != nil {
			return nil, err
		}
	}
	if err := os.WriteFile(filepath.Join(dir, o.Module+".cfg"), []byte(o.CfgText), 0o644); err != nil {
		return nil, err
	}
	if o.Workers <= 0 {
		o.Workers = 8
	}
	if o.Timeout <= 0 {
		o.Timeout = 10 * time.Minute
	}
	if o.HeapGB <= 0 {
		o.HeapGB = 8
	}
	args := []string{
		fmt.Sprintf("-Xmx%dg", o.HeapGB), "-Xss64m", "-XX:+UseParallelGC",
		"-cp", "/opt/veriftools/tla/tla2tools.jar:/opt/veriftools/tla/CommunityModules-deps.jar",
		"tlc2.TLC", "-metadir", filepath.Join(dir, "meta"), "-workers", strconv.Itoa(o.Workers),
		"-config", o.Module + ".cfg",
	}
	args = append(args, o.Extra...)
	args = append(args, o.Module+".tla")
	ctx, cancel := context.WithTimeout(context.Background(), o.Timeout)
	defer cancel()
	cmd := exec.CommandContext(ctx, "java", args...)
	cmd.Dir = dir
	stdout, err := cmd.StdoutPipe()
	if err != nil {
		return nil, err
	}
	cmd.Stderr = cmd.Stdout
	t0 := time.Now()
	if err := cmd.Start(); err != nil {
		return nil, err
	}
	res := &tlc.Result{Tagged: map[string][]string{}}
	reStates := regexp.MustCompile(`(\d+) states generated, (\d+) distinct states found`)
	reDepth := regexp.MustCompile(`The depth of the complete state graph search is (\d+)`)
	var other strings.Builder
	var cbErr error
	sc := bufio.NewScanner(stdout)
	sc.Buffer(make([]byte, 1<<20), 1<<28)
	const prefix = `<<"CASE", `
	for sc.Scan() {
		line := sc.Text()
		if strings.HasPrefix(line, prefix) && strings.HasSuffix(line, ">>") {
			if cbErr == nil {
				cbErr = onCase(line[len(prefix) : len(line)-2])
			}
			continue
		}
		if other.Len() < 1<<22 {
			other.WriteString(line)
			other.WriteByte('\n')
		}
		if m := reStates.FindStringSubmatch(line); m != nil {
			res.States, _ = strconv.Atoi(m[1])
			res.Distinct, _ = strconv.Atoi(m[2])
		}
		if m := reDepth.FindStringSubmatch(line); m != nil {
			res.Depth, _ = strconv.Atoi(m[1])
		}
		if strings.Contains(line, "Model checking completed") || strings.Contains(line, "Finished in") {
			res.Completed = true
		}
		isViol := strings.HasPrefix(line, "Error: Invariant ") || strings.HasPrefix(line, "Error: Action property ") ||
			strings.HasPrefix(line, "Error: Temporal properties") || strings.HasPrefix(line, "Error: Deadlock")
		if strings.HasPrefix(line, "Error:") && !isViol && !res.Violation && res.Errored == "" {
			res.Errored = line
		}
		if isViol {
			res.Violation = true
			res.ViolatedWhat = line
		}
	}
	res.ExitErr = cmd.Wait()
	res.Wall = time.Since(t0)
	res.Out = other.String()
	if ctx.Err() == context.DeadlineExceeded {
		res.TimedOut = true
	}
	if scErr := sc.Err(); scErr != nil && cbErr == nil {
		cbErr = scErr
	}
	return res, cbErr
}
