package sig

import (
	"encoding/json"
	"fmt"
	"hash/fnv"
	"os"
	"sort"
	"sync"
	"time"

	"github.com/rs/zerolog"

	"verif/harness/core"
	"verif/harness/ev"
)

func plansFor(thorough bool) []Plan {
	both := []string{"gnosis", "service"}
	plans := []Plan{
		// the access node verifies every decryption key (two pairings each) before it looks at the
		// signatures, which costs milliseconds per case: it gets the complete n = 1 domain, the
		// complete second pass for n <= 3 and a sample; the bare functions and the keyper
		// handlers get everything
		{Name: "base-n2", Domain: "base", Flavours: both, NSet: []int{2}, Emit: true, Heavy: true, Assembly: "code"},
		{Name: "base-n1", Domain: "base", Flavours: both, NSet: []int{1}, Emit: true, Access: true, History: true, Assembly: "both"},
		{Name: "mut-n12", Domain: "mut", Flavours: both, NSet: []int{1, 2}, Emit: true, Access: true, History: true, Assembly: "both"},
		{Name: "mut-n3", Domain: "mut", Flavours: both, NSet: []int{3}, Emit: true, Access: true, History: thorough, Assembly: "code"},
		{Name: "mut-n4", Domain: "mut", Flavours: both, NSet: []int{4}, Emit: true, Access: thorough},
	}
	if !thorough {
		plans = append(plans,
			Plan{Name: "sample-n234-access", Domain: "sample", Flavours: []string{"gnosis"}, NSet: []int{2, 3, 4}, Sample: 2500, Emit: true, Access: true, History: true},
			Plan{Name: "sample-n34", Domain: "sample", Flavours: both, NSet: []int{3, 4}, Sample: 20000, Emit: true, History: true, Assembly: "code"})
		return plans
	}
	// n = 3: complete enumeration on the bare functions, one TLC run per (flavour, threshold); they
	// run one after the other, most interesting thresholds first, and those that have not started
	// when the time budget of the tier is used up are skipped (and listed as skipped)
	for _, t := range []int{2, 3, 1, 4, 0} {
		for _, f := range both {
			plans = append(plans, Plan{Name: fmt.Sprintf("base-n3-%s-t%d", f, t), Domain: "base", Flavours: []string{f}, NSet: []int{3},
				TSel: []int{t}, Emit: true, NoKeyper: true, Heavy: true, Optional: true})
		}
	}
	plans = append(plans,
		Plan{Name: "sample-n234-access", Domain: "sample", Flavours: []string{"gnosis"}, NSet: []int{2, 3, 4}, Sample: 40000, Emit: true, Access: true, History: true},
		Plan{Name: "sample-n34", Domain: "sample", Flavours: both, NSet: []int{3, 4}, Sample: 150000, Emit: true, History: true, Assembly: "both"})
	return plans
}

func assumptions() []string {
	return []string{
		"TLC 1.8 and the Go toolchain are correct",
		"the concretiser harness/sig/universe.go is the trusted binding between signature tokens and real ECDSA signatures over real SSZ roots (go-ethereum secp256k1, fastssz as used by the repository's own types)",
		"abstract validity of cryptography: a signature made over other data or by another key never verifies for the listed keyper (collision/forgery probability is ignored); the code side never relies on it, it runs real recovery",
		"complete only inside the stated domain (keyper sets up to the enumerated n, two values per signed field); larger n is sampled",
		"all fields of the message other than signer list and signatures are well-formed by construction (extra present, slot/txptr in range, at least one key, eon known, for the access node valid ordered decryption keys)",
		"the keyper handlers run over harness/fakepg (hand-written semantics of the repository's SQL, pinned by hash)",
	}
}

// universeOf picks the universe of a case; smallEon: among the even-numbered ones (eon inside
// int32, needed by the assembly target).
func universeOf(cs *Case, nU int, smallEon bool) int {
	h := fnv.New32a()
	h.Write([]byte(cs.CKey()))
	if smallEon {
		return 2 * int(h.Sum32()%uint32((nU+1)/2))
	}
	return int(h.Sum32() % uint32(nU))
}

// runAll executes the cases on the real code with a pool of workers.
func runAll(workers int, cases []Case, us []*Universe, tg Targets, kp *KeyperEnv, as *AssemblyEnv) []Line {
	lines := make([]Line, len(cases))
	var wg sync.WaitGroup
	next := make(chan int, 1024)
	for w := 0; w < workers; w++ {
		wg.Add(1)
		go func() {
			defer wg.Done()
			for i := range next {
				lines[i] = RunCase(us[universeOf(&cases[i], len(us), tg.Assembly != "")], &cases[i], tg, kp, as)
			}
		}()
	}
	for i := range cases {
		next <- i
	}
	close(next)
	wg.Wait()
	return lines
}

// rel says how the two list lengths of the case compare (used by known-finding matchers).
func rel(cs *Case) string {
	switch {
	case len(cs.Sigs) < len(cs.Signers):
		return "fewer"
	case len(cs.Sigs) > len(cs.Signers):
		return "more"
	}
	return "equal"
}

// matchKnown returns the known finding that explains f, if any.  A matcher is a conjunction of
// the keys present: monitor, target, flavour, sigs_vs_signers (fewer|more|equal).
func matchKnown(known []core.Finding, f Finding) *core.Finding {
	for i := range known {
		m := known[i].Match
		if len(m) == 0 {
			continue
		}
		if v, ok := m["monitor"].(string); ok && v != f.Monitor {
			continue
		}
		if v, ok := m["target"].(string); ok && v != f.Target {
			continue
		}
		if v, ok := m["flavour"].(string); ok && v != f.Line.C.F {
			continue
		}
		if v, ok := m["sigs_vs_signers"].(string); ok && v != rel(&f.Line.C) {
			continue
		}
		return &known[i]
	}
	return nil
}

// ReplayFile is what a VIOLATION line points to.
type ReplayFile struct {
	Prop     string         `json:"prop"`
	Seed     int64          `json:"seed"`
	Universe int            `json:"universe"`
	Finding  Finding        `json:"finding"`
	Concrete map[string]any `json:"concrete"`
}

func obsOf(l *Line, tg string) Obs {
	for _, o := range l.Obs {
		if o.Tg == tg {
			return o
		}
	}
	return Obs{}
}

func nontrivial(l *Line) bool {
	for _, o := range l.Obs {
		if o.R == "accept" || o.R == "panic" || o.W == "sigerr" || o.W == "siginvalid" || o.W == "siglen" {
			return true
		}
	}
	return false
}

// planOutcome aggregates what one plan did.
type planOutcome struct {
	plan                 Plan
	gen                  *Gen
	err                  error
	mu                   sync.Mutex
	lines, chunks, clean int
	evals, nontriv       int
	perTarget, accepted  map[string]int
	findings             []Finding
	findingCount         int
	breakdown            map[string]int
	drift                []Finding
	driftCount           int
	samples              []any
	runDur, valDur       time.Duration
	start                time.Time
	wall                 time.Duration
	skipped              bool
}

type runner struct {
	c        *core.Ctx
	us       []*Universe
	kp       *KeyperEnv
	as       *AssemblyEnv
	lenRule  string
	jvm      chan struct{} // bounds the number of validation JVMs
	inflight chan struct{} // bounds the number of batches in memory
	deadline time.Time     // optional plans that have not started by then are skipped
	seenMu   sync.Mutex
	seen     map[uint64]bool // cases of sample plans (which may repeat cases of other plans)
	exhaustN map[string]bool // "flavour/n" covered by an exhaustive base plan in this run
}

func key64(cs *Case) uint64 {
	h := fnv.New64a()
	h.Write([]byte(cs.CKey()))
	return h.Sum64()
}

// countsAsNew decides whether a case contributes to distinct_nontrivial: cases of exhaustive
// plans are distinct by construction; sampled cases count once, and only when no exhaustive
// plan of this run covers their (flavour, n).
func (r *runner) countsAsNew(p *Plan, cs *Case) bool {
	if p.Domain != "sample" {
		return true
	}
	if cs.Mut == "" && r.exhaustN[fmt.Sprintf("%s/%d", cs.F, cs.N)] {
		return false
	}
	k := key64(cs)
	r.seenMu.Lock()
	defer r.seenMu.Unlock()
	if r.seen[k] {
		return false
	}
	r.seen[k] = true
	return true
}

// batch hands one batch of cases to a goroutine that runs them on the real code and validates
// the lines with TLC; at most cap(r.inflight) batches exist at a time (the caller, which is
// reading TLC's output, blocks until there is room).
func (r *runner) batch(po *planOutcome, cases []Case, wg *sync.WaitGroup) {
	r.inflight <- struct{}{}
	wg.Add(1)
	go func() {
		defer wg.Done()
		defer func() { <-r.inflight }()
		r.doBatch(po, cases)
	}()
}

func (r *runner) doBatch(po *planOutcome, cases []Case) {
	p := &po.plan
	tg := Targets{Fn: true, Access: p.Access, Keyper: r.kp != nil && !p.NoKeyper}
	if r.as != nil {
		tg.Assembly = p.Assembly
	}
	t0 := time.Now()
	lines := runAll(r.c.Workers, cases, r.us, tg, r.kp, r.as)
	runDur := time.Since(t0)
	evals, nontriv := 0, 0
	perTarget, accepted := map[string]int{}, map[string]int{}
	var samples []any
	for i := range lines {
		for _, o := range lines[i].Obs {
			evals++
			perTarget[o.Tg]++
			if o.R == "accept" {
				accepted[o.Tg]++
			}
		}
		if nontrivial(&lines[i]) && r.countsAsNew(p, &lines[i].C) {
			nontriv++
		}
	}
	if len(lines) > 0 {
		samples = append(samples, map[string]any{"plan": p.Name, "line": lines[len(lines)/2]})
		for i := range lines {
			if len(lines[i].Obs) > 0 && lines[i].Obs[0].R == "accept" && len(lines[i].C.Sigs) > 1 {
				samples = append(samples, map[string]any{"plan": p.Name, "line": lines[i], "concrete": r.us[lines[i].U].Describe(&lines[i].C)})
				break
			}
		}
	}
	po.mu.Lock()
	po.runDur += runDur
	po.evals += evals
	po.nontriv += nontriv
	for k, v := range perTarget {
		po.perTarget[k] += v
	}
	for k, v := range accepted {
		po.accepted[k] += v
	}
	if len(po.samples) < 3 {
		po.samples = append(po.samples, samples...)
	}
	po.mu.Unlock()

	t0 = time.Now()
	v, err := ValidateLines(lines, len(lines), 1, r.lenRule, r.jvm)
	po.mu.Lock()
	defer po.mu.Unlock()
	po.valDur += time.Since(t0)
	if err != nil {
		if po.err == nil {
			po.err = err
		}
		return
	}
	po.lines += v.Lines
	po.chunks += v.Chunks
	po.clean += v.Clean
	po.driftCount += len(v.Drift)
	for _, d := range v.Drift {
		if len(po.drift) < 10 {
			po.drift = append(po.drift, d)
		}
	}
	for _, f := range v.Findings {
		po.findingCount++
		po.breakdown[fmt.Sprintf("%s target=%s flavour=%s signatures-vs-signers=%s verdict=%s", f.Monitor, f.Target, f.Line.C.F, rel(&f.Line.C), obsOf(&f.Line, f.Target).R)]++
		// keep every finding a known-findings matcher could be asked about, but bound the memory
		if len(po.findings) < 200000 {
			po.findings = append(po.findings, f)
		}
	}
}

// runPlan generates the cases of the plan with TLC and pipes them, batch by batch, through
// the real code and the trace validation.
func (r *runner) runPlan(p Plan, fixed []Case) *planOutcome {
	po := &planOutcome{plan: p, perTarget: map[string]int{}, accepted: map[string]int{}, breakdown: map[string]int{}}
	po.start = time.Now()
	if p.Optional && !r.deadline.IsZero() && time.Now().After(r.deadline) {
		po.skipped = true
		return po
	}
	var wg sync.WaitGroup
	if fixed != nil {
		po.gen = &Gen{Plan: p, NumCases: len(fixed)}
		r.batch(po, fixed, &wg)
	} else {
		r.c.Logf("plan %s: TLC (%s, n in %v, t in %v, flavours %v)", p.Name, p.Domain, p.NSet, p.TSel, p.Flavours)
		batchSize := 40000
		if p.Heavy && r.c.Thorough() {
			batchSize = 120000
		}
		g, err := Generate(r.c, p, batchSize, func(cases []Case) { r.batch(po, cases, &wg) })
		po.gen = g
		if err != nil {
			po.err = err
		}
	}
	wg.Wait()
	po.wall = time.Since(po.start)
	if po.err == nil && po.gen != nil {
		r.c.Logf("plan %s: TLC %d distinct states, %d cases (%.1fs), design counterexample=%q; %d cases run on the real code (%.1fs), %d lines validated by TLC in %d chunks (%.1fs JVM time), %d monitor failures, %d drift; plan wall %.1fs",
			p.Name, po.gen.Distinct, po.gen.NumCases, po.gen.Wall, po.gen.SpecViol, po.lines, po.runDur.Seconds(), po.lines, po.chunks, po.valDur.Seconds(), po.findingCount, po.driftCount, po.wall.Seconds())
	}
	return po
}

// Check runs the check of C06.
func Check(c *core.Ctx) int {
	if c.Replay != "" {
		return Replay(c)
	}
	zerolog.SetGlobalLevel(zerolog.Disabled)  // the handlers log every message they are given
	lenRule := os.Getenv("VERIF_SIG_LENRULE") // "asfound": run the machinery with the code-shaped spec of the unrepaired code
	known := core.LoadKnown().For(c.Prop)
	nU := 4
	if c.Thorough() {
		nU = 12
	}
	us := make([]*Universe, nU)
	for i := range us {
		us[i] = NewUniverse(c.Seed, i, true)
	}
	kp, kpNote := NewKeyperEnv(c)
	defer kp.Close()
	as, asNote := NewAssemblyEnv(c)
	defer as.Close()
	r := &runner{c: c, us: us, kp: kp, as: as, lenRule: lenRule, jvm: make(chan struct{}, 8), inflight: make(chan struct{}, 10),
		seen: map[uint64]bool{}, exhaustN: map[string]bool{}}
	if c.Thorough() {
		r.deadline = c.Start.Add(18 * time.Minute)
	}
	plans := plansFor(c.Thorough())
	for _, p := range plans {
		if p.Domain == "base" { // also the optional ones: a conservative undercount when they are skipped
			for _, f := range p.Flavours {
				for _, n := range p.NSet {
					r.exhaustN[fmt.Sprintf("%s/%d", f, n)] = true
				}
			}
		}
	}
	// witnesses of known findings are replayed on every run
	var witnessCases []Case
	for _, kf := range known {
		for _, raw := range kf.Witness {
			var cs Case
			err := json.Unmarshal(raw, &cs)
			if cs.Ann == nil {
				cs.Ann = []string{"S"}
			}
			if cs.Key == "" {
				cs.Key = "before"
			}
			if err == nil && cs.wellFormed() == nil {
				witnessCases = append(witnessCases, cs)
			} else {
				c.Logf("known finding %s: unreadable witness", kf.ID)
			}
		}
	}
	outs := make([]*planOutcome, len(plans)+1)
	var wg sync.WaitGroup
	var selfErr error
	wg.Add(1)
	go func() {
		defer wg.Done()
		selfErr = r.SelfTest()
	}()
	if len(witnessCases) > 0 {
		wg.Add(1)
		go func() {
			defer wg.Done()
			outs[0] = r.runPlan(Plan{Name: "known-witnesses", Domain: "fixed", Access: true, Assembly: "both"}, witnessCases)
		}()
	}
	// light plans run concurrently; heavy plans one after the other, in the listed order
	wg.Add(1)
	go func() {
		defer wg.Done()
		for i, p := range plans {
			if p.Heavy {
				p.LenRule = lenRule
				outs[i+1] = r.runPlan(p, nil)
			}
		}
	}()
	for i, p := range plans {
		if p.Heavy {
			continue
		}
		p.LenRule = lenRule
		wg.Add(1)
		go func(i int, p Plan) {
			defer wg.Done()
			outs[i+1] = r.runPlan(p, nil)
		}(i, p)
	}
	wg.Wait()
	if selfErr != nil {
		fmt.Println("INCONCLUSIVE:", selfErr)
		return core.ExitInconclusive
	}

	var (
		states, trans, evals, clean, lines, chunks, nontriv, cases int
		samples                                                    []any
		planInfo                                                   []any
		specLeads                                                  []string
		violations, reported, driftCount                           int
		knownHits                                                  = map[string]int{}
		perTarget                                                  = map[string]int{}
		accepted                                                   = map[string]int{}
		breakdown                                                  = map[string]int{}
		skipped                                                    = []string{}
	)
	for _, po := range outs {
		if po == nil {
			continue
		}
		if po.skipped {
			fmt.Printf("NOTE plan %s skipped: the time budget of the tier was used up before it could start\n", po.plan.Name)
			skipped = append(skipped, po.plan.Name)
			continue
		}
		if po.err != nil {
			fmt.Printf("INCONCLUSIVE: plan %s: %v\n", po.plan.Name, po.err)
			return core.ExitInconclusive
		}
		g := po.gen
		if po.plan.Emit && g.NumCases == 0 {
			fmt.Printf("INCONCLUSIVE: plan %s generated nothing to replay\n", po.plan.Name)
			return core.ExitInconclusive
		}
		want := g.NumCases
		if g.SpecCex != nil {
			want++
		}
		if po.lines != want {
			fmt.Printf("INCONCLUSIVE: plan %s: %d cases generated but %d lines validated\n", po.plan.Name, want, po.lines)
			return core.ExitInconclusive
		}
		states += g.Distinct
		trans += g.States
		cases += g.NumCases
		lines += po.lines
		chunks += po.chunks
		clean += po.clean
		evals += po.evals
		nontriv += po.nontriv
		driftCount += po.driftCount
		for k, v := range po.perTarget {
			perTarget[k] += v
		}
		for k, v := range po.accepted {
			accepted[k] += v
		}
		if len(samples) < 14 {
			samples = append(samples, po.samples...)
		}
		if g.SpecViol != "" {
			specLeads = append(specLeads, po.plan.Name+": "+g.SpecViol)
		}
		planInfo = append(planInfo, map[string]any{"plan": po.plan.Name, "domain": po.plan.Domain, "n": po.plan.NSet, "t": po.plan.TSel, "flavours": po.plan.Flavours,
			"targets":             map[string]bool{"fn": true, "access": po.plan.Access, "keyper": kp != nil && !po.plan.NoKeyper, "assembly": as != nil && po.plan.Assembly != "", "assembly_rev": as != nil && po.plan.Assembly == "both"},
			"tlc_distinct_states": g.Distinct, "tlc_states_generated": g.States, "cases": g.NumCases, "tlc_wall_s": g.Wall,
			"run_s": po.runDur.Seconds(), "validation_jvm_s": po.valDur.Seconds(), "plan_wall_s": po.wall.Seconds(), "trace_lines": po.lines})
		for _, d := range po.drift {
			fmt.Printf("DRIFT plan=%s target=%s case=%s observed=%v (not an outcome of the code-shaped spec)\n", po.plan.Name, d.Target, d.Line.C.CKey(), d.Line.Obs)
		}
		unmatched := po.findingCount - len(po.findings) // beyond the memory bound: cannot be matched, count as violations
		violations += unmatched
		for _, f := range po.findings {
			if kf := matchKnown(known, f); kf != nil {
				knownHits[kf.ID]++
				continue
			}
			violations++
			if reported < 8 {
				u := us[f.Line.U]
				path := c.WriteReplay(fmt.Sprintf("%s-%d", po.plan.Name, reported), ReplayFile{Prop: c.Prop, Seed: c.Seed, Universe: f.Line.U, Finding: f, Concrete: u.Describe(&f.Line.C)})
				c.Violation(path, fmt.Sprintf("monitor %s failed on target %s: case %s observed %v", f.Monitor, f.Target, f.Line.C.CKey(), f.Line.Obs))
				reported++
			}
		}
		for k, v := range po.breakdown {
			breakdown[k] += v
		}
	}
	for _, kf := range known {
		if knownHits[kf.ID] > 0 {
			core.PrintKnown(kf)
		}
	}
	if pm := append(kp.PinMismatches(), as.PinMismatches()...); len(pm) > 0 {
		fmt.Printf("INCONCLUSIVE: the database double does not implement the repository's current SQL: %v\n", pm)
		return core.ExitInconclusive
	}
	if len(samples) == 0 {
		samples = append(samples, "nothing replayed")
	}
	variant := lenRule
	if variant == "" {
		variant = "equal"
	}
	cov := map[string]any{
		"states": states, "transitions": trans, "traces_validated_against_impl": clean,
		"samples": samples, "evaluations": evals, "distinct_nontrivial": nontriv,
		"cases": cases,
		"rule": "TLC (SigRuleMC) enumerates the abstract case domain (flavour, n, t, signer list, signature tokens, changed field): complete for the plans " +
			"of domain base/mut, drawn by TLC's Randomization for domain sample; every printed case is concretised with real keys/SSZ roots and run on the real " +
			"code (targets: fn = ValidateDecryptionKeysSignatures, access = access node ValidateMessage, keyper = keyper ValidateMessage then HandleMessage over the database double); " +
			"each (case, verdicts) line is a one-step trace validated by SigRuleTrace (pass A monitors, pass B conformance). evaluations = calls into repository code; " +
			"traces_validated_against_impl = lines on which no monitor failed; distinct_nontrivial = distinct abstract cases whose run got past the signer-list checks " +
			"(some target accepted, panicked, or rejected by the length rule / inside the signature loop); sampled cases are counted once and only for (flavour, n) not enumerated completely in the same run",
		"exhaustive":                true,
		"exhaustive_scope":          "plans of domain base and mut (see plans); plans of domain sample are random samples drawn by TLC",
		"plans":                     planInfo,
		"plans_skipped_time_budget": skipped,
		"calls_per_target":          perTarget,
		"accepted_per_target":       accepted,
		"trace_lines":               lines,
		"trace_chunks":              chunks,
		"drift_lines":               driftCount,
		"known_finding_hits":        knownHits,
		"design_counterexamples":    specLeads,
		"keyper_pipeline":           kpNote,
		"keyper_assembly":           asNote,
		"universes":                 nU,
		"code_shaped_spec_variant":  variant,
	}
	if err := ev.Write(ev.Evidence{PropertyID: c.Prop, Tier: c.Tier, Seed: c.Seed, Level: "model_checking", Coverage: cov,
		Assumptions: assumptions(), WallS: time.Since(c.Start).Seconds(), Violations: violations}); err != nil {
		fmt.Fprintln(os.Stderr, "cannot write evidence:", err)
	}
	if violations > 0 {
		fmt.Printf("  %d monitor failures in total (first %d listed); by kind:\n", violations, reported)
		kinds := []string{}
		for k := range breakdown {
			kinds = append(kinds, k)
		}
		sort.Strings(kinds)
		for _, k := range kinds {
			fmt.Printf("    %8d  %s\n", breakdown[k], k)
		}
		return core.ExitViolation
	}
	if len(specLeads) > 0 && len(knownHits) == 0 {
		for _, l := range specLeads {
			fmt.Println("MODEL-MISMATCH (design-level counterexample not reproduced on the code):", l)
		}
		return core.ExitInconclusive
	}
	if lines == 0 || evals == 0 {
		fmt.Println("INCONCLUSIVE: nothing replayed")
		return core.ExitInconclusive
	}
	fmt.Printf("OK property=%s tier=%s cases=%d calls=%d drift=%d\n", c.Prop, c.Tier, cases, evals, driftCount)
	return core.ExitOK
}

// Replay re-executes the case of a replay file on the real code and validates it again.
func Replay(c *core.Ctx) int {
	b, err := os.ReadFile(c.Replay)
	if err != nil {
		fmt.Println("INCONCLUSIVE:", err)
		return core.ExitInconclusive
	}
	var rf ReplayFile
	if err := json.Unmarshal(b, &rf); err != nil {
		fmt.Println("INCONCLUSIVE:", err)
		return core.ExitInconclusive
	}
	cs := rf.Finding.Line.C
	if cs.Signers == nil {
		cs.Signers = []int{}
	}
	if cs.Sigs == nil {
		cs.Sigs = []Sig{}
	}
	if cs.Ann == nil {
		cs.Ann = []string{"S"}
	}
	if cs.Key == "" {
		cs.Key = "before"
	}
	if err := cs.wellFormed(); err != nil {
		fmt.Println("INCONCLUSIVE: replay file:", err)
		return core.ExitInconclusive
	}
	zerolog.SetGlobalLevel(zerolog.Disabled)
	u := NewUniverse(rf.Seed, rf.Universe, true)
	kp, _ := NewKeyperEnv(c)
	defer kp.Close()
	as, _ := NewAssemblyEnv(c)
	defer as.Close()
	tgs := Targets{Fn: true, Access: true, Keyper: kp != nil}
	if as != nil && rf.Universe%2 == 0 {
		tgs.Assembly = "both"
	}
	line := RunCase(u, &cs, tgs, kp, as)
	out, _ := json.Marshal(line)
	fmt.Println(string(out))
	d, _ := json.MarshalIndent(u.Describe(&cs), "", " ")
	fmt.Println(string(d))
	v, err := ValidateLines([]Line{line}, 0, 1, os.Getenv("VERIF_SIG_LENRULE"), nil)
	if err != nil {
		fmt.Println("INCONCLUSIVE:", err)
		return core.ExitInconclusive
	}
	for _, f := range v.Findings {
		fmt.Printf("monitor %s fails on target %s\n", f.Monitor, f.Target)
	}
	for _, f := range v.Findings {
		if f.Monitor == rf.Finding.Monitor && f.Target == rf.Finding.Target {
			c.Violation(c.Replay, "reproduced "+f.Monitor+" on target "+f.Target)
			return core.ExitViolation
		}
	}
	fmt.Println("not reproduced")
	return core.ExitOK
}
