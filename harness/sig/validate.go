package sig

import (
	"bytes"
	"encoding/json"
	"fmt"
	"sync"
	"time"

	"verif/harness/tlc"
)

const trModule = "TRgen_SigRule"

var trBody = []byte("---- MODULE " + trModule + " ----\nEXTENDS SigRuleTrace\n====\n")

// VResult is the RESULT record printed by SigRuleTrace.
type VResult struct {
	Lines int     `json:"lines"`
	Viol  [][]any `json:"viol"`  // <<line, target, monitor>>
	Drift [][]any `json:"drift"` // <<line, target>>
}

// Finding is one monitor failure on one observed verdict.
type Finding struct {
	Monitor string `json:"monitor"`
	Target  string `json:"target"`
	Line    Line   `json:"line"`
}

// ValidateTrace runs pass A + pass B of SigRuleTrace on one chunk of trace lines.
func ValidateTrace(trace []byte, lenRule string) (*VResult, *tlc.Result, error) {
	if lenRule == "" {
		lenRule = "equal"
	}
	cfg := fmt.Sprintf("CONSTANTS\n  LenRule = %q\n  StoreRule = \"last\"\n  MissRule = \"reject\"\n  RegRule = \"append\"\n  TraceFile = \"trace.ndjson\"\n  Block = 250\nSPECIFICATION TSpec\nINVARIANT Done\nCHECK_DEADLOCK FALSE\n", lenRule)
	res, err := tlc.Run(tlc.Opts{
		Module: trModule, CfgText: cfg, Workers: 1, Timeout: 30 * time.Minute, HeapGB: 5,
		Files: map[string][]byte{trModule + ".tla": trBody, "trace.ndjson": trace},
	})
	if err != nil {
		return nil, res, err
	}
	if res.Errored != "" || res.Violation {
		return nil, res, fmt.Errorf("TLC error during trace validation: %s %s\n%s", res.Errored, res.ViolatedWhat, res.Tail(30))
	}
	var vr VResult
	if err := res.TaggedJSON("RESULT", &vr); err != nil {
		return nil, res, fmt.Errorf("trace validation did not reach the end of the trace: %v\n%s", err, res.Tail(30))
	}
	return &vr, res, nil
}

// Validated is the outcome of validating a set of lines.
type Validated struct {
	Lines    int
	Chunks   int
	Findings []Finding
	Drift    []Finding // Monitor empty
	Clean    int       // lines without any monitor failure
}

// ValidateLines splits the lines into chunks, validates the chunks with TLC (a bounded number
// of JVMs at a time; jvm, when given, is a semaphore shared with other callers) and maps the
// reported line numbers back to the lines.
func ValidateLines(lines []Line, chunkSize, parallel int, lenRule string, jvm chan struct{}) (*Validated, error) {
	if chunkSize <= 0 {
		chunkSize = 40000
	}
	if parallel <= 0 {
		parallel = 6
	}
	type chunk struct{ lo, hi int }
	var chunks []chunk
	for lo := 0; lo < len(lines); lo += chunkSize {
		hi := lo + chunkSize
		if hi > len(lines) {
			hi = len(lines)
		}
		chunks = append(chunks, chunk{lo, hi})
	}
	results := make([]*VResult, len(chunks))
	errs := make([]error, len(chunks))
	sem := make(chan struct{}, parallel)
	var wg sync.WaitGroup
	for i := range chunks {
		wg.Add(1)
		go func(i int) {
			defer wg.Done()
			sem <- struct{}{}
			defer func() { <-sem }()
			if jvm != nil {
				jvm <- struct{}{}
				defer func() { <-jvm }()
			}
			var buf bytes.Buffer
			enc := json.NewEncoder(&buf)
			for _, l := range lines[chunks[i].lo:chunks[i].hi] {
				if err := enc.Encode(l); err != nil {
					errs[i] = err
					return
				}
			}
			vr, _, err := ValidateTrace(buf.Bytes(), lenRule)
			results[i], errs[i] = vr, err
		}(i)
	}
	wg.Wait()
	out := &Validated{Chunks: len(chunks)}
	for i, vr := range results {
		if errs[i] != nil {
			return nil, fmt.Errorf("chunk %d: %v", i, errs[i])
		}
		n := chunks[i].hi - chunks[i].lo
		if vr.Lines != n {
			return nil, fmt.Errorf("chunk %d: TLC read %d lines, %d were written", i, vr.Lines, n)
		}
		out.Lines += vr.Lines
		bad := map[int]bool{}
		at := func(v []any) (Line, string, bool) {
			if len(v) < 2 {
				return Line{}, "", false
			}
			ln, ok1 := v[0].(float64)
			tg, ok2 := v[1].(string)
			k := int(ln) - 1
			if !ok1 || !ok2 || k < 0 || k >= n {
				return Line{}, "", false
			}
			return lines[chunks[i].lo+k], tg, true
		}
		for _, v := range vr.Viol {
			l, tg, ok := at(v)
			if !ok || len(v) != 3 {
				return nil, fmt.Errorf("chunk %d: unreadable viol entry %v", i, v)
			}
			mon, _ := v[2].(string)
			bad[int(v[0].(float64))] = true
			out.Findings = append(out.Findings, Finding{Monitor: mon, Target: tg, Line: l})
		}
		for _, v := range vr.Drift {
			l, tg, ok := at(v)
			if !ok {
				return nil, fmt.Errorf("chunk %d: unreadable drift entry %v", i, v)
			}
			out.Drift = append(out.Drift, Finding{Target: tg, Line: l})
		}
		out.Clean += n - len(bad)
	}
	return out, nil
}
