// Package ev writes /verif/evidence/<id>.json.
package ev

import (
	"encoding/json"
	"os"
	"path/filepath"
)

type Evidence struct {
	PropertyID  string         `json:"property_id"`
	Tier        string         `json:"tier"`
	Seed        int64          `json:"seed"`
	Level       string         `json:"level"`
	Coverage    map[string]any `json:"coverage"`
	Assumptions []string       `json:"assumptions"`
	WallS       float64        `json:"wall_s"`
	Violations  int            `json:"violations"`
}

func Write(e Evidence) error {
	dir := "/verif/evidence"
	if err := os.MkdirAll(dir, 0o755); err != nil {
		return err
	}
	b, err := json.MarshalIndent(e, "", " ")
	if err != nil {
		return err
	}
	return os.WriteFile(filepath.Join(dir, e.PropertyID+".json"), append(b, '\n'), 0o644)
}
