package gossip

import (
	"context"
	"crypto/ecdsa"
	"database/sql"
	"fmt"
	"strings"
	"time"

	"github.com/ethereum/go-ethereum/common"
	ethcrypto "github.com/ethereum/go-ethereum/crypto"
	"github.com/jackc/pgx/v4/pgxpool"
	pubsub "github.com/libp2p/go-libp2p-pubsub"

	obskeyper "github.com/shutter-network/rolling-shutter/rolling-shutter/chainobserver/db/keyper"
	kprdb "github.com/shutter-network/rolling-shutter/rolling-shutter/keyper/database"
	"github.com/shutter-network/rolling-shutter/rolling-shutter/shdb"
	"github.com/shutter-network/shutter/shlib/shcrypto"

	"verif/harness/fakepg"
)

// Fixed chain facts of the seeded databases. The keyper config index (the "eon" field of the
// p2p messages) deliberately differs from the DKG eon number so that a mix-up is visible.
const (
	InstanceID      = uint64(42)
	KeyperConfigIdx = int64(3)
	ActivationBlock = int64(10)
	MaxKeysPerMsg   = uint64(16)
)

// coreConfig implements epochkghandler.Config.
type coreConfig struct{ addr common.Address }

func (c coreConfig) GetAddress() common.Address      { return c.addr }
func (c coreConfig) GetInstanceID() uint64           { return InstanceID }
func (c coreConfig) GetMaxNumKeysPerMessage() uint64 { return MaxKeysPerMsg }

// KeyperKeys returns deterministic ECDSA keys for the n keypers of a world.
func KeyperKeys(n int, seed int64) []*ecdsa.PrivateKey {
	var out []*ecdsa.PrivateKey
	for i := 0; i < n; i++ {
		k, err := ecdsa.GenerateKey(ethcrypto.S256(), newDetReader(fmt.Sprintf("keyper-ecdsa-%d-%d-%d", n, i, seed)))
		if err != nil {
			panic(err)
		}
		out = append(out, k)
	}
	return out
}

func addrsOf(keys []*ecdsa.PrivateKey) []common.Address {
	var out []common.Address
	for _, k := range keys {
		out = append(out, ethcrypto.PubkeyToAddress(k.PublicKey))
	}
	return out
}

// SeedCore writes, through the repository's own queries, what a keyper with index k knows after a
// successful DKG: batch config / keyper set, eon, DKG result (shdb.EncodePureDKGResult of
// World.PureResult(k)).
func SeedCore(ctx context.Context, pool *pgxpool.Pool, w *World, addrs []common.Address, k int) error {
	q := kprdb.New(pool)
	if err := q.InsertBatchConfig(ctx, kprdb.InsertBatchConfigParams{
		KeyperConfigIndex: int32(KeyperConfigIdx), Height: 5, Keypers: shdb.EncodeAddresses(addrs), Threshold: int32(w.T),
		Started: true, ActivationBlockNumber: ActivationBlock,
	}); err != nil {
		return err
	}
	if err := q.InsertEon(ctx, kprdb.InsertEonParams{Eon: int64(w.Eon), Height: 6, ActivationBlockNumber: ActivationBlock, KeyperConfigIndex: KeyperConfigIdx}); err != nil {
		return err
	}
	pure, err := shdb.EncodePureDKGResult(w.PureResult(k))
	if err != nil {
		return err
	}
	if err := q.InsertDKGResult(ctx, kprdb.InsertDKGResultParams{Eon: int64(w.Eon), Success: true, Error: sql.NullString{}, PureResult: pure}); err != nil {
		return err
	}
	return obskeyper.New(pool).InsertKeyperSet(ctx, obskeyper.InsertKeyperSetParams{
		KeyperConfigIndex: KeyperConfigIdx, ActivationBlockNumber: ActivationBlock, Keypers: shdb.EncodeAddresses(addrs), Threshold: int32(w.T),
	})
}

func verdictName(v pubsub.ValidationResult) string {
	switch v {
	case pubsub.ValidationAccept:
		return "accept"
	case pubsub.ValidationReject:
		return "reject"
	case pubsub.ValidationIgnore:
		return "ignore"
	}
	return fmt.Sprintf("unknown-%d", int(v))
}

// guard runs f under recover and a watchdog.
func guard(limit time.Duration, f func()) (panicked string) {
	done := make(chan string, 1)
	go func() {
		defer func() {
			if p := recover(); p != nil {
				done <- "panic: " + fmt.Sprint(p)
				return
			}
			done <- ""
		}()
		f()
	}()
	select {
	case s := <-done:
		return s
	case <-time.After(limit):
		return "hang: no return within " + limit.String()
	}
}

// idName maps identity bytes back to the abstract identity name ("?" if unknown).
func (w *World) idName(b []byte) string {
	for id, ib := range w.idBytes {
		if string(ib) == string(b) {
			return id
		}
	}
	return "?"
}

// shareKind classifies stored share bytes by comparison with the concretiser's classes.
func (w *World) shareKind(sender int, id string, raw []byte, kinds []string) string {
	if sender < 0 || sender >= w.N {
		return "alien"
	}
	for _, k := range kinds {
		if string(w.Share(sender, id, k).Marshal()) == string(raw) {
			return k
		}
	}
	// "swap" inside a message: the sender's valid share for another identity of the world
	for o := range w.idBytes {
		if o != id && string(w.Keys.EpochSecretKeyShare(w.Identity(o), sender).Marshal()) == string(raw) {
			return "swap"
		}
	}
	return "unknown"
}

func (w *World) judgeBytes(id string, raw []byte) string {
	key := new(shcrypto.EpochSecretKey)
	if err := key.Unmarshal(raw); err != nil {
		return "bad"
	}
	return w.Judge(id, key)
}

// coreTables projects decryption_key_share / decryption_key of one database.
func coreTables(s *fakepg.Server, w *World, idents, kinds []string) (shareTab map[string]any, keyTab map[string]any) {
	shareTab, keyTab = map[string]any{}, map[string]any{}
	rows := map[string][]map[string]any{}
	for _, id := range idents {
		rows[id] = []map[string]any{}
		keyTab[id] = "none"
	}
	s.View(func(db *fakepg.DB) {
		for _, r := range db.DecryptionKeyShare {
			id := w.idName(r.EpochID)
			if r.Eon != KeyperConfigIdx || id == "?" {
				rows[idents[0]] = append(rows[idents[0]], map[string]any{"s": int(r.KeyperIndex), "kind": "alien"})
				continue
			}
			rows[id] = append(rows[id], map[string]any{"s": int(r.KeyperIndex), "kind": w.shareKind(int(r.KeyperIndex), id, r.DecryptionKeyShare, kinds)})
		}
		for _, r := range db.DecryptionKey {
			id := w.idName(r.EpochID)
			if r.Eon != KeyperConfigIdx || id == "?" {
				keyTab[idents[0]] = "alien"
				continue
			}
			keyTab[id] = w.judgeBytes(id, r.DecryptionKey)
		}
	})
	for id, l := range rows {
		shareTab[id] = l
	}
	return shareTab, keyTab
}

func classify(err error, table [][2]string) string {
	if err == nil {
		return ""
	}
	for _, p := range table {
		if strings.Contains(err.Error(), p[0]) {
			return p[1]
		}
	}
	return "other:" + err.Error()
}
