package gossip

import (
	"context"
	"crypto/ecdsa"
	"database/sql"
	"fmt"
	"sort"
	"strings"
	"time"

	"github.com/ethereum/go-ethereum/common"
	"github.com/jackc/pgx/v4/pgxpool"
	pubsub "github.com/libp2p/go-libp2p-pubsub"
	pubsubpb "github.com/libp2p/go-libp2p-pubsub/pb"
	"github.com/libp2p/go-libp2p/core/peer"

	obskeyper "github.com/shutter-network/rolling-shutter/rolling-shutter/chainobserver/db/keyper"
	"github.com/shutter-network/rolling-shutter/rolling-shutter/gnosisaccessnode"
	"github.com/shutter-network/rolling-shutter/rolling-shutter/keyper/epochkghandler"
	"github.com/shutter-network/rolling-shutter/rolling-shutter/keyperimpl/gnosis"
	gnosisdb "github.com/shutter-network/rolling-shutter/rolling-shutter/keyperimpl/gnosis/database"
	"github.com/shutter-network/rolling-shutter/rolling-shutter/keyperimpl/shutterservice"
	"github.com/shutter-network/rolling-shutter/rolling-shutter/medley/broker"
	"github.com/shutter-network/rolling-shutter/rolling-shutter/medley/configuration"
	"github.com/shutter-network/rolling-shutter/rolling-shutter/medley/encodeable/keys"
	"github.com/shutter-network/rolling-shutter/rolling-shutter/medley/identitypreimage"
	"github.com/shutter-network/rolling-shutter/rolling-shutter/medley/retry"
	"github.com/shutter-network/rolling-shutter/rolling-shutter/medley/service"
	"github.com/shutter-network/rolling-shutter/rolling-shutter/p2p"
	"github.com/shutter-network/rolling-shutter/rolling-shutter/p2pmsg"
	"github.com/shutter-network/rolling-shutter/rolling-shutter/shdb"

	"verif/harness/fakepg"
)

// Gnosis slot facts of the one decryption trigger all nodes answer.
const (
	gSlot      = int64(100)
	gTxPointer = int64(5)
)

// absMsg is a message of specs/Gossip.tla.
type absMsg struct {
	T       string `json:"t"`
	From    int    `json:"from"`
	R       int    `json:"r"` // round whose identity list the message carries (1-based; 0 = none of them)
	X       int    `json:"x"` // round the flavour extra was made for (0 = no extra)
	Signers []int  `json:"signers"`
}

func (a absMsg) key() string { return fmt.Sprintf("%s/%d/%d/%d/%v", a.T, a.From, a.R, a.X, a.Signers) }

type prodObs struct {
	M   absMsg `json:"m"`
	Own string `json:"own"`
	An  string `json:"an"`
}

type packet struct {
	abs   absMsg
	from  int
	dest  int
	topic string
	data  []byte
}

func (p *packet) pubsubMessage() *pubsub.Message {
	topic := p.topic
	pid := peer.ID(fmt.Sprintf("sim-node-%d", p.from))
	return &pubsub.Message{Message: &pubsubpb.Message{From: []byte(pid), Data: p.data, Topic: &topic}, ReceivedFrom: pid}
}

// goRunner is the minimal service.Runner the KeyShareHandler service needs.
type goRunner struct{ ctx context.Context }

func (r goRunner) Go(f func() error) { go func() { _ = f() }() }
func (r goRunner) Defer(func())      {}
func (r goRunner) StartService(s ...service.Service) error {
	for _, x := range s {
		if err := x.Start(r.ctx, r); err != nil {
			return err
		}
	}
	return nil
}

// simMessaging implements p2p.Messaging for one node: the registries are those of a real
// P2PMessaging; SendMessage is what P2PMessaging.SendMessage + libp2p do for a publish: marshal,
// validate locally with the node's own combined topic validator, hand one copy to every peer.
type simMessaging struct {
	net  *simNet
	idx  int
	real *p2p.P2PMessaging
}

func (s *simMessaging) Start(context.Context, service.Runner) error { return nil }
func (s *simMessaging) AddValidator(v p2p.ValidatorFunc, protos ...p2pmsg.Message) {
	s.real.AddValidator(v, protos...)
}
func (s *simMessaging) AddMessageHandler(mhs ...p2p.MessageHandler) { s.real.AddMessageHandler(mhs...) }
func (s *simMessaging) SendMessage(ctx context.Context, msg p2pmsg.Message, _ ...retry.Option) error {
	return s.net.publish(ctx, s.idx, msg)
}

type simNode struct {
	idx   int
	srv   *fakepg.Server
	pool  *pgxpool.Pool
	raw   *simMessaging
	top   p2p.Messaging // what the keyper core sees (flavour middleware or raw)
	ksh   *epochkghandler.KeyShareHandler
	trigC chan *broker.Event[*epochkghandler.DecryptionTrigger]
}

type simNet struct {
	flavour  string
	w        *World
	rounds   [][]string // identity list of every trigger round, in wire order
	idents   []string   // union of the rounds, first appearance order
	kinds    []string
	keys     []*ecdsa.PrivateKey
	addrs    []common.Address
	nodes    []*simNode
	an       *p2p.P2PMessaging // the gnosis access node's registries
	inflight []*packet
	prod     []prodObs // messages produced during the current step
	idHash   [][]byte  // identities hash of round r at index r-1
	ctx      context.Context
	cancel   context.CancelFunc
}

func (n *simNet) identities(r int) []identitypreimage.IdentityPreimage {
	var l []identitypreimage.IdentityPreimage
	for _, id := range n.rounds[r-1] {
		l = append(l, n.w.Identity(id))
	}
	return l
}

// roundOf returns the round whose identity list is exactly ids (0 if none).
func (n *simNet) roundOf(ids [][]byte) int {
	for r, l := range n.rounds {
		if len(l) != len(ids) {
			continue
		}
		same := true
		for k, id := range l {
			if string(n.w.Identity(id)) != string(ids[k]) {
				same = false
			}
		}
		if same {
			return r + 1
		}
	}
	return 0
}

func (n *simNet) roundOfSlot(slot uint64) int {
	r := int(int64(slot) - gSlot + 1)
	if r < 1 || r > len(n.rounds) {
		return 99
	}
	return r
}

func (n *simNet) roundOfHash(h []byte) int {
	for r, x := range n.idHash {
		if string(x) == string(h) {
			return r + 1
		}
	}
	return 0
}

func newSimNet(flavour string, nn, t int, rounds [][]string, seed int64) (*simNet, error) {
	var idents []string
	seen := map[string]bool{}
	for _, l := range rounds {
		for _, id := range l {
			if !seen[id] {
				seen[id] = true
				idents = append(idents, id)
			}
		}
	}
	ctx, cancel := context.WithCancel(context.Background())
	idLen := map[string]int{"core": 0, "gnosis": 52, "service": 32}[flavour]
	n := &simNet{flavour: flavour, w: NewWorldIDLen(nn, t, idents, seed, idLen), rounds: rounds, idents: idents, kinds: []string{"valid"}, ctx: ctx, cancel: cancel}
	n.keys = KeyperKeys(nn, seed)
	n.addrs = addrsOf(n.keys)
	for r := range rounds {
		switch flavour {
		case "gnosis":
			n.idHash = append(n.idHash, gnosis.VerifGossipIdentitiesHash(n.identities(r+1)))
		case "service":
			n.idHash = append(n.idHash, shutterservice.VerifGossipIdentitiesHash(n.identities(r+1)))
		default:
			n.idHash = append(n.idHash, nil)
		}
	}
	for i := 0; i < nn; i++ {
		nd, err := n.newNode(i)
		if err != nil {
			n.close()
			return nil, err
		}
		n.nodes = append(n.nodes, nd)
	}
	if flavour == "gnosis" {
		storage := gnosisaccessnode.NewStorage()
		storage.AddEonKey(uint64(KeyperConfigIdx), n.w.Keys.EonPublicKey())
		storage.AddKeyperSet(uint64(KeyperConfigIdx), &obskeyper.KeyperSet{KeyperConfigIndex: KeyperConfigIdx, ActivationBlockNumber: ActivationBlock,
			Keypers: shdb.EncodeAddresses(n.addrs), Threshold: int32(t)})
		n.an = p2p.VerifGossipvalNewMessaging()
		n.an.AddMessageHandler(gnosisaccessnode.NewDecryptionKeysHandler(&gnosisaccessnode.Config{InstanceID: InstanceID, MaxNumKeysPerMessage: MaxKeysPerMsg}, storage))
	}
	return n, nil
}

func (n *simNet) close() {
	for _, nd := range n.nodes {
		nd.pool.Close()
		nd.srv.Close()
	}
	n.cancel()
}

// newNode assembles node i the way keyperimpl/<flavour>/keyper.go and keyper/keyper.go do:
// flavour handlers on the raw messaging, then the middleware, then the core handlers and the
// KeyShareHandler service on the middleware.
func (n *simNet) newNode(i int) (*simNode, error) {
	srv := fakepg.New()
	srv.SetLogging(false)
	pool, err := srv.Pool(n.ctx)
	if err != nil {
		return nil, err
	}
	nd := &simNode{idx: i, srv: srv, pool: pool}
	if err := SeedCore(n.ctx, pool, n.w, n.addrs, i); err != nil {
		return nil, err
	}
	nd.raw = &simMessaging{net: n, idx: i, real: p2p.VerifGossipvalNewMessaging()}
	nd.top = nd.raw
	switch n.flavour {
	case "gnosis":
		if err := gnosisdb.New(pool).SetTxPointer(n.ctx, gnosisdb.SetTxPointerParams{Eon: KeyperConfigIdx, Age: sql.NullInt64{Int64: 3, Valid: true}, Value: gTxPointer}); err != nil {
			return nil, err
		}
		cfg := &gnosis.Config{InstanceID: InstanceID, MaxNumKeysPerMessage: MaxKeysPerMsg, Gnosis: &gnosis.GnosisConfig{
			Node:           &configuration.EthnodeConfig{PrivateKey: &keys.ECDSAPrivate{Key: n.keys[i]}},
			SecondsPerSlot: 5, GenesisSlotTimestamp: uint64(time.Now().Unix()) - 600, MaxTxPointerAge: 10,
		}}
		hs, hk := gnosis.VerifGnosisSlotHandlers(pool)
		nd.raw.AddMessageHandler(hs)
		nd.raw.AddMessageHandler(hk)
		nd.top = gnosis.NewMessagingMiddleware(nd.raw, pool, cfg)
	case "service":
		cfg := &shutterservice.Config{InstanceID: InstanceID, MaxNumKeysPerMessage: MaxKeysPerMsg, Chain: &shutterservice.ChainConfig{
			Node: &configuration.EthnodeConfig{PrivateKey: &keys.ECDSAPrivate{Key: n.keys[i]}},
		}}
		hs, hk := shutterservice.VerifGossipvalHandlers(pool)
		nd.raw.AddMessageHandler(hs)
		nd.raw.AddMessageHandler(hk)
		nd.top = shutterservice.NewMessagingMiddleware(nd.raw, pool, cfg)
	}
	cc := coreConfig{addr: n.addrs[i]}
	// keyper.KeyperCore.Start: key handler, key share handler (the eon public key handler is on
	// another topic)
	nd.top.AddMessageHandler(
		epochkghandler.NewDecryptionKeyHandler(cc, pool),
		epochkghandler.NewDecryptionKeyShareHandler(cc, pool),
	)
	nd.trigC = make(chan *broker.Event[*epochkghandler.DecryptionTrigger])
	nd.ksh = &epochkghandler.KeyShareHandler{InstanceID: InstanceID, KeyperAddress: n.addrs[i], MaxNumKeysPerMessage: MaxKeysPerMsg,
		DBPool: pool, Messaging: nd.top, Trigger: nd.trigC}
	if err := nd.ksh.Start(n.ctx, goRunner{n.ctx}); err != nil {
		return nil, err
	}
	return nd, nil
}

// abstract maps a real message to the message of the spec.
func (n *simNet) abstract(from int, msg p2pmsg.Message) absMsg {
	a := absMsg{From: from, Signers: []int{}}
	switch m := msg.(type) {
	case *p2pmsg.DecryptionKeyShares:
		a.T = "shares"
		var ids [][]byte
		for _, sh := range m.Shares {
			ids = append(ids, sh.IdentityPreimage)
		}
		a.R = n.roundOf(ids)
		if int(m.KeyperIndex) != from {
			a.T = "shares?"
		}
		switch e := m.Extra.(type) {
		case *p2pmsg.DecryptionKeyShares_Gnosis:
			a.X = n.roundOfSlot(e.Gnosis.GetSlot())
		case *p2pmsg.DecryptionKeyShares_Service:
			a.X = a.R // the signature is over the identities of the message
		}
	case *p2pmsg.DecryptionKeys:
		a.T = "keys"
		var ids [][]byte
		for _, k := range m.Keys {
			ids = append(ids, k.IdentityPreimage)
		}
		a.R = n.roundOf(ids)
		var idx []uint64
		switch e := m.Extra.(type) {
		case *p2pmsg.DecryptionKeys_Gnosis:
			idx = e.Gnosis.GetSignerIndices()
			a.X = n.roundOfSlot(e.Gnosis.GetSlot())
		case *p2pmsg.DecryptionKeys_Service:
			idx = e.Service.GetSignerIndices()
			a.X = a.R // the signatures are selected by the identities hash of the keys
		}
		for _, s := range idx {
			a.Signers = append(a.Signers, int(s))
		}
	default:
		a.T = fmt.Sprintf("%T", msg)
	}
	return a
}

// publish is the raw SendMessage of node i.
func (n *simNet) publish(ctx context.Context, i int, msg p2pmsg.Message) error {
	data, err := p2pmsg.Marshal(msg, nil)
	if err != nil {
		return err
	}
	pk := &packet{abs: n.abstract(i, msg), from: i, topic: msg.Topic(), data: data}
	obs := prodObs{M: pk.abs, An: "-"}
	// libp2p validates a local publish with the node's own topic validators
	pm := pk.pubsubMessage()
	own := n.nodes[i].raw.real.VerifGossipvalCombinedValidator(pk.topic)(ctx, pm.ReceivedFrom, pm)
	obs.Own = verdictName(own)
	if n.an != nil {
		if _, isKeys := msg.(*p2pmsg.DecryptionKeys); isKeys {
			apm := pk.pubsubMessage()
			obs.An = verdictName(n.an.VerifGossipvalCombinedValidator(pk.topic)(ctx, apm.ReceivedFrom, apm))
		}
	}
	n.prod = append(n.prod, obs)
	if own != pubsub.ValidationAccept {
		return fmt.Errorf("validation failed: local publish %s", obs.Own)
	}
	for j := range n.nodes {
		if j != i {
			c := *pk
			c.dest = j
			n.inflight = append(n.inflight, &c)
		}
	}
	return nil
}

func (n *simNet) find(m absMsg, dest int) int {
	for k, p := range n.inflight {
		if p.dest == dest && p.abs.key() == m.key() {
			return k
		}
	}
	return -1
}

// trigger is Trigger(i): the flavour's trigger production, then one event through the real
// KeyShareHandler service; returns after the service has set the event's result.
func (n *simNet) trigger(i, r int) (errs string) {
	nd := n.nodes[i]
	if n.flavour == "gnosis" {
		// keyperimpl/gnosis/newslot.go triggerDecryption: current_decryption_trigger is written
		// before the trigger is emitted
		if err := gnosisdb.New(nd.pool).SetCurrentDecryptionTrigger(n.ctx, gnosisdb.SetCurrentDecryptionTriggerParams{
			Eon: KeyperConfigIdx, Slot: gSlot + int64(r) - 1, TxPointer: gTxPointer, IdentitiesHash: n.idHash[r-1]}); err != nil {
			return "harness: " + err.Error()
		}
	}
	ev := broker.NewEvent(&epochkghandler.DecryptionTrigger{BlockNumber: uint64(ActivationBlock + 1), IdentityPreimages: n.identities(r)})
	select {
	case nd.trigC <- ev:
	case <-time.After(20 * time.Second):
		return "hang: KeyShareHandler does not take the trigger"
	}
	select {
	case r := <-ev.Result():
		if r.Error != nil {
			if strings.Contains(r.Error.Error(), "shares exist already") {
				return "sharesexist" // ErrSharesAlreadySent reaches the event's result
			}
			return r.Error.Error()
		}
	case <-time.After(30 * time.Second):
		return "hang: KeyShareHandler does not finish the trigger"
	}
	return ""
}

// deliver hands packet k to its destination: the real combined validator of the topic and, only
// on Accept, P2PMessaging.Handle, whose outputs are published exactly as P2PMessaging.handle does.
func (n *simNet) deliver(k int) (verdict string, errs string) {
	pk := n.inflight[k]
	n.inflight = append(n.inflight[:k:k], n.inflight[k+1:]...)
	nd := n.nodes[pk.dest]
	ctx, cancel := context.WithTimeout(n.ctx, 30*time.Second)
	defer cancel()
	pm := pk.pubsubMessage()
	v := nd.raw.real.VerifGossipvalCombinedValidator(pk.topic)(ctx, pm.ReceivedFrom, pm)
	if v != pubsub.ValidationAccept {
		return verdictName(v), ""
	}
	msg, _, err := p2p.UnmarshalPubsubMessage(pm)
	if err != nil {
		return verdictName(v), "unmarshal: " + err.Error()
	}
	outs, err := nd.raw.real.Handle(ctx, msg)
	if err != nil {
		return verdictName(v), err.Error() // handle: the outputs are not sent
	}
	for _, o := range outs {
		_ = nd.raw.SendMessage(ctx, o) // handle logs and continues
	}
	return verdictName(v), ""
}

// tables projects the databases of all nodes onto the node records of specs/Gossip.tla.
func (n *simNet) tables() []any {
	var out []any
	for _, nd := range n.nodes {
		st, kt := coreTables(nd.srv, n.w, n.idents, n.kinds)
		shares := map[string]any{}
		for id, rows := range st {
			l := []int{}
			for _, r := range rows.([]map[string]any) {
				s := r["s"].(int)
				if r["kind"] != "valid" {
					s = -1 - s
				}
				l = append(l, s)
			}
			sort.Ints(l)
			shares[id] = l
		}
		sigs := make([][]int, len(n.rounds))
		for r := range sigs {
			sigs[r] = []int{}
		}
		cur := 0
		ptr := -1
		nd.srv.View(func(db *fakepg.DB) {
			switch n.flavour {
			case "gnosis":
				for _, r := range db.SlotDecryptionSignatures {
					s := int(r.KeyperIndex)
					rd := n.roundOfSlot(uint64(r.Slot))
					if r.Eon != KeyperConfigIdx || rd == 99 || r.TxPointer != gTxPointer || string(r.IdentitiesHash) != string(n.idHash[rd-1]) {
						s = -1 - s // a row that does not belong to a trigger of the schedule
						if rd == 99 {
							rd = 1
						}
					}
					sigs[rd-1] = append(sigs[rd-1], s)
				}
				for _, r := range db.GnosisCurrentDecryptionTrigger {
					if r.Eon == KeyperConfigIdx {
						cur = n.roundOfSlot(uint64(r.Slot))
						if cur == 99 || r.TxPointer != gTxPointer || string(r.IdentitiesHash) != string(n.idHash[cur-1]) {
							cur = -1
						}
					}
				}
				for _, r := range db.TxPointer {
					if r.Eon != KeyperConfigIdx {
						continue
					}
					if r.Age.Valid && r.Age.Int64 == 0 {
						ptr = int(r.Value - gTxPointer) // set by a keys message: pointer of the trigger + len(keys) - 1
					} else if r.Value != gTxPointer {
						ptr = -99
					}
				}
			case "service":
				for _, r := range db.DecryptionSignatures {
					s := int(r.KeyperIndex)
					rd := n.roundOfHash(r.IdentitiesHash)
					if r.Eon != KeyperConfigIdx || rd == 0 {
						s, rd = -1-s, 1
					}
					sigs[rd-1] = append(sigs[rd-1], s)
				}
			}
		})
		for r := range sigs {
			sort.Ints(sigs[r])
		}
		out = append(out, map[string]any{"shares": shares, "keys": kt, "sigs": sigs, "cur": cur, "ptr": ptr})
	}
	return out
}
