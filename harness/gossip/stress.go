package gossip

import (
	"context"
	"fmt"
	"sync"
	"sync/atomic"
	"time"

	ethcrypto "github.com/ethereum/go-ethereum/crypto"

	"github.com/shutter-network/rolling-shutter/rolling-shutter/keyperimpl/gnosis"
	gnosisdb "github.com/shutter-network/rolling-shutter/rolling-shutter/keyperimpl/gnosis/database"
	"github.com/shutter-network/rolling-shutter/rolling-shutter/keyperimpl/shutterservice"
	"github.com/shutter-network/rolling-shutter/rolling-shutter/medley/identitypreimage"
	"github.com/shutter-network/rolling-shutter/rolling-shutter/p2p"
	"github.com/shutter-network/rolling-shutter/rolling-shutter/p2pmsg"

	"verif/harness/fakepg"
)

// Stress stage (C03, flavours with an identities hash).  The replay of TLC schedules drives a node
// sequentially; in production three goroutines of ONE keyper compute identities hashes at the same
// time: the slot/block trigger, the KeyShareHandler sending the own shares through the middleware,
// and the p2p handler loop storing received signatures.  This stage runs exactly these three paths
// of one real node assembly concurrently for a short time and checks every identities hash that
// becomes observable (return value, published message, signature rows) against an independently
// computed keccak, and that nothing panics.  Interleavings are SAMPLED by the Go scheduler, not
// enumerated; a clean result is no proof of race freedom.

type stressResult struct {
	Flavour                   string `json:"flavour"`
	HashCalls, Sends, Handled int64
	Published                 int64
	Bad                       []string `json:"bad"`
}

func independentHash(l []identitypreimage.IdentityPreimage) []byte {
	var all []byte
	for _, p := range l {
		all = append(all, p...)
	}
	return ethcrypto.Keccak256(all)
}

func stressFlavour(flavour string, seed int64, dur time.Duration) (*stressResult, error) {
	net, err := newSimNet(flavour, 2, 2, [][]string{{"i1", "i2"}}, seed)
	if err != nil {
		return nil, err
	}
	defer net.close()
	nd := net.nodes[0]
	res := &stressResult{Flavour: flavour, Bad: []string{}}
	var mu sync.Mutex
	bad := func(format string, a ...any) {
		mu.Lock()
		if len(res.Bad) < 20 {
			res.Bad = append(res.Bad, fmt.Sprintf(format, a...))
		}
		mu.Unlock()
	}
	hashFn := gnosis.VerifGossipIdentitiesHash
	if flavour == "service" {
		hashFn = shutterservice.VerifGossipIdentitiesHash
	}
	idLen := len(net.w.Identity("i1"))
	mkList := func(tag byte, n int) []identitypreimage.IdentityPreimage {
		var l []identitypreimage.IdentityPreimage
		for k := 0; k < n; k++ {
			b := make([]byte, idLen)
			for x := range b {
				b[x] = tag + byte(k) + byte(x)
			}
			l = append(l, b)
		}
		return l
	}
	listA, listC := mkList(0x40, 3), mkList(0x90, 2)
	wantA, wantOwn, wantC := independentHash(listA), independentHash(net.identities(1)), independentHash(listC)
	if flavour == "gnosis" {
		if err := gnosisdb.New(nd.pool).SetCurrentDecryptionTrigger(net.ctx, gnosisdb.SetCurrentDecryptionTriggerParams{
			Eon: KeyperConfigIdx, Slot: gSlot, TxPointer: gTxPointer, IdentitiesHash: wantOwn}); err != nil {
			return nil, err
		}
	}
	own := &p2pmsg.DecryptionKeyShares{InstanceId: InstanceID, Eon: uint64(KeyperConfigIdx), KeyperIndex: 0}
	for _, id := range net.rounds[0] {
		own.Shares = append(own.Shares, &p2pmsg.KeyShare{IdentityPreimage: net.w.Identity(id), Share: net.w.Share(0, id, "valid").Marshal()})
	}
	var sharesHandler p2p.MessageHandler
	if flavour == "gnosis" {
		sharesHandler, _ = gnosis.VerifGnosisSlotHandlers(nd.pool)
	} else {
		sharesHandler, _ = shutterservice.VerifGossipvalHandlers(nd.pool)
	}
	ctx, cancel := context.WithTimeout(net.ctx, dur+20*time.Second)
	defer cancel()
	stop := time.Now().Add(dur)
	var wg sync.WaitGroup
	run := func(name string, f func(k int)) {
		wg.Add(1)
		go func() {
			defer wg.Done()
			defer func() {
				if p := recover(); p != nil {
					bad("%s: panic: %v", name, p)
				}
			}()
			for k := 0; time.Now().Before(stop); k++ {
				f(k)
			}
		}()
	}
	// (1) the trigger path: computeIdentitiesHash of the list the keyper is about to trigger
	run("trigger", func(int) {
		atomic.AddInt64(&res.HashCalls, 1)
		if h := hashFn(listA); string(h) != string(wantA) {
			bad("trigger: identities hash %x, independently computed %x", h, wantA)
		}
	})
	// (2) own shares through the middleware: interceptDecryptionKeyShares; gnosis drops the message
	// if the hash it computes differs from the current trigger's
	run("own-shares", func(int) {
		atomic.AddInt64(&res.Sends, 1)
		before := len(net.prod)
		if err := nd.top.SendMessage(ctx, own); err != nil {
			bad("own-shares: SendMessage: %v", err)
		}
		if len(net.prod) == before {
			bad("own-shares: the middleware dropped the keyper's own shares message (identities hash mismatch)")
		} else {
			atomic.AddInt64(&res.Published, 1)
		}
		net.inflight = nil
	})
	// (3) the p2p handler loop: a received shares message, its signature row carries the hash
	run("received-shares", func(k int) {
		atomic.AddInt64(&res.Handled, 1)
		m := &p2pmsg.DecryptionKeyShares{InstanceId: InstanceID, Eon: uint64(KeyperConfigIdx), KeyperIndex: 1}
		for _, ip := range listC {
			m.Shares = append(m.Shares, &p2pmsg.KeyShare{IdentityPreimage: ip, Share: net.w.Share(1, "i1", "valid").Marshal()})
		}
		sig := make([]byte, 65)
		if flavour == "gnosis" {
			m.Extra = &p2pmsg.DecryptionKeyShares_Gnosis{Gnosis: &p2pmsg.GnosisDecryptionKeySharesExtra{Slot: uint64(5000 + k), TxPointer: uint64(gTxPointer), Signature: sig}}
		} else {
			sig[0] = byte(k)
			m.Extra = &p2pmsg.DecryptionKeyShares_Service{Service: &p2pmsg.ShutterServiceDecryptionKeySharesExtra{Signature: sig}}
		}
		if _, err := sharesHandler.HandleMessage(ctx, m); err != nil {
			bad("received-shares: HandleMessage: %v", err)
		}
	})
	wg.Wait()
	// every signature row must carry one of the independently computed hashes
	nd.srv.View(func(db *fakepg.DB) {
		check := func(keyper int64, slot int64, h []byte) {
			want := wantC
			if keyper == 0 {
				want = wantOwn
			}
			if string(h) != string(want) {
				bad("signature row (keyper %d, slot %d) has identities hash %x, independently computed %x", keyper, slot, h, want)
			}
		}
		for _, r := range db.SlotDecryptionSignatures {
			check(r.KeyperIndex, r.Slot, r.IdentitiesHash)
		}
		for _, r := range db.DecryptionSignatures {
			check(r.KeyperIndex, 0, r.IdentitiesHash)
		}
	})
	return res, nil
}
