package gossip

import "verif/harness/core"

type c01bOut struct {
	states, trans, traces, steps, lines, violations int
	info, samples                                   []any
}

// checkC01B: handler pipeline over the Postgres fake (built once harness/fakepg exists).
func checkC01B(c *core.Ctx) (*c01bOut, int) { return nil, core.ExitOK }
