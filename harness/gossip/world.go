// Package gossip binds the EpochKG / Gossip TLA+ specifications (C01 C03 C04 C05) to the real
// key-share handling code of the repository.
package gossip

import (
	"bytes"
	"crypto/sha256"
	"fmt"

	"github.com/shutter-network/shutter/shlib/puredkg"
	"github.com/shutter-network/shutter/shlib/shcrypto"

	"github.com/shutter-network/rolling-shutter/rolling-shutter/medley/identitypreimage"
	"github.com/shutter-network/rolling-shutter/rolling-shutter/medley/testkeygen"
)

type detReader struct{ state [32]byte }

func newDetReader(label string) *detReader { return &detReader{state: sha256.Sum256([]byte(label))} }

func (d *detReader) Read(p []byte) (int, error) {
	n := 0
	for n < len(p) {
		d.state = sha256.Sum256(d.state[:])
		n += copy(p[n:], d.state[:])
	}
	return len(p), nil
}

// World holds real key material for one eon (trusted dealer), a second eon ("otherEon")
// and a third one used for garbage shares.
type World struct {
	N, T     int
	Eon      uint64
	Keys     *testkeygen.EonKeys
	Other    *testkeygen.EonKeys
	Junk     *testkeygen.EonKeys
	idBytes  map[string][]byte
	encMsgs  map[string]*shcrypto.EncryptedMessage
	plain    []byte
	trueKeys map[string]*shcrypto.EpochSecretKey
}

func NewWorld(n, t int, idents []string, seed int64) *World {
	return NewWorldIDLen(n, t, idents, seed, 0)
}

// NewWorldIDLen is NewWorld with identity preimages of exactly idLen bytes (gnosis: 52, shutter
// service: 32; 0 = the 23-byte form of NewWorld). The bytes still start with the identity name,
// so the bytewise order of the preimages is the order of the names.
func NewWorldIDLen(n, t int, idents []string, seed int64, idLen int) *World {
	return NewWorldIDMode(n, t, idents, seed, idLen, "")
}

// NewWorldIDMode is NewWorldIDLen with a boundary choice of the byte strings of the FIRST TWO
// identities (idLen is ignored for them):
//
//	"lead0":  idents[0] = 0x00 0x00 || X, idents[1] = X      (differ only by leading zero bytes)
//	"trail0": idents[0] = X,              idents[1] = X || 0x00 (differ only by a trailing zero byte)
//
// with X = 20 seeded bytes whose first and last byte are non-zero. In both modes the bytewise order of
// the two preimages is the order of the names. "" = ordinary identities.
func NewWorldIDMode(n, t int, idents []string, seed int64, idLen int, mode string) *World {
	w := &World{N: n, T: t, Eon: 7, idBytes: map[string][]byte{}, encMsgs: map[string]*shcrypto.EncryptedMessage{},
		plain: []byte("verif: a message encrypted to the eon key"), trueKeys: map[string]*shcrypto.EpochSecretKey{}}
	var err error
	mk := func(label string) *testkeygen.EonKeys {
		k, e := testkeygen.NewEonKeys(newDetReader(fmt.Sprintf("%s-%d-%d-%d", label, n, t, seed)), uint64(n), uint64(t))
		if e != nil {
			panic(e)
		}
		return k
	}
	w.Keys, w.Other, w.Junk = mk("eon"), mk("other"), mk("junk")
	for _, id := range idents {
		h := sha256.Sum256([]byte(fmt.Sprintf("identity-%s-%d", id, seed)))
		w.idBytes[id] = append([]byte(id+":"), h[:20]...)
		for k := 0; idLen > 0 && len(w.idBytes[id]) < idLen; k++ {
			w.idBytes[id] = append(w.idBytes[id], sha256.New().Sum([]byte{byte(k), h[k%32]})[0])
		}
		if idLen > 0 {
			w.idBytes[id] = w.idBytes[id][:idLen]
		}
		if k := indexOf(idents, id); mode != "" && len(idents) >= 2 && k < 2 {
			hx := sha256.Sum256([]byte(fmt.Sprintf("boundary-identity-%d", seed)))
			x := append([]byte(nil), hx[:20]...)
			x[0] |= 0x31
			x[19] |= 0x01
			switch {
			case mode == "lead0" && k == 0:
				w.idBytes[id] = append([]byte{0, 0}, x...)
			case mode == "trail0" && k == 1:
				w.idBytes[id] = append(x, 0)
			default:
				w.idBytes[id] = x
			}
		}
		sigma, _ := shcrypto.RandomSigma(newDetReader("sigma-" + id))
		w.encMsgs[id] = shcrypto.Encrypt(w.plain, w.Keys.EonPublicKey(), shcrypto.ComputeEpochID(w.idBytes[id]), sigma)
		w.trueKeys[id], err = w.Keys.EpochSecretKey(identitypreimage.IdentityPreimage(w.idBytes[id]))
		if err != nil {
			panic(err)
		}
	}
	return w
}

func (w *World) Identity(id string) identitypreimage.IdentityPreimage {
	return identitypreimage.IdentityPreimage(w.idBytes[id])
}

// Share concretises a share token.
func (w *World) Share(sender int, id, kind string) *shcrypto.EpochSecretKeyShare {
	ip := w.Identity(id)
	switch kind {
	case "valid":
		return w.Keys.EpochSecretKeyShare(ip, sender)
	case "otherId", "swap": // "swap" without message context (see ShareInMsg) falls back to otherId
		return w.Keys.EpochSecretKeyShare(identitypreimage.IdentityPreimage(append([]byte("other-"), ip...)), sender)
	case "otherEon":
		return w.Other.EpochSecretKeyShare(ip, sender)
	case "otherKeyper":
		return w.Keys.EpochSecretKeyShare(ip, (sender+1)%w.N)
	default: // garbage
		return w.Junk.EpochSecretKeyShare(identitypreimage.IdentityPreimage([]byte("junk")), (sender+1)%w.N)
	}
}

// ShareInMsg concretises a share token that sits in a message carrying the identities msgIds (in
// message order). It is Share for every kind except
//
//	"swap": the sender's VALID share (same eon key, same keyper) for the OTHER identity of the same
//	        message, i.e. for the first element of msgIds that differs from id, presented under id.
//	        In a message <<A, B>> with kinds (swap, swap) keyper s's real share for B is attached
//	        to A and its real share for A to B: every single share fails the pairing check, but the
//	        sum of the shares matches the sum of the epoch ids (catches aggregated/batched checks).
//	        If the message names no other identity (one identity, or the same one twice) "swap" is
//	        the same object as "otherId".
func (w *World) ShareInMsg(sender int, id, kind string, msgIds []string) *shcrypto.EpochSecretKeyShare {
	if kind == "swap" {
		for _, o := range msgIds {
			if o != id {
				return w.Keys.EpochSecretKeyShare(w.Identity(o), sender)
			}
		}
	}
	return w.Share(sender, id, kind)
}

// KeyBytes concretises a key token of a DecryptionKeys message: "correct" = the dealer's epoch secret
// key of the identity (byte-identical to what interpolation of any T valid shares gives), anything
// else ("forged") = the epoch secret key of the same identity under the OTHER eon key: a well-formed
// G1 point that fails VerifyEpochSecretKey; one fixed object per identity.
func (w *World) KeyBytes(id, kind string) []byte {
	if kind == "correct" {
		return w.trueKeys[id].Marshal()
	}
	k, err := w.Other.EpochSecretKey(w.Identity(id))
	if err != nil {
		panic(err)
	}
	return k.Marshal()
}

// PureResult is the DKG result keyper k would hold.
func (w *World) PureResult(k int) *puredkg.Result {
	var pks []*shcrypto.EonPublicKeyShare
	for i := 0; i < w.N; i++ {
		pks = append(pks, w.Keys.EonPublicKeyShare(i))
	}
	return &puredkg.Result{
		Eon: w.Eon, NumKeypers: uint64(w.N), Threshold: uint64(w.T), Keyper: uint64(k),
		SecretKeyShare: w.Keys.EonSecretKeyShare(k), PublicKey: w.Keys.EonPublicKey(), PublicKeyShares: pks,
	}
}

// Judge classifies a derived key: "good" iff it is byte-equal to the dealer's epoch secret key
// AND decrypts the message that was encrypted to the eon public key for that identity.
func (w *World) Judge(id string, key *shcrypto.EpochSecretKey) string {
	if key == nil {
		return "nil"
	}
	if !bytes.Equal(key.Marshal(), w.trueKeys[id].Marshal()) {
		return "bad"
	}
	pt, err := w.encMsgs[id].Decrypt(key)
	if err != nil || !bytes.Equal(pt, w.plain) {
		return "bad"
	}
	return "good"
}

func indexOf(l []string, x string) int {
	for k, y := range l {
		if y == x {
			return k
		}
	}
	return -1
}
