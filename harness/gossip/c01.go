package gossip

import (
	"bytes"
	"encoding/json"
	"fmt"
	"os"
	"sort"
	"strings"
	"sync"
	"time"

	"github.com/shutter-network/rolling-shutter/rolling-shutter/keyper/epochkg"

	"verif/harness/core"
	"verif/harness/ev"
	"verif/harness/tlc"
)

// Token is a share token of EpochKG.tla.
type Token struct {
	S    int    `json:"s"`
	ID   string `json:"id"`
	Kind string `json:"kind"`
}

type kgConsts struct {
	N      int      `json:"n"`
	T      int      `json:"t"`
	Idents []string `json:"idents"`
}

type kgLine struct {
	K     string         `json:"k"`
	D     int            `json:"d"`
	Tok   Token          `json:"tok"`
	Err   string         `json:"err"`
	Panic string         `json:"panic"`
	St    map[string]any `json:"st"`
	Hist  []int          `json:"hist"`
}

func absKG(w *World, idents []string, kg *epochkg.EpochKG) map[string]any {
	pending := map[string]any{}
	key := map[string]any{}
	for _, id := range idents {
		hex := w.Identity(id).Hex()
		l := []uint64{}
		for _, s := range kg.SecretShares[hex] {
			l = append(l, s.Sender)
		}
		pending[id] = l
		if k, ok := kg.SecretKeys[hex]; ok {
			key[id] = w.Judge(id, k)
		} else {
			key[id] = "none"
		}
	}
	return map[string]any{"pending": pending, "key": key}
}

func errClass(err error) string {
	if err == nil {
		return ""
	}
	switch {
	case strings.Contains(err.Error(), "cannot verify"):
		return "verify"
	case strings.Contains(err.Error(), "already have"):
		return "dup"
	}
	return "other:" + err.Error()
}

func handleToken(w *World, kg *epochkg.EpochKG, tok Token) (errc string, panicked string) {
	defer func() {
		if p := recover(); p != nil {
			panicked = fmt.Sprint(p)
		}
	}()
	err := kg.HandleEpochSecretKeyShare(&epochkg.EpochSecretKeyShare{
		Eon: w.Eon, IdentityPreimage: w.Identity(tok.ID), Sender: uint64(tok.S), Share: w.Share(tok.S, tok.ID, tok.Kind),
	})
	return errClass(err), ""
}

type c01Plan struct {
	N, T   int
	Idents []string
	Kinds  []string
	IDMode string // "", "lead0", "trail0": byte strings of the first two identities (World.NewWorldIDMode)
}

func (p c01Plan) cfg(emit bool) string {
	q := func(l []string) string {
		var o []string
		for _, s := range l {
			o = append(o, fmt.Sprintf("%q", s))
		}
		return strings.Join(o, ", ")
	}
	return fmt.Sprintf("CONSTANTS\n N = %d\n T = %d\n Idents = {%s}\n ShareKinds = {%s}\n Emit = %s\nSPECIFICATION Spec\nPROPERTY StepProps\nINVARIANT EmitInv\nVIEW View\nCHECK_DEADLOCK FALSE\n",
		p.N, p.T, q(p.Idents), q(p.Kinds), strings.ToUpper(fmt.Sprint(emit)))
}

type c01Out struct {
	plan                     c01Plan
	states, distinct         int
	behaviours, steps, lines int
	traces                   int
	viol                     []kgLine
	violMon                  []string
	drift                    []kgLine
	sample                   any
	alphabet                 []Token
}

func runC01Plan(c *core.Ctx, p c01Plan, maxBeh int) (*c01Out, error) {
	mod := fmt.Sprintf("MCgen_EpochKG_%d_%d", p.N, p.T)
	res, err := tlc.Run(tlc.Opts{Module: mod, CfgText: p.cfg(true), Workers: 4, Timeout: 20 * time.Minute, HeapGB: 4,
		Files: map[string][]byte{mod + ".tla": []byte("---- MODULE " + mod + " ----\nEXTENDS EpochKGMC\n====\n")}})
	if err != nil {
		return nil, err
	}
	if res.Errored != "" || !res.Completed || res.TimedOut {
		return nil, fmt.Errorf("TLC failed: %s\n%s", res.Errored, res.Tail(20))
	}
	if res.Violation {
		return nil, fmt.Errorf("the code-shaped spec violates the property layer (model defect): %s", res.ViolatedWhat)
	}
	var alphabet []Token
	var consts kgConsts
	if err := res.TaggedJSON("ALPHABET", &alphabet); err != nil {
		return nil, err
	}
	if err := res.TaggedJSON("CONST", &consts); err != nil {
		return nil, err
	}
	var beh [][]int
	for _, s := range res.Tagged["B"] {
		b, err := tlc.ParseIntTuple(s)
		if err != nil {
			return nil, err
		}
		if len(b) > 0 {
			beh = append(beh, b)
		}
	}
	sort.Slice(beh, func(i, j int) bool { return lessInts(beh[i], beh[j]) })
	var maxb [][]int
	for i, b := range beh {
		if i+1 < len(beh) && isPrefix(b, beh[i+1]) {
			continue
		}
		maxb = append(maxb, b)
	}
	if maxBeh > 0 && len(maxb) > maxBeh {
		// deterministic thinning by seed
		step := len(maxb) / maxBeh
		var th [][]int
		for i := int(c.Seed % int64(step+1)); i < len(maxb); i += step + 1 {
			th = append(th, maxb[i])
		}
		maxb = th
	}
	out := &c01Out{plan: p, states: res.States, distinct: res.Distinct, alphabet: alphabet}
	k := 3 // every chunk is validated by its own TLC run
	if c.Thorough() {
		k = 8
	}
	if len(maxb) < 100*k {
		k = 1
	}
	per := (len(maxb) + k - 1) / k
	type chunkRes struct {
		trace []byte
		steps int
		beh   int
		vr    *vresult
		err   error
	}
	var chunks [][][]int
	for i := 0; i < len(maxb); i += per {
		j := i + per
		if j > len(maxb) {
			j = len(maxb)
		}
		chunks = append(chunks, maxb[i:j])
	}
	results := make([]chunkRes, len(chunks))
	var wg sync.WaitGroup
	for ci := range chunks {
		wg.Add(1)
		go func(ci int) {
			defer wg.Done()
			w := NewWorldIDMode(p.N, p.T, consts.Idents, c.Seed, 0, p.IDMode)
			var buf bytes.Buffer
			enc := func(l kgLine) {
				if l.Hist == nil {
					l.Hist = []int{}
				}
				b, _ := json.Marshal(l)
				buf.Write(b)
				buf.WriteByte('\n')
			}
			var prev []int
			for bi, b := range chunks[ci] {
				kg := epochkg.NewEpochKG(w.PureResult(0))
				common := 0
				if bi == 0 {
					enc(kgLine{K: "new", St: absKG(w, consts.Idents, kg)})
				} else {
					for common < len(prev) && common < len(b) && prev[common] == b[common] {
						common++
					}
					enc(kgLine{K: "pop", D: common, St: map[string]any{"pending": map[string]any{"-": []int{}}, "key": map[string]any{"-": ""}}})
				}
				for d, idx := range b {
					tok := alphabet[idx-1]
					errc, pan := handleToken(w, kg, tok)
					results[ci].steps++
					if d < common {
						continue
					}
					enc(kgLine{K: "share", D: d + 1, Tok: tok, Err: errc, Panic: pan, St: absKG(w, consts.Idents, kg), Hist: b[:d+1]})
				}
				prev = b
				results[ci].beh++
			}
			results[ci].trace = buf.Bytes()
			results[ci].vr, results[ci].err = validateKGTrace(p, buf.Bytes())
		}(ci)
	}
	wg.Wait()
	for _, r := range results {
		if r.err != nil {
			return nil, r.err
		}
		out.behaviours += r.beh
		out.steps += r.steps
		out.traces++
		out.lines += r.vr.Lines
		lines := bytes.Split(bytes.TrimRight(r.trace, "\n"), []byte("\n"))
		get := func(n int) kgLine {
			var l kgLine
			if n >= 1 && n <= len(lines) {
				json.Unmarshal(lines[n-1], &l)
			}
			return l
		}
		for _, v := range r.vr.Viol {
			n, _ := v[0].(float64)
			m, _ := v[1].(string)
			out.viol = append(out.viol, get(int(n)))
			out.violMon = append(out.violMon, m)
		}
		for _, n := range r.vr.Drift {
			out.drift = append(out.drift, get(n))
		}
		if out.sample == nil && len(lines) > 3 {
			l := get(len(lines) / 2)
			var toks []Token
			for _, i := range l.Hist {
				toks = append(toks, alphabet[i-1])
			}
			out.sample = map[string]any{"n": p.N, "t": p.T, "tokens": toks, "observed": l.St}
		}
	}
	return out, nil
}

type vresult struct {
	Lines int     `json:"lines"`
	Viol  [][]any `json:"viol"`
	Drift []int   `json:"drift"`
}

func validateKGTrace(p c01Plan, trace []byte) (*vresult, error) {
	mod := "TRgen_EpochKG"
	q := func(l []string) string {
		var o []string
		for _, s := range l {
			o = append(o, fmt.Sprintf("%q", s))
		}
		return strings.Join(o, ", ")
	}
	cfg := fmt.Sprintf("CONSTANTS\n N = %d\n T = %d\n Idents = {%s}\n ShareKinds = {%s}\n TraceFile = \"trace.ndjson\"\nSPECIFICATION TSpec\nINVARIANT Done\nCHECK_DEADLOCK FALSE\n",
		p.N, p.T, q(p.Idents), q(p.Kinds))
	res, err := tlc.Run(tlc.Opts{Module: mod, CfgText: cfg, Workers: 1, Timeout: 20 * time.Minute, HeapGB: 4,
		Files: map[string][]byte{mod + ".tla": []byte("---- MODULE " + mod + " ----\nEXTENDS EpochKGTrace\n====\n"), "trace.ndjson": trace}})
	if err != nil {
		return nil, err
	}
	if res.Errored != "" {
		return nil, fmt.Errorf("TLC error in trace validation: %s\n%s", res.Errored, res.Tail(25))
	}
	var vr vresult
	if err := res.TaggedJSON("RESULT", &vr); err != nil {
		return nil, fmt.Errorf("trace not consumed: %v\n%s", err, res.Tail(25))
	}
	return &vr, nil
}

func lessInts(a, b []int) bool {
	for i := 0; i < len(a) && i < len(b); i++ {
		if a[i] != b[i] {
			return a[i] < b[i]
		}
	}
	return len(a) < len(b)
}

func isPrefix(a, b []int) bool {
	if len(a) > len(b) {
		return false
	}
	for i := range a {
		if a[i] != b[i] {
			return false
		}
	}
	return true
}

// CheckC01 runs the C01 check (part A: in-memory aggregation; part B: handler pipeline, see c01b.go).
func CheckC01(c *core.Ctx) int {
	if c.Replay != "" {
		return replayC01(c)
	}
	kinds := []string{"valid", "otherId", "otherEon", "garbage"}
	var plans []c01Plan
	maxN := 3
	if c.Thorough() {
		maxN = 4
	}
	for n := 1; n <= maxN; n++ {
		for t := 1; t <= n; t++ {
			ids := []string{"i1"}
			if n >= 3 || c.Thorough() {
				ids = []string{"i1", "i2"}
			}
			// boundary identities: pairs that differ only by leading / trailing zero bytes (the map
			// keys of EpochKG are hex strings of the preimage)
			mode := ""
			if len(ids) == 2 {
				mode = []string{"lead0", "trail0", ""}[(n+t+int((c.Seed%3+3)%3))%3]
				if n == 3 && t == 2 {
					mode = "lead0"
				}
				if n == 3 && t == 3 {
					mode = "trail0"
				}
			}
			plans = append(plans, c01Plan{N: n, T: t, Idents: ids, Kinds: kinds, IDMode: mode})
		}
	}
	if c.Thorough() {
		plans = append(plans, c01Plan{N: 5, T: 3, Idents: []string{"i1"}, Kinds: kinds}, c01Plan{N: 7, T: 4, Idents: []string{"i1"}, Kinds: []string{"valid", "otherEon"}})
	}
	plans = filterPlans(plans, func(p c01Plan) string { return fmt.Sprintf("%d-%d", p.N, p.T) })
	maxBeh := 1500
	if c.Thorough() {
		maxBeh = 0
	}
	states, trans, traces, steps, lines, beh := 0, 0, 0, 0, 0, 0
	violations := 0
	var samples []any
	var planInfo []any
	// the plans of part A and part B run concurrently, at most cap(sem) at a time
	sem := make(chan struct{}, 5)
	aOuts := make([]*c01Out, len(plans))
	aErrs := make([]error, len(plans))
	var wg sync.WaitGroup
	for i := range plans {
		wg.Add(1)
		go func(i int) {
			defer wg.Done()
			sem <- struct{}{}
			defer func() { <-sem }()
			aOuts[i], aErrs[i] = runC01Plan(c, plans[i], maxBeh)
		}(i)
	}
	var bOut *c01bOut
	bCode := core.ExitOK
	wg.Add(1)
	go func() {
		defer wg.Done()
		bOut, bCode = checkC01B(c, sem)
	}()
	wg.Wait()
	for i, p := range plans {
		o, err := aOuts[i], aErrs[i]
		if err != nil {
			fmt.Println("INCONCLUSIVE:", err)
			return core.ExitInconclusive
		}
		c.Logf("A n=%d t=%d ids=%d%s: %d distinct states, %d behaviours replayed, %d lines validated, %d violations, %d drift",
			p.N, p.T, len(p.Idents), p.IDMode, o.distinct, o.behaviours, o.lines, len(o.viol), len(o.drift))
		states += o.distinct
		trans += o.states
		traces += o.traces
		steps += o.steps
		lines += o.lines
		beh += o.behaviours
		if o.sample != nil && len(samples) < 4 {
			samples = append(samples, o.sample)
		}
		planInfo = append(planInfo, map[string]any{"part": "A", "n": p.N, "t": p.T, "idents": len(p.Idents), "distinct_states": o.distinct, "behaviours": o.behaviours, "lines": o.lines})
		for i, l := range o.drift {
			if i < 5 {
				fmt.Printf("DRIFT n=%d t=%d token=%+v err=%q observed=%v hist=%v\n", p.N, p.T, l.Tok, l.Err, l.St, l.Hist)
			}
		}
		for i, l := range o.viol {
			violations++
			if i < 3 {
				var toks []Token
				for _, k := range l.Hist {
					toks = append(toks, o.alphabet[k-1])
				}
				path := c.WriteReplay(fmt.Sprintf("A-%d-%d-%d", p.N, p.T, i), map[string]any{"part": "A", "plan": p, "monitor": o.violMon[i], "tokens": toks, "line": l})
				c.Violation(path, fmt.Sprintf("%s failed for n=%d t=%d after history %v: token %+v err=%q panic=%q observed %v", o.violMon[i], p.N, p.T, l.Hist, l.Tok, l.Err, l.Panic, l.St))
			}
		}
	}
	if bCode == core.ExitInconclusive {
		return bCode
	}
	if bOut != nil {
		states += bOut.states
		trans += bOut.trans
		traces += bOut.traces
		steps += bOut.steps
		lines += bOut.lines
		violations += bOut.violations
		planInfo = append(planInfo, bOut.info...)
		samples = append(samples, bOut.samples...)
	}
	ev.Write(ev.Evidence{PropertyID: "C01", Tier: c.Tier, Seed: c.Seed, Level: "model_checking", WallS: time.Since(c.Start).Seconds(), Violations: violations,
		Coverage: map[string]any{"states": states, "transitions": trans, "traces_validated_against_impl": traces, "samples": samples,
			"evaluations": steps, "distinct_nontrivial": lines, "plans": planInfo, "behaviours": beh,
			"rule": "TLC enumerates every (aggregation state, share token) pair for each (n,t); one delivery history per pair is replayed with real BLS shares on the real epochkg.EpochKG (part A) and through the real DecryptionKeyShareHandler over the Postgres fake (part B); distinct_nontrivial = distinct delivery histories whose observed step was validated by TLC; evaluations = share deliveries executed"},
		Assumptions: []string{"token->object concretiser (harness/gossip/world.go) builds the share classes it claims", "key correctness is judged by byte equality with the dealer's key and trial decryption", "exhaustive for the listed (n,t), sampled above"}})
	if violations > 0 {
		return core.ExitViolation
	}
	fmt.Printf("OK property=C01 tier=%s\n", c.Tier)
	return core.ExitOK
}

// filterPlans is a development aid: VERIF_GOSSIP_ONLY=<n>-<t> keeps only the plans of that (n,t).
func filterPlans[P any](plans []P, name func(P) string) []P {
	only := os.Getenv("VERIF_GOSSIP_ONLY")
	if only == "" {
		return plans
	}
	var keep []P
	for _, p := range plans {
		if name(p) == only {
			keep = append(keep, p)
		}
	}
	return keep
}

// replayC01 re-executes the delivery history of a replay file (part A: tokens on the real EpochKG,
// part B: messages on the real handler) and validates the recorded steps with TLC.
func replayC01(c *core.Ctx) int {
	b, err := os.ReadFile(c.Replay)
	if err != nil {
		fmt.Println("INCONCLUSIVE:", err)
		return core.ExitInconclusive
	}
	var r struct {
		Part     string          `json:"part"`
		Plan     json.RawMessage `json:"plan"`
		Tokens   []Token         `json:"tokens"`
		Messages []pipeMsg       `json:"messages"`
	}
	if err := json.Unmarshal(b, &r); err != nil {
		fmt.Println("INCONCLUSIVE: not a C01 replay file:", err)
		return core.ExitInconclusive
	}
	var buf bytes.Buffer
	var vr *vresult
	switch r.Part {
	case "A":
		var p c01Plan
		if err := json.Unmarshal(r.Plan, &p); err != nil || p.N == 0 {
			fmt.Println("INCONCLUSIVE: bad plan in replay file")
			return core.ExitInconclusive
		}
		w := NewWorldIDMode(p.N, p.T, p.Idents, c.Seed, 0, p.IDMode)
		kg := epochkg.NewEpochKG(w.PureResult(0))
		enc := func(l kgLine) {
			if l.Hist == nil {
				l.Hist = []int{}
			}
			jb, _ := json.Marshal(l)
			buf.Write(jb)
			buf.WriteByte('\n')
		}
		enc(kgLine{K: "new", St: absKG(w, p.Idents, kg)})
		for d, tok := range r.Tokens {
			errc, pan := handleToken(w, kg, tok)
			l := kgLine{K: "share", D: d + 1, Tok: tok, Err: errc, Panic: pan, St: absKG(w, p.Idents, kg)}
			fmt.Printf("  token %+v err=%q panic=%q observed=%v\n", tok, errc, pan, l.St)
			enc(l)
		}
		vr, err = validateKGTrace(p, buf.Bytes())
	case "B":
		var p pipePlan
		if err := json.Unmarshal(r.Plan, &p); err != nil || p.N == 0 {
			fmt.Println("INCONCLUSIVE: bad plan in replay file")
			return core.ExitInconclusive
		}
		rig, rerr := newPipeRig(p, c.Seed)
		if rerr != nil {
			fmt.Println("INCONCLUSIVE:", rerr)
			return core.ExitInconclusive
		}
		defer rig.closeFn()
		enc := func(l pipeLine) {
			if l.Hist == nil {
				l.Hist = []int{}
			}
			if l.Out == nil {
				l.Out = [][]pipeKey{}
			}
			l.Msg.normalise()
			jb, _ := json.Marshal(l)
			buf.Write(jb)
			buf.WriteByte('\n')
		}
		enc(pipeLine{K: "new", St: rig.abs()})
		for d, m := range r.Messages {
			l := rig.deliver(m)
			l.D = d + 1
			fmt.Printf("  message %+v verdict=%s verr=%q err=%q panic=%q emitted=%v tables=%v\n", m, l.Verdict, l.Verr, l.Err, l.Panic, l.Out, l.St)
			enc(l)
		}
		vr, err = validatePipeTrace(p, buf.Bytes())
	default:
		fmt.Println("INCONCLUSIVE: replay file has no part A/B")
		return core.ExitInconclusive
	}
	if err != nil {
		fmt.Println("INCONCLUSIVE:", err)
		return core.ExitInconclusive
	}
	if len(vr.Viol) > 0 {
		c.Violation(c.Replay, fmt.Sprintf("monitors failed (line, monitor): %v", vr.Viol))
		return core.ExitViolation
	}
	fmt.Printf("OK property=C01 replay=%s (drift lines: %v)\n", c.Replay, vr.Drift)
	return core.ExitOK
}
