package svce2e

import (
	"bytes"
	"context"
	"database/sql"
	"fmt"
	"sort"
	"sync"
	"time"

	"github.com/ethereum/go-ethereum/common"
	"github.com/ethereum/go-ethereum/crypto"
	"github.com/jackc/pgx/v4/pgxpool"
	pubsub "github.com/libp2p/go-libp2p-pubsub"
	pubsubpb "github.com/libp2p/go-libp2p-pubsub/pb"
	"github.com/libp2p/go-libp2p/core/peer"
	triggerRegistry "github.com/shutter-network/contracts/v2/bindings/shuttereventtriggerregistryv1"
	registry "github.com/shutter-network/contracts/v2/bindings/shutterregistry"
	"github.com/shutter-network/shutter/shlib/shcrypto"

	obskeyper "github.com/shutter-network/rolling-shutter/rolling-shutter/chainobserver/db/keyper"
	kprdb "github.com/shutter-network/rolling-shutter/rolling-shutter/keyper/database"
	"github.com/shutter-network/rolling-shutter/rolling-shutter/keyper/epochkghandler"
	"github.com/shutter-network/rolling-shutter/rolling-shutter/keyperimpl/shutterservice"
	"github.com/shutter-network/rolling-shutter/rolling-shutter/keyperimpl/shutterservice/serviceztypes"
	"github.com/shutter-network/rolling-shutter/rolling-shutter/medley/broker"
	syncevent "github.com/shutter-network/rolling-shutter/rolling-shutter/medley/chainsync/event"
	"github.com/shutter-network/rolling-shutter/rolling-shutter/medley/configuration"
	"github.com/shutter-network/rolling-shutter/rolling-shutter/medley/encodeable/keys"
	"github.com/shutter-network/rolling-shutter/rolling-shutter/medley/encodeable/number"
	"github.com/shutter-network/rolling-shutter/rolling-shutter/medley/identitypreimage"
	"github.com/shutter-network/rolling-shutter/rolling-shutter/medley/retry"
	"github.com/shutter-network/rolling-shutter/rolling-shutter/medley/service"
	"github.com/shutter-network/rolling-shutter/rolling-shutter/p2p"
	"github.com/shutter-network/rolling-shutter/rolling-shutter/p2pmsg"
	"github.com/shutter-network/rolling-shutter/rolling-shutter/shdb"

	"verif/harness/fakeeth"
	"verif/harness/fakepg"
)

const watchdog = 30 * time.Second

// coreConfig implements epochkghandler.Config.
type coreConfig struct{ addr common.Address }

func (c coreConfig) GetAddress() common.Address      { return c.addr }
func (c coreConfig) GetInstanceID() uint64           { return InstanceID }
func (c coreConfig) GetMaxNumKeysPerMessage() uint64 { return MaxKeys }

// goRunner is the minimal service.Runner the KeyShareHandler service needs.
type goRunner struct{ ctx context.Context }

func (r goRunner) Go(f func() error) { go func() { _ = f() }() }
func (r goRunner) Defer(func())      {}
func (r goRunner) StartService(s ...service.Service) error {
	for _, x := range s {
		if err := x.Start(r.ctx, r); err != nil {
			return err
		}
	}
	return nil
}

type prodObs struct {
	M   AbsMsg `json:"m"`
	Own string `json:"own"`
	An  string `json:"an"`
	raw p2pmsg.Message
}

type packet struct {
	abs   AbsMsg
	from  int
	dest  int
	topic string
	data  []byte
}

func (p *packet) pubsubMessage() *pubsub.Message {
	topic := p.topic
	pid := peer.ID(fmt.Sprintf("sim-node-%d", p.from))
	return &pubsub.Message{Message: &pubsubpb.Message{From: []byte(pid), Data: p.data, Topic: &topic}, ReceivedFrom: pid}
}

// simMessaging implements p2p.Messaging for one keyper: the registries are those of a real
// P2PMessaging; SendMessage is what P2PMessaging.SendMessage + libp2p do for a publish (marshal,
// validate locally with the node's own combined topic validator, one copy per peer).
// (copied from harness/gossip/simnet.go, where it is unexported)
type simMessaging struct {
	c    *Cluster
	idx  int
	real *p2p.P2PMessaging
}

func (s *simMessaging) Start(context.Context, service.Runner) error { return nil }
func (s *simMessaging) AddValidator(v p2p.ValidatorFunc, protos ...p2pmsg.Message) {
	s.real.AddValidator(v, protos...)
}
func (s *simMessaging) AddMessageHandler(mhs ...p2p.MessageHandler) { s.real.AddMessageHandler(mhs...) }
func (s *simMessaging) SendMessage(ctx context.Context, msg p2pmsg.Message, _ ...retry.Option) error {
	return s.c.publish(ctx, s.idx, msg)
}

// Keyper is one real keyper over its own database fake.
type Keyper struct {
	idx    int
	srv    *fakepg.Server
	pool   *pgxpool.Pool
	cfg    *shutterservice.Config
	kpr    *shutterservice.Keyper
	raw    *simMessaging
	top    p2p.Messaging
	trigA  chan *broker.Event[*epochkghandler.DecryptionTrigger] // Keyper -> driver
	trigB  chan *broker.Event[*epochkghandler.DecryptionTrigger] // driver -> KeyShareHandler
	ksh    *epochkghandler.KeyShareHandler
	lastID int // block id processed last (1 = root)
}

// Cluster is the real system of one behaviour.
type Cluster struct {
	W        *World
	U        *Uni
	Eth      *fakeeth.Node
	base     uint64 // time of block 0
	Blk      []J    // abstract tree (index = id-1)
	nums     []int
	Canon    int
	Kp       []*Keyper
	inflight []*packet
	mu       sync.Mutex
	prod     []prodObs
	ctx      context.Context
	cancel   context.CancelFunc
}

func blockName(id int) string { return fmt.Sprintf("b%d", id) }

func addrsOf(w *World, foreign bool) []common.Address {
	ks := w.Keypers
	if foreign {
		ks = w.Foreign
	}
	var out []common.Address
	for _, k := range ks {
		out = append(out, crypto.PubkeyToAddress(k.PublicKey))
	}
	return out
}

// NewCluster builds the fake node, the K databases seeded through the repository's own queries with
// what a keyper knows after the key generation of the universe's keyper sets, and the real
// assemblies.
func NewCluster(w *World, u *Uni) (*Cluster, error) {
	ctx, cancel := context.WithCancel(context.Background())
	c := &Cluster{W: w, U: u, Eth: fakeeth.New(), ctx: ctx, cancel: cancel}
	root := c.Eth.AddRoot(blockName(1), 0)
	c.base = root.Header.Time
	c.Eth.SetHead(blockName(1))
	c.Blk = []J{{"num": 0, "par": -1, "evs": []string{}, "exp": 0, "ts": make([]int, NI)}}
	c.nums = []int{0}
	c.Canon = 1
	for i := 0; i < NumKeypers; i++ {
		k, err := c.newKeyper(i)
		if err != nil {
			c.Close()
			return nil, err
		}
		c.Kp = append(c.Kp, k)
	}
	return c, nil
}

func (c *Cluster) Close() {
	c.cancel()
	for _, k := range c.Kp {
		k.pool.Close()
		k.srv.Close()
	}
	c.Eth.Close()
}

func (c *Cluster) seed(pool *pgxpool.Pool, i int) error {
	q := kprdb.New(pool)
	obs := obskeyper.New(pool)
	for s := 1; s <= 2; s++ {
		kind := c.U.Kind[s-1]
		addrs := addrsOf(c.W, kind == "foreign")
		act := int64(c.U.Act[s-1])
		if err := q.InsertBatchConfig(c.ctx, kprdb.InsertBatchConfigParams{
			KeyperConfigIndex: int32(s), Height: int64(s), Keypers: shdb.EncodeAddresses(addrs), Threshold: Threshold,
			Started: true, ActivationBlockNumber: act,
		}); err != nil {
			return err
		}
		if err := obs.InsertKeyperSet(c.ctx, obskeyper.InsertKeyperSetParams{
			KeyperConfigIndex: int64(s), ActivationBlockNumber: act, Keypers: shdb.EncodeAddresses(addrs), Threshold: Threshold,
		}); err != nil {
			return err
		}
		if kind == "nostart" {
			continue
		}
		if err := q.InsertEon(c.ctx, kprdb.InsertEonParams{Eon: int64(EonNo(s)), Height: int64(10 * EonNo(s)), ActivationBlockNumber: act, KeyperConfigIndex: int64(s)}); err != nil {
			return err
		}
		switch kind {
		case "ok":
			pure, err := shdb.EncodePureDKGResult(c.W.PureResult(s, i))
			if err != nil {
				return err
			}
			if err := q.InsertDKGResult(c.ctx, kprdb.InsertDKGResultParams{Eon: int64(EonNo(s)), Success: true, Error: sql.NullString{}, PureResult: pure}); err != nil {
				return err
			}
		case "failed":
			if err := q.InsertDKGResult(c.ctx, kprdb.InsertDKGResultParams{Eon: int64(EonNo(s)), Success: false, Error: sql.NullString{String: "dkg failed", Valid: true}}); err != nil {
				return err
			}
		}
	}
	return nil
}

// newKeyper assembles keyper i the way keyperimpl/shutterservice/keyper.go and keyper/keyper.go do:
// flavour handlers on the raw messaging, the middleware, the core handlers and the KeyShareHandler
// service on the middleware; RegistrySyncer and MultiEventSyncer with both processors on the
// shared node.
func (c *Cluster) newKeyper(i int) (*Keyper, error) {
	srv := fakepg.New()
	srv.SetLogging(false)
	pool, err := srv.Pool(c.ctx)
	if err != nil {
		return nil, err
	}
	k := &Keyper{idx: i, srv: srv, pool: pool, lastID: 1}
	if err := c.seed(pool, i); err != nil {
		return nil, err
	}
	k.cfg = &shutterservice.Config{
		InstanceID: InstanceID,
		Chain: &shutterservice.ChainConfig{
			Node:                 &configuration.EthnodeConfig{PrivateKey: &keys.ECDSAPrivate{Key: c.W.Keypers[i]}},
			Contracts:            &shutterservice.ContractsConfig{ShutterRegistry: addrRegistry, ShutterEventTriggerRegistry: addrTrigReg},
			SyncStartBlockNumber: 0,
		},
		MaxNumKeysPerMessage: MaxKeys,
	}
	client := c.Eth.Client()
	regC, err := registry.NewShutterregistry(addrRegistry, client)
	if err != nil {
		return nil, err
	}
	trigC, err := triggerRegistry.NewShuttereventtriggerregistryv1(addrTrigReg, client)
	if err != nil {
		return nil, err
	}
	multi, err := shutterservice.NewMultiEventSyncer(pool, client, k.cfg.Chain.SyncStartBlockNumber, []shutterservice.EventProcessor{
		shutterservice.NewEventTriggerRegisteredEventProcessor(trigC, pool),
		shutterservice.NewTriggerProcessor(client, pool),
	})
	if err != nil {
		return nil, err
	}
	k.trigA = make(chan *broker.Event[*epochkghandler.DecryptionTrigger], 64)
	k.trigB = make(chan *broker.Event[*epochkghandler.DecryptionTrigger])
	k.kpr = shutterservice.VerifNewKeyper(k.cfg, pool, k.trigA)
	k.kpr.VerifSetRegistrySyncer(&shutterservice.RegistrySyncer{Contract: regC, DBPool: pool, ExecutionClient: client, SyncStartBlockNumber: k.cfg.Chain.SyncStartBlockNumber})
	k.kpr.VerifSetMultiEventSyncer(multi)

	k.raw = &simMessaging{c: c, idx: i, real: p2p.VerifGossipvalNewMessaging()}
	hs, hk := shutterservice.VerifGossipvalHandlers(pool)
	k.raw.AddMessageHandler(hs)
	k.raw.AddMessageHandler(hk)
	k.top = shutterservice.NewMessagingMiddleware(k.raw, pool, k.cfg)
	cc := coreConfig{addr: k.cfg.GetAddress()}
	k.top.AddMessageHandler(
		epochkghandler.NewDecryptionKeyHandler(cc, pool),
		epochkghandler.NewDecryptionKeyShareHandler(cc, pool),
	)
	k.ksh = &epochkghandler.KeyShareHandler{InstanceID: InstanceID, KeyperAddress: cc.addr, MaxNumKeysPerMessage: MaxKeys,
		DBPool: pool, Messaging: k.top, Trigger: k.trigB}
	if err := k.ksh.Start(c.ctx, goRunner{c.ctx}); err != nil {
		return nil, err
	}
	return k, nil
}

// network ---------------------------------------------------------------------------------------

func verdictName(v pubsub.ValidationResult) string {
	switch v {
	case pubsub.ValidationAccept:
		return "accept"
	case pubsub.ValidationReject:
		return "reject"
	case pubsub.ValidationIgnore:
		return "ignore"
	}
	return fmt.Sprintf("unknown-%d", int(v))
}

// abstract maps a real message to the message of the spec.
func (c *Cluster) abstract(from int, msg p2pmsg.Message) AbsMsg {
	a := AbsMsg{From: from, Signers: []int{}}
	switch m := msg.(type) {
	case *p2pmsg.DecryptionKeyShares:
		a.T = "shares"
		var ids [][]byte
		for _, sh := range m.Shares {
			ids = append(ids, sh.IdentityPreimage)
		}
		a.R = c.W.ListOf(ids)
		if int(m.KeyperIndex) != from || m.Eon != OkSet || m.InstanceId != InstanceID {
			a.T = "shares?"
		}
		if _, ok := m.Extra.(*p2pmsg.DecryptionKeyShares_Service); ok {
			a.X = a.R // the signature is over the identities of the message
		}
	case *p2pmsg.DecryptionKeys:
		a.T = "keys"
		var ids [][]byte
		for _, k := range m.Keys {
			ids = append(ids, k.IdentityPreimage)
		}
		a.R = c.W.ListOf(ids)
		if m.Eon != OkSet || m.InstanceId != InstanceID {
			a.T = "keys?"
		}
		if e, ok := m.Extra.(*p2pmsg.DecryptionKeys_Service); ok {
			a.X = a.R // the signatures are selected by the identities hash of the keys
			for _, s := range e.Service.GetSignerIndices() {
				a.Signers = append(a.Signers, int(s))
			}
		}
	default:
		a.T = fmt.Sprintf("%T", msg)
	}
	return a
}

// publish is the raw SendMessage of keyper i.
func (c *Cluster) publish(ctx context.Context, i int, msg p2pmsg.Message) error {
	data, err := p2pmsg.Marshal(msg, nil)
	if err != nil {
		return err
	}
	pk := &packet{abs: c.abstract(i, msg), from: i, topic: msg.Topic(), data: data}
	obs := prodObs{M: pk.abs, An: "-", raw: msg}
	// libp2p validates a local publish with the node's own topic validators
	pm := pk.pubsubMessage()
	own := c.Kp[i].raw.real.VerifGossipvalCombinedValidator(pk.topic)(ctx, pm.ReceivedFrom, pm)
	obs.Own = verdictName(own)
	c.mu.Lock()
	c.prod = append(c.prod, obs)
	if own == pubsub.ValidationAccept {
		for j := range c.Kp {
			if j != i {
				cp := *pk
				cp.dest = j
				c.inflight = append(c.inflight, &cp)
			}
		}
	}
	c.mu.Unlock()
	if own != pubsub.ValidationAccept {
		return fmt.Errorf("validation failed: local publish %s", obs.Own)
	}
	return nil
}

func (c *Cluster) takeProd() []prodObs {
	c.mu.Lock()
	defer c.mu.Unlock()
	p := c.prod
	c.prod = nil
	if p == nil {
		p = []prodObs{}
	}
	return p
}

func (c *Cluster) find(m AbsMsg, dest int) int {
	for k, p := range c.inflight {
		if p.dest == dest && p.abs.key() == m.key() {
			return k
		}
	}
	return -1
}

// deliver hands packet k to its destination: the real combined validator of the topic and, only on
// Accept, P2PMessaging.Handle, whose outputs are published exactly as P2PMessaging.handle does.
func (c *Cluster) deliver(k int) (verdict string, errs string) {
	c.mu.Lock()
	pk := c.inflight[k]
	c.inflight = append(c.inflight[:k:k], c.inflight[k+1:]...)
	c.mu.Unlock()
	nd := c.Kp[pk.dest]
	ctx, cancel := context.WithTimeout(c.ctx, watchdog)
	defer cancel()
	pm := pk.pubsubMessage()
	v := nd.raw.real.VerifGossipvalCombinedValidator(pk.topic)(ctx, pm.ReceivedFrom, pm)
	if v != pubsub.ValidationAccept {
		return verdictName(v), ""
	}
	msg, _, err := p2p.UnmarshalPubsubMessage(pm)
	if err != nil {
		return verdictName(v), "unmarshal: " + err.Error()
	}
	outs, err := nd.raw.real.Handle(ctx, msg)
	if err != nil {
		return verdictName(v), err.Error() // handle: the outputs are not sent
	}
	for _, o := range outs {
		_ = nd.raw.SendMessage(ctx, o) // handle logs and continues
	}
	return verdictName(v), ""
}

// guard runs f under recover and a watchdog.
func guard(limit time.Duration, f func()) (panicked string) {
	done := make(chan string, 1)
	go func() {
		defer func() {
			if p := recover(); p != nil {
				done <- "panic: " + fmt.Sprint(p)
				return
			}
			done <- ""
		}()
		f()
	}()
	select {
	case s := <-done:
		return s
	case <-time.After(limit):
		return "hang: no return within " + limit.String()
	}
}

// chain -------------------------------------------------------------------------------------------

// Mine adds a block with the given content on top of block par and makes it the head.
func (c *Cluster) Mine(par int, b BlkSpec) (int, J) {
	id := len(c.Blk) + 1
	num := c.nums[par-1] + 1
	evs := append([]string{}, b.Evs...)
	sort.Strings(evs)
	ts := append([]int{}, b.Ts...)
	for len(ts) < NI {
		ts = append(ts, 0)
	}
	bb := BlkSpec{Evs: evs, Exp: b.Exp, Ts: ts}
	c.Eth.AddBlock(blockName(id), blockName(par), c.W.tokenLogs(c.U, c.base, bb, id))
	c.Eth.SetHead(blockName(id))
	j := J{"num": num, "par": par, "evs": evs, "exp": b.Exp, "ts": ts}
	c.Blk = append(c.Blk, j)
	c.nums = append(c.nums, num)
	c.Canon = id
	return id, j
}

func (c *Cluster) idOfHash(h []byte) int {
	if len(h) == 0 {
		return 0
	}
	if len(h) != 32 {
		return -2
	}
	b := c.Eth.ByHash(common.BytesToHash(h))
	if b == nil {
		return -2
	}
	var id int
	if _, err := fmt.Sscanf(b.ID, "b%d", &id); err != nil {
		return -2
	}
	return id
}

// projection --------------------------------------------------------------------------------------

type sySt struct {
	Has  bool `json:"has"`
	Num  int  `json:"num"`
	Hash int  `json:"hash"`
}

type idRow struct {
	Key int  `json:"key"`
	Num int  `json:"num"`
	Bid int  `json:"bid"`
	Ts  int  `json:"ts"`
	Set int  `json:"set"`
	Dec bool `json:"dec"`
}

type regRow struct {
	Key string `json:"key"`
	Num int    `json:"num"`
	Bid int    `json:"bid"`
	Exp int    `json:"exp"`
	Dec bool   `json:"dec"`
}

type firedRow struct {
	Key string `json:"key"`
	Num int    `json:"num"`
	Bid int    `json:"bid"`
}

type mSt struct {
	Synced sySt       `json:"synced"`
	Regs   []regRow   `json:"regs"`
	Fired  []firedRow `json:"fired"`
}

type rSt struct {
	Synced sySt    `json:"synced"`
	Rows   []idRow `json:"rows"`
}

type ksSt struct {
	R      rSt `json:"r"`
	M      mSt `json:"m"`
	Latest int `json:"latest"`
}

func (c *Cluster) trigKey(id []byte) string {
	x := c.W.Slot(id)
	if x <= NI {
		return "?"
	}
	return fmt.Sprint(x - NI)
}

func (c *Cluster) absM(db *fakepg.DB) mSt {
	m := mSt{Regs: []regRow{}, Fired: []firedRow{}}
	for _, r := range db.MultiEventSyncStatus {
		m.Synced = sySt{Has: true, Num: int(r.BlockNumber), Hash: c.idOfHash(r.BlockHash)}
	}
	for _, r := range db.EventTriggerRegisteredEvent {
		m.Regs = append(m.Regs, regRow{Key: c.trigKey(r.Identity), Num: int(r.BlockNumber), Bid: c.idOfHash(r.BlockHash), Exp: int(r.ExpirationBlockNumber), Dec: r.Decrypted})
	}
	for _, r := range db.FiredTriggers {
		m.Fired = append(m.Fired, firedRow{Key: c.trigKey(r.Identity), Num: int(r.BlockNumber), Bid: c.idOfHash(r.BlockHash)})
	}
	sort.Slice(m.Regs, func(i, j int) bool { return m.Regs[i].Key < m.Regs[j].Key })
	sort.Slice(m.Fired, func(i, j int) bool { return m.Fired[i].Key < m.Fired[j].Key })
	return m
}

// Abs projects keyper k's database and memory to the record ks of the spec.
func (c *Cluster) Abs(k *Keyper) ksSt {
	st := ksSt{R: rSt{Rows: []idRow{}}, Latest: -1}
	if t, ok := k.kpr.VerifLatestTriggeredTime(); ok {
		st.Latest = absTime(c.base, t)
	}
	k.srv.View(func(db *fakepg.DB) {
		for _, r := range db.IdentityRegisteredEventsSyncedUntil {
			st.R.Synced = sySt{Has: true, Num: int(r.BlockNumber), Hash: c.idOfHash(r.BlockHash)}
		}
		for _, r := range db.IdentityRegisteredEvent {
			x := c.W.Slot(r.Identity)
			if x > NI {
				x = -x
			}
			st.R.Rows = append(st.R.Rows, idRow{Key: x, Num: int(r.BlockNumber), Bid: c.idOfHash(r.BlockHash), Ts: absTime(c.base, uint64(r.Timestamp)), Set: int(r.Eon), Dec: r.Decrypted})
		}
		st.M = c.absM(db)
	})
	sort.Slice(st.R.Rows, func(i, j int) bool { return st.R.Rows[i].Key < st.R.Rows[j].Key })
	return st
}

// Tabs projects the key tables of all keypers onto the node records of specs/Gossip.tla.
func (c *Cluster) Tabs() []any {
	var out []any
	for _, k := range c.Kp {
		shares := make([][]int, NI+NT)
		keysT := make([]string, NI+NT)
		for x := range shares {
			shares[x] = []int{}
			keysT[x] = "none"
		}
		sigs := make([][]int, len(c.W.Lists))
		for r := range sigs {
			sigs[r] = []int{}
		}
		k.srv.View(func(db *fakepg.DB) {
			for _, r := range db.DecryptionKeyShare {
				x := c.W.Slot(r.EpochID)
				s := int(r.KeyperIndex)
				if r.Eon != OkSet || x == 0 {
					shares[0] = append(shares[0], -100-s) // a row that belongs to no identity of the world
					continue
				}
				if !c.W.ShareValid(s, x, r.DecryptionKeyShare) {
					s = -1 - s
				}
				shares[x-1] = append(shares[x-1], s)
			}
			for _, r := range db.DecryptionKey {
				x := c.W.Slot(r.EpochID)
				if r.Eon != OkSet || x == 0 {
					keysT[0] = "alien"
					continue
				}
				keysT[x-1] = c.W.JudgeKey(x, r.DecryptionKey)
			}
			for _, r := range db.DecryptionSignatures {
				s := int(r.KeyperIndex)
				rd := c.W.listOfHash(r.IdentitiesHash)
				if r.Eon != OkSet || rd == 0 {
					s, rd = -1-s, 1
				}
				sigs[rd-1] = append(sigs[rd-1], s)
			}
		})
		for x := range shares {
			sort.Ints(shares[x])
		}
		for r := range sigs {
			sort.Ints(sigs[r])
		}
		out = append(out, J{"shares": shares, "keys": keysT, "sigs": sigs, "cur": 0, "ptr": -1})
	}
	return out
}

// steps -------------------------------------------------------------------------------------------

type msgObs struct {
	Sent bool  `json:"sent"`
	Set  int   `json:"set"`
	Ids  []int `json:"ids"`
	Key  int   `json:"key"`
}

type trigObs struct {
	Blk    int      `json:"blk"`
	Ids    []int    `json:"ids"`
	Sorted bool     `json:"sorted"`
	Msg    msgObs   `json:"msg"`
	Sh     []AbsMsg `json:"sh"`
	// result of the trigger event as the key share handler set it (information; "shares exist
	// already" / "not a keyper" / "key generation failed" arrive as errors because the sentinel
	// ErrIgnoreDecryptionRequest only supplies the message text, see docs/notes/C07-e2e.md)
	Res string `json:"res"`
}

// judgeShares returns the eon number under whose key every share of the message is a genuine share
// of the sending keyper (real pairing check) and whose service signature is that keyper's; 0
// otherwise.
func (c *Cluster) judgeShares(k *Keyper, m *p2pmsg.DecryptionKeyShares) int {
	extra, ok := m.Extra.(*p2pmsg.DecryptionKeyShares_Service)
	if !ok || extra.Service == nil || m.InstanceId != InstanceID || int(m.KeyperIndex) >= NumKeypers || len(m.Shares) == 0 {
		return 0
	}
	var pre []identitypreimage.IdentityPreimage
	for _, sh := range m.Shares {
		pre = append(pre, identitypreimage.IdentityPreimage(sh.IdentityPreimage))
	}
	sd, err := serviceztypes.NewDecryptionSignatureData(m.InstanceId, m.Eon, pre)
	if err != nil {
		return 0
	}
	if valid, err := sd.CheckSignature(extra.Service.Signature, k.cfg.GetAddress()); err != nil || !valid {
		return 0
	}
	for s := 1; s <= 2; s++ {
		all := true
		for _, sh := range m.Shares {
			share := new(shcrypto.EpochSecretKeyShare)
			if err := share.Unmarshal(sh.Share); err != nil ||
				!shcrypto.VerifyEpochSecretKeyShare(share, c.W.Keys[s].EonPublicKeyShare(int(m.KeyperIndex)), shcrypto.ComputeEpochID(sh.IdentityPreimage)) {
				all = false
				break
			}
		}
		if all {
			return EonNo(s)
		}
	}
	return 0
}

func (c *Cluster) handleTrigger(k *Keyper, ev *broker.Event[*epochkghandler.DecryptionTrigger]) (trigObs, []prodObs, string) {
	tr := ev.Value
	o := trigObs{Blk: int(tr.BlockNumber), Ids: []int{}, Sorted: true, Msg: msgObs{Ids: []int{}}, Sh: []AbsMsg{}}
	for i, id := range tr.IdentityPreimages {
		o.Ids = append(o.Ids, c.W.Slot(id))
		if i > 0 && bytes.Compare(tr.IdentityPreimages[i-1], id) >= 0 {
			o.Sorted = false
		}
	}
	c.takeProd()
	errs := ""
	select {
	case k.trigB <- ev:
	case <-time.After(watchdog):
		panic("hang: key share handler does not take the trigger")
	}
	select {
	case r := <-ev.Result():
		if r.Error != nil {
			errs = r.Error.Error()
		}
	case <-time.After(watchdog):
		panic("hang: key share handler did not finish the trigger")
	}
	prod := c.takeProd()
	for _, p := range prod {
		o.Sh = append(o.Sh, p.M)
		if m, ok := p.raw.(*p2pmsg.DecryptionKeyShares); ok && !o.Msg.Sent {
			o.Msg = msgObs{Sent: true, Set: int(m.Eon), Ids: []int{}, Key: c.judgeShares(k, m)}
			for _, sh := range m.Shares {
				o.Msg.Ids = append(o.Msg.Ids, c.W.Slot(sh.IdentityPreimage))
			}
		}
	}
	return o, prod, errs
}

// pendingTriggers counts (and discards) decryption triggers that sit on any keyper's channel
// outside the processing of a block.
func (c *Cluster) pendingTriggers() int {
	n := 0
	for _, k := range c.Kp {
		for len(k.trigA) > 0 {
			<-k.trigA
			n++
		}
	}
	return n
}

// Proc lets keyper i process the head: the real processNewBlock, then every emitted trigger through
// the real key share handler.
func (c *Cluster) Proc(i int) J {
	k := c.Kp[i]
	pre := c.Abs(k)
	head := c.Eth.Head()
	// committed states of the trigger tables during the call (seen before every client message)
	var mu sync.Mutex
	var mseq []mSt
	last := fmt.Sprint(pre.M)
	observe := func() {
		var a mSt
		k.srv.View(func(db *fakepg.DB) { a = c.absM(db) })
		mu.Lock()
		if s := fmt.Sprint(a); s != last {
			last = s
			mseq = append(mseq, a)
		}
		mu.Unlock()
	}
	k.srv.SetFault(func(ev fakepg.Event) fakepg.Fault {
		if ev.IsMessage() {
			observe()
		}
		return fakepg.None
	})
	out := []trigObs{}
	prod := []prodObs{}
	errs := ""
	c.takeProd()
	panicked := guard(2*watchdog, func() {
		hdr := head.Header
		ev := &syncevent.LatestBlock{Number: number.BigToBlockNumber(hdr.Number), BlockHash: hdr.Hash(), Header: hdr}
		if err := k.kpr.VerifProcessNewBlock(c.ctx, ev); err != nil {
			errs = err.Error()
		}
		observe()
		k.srv.SetFault(nil)
		for len(k.trigA) > 0 {
			ev := <-k.trigA
			o, p, e := c.handleTrigger(k, ev)
			o.Res = e
			out = append(out, o)
			prod = append(prod, p...)
		}
	})
	k.srv.SetFault(nil)
	if mseq == nil {
		mseq = []mSt{}
	}
	var id int
	fmt.Sscanf(head.ID, "b%d", &id)
	k.lastID = id
	return J{"k": "proc", "n": i, "h": id, "pre": pre, "post": c.Abs(k), "mseq": mseq, "out": out, "prod": prod,
		"err": errs, "panic": panicked, "tabs": c.Tabs()}
}

// Dlv delivers the packet (m, dest).
func (c *Cluster) Dlv(dest int, m AbsMsg, drain bool) J {
	line := J{"k": "dlv", "n": dest, "m": m, "verdict": "-", "prod": []prodObs{}, "err": "", "panic": "", "missing": false, "drain": drain}
	k := c.find(m, dest)
	if k < 0 {
		line["missing"] = true
	} else {
		c.takeProd()
		var v, e string
		line["panic"] = guard(2*watchdog, func() { v, e = c.deliver(k) })
		line["verdict"], line["err"] = v, e
		line["prod"] = c.takeProd()
	}
	line["trig"] = c.pendingTriggers()
	line["ksn"] = c.Abs(c.Kp[dest])
	line["tabs"] = c.Tabs()
	return line
}

// Drop loses the packet (m, dest).
func (c *Cluster) Drop(dest int, m AbsMsg) J {
	k := c.find(m, dest)
	if k >= 0 {
		c.inflight = append(c.inflight[:k:k], c.inflight[k+1:]...)
	}
	return J{"k": "drop", "n": dest, "m": m, "missing": k < 0}
}

// End is the end-of-behaviour line.
func (c *Cluster) End() J {
	var ks []ksSt
	for _, k := range c.Kp {
		ks = append(ks, c.Abs(k))
	}
	return J{"k": "end", "pending": len(c.inflight), "ks": ks, "tabs": c.Tabs()}
}

// Pins returns fakepg pin mismatches of all databases (repository SQL changed).
func (c *Cluster) Pins() []string {
	var out []string
	for _, k := range c.Kp {
		out = append(out, k.srv.PinMismatches()...)
	}
	return out
}
