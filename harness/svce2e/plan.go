package svce2e

import (
	"encoding/json"
	"fmt"
	"sort"
	"strings"
	"time"

	"verif/harness/core"
	"verif/harness/tlc"
)

// Plan is one constant assignment of ServiceE2EMC.tla.
type Plan struct {
	Name      string `json:"name"`
	Designed  []int  `json:"designed"`     // indices into Designed of the spec
	UniIdx    []int  `json:"uniIdx"`       // seeded universe numbers, decoded by the spec (UniAt)
	NB        int    `json:"nb"`           // chain length of the seeded universes
	MaxLoss   int    `json:"maxLoss"`      // lost share messages per receiver
	LossTotal int    `json:"maxLossTotal"` // lost share messages per behaviour (state-space bound)
	ProcNet   int    `json:"procNet"`      // packets that may be in flight when a keyper starts on a block (state-space bound)
	Order     string `json:"order"`        // "fifo" | "any"
	AllowFork bool   `json:"allowFork"`
	Fetch     string `json:"fetch"`
	Sample    int    `json:"sample"` // behaviours replayed (0 = all printed)
	EMod      int    `json:"emod"`
	Workers   int    `json:"workers"`
	TimeoutS  int    `json:"timeoutS"`
}

func intSeq(xs []int) string {
	var p []string
	for _, x := range xs {
		p = append(p, fmt.Sprint(x))
	}
	return "<<" + strings.Join(p, ", ") + ">>"
}

func tlaBool(b bool) string {
	if b {
		return "TRUE"
	}
	return "FALSE"
}

func (p Plan) modName(prefix string) string {
	return prefix + strings.NewReplacer("-", "_", ".", "_").Replace(p.Name)
}

func (p Plan) consts() string {
	return fmt.Sprintf(" NI = %d\n NT = %d\n K = %d\n T = %d\n Fetch = %q\n", NI, NT, NumKeypers, Threshold, p.Fetch)
}

func (p Plan) mcFiles(phase int) (string, map[string][]byte, string) {
	mod := p.modName("MCgen_svce2e_")
	body := fmt.Sprintf("---- MODULE %s ----\nEXTENDS ServiceE2EMC\ncDesigned == %s\ncUni == %s\n====\n", mod, intSeq(p.Designed), intSeq(p.UniIdx))
	emod := p.EMod
	if emod < 1 {
		emod = 1
	}
	cfg := "CONSTANTS\n" + p.consts() + fmt.Sprintf(" DesignedIdx <- cDesigned\n UniIdx <- cUni\n NB = %d\n MaxLoss = %d\n MaxLossTotal = %d\n ProcNet = %d\n Order = %q\n AllowKnown = TRUE\n AllowFork = %s\n Emit = TRUE\n EMod = %d\n EPhase = %d\n",
		p.NB, p.MaxLoss, p.LossTotal, p.ProcNet, p.Order, tlaBool(p.AllowFork), emod, phase%emod) +
		"SPECIFICATION Spec\nINVARIANT KeysOK\nPROPERTY StepOK\nVIEW View\nCHECK_DEADLOCK FALSE\n"
	return mod, map[string][]byte{mod + ".tla": []byte(body)}, cfg
}

func (p Plan) trFiles(trace []byte) (string, map[string][]byte, string) {
	mod := p.modName("TRgen_svce2e_")
	body := fmt.Sprintf("---- MODULE %s ----\nEXTENDS ServiceE2ETrace\n====\n", mod)
	cfg := "CONSTANTS\n" + p.consts() + " TraceFile = \"trace.ndjson\"\nSPECIFICATION TSpec\nINVARIANT Done\nCHECK_DEADLOCK FALSE\n"
	return mod, map[string][]byte{mod + ".tla": []byte(body), "trace.ndjson": trace}, cfg
}

// Tag is what the spec says about a proc step of a printed behaviour.
type Tag struct {
	Emit int      `json:"emit"`
	Sent int      `json:"sent"`
	D6   bool     `json:"d6"`
	Rng  int      `json:"rng"`
	Rb   bool     `json:"rb"`
	X    []string `json:"x"`
}

// Action is one step of a behaviour.
type Action struct {
	A  string `json:"a"` // mine | fork | proc | dlv | drop
	N  int    `json:"n"`
	M  AbsMsg `json:"m"`
	Tg *Tag   `json:"tg,omitempty"`
}

// Behaviour is one complete behaviour printed by TLC.
type Behaviour struct {
	UI    int      `json:"ui"`
	Sched []Action `json:"sched"`
	Info  []string `json:"info"`
}

func (b Behaviour) has(f func(Action) bool) bool {
	for _, a := range b.Sched {
		if f(a) {
			return true
		}
	}
	return false
}

// class is the stratum of a behaviour for the seeded selection.
func (b Behaviour) class() string {
	var p []string
	if b.has(func(a Action) bool { return a.Tg != nil && a.Tg.D6 }) {
		p = append(p, "d6")
	}
	if b.has(func(a Action) bool { return a.Tg != nil && a.Tg.Rb }) {
		p = append(p, "rollback")
	}
	if b.has(func(a Action) bool { return a.Tg != nil && len(a.Tg.X) > 0 }) {
		p = append(p, "retrigger")
	}
	if b.has(func(a Action) bool { return a.A == "fork" }) {
		p = append(p, "fork")
	}
	if b.has(func(a Action) bool { return a.A == "drop" }) {
		p = append(p, "drop")
	}
	info := append([]string{}, b.Info...)
	sort.Strings(info)
	p = append(p, info...)
	return strings.Join(p, "+")
}

func (b Behaviour) text() string {
	var p []string
	for _, a := range b.Sched {
		switch a.A {
		case "mine", "fork":
			p = append(p, a.A)
		case "proc":
			p = append(p, fmt.Sprintf("proc(%d)", a.N))
		default:
			p = append(p, fmt.Sprintf("%s(%s%v from %d to %d)", a.A, a.M.T, a.M.R, a.M.From, a.N))
		}
	}
	return strings.Join(p, " ")
}

// Gen is what TLC produced for one plan.
type Gen struct {
	Plan     Plan
	Unis     []Uni
	Lists    [][]int
	UniCount int
	Behs     []Behaviour
	States   int
	Distinct int
	Depth    int
	Wall     float64
}

// Generate runs TLC on the composed model and collects the universes and printed behaviours.
func Generate(c *core.Ctx, p Plan) (*Gen, error) {
	mod, files, cfg := p.mcFiles(int(c.Seed%1000+1000) % 1000)
	to := time.Duration(p.TimeoutS) * time.Second
	if to <= 0 {
		to = 10 * time.Minute
	}
	res, err := tlc.Run(tlc.Opts{Module: mod, CfgText: cfg, Files: files, Workers: p.Workers, Timeout: to, HeapGB: 8})
	if err != nil {
		return nil, err
	}
	if res.Errored != "" {
		return nil, fmt.Errorf("TLC error (%s): %s\n%s", p.Name, res.Errored, res.Tail(30))
	}
	if res.TimedOut {
		return nil, fmt.Errorf("TLC timeout after %s (%s)", to, p.Name)
	}
	if res.Violation {
		// a spec-level counterexample is a lead, not a verdict; the composed model is expected to
		// satisfy its own property layer
		return nil, fmt.Errorf("the composed model violates its property layer (%s): %s\n%s", p.Name, res.ViolatedWhat, res.Tail(60))
	}
	if !res.Completed {
		return nil, fmt.Errorf("TLC did not complete (%s)\n%s", p.Name, res.Tail(30))
	}
	g := &Gen{Plan: p, States: res.States, Distinct: res.Distinct, Depth: res.Depth, Wall: res.Wall.Seconds()}
	if err := res.TaggedJSON("UNIS", &g.Unis); err != nil {
		return nil, err
	}
	var cst struct {
		Lists    [][]int `json:"lists"`
		UniCount int     `json:"unicount"`
	}
	if err := res.TaggedJSON("CONST", &cst); err != nil {
		return nil, err
	}
	g.Lists, g.UniCount = cst.Lists, cst.UniCount
	for _, raw := range res.Tagged["B"] {
		s, err := tlc.UnquoteTLA(raw)
		if err != nil {
			return nil, err
		}
		var b Behaviour
		if err := json.Unmarshal([]byte(s), &b); err != nil {
			return nil, fmt.Errorf("behaviour: %v: %.200s", err, s)
		}
		g.Behs = append(g.Behs, b)
	}
	// TLC's print order depends on worker scheduling: make the set canonical
	sort.Slice(g.Behs, func(i, j int) bool {
		if g.Behs[i].UI != g.Behs[j].UI {
			return g.Behs[i].UI < g.Behs[j].UI
		}
		return g.Behs[i].text() < g.Behs[j].text()
	})
	return g, nil
}
