package svce2e

import (
	"fmt"
	"os"
)

// Line is one ndjson trace line together with the behaviour it belongs to.
type Line struct {
	J   J
	Run int
}

// Run is one behaviour executed on the real code.
type Run struct {
	Plan  Plan
	UI    int
	U     Uni
	Beh   Behaviour
	Lists [][]int
	Seed  int64
	No    int

	Lines   []Line
	Err     error
	Steps   int
	Drained int
	Pins    []string
	Emitted int // triggers emitted
	Shares  int // share messages sent
	Keys    int // keys messages sent
}

func corrupt(what string, line J) {
	// binding self-check (development aid): VERIF_SVCE2E_CORRUPT=ids puts an unregistered identity in
	// front of the first emitted trigger; =key marks the first judged key as wrong
	switch os.Getenv("VERIF_SVCE2E_CORRUPT") {
	case "ids":
		if what == "proc" {
			if out, ok := line["out"].([]trigObs); ok && len(out) > 0 {
				out[0].Ids = append([]int{9}, out[0].Ids...)
			}
		}
	case "key":
		if what == "end" {
			if tabs, ok := line["tabs"].([]any); ok && len(tabs) > 0 {
				if t, ok := tabs[0].(J); ok {
					ks := t["keys"].([]string)
					for i := range ks {
						if ks[i] == "good" {
							ks[i] = "bad"
							break
						}
					}
				}
			}
		}
	}
}

// Execute runs the whole behaviour on the real code and records the trace lines.
func (r *Run) Execute() {
	emit := func(j J) {
		j["run"] = r.No
		r.Lines = append(r.Lines, Line{J: j, Run: r.No})
	}
	w := NewWorld(r.Seed, r.Lists)
	u := r.U
	c, err := NewCluster(w, &u)
	if err != nil {
		r.Err = err
		return
	}
	defer c.Close()
	var ks []ksSt
	for _, k := range c.Kp {
		ks = append(ks, c.Abs(k))
	}
	emit(J{"k": "new", "ui": r.UI, "u": J{"idset": u.IdSet, "trset": u.TrSet, "kind": u.Kind, "act": u.Act}, "ks": ks, "tabs": c.Tabs()})
	for _, a := range r.Beh.Sched {
		r.Steps++
		switch a.A {
		case "mine", "fork":
			par := c.Canon
			var content BlkSpec
			if a.A == "mine" {
				n := c.nums[c.Canon-1] + 1
				if n > len(u.Chain) {
					r.Err = fmt.Errorf("behaviour mines block %d of a chain of %d", n, len(u.Chain))
					return
				}
				content = u.Chain[n-1]
			} else {
				par = c.Blk[c.Canon-1]["par"].(int)
				content = u.Fork.B
			}
			id, b := c.Mine(par, content)
			emit(J{"k": "mine", "id": id, "b": b})
		case "proc":
			line := c.Proc(a.N)
			out := line["out"].([]trigObs)
			r.Emitted += len(out)
			for _, p := range line["prod"].([]prodObs) {
				if p.M.T == "shares" {
					r.Shares++
				}
			}
			corrupt("proc", line)
			emit(line)
		case "dlv":
			line := c.Dlv(a.N, a.M, false)
			for _, p := range line["prod"].([]prodObs) {
				if p.M.T == "keys" {
					r.Keys++
				}
			}
			emit(line)
		case "drop":
			emit(c.Drop(a.N, a.M))
		default:
			r.Err = fmt.Errorf("unknown action %q", a.A)
			return
		}
	}
	// anything the real nodes still have in flight (the model had nothing): deliver FIFO, marked
	for len(c.inflight) > 0 && r.Drained < 200 {
		p := c.inflight[0]
		emit(c.Dlv(p.dest, p.abs, true))
		r.Drained++
	}
	end := c.End()
	corrupt("end", end)
	emit(end)
	r.Pins = c.Pins()
}
