// Package svce2e binds the composed specification specs/ServiceE2E*.tla (registration on the main
// chain -> synced into each keyper's database -> release condition -> decryption trigger -> key
// shares over gossip -> keys released -> decrypted flags) to the real code of the shutter-service
// flavour: per keyper one Postgres fake, the real RegistrySyncer and MultiEventSyncer (with both
// processors) against one shared in-process Ethereum node, the real
// shutterservice.Keyper.processNewBlock, the real KeyShareHandler behind the real service
// MessagingMiddleware, the real service and core message handlers and topic validators joined by a
// simulated network. Growth stage of property C02 (binary vsvce2e).
package svce2e

import (
	"bytes"
	"crypto/ecdsa"
	"crypto/sha256"
	"fmt"
	"math/big"

	"github.com/ethereum/go-ethereum/common"
	"github.com/ethereum/go-ethereum/crypto"
	"github.com/shutter-network/shutter/shlib/puredkg"
	"github.com/shutter-network/shutter/shlib/shcrypto"

	"github.com/shutter-network/rolling-shutter/rolling-shutter/keyperimpl/shutterservice"
	"github.com/shutter-network/rolling-shutter/rolling-shutter/medley/identitypreimage"
	"github.com/shutter-network/rolling-shutter/rolling-shutter/medley/testkeygen"

	"verif/harness/fakeeth"
)

type J = map[string]any

const (
	NumKeypers = 3
	Threshold  = 2
	NI         = 2
	NT         = 1
	InstanceID = uint64(42)
	MaxKeys    = uint64(16)
	OkSet      = 1
)

// EonNo is the eon number of keyper set s (differs from the keyper config index on purpose).
func EonNo(s int) int { return 10 + s }

// abstract values shared with ServiceE2E*.tla ------------------------------------------------------

// BlkSpec is the content of one block of a universe's chain.
type BlkSpec struct {
	Evs []string `json:"evs"`
	Exp int      `json:"exp"`
	Ts  []int    `json:"ts"`
}

// Uni is the record u of the spec (static scenario, chain contents, keyper schedules).
type Uni struct {
	Name  string    `json:"name"`
	Chain []BlkSpec `json:"chain"`
	Fork  struct {
		At int     `json:"at"`
		B  BlkSpec `json:"b"`
	} `json:"fork"`
	IdSet []int    `json:"idset"`
	TrSet []int    `json:"trset"`
	Kind  []string `json:"kind"`
	Act   []int    `json:"act"`
	Sched [][]int  `json:"sched"`
}

// AbsMsg is a message of specs/Gossip.tla (r = index of the identity list in Lists).
type AbsMsg struct {
	T       string `json:"t"`
	From    int    `json:"from"`
	R       int    `json:"r"`
	X       int    `json:"x"`
	Signers []int  `json:"signers"`
}

func (a AbsMsg) key() string { return fmt.Sprintf("%s/%d/%d/%d/%v", a.T, a.From, a.R, a.X, a.Signers) }

// deterministic randomness -------------------------------------------------------------------------

type detReader struct{ state [32]byte }

func newDetReader(label string) *detReader { return &detReader{state: sha256.Sum256([]byte(label))} }

func (d *detReader) Read(p []byte) (int, error) {
	n := 0
	for n < len(p) {
		d.state = sha256.Sum256(d.state[:])
		n += copy(p[n:], d.state[:])
	}
	return len(p), nil
}

func detKey(label string) *ecdsa.PrivateKey {
	for i := 0; ; i++ {
		h := sha256.Sum256([]byte(fmt.Sprintf("%s/%d", label, i)))
		if k, err := crypto.ToECDSA(h[:]); err == nil {
			return k
		}
	}
}

var (
	addrRegistry = common.HexToAddress("0x00000000000000000000000000000000000e2e01")
	addrTrigReg  = common.HexToAddress("0x00000000000000000000000000000000000e2e02")
	addrTarget   = common.HexToAddress("0x00000000000000000000000000000000000e2e04")
	addrOther    = common.HexToAddress("0x00000000000000000000000000000000000e2e05")
	sigFired     = crypto.Keccak256Hash([]byte("Something(bytes32,uint256)"))
)

// World holds the real key material and identities behind the abstract tokens. It does not depend
// on the universe.
type World struct {
	Seed    int64
	Keys    [3]*testkeygen.EonKeys // by keyper set index (1, 2): trusted-dealer key material of eon EonNo(s)
	Keypers []*ecdsa.PrivateKey    // the K keypers (set 1; also set 2 when its kind is "failed")
	Foreign []*ecdsa.PrivateKey    // the keypers of a "foreign" set 2
	Prefix  map[int][32]byte       // slot -> identity prefix
	Sender  map[int]common.Address
	Ident   map[int][]byte // slot -> identity preimage as the repository computes it
	Def     map[int][]byte // trigger j -> definition bytes
	Topic   map[int]common.Hash
	slotOf  map[string]int
	Lists   [][]int  // Lists of the spec (identity slots per list), index r-1
	idHash  [][]byte // identities hash of list r at r-1
	plain   []byte
	enc     map[int]*shcrypto.EncryptedMessage
	trueKey map[int]*shcrypto.EpochSecretKey
}

func word(n int64) []byte { return common.LeftPadBytes(big.NewInt(n).Bytes(), 32) }

// NewWorld builds key material and identities. lists are the identity lists of the spec (CONST line).
func NewWorld(seed int64, lists [][]int) *World {
	w := &World{Seed: seed, Prefix: map[int][32]byte{}, Sender: map[int]common.Address{}, Ident: map[int][]byte{},
		Def: map[int][]byte{}, Topic: map[int]common.Hash{}, slotOf: map[string]int{}, Lists: lists,
		plain: []byte("verif: a message encrypted to the eon key"), enc: map[int]*shcrypto.EncryptedMessage{}, trueKey: map[int]*shcrypto.EpochSecretKey{}}
	for s := 1; s <= 2; s++ {
		k, err := testkeygen.NewEonKeys(newDetReader(fmt.Sprintf("svce2e-eon-%d-%d", seed, s)), NumKeypers, Threshold)
		if err != nil {
			panic(err)
		}
		w.Keys[s] = k
	}
	for i := 0; i < NumKeypers; i++ {
		w.Keypers = append(w.Keypers, detKey(fmt.Sprintf("svce2e-keyper-%d-%d", seed, i)))
		w.Foreign = append(w.Foreign, detKey(fmt.Sprintf("svce2e-foreign-%d-%d", seed, i)))
	}
	for j := 1; j <= NT; j++ {
		w.Topic[j] = crypto.Keccak256Hash([]byte(fmt.Sprintf("svce2e-topic-%d-%d", seed, j)))
		d := shutterservice.EventTriggerDefinition{
			Contract: addrTarget,
			LogPredicates: []shutterservice.LogPredicate{
				{LogValueRef: shutterservice.LogValueRef{Offset: 0}, ValuePredicate: shutterservice.ValuePredicate{Op: shutterservice.BytesEq, ByteArgs: [][]byte{sigFired.Bytes()}}},
				{LogValueRef: shutterservice.LogValueRef{Offset: 1}, ValuePredicate: shutterservice.ValuePredicate{Op: shutterservice.BytesEq, ByteArgs: [][]byte{w.Topic[j].Bytes()}}},
				{LogValueRef: shutterservice.LogValueRef{Offset: 4}, ValuePredicate: shutterservice.ValuePredicate{Op: shutterservice.UintGte, IntArgs: []*big.Int{big.NewInt(100)}}},
			},
		}
		if err := d.Validate(); err != nil {
			panic(err)
		}
		w.Def[j] = d.MarshalBytes()
	}
	// identity = keccak256(prefix || sender [|| definition]) as computeIdentity /
	// computeEventTriggerIdentity do; the prefix is searched so that the first byte is 16*slot:
	// bytes.Compare order = slot order (registration order and timestamp order differ from it)
	for x := 1; x <= NI+NT; x++ {
		sh := sha256.Sum256([]byte(fmt.Sprintf("svce2e-sender-%d-%d", seed, x)))
		w.Sender[x] = common.BytesToAddress(sh[:20])
		for nonce := 0; ; nonce++ {
			p := sha256.Sum256([]byte(fmt.Sprintf("svce2e-prefix-%d-%d-%d", seed, x, nonce)))
			buf := append(append([]byte{}, p[:]...), w.Sender[x].Bytes()...)
			if x > NI {
				buf = append(buf, w.Def[x-NI]...)
			}
			id := crypto.Keccak256(buf)
			if int(id[0]) == 16*x {
				w.Prefix[x], w.Ident[x] = p, id
				w.slotOf[string(id)] = x
				break
			}
		}
		sigma, _ := shcrypto.RandomSigma(newDetReader(fmt.Sprintf("svce2e-sigma-%d-%d", seed, x)))
		w.enc[x] = shcrypto.Encrypt(w.plain, w.Keys[OkSet].EonPublicKey(), shcrypto.ComputeEpochID(w.Ident[x]), sigma)
		k, err := w.Keys[OkSet].EpochSecretKey(identitypreimage.IdentityPreimage(w.Ident[x]))
		if err != nil {
			panic(err)
		}
		w.trueKey[x] = k
	}
	for _, l := range lists {
		var pre []identitypreimage.IdentityPreimage
		for _, x := range l {
			pre = append(pre, identitypreimage.IdentityPreimage(w.Ident[x]))
		}
		w.idHash = append(w.idHash, shutterservice.VerifGossipIdentitiesHash(pre))
	}
	return w
}

// Slot maps identity bytes to the slot (0: not an identity of this world).
func (w *World) Slot(id []byte) int { return w.slotOf[string(id)] }

// ListOf returns the index (1-based) of the list whose identities are exactly ids, 0 if none.
func (w *World) ListOf(ids [][]byte) int {
	for r, l := range w.Lists {
		if len(l) != len(ids) {
			continue
		}
		same := true
		for k, x := range l {
			if !bytes.Equal(w.Ident[x], ids[k]) {
				same = false
			}
		}
		if same {
			return r + 1
		}
	}
	return 0
}

func (w *World) listOfHash(h []byte) int {
	for r, x := range w.idHash {
		if bytes.Equal(x, h) {
			return r + 1
		}
	}
	return 0
}

// PureResult is the DKG result keyper k holds for keyper set s.
func (w *World) PureResult(s, k int) *puredkg.Result {
	var pks []*shcrypto.EonPublicKeyShare
	for i := 0; i < NumKeypers; i++ {
		pks = append(pks, w.Keys[s].EonPublicKeyShare(i))
	}
	return &puredkg.Result{
		Eon: uint64(EonNo(s)), NumKeypers: NumKeypers, Threshold: Threshold, Keyper: uint64(k),
		SecretKeyShare: w.Keys[s].EonSecretKeyShare(k), PublicKey: w.Keys[s].EonPublicKey(), PublicKeyShares: pks,
	}
}

// JudgeKey classifies stored key bytes of slot x: "good" iff byte-equal to the dealer's epoch secret
// key AND it decrypts the message encrypted to the eon public key for that identity.
func (w *World) JudgeKey(x int, raw []byte) string {
	key := new(shcrypto.EpochSecretKey)
	if err := key.Unmarshal(raw); err != nil {
		return "bad"
	}
	if !bytes.Equal(key.Marshal(), w.trueKey[x].Marshal()) {
		return "bad"
	}
	pt, err := w.enc[x].Decrypt(key)
	if err != nil || !bytes.Equal(pt, w.plain) {
		return "bad"
	}
	return "good"
}

// ShareValid reports whether raw is keyper s's genuine share for slot x under set 1's key.
func (w *World) ShareValid(s, x int, raw []byte) bool {
	if s < 0 || s >= NumKeypers {
		return false
	}
	return bytes.Equal(w.Keys[OkSet].EpochSecretKeyShare(identitypreimage.IdentityPreimage(w.Ident[x]), s).Marshal(), raw)
}

// time: block n has the abstract time 2n; the fake node gives it base + 5n -----------------------

func realTime(base uint64, a int) uint64 { return base + uint64(5*(a/2)+2*(a%2)) }

func absTime(base uint64, r uint64) int {
	if r < base {
		return -98
	}
	d := r - base
	switch d % 5 {
	case 0:
		return int(2 * (d / 5))
	case 2:
		return int(2*(d/5) + 1)
	}
	return -99
}

// tokenLogs concretises the entries of one block.
func (w *World) tokenLogs(u *Uni, base uint64, b BlkSpec, blockID int) []fakeeth.LogSpec {
	var logs []fakeeth.LogSpec
	evs := append([]string{}, b.Evs...)
	// the order of the logs inside the block rotates with the seed
	if (int(w.Seed)+blockID)%2 == 1 {
		for i, j := 0, len(evs)-1; i < j; i, j = i+1, j-1 {
			evs[i], evs[j] = evs[j], evs[i]
		}
	}
	for _, tok := range evs {
		switch tok[0] {
		case 'i':
			x := int(tok[1] - '0')
			logs = append(logs, fakeeth.IdentityRegistered(addrRegistry, uint64(u.IdSet[x-1]), w.Prefix[x], w.Sender[x], realTime(base, b.Ts[x-1])))
		case 'r':
			j := int(tok[1] - '0')
			logs = append(logs, fakeeth.EventTriggerRegistered(addrTrigReg, uint64(u.TrSet[j-1]), w.Prefix[NI+j], w.Sender[NI+j], w.Def[j], uint64(b.Exp)))
		case 'l':
			j := int(tok[1] - '0')
			logs = append(logs, fakeeth.LogSpec{Address: addrTarget, Topics: []common.Hash{sigFired, w.Topic[j]}, Data: append(word(150+w.Seed%50), word(7)...)})
		default: // "o": a log that matches nobody, in rotating ways
			switch (blockID + int(w.Seed) + 4) % 4 {
			case 0: // passes trigger 1's topic filter, fails its data predicate
				logs = append(logs, fakeeth.LogSpec{Address: addrTarget, Topics: []common.Hash{sigFired, w.Topic[1]}, Data: word(99)})
			case 1: // right contract and signature, nobody's topic
				logs = append(logs, fakeeth.LogSpec{Address: addrTarget, Topics: []common.Hash{sigFired, crypto.Keccak256Hash([]byte("nobody"))}, Data: word(500)})
			case 2: // trigger 1's log emitted by another contract
				logs = append(logs, fakeeth.LogSpec{Address: addrOther, Topics: []common.Hash{sigFired, w.Topic[1]}, Data: word(150)})
			default: // right topics, data too short (zero padded: 0 < 100)
				logs = append(logs, fakeeth.LogSpec{Address: addrTarget, Topics: []common.Hash{sigFired, w.Topic[1]}, Data: []byte{}})
			}
		}
	}
	return logs
}
