package svce2e

import (
	"bytes"
	"encoding/json"
	"fmt"
	"math/rand"
	"os"
	"sort"
	"strings"
	"sync"
	"time"

	"verif/harness/core"
	"verif/harness/ev"
	"verif/harness/tlc"
)

const (
	evidencePath = "/verif/evidence/C02.json"
)

// seeded universe numbers: the spec decodes them (UniAt); the harness only supplies numbers
func seededUnis(seed int64, salt int64, n int) []int {
	rng := rand.New(rand.NewSource(seed*104729 + salt))
	var out []int
	for i := 0; i < n; i++ {
		out = append(out, int(rng.Int63n(1<<30)))
	}
	return out
}

func plans(c *core.Ctx) []Plan {
	s := int(c.Seed%60+60) % 60
	full := 99 // ProcNet: no bound on the packets in flight when a keyper starts on a block
	if !c.Thorough() {
		// universe 6 (three blocks; keyper 1 syncs registration and log in one range: the witness of
		// known finding D6) is in every run; the other designed universes rotate with the seed.
		// Universe 5 (two identity lists in flight at once: 3*10^5 states) is left to the bounded plan.
		rot := []int{1, 2, 3, 4}
		other := []int{1, 2, 3, 4, 5}
		return []Plan{
			{Name: "fifo-full", Designed: []int{6, 8, rot[s%4]}, NB: 4, MaxLoss: 1, LossTotal: 3, ProcNet: full, Order: "fifo", Fetch: "before", Sample: 120, Workers: 4, TimeoutS: 300},
			{Name: "any-p2", Designed: []int{6, 7, 8, other[(s+1)%5], other[(s+3)%5]}, NB: 4, MaxLoss: 1, LossTotal: 3, ProcNet: 2, Order: "any", Fetch: "before", Sample: 150, Workers: 4, TimeoutS: 300},
			// seeded universes: variety of chain contents and keyper schedules; their size is not known in
			// advance, so the keypers start on a block only when the network is drained (ProcNet 0)
			{Name: "seq-seeded", UniIdx: seededUnis(c.Seed, 1, 12), NB: 4, MaxLoss: 1, LossTotal: 3, ProcNet: 0, Order: "fifo", Fetch: "before", Sample: 0, Workers: 3, TimeoutS: 240},
		}
	}
	return []Plan{
		{Name: "fifo-full-fork", Designed: []int{1, 2, 3, 4, 5, 6, 7, 8}, NB: 4, MaxLoss: 1, LossTotal: 3, ProcNet: full, Order: "fifo", AllowFork: true, Fetch: "before", Sample: 1200, Workers: 8, TimeoutS: 3000},
		{Name: "any-full", Designed: []int{2, 6, 7, 8}, NB: 4, MaxLoss: 1, LossTotal: 3, ProcNet: full, Order: "any", Fetch: "before", Sample: 500, Workers: 8, TimeoutS: 3000},
		{Name: "any-p2-fork", Designed: []int{1, 2, 3, 4, 5, 6, 7, 8}, NB: 4, MaxLoss: 1, LossTotal: 3, ProcNet: 2, Order: "any", AllowFork: true, Fetch: "before", Sample: 700, Workers: 8, TimeoutS: 3000},
		{Name: "seq-seeded", UniIdx: seededUnis(c.Seed, 1, 60), NB: 5, MaxLoss: 1, LossTotal: 3, ProcNet: 0, Order: "fifo", Fetch: "before", Sample: 900, Workers: 8, TimeoutS: 3000},
		{Name: "p1-seeded", UniIdx: seededUnis(c.Seed, 2, 10), NB: 4, MaxLoss: 1, LossTotal: 3, ProcNet: 1, Order: "fifo", Fetch: "before", Sample: 400, Workers: 8, TimeoutS: 3000},
	}
}

// VResult is the RESULT record printed by ServiceE2ETrace.
type VResult struct {
	Lines int     `json:"lines"`
	Viol  [][]any `json:"viol"`
	Drift []int   `json:"drift"`
	Info  [][]any `json:"info"`
}

func validate(p Plan, trace []byte) (*VResult, error) {
	mod, files, cfg := p.trFiles(trace)
	res, err := tlc.Run(tlc.Opts{Module: mod, CfgText: cfg, Files: files, Workers: 1, Timeout: 30 * time.Minute, HeapGB: 6})
	if err != nil {
		return nil, err
	}
	if res.Errored != "" {
		return nil, fmt.Errorf("TLC error during trace validation (%s): %s\n%s", p.Name, res.Errored, res.Tail(30))
	}
	var vr VResult
	if err := res.TaggedJSON("RESULT", &vr); err != nil {
		return nil, fmt.Errorf("trace validation did not reach the end of the trace (%s): %v\n%s", p.Name, err, res.Tail(30))
	}
	return &vr, nil
}

// Finding is one monitor failure on an observed run.
type Finding struct {
	Monitor string
	Line    J
	run     *Run
}

// ReplayFile is what a VIOLATION line points to.
type ReplayFile struct {
	Prop    string    `json:"prop"`
	Stage   string    `json:"stage"`
	Seed    int64     `json:"seed"`
	Plan    Plan      `json:"plan"`
	UI      int       `json:"ui"`
	U       Uni       `json:"u"`
	Lists   [][]int   `json:"lists"`
	Beh     Behaviour `json:"beh"`
	Monitor string    `json:"monitor"`
	Line    J         `json:"line"`
}

type outcome struct {
	gen      *Gen
	runs     []*Run
	lines    int
	steps    int
	drained  int
	emitted  int
	shares   int
	keys     int
	findings []Finding
	infos    map[string][]Finding
	drift    []Line
	driftN   int
	classes  map[string]int
	replayS  float64
	validS   float64
}

// pick selects the behaviours to replay: equal quota per universe, inside a universe every class
// (D6 hit, rollback, fork, loss, information monitors) first, then seeded at random.
func pick(c *core.Ctx, g *Gen) []Behaviour {
	if g.Plan.Sample <= 0 || len(g.Behs) <= g.Plan.Sample {
		return g.Behs
	}
	byU := map[int][]Behaviour{}
	var uis []int
	for _, b := range g.Behs {
		if byU[b.UI] == nil {
			uis = append(uis, b.UI)
		}
		byU[b.UI] = append(byU[b.UI], b)
	}
	sort.Ints(uis)
	quota := g.Plan.Sample / len(uis)
	if quota < 1 {
		quota = 1
	}
	rng := rand.New(rand.NewSource(c.Seed*7919 + int64(len(g.Behs))))
	var out []Behaviour
	for _, ui := range uis {
		l := byU[ui]
		rng.Shuffle(len(l), func(i, j int) { l[i], l[j] = l[j], l[i] })
		byC := map[string][]Behaviour{}
		var cs []string
		for _, b := range l {
			k := b.class()
			if byC[k] == nil {
				cs = append(cs, k)
			}
			byC[k] = append(byC[k], b)
		}
		sort.Strings(cs)
		n := 0
		for i := 0; n < quota; i++ {
			added := false
			for _, k := range cs {
				if i < len(byC[k]) && n < quota {
					out = append(out, byC[k][i])
					n++
					added = true
				}
			}
			if !added {
				break
			}
		}
	}
	return out
}

func marshalLines(ls []Line) ([]byte, error) {
	var buf bytes.Buffer
	for _, l := range ls {
		b, err := json.Marshal(l.J)
		if err != nil {
			return nil, err
		}
		buf.Write(b)
		buf.WriteByte('\n')
	}
	return buf.Bytes(), nil
}

func runPlan(c *core.Ctx, p Plan, replayWorkers int) (*outcome, error) {
	g, err := Generate(c, p)
	if err != nil {
		return nil, err
	}
	c.Logf("svce2e plan %s: TLC %d distinct states (%d generated, depth %d, %.1fs), %d universes, %d complete behaviours printed",
		p.Name, g.Distinct, g.States, g.Depth, g.Wall, len(g.Unis), len(g.Behs))
	out := &outcome{gen: g, infos: map[string][]Finding{}, classes: map[string]int{}}
	for i, b := range pick(c, g) {
		if b.UI < 1 || b.UI > len(g.Unis) {
			return nil, fmt.Errorf("behaviour names universe %d of %d", b.UI, len(g.Unis))
		}
		out.classes[b.class()]++
		out.runs = append(out.runs, &Run{Plan: p, UI: b.UI, U: g.Unis[b.UI-1], Beh: b, Lists: g.Lists, Seed: c.Seed*1000003 + int64(i), No: i + 1})
	}
	t0 := time.Now()
	var wg sync.WaitGroup
	sem := make(chan struct{}, replayWorkers)
	for _, r := range out.runs {
		wg.Add(1)
		go func(r *Run) {
			defer wg.Done()
			sem <- struct{}{}
			defer func() { <-sem }()
			r.Execute()
		}(r)
	}
	wg.Wait()
	out.replayS = time.Since(t0).Seconds()
	for _, r := range out.runs {
		if r.Err != nil {
			return nil, fmt.Errorf("plan %s universe %d run %d: %v", p.Name, r.UI, r.No, r.Err)
		}
		if len(r.Pins) > 0 {
			return nil, fmt.Errorf("fakepg pin mismatches (repository SQL changed): %v", r.Pins)
		}
		out.steps += r.Steps
		out.drained += r.Drained
		out.emitted += r.Emitted
		out.shares += r.Shares
		out.keys += r.Keys
	}
	// validate: chunks of whole behaviours
	t1 := time.Now()
	type chunk struct {
		lines []Line
		vr    *VResult
		err   error
	}
	var chunks []*chunk
	cur := &chunk{}
	for _, r := range out.runs {
		if len(cur.lines) > 0 && len(cur.lines)+len(r.Lines) > 700 {
			chunks = append(chunks, cur)
			cur = &chunk{}
		}
		cur.lines = append(cur.lines, r.Lines...)
	}
	if len(cur.lines) > 0 {
		chunks = append(chunks, cur)
	}
	vsem := make(chan struct{}, 4)
	for _, ch := range chunks {
		wg.Add(1)
		go func(ch *chunk) {
			defer wg.Done()
			vsem <- struct{}{}
			defer func() { <-vsem }()
			b, err := marshalLines(ch.lines)
			if err != nil {
				ch.err = err
				return
			}
			if d := os.Getenv("VERIF_SVCE2E_DUMP"); d != "" && ch == chunks[0] { // development aid
				_ = os.WriteFile(d+"-"+p.Name+".ndjson", b, 0o644)
			}
			ch.vr, ch.err = validate(p, b)
		}(ch)
	}
	wg.Wait()
	out.validS = time.Since(t1).Seconds()
	byNo := map[int]*Run{}
	for _, r := range out.runs {
		byNo[r.No] = r
	}
	at := func(ch *chunk, v []any) (string, Line, bool) {
		if len(v) != 2 {
			return "", Line{}, false
		}
		n, _ := v[0].(float64)
		m, _ := v[1].(string)
		if int(n) < 1 || int(n) > len(ch.lines) {
			return "", Line{}, false
		}
		return m, ch.lines[int(n)-1], true
	}
	for _, ch := range chunks {
		if ch.err != nil {
			return nil, ch.err
		}
		if ch.vr.Lines != len(ch.lines) {
			return nil, fmt.Errorf("trace validation consumed %d of %d lines", ch.vr.Lines, len(ch.lines))
		}
		out.lines += ch.vr.Lines
		for _, v := range ch.vr.Viol {
			if m, l, ok := at(ch, v); ok {
				out.findings = append(out.findings, Finding{Monitor: m, Line: l.J, run: byNo[l.Run]})
			}
		}
		for _, v := range ch.vr.Info {
			if m, l, ok := at(ch, v); ok {
				out.infos[m] = append(out.infos[m], Finding{Monitor: m, Line: l.J, run: byNo[l.Run]})
			}
		}
		for _, n := range ch.vr.Drift {
			out.driftN++
			if len(out.drift) < 3 && n >= 1 && n <= len(ch.lines) {
				out.drift = append(out.drift, ch.lines[n-1])
			}
		}
	}
	return out, nil
}

func brief(j J) string {
	c := J{}
	for k, v := range j {
		if k == "tabs" || k == "ks" || k == "ksn" {
			continue
		}
		c[k] = v
	}
	b, _ := json.Marshal(c)
	if len(b) > 900 {
		b = append(b[:900], "..."...)
	}
	return string(b)
}

// knownD6 looks the entry of known finding D6 (property C16) up: the composition meets it through
// E2 and must report it under its own name, not as a violation.
func knownD6() (core.Finding, bool) {
	for _, f := range core.LoadKnown().Findings {
		if f.ID == "D6" {
			return f, true
		}
	}
	return core.Finding{}, false
}

var observationText = map[string]string{
	"X_Flagged": "a keyper that sent shares for an identity list which reached the threshold ends without the decrypted flag of an identity of that list " +
		"(updateEventFlag runs only when a keys message is received and on the intercepted send path: a keyper that synced the registration after the keys " +
		"message arrived, or that published the keys through DecryptionKeySharesHandler, is flagged only if another keys message reaches it later)",
	"X_AllFlagged": "a keyper holds the key of an identity it has registered but its decrypted flag is not set",
	"X_ListsAgree": "an identity whose key is held by some keyper was sent in no identity list that reached the threshold of senders " +
		"(keypers that processed different block sequences put it into different lists; signatures are counted per list)",
	"X_ReTrigger": "after a rollback (reorg) the decrypted flag of a re-synced registration is lost and the identity is triggered again " +
		"(the key share handler answers 'shares exist already')",
}

// Check runs the composed check (growth stage of ./check C02).
func Check(c *core.Ctx) int {
	if c.Replay != "" {
		return Replay(c)
	}
	ps := plans(c)
	if only := os.Getenv("VERIF_SVCE2E_ONLY"); only != "" { // development aid: substring of the plan name
		var keep []Plan
		for _, p := range ps {
			if strings.Contains(p.Name, only) {
				keep = append(keep, p)
			}
		}
		ps = keep
	}
	outs := make([]*outcome, len(ps))
	errs := make([]error, len(ps))
	// prepareTimeBasedTriggers prints debugging output with fmt.Println: silence stdout while the
	// repository code runs
	stdout := os.Stdout
	if devnull, err := os.OpenFile(os.DevNull, os.O_WRONLY, 0); err == nil {
		os.Stdout = devnull
		defer devnull.Close()
	}
	restore := func() { os.Stdout = stdout }
	defer restore()
	par, replayWorkers := 3, 5
	if c.Thorough() {
		par, replayWorkers = 1, 10
	}
	sem := make(chan struct{}, par)
	var wg sync.WaitGroup
	for i := range ps {
		wg.Add(1)
		go func(i int) {
			defer wg.Done()
			sem <- struct{}{}
			defer func() { <-sem }()
			outs[i], errs[i] = runPlan(c, ps[i], replayWorkers)
			if errs[i] == nil {
				o := outs[i]
				c.Logf("svce2e plan %s: %d behaviours / %d steps (%d drained) replayed in %.1fs: %d triggers, %d share messages, %d keys messages; %d lines validated in %.1fs, %d findings, %d drift",
					ps[i].Name, len(o.runs), o.steps, o.drained, o.replayS, o.emitted, o.shares, o.keys, o.lines, o.validS, len(o.findings), o.driftN)
			}
		}(i)
	}
	wg.Wait()
	restore()
	for i := range ps {
		if errs[i] != nil {
			fmt.Println("INCONCLUSIVE:", errs[i])
			return core.ExitInconclusive
		}
		if len(outs[i].runs) == 0 || outs[i].lines == 0 {
			fmt.Printf("INCONCLUSIVE: svce2e plan %s replayed nothing\n", ps[i].Name)
			return core.ExitInconclusive
		}
	}
	violations := 0
	d6seen := 0
	obsCount := map[string]int{}
	obsExample := map[string]Finding{}
	for i, p := range ps {
		o := outs[i]
		for _, dl := range o.drift {
			fmt.Printf("DRIFT stage=svce2e plan=%s run=%d line=%s (observed line is not what the composed code-shaped spec yields)\n", p.Name, dl.Run, brief(dl.J))
		}
		reported := 0
		for _, f := range o.findings {
			violations++
			if reported < 3 {
				r := f.run
				path := c.WriteReplay(fmt.Sprintf("svce2e-%s-%d", p.Name, reported), ReplayFile{Prop: c.Prop, Stage: "svce2e", Seed: r.Seed, Plan: p, UI: r.UI, U: r.U,
					Lists: r.Lists, Beh: r.Beh, Monitor: f.Monitor, Line: f.Line})
				c.Violation(path, fmt.Sprintf("monitor %s failed in the composed run plan %s, universe %d (%s): %s\n  line: %s", f.Monitor, p.Name, r.UI, r.U.Name, r.Beh.text(), brief(f.Line)))
				reported++
			}
		}
		for m, l := range o.infos {
			if m == "E2_Known_D6" {
				d6seen += len(l)
				continue
			}
			obsCount[m] += len(l)
			if _, ok := obsExample[m]; !ok {
				obsExample[m] = l[0]
			}
		}
	}
	if d6seen > 0 {
		if k, ok := knownD6(); ok {
			core.PrintKnown(k)
			fmt.Printf("  stage=svce2e: met %d times through E2 (two keypers processing the same block from the same previous block emit different event-trigger identities; the one that lacks the trigger synced its registration and the log in one range)\n", d6seen)
		} else {
			// not listed: the difference between the keypers is a violation of E2
			violations += d6seen
			c.Violation("", fmt.Sprintf("E2: keypers emit different triggers for the same block (shape of finding D6 of C16, which is not in known_findings.json), %d times", d6seen))
		}
	}
	var ms []string
	for m := range obsCount {
		ms = append(ms, m)
	}
	sort.Strings(ms)
	for _, m := range ms {
		f := obsExample[m]
		fmt.Printf("OBSERVATION svce2e: %s on %d lines: %s\n  e.g. universe %s: %s\n", m, obsCount[m], observationText[m], f.run.U.Name, f.run.Beh.text())
	}
	if err := mergeEvidence(c, ps, outs, violations, d6seen, obsCount); err != nil {
		fmt.Fprintln(os.Stderr, "svce2e evidence:", err)
	}
	if violations > 0 {
		return core.ExitViolation
	}
	fmt.Printf("OK property=%s stage=svce2e tier=%s\n", c.Prop, c.Tier)
	return core.ExitOK
}

// mergeEvidence adds coverage.growth_svce2e to the evidence file the main C02 check wrote.
func mergeEvidence(c *core.Ctx, ps []Plan, outs []*outcome, violations, d6seen int, obs map[string]int) error {
	if os.Getenv("VERIF_SVCE2E_NOEVIDENCE") != "" { // mutation experiments
		return nil
	}
	b, err := os.ReadFile(evidencePath)
	if err != nil {
		fmt.Printf("NOTE: %s does not exist (the main C02 check has not run); the svce2e stage writes no evidence\n", evidencePath)
		return nil
	}
	var evd ev.Evidence // same field order as the main check's writer
	if err := json.Unmarshal(b, &evd); err != nil || evd.PropertyID != c.Prop {
		return fmt.Errorf("%s unreadable or not the evidence of %s: %v", evidencePath, c.Prop, err)
	}
	if evd.Coverage == nil {
		evd.Coverage = map[string]any{}
	}
	states, trans, runs, steps, lines, drift := 0, 0, 0, 0, 0, 0
	var info, samples []any
	for i, p := range ps {
		o := outs[i]
		states += o.gen.Distinct
		trans += o.gen.States
		runs += len(o.runs)
		steps += o.steps
		lines += o.lines
		drift += o.driftN
		info = append(info, J{"plan": p, "universes": len(o.gen.Unis), "tlc_distinct_states": o.gen.Distinct, "tlc_states_generated": o.gen.States,
			"tlc_depth": o.gen.Depth, "tlc_wall_s": o.gen.Wall, "behaviours_printed": len(o.gen.Behs), "behaviours_replayed": len(o.runs), "classes_replayed": o.classes,
			"steps": o.steps, "drained_steps": o.drained, "triggers_emitted": o.emitted, "share_messages": o.shares, "keys_messages": o.keys,
			"trace_lines_validated": o.lines, "drift_lines": o.driftN})
		if len(o.runs) > 0 && len(samples) < 3 {
			r := o.runs[int(c.Seed%int64(len(o.runs))+int64(len(o.runs)))%len(o.runs)]
			s := J{"plan": p.Name, "universe": r.U, "behaviour": r.Beh.text()}
			for _, l := range r.Lines {
				if l.J["k"] == "end" {
					s["end_tables"] = l.J["tabs"]
				}
			}
			samples = append(samples, s)
		}
	}
	evd.Coverage["growth_svce2e"] = J{
		"module": "specs/ServiceE2E.tla, ServiceE2EProps.tla, ServiceE2EMC.tla, ServiceE2ETrace.tla (EXTENDS EventTriggerProps, INSTANCE ServiceTrigger, INSTANCE Gossip service flavour)",
		"tier":   c.Tier, "seed": c.Seed, "wall_s": time.Since(c.Start).Seconds(), "violations": violations,
		"states": states, "transitions": trans, "traces_validated_against_impl": runs,
		"evaluations": steps, "distinct_nontrivial": runs, "trace_lines_validated": lines, "drift_lines": drift,
		"known_finding_D6_lines": d6seen, "observations": obs,
		"plans": info, "samples": samples,
		"rule": "TLC explores the composed model exhaustively per universe (chain contents, static keyper-set scenario and per-keyper block schedule are the universe; inside it every interleaving of block processing by the K keypers and packet deliveries / losses) and checks E1 (C02), E2 (C16) and E3 (C03) on every transition / quiescent state; it prints the history of every transition into a complete state. traces_validated_against_impl = complete behaviours replayed as ONE run on the real code (K databases, real syncers on a shared fake node, real processNewBlock, KeyShareHandler, middleware, handlers, validators) and validated by ServiceE2ETrace; evaluations = steps of those behaviours",
	}
	evd.Violations += violations
	nb, err := json.MarshalIndent(evd, "", " ")
	if err != nil {
		return err
	}
	tmp := evidencePath + ".svce2e.tmp"
	if err := os.WriteFile(tmp, append(nb, '\n'), 0o644); err != nil {
		return err
	}
	return os.Rename(tmp, evidencePath)
}

// Replay re-executes the behaviour of a replay file and validates it again.
func Replay(c *core.Ctx) int {
	b, err := os.ReadFile(c.Replay)
	if err != nil {
		fmt.Println("INCONCLUSIVE:", err)
		return core.ExitInconclusive
	}
	var rf ReplayFile
	if err := json.Unmarshal(b, &rf); err != nil || rf.Stage != "svce2e" {
		fmt.Println("NOTE: not a svce2e replay file; nothing to do in this stage")
		return core.ExitOK
	}
	r := &Run{Plan: rf.Plan, UI: rf.UI, U: rf.U, Beh: rf.Beh, Lists: rf.Lists, Seed: rf.Seed, No: 1}
	stdout := os.Stdout
	if devnull, err := os.OpenFile(os.DevNull, os.O_WRONLY, 0); err == nil {
		os.Stdout = devnull
		r.Execute()
		os.Stdout = stdout
		devnull.Close()
	} else {
		r.Execute()
	}
	if r.Err != nil {
		fmt.Println("INCONCLUSIVE:", r.Err)
		return core.ExitInconclusive
	}
	tb, err := marshalLines(r.Lines)
	if err != nil {
		fmt.Println("INCONCLUSIVE:", err)
		return core.ExitInconclusive
	}
	vr, err := validate(rf.Plan, tb)
	if err != nil {
		fmt.Println("INCONCLUSIVE:", err)
		return core.ExitInconclusive
	}
	fmt.Printf("universe %d: %s\nviol=%v drift=%v info=%v\n", rf.UI, rf.Beh.text(), vr.Viol, vr.Drift, vr.Info)
	for _, v := range vr.Viol {
		if len(v) == 2 && v[1] == rf.Monitor {
			c.Violation(c.Replay, "reproduced "+rf.Monitor)
			return core.ExitViolation
		}
	}
	fmt.Println("not reproduced")
	return core.ExitOK
}
