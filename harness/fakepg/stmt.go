package fakepg

import (
	"crypto/sha256"
	"encoding/hex"
	"fmt"
	"math"
	"regexp"
	"sort"
	"strings"
)

// PgError is an error reported to the client as an ErrorResponse.
type PgError struct {
	Code       string // SQLSTATE
	Message    string
	Detail     string
	Table      string
	Column     string
	Constraint string
}

func (e *PgError) Error() string { return fmt.Sprintf("%s (SQLSTATE %s)", e.Message, e.Code) }

func errUnique(table, constraint, key string) *PgError {
	return &PgError{Code: "23505", Message: fmt.Sprintf("duplicate key value violates unique constraint %q", constraint),
		Detail: "Key " + key + " already exists.", Table: table, Constraint: constraint}
}

func errNotNull(table, column string) *PgError {
	return &PgError{Code: "23502", Message: fmt.Sprintf("null value in column %q of relation %q violates not-null constraint", column, table),
		Table: table, Column: column}
}

func errCheck(table, constraint string) *PgError {
	return &PgError{Code: "23514", Message: fmt.Sprintf("new row for relation %q violates check constraint %q", table, constraint),
		Table: table, Constraint: constraint}
}

func errFK(table, constraint, reftable string) *PgError {
	return &PgError{Code: "23503", Message: fmt.Sprintf("insert or update on table %q violates foreign key constraint %q", table, constraint),
		Detail: fmt.Sprintf("Key is not present in table %q.", reftable), Table: table, Constraint: constraint}
}

func errFailedTx() *PgError {
	return &PgError{Code: "25P02", Message: "current transaction is aborted, commands ignored until end of transaction block"}
}

func errOutOfRange(typ string) *PgError {
	return &PgError{Code: "22003", Message: typ + " out of range"}
}

func addI64(a, b int64) (int64, error) {
	if (b > 0 && a > math.MaxInt64-b) || (b < 0 && a < math.MinInt64-b) {
		return 0, errOutOfRange("bigint")
	}
	return a + b, nil
}

type colDef struct {
	Name string
	OID  uint32
}

type result struct {
	rows [][]interface{}
	tag  string
}

func tagInsert(n int) (*result, error) { return &result{tag: fmt.Sprintf("INSERT 0 %d", n)}, nil }
func tagUpdate(n int) (*result, error) { return &result{tag: fmt.Sprintf("UPDATE %d", n)}, nil }
func tagDelete(n int) (*result, error) { return &result{tag: fmt.Sprintf("DELETE %d", n)}, nil }
func selected(rows [][]interface{}) (*result, error) {
	return &result{rows: rows, tag: fmt.Sprintf("SELECT %d", len(rows))}, nil
}

// execCtx is what a statement handler sees: the database it operates on (the
// shared one, or a transaction's private copy) and the server for sequences and
// the row-order hook.
type execCtx struct {
	db     *DB
	srv    *Server
	stmt   string
	locked bool // x.db is the shared database and the server lock is held
}

// nextOutgoingMessageID is nextval('tendermint_outgoing_messages_id_seq'): taken
// from the shared database even inside a transaction (sequences are not
// transactional in PostgreSQL).
func (x *execCtx) nextOutgoingMessageID() (int32, error) {
	if x.locked || x.srv == nil {
		if x.db.TendermintOutgoingMessagesSeq == math.MaxInt32 {
			return 0, &PgError{Code: "2200H", Message: `nextval: reached maximum value of sequence "tendermint_outgoing_messages_id_seq" (2147483647)`}
		}
		x.db.TendermintOutgoingMessagesSeq++
		return x.db.TendermintOutgoingMessagesSeq, nil
	}
	x.srv.mu.Lock()
	defer x.srv.mu.Unlock()
	shared := x.srv.db
	if x.db.TendermintOutgoingMessagesSeq > shared.TendermintOutgoingMessagesSeq {
		shared.TendermintOutgoingMessagesSeq = x.db.TendermintOutgoingMessagesSeq
	}
	if shared.TendermintOutgoingMessagesSeq == math.MaxInt32 {
		return 0, &PgError{Code: "2200H", Message: `nextval: reached maximum value of sequence "tendermint_outgoing_messages_id_seq" (2147483647)`}
	}
	shared.TendermintOutgoingMessagesSeq++
	x.db.TendermintOutgoingMessagesSeq = shared.TendermintOutgoingMessagesSeq
	return x.db.TendermintOutgoingMessagesSeq, nil
}

// stmtDef is one implemented statement. A handler must validate everything
// before it mutates x.db (statement atomicity).
type stmtDef struct {
	Schema string
	Name   string
	Hash   string // pinned SHA-256 (hex) of the statement text as sent in Parse
	Params []uint32
	Cols   []colDef // nil: statement returns no rows
	Write  bool
	run    func(x *execCtx, a args) (*result, error)
}

// ID is "<schema>/<name>".
func (d *stmtDef) ID() string { return d.Schema + "/" + d.Name }

var (
	stmtByHash = map[string]*stmtDef{}
	stmtByName = map[string][]*stmtDef{}
	stmtByID   = map[string]*stmtDef{}
)

func reg(schema, name string, params []uint32, cols []colDef, write bool, run func(x *execCtx, a args) (*result, error)) {
	d := &stmtDef{Schema: schema, Name: name, Params: params, Cols: cols, Write: write, run: run}
	if _, dup := stmtByID[d.ID()]; dup {
		panic("fakepg: duplicate statement " + d.ID())
	}
	h, ok := pinnedStatements[d.ID()]
	if !ok {
		// reported by every Server.PinMismatches() and by TestPins
		regProblems = append(regProblems, "handler without pinned hash: "+d.ID())
		h = "unpinned:" + d.ID()
	}
	d.Hash = h
	stmtByID[d.ID()] = d
	stmtByHash[h] = d
	stmtByName[name] = append(stmtByName[name], d)
}

var regProblems []string

// HashText is the pin function: hex SHA-256 of the exact text.
func HashText(text string) string {
	s := sha256.Sum256([]byte(text))
	return hex.EncodeToString(s[:])
}

var nameHeaderRE = regexp.MustCompile(`^-- name: ([A-Za-z0-9_]+) :([a-z]+)`)

// sqlcName extracts X from a leading "-- name: X :kind" line ("" if absent).
func sqlcName(text string) string {
	m := nameHeaderRE.FindStringSubmatch(text)
	if m == nil {
		return ""
	}
	return m[1]
}

// Statements lists the ids ("schema/Name") of all implemented statements.
func Statements() []string {
	var out []string
	for id := range stmtByID {
		out = append(out, id)
	}
	sort.Strings(out)
	return out
}

func p(oids ...uint32) []uint32 { return oids }

func cols(nameAndOID ...interface{}) []colDef {
	var out []colDef
	for i := 0; i < len(nameAndOID); i += 2 {
		out = append(out, colDef{Name: nameAndOID[i].(string), OID: nameAndOID[i+1].(uint32)})
	}
	return out
}

// required checks NOT NULL for parameters that go into NOT NULL columns:
// pairs of (parameter index, column name).
func (a args) required(table string, idxAndCol ...interface{}) error {
	for i := 0; i < len(idxAndCol); i += 2 {
		if a[idxAndCol[i].(int)] == nil {
			return errNotNull(table, idxAndCol[i+1].(string))
		}
	}
	return nil
}

// nonNeg implements the many "CHECK (col >= 0)" constraints: pairs of (value, column).
func nonNeg(table string, valAndCol ...interface{}) error {
	for i := 0; i < len(valAndCol); i += 2 {
		if valAndCol[i].(int64) < 0 {
			return errCheck(table, table+"_"+valAndCol[i+1].(string)+"_check")
		}
	}
	return nil
}

// ---- small generic helpers over table slices ----

func indexOf[T any](rows []T, pred func(r *T) bool) int {
	for i := range rows {
		if pred(&rows[i]) {
			return i
		}
	}
	return -1
}

func filter[T any](rows []T, pred func(r *T) bool) []T {
	out := []T{}
	for i := range rows {
		if pred(&rows[i]) {
			out = append(out, rows[i])
		}
	}
	return out
}

// deleteWhere removes matching rows in place and returns them.
func deleteWhere[T any](rows *[]T, pred func(r *T) bool) []T {
	var del []T
	keep := (*rows)[:0:0]
	for i := range *rows {
		if pred(&(*rows)[i]) {
			del = append(del, (*rows)[i])
		} else {
			keep = append(keep, (*rows)[i])
		}
	}
	if len(del) > 0 {
		*rows = keep
	}
	return del
}

func sortRows[T any](rows []T, less func(a, b *T) bool) {
	sort.SliceStable(rows, func(i, j int) bool { return less(&rows[i], &rows[j]) })
}

// heapOrder returns a copy of rows in "physical" order. SQL leaves the order of
// rows unspecified unless ORDER BY fixes it; the fake uses insertion order unless
// the harness installed a row-order hook (Server.SetRowOrder), which is then asked
// for a permutation. Handlers call this before any (stable) ORDER BY sort, so ties
// are affected too.
func heapOrder[T any](x *execCtx, rows []T) []T {
	out := append([]T{}, rows...)
	if x.srv == nil || len(out) < 2 {
		return out
	}
	hook := x.srv.rowOrderHook()
	if hook == nil {
		return out
	}
	perm := hook(x.stmt, len(out))
	if len(perm) != len(out) {
		return out
	}
	seen := make([]bool, len(out))
	res := make([]T, 0, len(out))
	for _, i := range perm {
		if i < 0 || i >= len(out) || seen[i] {
			return out
		}
		seen[i] = true
		res = append(res, out[i])
	}
	return res
}

func limitRows[T any](rows []T, limit interface{}) ([]T, error) {
	if limit == nil {
		return rows, nil
	}
	n := limit.(int64)
	if n < 0 {
		return nil, &PgError{Code: "2201W", Message: "LIMIT must not be negative"}
	}
	if int64(len(rows)) > n {
		return rows[:n], nil
	}
	return rows, nil
}

func overlap(a, b []string) bool {
	for _, x := range a {
		for _, y := range b {
			if x == y {
				return true
			}
		}
	}
	return false
}

func fmtKey(parts ...interface{}) string {
	var s []string
	for _, p := range parts {
		switch v := p.(type) {
		case []byte:
			s = append(s, fmt.Sprintf("\\x%x", v))
		default:
			s = append(s, fmt.Sprint(v))
		}
	}
	return "(" + strings.Join(s, ", ") + ")"
}
