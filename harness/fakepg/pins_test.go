package fakepg

import (
	"flag"
	"os"
	"testing"
)

var updatePins = flag.Bool("update-pins", false, "rewrite pins_gen.go from the repository tree")

func repoRoot() string {
	if r := os.Getenv("VERIF_REPO"); r != "" {
		return r
	}
	return "/repo/rolling-shutter"
}

// TestPins: every statement and schema script in the repository has a handler
// pinned to exactly its current text, and vice versa.
func TestPins(t *testing.T) {
	if *updatePins {
		b, err := GeneratePins(repoRoot())
		if err != nil {
			t.Fatal(err)
		}
		if err := os.WriteFile("pins_gen.go", b, 0o644); err != nil {
			t.Fatal(err)
		}
		t.Log("pins_gen.go rewritten; run the tests again")
		return
	}
	for _, p := range regProblems {
		t.Error(p)
	}
	probs, err := CheckRepo(repoRoot())
	if err != nil {
		t.Fatal(err)
	}
	for _, p := range probs {
		t.Error(p)
	}
	if n := len(Statements()); n < 115 {
		t.Errorf("only %d statements registered", n)
	}
}
