package fakepg

import (
	"fmt"
	"reflect"
	"strings"

	obscol "github.com/shutter-network/rolling-shutter/rolling-shutter/chainobserver/db/collator"
	obskpr "github.com/shutter-network/rolling-shutter/rolling-shutter/chainobserver/db/keyper"
	obssync "github.com/shutter-network/rolling-shutter/rolling-shutter/chainobserver/db/sync"
	kprdb "github.com/shutter-network/rolling-shutter/rolling-shutter/keyper/database"
	gnodb "github.com/shutter-network/rolling-shutter/rolling-shutter/keyperimpl/gnosis/database"
	prvdb "github.com/shutter-network/rolling-shutter/rolling-shutter/keyperimpl/primev/database"
	svcdb "github.com/shutter-network/rolling-shutter/rolling-shutter/keyperimpl/shutterservice/database"
	metadb "github.com/shutter-network/rolling-shutter/rolling-shutter/medley/db"
	snpdb "github.com/shutter-network/rolling-shutter/rolling-shutter/snapshot/database"
)

// DB is the whole database: one exported slice per table, row types are the
// repository's sqlc model structs. Row order is insertion order (an UPDATE keeps
// the row in place). A nil []byte / invalid sql.Null* in a nullable column is SQL NULL.
//
// Several keyper implementations define tables with the same SQL name but
// different columns (they never share a database in production); here they are
// distinct fields (Gnosis*/Service*/Snapshot* prefixes) and the statement text
// decides which one a query touches.
type DB struct {
	// medley/db (meta.sql)
	MetaInf []metadb.MetaInf

	// keyper/database (keyper.sql + migration V2)
	DecryptionTrigger          []kprdb.DecryptionTrigger
	DecryptionKeyShare         []kprdb.DecryptionKeyShare
	DecryptionKey              []kprdb.DecryptionKey
	LastBatchConfigSent        []kprdb.LastBatchConfigSent
	LastBlockSeen              []kprdb.LastBlockSeen
	TendermintSyncMeta         []kprdb.TendermintSyncMetum
	Puredkg                    []kprdb.Puredkg
	TendermintBatchConfig      []kprdb.TendermintBatchConfig
	TendermintEncryptionKey    []kprdb.TendermintEncryptionKey
	TendermintOutgoingMessages []kprdb.TendermintOutgoingMessage
	Eons                       []kprdb.Eon
	PolyEvals                  []kprdb.PolyEval
	DkgResult                  []kprdb.DkgResult
	OutgoingEonKeys            []kprdb.OutgoingEonKey

	// chainobserver/db/{keyper,sync,collator}
	KeyperSet         []obskpr.KeyperSet
	RecentBlock       []obskpr.RecentBlock
	EventSyncProgress []obssync.EventSyncProgress
	ChainCollator     []obscol.ChainCollator

	// keyperimpl/shutterservice/database (schema + migrations V2, V3)
	IdentityRegisteredEvent             []svcdb.IdentityRegisteredEvent
	IdentityRegisteredEventsSyncedUntil []svcdb.IdentityRegisteredEventsSyncedUntil
	ServiceCurrentDecryptionTrigger     []svcdb.CurrentDecryptionTrigger // SQL name current_decryption_trigger
	DecryptionSignatures                []svcdb.DecryptionSignature
	EventTriggerRegisteredEvent         []svcdb.EventTriggerRegisteredEvent
	MultiEventSyncStatus                []svcdb.MultiEventSyncStatus
	FiredTriggers                       []svcdb.FiredTrigger

	// keyperimpl/gnosis/database (schema + migration V2)
	TransactionSubmittedEvent             []gnodb.TransactionSubmittedEvent
	TransactionSubmittedEventsSyncedUntil []gnodb.TransactionSubmittedEventsSyncedUntil
	TransactionSubmittedEventCount        []gnodb.TransactionSubmittedEventCount
	TxPointer                             []gnodb.TxPointer
	GnosisCurrentDecryptionTrigger        []gnodb.CurrentDecryptionTrigger // SQL name current_decryption_trigger
	SlotDecryptionSignatures              []gnodb.SlotDecryptionSignature
	ValidatorRegistrations                []gnodb.ValidatorRegistration
	ValidatorRegistrationsSyncedUntil     []gnodb.ValidatorRegistrationsSyncedUntil

	// keyperimpl/primev/database
	Commitment                        []prvdb.Commitment
	CommittedTransactions             []prvdb.CommittedTransaction
	ProviderRegistryEventsSyncedUntil []prvdb.ProviderRegistryEventsSyncedUntil
	ProviderRegistryEvents            []prvdb.ProviderRegistryEvent

	// snapshot/database
	SnapshotDecryptionKey []snpdb.DecryptionKey // SQL name decryption_key
	SnapshotEonPublicKey  []snpdb.EonPublicKey  // SQL name eon_public_key

	// Sequences. tendermint_outgoing_messages.id is SERIAL: the value is the last
	// id handed out. Like in PostgreSQL it is not rolled back with a transaction.
	TendermintOutgoingMessagesSeq int32
}

// tableMeta describes one table: Go field in DB, SQL name, schema group and
// the primary key / unique key (Go field names of the row struct).
type tableMeta struct {
	Field  string
	SQL    string
	Schema string
	Key    []string
	PKName string
}

var tables = []tableMeta{
	{"MetaInf", "meta_inf", "meta", []string{"Key"}, "meta_inf_pkey"},

	{"DecryptionTrigger", "decryption_trigger", "keyper", []string{"EpochID"}, "decryption_trigger_pkey"},
	{"DecryptionKeyShare", "decryption_key_share", "keyper", []string{"Eon", "EpochID", "KeyperIndex"}, "decryption_key_share_pkey"},
	{"DecryptionKey", "decryption_key", "keyper", []string{"Eon", "EpochID"}, "decryption_key_pkey"},
	{"LastBatchConfigSent", "last_batch_config_sent", "keyper", []string{"EnforceOneRow"}, "last_batch_config_sent_pkey"},
	{"LastBlockSeen", "last_block_seen", "keyper", []string{"EnforceOneRow"}, "last_block_seen_pkey"},
	{"TendermintSyncMeta", "tendermint_sync_meta", "keyper", []string{"CurrentBlock", "LastCommittedHeight"}, "tendermint_sync_meta_pkey"},
	{"Puredkg", "puredkg", "keyper", []string{"Eon"}, "puredkg_pkey"},
	{"TendermintBatchConfig", "tendermint_batch_config", "keyper", []string{"KeyperConfigIndex"}, "tendermint_batch_config_pkey"},
	{"TendermintEncryptionKey", "tendermint_encryption_key", "keyper", []string{"Address", "Height"}, "tendermint_encryption_key_pkey"},
	{"TendermintOutgoingMessages", "tendermint_outgoing_messages", "keyper", []string{"ID"}, "tendermint_outgoing_messages_pkey"},
	{"Eons", "eons", "keyper", []string{"Eon"}, "eons_pkey"},
	{"PolyEvals", "poly_evals", "keyper", []string{"Eon", "ReceiverAddress"}, "poly_evals_pkey"},
	{"DkgResult", "dkg_result", "keyper", []string{"Eon"}, "dkg_result_pkey"},
	{"OutgoingEonKeys", "outgoing_eon_keys", "keyper", []string{"Eon"}, "outgoing_eon_keys_pkey"},

	{"KeyperSet", "keyper_set", "chainobskeyper", []string{"KeyperConfigIndex"}, "keyper_set_pkey"},
	{"RecentBlock", "recent_block", "chainobskeyper", []string{"BlockNumber"}, "recent_block_pkey"},
	{"EventSyncProgress", "event_sync_progress", "chainobssync", []string{"ID"}, "event_sync_progress_id_key"},
	{"ChainCollator", "chain_collator", "chainobscollator", []string{"ActivationBlockNumber"}, "chain_collator_pkey"},

	{"IdentityRegisteredEvent", "identity_registered_event", "shutterservice", []string{"IdentityPrefix", "Sender"}, "identity_registered_event_pkey"},
	{"IdentityRegisteredEventsSyncedUntil", "identity_registered_events_synced_until", "shutterservice", []string{"EnforceOneRow"}, "identity_registered_events_synced_until_pkey"},
	{"ServiceCurrentDecryptionTrigger", "current_decryption_trigger", "shutterservice", []string{"Eon", "TriggeredBlockNumber"}, "current_decryption_trigger_pkey"},
	{"DecryptionSignatures", "decryption_signatures", "shutterservice", []string{"Eon", "KeyperIndex", "IdentitiesHash"}, "decryption_signatures_pkey"},
	{"EventTriggerRegisteredEvent", "event_trigger_registered_event", "shutterservice", []string{"Eon", "Identity"}, "event_trigger_registered_event_pkey"},
	{"MultiEventSyncStatus", "multi_event_sync_status", "shutterservice", []string{"EnforceOneRow"}, "multi_event_sync_status_pkey"},
	{"FiredTriggers", "fired_triggers", "shutterservice", []string{"Eon", "Identity"}, "fired_triggers_pkey"},

	{"TransactionSubmittedEvent", "transaction_submitted_event", "gnosiskeyper", []string{"Index", "Eon"}, "transaction_submitted_event_pkey"},
	{"TransactionSubmittedEventsSyncedUntil", "transaction_submitted_events_synced_until", "gnosiskeyper", []string{"EnforceOneRow"}, "transaction_submitted_events_synced_until_pkey"},
	{"TransactionSubmittedEventCount", "transaction_submitted_event_count", "gnosiskeyper", []string{"Eon"}, "transaction_submitted_event_count_pkey"},
	{"TxPointer", "tx_pointer", "gnosiskeyper", []string{"Eon"}, "tx_pointer_pkey"},
	{"GnosisCurrentDecryptionTrigger", "current_decryption_trigger", "gnosiskeyper", []string{"Eon"}, "current_decryption_trigger_pkey"},
	{"SlotDecryptionSignatures", "slot_decryption_signatures", "gnosiskeyper", []string{"Eon", "Slot", "KeyperIndex"}, "slot_decryption_signatures_pkey"},
	{"ValidatorRegistrations", "validator_registrations", "gnosiskeyper", []string{"BlockNumber", "TxIndex", "LogIndex", "ValidatorIndex"}, "validator_registrations_pkey"},
	{"ValidatorRegistrationsSyncedUntil", "validator_registrations_synced_until", "gnosiskeyper", []string{"EnforceOneRow"}, "validator_registrations_synced_until_pkey"},

	{"Commitment", "commitment", "primev", []string{"CommitmentDigest", "ProviderAddress"}, "commitment_pkey"},
	{"CommittedTransactions", "committed_transactions", "primev", []string{"Eon", "IdentityPreimage", "TxHash", "BlockNumber"}, "committed_transactions_pkey"},
	{"ProviderRegistryEventsSyncedUntil", "provider_registry_events_synced_until", "primev", []string{"EnforceOneRow"}, "provider_registry_events_synced_until_pkey"},
	{"ProviderRegistryEvents", "provider_registry_events", "primev", []string{"BlockNumber", "TxIndex", "LogIndex"}, "provider_registry_events_pkey"},

	{"SnapshotDecryptionKey", "decryption_key", "snapshot", []string{"EpochID"}, "decryption_key_pkey"},
	{"SnapshotEonPublicKey", "eon_public_key", "snapshot", []string{"EonID"}, "eon_public_key_pkey"},
}

var tableByField = func() map[string]*tableMeta {
	m := map[string]*tableMeta{}
	for i := range tables {
		m[tables[i].Field] = &tables[i]
	}
	return m
}()

func init() {
	// every slice field of DB must be described, and vice versa
	t := reflect.TypeOf(DB{})
	n := 0
	for i := 0; i < t.NumField(); i++ {
		f := t.Field(i)
		if f.Type.Kind() != reflect.Slice {
			continue
		}
		n++
		tm, ok := tableByField[f.Name]
		if !ok {
			panic("fakepg: table " + f.Name + " has no tableMeta")
		}
		for _, k := range tm.Key {
			if _, ok := f.Type.Elem().FieldByName(k); !ok {
				panic("fakepg: table " + f.Name + " has no key field " + k)
			}
		}
	}
	if n != len(tables) {
		panic("fakepg: tableMeta without DB field")
	}
}

// NewDB returns the database as it is right after all schema files (and
// migrations) were executed: all tables empty except for the rows the schema
// files insert themselves.
func NewDB() *DB {
	db := &DB{}
	db.Seed("")
	return db
}

// Seed inserts the rows that the schema files of the given schema group insert
// ("" = all groups), if they are not present yet.
func (db *DB) Seed(schema string) {
	if schema == "" || schema == "keyper" {
		if len(db.LastBatchConfigSent) == 0 {
			db.LastBatchConfigSent = append(db.LastBatchConfigSent, kprdb.LastBatchConfigSent{EnforceOneRow: true, KeyperConfigIndex: 0})
		}
		if len(db.LastBlockSeen) == 0 {
			db.LastBlockSeen = append(db.LastBlockSeen, kprdb.LastBlockSeen{EnforceOneRow: true, BlockNumber: -1})
		}
	}
	if schema == "" || schema == "chainobssync" {
		if len(db.EventSyncProgress) == 0 {
			db.EventSyncProgress = append(db.EventSyncProgress, obssync.EventSyncProgress{ID: true, NextBlockNumber: 0, NextLogIndex: 0})
		}
	}
}

// Truncate empties all tables of the given schema group ("" = all). Sequences
// are reset as well (the tables are "dropped and re-created").
func (db *DB) Truncate(schema string) {
	v := reflect.ValueOf(db).Elem()
	for _, tm := range tables {
		if schema != "" && tm.Schema != schema {
			continue
		}
		f := v.FieldByName(tm.Field)
		f.Set(reflect.Zero(f.Type()))
	}
	if schema == "" || schema == "keyper" {
		db.TendermintOutgoingMessagesSeq = 0
	}
}

func (db *DB) truncateTables(fields ...string) {
	v := reflect.ValueOf(db).Elem()
	for _, name := range fields {
		f := v.FieldByName(name)
		f.Set(reflect.Zero(f.Type()))
		if name == "TendermintOutgoingMessages" {
			db.TendermintOutgoingMessagesSeq = 0
		}
	}
}

// Clone returns a deep copy.
func (db *DB) Clone() *DB {
	out := &DB{}
	src := reflect.ValueOf(db).Elem()
	dst := reflect.ValueOf(out).Elem()
	for i := 0; i < src.NumField(); i++ {
		dst.Field(i).Set(deepCopy(src.Field(i)))
	}
	return out
}

func deepCopy(v reflect.Value) reflect.Value {
	switch v.Kind() {
	case reflect.Slice:
		if v.IsNil() {
			return reflect.Zero(v.Type())
		}
		out := reflect.MakeSlice(v.Type(), v.Len(), v.Len())
		ek := v.Type().Elem().Kind()
		if ek != reflect.Slice && ek != reflect.Struct {
			reflect.Copy(out, v)
			return out
		}
		for i := 0; i < v.Len(); i++ {
			out.Index(i).Set(deepCopy(v.Index(i)))
		}
		return out
	case reflect.Struct:
		if v.Type().PkgPath() == "time" { // time.Time is a value
			return v
		}
		out := reflect.New(v.Type()).Elem()
		for i := 0; i < v.NumField(); i++ {
			if !out.Field(i).CanSet() {
				return v // struct with unexported fields: copy by value
			}
			out.Field(i).Set(deepCopy(v.Field(i)))
		}
		return out
	default:
		return v
	}
}

// Equal reports whether two databases have identical contents (row order matters).
func (db *DB) Equal(o *DB) bool { return len(db.Diff(o)) == 0 }

// Diff lists the DB fields (tables, sequences) whose contents differ.
func (db *DB) Diff(o *DB) []string {
	var out []string
	a := reflect.ValueOf(db).Elem()
	b := reflect.ValueOf(o).Elem()
	for i := 0; i < a.NumField(); i++ {
		if !tableEqual(a.Field(i), b.Field(i)) {
			out = append(out, a.Type().Field(i).Name)
		}
	}
	return out
}

// tableEqual is DeepEqual except that nil and empty table slices are the same.
func tableEqual(a, b reflect.Value) bool {
	if a.Kind() == reflect.Slice && a.Len() == 0 && b.Len() == 0 {
		return true
	}
	return reflect.DeepEqual(a.Interface(), b.Interface())
}

// keyOf returns a printable primary-key value of a row.
func keyOf(row reflect.Value, key []string) string {
	var sb strings.Builder
	for i, k := range key {
		if i > 0 {
			sb.WriteByte('|')
		}
		f := row.FieldByName(k)
		if f.Kind() == reflect.Slice && f.Type().Elem().Kind() == reflect.Uint8 {
			fmt.Fprintf(&sb, "%x", f.Bytes())
		} else {
			fmt.Fprintf(&sb, "%v", f.Interface())
		}
	}
	return sb.String()
}

// Rows returns the number of rows of every non-empty table (for debugging and traces).
func (db *DB) Rows() map[string]int {
	out := map[string]int{}
	v := reflect.ValueOf(db).Elem()
	for _, tm := range tables {
		if n := v.FieldByName(tm.Field).Len(); n > 0 {
			out[tm.Field] = n
		}
	}
	return out
}

// mergeInto applies the changes that a transaction made (base -> tx) onto cur
// (the shared database at commit time). Tables the transaction did not touch are
// left alone. If a touched table was not changed concurrently, the
// transaction's table is installed as is. Otherwise a row-level three-way merge
// by primary key is done; a row changed by both sides is a conflict (the
// transaction wins). Returned: touched tables, tables merged row-wise, and
// conflicts as "Table[key]".
func mergeInto(cur, base, tx *DB) (touched, merged, conflicts []string) {
	vc := reflect.ValueOf(cur).Elem()
	vb := reflect.ValueOf(base).Elem()
	vt := reflect.ValueOf(tx).Elem()
	for _, tm := range tables {
		fc, fb, ft := vc.FieldByName(tm.Field), vb.FieldByName(tm.Field), vt.FieldByName(tm.Field)
		if tableEqual(fb, ft) {
			continue
		}
		touched = append(touched, tm.Field)
		if tableEqual(fc, fb) {
			fc.Set(ft)
			continue
		}
		merged = append(merged, tm.Field)
		idx := func(v reflect.Value) map[string]int {
			m := map[string]int{}
			for i := 0; i < v.Len(); i++ {
				m[keyOf(v.Index(i), tm.Key)] = i
			}
			return m
		}
		ib, ic := idx(fb), idx(fc)
		it := idx(ft)
		rowEq := func(a, b reflect.Value) bool { return reflect.DeepEqual(a.Interface(), b.Interface()) }
		// result starts as a copy of cur
		res := reflect.MakeSlice(fc.Type(), 0, fc.Len()+ft.Len())
		deleted := map[string]bool{}
		replaced := map[string]reflect.Value{}
		var added []reflect.Value
		for k, bi := range ib {
			if _, ok := it[k]; !ok { // deleted by tx
				deleted[k] = true
				if ci, ok := ic[k]; ok && !rowEq(fc.Index(ci), fb.Index(bi)) {
					conflicts = append(conflicts, tm.Field+"["+k+"]")
				}
			}
		}
		for i := 0; i < ft.Len(); i++ {
			row := ft.Index(i)
			k := keyOf(row, tm.Key)
			bi, inBase := ib[k]
			if inBase && rowEq(row, fb.Index(bi)) {
				continue // unchanged by tx
			}
			ci, inCur := ic[k]
			switch {
			case inBase && inCur:
				if !rowEq(fc.Index(ci), fb.Index(bi)) {
					conflicts = append(conflicts, tm.Field+"["+k+"]")
				}
				replaced[k] = row
			case inBase && !inCur: // updated by tx, deleted concurrently
				conflicts = append(conflicts, tm.Field+"["+k+"]")
				added = append(added, row)
			case !inBase && inCur: // inserted by both
				if !rowEq(fc.Index(ci), row) {
					conflicts = append(conflicts, tm.Field+"["+k+"]")
				}
				replaced[k] = row
			default:
				added = append(added, row)
			}
		}
		for i := 0; i < fc.Len(); i++ {
			k := keyOf(fc.Index(i), tm.Key)
			if deleted[k] {
				continue
			}
			if r, ok := replaced[k]; ok {
				res = reflect.Append(res, r)
			} else {
				res = reflect.Append(res, fc.Index(i))
			}
		}
		for _, r := range added {
			res = reflect.Append(res, r)
		}
		fc.Set(res)
	}
	if tx.TendermintOutgoingMessagesSeq > cur.TendermintOutgoingMessagesSeq {
		cur.TendermintOutgoingMessagesSeq = tx.TendermintOutgoingMessagesSeq
	}
	return touched, merged, conflicts
}
