package fakepg

import (
	obscol "github.com/shutter-network/rolling-shutter/rolling-shutter/chainobserver/db/collator"
	obskpr "github.com/shutter-network/rolling-shutter/rolling-shutter/chainobserver/db/keyper"
	obssync "github.com/shutter-network/rolling-shutter/rolling-shutter/chainobserver/db/sync"
)

// Handlers for chainobserver/db/{keyper,sync,collator}/sql/queries/*.sql.

var colsKeyperSet = cols("keyper_config_index", tInt8, "activation_block_number", tInt8, "keypers", tTextArr, "threshold", tInt4)

func rowKeyperSet(r *obskpr.KeyperSet) []interface{} {
	return []interface{}{r.KeyperConfigIndex, r.ActivationBlockNumber, r.Keypers, r.Threshold}
}

func init() {
	// INSERT INTO keyper_set (keyper_config_index, activation_block_number, keypers, threshold) VALUES ($1, $2, $3, $4) ON CONFLICT DO NOTHING
	reg("chainobskeyper", "InsertKeyperSet", p(tInt8, tInt8, tTextArr, tInt4), nil, true, func(x *execCtx, a args) (*result, error) {
		if err := a.required("keyper_set", 0, "keyper_config_index", 1, "activation_block_number", 2, "keypers", 3, "threshold"); err != nil {
			return nil, err
		}
		if indexOf(x.db.KeyperSet, func(r *obskpr.KeyperSet) bool { return r.KeyperConfigIndex == a.i64(0) }) >= 0 {
			return tagInsert(0)
		}
		x.db.KeyperSet = append(x.db.KeyperSet, obskpr.KeyperSet{KeyperConfigIndex: a.i64(0), ActivationBlockNumber: a.i64(1), Keypers: a.strs(2), Threshold: a.i32(3)})
		return tagInsert(1)
	})
	// SELECT * FROM keyper_set WHERE keyper_config_index=$1
	reg("chainobskeyper", "GetKeyperSetByKeyperConfigIndex", p(tInt8), colsKeyperSet, false, func(x *execCtx, a args) (*result, error) {
		var out [][]interface{}
		if !a.null(0) {
			for i := range x.db.KeyperSet {
				if r := &x.db.KeyperSet[i]; r.KeyperConfigIndex == a.i64(0) {
					out = append(out, rowKeyperSet(r))
				}
			}
		}
		return selected(out)
	})
	// SELECT * FROM keyper_set WHERE activation_block_number <= $1 ORDER BY activation_block_number DESC LIMIT 1
	reg("chainobskeyper", "GetKeyperSet", p(tInt8), colsKeyperSet, false, func(x *execCtx, a args) (*result, error) {
		if a.null(0) {
			return selected(nil)
		}
		rows := filter(heapOrder(x, x.db.KeyperSet), func(r *obskpr.KeyperSet) bool { return r.ActivationBlockNumber <= a.i64(0) })
		sortRows(rows, func(a, b *obskpr.KeyperSet) bool { return a.ActivationBlockNumber > b.ActivationBlockNumber })
		if len(rows) == 0 {
			return selected(nil)
		}
		return selected([][]interface{}{rowKeyperSet(&rows[0])})
	})
	// SELECT * FROM keyper_set ORDER BY activation_block_number ASC
	reg("chainobskeyper", "GetKeyperSets", nil, colsKeyperSet, false, func(x *execCtx, a args) (*result, error) {
		rows := heapOrder(x, x.db.KeyperSet)
		sortRows(rows, func(a, b *obskpr.KeyperSet) bool { return a.ActivationBlockNumber < b.ActivationBlockNumber })
		var out [][]interface{}
		for i := range rows {
			out = append(out, rowKeyperSet(&rows[i]))
		}
		return selected(out)
	})

	// INSERT INTO event_sync_progress (next_block_number, next_log_index) VALUES ($1, $2)
	// ON CONFLICT (id) DO UPDATE SET next_block_number = $1, next_log_index = $2           (id bool UNIQUE NOT NULL DEFAULT true)
	reg("chainobssync", "UpdateEventSyncProgress", p(tInt4, tInt4), nil, true, func(x *execCtx, a args) (*result, error) {
		if err := a.required("event_sync_progress", 0, "next_block_number", 1, "next_log_index"); err != nil {
			return nil, err
		}
		if i := indexOf(x.db.EventSyncProgress, func(r *obssync.EventSyncProgress) bool { return r.ID }); i >= 0 {
			x.db.EventSyncProgress[i].NextBlockNumber = a.i32(0)
			x.db.EventSyncProgress[i].NextLogIndex = a.i32(1)
			return tagInsert(1)
		}
		x.db.EventSyncProgress = append(x.db.EventSyncProgress, obssync.EventSyncProgress{ID: true, NextBlockNumber: a.i32(0), NextLogIndex: a.i32(1)})
		return tagInsert(1)
	})
	// SELECT next_block_number, next_log_index FROM event_sync_progress LIMIT 1
	reg("chainobssync", "GetEventSyncProgress", nil, cols("next_block_number", tInt4, "next_log_index", tInt4), false, func(x *execCtx, a args) (*result, error) {
		rows := heapOrder(x, x.db.EventSyncProgress)
		if len(rows) == 0 {
			return selected(nil)
		}
		return selected([][]interface{}{{rows[0].NextBlockNumber, rows[0].NextLogIndex}})
	})
	// SELECT next_block_number from event_sync_progress LIMIT 1
	reg("chainobssync", "GetNextBlockNumber", nil, cols("next_block_number", tInt4), false, func(x *execCtx, a args) (*result, error) {
		rows := heapOrder(x, x.db.EventSyncProgress)
		if len(rows) == 0 {
			return selected(nil)
		}
		return selected([][]interface{}{{rows[0].NextBlockNumber}})
	})

	// INSERT INTO chain_collator (activation_block_number, collator) VALUES ($1, $2)
	reg("chainobscollator", "InsertChainCollator", p(tInt8, tText), nil, true, func(x *execCtx, a args) (*result, error) {
		if err := a.required("chain_collator", 0, "activation_block_number", 1, "collator"); err != nil {
			return nil, err
		}
		if indexOf(x.db.ChainCollator, func(r *obscol.ChainCollator) bool { return r.ActivationBlockNumber == a.i64(0) }) >= 0 {
			return nil, errUnique("chain_collator", "chain_collator_pkey", "(activation_block_number)="+fmtKey(a.i64(0)))
		}
		x.db.ChainCollator = append(x.db.ChainCollator, obscol.ChainCollator{ActivationBlockNumber: a.i64(0), Collator: a.str(1)})
		return tagInsert(1)
	})
	// SELECT * FROM chain_collator WHERE activation_block_number <= $1 ORDER BY activation_block_number DESC LIMIT 1
	reg("chainobscollator", "GetChainCollator", p(tInt8), cols("activation_block_number", tInt8, "collator", tText), false, func(x *execCtx, a args) (*result, error) {
		if a.null(0) {
			return selected(nil)
		}
		var best *obscol.ChainCollator
		for i := range x.db.ChainCollator {
			if r := &x.db.ChainCollator[i]; r.ActivationBlockNumber <= a.i64(0) && (best == nil || r.ActivationBlockNumber > best.ActivationBlockNumber) {
				best = r
			}
		}
		if best == nil {
			return selected(nil)
		}
		return selected([][]interface{}{{best.ActivationBlockNumber, best.Collator}})
	})
}
