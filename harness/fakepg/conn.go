package fakepg

import (
	"fmt"
	"net"
	"runtime/debug"
	"strings"

	"github.com/jackc/pgproto3/v2"
)

type prepared struct {
	text string
	name string   // sqlc name or classification of a special statement
	def  *stmtDef // nil: special statement (transaction control, DDL script, ...)
}

type portal struct {
	ps            *prepared
	params        args
	resultFormats []int16
}

type savepoint struct {
	name string
	db   *DB
}

type txState struct {
	base   *DB // committed database when the transaction began
	db     *DB // private working copy
	failed bool
	saves  []savepoint
}

type conn struct {
	srv      *Server
	nc       net.Conn
	id       int
	be       *pgproto3.Backend
	out      []byte
	prepared map[string]*prepared
	portals  map[string]*portal
	tx       *txState
	skip     bool // after an error in the extended protocol: discard until Sync
	mute     bool // FaultDropAfterCommit: replies are thrown away
	injected *PgError
}

func (c *conn) send(m pgproto3.BackendMessage) { c.out = m.Encode(c.out) }

func (c *conn) flush() error {
	if c.mute {
		c.out = c.out[:0]
		return nil
	}
	if len(c.out) == 0 {
		return nil
	}
	_, err := c.nc.Write(c.out)
	c.out = c.out[:0]
	return err
}

func (c *conn) status() byte {
	switch {
	case c.tx == nil:
		return 'I'
	case c.tx.failed:
		return 'E'
	default:
		return 'T'
	}
}

func (c *conn) ev(kind, stmt, id string) Event {
	return Event{Conn: c.id, Kind: kind, Stmt: stmt, ID: id, InTx: c.tx != nil}
}

// sendErr sends an ErrorResponse and puts an open transaction into the failed state.
func (c *conn) sendErr(e *PgError) {
	if c.tx != nil {
		c.tx.failed = true
	}
	c.send(&pgproto3.ErrorResponse{
		Severity: "ERROR", SeverityUnlocalized: "ERROR", Code: e.Code, Message: e.Message, Detail: e.Detail,
		SchemaName: "public", TableName: e.Table, ColumnName: e.Column, ConstraintName: e.Constraint,
		File: "fakepg", Routine: "fakepg",
	})
}

func asPgError(err error) *PgError {
	if pe, ok := err.(*PgError); ok {
		return pe
	}
	return &PgError{Code: "XX000", Message: "fakepg: " + err.Error()}
}

func (s *Server) serve(nc net.Conn) {
	defer s.track(nc, false)
	defer nc.Close()
	s.mu.Lock()
	s.nextConn++
	id := s.nextConn
	s.mu.Unlock()
	c := &conn{srv: s, nc: nc, id: id, prepared: map[string]*prepared{}, portals: map[string]*portal{}}
	c.be = pgproto3.NewBackend(pgproto3.NewChunkReader(nc), nc)
	defer c.end()

	// --- startup ---
	for {
		m, err := c.be.ReceiveStartupMessage()
		if err != nil {
			return
		}
		switch m.(type) {
		case *pgproto3.SSLRequest, *pgproto3.GSSEncRequest:
			if _, err := nc.Write([]byte{'N'}); err != nil {
				return
			}
			continue
		case *pgproto3.CancelRequest:
			return // nothing to cancel: statements are instantaneous
		case *pgproto3.StartupMessage:
		default:
			return
		}
		break
	}
	if c.fault(c.ev(KindStartup, "", "")) {
		return
	}
	c.send(&pgproto3.AuthenticationOk{})
	for _, kv := range [][2]string{
		{"server_version", "14.0 (fakepg)"}, {"server_encoding", "UTF8"}, {"client_encoding", "UTF8"},
		{"DateStyle", "ISO, MDY"}, {"integer_datetimes", "on"}, {"standard_conforming_strings", "on"},
		{"TimeZone", "UTC"}, {"session_authorization", "fakepg"}, {"is_superuser", "on"},
	} {
		c.send(&pgproto3.ParameterStatus{Name: kv[0], Value: kv[1]})
	}
	c.send(&pgproto3.BackendKeyData{ProcessID: uint32(id), SecretKey: 0x5eed})
	c.send(&pgproto3.ReadyForQuery{TxStatus: 'I'})
	if c.flush() != nil {
		return
	}

	// --- main loop ---
	for {
		m, err := c.be.Receive()
		if err != nil {
			return
		}
		if !c.handle(m) {
			return
		}
	}
}

// end: the connection is gone; an open transaction is discarded.
func (c *conn) end() {
	if c.tx != nil {
		c.tx = nil
		e := c.ev(KindRollback, "rollback", "")
		e.InTx = true
		e.Msg = "connection closed with open transaction"
		c.srv.record(e)
	}
	c.srv.record(c.ev(KindConnEnd, "", ""))
}

// fault logs the protocol message, asks the fault hook and executes
// DropBefore / SQLError. It returns true if the connection must be closed now.
// For FaultDropAfterCommit it sets c.mute; the caller closes after processing.
func (c *conn) fault(ev Event) (closeNow bool) {
	ev = c.srv.record(ev)
	c.srv.mu.Lock()
	f := c.srv.fault
	c.srv.mu.Unlock()
	if f == nil {
		return false
	}
	d := f(ev)
	switch d.Kind {
	case FaultDropBefore:
		e := c.ev(KindDrop, ev.Stmt, ev.ID)
		e.Msg = fmt.Sprintf("before %s (#%d)", ev.Kind, ev.Seq)
		c.srv.record(e)
		return true
	case FaultDropAfterCommit:
		c.mute = true
		e := c.ev(KindDrop, ev.Stmt, ev.ID)
		e.Msg = fmt.Sprintf("after processing %s (#%d)", ev.Kind, ev.Seq)
		c.srv.record(e)
	case FaultSQLError:
		pe := &PgError{Code: d.Code, Message: d.Message}
		if pe.Code == "" {
			pe.Code = "XX000"
		}
		if pe.Message == "" {
			pe.Message = fmt.Sprintf("fakepg: injected error at %s %s (#%d)", ev.Kind, ev.Stmt, ev.Seq)
		}
		c.injected = pe
	}
	return false
}

// handle processes one message; false: close the connection.
func (c *conn) handle(m pgproto3.FrontendMessage) bool {
	kind, stmt, id := c.describeMsg(m)
	if c.skip && kind != KindSync && kind != KindTerminate {
		e := c.ev(kind, stmt, id)
		e.Msg = "discarded (waiting for Sync)"
		c.srv.record(e)
		return true
	}
	c.injected = nil
	if c.fault(c.ev(kind, stmt, id)) {
		return false
	}
	if pe := c.injected; pe != nil {
		c.injected = nil
		c.sendErr(pe)
		e := c.ev(KindError, stmt, id)
		e.Err, e.Msg = pe.Code, pe.Message
		c.srv.record(e)
		switch kind {
		case KindQuery, KindSync:
			c.skip = false
			c.send(&pgproto3.ReadyForQuery{TxStatus: c.status()})
			return c.flush() == nil
		case KindTerminate:
			return false
		default:
			c.skip = true
			return true
		}
	}
	ok := c.process(m)
	if c.mute {
		return false
	}
	return ok
}

func (c *conn) describeMsg(m pgproto3.FrontendMessage) (kind, stmt, id string) {
	psInfo := func(ps *prepared) (string, string) {
		if ps == nil {
			return "", ""
		}
		if ps.def != nil {
			return ps.name, ps.def.ID()
		}
		return ps.name, ""
	}
	switch m := m.(type) {
	case *pgproto3.Parse:
		if n := sqlcName(m.Query); n != "" {
			if d := stmtByHash[HashText(m.Query)]; d != nil {
				return KindParse, n, d.ID()
			}
			return KindParse, n, ""
		}
		return KindParse, classify(m.Query), ""
	case *pgproto3.Bind:
		s, i := psInfo(c.prepared[m.PreparedStatement])
		return KindBind, s, i
	case *pgproto3.Describe:
		if m.ObjectType == 'S' {
			s, i := psInfo(c.prepared[m.Name])
			return KindDescribe, s, i
		}
		if po := c.portals[m.Name]; po != nil {
			s, i := psInfo(po.ps)
			return KindDescribe, s, i
		}
		return KindDescribe, "", ""
	case *pgproto3.Execute:
		if po := c.portals[m.Portal]; po != nil {
			s, i := psInfo(po.ps)
			return KindExecute, s, i
		}
		return KindExecute, "", ""
	case *pgproto3.Sync:
		return KindSync, "", ""
	case *pgproto3.Flush:
		return KindFlush, "", ""
	case *pgproto3.Close:
		return KindClose, "", ""
	case *pgproto3.Terminate:
		return KindTerminate, "", ""
	case *pgproto3.Query:
		if n := sqlcName(m.String); n != "" {
			if d := stmtByHash[HashText(m.String)]; d != nil {
				return KindQuery, n, d.ID()
			}
			return KindQuery, n, ""
		}
		return KindQuery, classify(m.String), ""
	}
	return fmt.Sprintf("%T", m), "", ""
}

// extErr reports an error in the extended protocol.
func (c *conn) extErr(stmt, id string, pe *PgError, log bool) {
	c.sendErr(pe)
	c.skip = true
	if log {
		e := c.ev(KindError, stmt, id)
		e.Err, e.Msg = pe.Code, pe.Message
		c.srv.record(e)
	}
}

func (c *conn) process(m pgproto3.FrontendMessage) bool {
	switch m := m.(type) {
	case *pgproto3.Parse:
		ps, pe := c.resolve(m.Query)
		if pe == nil && c.tx != nil && c.tx.failed && !(ps.def == nil && isTxExit(ps.name)) {
			pe = errFailedTx()
		}
		if pe != nil {
			c.extErr(sqlcName(m.Query), "", pe, true)
			return true
		}
		c.prepared[m.Name] = ps
		c.send(&pgproto3.ParseComplete{})

	case *pgproto3.Bind:
		ps := c.prepared[m.PreparedStatement]
		if ps == nil {
			c.extErr("", "", &PgError{Code: "26000", Message: fmt.Sprintf("prepared statement %q does not exist", m.PreparedStatement)}, true)
			return true
		}
		id := ""
		var oids []uint32
		if ps.def != nil {
			id = ps.def.ID()
			oids = ps.def.Params
		}
		if c.tx != nil && c.tx.failed && !(ps.def == nil && isTxExit(ps.name)) {
			c.extErr(ps.name, id, errFailedTx(), true)
			return true
		}
		if len(m.Parameters) != len(oids) {
			c.extErr(ps.name, id, &PgError{Code: "08P01", Message: fmt.Sprintf("bind message supplies %d parameters, but prepared statement %q requires %d", len(m.Parameters), m.PreparedStatement, len(oids))}, true)
			return true
		}
		if n := len(m.ParameterFormatCodes); n > 1 && n != len(oids) {
			c.extErr(ps.name, id, &PgError{Code: "08P01", Message: fmt.Sprintf("bind message has %d parameter formats but %d parameters", n, len(oids))}, true)
			return true
		}
		params := make(args, len(oids))
		for i, raw := range m.Parameters {
			var f int16
			switch len(m.ParameterFormatCodes) {
			case 0:
			case 1:
				f = m.ParameterFormatCodes[0]
			default:
				f = m.ParameterFormatCodes[i]
			}
			v, err := decodeParam(oids[i], f, raw)
			if err != nil {
				c.extErr(ps.name, id, asPgError(err), true)
				return true
			}
			params[i] = v
		}
		c.portals[m.DestinationPortal] = &portal{ps: ps, params: params, resultFormats: append([]int16{}, m.ResultFormatCodes...)}
		c.send(&pgproto3.BindComplete{})

	case *pgproto3.Describe:
		switch m.ObjectType {
		case 'S':
			ps := c.prepared[m.Name]
			if ps == nil {
				c.extErr("", "", &PgError{Code: "26000", Message: fmt.Sprintf("prepared statement %q does not exist", m.Name)}, true)
				return true
			}
			var oids []uint32
			var cs []colDef
			if ps.def != nil {
				oids, cs = ps.def.Params, ps.def.Cols
			}
			c.send(&pgproto3.ParameterDescription{ParameterOIDs: append([]uint32{}, oids...)})
			c.sendRowDesc(cs, nil)
		default:
			po := c.portals[m.Name]
			if po == nil {
				c.extErr("", "", &PgError{Code: "34000", Message: fmt.Sprintf("portal %q does not exist", m.Name)}, true)
				return true
			}
			var cs []colDef
			if po.ps.def != nil {
				cs = po.ps.def.Cols
			}
			fm, pe := expandFormats(po.resultFormats, len(cs))
			if pe != nil {
				c.extErr(po.ps.name, "", pe, true)
				return true
			}
			c.sendRowDesc(cs, fm)
		}

	case *pgproto3.Execute:
		po := c.portals[m.Portal]
		if po == nil {
			c.extErr("", "", &PgError{Code: "34000", Message: fmt.Sprintf("portal %q does not exist", m.Portal)}, true)
			return true
		}
		if po.ps.def == nil {
			tags, pe := c.runScript(po.ps.text)
			if pe != nil {
				c.extErr(po.ps.name, "", pe, false)
				return true
			}
			if len(tags) == 0 {
				c.send(&pgproto3.EmptyQueryResponse{})
			} else {
				c.send(&pgproto3.CommandComplete{CommandTag: []byte(tags[len(tags)-1])})
			}
			return true
		}
		def := po.ps.def
		fm, pe := expandFormats(po.resultFormats, len(def.Cols))
		if pe != nil {
			c.extErr(def.Name, def.ID(), pe, true)
			return true
		}
		res, pe := c.runDef(def, po.params)
		if pe != nil {
			c.extErr(def.Name, def.ID(), pe, false)
			return true
		}
		if pe := c.sendRows(def, fm, res); pe != nil {
			c.extErr(def.Name, def.ID(), pe, true)
			return true
		}
		c.send(&pgproto3.CommandComplete{CommandTag: []byte(res.tag)})

	case *pgproto3.Sync:
		c.skip = false
		// the unnamed portal does not survive the end of the implicit transaction
		if c.tx == nil {
			for k := range c.portals {
				delete(c.portals, k)
			}
		}
		c.send(&pgproto3.ReadyForQuery{TxStatus: c.status()})
		return c.flush() == nil

	case *pgproto3.Flush:
		return c.flush() == nil

	case *pgproto3.Close:
		if m.ObjectType == 'S' {
			delete(c.prepared, m.Name)
		} else {
			delete(c.portals, m.Name)
		}
		c.send(&pgproto3.CloseComplete{})

	case *pgproto3.Terminate:
		return false

	case *pgproto3.Query:
		c.simpleQuery(m.String)
		c.send(&pgproto3.ReadyForQuery{TxStatus: c.status()})
		return c.flush() == nil

	default:
		c.sendErr(&PgError{Code: "0A000", Message: fmt.Sprintf("fakepg: unsupported protocol message %T", m)})
		c.send(&pgproto3.ReadyForQuery{TxStatus: c.status()})
		return c.flush() == nil
	}
	return true
}

func expandFormats(codes []int16, n int) ([]int16, *PgError) {
	out := make([]int16, n)
	switch len(codes) {
	case 0:
	case 1:
		for i := range out {
			out[i] = codes[0]
		}
	default:
		if len(codes) != n {
			return nil, &PgError{Code: "08P01", Message: fmt.Sprintf("bind message has %d result formats but query has %d columns", len(codes), n)}
		}
		copy(out, codes)
	}
	return out, nil
}

func (c *conn) sendRowDesc(cs []colDef, formats []int16) {
	if cs == nil {
		c.send(&pgproto3.NoData{})
		return
	}
	rd := &pgproto3.RowDescription{}
	for i, col := range cs {
		var f int16
		if formats != nil {
			f = formats[i]
		}
		rd.Fields = append(rd.Fields, pgproto3.FieldDescription{
			Name: []byte(col.Name), TableOID: 0, TableAttributeNumber: 0,
			DataTypeOID: col.OID, DataTypeSize: typeSize(col.OID), TypeModifier: -1, Format: f,
		})
	}
	c.send(rd)
}

func (c *conn) sendRows(def *stmtDef, formats []int16, res *result) *PgError {
	if len(res.rows) > 0 && def.Cols == nil {
		return &PgError{Code: "XX000", Message: "fakepg: handler " + def.ID() + " returned rows but declares none"}
	}
	for _, row := range res.rows {
		if len(row) != len(def.Cols) {
			return &PgError{Code: "XX000", Message: fmt.Sprintf("fakepg: handler %s returned %d columns, declared %d", def.ID(), len(row), len(def.Cols))}
		}
		dr := &pgproto3.DataRow{Values: make([][]byte, len(row))}
		for i, v := range row {
			b, err := encodeValue(def.Cols[i].OID, formats[i], v)
			if err != nil {
				return asPgError(err)
			}
			dr.Values[i] = b
		}
		c.send(dr)
	}
	return nil
}

// resolve finds the handler for a statement text.
func (c *conn) resolve(text string) (*prepared, *PgError) {
	name := sqlcName(text)
	if name == "" {
		return &prepared{text: text, name: classify(text)}, nil
	}
	if d := stmtByHash[HashText(text)]; d != nil {
		return &prepared{text: text, name: name, def: d}, nil
	}
	cands := stmtByName[name]
	if len(cands) == 0 {
		c.srv.notePin("unhandled: " + name)
		return nil, &PgError{Code: "0A000", Message: fmt.Sprintf("fakepg: no handler for statement %q", name)}
	}
	c.srv.notePin("changed: " + name)
	c.srv.mu.Lock()
	strict := c.srv.strict
	c.srv.mu.Unlock()
	if !strict && len(cands) == 1 {
		return &prepared{text: text, name: name, def: cands[0]}, nil
	}
	return nil, &PgError{Code: "0A000", Message: fmt.Sprintf("fakepg: text of statement %q differs from the text pinned in the fake (SQL changed in the repository?)", name)}
}

// runDef executes a statement handler on the transaction copy or (autocommit)
// on the shared database under the server lock, and logs the outcome.
func (c *conn) runDef(def *stmtDef, a args) (res *result, pe *PgError) {
	s := c.srv
	e := c.ev(KindExec, def.Name, def.ID())
	if c.tx != nil && c.tx.failed {
		pe = errFailedTx()
		e.Err, e.Msg = pe.Code, pe.Message
		s.record(e)
		return nil, pe
	}
	call := func(x *execCtx) (res *result, pe *PgError) {
		defer func() {
			if r := recover(); r != nil {
				pe = &PgError{Code: "XX000", Message: fmt.Sprintf("fakepg: handler %s panicked: %v\n%s", def.ID(), r, debug.Stack())}
			}
		}()
		r, err := def.run(x, a)
		if err != nil {
			return nil, asPgError(err)
		}
		return r, nil
	}
	if c.tx != nil {
		res, pe = call(&execCtx{db: c.tx.db, srv: s, stmt: def.Name})
	} else {
		s.mu.Lock()
		res, pe = call(&execCtx{db: s.db, srv: s, stmt: def.Name, locked: true})
		s.mu.Unlock()
	}
	if pe != nil {
		e.Err, e.Msg = pe.Code, pe.Message
	} else if len(res.rows) > 0 {
		e.Rows = len(res.rows)
	} else {
		e.Rows = tagCount(res.tag)
	}
	s.record(e)
	return res, pe
}

func tagCount(tag string) int {
	f := strings.Fields(tag)
	if len(f) == 0 {
		return 0
	}
	n := 0
	fmt.Sscanf(f[len(f)-1], "%d", &n)
	return n
}

// simpleQuery handles one 'Q' message (ReadyForQuery is sent by the caller).
func (c *conn) simpleQuery(sql string) {
	if name := sqlcName(sql); name != "" {
		ps, pe := c.resolve(sql)
		if pe == nil && len(ps.def.Params) != 0 {
			pe = &PgError{Code: "08P01", Message: fmt.Sprintf("fakepg: statement %q needs %d parameters but was sent with the simple protocol", name, len(ps.def.Params))}
		}
		if pe != nil {
			c.sendErr(pe)
			e := c.ev(KindError, name, "")
			e.Err, e.Msg = pe.Code, pe.Message
			c.srv.record(e)
			return
		}
		res, pe := c.runDef(ps.def, nil)
		if pe != nil {
			c.sendErr(pe)
			return
		}
		fm := make([]int16, len(ps.def.Cols)) // text
		if ps.def.Cols != nil {
			c.sendRowDesc(ps.def.Cols, fm)
		}
		if pe := c.sendRows(ps.def, fm, res); pe != nil {
			c.sendErr(pe)
			return
		}
		c.send(&pgproto3.CommandComplete{CommandTag: []byte(res.tag)})
		return
	}
	tags, pe := c.runScript(sql)
	for _, t := range tags {
		c.send(&pgproto3.CommandComplete{CommandTag: []byte(t)})
	}
	if pe != nil {
		c.sendErr(pe)
		return
	}
	if len(tags) == 0 {
		c.send(&pgproto3.EmptyQueryResponse{})
	}
}

// ---- transactions ----

func (c *conn) beginTx() {
	if c.tx != nil {
		return // PostgreSQL: WARNING "there is already a transaction in progress"
	}
	s := c.srv
	s.mu.Lock()
	base := s.db.Clone()
	s.mu.Unlock()
	c.tx = &txState{base: base, db: base.Clone()}
	e := c.ev(KindBegin, "begin", "")
	e.InTx = false
	s.record(e)
}

func (c *conn) commitTx() string {
	tx := c.tx
	if tx == nil {
		return "COMMIT" // PostgreSQL: WARNING "there is no transaction in progress"
	}
	c.tx = nil
	s := c.srv
	if tx.failed {
		e := c.ev(KindRollback, "commit", "")
		e.InTx = true
		e.Msg = "commit of a failed transaction"
		s.record(e)
		return "ROLLBACK"
	}
	s.mu.Lock()
	touched, merged, conflicts := mergeInto(s.db, tx.base, tx.db)
	e := c.ev(KindCommit, "commit", "")
	e.InTx = true
	e.Tables, e.Conflicts = touched, conflicts
	if len(merged) > 0 {
		e.Msg = "concurrent commit changed the same tables, merged row-wise: " + strings.Join(merged, ",")
	}
	s.recordLocked(e)
	s.mu.Unlock()
	return "COMMIT"
}

func (c *conn) rollbackTx() {
	if c.tx == nil {
		return
	}
	c.tx = nil
	e := c.ev(KindRollback, "rollback", "")
	e.InTx = true
	c.srv.record(e)
}
