package fakepg

import (
	"bytes"
	"database/sql"

	gnodb "github.com/shutter-network/rolling-shutter/rolling-shutter/keyperimpl/gnosis/database"
)

// Handlers for keyperimpl/gnosis/database/sql/queries/gnosiskeyper.sql over the
// schema after migration V2 (validator_registrations PRIMARY KEY
// (block_number, tx_index, log_index, validator_index)).

// latestRegistration: ... FROM validator_registrations WHERE <pred> ORDER BY block_number DESC, tx_index DESC, log_index DESC LIMIT 1
func latestRegistration(x *execCtx, pred func(r *gnodb.ValidatorRegistration) bool) (gnodb.ValidatorRegistration, bool) {
	rows := filter(heapOrder(x, x.db.ValidatorRegistrations), pred)
	sortRows(rows, func(a, b *gnodb.ValidatorRegistration) bool {
		if a.BlockNumber != b.BlockNumber {
			return a.BlockNumber > b.BlockNumber
		}
		if a.TxIndex != b.TxIndex {
			return a.TxIndex > b.TxIndex
		}
		return a.LogIndex > b.LogIndex
	})
	if len(rows) == 0 {
		return gnodb.ValidatorRegistration{}, false
	}
	return rows[0], true
}

func init() {
	// INSERT INTO transaction_submitted_event (index, block_number, block_hash, tx_index, log_index, eon, identity_prefix, sender, gas_limit)
	// VALUES ($1..$9) ON CONFLICT (index, eon) DO UPDATE SET block_number = $2, block_hash = $3, tx_index = $4, log_index = $5,
	//   identity_prefix = $7, sender = $8, gas_limit = $9
	reg("gnosiskeyper", "InsertTransactionSubmittedEvent", p(tInt8, tInt8, tBytea, tInt8, tInt8, tInt8, tBytea, tText, tInt8), nil, true, func(x *execCtx, a args) (*result, error) {
		const t = "transaction_submitted_event"
		if err := a.required(t, 0, "index", 1, "block_number", 2, "block_hash", 3, "tx_index", 4, "log_index", 5, "eon", 6, "identity_prefix", 7, "sender", 8, "gas_limit"); err != nil {
			return nil, err
		}
		if err := nonNeg(t, a.i64(0), "index", a.i64(1), "block_number", a.i64(3), "tx_index", a.i64(4), "log_index", a.i64(5), "eon", a.i64(8), "gas_limit"); err != nil {
			return nil, err
		}
		if i := indexOf(x.db.TransactionSubmittedEvent, func(r *gnodb.TransactionSubmittedEvent) bool { return r.Index == a.i64(0) && r.Eon == a.i64(5) }); i >= 0 {
			r := &x.db.TransactionSubmittedEvent[i]
			r.BlockNumber, r.BlockHash, r.TxIndex, r.LogIndex = a.i64(1), a.bytes(2), a.i64(3), a.i64(4)
			r.IdentityPrefix, r.Sender, r.GasLimit = a.bytes(6), a.str(7), a.i64(8)
			return tagInsert(1)
		}
		x.db.TransactionSubmittedEvent = append(x.db.TransactionSubmittedEvent, gnodb.TransactionSubmittedEvent{
			Index: a.i64(0), BlockNumber: a.i64(1), BlockHash: a.bytes(2), TxIndex: a.i64(3), LogIndex: a.i64(4), Eon: a.i64(5),
			IdentityPrefix: a.bytes(6), Sender: a.str(7), GasLimit: a.i64(8)})
		return tagInsert(1)
	})
	// SELECT * FROM transaction_submitted_event WHERE eon = $1 AND index >= $2 AND index < $2 + $3 ORDER BY index ASC LIMIT $3
	reg("gnosiskeyper", "GetTransactionSubmittedEvents", p(tInt8, tInt8, tInt8), cols("index", tInt8, "block_number", tInt8, "block_hash", tBytea, "tx_index", tInt8,
		"log_index", tInt8, "eon", tInt8, "identity_prefix", tBytea, "sender", tText, "gas_limit", tInt8), false, func(x *execCtx, a args) (*result, error) {
		rows := []gnodb.TransactionSubmittedEvent{}
		if !a.null(0) && !a.null(1) && !a.null(2) {
			hi, err := addI64(a.i64(1), a.i64(2))
			if err != nil {
				return nil, err
			}
			rows = filter(x.db.TransactionSubmittedEvent, func(r *gnodb.TransactionSubmittedEvent) bool {
				return r.Eon == a.i64(0) && r.Index >= a.i64(1) && r.Index < hi
			})
		}
		sortRows(rows, func(a, b *gnodb.TransactionSubmittedEvent) bool { return a.Index < b.Index })
		rows, err := limitRows(rows, a[2])
		if err != nil {
			return nil, err
		}
		var out [][]interface{}
		for _, r := range rows {
			out = append(out, []interface{}{r.Index, r.BlockNumber, r.BlockHash, r.TxIndex, r.LogIndex, r.Eon, r.IdentityPrefix, r.Sender, r.GasLimit})
		}
		return selected(out)
	})
	// INSERT INTO transaction_submitted_events_synced_until (block_hash, block_number, slot) VALUES ($1, $2, $3)
	// ON CONFLICT (enforce_one_row) DO UPDATE SET block_hash = $1, block_number = $2, slot = $3
	reg("gnosiskeyper", "SetTransactionSubmittedEventsSyncedUntil", p(tBytea, tInt8, tInt8), nil, true, func(x *execCtx, a args) (*result, error) {
		const t = "transaction_submitted_events_synced_until"
		if err := a.required(t, 0, "block_hash", 1, "block_number", 2, "slot"); err != nil {
			return nil, err
		}
		if err := nonNeg(t, a.i64(1), "block_number", a.i64(2), "slot"); err != nil {
			return nil, err
		}
		row := gnodb.TransactionSubmittedEventsSyncedUntil{EnforceOneRow: true, BlockHash: a.bytes(0), BlockNumber: a.i64(1), Slot: a.i64(2)}
		if i := indexOf(x.db.TransactionSubmittedEventsSyncedUntil, func(r *gnodb.TransactionSubmittedEventsSyncedUntil) bool { return r.EnforceOneRow }); i >= 0 {
			x.db.TransactionSubmittedEventsSyncedUntil[i] = row
			return tagInsert(1)
		}
		x.db.TransactionSubmittedEventsSyncedUntil = append(x.db.TransactionSubmittedEventsSyncedUntil, row)
		return tagInsert(1)
	})
	// SELECT * FROM transaction_submitted_events_synced_until LIMIT 1
	reg("gnosiskeyper", "GetTransactionSubmittedEventsSyncedUntil", nil, cols("enforce_one_row", tBool, "block_hash", tBytea, "block_number", tInt8, "slot", tInt8), false, func(x *execCtx, a args) (*result, error) {
		rows := heapOrder(x, x.db.TransactionSubmittedEventsSyncedUntil)
		if len(rows) == 0 {
			return selected(nil)
		}
		return selected([][]interface{}{{rows[0].EnforceOneRow, rows[0].BlockHash, rows[0].BlockNumber, rows[0].Slot}})
	})
	// SELECT cast(coalesce(max(index) + 1, 0) AS bigint) FROM transaction_submitted_event WHERE eon = $1
	reg("gnosiskeyper", "GetTransactionSubmittedEventCount", p(tInt8), cols("coalesce", tInt8), false, func(x *execCtx, a args) (*result, error) {
		n := int64(0)
		if !a.null(0) {
			found := false
			max := int64(0)
			for _, r := range x.db.TransactionSubmittedEvent {
				if r.Eon == a.i64(0) && (!found || r.Index > max) {
					found, max = true, r.Index
				}
			}
			if found {
				var err error
				if n, err = addI64(max, 1); err != nil {
					return nil, err
				}
			}
		}
		return selected([][]interface{}{{n}})
	})
	// DELETE FROM transaction_submitted_event WHERE block_number >= $1
	reg("gnosiskeyper", "DeleteTransactionSubmittedEventsFromBlockNumber", p(tInt8), nil, true, func(x *execCtx, a args) (*result, error) {
		if a.null(0) {
			return tagDelete(0)
		}
		return tagDelete(len(deleteWhere(&x.db.TransactionSubmittedEvent, func(r *gnodb.TransactionSubmittedEvent) bool { return r.BlockNumber >= a.i64(0) })))
	})
	// SELECT * FROM tx_pointer WHERE eon = $1
	reg("gnosiskeyper", "GetTxPointer", p(tInt8), cols("eon", tInt8, "age", tInt8, "value", tInt8), false, func(x *execCtx, a args) (*result, error) {
		var out [][]interface{}
		if !a.null(0) {
			for _, r := range x.db.TxPointer {
				if r.Eon == a.i64(0) {
					out = append(out, []interface{}{r.Eon, r.Age, r.Value})
				}
			}
		}
		return selected(out)
	})
	// INSERT INTO tx_pointer (eon, age, value) VALUES ($1, $2, $3) ON CONFLICT DO NOTHING
	reg("gnosiskeyper", "InitTxPointer", p(tInt8, tInt8, tInt8), nil, true, func(x *execCtx, a args) (*result, error) {
		if err := a.required("tx_pointer", 0, "eon", 2, "value"); err != nil {
			return nil, err
		}
		if indexOf(x.db.TxPointer, func(r *gnodb.TxPointer) bool { return r.Eon == a.i64(0) }) >= 0 {
			return tagInsert(0)
		}
		x.db.TxPointer = append(x.db.TxPointer, gnodb.TxPointer{Eon: a.i64(0), Age: a.nullI64(1), Value: a.i64(2)})
		return tagInsert(1)
	})
	// INSERT INTO tx_pointer (eon, age, value) VALUES ($1, $2, $3) ON CONFLICT (eon) DO UPDATE SET age = $2, value = $3
	reg("gnosiskeyper", "SetTxPointer", p(tInt8, tInt8, tInt8), nil, true, func(x *execCtx, a args) (*result, error) {
		if err := a.required("tx_pointer", 0, "eon", 2, "value"); err != nil {
			return nil, err
		}
		if i := indexOf(x.db.TxPointer, func(r *gnodb.TxPointer) bool { return r.Eon == a.i64(0) }); i >= 0 {
			x.db.TxPointer[i].Age, x.db.TxPointer[i].Value = a.nullI64(1), a.i64(2)
			return tagInsert(1)
		}
		x.db.TxPointer = append(x.db.TxPointer, gnodb.TxPointer{Eon: a.i64(0), Age: a.nullI64(1), Value: a.i64(2)})
		return tagInsert(1)
	})
	// UPDATE tx_pointer SET age = age + 1 WHERE eon = $1 RETURNING age             (NULL + 1 is NULL)
	reg("gnosiskeyper", "IncrementTxPointerAge", p(tInt8), cols("age", tInt8), true, func(x *execCtx, a args) (*result, error) {
		if a.null(0) {
			return &result{tag: "UPDATE 0"}, nil
		}
		i := indexOf(x.db.TxPointer, func(r *gnodb.TxPointer) bool { return r.Eon == a.i64(0) })
		if i < 0 {
			return &result{tag: "UPDATE 0"}, nil
		}
		r := &x.db.TxPointer[i]
		if r.Age.Valid {
			n, err := addI64(r.Age.Int64, 1)
			if err != nil {
				return nil, err
			}
			r.Age.Int64 = n
		}
		return &result{rows: [][]interface{}{{r.Age}}, tag: "UPDATE 1"}, nil
	})
	// UPDATE tx_pointer SET age = NULL
	reg("gnosiskeyper", "ResetAllTxPointerAges", nil, nil, true, func(x *execCtx, a args) (*result, error) {
		for i := range x.db.TxPointer {
			x.db.TxPointer[i].Age = sql.NullInt64{}
		}
		return tagUpdate(len(x.db.TxPointer))
	})
	// INSERT INTO current_decryption_trigger (eon, slot, tx_pointer, identities_hash) VALUES ($1, $2, $3, $4)
	// ON CONFLICT (eon) DO UPDATE SET slot = $2, tx_pointer = $3, identities_hash = $4
	reg("gnosiskeyper", "SetCurrentDecryptionTrigger", p(tInt8, tInt8, tInt8, tBytea), nil, true, func(x *execCtx, a args) (*result, error) {
		const t = "current_decryption_trigger"
		if err := a.required(t, 0, "eon", 1, "slot", 2, "tx_pointer", 3, "identities_hash"); err != nil {
			return nil, err
		}
		if err := nonNeg(t, a.i64(0), "eon", a.i64(1), "slot", a.i64(2), "tx_pointer"); err != nil {
			return nil, err
		}
		row := gnodb.CurrentDecryptionTrigger{Eon: a.i64(0), Slot: a.i64(1), TxPointer: a.i64(2), IdentitiesHash: a.bytes(3)}
		if i := indexOf(x.db.GnosisCurrentDecryptionTrigger, func(r *gnodb.CurrentDecryptionTrigger) bool { return r.Eon == a.i64(0) }); i >= 0 {
			x.db.GnosisCurrentDecryptionTrigger[i] = row
			return tagInsert(1)
		}
		x.db.GnosisCurrentDecryptionTrigger = append(x.db.GnosisCurrentDecryptionTrigger, row)
		return tagInsert(1)
	})
	// SELECT * FROM current_decryption_trigger WHERE eon = $1
	reg("gnosiskeyper", "GetCurrentDecryptionTrigger", p(tInt8), cols("eon", tInt8, "slot", tInt8, "tx_pointer", tInt8, "identities_hash", tBytea), false, func(x *execCtx, a args) (*result, error) {
		var out [][]interface{}
		if !a.null(0) {
			for _, r := range x.db.GnosisCurrentDecryptionTrigger {
				if r.Eon == a.i64(0) {
					out = append(out, []interface{}{r.Eon, r.Slot, r.TxPointer, r.IdentitiesHash})
				}
			}
		}
		return selected(out)
	})
	// INSERT INTO slot_decryption_signatures (eon, slot, keyper_index, tx_pointer, identities_hash, signature) VALUES ($1..$6) ON CONFLICT DO NOTHING
	reg("gnosiskeyper", "InsertSlotDecryptionSignature", p(tInt8, tInt8, tInt8, tInt8, tBytea, tBytea), nil, true, func(x *execCtx, a args) (*result, error) {
		const t = "slot_decryption_signatures"
		if err := a.required(t, 0, "eon", 1, "slot", 2, "keyper_index", 3, "tx_pointer", 4, "identities_hash", 5, "signature"); err != nil {
			return nil, err
		}
		if err := nonNeg(t, a.i64(0), "eon", a.i64(1), "slot", a.i64(3), "tx_pointer"); err != nil {
			return nil, err
		}
		if indexOf(x.db.SlotDecryptionSignatures, func(r *gnodb.SlotDecryptionSignature) bool {
			return r.Eon == a.i64(0) && r.Slot == a.i64(1) && r.KeyperIndex == a.i64(2)
		}) >= 0 {
			return tagInsert(0)
		}
		x.db.SlotDecryptionSignatures = append(x.db.SlotDecryptionSignatures, gnodb.SlotDecryptionSignature{
			Eon: a.i64(0), Slot: a.i64(1), KeyperIndex: a.i64(2), TxPointer: a.i64(3), IdentitiesHash: a.bytes(4), Signature: a.bytes(5)})
		return tagInsert(1)
	})
	// SELECT * FROM slot_decryption_signatures WHERE eon = $1 AND slot = $2 AND tx_pointer = $3 AND identities_hash = $4 ORDER BY keyper_index ASC LIMIT $5
	reg("gnosiskeyper", "GetSlotDecryptionSignatures", p(tInt8, tInt8, tInt8, tBytea, tInt8), cols("eon", tInt8, "slot", tInt8, "keyper_index", tInt8, "tx_pointer", tInt8,
		"identities_hash", tBytea, "signature", tBytea), false, func(x *execCtx, a args) (*result, error) {
		rows := []gnodb.SlotDecryptionSignature{}
		if !a.null(0) && !a.null(1) && !a.null(2) && !a.null(3) {
			rows = filter(x.db.SlotDecryptionSignatures, func(r *gnodb.SlotDecryptionSignature) bool {
				return r.Eon == a.i64(0) && r.Slot == a.i64(1) && r.TxPointer == a.i64(2) && bytes.Equal(r.IdentitiesHash, a.bytes(3))
			})
		}
		sortRows(rows, func(a, b *gnodb.SlotDecryptionSignature) bool { return a.KeyperIndex < b.KeyperIndex })
		rows, err := limitRows(rows, a[4])
		if err != nil {
			return nil, err
		}
		var out [][]interface{}
		for _, r := range rows {
			out = append(out, []interface{}{r.Eon, r.Slot, r.KeyperIndex, r.TxPointer, r.IdentitiesHash, r.Signature})
		}
		return selected(out)
	})
	// INSERT INTO validator_registrations (block_number, block_hash, tx_index, log_index, validator_index, nonce, is_registration) VALUES ($1..$7)
	reg("gnosiskeyper", "InsertValidatorRegistration", p(tInt8, tBytea, tInt8, tInt8, tInt8, tInt8, tBool), nil, true, func(x *execCtx, a args) (*result, error) {
		const t = "validator_registrations"
		if err := a.required(t, 0, "block_number", 1, "block_hash", 2, "tx_index", 3, "log_index", 4, "validator_index", 5, "nonce", 6, "is_registration"); err != nil {
			return nil, err
		}
		if err := nonNeg(t, a.i64(0), "block_number", a.i64(2), "tx_index", a.i64(3), "log_index", a.i64(4), "validator_index", a.i64(5), "nonce"); err != nil {
			return nil, err
		}
		if indexOf(x.db.ValidatorRegistrations, func(r *gnodb.ValidatorRegistration) bool {
			return r.BlockNumber == a.i64(0) && r.TxIndex == a.i64(2) && r.LogIndex == a.i64(3) && r.ValidatorIndex == a.i64(4)
		}) >= 0 {
			return nil, errUnique(t, "validator_registrations_pkey", "(block_number, tx_index, log_index, validator_index)="+fmtKey(a.i64(0), a.i64(2), a.i64(3), a.i64(4)))
		}
		x.db.ValidatorRegistrations = append(x.db.ValidatorRegistrations, gnodb.ValidatorRegistration{
			BlockNumber: a.i64(0), BlockHash: a.bytes(1), TxIndex: a.i64(2), LogIndex: a.i64(3), ValidatorIndex: a.i64(4), Nonce: a.i64(5), IsRegistration: a.boolean(6)})
		return tagInsert(1)
	})
	// SELECT is_registration FROM validator_registrations WHERE validator_index = $1 AND block_number < $2
	// ORDER BY block_number DESC, tx_index DESC, log_index DESC LIMIT 1
	reg("gnosiskeyper", "IsValidatorRegistered", p(tInt8, tInt8), cols("is_registration", tBool), false, func(x *execCtx, a args) (*result, error) {
		if a.null(0) || a.null(1) {
			return selected(nil)
		}
		r, ok := latestRegistration(x, func(r *gnodb.ValidatorRegistration) bool {
			return r.ValidatorIndex == a.i64(0) && r.BlockNumber < a.i64(1)
		})
		if !ok {
			return selected(nil)
		}
		return selected([][]interface{}{{r.IsRegistration}})
	})
	// INSERT INTO validator_registrations_synced_until (block_hash, block_number) VALUES ($1, $2)
	// ON CONFLICT (enforce_one_row) DO UPDATE SET block_hash = $1, block_number = $2
	reg("gnosiskeyper", "SetValidatorRegistrationsSyncedUntil", p(tBytea, tInt8), nil, true, func(x *execCtx, a args) (*result, error) {
		const t = "validator_registrations_synced_until"
		if err := a.required(t, 0, "block_hash", 1, "block_number"); err != nil {
			return nil, err
		}
		if err := nonNeg(t, a.i64(1), "block_number"); err != nil {
			return nil, err
		}
		row := gnodb.ValidatorRegistrationsSyncedUntil{EnforceOneRow: true, BlockHash: a.bytes(0), BlockNumber: a.i64(1)}
		if i := indexOf(x.db.ValidatorRegistrationsSyncedUntil, func(r *gnodb.ValidatorRegistrationsSyncedUntil) bool { return r.EnforceOneRow }); i >= 0 {
			x.db.ValidatorRegistrationsSyncedUntil[i] = row
			return tagInsert(1)
		}
		x.db.ValidatorRegistrationsSyncedUntil = append(x.db.ValidatorRegistrationsSyncedUntil, row)
		return tagInsert(1)
	})
	// SELECT * FROM validator_registrations_synced_until LIMIT 1
	reg("gnosiskeyper", "GetValidatorRegistrationsSyncedUntil", nil, cols("enforce_one_row", tBool, "block_hash", tBytea, "block_number", tInt8), false, func(x *execCtx, a args) (*result, error) {
		rows := heapOrder(x, x.db.ValidatorRegistrationsSyncedUntil)
		if len(rows) == 0 {
			return selected(nil)
		}
		return selected([][]interface{}{{rows[0].EnforceOneRow, rows[0].BlockHash, rows[0].BlockNumber}})
	})
	// SELECT nonce FROM validator_registrations WHERE validator_index = $1 AND block_number <= $2 AND tx_index <= $3 AND log_index <= $4
	// ORDER BY block_number DESC, tx_index DESC, log_index DESC LIMIT 1
	reg("gnosiskeyper", "GetValidatorRegistrationNonceBefore", p(tInt8, tInt8, tInt8, tInt8), cols("nonce", tInt8), false, func(x *execCtx, a args) (*result, error) {
		if a.null(0) || a.null(1) || a.null(2) || a.null(3) {
			return selected(nil)
		}
		r, ok := latestRegistration(x, func(r *gnodb.ValidatorRegistration) bool {
			return r.ValidatorIndex == a.i64(0) && r.BlockNumber <= a.i64(1) && r.TxIndex <= a.i64(2) && r.LogIndex <= a.i64(3)
		})
		if !ok {
			return selected(nil)
		}
		return selected([][]interface{}{{r.Nonce}})
	})
	// SELECT COUNT(*) FROM validator_registrations
	reg("gnosiskeyper", "GetNumValidatorRegistrations", nil, cols("count", tInt8), false, func(x *execCtx, a args) (*result, error) {
		return selected([][]interface{}{{int64(len(x.db.ValidatorRegistrations))}})
	})
}
