package fakepg

import (
	"regexp"
	"strings"

	obssync "github.com/shutter-network/rolling-shutter/rolling-shutter/chainobserver/db/sync"
	kprdb "github.com/shutter-network/rolling-shutter/rolling-shutter/keyper/database"
)

// Everything that is not a sqlc statement arrives here: transaction control,
// session commands, and DDL scripts (schema files, migrations, the test
// setup's "drop everything" block). DDL is a no-op over the fixed schema, except
// that creating a table empties it (and re-inserts the rows the schema file
// inserts), so that the repository's InitDB works on a fresh or reset database.

// splitSQL splits a script at top-level semicolons and removes comments.
func splitSQL(text string) []string {
	var out []string
	var cur strings.Builder
	flush := func() {
		s := strings.TrimSpace(cur.String())
		if s != "" {
			out = append(out, s)
		}
		cur.Reset()
	}
	i, n := 0, len(text)
	for i < n {
		ch := text[i]
		switch {
		case ch == '-' && i+1 < n && text[i+1] == '-':
			for i < n && text[i] != '\n' {
				i++
			}
			cur.WriteByte(' ')
		case ch == '/' && i+1 < n && text[i+1] == '*':
			j := strings.Index(text[i+2:], "*/")
			if j < 0 {
				i = n
			} else {
				i += j + 4
			}
			cur.WriteByte(' ')
		case ch == '\'' || ch == '"':
			j := i + 1
			for j < n {
				if text[j] == ch {
					if j+1 < n && text[j+1] == ch {
						j += 2
						continue
					}
					break
				}
				j++
			}
			if j >= n {
				j = n - 1
			}
			cur.WriteString(text[i : j+1])
			i = j + 1
		case ch == '$':
			// dollar quote: $tag$ ... $tag$ (tag: letters, digits, underscore, not starting with a digit)
			j := i + 1
			for j < n && (text[j] == '_' || (text[j] >= 'a' && text[j] <= 'z') || (text[j] >= 'A' && text[j] <= 'Z') || (j > i+1 && text[j] >= '0' && text[j] <= '9')) {
				j++
			}
			if j < n && text[j] == '$' {
				tag := text[i : j+1]
				end := strings.Index(text[j+1:], tag)
				if end < 0 {
					cur.WriteString(text[i:])
					i = n
				} else {
					stop := j + 1 + end + len(tag)
					cur.WriteString(text[i:stop])
					i = stop
				}
			} else {
				cur.WriteByte(ch)
				i++
			}
		case ch == ';':
			flush()
			i++
		default:
			cur.WriteByte(ch)
			i++
		}
	}
	flush()
	return out
}

var wsRE = regexp.MustCompile(`\s+`)

func normalizeSQL(stmt string) string {
	return strings.TrimSpace(wsRE.ReplaceAllString(stmt, " "))
}

// keyword returns the classification of one statement (lower case).
func keyword(stmt string) string {
	l := strings.ToLower(normalizeSQL(stmt))
	switch {
	case l == "":
		return "empty"
	case strings.HasPrefix(l, "begin") || strings.HasPrefix(l, "start transaction"):
		return "begin"
	case strings.HasPrefix(l, "commit") || l == "end" || strings.HasPrefix(l, "end "):
		return "commit"
	case strings.HasPrefix(l, "rollback to"):
		return "rollback to savepoint"
	case strings.HasPrefix(l, "rollback") || strings.HasPrefix(l, "abort"):
		return "rollback"
	case strings.HasPrefix(l, "savepoint "):
		return "savepoint"
	case strings.HasPrefix(l, "release "):
		return "release"
	}
	f := strings.Fields(l)
	return f[0]
}

// classify names a non-sqlc text for the log / fault hook.
func classify(text string) string {
	if _, ok := scriptByHash[HashText(text)]; ok {
		return "script"
	}
	st := splitSQL(text)
	switch len(st) {
	case 0:
		return "empty"
	case 1:
		k := keyword(st[0])
		switch k {
		case "create", "alter", "drop", "do", "comment", "grant", "revoke":
			return "script"
		}
		return k
	}
	return "script"
}

func isTxExit(name string) bool { return name == "commit" || name == "rollback" }

// scriptAction is what a pinned script does to the database.
type scriptAction struct {
	tag      string
	truncate []string // DB fields to empty
	all      bool     // empty every table
	seed     string   // schema group whose seed rows are inserted afterwards
}

var keyperTables = []string{"DecryptionTrigger", "DecryptionKeyShare", "DecryptionKey", "LastBatchConfigSent", "LastBlockSeen",
	"TendermintSyncMeta", "Puredkg", "TendermintBatchConfig", "TendermintEncryptionKey", "TendermintOutgoingMessages", "Eons",
	"PolyEvals", "DkgResult", "OutgoingEonKeys"}

var scriptActions = map[string]scriptAction{
	"meta/schemas/meta.sql":                                       {tag: "CREATE TABLE", truncate: []string{"MetaInf"}},
	"keyper/schemas/keyper.sql":                                   {tag: "INSERT 0 1", truncate: keyperTables, seed: "keyper"},
	"keyper/migrations/V2_updatable_encryption_keys.sql":          {tag: "ALTER TABLE"}, // height column + (address,height) key are part of the fixed schema
	"chainobskeyper/schemas/keyper.sql":                           {tag: "CREATE TABLE", truncate: []string{"KeyperSet", "RecentBlock"}},
	"chainobssync/schemas/sync.sql":                               {tag: "INSERT 0 1", truncate: []string{"EventSyncProgress"}, seed: "chainobssync"},
	"chainobscollator/schemas/collator.sql":                       {tag: "CREATE TABLE", truncate: []string{"ChainCollator"}},
	"shutterservice/schemas/shutterservice.sql":                   {tag: "CREATE TABLE", truncate: []string{"IdentityRegisteredEvent", "IdentityRegisteredEventsSyncedUntil", "ServiceCurrentDecryptionTrigger", "DecryptionSignatures"}},
	"shutterservice/migrations/V2_event_based_triggers.sql":       {tag: "CREATE TABLE", truncate: []string{"EventTriggerRegisteredEvent", "MultiEventSyncStatus", "FiredTriggers"}},
	"shutterservice/migrations/V3_event_trigger_identity_key.sql": {tag: "ALTER TABLE"}, // identity column and (eon, identity) keys are part of the fixed schema
	"gnosiskeyper/schemas/gnosiskeyper.sql":                       {tag: "CREATE TABLE", truncate: []string{"TransactionSubmittedEvent", "TransactionSubmittedEventsSyncedUntil", "TransactionSubmittedEventCount", "TxPointer", "GnosisCurrentDecryptionTrigger", "SlotDecryptionSignatures", "ValidatorRegistrations", "ValidatorRegistrationsSyncedUntil"}},
	"gnosiskeyper/migrations/V2_validatorRegistrations.sql":       {tag: "ALTER TABLE"}, // 4-column primary key is part of the fixed schema
	"primev/schemas/primev.sql":                                   {tag: "CREATE TABLE", truncate: []string{"Commitment", "CommittedTransactions", "ProviderRegistryEventsSyncedUntil", "ProviderRegistryEvents"}},
	"snapshot/schemas/snapshot.sql":                               {tag: "CREATE TABLE"}, // CREATE TABLE IF NOT EXISTS: tables exist, nothing happens
	"testsetup/dropEverything":                                    {tag: "DO", all: true},
}

// scriptByHash: pinned hash -> script id (only scripts that have an action).
var scriptByHash = func() map[string]string {
	m := map[string]string{}
	for id, h := range pinnedScripts {
		if _, ok := scriptActions[id]; ok {
			m[h] = id
		}
	}
	return m
}()

func init() {
	for id := range scriptActions {
		if _, ok := pinnedScripts[id]; !ok {
			regProblems = append(regProblems, "script action without pinned hash: "+id)
		}
	}
	for id := range pinnedScripts {
		if _, ok := scriptActions[id]; !ok {
			regProblems = append(regProblems, "pinned script without action: "+id)
		}
	}
}

// withDB runs f on the transaction copy, or on the shared database under the lock.
func (c *conn) withDB(f func(db *DB) *PgError) *PgError {
	if c.tx != nil {
		if c.tx.failed {
			return errFailedTx()
		}
		return f(c.tx.db)
	}
	c.srv.mu.Lock()
	defer c.srv.mu.Unlock()
	return f(c.srv.db)
}

func (c *conn) logScript(stmt, msg string, pe *PgError) {
	e := c.ev(KindExec, stmt, "")
	e.Msg = msg
	if pe != nil {
		e.Err, e.Msg = pe.Code, pe.Message
	}
	c.srv.record(e)
}

// runScript executes a non-sqlc text and returns one command tag per statement.
func (c *conn) runScript(text string) (tags []string, pe *PgError) {
	if id, ok := scriptByHash[HashText(text)]; ok {
		act := scriptActions[id]
		pe := c.withDB(func(db *DB) *PgError {
			if act.all {
				db.Truncate("")
			}
			db.truncateTables(act.truncate...)
			if act.seed != "" {
				db.Seed(act.seed)
			}
			return nil
		})
		c.logScript("script", id, pe)
		if pe != nil {
			return nil, pe
		}
		return []string{act.tag}, nil
	}
	for _, st := range splitSQL(text) {
		tag, pe := c.runSpecial(st)
		if pe != nil {
			return tags, pe
		}
		tags = append(tags, tag)
	}
	return tags, nil
}

var (
	createTableRE = regexp.MustCompile(`(?i)^create table (if not exists )?("?)([a-z_0-9]+)("?)`)
	seedStmts     = map[string]string{
		"insert into last_batch_config_sent (keyper_config_index) values (0)":              "LastBatchConfigSent",
		"insert into last_block_seen (block_number) values (-1)":                           "LastBlockSeen",
		"insert into event_sync_progress (next_block_number, next_log_index) values (0,0)": "EventSyncProgress",
	}
)

func short(s string) string {
	s = normalizeSQL(s)
	if len(s) > 70 {
		s = s[:70] + "..."
	}
	return s
}

// runSpecial executes one statement that is not a sqlc statement.
func (c *conn) runSpecial(stmt string) (tag string, pe *PgError) {
	kw := keyword(stmt)
	norm := normalizeSQL(stmt)
	lower := strings.ToLower(norm)
	if c.tx != nil && c.tx.failed && kw != "commit" && kw != "rollback" && kw != "rollback to savepoint" {
		pe := errFailedTx()
		c.logScript(kw, "", pe)
		return "", pe
	}
	switch kw {
	case "begin":
		c.beginTx()
		return "BEGIN", nil
	case "commit":
		return c.commitTx(), nil
	case "rollback":
		c.rollbackTx()
		return "ROLLBACK", nil
	case "savepoint":
		if c.tx == nil {
			pe := &PgError{Code: "25P01", Message: "SAVEPOINT can only be used in transaction blocks"}
			c.logScript(kw, "", pe)
			return "", pe
		}
		name := strings.Fields(lower)[1]
		c.tx.saves = append(c.tx.saves, savepoint{name: name, db: c.tx.db.Clone()})
		c.logScript(kw, name, nil)
		return "SAVEPOINT", nil
	case "rollback to savepoint", "release":
		f := strings.Fields(lower)
		name := f[len(f)-1]
		idx := -1
		if c.tx != nil {
			for i := len(c.tx.saves) - 1; i >= 0; i-- {
				if c.tx.saves[i].name == name {
					idx = i
					break
				}
			}
		}
		if idx < 0 {
			pe := &PgError{Code: "3B001", Message: "savepoint \"" + name + "\" does not exist"}
			if c.tx == nil {
				pe = &PgError{Code: "25P01", Message: strings.ToUpper(kw) + " can only be used in transaction blocks"}
			}
			c.logScript(kw, "", pe)
			return "", pe
		}
		if kw == "release" {
			c.tx.saves = c.tx.saves[:idx]
			c.logScript(kw, name, nil)
			return "RELEASE", nil
		}
		c.tx.db = c.tx.saves[idx].db.Clone()
		c.tx.saves = c.tx.saves[:idx+1]
		c.tx.failed = false
		c.logScript(kw, name, nil)
		return "ROLLBACK", nil
	case "set", "reset", "listen", "unlisten", "notify", "discard":
		return strings.ToUpper(kw), nil
	case "deallocate":
		f := strings.Fields(norm)
		name := f[len(f)-1]
		if strings.EqualFold(name, "all") {
			c.prepared = map[string]*prepared{}
		} else {
			delete(c.prepared, strings.Trim(name, `"`))
		}
		return "DEALLOCATE", nil
	case "empty":
		return "", nil
	}

	// ---- unpinned DDL: accepted, but reported by PinMismatches ----
	if field, ok := seedStmts[lower]; ok {
		pe := c.withDB(func(db *DB) *PgError {
			switch field {
			case "LastBatchConfigSent":
				if len(db.LastBatchConfigSent) > 0 {
					return errUnique("last_batch_config_sent", "last_batch_config_sent_pkey", "(enforce_one_row)=(t)")
				}
			case "LastBlockSeen":
				if len(db.LastBlockSeen) > 0 {
					return errUnique("last_block_seen", "last_block_seen_pkey", "(enforce_one_row)=(t)")
				}
			case "EventSyncProgress":
				if len(db.EventSyncProgress) > 0 {
					return errUnique("event_sync_progress", "event_sync_progress_id_key", "(id)=(t)")
				}
			}
			switch field {
			case "LastBatchConfigSent":
				db.LastBatchConfigSent = append(db.LastBatchConfigSent, kprdb.LastBatchConfigSent{EnforceOneRow: true, KeyperConfigIndex: 0})
			case "LastBlockSeen":
				db.LastBlockSeen = append(db.LastBlockSeen, kprdb.LastBlockSeen{EnforceOneRow: true, BlockNumber: -1})
			case "EventSyncProgress":
				db.EventSyncProgress = append(db.EventSyncProgress, obssync.EventSyncProgress{ID: true})
			}
			return nil
		})
		c.logScript("insert", short(stmt), pe)
		if pe != nil {
			return "", pe
		}
		return "INSERT 0 1", nil
	}
	switch kw {
	case "create":
		c.srv.notePin("unpinned script: " + short(stmt))
		if m := createTableRE.FindStringSubmatch(norm); m != nil {
			if m[1] == "" {
				name := strings.ToLower(m[3])
				var fields []string
				for _, tm := range tables {
					if tm.SQL == name {
						fields = append(fields, tm.Field)
					}
				}
				pe := c.withDB(func(db *DB) *PgError { db.truncateTables(fields...); return nil })
				c.logScript("script", short(stmt), pe)
				if pe != nil {
					return "", pe
				}
			}
			return "CREATE TABLE", nil
		}
		f := strings.Fields(strings.ToUpper(norm))
		if len(f) > 1 {
			return "CREATE " + f[1], nil
		}
		return "CREATE", nil
	case "alter", "drop", "comment", "grant", "revoke":
		c.srv.notePin("unpinned script: " + short(stmt))
		c.logScript("script", short(stmt), nil)
		f := strings.Fields(strings.ToUpper(norm))
		if len(f) > 1 {
			return f[0] + " " + f[1], nil
		}
		return f[0], nil
	case "do":
		c.srv.notePin("unpinned script: " + short(stmt))
		if strings.Contains(lower, "drop table") {
			pe := c.withDB(func(db *DB) *PgError { db.Truncate(""); return nil })
			c.logScript("script", short(stmt), pe)
			if pe != nil {
				return "", pe
			}
		}
		return "DO", nil
	}
	c.srv.notePin("unhandled: " + short(stmt))
	pe = &PgError{Code: "0A000", Message: "fakepg: no handler for statement: " + short(stmt)}
	c.logScript(kw, "", pe)
	return "", pe
}
