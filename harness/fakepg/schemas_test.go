package fakepg

import (
	"database/sql"
	"testing"

	obscol "github.com/shutter-network/rolling-shutter/rolling-shutter/chainobserver/db/collator"
	obskpr "github.com/shutter-network/rolling-shutter/rolling-shutter/chainobserver/db/keyper"
	obssync "github.com/shutter-network/rolling-shutter/rolling-shutter/chainobserver/db/sync"
	gnodb "github.com/shutter-network/rolling-shutter/rolling-shutter/keyperimpl/gnosis/database"
	prvdb "github.com/shutter-network/rolling-shutter/rolling-shutter/keyperimpl/primev/database"
	svcdb "github.com/shutter-network/rolling-shutter/rolling-shutter/keyperimpl/shutterservice/database"
	snpdb "github.com/shutter-network/rolling-shutter/rolling-shutter/snapshot/database"
)

func TestChainObserverQueries(t *testing.T) {
	ctx, _, pool := setup(t)
	k := obskpr.New(pool)
	_, err := k.GetKeyperSet(ctx, 100)
	noRows(t, err)
	ins := func(idx, act int64, th int32, keypers ...string) error {
		return k.InsertKeyperSet(ctx, obskpr.InsertKeyperSetParams{KeyperConfigIndex: idx, ActivationBlockNumber: act, Keypers: keypers, Threshold: th})
	}
	ok(t, ins(2, 200, 2, "c", "d"))
	ok(t, ins(1, 100, 1, "a", "b"))
	ok(t, ins(1, 999, 9, "zz")) // ON CONFLICT DO NOTHING
	ks, err := k.GetKeyperSetByKeyperConfigIndex(ctx, 1)
	ok(t, err)
	eq(t, ks, obskpr.KeyperSet{KeyperConfigIndex: 1, ActivationBlockNumber: 100, Keypers: []string{"a", "b"}, Threshold: 1})
	_, err = k.GetKeyperSetByKeyperConfigIndex(ctx, 3)
	noRows(t, err)
	ks, err = k.GetKeyperSet(ctx, 150)
	ok(t, err)
	eq(t, ks.KeyperConfigIndex, int64(1))
	ks, _ = k.GetKeyperSet(ctx, 200)
	eq(t, ks.KeyperConfigIndex, int64(2))
	_, err = k.GetKeyperSet(ctx, 99)
	noRows(t, err)
	all, err := k.GetKeyperSets(ctx)
	ok(t, err)
	eq(t, []int64{all[0].KeyperConfigIndex, all[1].KeyperConfigIndex}, []int64{1, 2})

	sy := obssync.New(pool)
	pr, err := sy.GetEventSyncProgress(ctx) // seed row of the schema
	ok(t, err)
	eq(t, pr, obssync.GetEventSyncProgressRow{NextBlockNumber: 0, NextLogIndex: 0})
	ok(t, sy.UpdateEventSyncProgress(ctx, obssync.UpdateEventSyncProgressParams{NextBlockNumber: 7, NextLogIndex: 3}))
	pr, _ = sy.GetEventSyncProgress(ctx)
	eq(t, pr, obssync.GetEventSyncProgressRow{NextBlockNumber: 7, NextLogIndex: 3})
	nb, err := sy.GetNextBlockNumber(ctx)
	ok(t, err)
	eq(t, nb, int32(7))

	c := obscol.New(pool)
	_, err = c.GetChainCollator(ctx, 5)
	noRows(t, err)
	ok(t, c.InsertChainCollator(ctx, obscol.InsertChainCollatorParams{ActivationBlockNumber: 10, Collator: "x"}))
	ok(t, c.InsertChainCollator(ctx, obscol.InsertChainCollatorParams{ActivationBlockNumber: 20, Collator: "y"}))
	wantCode(t, c.InsertChainCollator(ctx, obscol.InsertChainCollatorParams{ActivationBlockNumber: 20, Collator: "z"}), "23505")
	cc, err := c.GetChainCollator(ctx, 15)
	ok(t, err)
	eq(t, cc, obscol.ChainCollator{ActivationBlockNumber: 10, Collator: "x"})
	cc, _ = c.GetChainCollator(ctx, 20)
	eq(t, cc.Collator, "y")
	_, err = c.GetChainCollator(ctx, 9)
	noRows(t, err)
}

func b(x ...byte) []byte { return x }

func TestShutterServiceQueries(t *testing.T) {
	ctx, s, pool := setup(t)
	q := svcdb.New(pool)

	// --- time based identities
	ire := func(block int64, eon int64, prefix byte, sender string, ts int64, id byte) svcdb.InsertIdentityRegisteredEventParams {
		return svcdb.InsertIdentityRegisteredEventParams{BlockNumber: block, BlockHash: b(byte(block)), TxIndex: 1, LogIndex: 2, Eon: eon,
			IdentityPrefix: b(prefix), Sender: sender, Timestamp: ts, Identity: b(id)}
	}
	tag, err := q.InsertIdentityRegisteredEvent(ctx, ire(10, 1, 0xa, "s1", 300, 1))
	ok(t, err)
	eq(t, tag.RowsAffected(), int64(1))
	_, err = q.InsertIdentityRegisteredEvent(ctx, ire(11, 1, 0xb, "s1", 100, 2))
	ok(t, err)
	_, err = q.InsertIdentityRegisteredEvent(ctx, ire(12, 2, 0xc, "s2", 200, 3))
	ok(t, err)
	// conflict on (identity_prefix, sender): updates everything except eon and decrypted
	tag, err = q.InsertIdentityRegisteredEvent(ctx, ire(13, 7, 0xc, "s2", 250, 4))
	ok(t, err)
	eq(t, tag.RowsAffected(), int64(1))
	bad := ire(-1, 1, 0xd, "s3", 1, 1)
	_, err = q.InsertIdentityRegisteredEvent(ctx, bad)
	wantCode(t, err, "23514") // CHECK (block_number >= 0)
	bad = ire(1, 1, 0xd, "s3", 1, 1)
	bad.BlockHash = nil
	_, err = q.InsertIdentityRegisteredEvent(ctx, bad)
	wantCode(t, err, "23502")
	evs, err := q.GetNotDecryptedIdentityRegisteredEvents(ctx, svcdb.GetNotDecryptedIdentityRegisteredEventsParams{Timestamp: 100, Timestamp_2: 300})
	ok(t, err)
	eq(t, len(evs), 3)
	eq(t, []int64{evs[0].Timestamp, evs[1].Timestamp, evs[2].Timestamp}, []int64{100, 250, 300})
	eq(t, evs[1], svcdb.IdentityRegisteredEvent{BlockNumber: 13, BlockHash: b(13), TxIndex: 1, LogIndex: 2, Eon: 2, IdentityPrefix: b(0xc), Sender: "s2", Timestamp: 250, Decrypted: false, Identity: b(4)})
	// (eon, identity) pairs are zipped: (1,[1]) matches, (2,[9]) does not, third eon has no partner
	ok(t, q.UpdateTimeBasedDecryptedFlags(ctx, svcdb.UpdateTimeBasedDecryptedFlagsParams{Eons: []int64{1, 2, 2}, Identities: [][]byte{b(1), b(9)}}))
	evs, _ = q.GetNotDecryptedIdentityRegisteredEvents(ctx, svcdb.GetNotDecryptedIdentityRegisteredEventsParams{Timestamp: 0, Timestamp_2: 1000})
	eq(t, []int64{evs[0].Timestamp, evs[1].Timestamp}, []int64{100, 250})
	evs, _ = q.GetNotDecryptedIdentityRegisteredEvents(ctx, svcdb.GetNotDecryptedIdentityRegisteredEventsParams{Timestamp: 101, Timestamp_2: 249})
	eq(t, len(evs), 0)
	ok(t, q.DeleteIdentityRegisteredEventsFromBlockNumber(ctx, 11))
	eq(t, len(s.Snapshot().IdentityRegisteredEvent), 1)

	_, err = q.GetIdentityRegisteredEventsSyncedUntil(ctx)
	noRows(t, err)
	ok(t, q.SetIdentityRegisteredEventSyncedUntil(ctx, svcdb.SetIdentityRegisteredEventSyncedUntilParams{BlockHash: b(1), BlockNumber: 5}))
	ok(t, q.SetIdentityRegisteredEventSyncedUntil(ctx, svcdb.SetIdentityRegisteredEventSyncedUntilParams{BlockHash: b(2), BlockNumber: 6}))
	su, err := q.GetIdentityRegisteredEventsSyncedUntil(ctx)
	ok(t, err)
	eq(t, su, svcdb.IdentityRegisteredEventsSyncedUntil{EnforceOneRow: true, BlockHash: b(2), BlockNumber: 6})
	wantCode(t, q.SetIdentityRegisteredEventSyncedUntil(ctx, svcdb.SetIdentityRegisteredEventSyncedUntilParams{BlockHash: b(2), BlockNumber: -6}), "23514")

	_, err = q.GetMultiEventSyncStatus(ctx)
	noRows(t, err)
	ok(t, q.SetMultiEventSyncStatus(ctx, svcdb.SetMultiEventSyncStatusParams{BlockNumber: 1, BlockHash: b(1)}))
	ok(t, q.SetMultiEventSyncStatus(ctx, svcdb.SetMultiEventSyncStatusParams{BlockNumber: 2, BlockHash: b(2)}))
	ms, err := q.GetMultiEventSyncStatus(ctx)
	ok(t, err)
	eq(t, ms, svcdb.MultiEventSyncStatus{EnforceOneRow: true, BlockNumber: 2, BlockHash: b(2)})

	// --- decryption trigger + signatures
	_, err = q.GetCurrentDecryptionTrigger(ctx, 1)
	noRows(t, err)
	sct := func(eon, blk int64, h byte) error {
		return q.SetCurrentDecryptionTrigger(ctx, svcdb.SetCurrentDecryptionTriggerParams{Eon: eon, TriggeredBlockNumber: blk, IdentitiesHash: b(h)})
	}
	ok(t, sct(1, 10, 1))
	ok(t, sct(1, 30, 3))
	ok(t, sct(1, 20, 2))
	ok(t, sct(1, 30, 4)) // conflict -> update hash
	ok(t, sct(2, 99, 9))
	wantCode(t, sct(-1, 1, 1), "23514")
	ct, err := q.GetCurrentDecryptionTrigger(ctx, 1)
	ok(t, err)
	eq(t, ct, svcdb.CurrentDecryptionTrigger{Eon: 1, TriggeredBlockNumber: 30, IdentitiesHash: b(4)})
	for _, ki := range []int64{2, 0, 1, 1} {
		ok(t, q.InsertDecryptionSignature(ctx, svcdb.InsertDecryptionSignatureParams{Eon: 1, KeyperIndex: ki, IdentitiesHash: b(4), Signature: b(byte(ki))}))
	}
	ok(t, q.InsertDecryptionSignature(ctx, svcdb.InsertDecryptionSignatureParams{Eon: 1, KeyperIndex: 0, IdentitiesHash: b(5), Signature: b(50)}))
	sigs, err := q.GetDecryptionSignatures(ctx, svcdb.GetDecryptionSignaturesParams{Eon: 1, IdentitiesHash: b(4), Limit: 2})
	ok(t, err)
	eq(t, len(sigs), 2)
	eq(t, []int64{sigs[0].KeyperIndex, sigs[1].KeyperIndex}, []int64{0, 1})
	sigs, _ = q.GetDecryptionSignatures(ctx, svcdb.GetDecryptionSignaturesParams{Eon: 1, IdentitiesHash: b(4), Limit: 10})
	eq(t, len(sigs), 3)
	_, err = q.GetDecryptionSignatures(ctx, svcdb.GetDecryptionSignaturesParams{Eon: 1, IdentitiesHash: b(4), Limit: -1})
	wantCode(t, err, "2201W")

	// --- event based triggers
	ete := func(block, eon int64, prefix byte, sender string, exp int64, id byte, def byte) svcdb.InsertEventTriggerRegisteredEventParams {
		return svcdb.InsertEventTriggerRegisteredEventParams{BlockNumber: block, BlockHash: b(byte(block)), TxIndex: 0, LogIndex: 0, Eon: eon,
			IdentityPrefix: b(prefix), Sender: sender, Definition: b(def), ExpirationBlockNumber: exp, Identity: b(id)}
	}
	for _, e := range []svcdb.InsertEventTriggerRegisteredEventParams{
		ete(10, 1, 0xa, "s", 100, 1, 1), ete(11, 1, 0xb, "s", 50, 2, 1), ete(12, 1, 0xc, "s", 100, 3, 1), ete(13, 2, 0xa, "s", 100, 1, 1),
	} {
		_, err := q.InsertEventTriggerRegisteredEvent(ctx, e)
		ok(t, err)
	}
	// conflict on (eon, identity): definition etc. updated, prefix/sender kept
	_, err = q.InsertEventTriggerRegisteredEvent(ctx, ete(14, 1, 0xff, "other", 101, 3, 7))
	ok(t, err)
	act, err := q.GetActiveEventTriggerRegisteredEvents(ctx, 60) // id 2 expired at 50
	ok(t, err)
	eq(t, len(act), 3)
	eq(t, act[1], svcdb.EventTriggerRegisteredEvent{BlockNumber: 14, BlockHash: b(14), Eon: 1, IdentityPrefix: b(0xc), Sender: "s", Definition: b(7), ExpirationBlockNumber: 101, Identity: b(3)})
	ft := func(eon int64, id byte, block int64) error {
		return q.InsertFiredTrigger(ctx, svcdb.InsertFiredTriggerParams{Eon: eon, Identity: b(id), IdentityPrefix: b(0xa), Sender: "s", BlockNumber: block, BlockHash: b(byte(block)), TxIndex: 1, LogIndex: 1})
	}
	ok(t, ft(1, 1, 20))
	ok(t, ft(1, 1, 21)) // ON CONFLICT (eon, identity) DO NOTHING
	ok(t, ft(1, 3, 22))
	ok(t, ft(2, 1, 23))
	wantCode(t, ft(1, 99, 20), "23503") // no such event: foreign key
	act, _ = q.GetActiveEventTriggerRegisteredEvents(ctx, 0)
	eq(t, len(act), 1) // only identity 2 has not fired
	eq(t, act[0].Identity, b(2))
	und, err := q.GetUndecryptedFiredTriggers(ctx)
	ok(t, err)
	eq(t, len(und), 3)
	eq(t, und[0], svcdb.GetUndecryptedFiredTriggersRow{IdentityPrefix: b(0xa), Sender: "s", BlockNumber: 20, BlockHash: b(20), TxIndex: 1, LogIndex: 1, Eon: 1, ExpirationBlockNumber: 100, Identity: b(1), Decrypted: false})
	ok(t, q.UpdateEventBasedDecryptedFlags(ctx, svcdb.UpdateEventBasedDecryptedFlagsParams{Eons: []int64{1}, Identities: [][]byte{b(1)}}))
	und, _ = q.GetUndecryptedFiredTriggers(ctx)
	eq(t, len(und), 2)
	ok(t, q.DeleteFiredTriggersFromBlockNumber(ctx, 23)) // the eon 2 one
	und, _ = q.GetUndecryptedFiredTriggers(ctx)
	eq(t, len(und), 1)
	eq(t, und[0].Identity, b(3))
	// deleting events cascades to fired_triggers
	ok(t, q.DeleteEventTriggerRegisteredEventsFromBlockNumber(ctx, 14)) // identity 3 (updated to block 14)
	snap := s.Snapshot()
	eq(t, len(snap.EventTriggerRegisteredEvent), 3)
	eq(t, len(snap.FiredTriggers), 1) // only (1,[1]) left
	und, _ = q.GetUndecryptedFiredTriggers(ctx)
	eq(t, len(und), 0)
}

func TestGnosisQueries(t *testing.T) {
	ctx, s, pool := setup(t)
	q := gnodb.New(pool)

	tse := func(index, block, eon int64, gas int64) gnodb.InsertTransactionSubmittedEventParams {
		return gnodb.InsertTransactionSubmittedEventParams{Index: index, BlockNumber: block, BlockHash: b(byte(block)), TxIndex: 1, LogIndex: 1, Eon: eon, IdentityPrefix: b(byte(index)), Sender: "s", GasLimit: gas}
	}
	n, err := q.GetTransactionSubmittedEventCount(ctx, 1)
	ok(t, err)
	eq(t, n, int64(0))
	for _, e := range []gnodb.InsertTransactionSubmittedEventParams{tse(2, 12, 1, 5), tse(0, 10, 1, 5), tse(1, 11, 1, 5), tse(3, 13, 1, 5), tse(0, 10, 2, 5)} {
		tag, err := q.InsertTransactionSubmittedEvent(ctx, e)
		ok(t, err)
		eq(t, tag.RowsAffected(), int64(1))
	}
	_, err = q.InsertTransactionSubmittedEvent(ctx, tse(1, 11, 1, 77)) // upsert
	ok(t, err)
	_, err = q.InsertTransactionSubmittedEvent(ctx, tse(-1, 11, 1, 77))
	wantCode(t, err, "23514")
	n, _ = q.GetTransactionSubmittedEventCount(ctx, 1)
	eq(t, n, int64(4))
	n, _ = q.GetTransactionSubmittedEventCount(ctx, 2)
	eq(t, n, int64(1))
	evs, err := q.GetTransactionSubmittedEvents(ctx, gnodb.GetTransactionSubmittedEventsParams{Eon: 1, Index: 1, Limit: 2})
	ok(t, err)
	eq(t, len(evs), 2)
	eq(t, []int64{evs[0].Index, evs[1].Index}, []int64{1, 2})
	eq(t, evs[0].GasLimit, int64(77))
	evs, _ = q.GetTransactionSubmittedEvents(ctx, gnodb.GetTransactionSubmittedEventsParams{Eon: 1, Index: 0, Limit: 100})
	eq(t, len(evs), 4)
	ok(t, q.DeleteTransactionSubmittedEventsFromBlockNumber(ctx, 12))
	n, _ = q.GetTransactionSubmittedEventCount(ctx, 1)
	eq(t, n, int64(2))

	_, err = q.GetTransactionSubmittedEventsSyncedUntil(ctx)
	noRows(t, err)
	ok(t, q.SetTransactionSubmittedEventsSyncedUntil(ctx, gnodb.SetTransactionSubmittedEventsSyncedUntilParams{BlockHash: b(1), BlockNumber: 1, Slot: 1}))
	ok(t, q.SetTransactionSubmittedEventsSyncedUntil(ctx, gnodb.SetTransactionSubmittedEventsSyncedUntilParams{BlockHash: b(2), BlockNumber: 2, Slot: 3}))
	su, err := q.GetTransactionSubmittedEventsSyncedUntil(ctx)
	ok(t, err)
	eq(t, su, gnodb.TransactionSubmittedEventsSyncedUntil{EnforceOneRow: true, BlockHash: b(2), BlockNumber: 2, Slot: 3})

	// tx pointer
	_, err = q.GetTxPointer(ctx, 1)
	noRows(t, err)
	ok(t, q.InitTxPointer(ctx, gnodb.InitTxPointerParams{Eon: 1, Age: sql.NullInt64{Int64: 0, Valid: true}, Value: 5}))
	ok(t, q.InitTxPointer(ctx, gnodb.InitTxPointerParams{Eon: 1, Age: sql.NullInt64{Int64: 9, Valid: true}, Value: 9})) // DO NOTHING
	ok(t, q.InitTxPointer(ctx, gnodb.InitTxPointerParams{Eon: 2, Age: sql.NullInt64{}, Value: 0}))
	tp, err := q.GetTxPointer(ctx, 1)
	ok(t, err)
	eq(t, tp, gnodb.TxPointer{Eon: 1, Age: sql.NullInt64{Int64: 0, Valid: true}, Value: 5})
	age, err := q.IncrementTxPointerAge(ctx, 1)
	ok(t, err)
	eq(t, age, sql.NullInt64{Int64: 1, Valid: true})
	age, err = q.IncrementTxPointerAge(ctx, 2) // NULL + 1 = NULL
	ok(t, err)
	eq(t, age, sql.NullInt64{})
	_, err = q.IncrementTxPointerAge(ctx, 3)
	noRows(t, err)
	ok(t, q.SetTxPointer(ctx, gnodb.SetTxPointerParams{Eon: 2, Age: sql.NullInt64{Int64: 4, Valid: true}, Value: 44}))
	ok(t, q.SetTxPointer(ctx, gnodb.SetTxPointerParams{Eon: 3, Age: sql.NullInt64{Int64: 1, Valid: true}, Value: 33}))
	tp, _ = q.GetTxPointer(ctx, 2)
	eq(t, tp, gnodb.TxPointer{Eon: 2, Age: sql.NullInt64{Int64: 4, Valid: true}, Value: 44})
	ok(t, q.ResetAllTxPointerAges(ctx)) // no arguments: pgx sends it with the simple protocol
	tp, _ = q.GetTxPointer(ctx, 3)
	eq(t, tp, gnodb.TxPointer{Eon: 3, Age: sql.NullInt64{}, Value: 33})

	// decryption trigger + slot signatures
	_, err = q.GetCurrentDecryptionTrigger(ctx, 1)
	noRows(t, err)
	ok(t, q.SetCurrentDecryptionTrigger(ctx, gnodb.SetCurrentDecryptionTriggerParams{Eon: 1, Slot: 5, TxPointer: 1, IdentitiesHash: b(1)}))
	ok(t, q.SetCurrentDecryptionTrigger(ctx, gnodb.SetCurrentDecryptionTriggerParams{Eon: 1, Slot: 6, TxPointer: 2, IdentitiesHash: b(2)}))
	wantCode(t, q.SetCurrentDecryptionTrigger(ctx, gnodb.SetCurrentDecryptionTriggerParams{Eon: 1, Slot: -6, TxPointer: 2, IdentitiesHash: b(2)}), "23514")
	ct, err := q.GetCurrentDecryptionTrigger(ctx, 1)
	ok(t, err)
	eq(t, ct, gnodb.CurrentDecryptionTrigger{Eon: 1, Slot: 6, TxPointer: 2, IdentitiesHash: b(2)})
	for _, ki := range []int64{3, 1, 2, 1} {
		ok(t, q.InsertSlotDecryptionSignature(ctx, gnodb.InsertSlotDecryptionSignatureParams{Eon: 1, Slot: 6, KeyperIndex: ki, TxPointer: 2, IdentitiesHash: b(2), Signature: b(byte(ki))}))
	}
	ok(t, q.InsertSlotDecryptionSignature(ctx, gnodb.InsertSlotDecryptionSignatureParams{Eon: 1, Slot: 6, KeyperIndex: 0, TxPointer: 2, IdentitiesHash: b(9), Signature: b(0)})) // other hash
	sigs, err := q.GetSlotDecryptionSignatures(ctx, gnodb.GetSlotDecryptionSignaturesParams{Eon: 1, Slot: 6, TxPointer: 2, IdentitiesHash: b(2), Limit: 2})
	ok(t, err)
	eq(t, len(sigs), 2)
	eq(t, []int64{sigs[0].KeyperIndex, sigs[1].KeyperIndex}, []int64{1, 2})

	// validator registrations
	cnt, err := q.GetNumValidatorRegistrations(ctx)
	ok(t, err)
	eq(t, cnt, int64(0))
	vr := func(block, tx, log, val, nonce int64, reg bool) error {
		return q.InsertValidatorRegistration(ctx, gnodb.InsertValidatorRegistrationParams{BlockNumber: block, BlockHash: b(byte(block)), TxIndex: tx, LogIndex: log, ValidatorIndex: val, Nonce: nonce, IsRegistration: reg})
	}
	ok(t, vr(10, 0, 0, 7, 0, true))
	ok(t, vr(10, 0, 0, 8, 0, true)) // same log, other validator (V2 primary key)
	ok(t, vr(12, 5, 1, 7, 1, false))
	ok(t, vr(12, 2, 3, 7, 2, true))
	wantCode(t, vr(10, 0, 0, 7, 9, true), "23505")
	cnt, _ = q.GetNumValidatorRegistrations(ctx)
	eq(t, cnt, int64(4))
	isReg, err := q.IsValidatorRegistered(ctx, gnodb.IsValidatorRegisteredParams{ValidatorIndex: 7, BlockNumber: 13})
	ok(t, err)
	eq(t, isReg, false) // latest by (block, tx, log) is (12,5,1)
	isReg, _ = q.IsValidatorRegistered(ctx, gnodb.IsValidatorRegisteredParams{ValidatorIndex: 7, BlockNumber: 12})
	eq(t, isReg, true) // strictly before block 12
	_, err = q.IsValidatorRegistered(ctx, gnodb.IsValidatorRegisteredParams{ValidatorIndex: 9, BlockNumber: 100})
	noRows(t, err)
	// "before" is a conjunction of three <=, not a lexicographic comparison: (12,5,1) is not <= (12,4,9)
	nonce, err := q.GetValidatorRegistrationNonceBefore(ctx, gnodb.GetValidatorRegistrationNonceBeforeParams{ValidatorIndex: 7, BlockNumber: 12, TxIndex: 4, LogIndex: 9})
	ok(t, err)
	eq(t, nonce, int64(2)) // (12,2,3)
	nonce, _ = q.GetValidatorRegistrationNonceBefore(ctx, gnodb.GetValidatorRegistrationNonceBeforeParams{ValidatorIndex: 7, BlockNumber: 12, TxIndex: 9, LogIndex: 0})
	eq(t, nonce, int64(0)) // both block-12 rows have log_index > 0: falls back to block 10
	_, err = q.GetValidatorRegistrationNonceBefore(ctx, gnodb.GetValidatorRegistrationNonceBeforeParams{ValidatorIndex: 7, BlockNumber: 9, TxIndex: 9, LogIndex: 9})
	noRows(t, err)

	_, err = q.GetValidatorRegistrationsSyncedUntil(ctx)
	noRows(t, err)
	ok(t, q.SetValidatorRegistrationsSyncedUntil(ctx, gnodb.SetValidatorRegistrationsSyncedUntilParams{BlockHash: b(1), BlockNumber: 1}))
	ok(t, q.SetValidatorRegistrationsSyncedUntil(ctx, gnodb.SetValidatorRegistrationsSyncedUntilParams{BlockHash: b(2), BlockNumber: 2}))
	vs, err := q.GetValidatorRegistrationsSyncedUntil(ctx)
	ok(t, err)
	eq(t, vs, gnodb.ValidatorRegistrationsSyncedUntil{EnforceOneRow: true, BlockHash: b(2), BlockNumber: 2})
	eq(t, len(s.Snapshot().TxPointer), 3)
}

func TestPrimevQueries(t *testing.T) {
	ctx, s, pool := setup(t)
	q := prvdb.New(pool)

	_, err := q.GetProviderRegistryEventsSyncedUntil(ctx)
	noRows(t, err)
	ok(t, q.SetProviderRegistryEventsSyncedUntil(ctx, prvdb.SetProviderRegistryEventsSyncedUntilParams{BlockHash: b(1), BlockNumber: 1}))
	ok(t, q.SetProviderRegistryEventsSyncedUntil(ctx, prvdb.SetProviderRegistryEventsSyncedUntilParams{BlockHash: b(2), BlockNumber: 2}))
	su, err := q.GetProviderRegistryEventsSyncedUntil(ctx)
	ok(t, err)
	eq(t, su, prvdb.ProviderRegistryEventsSyncedUntil{EnforceOneRow: true, BlockHash: b(2), BlockNumber: 2})

	pre := func(block int64, provider string, keys ...[]byte) error {
		_, err := q.InsertProviderRegistryEvent(ctx, prvdb.InsertProviderRegistryEventParams{BlockNumber: block, BlockHash: b(byte(block)), TxIndex: 1, LogIndex: 1, ProviderAddress: provider, BlsKeys: keys})
		return err
	}
	ok(t, pre(5, "p1", b(1), b(2)))
	ok(t, pre(6, "p2", b(3)))
	ok(t, pre(5, "other", b(9))) // conflict: bls_keys replaced, provider kept
	eq(t, s.Snapshot().ProviderRegistryEvents, []prvdb.ProviderRegistryEvent{
		{BlockNumber: 5, BlockHash: b(5), TxIndex: 1, LogIndex: 1, ProviderAddress: "p1", BlsKeys: [][]byte{b(9)}},
		{BlockNumber: 6, BlockHash: b(6), TxIndex: 1, LogIndex: 1, ProviderAddress: "p2", BlsKeys: [][]byte{b(3)}},
	})
	ok(t, q.DeleteProviderRegistryEventsFromBlockNumber(ctx, 6))
	eq(t, len(s.Snapshot().ProviderRegistryEvents), 1)

	up := func(hashes []string, eons []int64, digest, provider, bidDigest string) error {
		pre, pfx, blk := []string{}, []string{}, []int64{}
		for _, h := range hashes {
			pre, pfx, blk = append(pre, "pre-"+h), append(pfx, "pfx-"+h), append(blk, 100)
		}
		return q.InsertMultipleTransactionsAndUpsertCommitment(ctx, prvdb.InsertMultipleTransactionsAndUpsertCommitmentParams{
			Eons: eons, IdentityPreimages: pre, IdentityPrefixes: pfx, BlockNumbers: blk, TxHashes: hashes,
			CommitmentDigest: digest, ProviderAddress: provider, CommitmentSignature: "sig", BlockNumber: 100,
			ReceivedBidDigest: bidDigest, ReceivedBidSignature: "bs-" + bidDigest, BidderNodeAddress: "node"})
	}
	ok(t, up([]string{"h1", "h2"}, []int64{1, 1}, "d1", "p1", "bid1"))
	// h2 exists already: only h3 is new; the commitment row is updated (hashes appended, bid fields replaced)
	ok(t, up([]string{"h2", "h3", "h3"}, []int64{1, 1, 1}, "d1", "p1", "bid2"))
	snap := s.Snapshot()
	eq(t, snap.Commitment, []prvdb.Commitment{{TxHashes: []string{"h1", "h2", "h3"}, ProviderAddress: "p1", CommitmentSignature: "sig", CommitmentDigest: "d1",
		BlockNumber: 100, ReceivedBidDigest: "bid2", ReceivedBidSignature: "bs-bid2", BidderNodeAddress: "node"}})
	eq(t, len(snap.CommittedTransactions), 3)
	eq(t, snap.CommittedTransactions[2], prvdb.CommittedTransaction{Eon: 1, IdentityPrefix: "pfx-h3", IdentityPreimage: "pre-h3", BlockNumber: 100, TxHash: "h3", CommitmentDigest: "d1", ProviderAddress: "p1"})
	// nothing new: ARRAY_AGG over zero rows is NULL -> NOT NULL violation on commitment.tx_hashes, nothing changes
	wantCode(t, up([]string{"h1"}, []int64{1}, "d1", "p1", "bid3"), "23502")
	eq(t, s.Snapshot().Diff(snap), []string(nil))
	// arrays of different length: the shorter ones are padded with NULL
	wantCode(t, up([]string{"h7", "h8"}, []int64{1}, "d2", "p1", "bid"), "23502")
	wantCode(t, up([]string{"h9"}, []int64{-1}, "d2", "p1", "bid"), "23514")
	eq(t, s.Snapshot().Diff(snap), []string(nil))

	// GetCommitmentByTxHash: the generated signature takes []string for a text parameter; pgx refuses to encode it
	_, err = q.GetCommitmentByTxHash(ctx, []string{"h2"})
	if err == nil {
		t.Fatal("expected a client side encoding error for []string -> text")
	}
	// with the text the repository sends and a proper text argument the handler works
	rs, err := ScanRepo(repoRoot())
	ok(t, err)
	rows, err := pool.Query(ctx, rs.Statements["primev/GetCommitmentByTxHash"], "h2")
	ok(t, err)
	var got []prvdb.Commitment
	for rows.Next() {
		var c prvdb.Commitment
		ok(t, rows.Scan(&c.TxHashes, &c.ProviderAddress, &c.CommitmentSignature, &c.CommitmentDigest, &c.BlockNumber, &c.ReceivedBidDigest, &c.ReceivedBidSignature, &c.BidderNodeAddress))
		got = append(got, c)
	}
	ok(t, rows.Err())
	eq(t, got, snap.Commitment)
	err = pool.QueryRow(ctx, rs.Statements["primev/GetCommitmentByTxHash"], "nope").Scan(new([]string), new(string), new(string), new(string), new(int64), new(string), new(string), new(string))
	noRows(t, err)
}

func TestSnapshotQueries(t *testing.T) {
	ctx, _, pool := setup(t)
	q := snpdb.New(pool)
	n, err := q.GetDecryptionKeyCount(ctx)
	ok(t, err)
	eq(t, n, int64(0))
	r, err := q.InsertDecryptionKey(ctx, snpdb.InsertDecryptionKeyParams{EpochID: b(1), Key: b(11)})
	ok(t, err)
	eq(t, r, int64(1))
	r, _ = q.InsertDecryptionKey(ctx, snpdb.InsertDecryptionKeyParams{EpochID: b(1), Key: b(12)})
	eq(t, r, int64(0))
	r, _ = q.InsertDecryptionKey(ctx, snpdb.InsertDecryptionKeyParams{EpochID: b(2), Key: nil})
	eq(t, r, int64(1))
	k, err := q.GetDecryptionKey(ctx, b(1))
	ok(t, err)
	eq(t, k, snpdb.DecryptionKey{EpochID: b(1), Key: b(11)})
	_, err = q.GetDecryptionKey(ctx, b(3))
	noRows(t, err)
	n, _ = q.GetDecryptionKeyCount(ctx)
	eq(t, n, int64(2))

	_, err = q.GetEonPublicKeyLatest(ctx)
	noRows(t, err)
	r, err = q.InsertEonPublicKey(ctx, snpdb.InsertEonPublicKeyParams{EonID: 5, EonPublicKey: b(5)})
	ok(t, err)
	eq(t, r, int64(1))
	r, _ = q.InsertEonPublicKey(ctx, snpdb.InsertEonPublicKeyParams{EonID: 5, EonPublicKey: b(6)})
	eq(t, r, int64(0))
	r, _ = q.InsertEonPublicKey(ctx, snpdb.InsertEonPublicKeyParams{EonID: 3, EonPublicKey: b(3)})
	eq(t, r, int64(1))
	pk, err := q.GetEonPublicKey(ctx, 3)
	ok(t, err)
	eq(t, pk, b(3))
	_, err = q.GetEonPublicKey(ctx, 4)
	noRows(t, err)
	latest, err := q.GetEonPublicKeyLatest(ctx)
	ok(t, err)
	eq(t, latest, snpdb.EonPublicKey{EonID: 5, EonPublicKey: b(5)})
	n, err = q.GetEonCount(ctx)
	ok(t, err)
	eq(t, n, int64(2))
}
