package fakepg

import (
	"bytes"
	"math"

	kprdb "github.com/shutter-network/rolling-shutter/rolling-shutter/keyper/database"
	metadb "github.com/shutter-network/rolling-shutter/rolling-shutter/medley/db"
)

// Handlers for medley/db/sql/queries/meta.sql and keyper/database/sql/queries/keyper.sql.
// Each handler quotes the SQL it implements.

var (
	colsBatchConfig = cols("keyper_config_index", tInt4, "height", tInt8, "keypers", tTextArr, "threshold", tInt4, "started", tBool, "activation_block_number", tInt8)
	colsEon         = cols("eon", tInt8, "height", tInt8, "activation_block_number", tInt8, "keyper_config_index", tInt8)
	colsDkgResult   = cols("eon", tInt8, "success", tBool, "error", tText, "pure_result", tBytea)
	colsKeyShare    = cols("eon", tInt8, "epoch_id", tBytea, "keyper_index", tInt8, "decryption_key_share", tBytea)
)

func rowBatchConfig(r *kprdb.TendermintBatchConfig) []interface{} {
	return []interface{}{r.KeyperConfigIndex, r.Height, r.Keypers, r.Threshold, r.Started, r.ActivationBlockNumber}
}
func rowEon(r *kprdb.Eon) []interface{} {
	return []interface{}{r.Eon, r.Height, r.ActivationBlockNumber, r.KeyperConfigIndex}
}
func rowDkgResult(r *kprdb.DkgResult) []interface{} {
	return []interface{}{r.Eon, r.Success, r.Error, r.PureResult}
}
func rowKeyShare(r *kprdb.DecryptionKeyShare) []interface{} {
	return []interface{}{r.Eon, r.EpochID, r.KeyperIndex, r.DecryptionKeyShare}
}

// latestEncryptionKeys: SELECT DISTINCT ON (address) ... FROM tendermint_encryption_key ORDER BY address, height DESC
// (text order is byte order, i.e. the "C" collation).
func latestEncryptionKeys(x *execCtx) []kprdb.TendermintEncryptionKey {
	rows := heapOrder(x, x.db.TendermintEncryptionKey)
	sortRows(rows, func(a, b *kprdb.TendermintEncryptionKey) bool {
		if a.Address != b.Address {
			return a.Address < b.Address
		}
		return a.Height > b.Height
	})
	out := []kprdb.TendermintEncryptionKey{}
	for i := range rows {
		if i == 0 || rows[i].Address != rows[i-1].Address {
			out = append(out, rows[i])
		}
	}
	return out
}

// eonForBlock: SELECT ... FROM eons WHERE activation_block_number <= $1 ORDER BY activation_block_number DESC, height DESC LIMIT 1
func eonForBlock(x *execCtx, block int64) (kprdb.Eon, bool) {
	rows := filter(heapOrder(x, x.db.Eons), func(r *kprdb.Eon) bool { return r.ActivationBlockNumber <= block })
	sortRows(rows, func(a, b *kprdb.Eon) bool {
		if a.ActivationBlockNumber != b.ActivationBlockNumber {
			return a.ActivationBlockNumber > b.ActivationBlockNumber
		}
		return a.Height > b.Height
	})
	if len(rows) == 0 {
		return kprdb.Eon{}, false
	}
	return rows[0], true
}

// latestSyncMeta: ... FROM tendermint_sync_meta ORDER BY current_block DESC, last_committed_height DESC LIMIT 1
func latestSyncMeta(x *execCtx) (kprdb.TendermintSyncMetum, bool) {
	rows := append([]kprdb.TendermintSyncMetum{}, x.db.TendermintSyncMeta...)
	sortRows(rows, func(a, b *kprdb.TendermintSyncMetum) bool {
		if a.CurrentBlock != b.CurrentBlock {
			return a.CurrentBlock > b.CurrentBlock
		}
		return a.LastCommittedHeight > b.LastCommittedHeight
	})
	if len(rows) == 0 {
		return kprdb.TendermintSyncMetum{}, false
	}
	return rows[0], true
}

func init() {
	// ------------------------------------------------------------------ meta
	// INSERT INTO meta_inf (key, value) VALUES ($1, $2)
	reg("meta", "InsertMeta", p(tText, tText), nil, true, func(x *execCtx, a args) (*result, error) {
		if err := a.required("meta_inf", 0, "key", 1, "value"); err != nil {
			return nil, err
		}
		if indexOf(x.db.MetaInf, func(r *metadb.MetaInf) bool { return r.Key == a.str(0) }) >= 0 {
			return nil, errUnique("meta_inf", "meta_inf_pkey", "(key)="+fmtKey(a.str(0)))
		}
		x.db.MetaInf = append(x.db.MetaInf, metadb.MetaInf{Key: a.str(0), Value: a.str(1)})
		return tagInsert(1)
	})
	// SELECT value FROM meta_inf WHERE key = $1
	reg("meta", "GetMeta", p(tText), cols("value", tText), false, func(x *execCtx, a args) (*result, error) {
		var rows [][]interface{}
		if !a.null(0) {
			for _, r := range x.db.MetaInf {
				if r.Key == a.str(0) {
					rows = append(rows, []interface{}{r.Value})
				}
			}
		}
		return selected(rows)
	})
	// UPDATE meta_inf SET value = $1 WHERE key = $2
	reg("meta", "UpdateMeta", p(tText, tText), nil, true, func(x *execCtx, a args) (*result, error) {
		if a.null(1) {
			return tagUpdate(0)
		}
		i := indexOf(x.db.MetaInf, func(r *metadb.MetaInf) bool { return r.Key == a.str(1) })
		if i < 0 {
			return tagUpdate(0)
		}
		if a.null(0) {
			return nil, errNotNull("meta_inf", "value")
		}
		x.db.MetaInf[i].Value = a.str(0)
		return tagUpdate(1)
	})

	// ---------------------------------------------------------------- keyper
	// INSERT INTO decryption_key (eon, epoch_id, decryption_key) VALUES ($1, $2, $3) ON CONFLICT DO NOTHING
	reg("keyper", "InsertDecryptionKey", p(tInt8, tBytea, tBytea), nil, true, func(x *execCtx, a args) (*result, error) {
		if err := a.required("decryption_key", 0, "eon", 1, "epoch_id"); err != nil {
			return nil, err
		}
		if indexOf(x.db.DecryptionKey, func(r *kprdb.DecryptionKey) bool { return r.Eon == a.i64(0) && bytes.Equal(r.EpochID, a.bytes(1)) }) >= 0 {
			return tagInsert(0)
		}
		x.db.DecryptionKey = append(x.db.DecryptionKey, kprdb.DecryptionKey{Eon: a.i64(0), EpochID: a.bytes(1), DecryptionKey: a.bytes(2)})
		return tagInsert(1)
	})
	// SELECT * FROM decryption_key WHERE eon = $1 AND epoch_id = $2
	reg("keyper", "GetDecryptionKey", p(tInt8, tBytea), cols("eon", tInt8, "epoch_id", tBytea, "decryption_key", tBytea), false, func(x *execCtx, a args) (*result, error) {
		var rows [][]interface{}
		if !a.null(0) && !a.null(1) {
			for _, r := range x.db.DecryptionKey {
				if r.Eon == a.i64(0) && bytes.Equal(r.EpochID, a.bytes(1)) {
					rows = append(rows, []interface{}{r.Eon, r.EpochID, r.DecryptionKey})
				}
			}
		}
		return selected(rows)
	})
	// SELECT EXISTS (SELECT 1 FROM decryption_key WHERE eon = $1 AND epoch_id = $2)
	reg("keyper", "ExistsDecryptionKey", p(tInt8, tBytea), cols("exists", tBool), false, func(x *execCtx, a args) (*result, error) {
		ok := !a.null(0) && !a.null(1) && indexOf(x.db.DecryptionKey, func(r *kprdb.DecryptionKey) bool { return r.Eon == a.i64(0) && bytes.Equal(r.EpochID, a.bytes(1)) }) >= 0
		return selected([][]interface{}{{ok}})
	})
	// INSERT INTO decryption_key_share (eon, epoch_id, keyper_index, decryption_key_share) VALUES ($1, $2, $3, $4) ON CONFLICT DO NOTHING
	reg("keyper", "InsertDecryptionKeyShare", p(tInt8, tBytea, tInt8, tBytea), nil, true, func(x *execCtx, a args) (*result, error) {
		if err := a.required("decryption_key_share", 0, "eon", 1, "epoch_id", 2, "keyper_index"); err != nil {
			return nil, err
		}
		if indexOf(x.db.DecryptionKeyShare, func(r *kprdb.DecryptionKeyShare) bool {
			return r.Eon == a.i64(0) && bytes.Equal(r.EpochID, a.bytes(1)) && r.KeyperIndex == a.i64(2)
		}) >= 0 {
			return tagInsert(0)
		}
		x.db.DecryptionKeyShare = append(x.db.DecryptionKeyShare, kprdb.DecryptionKeyShare{Eon: a.i64(0), EpochID: a.bytes(1), KeyperIndex: a.i64(2), DecryptionKeyShare: a.bytes(3)})
		return tagInsert(1)
	})
	// SELECT * FROM decryption_key_share WHERE eon = $1 AND epoch_id = $2            (no ORDER BY)
	reg("keyper", "SelectDecryptionKeyShares", p(tInt8, tBytea), colsKeyShare, false, func(x *execCtx, a args) (*result, error) {
		var rows [][]interface{}
		if !a.null(0) && !a.null(1) {
			m := filter(x.db.DecryptionKeyShare, func(r *kprdb.DecryptionKeyShare) bool { return r.Eon == a.i64(0) && bytes.Equal(r.EpochID, a.bytes(1)) })
			for _, r := range heapOrder(x, m) {
				r := r
				rows = append(rows, rowKeyShare(&r))
			}
		}
		return selected(rows)
	})
	// SELECT * FROM decryption_key_share WHERE eon = $1 AND epoch_id = $2 AND keyper_index = $3
	reg("keyper", "GetDecryptionKeyShare", p(tInt8, tBytea, tInt8), colsKeyShare, false, func(x *execCtx, a args) (*result, error) {
		var rows [][]interface{}
		if !a.null(0) && !a.null(1) && !a.null(2) {
			for i := range x.db.DecryptionKeyShare {
				r := &x.db.DecryptionKeyShare[i]
				if r.Eon == a.i64(0) && bytes.Equal(r.EpochID, a.bytes(1)) && r.KeyperIndex == a.i64(2) {
					rows = append(rows, rowKeyShare(r))
				}
			}
		}
		return selected(rows)
	})
	// SELECT EXISTS (SELECT 1 FROM decryption_key_share WHERE eon = $1 AND epoch_id = $2 AND keyper_index = $3)
	reg("keyper", "ExistsDecryptionKeyShare", p(tInt8, tBytea, tInt8), cols("exists", tBool), false, func(x *execCtx, a args) (*result, error) {
		ok := !a.null(0) && !a.null(1) && !a.null(2) && indexOf(x.db.DecryptionKeyShare, func(r *kprdb.DecryptionKeyShare) bool {
			return r.Eon == a.i64(0) && bytes.Equal(r.EpochID, a.bytes(1)) && r.KeyperIndex == a.i64(2)
		}) >= 0
		return selected([][]interface{}{{ok}})
	})
	// SELECT count(*) FROM decryption_key_share WHERE eon = $1 AND epoch_id = $2
	reg("keyper", "CountDecryptionKeyShares", p(tInt8, tBytea), cols("count", tInt8), false, func(x *execCtx, a args) (*result, error) {
		n := int64(0)
		if !a.null(0) && !a.null(1) {
			n = int64(len(filter(x.db.DecryptionKeyShare, func(r *kprdb.DecryptionKeyShare) bool { return r.Eon == a.i64(0) && bytes.Equal(r.EpochID, a.bytes(1)) })))
		}
		return selected([][]interface{}{{n}})
	})
	// INSERT INTO tendermint_batch_config (keyper_config_index, height, keypers, threshold, started, activation_block_number) VALUES ($1..$6)
	reg("keyper", "InsertBatchConfig", p(tInt4, tInt8, tTextArr, tInt4, tBool, tInt8), nil, true, func(x *execCtx, a args) (*result, error) {
		if err := a.required("tendermint_batch_config", 0, "keyper_config_index", 1, "height", 2, "keypers", 3, "threshold", 4, "started", 5, "activation_block_number"); err != nil {
			return nil, err
		}
		if indexOf(x.db.TendermintBatchConfig, func(r *kprdb.TendermintBatchConfig) bool { return r.KeyperConfigIndex == a.i32(0) }) >= 0 {
			return nil, errUnique("tendermint_batch_config", "tendermint_batch_config_pkey", "(keyper_config_index)="+fmtKey(a.i64(0)))
		}
		x.db.TendermintBatchConfig = append(x.db.TendermintBatchConfig, kprdb.TendermintBatchConfig{
			KeyperConfigIndex: a.i32(0), Height: a.i64(1), Keypers: a.strs(2), Threshold: a.i32(3), Started: a.boolean(4), ActivationBlockNumber: a.i64(5)})
		return tagInsert(1)
	})
	// SELECT count(*) FROM tendermint_batch_config
	reg("keyper", "CountBatchConfigs", nil, cols("count", tInt8), false, func(x *execCtx, a args) (*result, error) {
		return selected([][]interface{}{{int64(len(x.db.TendermintBatchConfig))}})
	})
	// SELECT * FROM tendermint_batch_config ORDER BY keyper_config_index DESC LIMIT 1
	reg("keyper", "GetLatestBatchConfig", nil, colsBatchConfig, false, func(x *execCtx, a args) (*result, error) {
		var best *kprdb.TendermintBatchConfig
		for i := range x.db.TendermintBatchConfig {
			if r := &x.db.TendermintBatchConfig[i]; best == nil || r.KeyperConfigIndex > best.KeyperConfigIndex {
				best = r
			}
		}
		if best == nil {
			return selected(nil)
		}
		return selected([][]interface{}{rowBatchConfig(best)})
	})
	// SELECT COUNT(*) FROM tendermint_batch_config WHERE $1 <= activation_block_number AND activation_block_number < $2
	reg("keyper", "CountBatchConfigsInBlockRange", p(tInt8, tInt8), cols("count", tInt8), false, func(x *execCtx, a args) (*result, error) {
		n := int64(0)
		if !a.null(0) && !a.null(1) {
			n = int64(len(filter(x.db.TendermintBatchConfig, func(r *kprdb.TendermintBatchConfig) bool {
				return a.i64(0) <= r.ActivationBlockNumber && r.ActivationBlockNumber < a.i64(1)
			})))
		}
		return selected([][]interface{}{{n}})
	})
	// SELECT COUNT(*) FROM tendermint_batch_config WHERE ($1::TEXT[]) && keypers AND $2 <= activation_block_number AND activation_block_number < $3
	reg("keyper", "CountBatchConfigsInBlockRangeWithKeyper", p(tTextArr, tInt8, tInt8), cols("count", tInt8), false, func(x *execCtx, a args) (*result, error) {
		n := int64(0)
		if !a.null(0) && !a.null(1) && !a.null(2) {
			n = int64(len(filter(x.db.TendermintBatchConfig, func(r *kprdb.TendermintBatchConfig) bool {
				return overlap(a.strs(0), r.Keypers) && a.i64(1) <= r.ActivationBlockNumber && r.ActivationBlockNumber < a.i64(2)
			})))
		}
		return selected([][]interface{}{{n}})
	})
	// SELECT * FROM tendermint_batch_config ORDER BY keyper_config_index
	reg("keyper", "GetBatchConfigs", nil, colsBatchConfig, false, func(x *execCtx, a args) (*result, error) {
		rows := append([]kprdb.TendermintBatchConfig{}, x.db.TendermintBatchConfig...)
		sortRows(rows, func(a, b *kprdb.TendermintBatchConfig) bool { return a.KeyperConfigIndex < b.KeyperConfigIndex })
		var out [][]interface{}
		for i := range rows {
			out = append(out, rowBatchConfig(&rows[i]))
		}
		return selected(out)
	})
	// SELECT * FROM tendermint_batch_config WHERE keyper_config_index = $1
	reg("keyper", "GetBatchConfig", p(tInt4), colsBatchConfig, false, func(x *execCtx, a args) (*result, error) {
		var out [][]interface{}
		if !a.null(0) {
			for i := range x.db.TendermintBatchConfig {
				if r := &x.db.TendermintBatchConfig[i]; r.KeyperConfigIndex == a.i32(0) {
					out = append(out, rowBatchConfig(r))
				}
			}
		}
		return selected(out)
	})
	// UPDATE tendermint_batch_config SET started = TRUE WHERE keyper_config_index = $1
	reg("keyper", "SetBatchConfigStarted", p(tInt4), nil, true, func(x *execCtx, a args) (*result, error) {
		n := 0
		if !a.null(0) {
			for i := range x.db.TendermintBatchConfig {
				if r := &x.db.TendermintBatchConfig[i]; r.KeyperConfigIndex == a.i32(0) {
					r.Started = true
					n++
				}
			}
		}
		return tagUpdate(n)
	})
	// INSERT INTO tendermint_sync_meta (current_block, last_committed_height, sync_timestamp) VALUES ($1, $2, $3)
	reg("keyper", "TMSetSyncMeta", p(tInt8, tInt8, tTimestamp), nil, true, func(x *execCtx, a args) (*result, error) {
		if err := a.required("tendermint_sync_meta", 0, "current_block", 1, "last_committed_height", 2, "sync_timestamp"); err != nil {
			return nil, err
		}
		if indexOf(x.db.TendermintSyncMeta, func(r *kprdb.TendermintSyncMetum) bool {
			return r.CurrentBlock == a.i64(0) && r.LastCommittedHeight == a.i64(1)
		}) >= 0 {
			return nil, errUnique("tendermint_sync_meta", "tendermint_sync_meta_pkey", "(current_block, last_committed_height)="+fmtKey(a.i64(0), a.i64(1)))
		}
		x.db.TendermintSyncMeta = append(x.db.TendermintSyncMeta, kprdb.TendermintSyncMetum{CurrentBlock: a.i64(0), LastCommittedHeight: a.i64(1), SyncTimestamp: a.time(2)})
		return tagInsert(1)
	})
	// SELECT * FROM tendermint_sync_meta ORDER BY current_block DESC, last_committed_height DESC LIMIT 1
	reg("keyper", "TMGetSyncMeta", nil, cols("current_block", tInt8, "last_committed_height", tInt8, "sync_timestamp", tTimestamp), false, func(x *execCtx, a args) (*result, error) {
		r, ok := latestSyncMeta(x)
		if !ok {
			return selected(nil)
		}
		return selected([][]interface{}{{r.CurrentBlock, r.LastCommittedHeight, r.SyncTimestamp}})
	})
	// SELECT last_committed_height FROM tendermint_sync_meta ORDER BY current_block DESC, last_committed_height DESC LIMIT 1
	reg("keyper", "GetLastCommittedHeight", nil, cols("last_committed_height", tInt8), false, func(x *execCtx, a args) (*result, error) {
		r, ok := latestSyncMeta(x)
		if !ok {
			return selected(nil)
		}
		return selected([][]interface{}{{r.LastCommittedHeight}})
	})
	// INSERT INTO puredkg (eon, puredkg) VALUES ($1, $2) ON CONFLICT (eon) DO UPDATE SET puredkg=EXCLUDED.puredkg
	reg("keyper", "InsertPureDKG", p(tInt8, tBytea), nil, true, func(x *execCtx, a args) (*result, error) {
		if err := a.required("puredkg", 0, "eon", 1, "puredkg"); err != nil {
			return nil, err
		}
		if i := indexOf(x.db.Puredkg, func(r *kprdb.Puredkg) bool { return r.Eon == a.i64(0) }); i >= 0 {
			x.db.Puredkg[i].Puredkg = a.bytes(1)
			return tagInsert(1)
		}
		x.db.Puredkg = append(x.db.Puredkg, kprdb.Puredkg{Eon: a.i64(0), Puredkg: a.bytes(1)})
		return tagInsert(1)
	})
	// SELECT * FROM puredkg                                                        (no ORDER BY)
	reg("keyper", "SelectPureDKG", nil, cols("eon", tInt8, "puredkg", tBytea), false, func(x *execCtx, a args) (*result, error) {
		var out [][]interface{}
		for _, r := range heapOrder(x, x.db.Puredkg) {
			out = append(out, []interface{}{r.Eon, r.Puredkg})
		}
		return selected(out)
	})
	// DELETE FROM puredkg WHERE eon=$1
	reg("keyper", "DeletePureDKG", p(tInt8), nil, true, func(x *execCtx, a args) (*result, error) {
		if a.null(0) {
			return tagDelete(0)
		}
		return tagDelete(len(deleteWhere(&x.db.Puredkg, func(r *kprdb.Puredkg) bool { return r.Eon == a.i64(0) })))
	})
	// INSERT INTO tendermint_encryption_key (address, encryption_public_key, height) VALUES ($1, $2, $3)
	// ON CONFLICT (address, height) DO UPDATE SET encryption_public_key = EXCLUDED.encryption_public_key
	reg("keyper", "InsertEncryptionKey", p(tText, tBytea, tInt8), nil, true, func(x *execCtx, a args) (*result, error) {
		if err := a.required("tendermint_encryption_key", 0, "address", 1, "encryption_public_key", 2, "height"); err != nil {
			return nil, err
		}
		if i := indexOf(x.db.TendermintEncryptionKey, func(r *kprdb.TendermintEncryptionKey) bool { return r.Address == a.str(0) && r.Height == a.i64(2) }); i >= 0 {
			x.db.TendermintEncryptionKey[i].EncryptionPublicKey = a.bytes(1)
			return tagInsert(1)
		}
		x.db.TendermintEncryptionKey = append(x.db.TendermintEncryptionKey, kprdb.TendermintEncryptionKey{Address: a.str(0), EncryptionPublicKey: a.bytes(1), Height: a.i64(2)})
		return tagInsert(1)
	})
	// SELECT DISTINCT ON (address) * FROM tendermint_encryption_key ORDER BY address, height DESC
	reg("keyper", "GetEncryptionKeys", nil, cols("address", tText, "encryption_public_key", tBytea, "height", tInt8), false, func(x *execCtx, a args) (*result, error) {
		var out [][]interface{}
		for _, r := range latestEncryptionKeys(x) {
			out = append(out, []interface{}{r.Address, r.EncryptionPublicKey, r.Height})
		}
		return selected(out)
	})
	// INSERT INTO tendermint_outgoing_messages (description, msg) VALUES ($1, $2) RETURNING id        (id SERIAL)
	reg("keyper", "ScheduleSerializedShutterMessage", p(tText, tBytea), cols("id", tInt4), true, func(x *execCtx, a args) (*result, error) {
		// the default (nextval) is evaluated before constraints are checked: a failing insert burns an id
		id, err := x.nextOutgoingMessageID()
		if err != nil {
			return nil, err
		}
		if err := a.required("tendermint_outgoing_messages", 0, "description", 1, "msg"); err != nil {
			return nil, err
		}
		if indexOf(x.db.TendermintOutgoingMessages, func(r *kprdb.TendermintOutgoingMessage) bool { return r.ID == id }) >= 0 {
			return nil, errUnique("tendermint_outgoing_messages", "tendermint_outgoing_messages_pkey", "(id)="+fmtKey(id))
		}
		x.db.TendermintOutgoingMessages = append(x.db.TendermintOutgoingMessages, kprdb.TendermintOutgoingMessage{ID: id, Description: a.str(0), Msg: a.bytes(1)})
		return &result{rows: [][]interface{}{{id}}, tag: "INSERT 0 1"}, nil
	})
	// SELECT * from tendermint_outgoing_messages ORDER BY id LIMIT 1
	reg("keyper", "GetNextShutterMessage", nil, cols("id", tInt4, "description", tText, "msg", tBytea), false, func(x *execCtx, a args) (*result, error) {
		var best *kprdb.TendermintOutgoingMessage
		for i := range x.db.TendermintOutgoingMessages {
			if r := &x.db.TendermintOutgoingMessages[i]; best == nil || r.ID < best.ID {
				best = r
			}
		}
		if best == nil {
			return selected(nil)
		}
		return selected([][]interface{}{{best.ID, best.Description, best.Msg}})
	})
	// DELETE FROM tendermint_outgoing_messages WHERE id=$1
	reg("keyper", "DeleteShutterMessage", p(tInt4), nil, true, func(x *execCtx, a args) (*result, error) {
		if a.null(0) {
			return tagDelete(0)
		}
		return tagDelete(len(deleteWhere(&x.db.TendermintOutgoingMessages, func(r *kprdb.TendermintOutgoingMessage) bool { return r.ID == a.i32(0) })))
	})
	// DELETE FROM tendermint_outgoing_messages WHERE description=$1
	reg("keyper", "DeleteShutterMessageByDesc", p(tText), nil, true, func(x *execCtx, a args) (*result, error) {
		if a.null(0) {
			return tagDelete(0)
		}
		return tagDelete(len(deleteWhere(&x.db.TendermintOutgoingMessages, func(r *kprdb.TendermintOutgoingMessage) bool { return r.Description == a.str(0) })))
	})
	// INSERT INTO eons (eon, height, activation_block_number, keyper_config_index) VALUES ($1, $2, $3, $4)
	reg("keyper", "InsertEon", p(tInt8, tInt8, tInt8, tInt8), nil, true, func(x *execCtx, a args) (*result, error) {
		if err := a.required("eons", 0, "eon", 1, "height", 2, "activation_block_number", 3, "keyper_config_index"); err != nil {
			return nil, err
		}
		if indexOf(x.db.Eons, func(r *kprdb.Eon) bool { return r.Eon == a.i64(0) }) >= 0 {
			return nil, errUnique("eons", "eons_pkey", "(eon)="+fmtKey(a.i64(0)))
		}
		x.db.Eons = append(x.db.Eons, kprdb.Eon{Eon: a.i64(0), Height: a.i64(1), ActivationBlockNumber: a.i64(2), KeyperConfigIndex: a.i64(3)})
		return tagInsert(1)
	})
	// SELECT * FROM eons WHERE eon=$1
	reg("keyper", "GetEon", p(tInt8), colsEon, false, func(x *execCtx, a args) (*result, error) {
		var out [][]interface{}
		if !a.null(0) {
			for i := range x.db.Eons {
				if r := &x.db.Eons[i]; r.Eon == a.i64(0) {
					out = append(out, rowEon(r))
				}
			}
		}
		return selected(out)
	})
	// SELECT * FROM eons WHERE activation_block_number <= $1 ORDER BY activation_block_number DESC, height DESC LIMIT 1
	reg("keyper", "GetEonForBlockNumber", p(tInt8), colsEon, false, func(x *execCtx, a args) (*result, error) {
		if a.null(0) {
			return selected(nil)
		}
		r, ok := eonForBlock(x, a.i64(0))
		if !ok {
			return selected(nil)
		}
		return selected([][]interface{}{rowEon(&r)})
	})
	// SELECT * FROM eons ORDER BY eon
	reg("keyper", "GetAllEons", nil, colsEon, false, func(x *execCtx, a args) (*result, error) {
		rows := append([]kprdb.Eon{}, x.db.Eons...)
		sortRows(rows, func(a, b *kprdb.Eon) bool { return a.Eon < b.Eon })
		var out [][]interface{}
		for i := range rows {
			out = append(out, rowEon(&rows[i]))
		}
		return selected(out)
	})
	// INSERT INTO poly_evals (eon, receiver_address, eval) VALUES ($1, $2, $3)
	reg("keyper", "InsertPolyEval", p(tInt8, tText, tBytea), nil, true, func(x *execCtx, a args) (*result, error) {
		if err := a.required("poly_evals", 0, "eon", 1, "receiver_address", 2, "eval"); err != nil {
			return nil, err
		}
		if indexOf(x.db.PolyEvals, func(r *kprdb.PolyEval) bool { return r.Eon == a.i64(0) && r.ReceiverAddress == a.str(1) }) >= 0 {
			return nil, errUnique("poly_evals", "poly_evals_pkey", "(eon, receiver_address)="+fmtKey(a.i64(0), a.str(1)))
		}
		x.db.PolyEvals = append(x.db.PolyEvals, kprdb.PolyEval{Eon: a.i64(0), ReceiverAddress: a.str(1), Eval: a.bytes(2)})
		return tagInsert(1)
	})
	// WITH latest_keys AS (SELECT DISTINCT ON (address) address, encryption_public_key, height FROM tendermint_encryption_key ORDER BY address, height DESC)
	// SELECT ev.eon, ev.receiver_address, ev.eval, k.encryption_public_key, eon.height
	// FROM poly_evals ev INNER JOIN latest_keys k ON ev.receiver_address = k.address INNER JOIN eons eon ON ev.eon = eon.eon
	// ORDER BY ev.eon
	reg("keyper", "PolyEvalsWithEncryptionKeys", nil, cols("eon", tInt8, "receiver_address", tText, "eval", tBytea, "encryption_public_key", tBytea, "height", tInt8), false, func(x *execCtx, a args) (*result, error) {
		keys := latestEncryptionKeys(x)
		type joined struct {
			ev  kprdb.PolyEval
			key []byte
			h   int64
		}
		var js []joined
		for _, ev := range heapOrder(x, x.db.PolyEvals) {
			ki := indexOf(keys, func(k *kprdb.TendermintEncryptionKey) bool { return k.Address == ev.ReceiverAddress })
			ei := indexOf(x.db.Eons, func(e *kprdb.Eon) bool { return e.Eon == ev.Eon })
			if ki < 0 || ei < 0 {
				continue
			}
			js = append(js, joined{ev, keys[ki].EncryptionPublicKey, x.db.Eons[ei].Height})
		}
		sortRows(js, func(a, b *joined) bool { return a.ev.Eon < b.ev.Eon })
		var out [][]interface{}
		for _, j := range js {
			out = append(out, []interface{}{j.ev.Eon, j.ev.ReceiverAddress, j.ev.Eval, j.key, j.h})
		}
		return selected(out)
	})
	// DELETE FROM poly_evals ev WHERE ev.eon=$1 AND ev.receiver_address=$2
	reg("keyper", "DeletePolyEval", p(tInt8, tText), nil, true, func(x *execCtx, a args) (*result, error) {
		if a.null(0) || a.null(1) {
			return tagDelete(0)
		}
		return tagDelete(len(deleteWhere(&x.db.PolyEvals, func(r *kprdb.PolyEval) bool { return r.Eon == a.i64(0) && r.ReceiverAddress == a.str(1) })))
	})
	// DELETE FROM poly_evals ev WHERE ev.eon=$1
	reg("keyper", "DeletePolyEvalByEon", p(tInt8), nil, true, func(x *execCtx, a args) (*result, error) {
		if a.null(0) {
			return tagDelete(0)
		}
		return tagDelete(len(deleteWhere(&x.db.PolyEvals, func(r *kprdb.PolyEval) bool { return r.Eon == a.i64(0) })))
	})
	// INSERT INTO dkg_result (eon,success,error,pure_result) VALUES ($1,$2,$3,$4)
	reg("keyper", "InsertDKGResult", p(tInt8, tBool, tText, tBytea), nil, true, func(x *execCtx, a args) (*result, error) {
		if err := a.required("dkg_result", 0, "eon", 1, "success"); err != nil {
			return nil, err
		}
		if indexOf(x.db.DkgResult, func(r *kprdb.DkgResult) bool { return r.Eon == a.i64(0) }) >= 0 {
			return nil, errUnique("dkg_result", "dkg_result_pkey", "(eon)="+fmtKey(a.i64(0)))
		}
		x.db.DkgResult = append(x.db.DkgResult, kprdb.DkgResult{Eon: a.i64(0), Success: a.boolean(1), Error: a.nullStr(2), PureResult: a.bytes(3)})
		return tagInsert(1)
	})
	dkgByEon := func(x *execCtx, eon int64) (*result, error) {
		var out [][]interface{}
		for i := range x.db.DkgResult {
			if r := &x.db.DkgResult[i]; r.Eon == eon {
				out = append(out, rowDkgResult(r))
			}
		}
		return selected(out)
	}
	// SELECT * FROM dkg_result WHERE eon = $1
	reg("keyper", "GetDKGResult", p(tInt8), colsDkgResult, false, func(x *execCtx, a args) (*result, error) {
		if a.null(0) {
			return selected(nil)
		}
		return dkgByEon(x, a.i64(0))
	})
	// SELECT * FROM dkg_result WHERE eon = (SELECT eon FROM eons WHERE activation_block_number <= $1 ORDER BY activation_block_number DESC, height DESC LIMIT 1)
	reg("keyper", "GetDKGResultForBlockNumber", p(tInt8), colsDkgResult, false, func(x *execCtx, a args) (*result, error) {
		if a.null(0) {
			return selected(nil)
		}
		e, ok := eonForBlock(x, a.i64(0))
		if !ok {
			return selected(nil)
		}
		return dkgByEon(x, e.Eon)
	})
	// SELECT * FROM dkg_result WHERE eon = (SELECT max(eon) FROM eons WHERE keyper_config_index = $1)
	reg("keyper", "GetDKGResultForKeyperConfigIndex", p(tInt8), colsDkgResult, false, func(x *execCtx, a args) (*result, error) {
		if a.null(0) {
			return selected(nil)
		}
		m := filter(x.db.Eons, func(r *kprdb.Eon) bool { return r.KeyperConfigIndex == a.i64(0) })
		if len(m) == 0 {
			return selected(nil)
		}
		max := m[0].Eon
		for _, r := range m {
			if r.Eon > max {
				max = r.Eon
			}
		}
		return dkgByEon(x, max)
	})
	// SELECT * FROM dkg_result ORDER BY eon ASC
	reg("keyper", "GetAllDKGResults", nil, colsDkgResult, false, func(x *execCtx, a args) (*result, error) {
		rows := append([]kprdb.DkgResult{}, x.db.DkgResult...)
		sortRows(rows, func(a, b *kprdb.DkgResult) bool { return a.Eon < b.Eon })
		var out [][]interface{}
		for i := range rows {
			out = append(out, rowDkgResult(&rows[i]))
		}
		return selected(out)
	})
	// INSERT INTO outgoing_eon_keys (eon_public_key, eon) VALUES ($1, $2)
	reg("keyper", "InsertEonPublicKey", p(tBytea, tInt8), nil, true, func(x *execCtx, a args) (*result, error) {
		if err := a.required("outgoing_eon_keys", 1, "eon"); err != nil {
			return nil, err
		}
		if indexOf(x.db.OutgoingEonKeys, func(r *kprdb.OutgoingEonKey) bool { return r.Eon == a.i64(1) }) >= 0 {
			return nil, errUnique("outgoing_eon_keys", "outgoing_eon_keys_pkey", "(eon)="+fmtKey(a.i64(1)))
		}
		x.db.OutgoingEonKeys = append(x.db.OutgoingEonKeys, kprdb.OutgoingEonKey{EonPublicKey: a.bytes(0), Eon: a.i64(1)})
		return tagInsert(1)
	})
	// WITH t1 AS (DELETE FROM outgoing_eon_keys RETURNING *)
	// SELECT t1.*, eons.activation_block_number, tbc.keypers, tbc.keyper_config_index
	// FROM t1 INNER JOIN eons ON t1.eon = eons.eon INNER JOIN tendermint_batch_config tbc ON eons.keyper_config_index = tbc.keyper_config_index
	// (all rows are deleted, also those that do not survive the joins; no ORDER BY)
	reg("keyper", "GetAndDeleteEonPublicKeys", nil, cols("eon_public_key", tBytea, "eon", tInt8, "activation_block_number", tInt8, "keypers", tTextArr, "keyper_config_index", tInt4), true, func(x *execCtx, a args) (*result, error) {
		var out [][]interface{}
		for _, k := range heapOrder(x, x.db.OutgoingEonKeys) {
			ei := indexOf(x.db.Eons, func(e *kprdb.Eon) bool { return e.Eon == k.Eon })
			if ei < 0 {
				continue
			}
			e := x.db.Eons[ei]
			bi := indexOf(x.db.TendermintBatchConfig, func(b *kprdb.TendermintBatchConfig) bool { return int64(b.KeyperConfigIndex) == e.KeyperConfigIndex })
			if bi < 0 {
				continue
			}
			b := x.db.TendermintBatchConfig[bi]
			out = append(out, []interface{}{k.EonPublicKey, k.Eon, e.ActivationBlockNumber, b.Keypers, b.KeyperConfigIndex})
		}
		x.db.OutgoingEonKeys = nil
		return selected(out)
	})
	// INSERT INTO last_batch_config_sent (keyper_config_index) VALUES ($1) ON CONFLICT (enforce_one_row) DO UPDATE SET keyper_config_index = $1
	reg("keyper", "SetLastBatchConfigProcessed", p(tInt8), nil, true, func(x *execCtx, a args) (*result, error) {
		if err := a.required("last_batch_config_sent", 0, "keyper_config_index"); err != nil {
			return nil, err
		}
		if i := indexOf(x.db.LastBatchConfigSent, func(r *kprdb.LastBatchConfigSent) bool { return r.EnforceOneRow }); i >= 0 {
			x.db.LastBatchConfigSent[i].KeyperConfigIndex = a.i64(0)
			return tagInsert(1)
		}
		x.db.LastBatchConfigSent = append(x.db.LastBatchConfigSent, kprdb.LastBatchConfigSent{EnforceOneRow: true, KeyperConfigIndex: a.i64(0)})
		return tagInsert(1)
	})
	// SELECT keyper_config_index FROM last_batch_config_sent LIMIT 1
	reg("keyper", "GetLastBatchConfigProcessed", nil, cols("keyper_config_index", tInt8), false, func(x *execCtx, a args) (*result, error) {
		rows := heapOrder(x, x.db.LastBatchConfigSent)
		if len(rows) == 0 {
			return selected(nil)
		}
		return selected([][]interface{}{{rows[0].KeyperConfigIndex}})
	})
	// INSERT INTO last_block_seen (block_number) VALUES ($1) ON CONFLICT (enforce_one_row) DO UPDATE SET block_number = $1
	reg("keyper", "SetLastBlockSeen", p(tInt8), nil, true, func(x *execCtx, a args) (*result, error) {
		if err := a.required("last_block_seen", 0, "block_number"); err != nil {
			return nil, err
		}
		if i := indexOf(x.db.LastBlockSeen, func(r *kprdb.LastBlockSeen) bool { return r.EnforceOneRow }); i >= 0 {
			x.db.LastBlockSeen[i].BlockNumber = a.i64(0)
			return tagInsert(1)
		}
		x.db.LastBlockSeen = append(x.db.LastBlockSeen, kprdb.LastBlockSeen{EnforceOneRow: true, BlockNumber: a.i64(0)})
		return tagInsert(1)
	})
	// SELECT block_number FROM last_block_seen LIMIT 1
	reg("keyper", "GetLastBlockSeen", nil, cols("block_number", tInt8), false, func(x *execCtx, a args) (*result, error) {
		rows := heapOrder(x, x.db.LastBlockSeen)
		if len(rows) == 0 {
			return selected(nil)
		}
		return selected([][]interface{}{{rows[0].BlockNumber}})
	})
	// SELECT ($1::TEXT[] && tbc.keypers)::BOOL AS is_keyper FROM tendermint_batch_config AS tbc
	// LEFT JOIN eons ON eons.keyper_config_index = tbc.keyper_config_index WHERE eons.eon = $2
	reg("keyper", "GetKeyperStateForEon", p(tTextArr, tInt8), cols("is_keyper", tBool), false, func(x *execCtx, a args) (*result, error) {
		var out [][]interface{}
		if a.null(1) {
			return selected(nil)
		}
		for _, b := range heapOrder(x, x.db.TendermintBatchConfig) {
			for _, e := range x.db.Eons {
				if e.KeyperConfigIndex == int64(b.KeyperConfigIndex) && e.Eon == a.i64(1) {
					if a.null(0) {
						out = append(out, []interface{}{nil})
					} else {
						out = append(out, []interface{}{overlap(a.strs(0), b.Keypers)})
					}
				}
			}
		}
		return selected(out)
	})
	// SELECT max(eons.eon)::INT FROM eons WHERE eons.keyper_config_index = $1
	// (always one row; NULL if there is no such eon; error 22003 if the maximum does not fit into int4)
	reg("keyper", "GetLatestEonForKeyperConfig", p(tInt8), cols("max", tInt4), false, func(x *execCtx, a args) (*result, error) {
		var max interface{}
		if !a.null(0) {
			for _, r := range x.db.Eons {
				if r.KeyperConfigIndex == a.i64(0) && (max == nil || r.Eon > max.(int64)) {
					max = r.Eon
				}
			}
		}
		if max != nil && (max.(int64) > math.MaxInt32 || max.(int64) < math.MinInt32) {
			return nil, errOutOfRange("integer")
		}
		return selected([][]interface{}{{max}})
	})
	// SELECT * FROM eons WHERE keyper_config_index = $1 ORDER BY eon DESC LIMIT 1
	reg("keyper", "GetLatestStartedEonByKeyperConfigIndex", p(tInt8), colsEon, false, func(x *execCtx, a args) (*result, error) {
		if a.null(0) {
			return selected(nil)
		}
		var best *kprdb.Eon
		for i := range x.db.Eons {
			if r := &x.db.Eons[i]; r.KeyperConfigIndex == a.i64(0) && (best == nil || r.Eon > best.Eon) {
				best = r
			}
		}
		if best == nil {
			return selected(nil)
		}
		return selected([][]interface{}{rowEon(best)})
	})
}
