package fakepg

import (
	"database/sql"
	"fmt"
	"math"
	"time"

	"github.com/jackc/pgtype"
)

// type OIDs used by the schemas
const (
	tBool        uint32 = pgtype.BoolOID
	tBytea       uint32 = pgtype.ByteaOID
	tInt8        uint32 = pgtype.Int8OID
	tInt2        uint32 = pgtype.Int2OID
	tInt4        uint32 = pgtype.Int4OID
	tText        uint32 = pgtype.TextOID
	tTimestamp   uint32 = pgtype.TimestampOID
	tTimestamptz uint32 = pgtype.TimestamptzOID
	tTextArr     uint32 = pgtype.TextArrayOID
	tInt8Arr     uint32 = pgtype.Int8ArrayOID
	tByteaArr    uint32 = pgtype.ByteaArrayOID
)

func typeSize(oid uint32) int16 {
	switch oid {
	case tBool:
		return 1
	case tInt2:
		return 2
	case tInt4:
		return 4
	case tInt8, tTimestamp, tTimestamptz:
		return 8
	}
	return -1
}

func typeName(oid uint32) string {
	switch oid {
	case tBool:
		return "boolean"
	case tBytea:
		return "bytea"
	case tInt8:
		return "bigint"
	case tInt2:
		return "smallint"
	case tInt4:
		return "integer"
	case tText:
		return "text"
	case tTimestamp:
		return "timestamp without time zone"
	case tTimestamptz:
		return "timestamp with time zone"
	case tTextArr:
		return "text[]"
	case tInt8Arr:
		return "bigint[]"
	case tByteaArr:
		return "bytea[]"
	}
	return fmt.Sprintf("oid %d", oid)
}

var connInfo = pgtype.NewConnInfo()

type textBinaryDecoder interface {
	DecodeText(ci *pgtype.ConnInfo, src []byte) error
	DecodeBinary(ci *pgtype.ConnInfo, src []byte) error
}

type textBinaryEncoder interface {
	EncodeText(ci *pgtype.ConnInfo, buf []byte) ([]byte, error)
	EncodeBinary(ci *pgtype.ConnInfo, buf []byte) ([]byte, error)
}

func invalidParam(oid uint32, err error) error {
	code := "22P03" // invalid_binary_representation
	return &PgError{Code: code, Message: fmt.Sprintf("invalid input for parameter of type %s: %v", typeName(oid), err)}
}

// decodeParam decodes one Bind parameter into a plain Go value:
// nil (NULL), int64 (int2/int4/int8), bool, []byte, string, time.Time,
// []string, []int64, [][]byte.
func decodeParam(oid uint32, format int16, src []byte) (interface{}, error) {
	if src == nil {
		return nil, nil
	}
	dec := func(d textBinaryDecoder) error {
		// the wire buffer is reused: decode from a private copy
		cp := append([]byte{}, src...)
		var err error
		if format == 1 {
			err = d.DecodeBinary(connInfo, cp)
		} else {
			err = d.DecodeText(connInfo, cp)
		}
		if err != nil {
			return invalidParam(oid, err)
		}
		return nil
	}
	switch oid {
	case tInt8:
		var v pgtype.Int8
		if err := dec(&v); err != nil {
			return nil, err
		}
		return v.Int, nil
	case tInt4:
		var v pgtype.Int4
		if err := dec(&v); err != nil {
			return nil, err
		}
		return int64(v.Int), nil
	case tInt2:
		var v pgtype.Int2
		if err := dec(&v); err != nil {
			return nil, err
		}
		return int64(v.Int), nil
	case tBool:
		var v pgtype.Bool
		if err := dec(&v); err != nil {
			return nil, err
		}
		return v.Bool, nil
	case tBytea:
		var v pgtype.Bytea
		if err := dec(&v); err != nil {
			return nil, err
		}
		if v.Bytes == nil {
			return []byte{}, nil
		}
		return v.Bytes, nil
	case tText:
		var v pgtype.Text
		if err := dec(&v); err != nil {
			return nil, err
		}
		return v.String, nil
	case tTimestamp:
		var v pgtype.Timestamp
		if err := dec(&v); err != nil {
			return nil, err
		}
		if v.InfinityModifier != pgtype.None {
			return nil, &PgError{Code: "0A000", Message: "fakepg: infinite timestamps are not supported"}
		}
		return v.Time, nil
	case tTimestamptz:
		var v pgtype.Timestamptz
		if err := dec(&v); err != nil {
			return nil, err
		}
		if v.InfinityModifier != pgtype.None {
			return nil, &PgError{Code: "0A000", Message: "fakepg: infinite timestamps are not supported"}
		}
		return v.Time, nil
	case tTextArr:
		var v pgtype.TextArray
		if err := dec(&v); err != nil {
			return nil, err
		}
		if len(v.Dimensions) > 1 {
			return nil, &PgError{Code: "0A000", Message: "fakepg: multidimensional arrays are not supported"}
		}
		out := make([]string, len(v.Elements))
		for i, e := range v.Elements {
			if e.Status != pgtype.Present {
				return nil, &PgError{Code: "0A000", Message: "fakepg: NULL array elements are not supported"}
			}
			out[i] = e.String
		}
		return out, nil
	case tInt8Arr:
		var v pgtype.Int8Array
		if err := dec(&v); err != nil {
			return nil, err
		}
		if len(v.Dimensions) > 1 {
			return nil, &PgError{Code: "0A000", Message: "fakepg: multidimensional arrays are not supported"}
		}
		out := make([]int64, len(v.Elements))
		for i, e := range v.Elements {
			if e.Status != pgtype.Present {
				return nil, &PgError{Code: "0A000", Message: "fakepg: NULL array elements are not supported"}
			}
			out[i] = e.Int
		}
		return out, nil
	case tByteaArr:
		var v pgtype.ByteaArray
		if err := dec(&v); err != nil {
			return nil, err
		}
		if len(v.Dimensions) > 1 {
			return nil, &PgError{Code: "0A000", Message: "fakepg: multidimensional arrays are not supported"}
		}
		out := make([][]byte, len(v.Elements))
		for i, e := range v.Elements {
			if e.Status != pgtype.Present {
				return nil, &PgError{Code: "0A000", Message: "fakepg: NULL array elements are not supported"}
			}
			if e.Bytes == nil {
				out[i] = []byte{}
			} else {
				out[i] = e.Bytes
			}
		}
		return out, nil
	}
	return nil, &PgError{Code: "0A000", Message: fmt.Sprintf("fakepg: unsupported parameter type oid %d", oid)}
}

func toInt64(v interface{}) (int64, bool) {
	switch x := v.(type) {
	case int64:
		return x, true
	case int32:
		return int64(x), true
	case int16:
		return int64(x), true
	case int:
		return int64(x), true
	case uint32:
		return int64(x), true
	}
	return 0, false
}

// encodeValue encodes one result value. v == nil (or an invalid sql.Null*, or
// a nil []byte / nil slice) is NULL and encoded as a nil slice.
func encodeValue(oid uint32, format int16, v interface{}) ([]byte, error) {
	switch x := v.(type) {
	case nil:
		return nil, nil
	case sql.NullString:
		if !x.Valid {
			return nil, nil
		}
		v = x.String
	case sql.NullInt64:
		if !x.Valid {
			return nil, nil
		}
		v = x.Int64
	case sql.NullBool:
		if !x.Valid {
			return nil, nil
		}
		v = x.Bool
	}
	enc := func(e textBinaryEncoder) ([]byte, error) {
		var out []byte
		var err error
		if format == 1 {
			out, err = e.EncodeBinary(connInfo, []byte{})
		} else {
			out, err = e.EncodeText(connInfo, []byte{})
		}
		if err != nil {
			return nil, err
		}
		if out == nil {
			out = []byte{}
		}
		return out, nil
	}
	bad := func() ([]byte, error) {
		return nil, fmt.Errorf("fakepg: cannot encode %T as %s", v, typeName(oid))
	}
	switch oid {
	case tInt8:
		n, ok := toInt64(v)
		if !ok {
			return bad()
		}
		return enc(pgtype.Int8{Int: n, Status: pgtype.Present})
	case tInt4:
		n, ok := toInt64(v)
		if !ok {
			return bad()
		}
		if n < math.MinInt32 || n > math.MaxInt32 {
			return nil, &PgError{Code: "22003", Message: "integer out of range"}
		}
		return enc(pgtype.Int4{Int: int32(n), Status: pgtype.Present})
	case tInt2:
		n, ok := toInt64(v)
		if !ok {
			return bad()
		}
		if n < math.MinInt16 || n > math.MaxInt16 {
			return nil, &PgError{Code: "22003", Message: "smallint out of range"}
		}
		return enc(pgtype.Int2{Int: int16(n), Status: pgtype.Present})
	case tBool:
		b, ok := v.(bool)
		if !ok {
			return bad()
		}
		return enc(pgtype.Bool{Bool: b, Status: pgtype.Present})
	case tBytea:
		b, ok := v.([]byte)
		if !ok {
			return bad()
		}
		if b == nil {
			return nil, nil
		}
		return enc(pgtype.Bytea{Bytes: b, Status: pgtype.Present})
	case tText:
		s, ok := v.(string)
		if !ok {
			return bad()
		}
		return enc(pgtype.Text{String: s, Status: pgtype.Present})
	case tTimestamp:
		t, ok := v.(time.Time)
		if !ok {
			return bad()
		}
		var ts pgtype.Timestamp
		if err := ts.Set(t); err != nil {
			return nil, err
		}
		return enc(ts)
	case tTimestamptz:
		t, ok := v.(time.Time)
		if !ok {
			return bad()
		}
		return enc(pgtype.Timestamptz{Time: t, Status: pgtype.Present})
	case tTextArr:
		s, ok := v.([]string)
		if !ok {
			return bad()
		}
		if s == nil {
			return nil, nil
		}
		var a pgtype.TextArray
		if err := a.Set(s); err != nil {
			return nil, err
		}
		return enc(a)
	case tInt8Arr:
		s, ok := v.([]int64)
		if !ok {
			return bad()
		}
		if s == nil {
			return nil, nil
		}
		var a pgtype.Int8Array
		if err := a.Set(s); err != nil {
			return nil, err
		}
		return enc(a)
	case tByteaArr:
		s, ok := v.([][]byte)
		if !ok {
			return bad()
		}
		if s == nil {
			return nil, nil
		}
		var a pgtype.ByteaArray
		if err := a.Set(s); err != nil {
			return nil, err
		}
		return enc(a)
	}
	return bad()
}

// args are the decoded parameters of one statement execution.
type args []interface{}

func (a args) null(i int) bool { return a[i] == nil }

func (a args) i64(i int) int64 {
	if a[i] == nil {
		return 0
	}
	return a[i].(int64)
}
func (a args) i32(i int) int32 { return int32(a.i64(i)) }
func (a args) boolean(i int) bool {
	if a[i] == nil {
		return false
	}
	return a[i].(bool)
}
func (a args) bytes(i int) []byte {
	if a[i] == nil {
		return nil
	}
	return a[i].([]byte)
}
func (a args) str(i int) string {
	if a[i] == nil {
		return ""
	}
	return a[i].(string)
}
func (a args) time(i int) time.Time {
	if a[i] == nil {
		return time.Time{}
	}
	return a[i].(time.Time)
}
func (a args) strs(i int) []string {
	if a[i] == nil {
		return nil
	}
	return a[i].([]string)
}
func (a args) i64s(i int) []int64 {
	if a[i] == nil {
		return nil
	}
	return a[i].([]int64)
}
func (a args) bytess(i int) [][]byte {
	if a[i] == nil {
		return nil
	}
	return a[i].([][]byte)
}
func (a args) nullStr(i int) sql.NullString {
	if a[i] == nil {
		return sql.NullString{}
	}
	return sql.NullString{String: a[i].(string), Valid: true}
}
func (a args) nullI64(i int) sql.NullInt64 {
	if a[i] == nil {
		return sql.NullInt64{}
	}
	return sql.NullInt64{Int64: a[i].(int64), Valid: true}
}
